(** Views, cores, chaining.  A [view] is the model of a Rust value implementing [View<T>];
    a [core] is the part of a unary wrapper that runs on the inner view's output. *)
From Coq Require Import List Arith Lia.
From SF Require Import Res Scalar.
Import ListNotations.
Set Implicit Arguments.

Section Views.
Variable T : Type.

Record view := {
  vst : Type;
  vnew : res vst;                       (* the constructor; [Err AssertFailed] when it panics *)
  vupd : vst -> T -> res vst;           (* [update] *)
  vlast : vst -> res (option T);        (* [last] *)
  vpop : vst -> nat;                    (* number of elements held in all queues / vectors *)
}.

Record core := {
  cst : Type;
  cnew : res cst;
  cstep : cst -> T -> res cst;          (* the body of [update] after `let Some(val) = view.last()` *)
  clast : cst -> res (option T);
  cpop : cst -> nat;
}.

(** [pub struct Echo] *)
Definition echo : view := {|
  vst := option T; vnew := Ok None;
  vupd := fun _ x => Ok (Some x);
  vlast := fun s => Ok s;
  vpop := fun _ => 0 |}.

(** The shape shared by every unary wrapper:
    [self.view.update(val); let Some(val) = self.view.last() else { return }; <core step>] *)
Definition wrap (c : core) (a : view) : view := {|
  vst := (vst a * cst c)%type;
  vnew := do sa <- vnew a; do sc <- cnew c; Ok (sa, sc);
  vupd := fun s x =>
    do sa <- vupd a (fst s) x;
    do o <- vlast a sa;
    match o with
    | None => Ok (sa, snd s)
    | Some v => do sc <- cstep c (snd s) v; Ok (sa, sc)
    end;
  vlast := fun s => clast c (snd s);
  vpop := fun s => vpop a (fst s) + cpop c (snd s) |}.

(** A core run stand-alone is the wrapper over [Echo]. *)
Definition standalone (c : core) : view := wrap c echo.

(** Binary combinators: forward the raw input to both children, combine in [last]. *)
Definition binop (f : T -> T -> res T) (a b : view) : view := {|
  vst := (vst a * vst b)%type;
  vnew := do sa <- vnew a; do sb <- vnew b; Ok (sa, sb);
  vupd := fun s x => do sa <- vupd a (fst s) x; do sb <- vupd b (snd s) x; Ok (sa, sb);
  vlast := fun s =>
    do oa <- vlast a (fst s); do ob <- vlast b (snd s);
    match oa, ob with
    | Some x, Some y => do r <- f x y; Ok (Some r)
    | _, _ => Ok None
    end;
  vpop := fun s => vpop a (fst s) + vpop b (snd s) |}.

(** A wrapper that computes in [last] from the child's current output (Tanh). *)
Definition mapview (f : T -> res T) (a : view) : view := {|
  vst := vst a; vnew := vnew a; vupd := vupd a;
  vlast := fun s => do o <- vlast a s;
                    match o with None => Ok None | Some v => do r <- f v; Ok (Some r) end;
  vpop := vpop a |}.

(** * Runs *)

(** outputs after each update; the run stops at the first error *)
Inductive obs := ONone | OSome (v : T) | OErr.

Definition obs_of (r : res (option T)) : obs :=
  match r with Ok None => ONone | Ok (Some v) => OSome v | Err _ => OErr end.

Fixpoint run_from (v : view) (s : vst v) (xs : list T) : list obs :=
  match xs with
  | [] => []
  | x :: xs' =>
      match vupd v s x with
      | Err _ => [OErr]
      | Ok s' =>
          match vlast v s' with
          | Err _ => [OErr]
          | Ok o => obs_of (Ok o) :: run_from v s' xs'
          end
      end
  end.

Definition run (v : view) (xs : list T) : option (list obs) :=
  match vnew v with Err _ => None | Ok s => Some (run_from v s xs) end.

(** state after a list of updates *)
Fixpoint steps (v : view) (s : vst v) (xs : list T) : res (vst v) :=
  match xs with [] => Ok s | x :: xs' => do s' <- vupd v s x; steps v s' xs' end.

Definition state_after (v : view) (xs : list T) : res (vst v) := do s <- vnew v; steps v s xs.

(** monadic run: [Ok outs] iff no step and no [last] failed *)
Fixpoint mrun_from (v : view) (s : vst v) (xs : list T) : res (list (option T)) :=
  match xs with
  | [] => Ok []
  | x :: xs' => do s' <- vupd v s x; do o <- vlast v s'; do r <- mrun_from v s' xs'; Ok (o :: r)
  end.
Definition mrun (v : view) (xs : list T) : res (list (option T)) := do s <- vnew v; mrun_from v s xs.

(** replay of a core on a stream of optional values (what "feeding a stand-alone B built over Echo,
    only when A has an output" means) *)
Fixpoint replay_from (c : core) (s : cst c) (os : list (option T)) : res (list (option T)) :=
  match os with
  | [] => Ok []
  | None :: os' => do o <- clast c s; do r <- replay_from c s os'; Ok (o :: r)
  | Some v :: os' => do s' <- cstep c s v; do o <- clast c s'; do r <- replay_from c s' os'; Ok (o :: r)
  end.

End Views.

Arguments echo {T}.
Arguments ONone {T}.
Arguments OErr {T}.
