(** Side-condition / spec functions of the f64 accuracy theorems for the views that do a few rounded operations per
    answer (Roc, Drawdown, CenterOfGravity), as functions of the history (oldest value first).
    No proofs, generic in the scalar, executable at [Q]. *)
From Coq Require Import List Arith Bool ZArith.
From SF Require Import Res Scalar Spec SpecWinA SpecCorr.
Import ListNotations.
Set Implicit Arguments.

Section SpecFAccB.
Context {T : Type} {OT : Ops T}.

(** Roc: is the answer HELD at the step that receives [v] after the history [seen]?  (base = 0) *)
Definition roc_base_is0 (n : nat) (seen : list T) (v : T) : bool := seqb (roc_base n seen v) s0.

(** CenterOfGravity: the weighted sum  len*x_oldest + ... + 1*x_newest  over the window [lastn n h] -- the largest
    quantity the view computes (for positive inputs); the no-overflow side condition bounds it *)
Definition cog_wsum (n : nat) (h : list T) : T := cog_num (lastn n h).

End SpecFAccB.
