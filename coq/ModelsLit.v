(** LITERAL models of the three views whose buffers [Models.v] abstracts to "what is read from them":
    LaguerreFilter (laguerre_filter.rs), LaguerreRSI (laguerre_rsi.rs), CyberCycle (cyber_cycle.rs).
    Every [Vec]/[VecDeque] of the Rust struct is a list in the state (push = [++ [x]], oldest first),
    every index expression is computed ([usub] for [usize] subtraction, [getq] for [q[i]] and
    [q.get(i).unwrap()]), pushes and reads happen in the order of the Rust statements, and the
    [smooth] vector of CyberCycle is persistent state rewritten by the loop.
    Definitions only; the equivalence with the abstract cores of Models.v is proved in Proofs/LitP.v. *)
From Coq Require Import List Arith Lia ZArith Bool.
From SF Require Import Res Scalar View Models.
Import ListNotations.
Set Implicit Arguments.

Section ModelsLit.
Context {T : Type} {OT : Ops T}.

Notation "a +. b" := (sadd a b) (at level 50, left associativity).
Notation "a -. b" := (ssub a b) (at level 50, left associativity).
Notation "a *. b" := (smul a b) (at level 40, left associativity).

(** [Vec::remove(0)]: panics (index out of bounds) on an empty vector, else drops element 0 *)
Definition vec_remove0 (q : list T) : res (list T) :=
  match q with [] => Err IndexOOB | _ :: q' => Ok q' end.

(** [VecDeque::pop_front()] whose result is discarded (no [unwrap]): total *)
Definition pop_front_discard (q : list T) : list T := tl q.

(** [VecDeque::get(i)] : [Option<&T>] *)
Definition get_opt (q : list T) (i : nat) : option T := nth_error q i.

(** [a >= b] on [Option<&T>] (derived [PartialOrd]: [None < Some _], [Some] compared by content) *)
Definition opt_geb (a b : option T) : bool :=
  match a, b with
  | Some x, Some y => sgeb x y
  | Some _, None => true
  | None, Some _ => false
  | None, None => true
  end.

(** [*p = x] through the [i]-th [&mut] of [iter_mut()] *)
Fixpoint upd_nth (q : list T) (i : nat) (x : T) : list T :=
  match q, i with
  | [], _ => []
  | _ :: r, O => x :: r
  | y :: r, S j => y :: upd_nth r j x
  end.

(* ------------------------------------------------------------------ laguerre_filter.rs *)

Record lagl_st := { ll_l0s : list T; ll_l1s : list T; ll_l2s : list T; ll_l3s : list T; ll_filts : list T }.

Definition laguerre_step_lit (g : T) (s : lagl_st) (v : T) : res lagl_st :=
  let two := sofdec 2 0 in                                            (* l.56 *)
  let l0s := ll_l0s s in let l1s := ll_l1s s in let l2s := ll_l2s s in
  let l3s := ll_l3s s in let filts := ll_filts s in
  match l0s with
  | [] =>                                                             (* l.57 is_empty *)
      let l0s := l0s ++ [v] in                                        (* l.58 *)
      let l1s := l1s ++ [v] in                                        (* l.59 *)
      let l2s := l2s ++ [v] in                                        (* l.60 *)
      let l3s := l3s ++ [v] in                                        (* l.61 *)
      do a <- getq l0s 0; do b <- getq l1s 0; do c <- getq l2s 0; do d <- getq l3s 0;   (* l.63 *)
      do o <- sdiv (a +. two *. b +. two *. c +. d) (sofdec 6 0);     (* l.64 *)
      let filts := filts ++ [o] in                                    (* l.62 *)
      Ok {| ll_l0s := l0s; ll_l1s := l1s; ll_l2s := l2s; ll_l3s := l3s; ll_filts := filts |}   (* l.66 *)
  | _ :: _ =>
      (* l.68-69 : the argument is evaluated before the push *)
      do i <- usub (length l0s) 1; do p0 <- getq l0s i;
      let l0s := l0s ++ [(s1 -. g) *. v +. g *. p0] in
      (* l.70-74 *)
      do i <- usub (length l0s) 1; do a <- getq l0s i;
      do j <- usub (length l0s) 2; do b <- getq l0s j;
      do k <- usub (length l1s) 1; do c <- getq l1s k;
      let l1s := l1s ++ [sneg g *. a +. b +. g *. c] in
      (* l.75-79 *)
      do i <- usub (length l1s) 1; do a <- getq l1s i;
      do j <- usub (length l1s) 2; do b <- getq l1s j;
      do k <- usub (length l2s) 1; do c <- getq l2s k;
      let l2s := l2s ++ [sneg g *. a +. b +. g *. c] in
      (* l.80-84 *)
      do i <- usub (length l2s) 1; do a <- getq l2s i;
      do j <- usub (length l2s) 2; do b <- getq l2s j;
      do k <- usub (length l3s) 1; do c <- getq l3s k;
      let l3s := l3s ++ [sneg g *. a +. b +. g *. c] in
      (* l.85-89 *)
      do i0 <- usub (length l0s) 1; do a <- getq l0s i0;
      do i1 <- usub (length l1s) 1; do b <- getq l1s i1;
      do i2 <- usub (length l2s) 1; do c <- getq l2s i2;
      do i3 <- usub (length l3s) 1; do d <- getq l3s i3;
      do out <- sdiv (a +. two *. b +. two *. c +. d) (sofdec 6 0);
      let filts := filts ++ [out] in                                  (* l.91 *)
      if Nat.ltb 2 (length l0s) then                                  (* l.93 *)
        do l0s <- vec_remove0 l0s;                                    (* l.94 *)
        do l1s <- vec_remove0 l1s;                                    (* l.95 *)
        do l2s <- vec_remove0 l2s;                                    (* l.96 *)
        do l3s <- vec_remove0 l3s;                                    (* l.97 *)
        do filts <- vec_remove0 filts;                                (* l.98 *)
        Ok {| ll_l0s := l0s; ll_l1s := l1s; ll_l2s := l2s; ll_l3s := l3s; ll_filts := filts |}
      else
        Ok {| ll_l0s := l0s; ll_l1s := l1s; ll_l2s := l2s; ll_l3s := l3s; ll_filts := filts |}
  end.

(** [LaguerreFilter::new(view, gamma)] (l.32-42): five empty vectors, gamma stored as given;
    [last()] = [self.filts.last().copied()] (l.103) *)
Definition laguerre_core_lit (g : T) : core T := {|
  cst := lagl_st;
  cnew := Ok {| ll_l0s := []; ll_l1s := []; ll_l2s := []; ll_l3s := []; ll_filts := [] |};
  cstep := laguerre_step_lit g;
  clast := fun s => Ok (last_opt (ll_filts s));
  cpop := fun s => length (ll_l0s s) + length (ll_l1s s) + length (ll_l2s s) + length (ll_l3s s)
                   + length (ll_filts s) |}.

(* ------------------------------------------------------------------ laguerre_rsi.rs *)

Record lrsil_st := { rl_value : option T; rl_gamma : T;
                     rl_l0s : list T; rl_l1s : list T; rl_l2s : list T; rl_l3s : list T;
                     rl_window_len : nat }.

Definition lrsi_step_lit (s : lrsil_st) (v : T) : res lrsil_st :=
  let g := rl_gamma s in
  (* l.59-64 *)
  let '(l0s, l1s, l2s, l3s) :=
    if Nat.leb 3 (length (rl_l0s s))
    then (pop_front_discard (rl_l0s s), pop_front_discard (rl_l1s s),
          pop_front_discard (rl_l2s s), pop_front_discard (rl_l3s s))
    else (rl_l0s s, rl_l1s s, rl_l2s s, rl_l3s s) in
  if Nat.ltb (length l0s) 2 then                                      (* l.66 *)
    Ok {| rl_value := rl_value s; rl_gamma := g;
          rl_l0s := l0s ++ [s0]; rl_l1s := l1s ++ [s0]; rl_l2s := l2s ++ [s0]; rl_l3s := l3s ++ [s0];
          rl_window_len := rl_window_len s |}                         (* l.67-71 *)
  else
    do last <- usub (length l0s) 1;                                   (* l.73 *)
    do p0 <- getq l0s last;                                           (* l.74-76 *)
    let l0s := l0s ++ [(s1 -. g) *. v +. g *. p0] in
    do a <- getq l0s (last + 1); do b <- getq l0s last; do c <- getq l1s last;   (* l.77-81 *)
    let l1s := l1s ++ [sneg g *. a +. b +. g *. c] in
    do a <- getq l1s (last + 1); do b <- getq l1s last; do c <- getq l2s last;   (* l.82-86 *)
    let l2s := l2s ++ [sneg g *. a +. b +. g *. c] in
    do a <- getq l2s (last + 1); do b <- getq l2s last; do c <- getq l3s last;   (* l.87-91 *)
    let l3s := l3s ++ [sneg g *. a +. b +. g *. c] in
    do last <- usub (length l0s) 1;                                   (* l.93 *)
    let cu := s0 in let cd := s0 in                                   (* l.95-96 *)
    do '(cu, cd) <-
      (if opt_geb (get_opt l0s last) (get_opt l1s last)               (* l.97 *)
       then do x <- getq l0s last; do y <- getq l1s last; Ok (x -. y, cd)        (* l.98 *)
       else do x <- getq l1s last; do y <- getq l0s last; Ok (cu, x -. y));      (* l.100 *)
    do '(cu, cd) <-
      (if opt_geb (get_opt l1s last) (get_opt l2s last)               (* l.102 *)
       then do x <- getq l1s last; do y <- getq l2s last; Ok (cu +. (x -. y), cd)   (* l.103 *)
       else do x <- getq l2s last; do y <- getq l1s last; Ok (cu, cd +. (x -. y))); (* l.105 *)
    do '(cu, cd) <-
      (if opt_geb (get_opt l2s last) (get_opt l3s last)               (* l.107 *)
       then do x <- getq l2s last; do y <- getq l3s last; Ok (cu +. (x -. y), cd)   (* l.108 *)
       else do x <- getq l3s last; do y <- getq l2s last; Ok (cu, cd +. (x -. y))); (* l.110 *)
    do value <- (if sneb (cu +. cd) s0                                (* l.113 *)
                 then do r <- sdiv cu (cu +. cd); Ok (Some r)         (* l.114-116 *)
                 else Ok (rl_value s));
    Ok {| rl_value := value; rl_gamma := g;
          rl_l0s := l0s; rl_l1s := l1s; rl_l2s := l2s; rl_l3s := l3s;
          rl_window_len := rl_window_len s |}.

(** [LaguerreRSI::new(view, window_len)] (l.33-45) *)
Definition lrsi_core_lit (n : nat) : core T := {|
  cst := lrsil_st;
  cnew := do g <- sdiv (sofdec 2 0) (sofnat n +. s1);                 (* l.37-38 *)
          Ok {| rl_value := None; rl_gamma := g;
                rl_l0s := []; rl_l1s := []; rl_l2s := []; rl_l3s := []; rl_window_len := n |};
  cstep := lrsi_step_lit;
  clast := fun s => Ok (rl_value s);                                  (* l.122 *)
  cpop := fun s => length (rl_l0s s) + length (rl_l1s s) + length (rl_l2s s) + length (rl_l3s s) |}.

(* ------------------------------------------------------------------ cyber_cycle.rs *)

Record ccl_st := { cl_window_len : nat; cl_alpha : T;
                   cl_vals : list T; cl_out : list T; cl_smooth : list T }.

(** the right-hand side of l.77-81 for index [i] *)
Definition cc_smooth_rhs (vals : list T) (i : nat) : res T :=
  let two := sofdec 2 0 in
  do a <- getq vals i;
  do i1 <- usub i 1; do b <- getq vals i1;
  do i2 <- usub i 2; do c <- getq vals i2;
  do i3 <- usub i 3; do d <- getq vals i3;
  sdiv (a +. two *. b +. two *. c +. d) (sofdec 6 0).

(** the body of the [for] loop l.70-82, run over the list of indices the iterator yields *)
Fixpoint cc_loop (vals : list T) (idx : list nat) (smooth : list T) : res (list T) :=
  match idx with
  | [] => Ok smooth
  | i :: r => do x <- cc_smooth_rhs vals i; cc_loop vals r (upd_nth smooth i x)
  end.

(** indices yielded by [smooth.iter_mut().enumerate().take(k).skip(3)] *)
Definition cc_loop_indices (smooth : list T) (k : nat) : list nat :=
  skipn 3 (firstn k (seq 0 (length smooth))).

Definition cc_step_lit (s : ccl_st) (v : T) : res ccl_st :=
  let n := cl_window_len s in
  let alpha := cl_alpha s in
  let '(vals, out) :=                                                 (* l.58-61 *)
    if Nat.leb n (length (cl_vals s))
    then (pop_front_discard (cl_vals s), pop_front_discard (cl_out s))
    else (cl_vals s, cl_out s) in
  let vals := vals ++ [v] in                                          (* l.62 *)
  if Nat.ltb (length vals) n then                                     (* l.64 *)
    Ok {| cl_window_len := n; cl_alpha := alpha;
          cl_vals := vals; cl_out := out ++ [s0]; cl_smooth := cl_smooth s |}   (* l.65-66 *)
  else
    do last <- usub (length vals) 1;                                  (* l.68 *)
    let two := sofdec 2 0 in                                          (* l.69 *)
    do smooth <- cc_loop vals (cc_loop_indices (cl_smooth s) (length vals)) (cl_smooth s);  (* l.70-82 *)
    (* l.83-86, operands evaluated left to right *)
    do sm0 <- getq smooth last;
    do l1 <- usub last 1; do sm1 <- getq smooth l1;
    do l2 <- usub last 2; do sm2 <- getq smooth l2;
    do l1' <- usub last 1; do o1 <- getq out l1';
    do l2' <- usub last 2; do o2 <- getq out l2';
    let cc := ssq (s1 -. sofdec 5 1 *. alpha) *. (sm0 -. two *. sm1 +. sm2)
              +. two *. (s1 -. alpha) *. o1
              -. ssq (s1 -. alpha) *. o2 in
    Ok {| cl_window_len := n; cl_alpha := alpha;
          cl_vals := vals; cl_out := out ++ [cc]; cl_smooth := smooth |}.      (* l.88 *)

(** [CyberCycle::new(view, window_len)] (l.33-44) *)
Definition cyber_core_lit (n : nat) : core T := {|
  cst := ccl_st;
  cnew := do _ <- assert (Nat.leb 3 n);                               (* l.34 *)
          do al <- sdiv (sofdec 2 0) (sofnat n +. s1);                (* l.38-39 *)
          Ok {| cl_window_len := n; cl_alpha := al;
                cl_vals := []; cl_out := []; cl_smooth := repeat s0 n |};      (* l.40-42 *)
  cstep := cc_step_lit;
  clast := fun s => Ok (last_opt (cl_out s));                         (* l.93 *)
  cpop := fun s => length (cl_vals s) + length (cl_out s) + length (cl_smooth s) |}.

End ModelsLit.
