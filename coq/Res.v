(** Error monad: every Rust operation that can panic (or produce a non-finite value) is a
    monadic operation in the model, so that "does not panic" is a theorem and not an artefact of
    totalised definitions. *)
From Coq Require Import List.
Import ListNotations.

Inductive err := IndexOOB | UnwrapNone | Underflow | NonFinite | Domain | AssertFailed.

Inductive res (A : Type) := Ok (a : A) | Err (e : err).
Arguments Ok {A} a.
Arguments Err {A} e.

Definition bind {A B} (m : res A) (f : A -> res B) : res B :=
  match m with Ok a => f a | Err e => Err e end.

Notation "'do' x <- m ; f" := (bind m (fun x => f))
  (at level 200, x name, m at level 100, f at level 200).
Notation "'do' ' p <- m ; f" := (bind m (fun x => match x with p => f end))
  (at level 200, p pattern, m at level 100, f at level 200).

Definition is_ok {A} (m : res A) : bool := match m with Ok _ => true | Err _ => false end.

Lemma bind_ok {A B} (m : res A) (f : A -> res B) b :
  bind m f = Ok b -> exists a, m = Ok a /\ f a = Ok b.
Proof. destruct m as [a|e]; cbn; intros H; [eauto | discriminate]. Qed.

Lemma bind_Ok_l {A B} (a : A) (f : A -> res B) : bind (Ok a) f = f a.
Proof. reflexivity. Qed.

(** checked [usize] subtraction *)
Definition usub (a b : nat) : res nat := if Nat.ltb a b then Err Underflow else Ok (a - b).

(** [q.get(i).unwrap()] / [q[i]] *)
Definition getq {A} (q : list A) (i : nat) : res A :=
  match nth_error q i with Some x => Ok x | None => Err IndexOOB end.

(** [q.pop_front().unwrap()] *)
Definition pop_front {A} (q : list A) : res (A * list A) :=
  match q with [] => Err UnwrapNone | x :: q' => Ok (x, q') end.

(** [q.front().unwrap()] *)
Definition front {A} (q : list A) : res A :=
  match q with [] => Err UnwrapNone | x :: _ => Ok x end.

Definition assert (b : bool) : res unit := if b then Ok tt else Err AssertFailed.
