(** C11 -- property theorems (statements + exact + Print Assumptions only). *)
