(** C07 -- property theorems (statements + exact + Print Assumptions only). *)
