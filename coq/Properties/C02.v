(** C02 -- property theorems (statements + exact + Print Assumptions only). *)
