(** C09 -- property theorems (statements + exact + Print Assumptions only). *)
