(** C05 -- property theorems (statements + exact + Print Assumptions only). *)
