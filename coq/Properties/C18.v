(** C18 -- property theorems (statements + exact + Print Assumptions only). *)
