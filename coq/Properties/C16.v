(** C16 -- property theorems (statements + exact + Print Assumptions only). *)
