(** C06 -- property theorems (statements + exact + Print Assumptions only). *)
