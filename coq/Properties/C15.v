(** C15 -- property theorems (statements + exact + Print Assumptions only). *)
