(** C10 -- property theorems (statements + exact + Print Assumptions only). *)
