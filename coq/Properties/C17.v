(** C17 -- property theorems (statements + exact + Print Assumptions only). *)
