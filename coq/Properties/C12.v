(** C12 -- property theorems (statements + exact + Print Assumptions only). *)
