(** C03 -- property theorems (statements + exact + Print Assumptions only). *)
