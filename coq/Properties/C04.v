(** C04 -- property theorems (statements + exact + Print Assumptions only). *)
