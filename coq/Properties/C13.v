(** C13 -- property theorems (statements + exact + Print Assumptions only). *)
