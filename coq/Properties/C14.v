(** C14 — combinators are pointwise, stateless functions of their children.
    Only statements, [exact]s and [Print Assumptions]; the proofs are in Proofs/Pure.v, Proofs/Chain.v. *)
From Coq Require Import List.
From SF Require Import Res Scalar View Models.
From SF.Proofs Require Import Chain Pure.
Import ListNotations.

Section C14.
Context {T : Type} {OT : Ops T}.

Theorem C14_add (a b : view T) xs la lb :
  mrun a xs = Ok la -> mrun b xs = Ok lb -> mrun (vadd a b) xs = Ok (map2 (lift2 sadd) la lb).
Proof. exact (@add_pointwise T OT a b xs la lb). Qed.
Theorem C14_subtract (a b : view T) xs la lb :
  mrun a xs = Ok la -> mrun b xs = Ok lb -> mrun (vsub a b) xs = Ok (map2 (lift2 ssub) la lb).
Proof. exact (@sub_pointwise T OT a b xs la lb). Qed.
Theorem C14_multiply (a b : view T) xs la lb :
  mrun a xs = Ok la -> mrun b xs = Ok lb -> mrun (vmul a b) xs = Ok (map2 (lift2 smul) la lb).
Proof. exact (@mul_pointwise T OT a b xs la lb). Qed.
Theorem C14_divide (a b : view T) xs la lb :
  mrun a xs = Ok la -> mrun b xs = Ok lb -> mrun (vdiv a b) xs = zipf sdiv la lb.
Proof. exact (@div_pointwise T OT a b xs la lb). Qed.
Theorem C14_tanh (a : view T) xs la :
  mrun a xs = Ok la -> mrun (vtanh a) xs = mapf stanh la.
Proof. exact (@tanh_pointwise T OT a xs la). Qed.
Theorem C14_gte clip (a : view T) xs la :
  mrun a xs = Ok la ->
  mrun (wrap (gte_core clip) a) xs = Ok (hold (fun v => if sgeb v clip then v else clip) None la).
Proof. exact (@gte_pointwise T OT clip a xs la). Qed.
Theorem C14_lte clip (a : view T) xs la :
  mrun a xs = Ok la ->
  mrun (wrap (lte_core clip) a) xs = Ok (hold (fun v => if sleb v clip then v else clip) None la).
Proof. exact (@lte_pointwise T OT clip a xs la). Qed.
Theorem C14_echo (xs : list T) : mrun echo xs = Ok (map Some xs).
Proof. exact (@echo_latest T xs). Qed.
Theorem C14_constant (c : T) xs : mrun (constant c) xs = Ok (map (fun _ => Some c) xs).
Proof. exact (@constant_always T c xs). Qed.
Theorem C14_stateless f (a b : view T) xs sa sb :
  state_after a xs = Ok sa -> state_after b xs = Ok sb -> state_after (binop f a b) xs = Ok (sa, sb).
Proof. exact (@binop_stateless T f a b xs sa sb). Qed.
End C14.
