(** C08 -- property theorems (statements + exact + Print Assumptions only). *)
