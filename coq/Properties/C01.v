(** C01 -- property theorems (statements + exact + Print Assumptions only). *)
