(** Surrogate transcendental functions on [Q].

    The Rust code is generic in its scalar [T: num::Float].  The correspondence check runs it at an
    exact rational scalar, where [exp], [cos], [sin], [ln], [log2], [tanh] and [sqrt] have to be
    *some* deterministic rational-valued functions.  They are defined here over [Z] (fixed point,
    [F] fractional working bits, results floored to a [2^-P] grid) and implemented operation for
    operation in harness/src/ex.rs over [BigInt].  They approximate the real functions to about
    [2^-P], but nothing in the development relies on that: only on both sides computing the same
    number, which the primitive self-test (./check selftest) exercises on every setup. *)
From Coq Require Import ZArith QArith Qabs Qreduction List.
Import ListNotations.
Open Scope Z_scope.

Record prec := { pF : Z; pP : Z }.

Definition e_dec    : Z := 271828182845904523536028747135266249775724709369995.
Definition einv_dec : Z :=  36787944117144232159552377016146086744581113103176.
Definition ln2_dec  : Z :=  69314718055994530941723212145817656807550013436025.
Definition terms : nat := 40.

Definition const_fix (c : Z) (F : Z) : Z := (c * 2 ^ F) / 10 ^ 50.
Definition tofix (x : Q) (F : Z) : Z := (Qnum x * 2 ^ F) / Zpos (Qden x).
Definition mulfix (a b F : Z) : Z := (a * b) / 2 ^ F.
Definition outgrid (v F P : Z) : Q := Qred (Qmake (v / 2 ^ (F - P)) (Z.to_pos (2 ^ P))).

Definition qfloor (x : Q) : Z := Qnum x / Zpos (Qden x).

Fixpoint exp_series (i : nat) (k : Z) (term sum xf F : Z) : Z :=
  match i with
  | O => sum
  | S i' => let term' := (mulfix term xf F) / k in exp_series i' (k + 1) term' (sum + term') xf F
  end.

Fixpoint zpow_fix (cnt : nat) (pw base F : Z) : Z :=
  match cnt with O => pw | S c => zpow_fix c (mulfix pw base F) base F end.

Definition exp_fix (x : Q) (F : Z) : Z :=
  let n := qfloor x in
  let fr := Qminus x (inject_Z n) in
  let xf := tofix fr F in
  let sum := exp_series terms 1 (2 ^ F) (2 ^ F) xf F in
  let base := if n <? 0 then const_fix einv_dec F else const_fix e_dec F in
  let pw := zpow_fix (Z.abs_nat n) (2 ^ F) base F in
  mulfix pw sum F.

Definition exp_s (p : prec) (x : Q) : Q :=
  let v := exp_fix x (pF p) / 2 ^ (pF p - pP p) in
  let v := if v <? 1 then 1 else v in
  Qred (Qmake v (Z.to_pos (2 ^ pP p))).

Fixpoint cossin_series (i : nat) (k : Z) (c s tc ts xf F : Z) : Z * Z :=
  match i with
  | O => (c, s)
  | S i' =>
      let tc' := (mulfix (mulfix tc xf F) xf F) / ((2 * k + 1) * (2 * k + 2)) in
      let ts' := (mulfix (mulfix ts xf F) xf F) / ((2 * k + 2) * (2 * k + 3)) in
      if Z.even k then cossin_series i' (k + 1) (c - tc') (s - ts') tc' ts' xf F
      else cossin_series i' (k + 1) (c + tc') (s + ts') tc' ts' xf F
  end.

Definition cossin_fix (x : Q) (F : Z) : Z * Z :=
  let xf := tofix (Qabs x) F in
  cossin_series terms 0 (2 ^ F) xf (2 ^ F) xf xf F.

Definition cos_s (p : prec) (x : Q) : Q := outgrid (fst (cossin_fix x (pF p))) (pF p) (pP p).
Definition sin_s (p : prec) (x : Q) : Q :=
  let s := snd (cossin_fix x (pF p)) in
  outgrid (if Qnum x <? 0 then - s else s) (pF p) (pP p).

Fixpoint ln_series (i : nat) (k : Z) (u s zf F : Z) : Z :=
  match i with
  | O => s
  | S i' => let u' := mulfix (mulfix u zf F) zf F in ln_series i' (k + 1) u' (s + u' / (2 * k + 1)) zf F
  end.

Definition qscale (k : Z) : Q := if k <? 0 then Qmake 1 (Z.to_pos (2 ^ (- k))) else inject_Z (2 ^ k).

(** [x > 0] *)
Definition ln_fix (x : Q) (F : Z) : Z :=
  let x := Qred x in
  let k0 := Z.log2 (Qnum x) - Z.log2 (Zpos (Qden x)) in
  let m0 := Qred (Qdiv x (qscale k0)) in
  let '(m, k) := if Qlt_le_dec m0 1 then (Qred (Qmult m0 (inject_Z 2)), k0 - 1) else (m0, k0) in
  let z := Qred (Qdiv (Qminus m 1) (Qplus m 1)) in
  let zf := tofix z F in
  let s := ln_series terms 1 zf zf zf F in
  k * const_fix ln2_dec F + 2 * s.

Definition ln_s (p : prec) (x : Q) : Q := outgrid (ln_fix x (pF p)) (pF p) (pP p).
Definition log2_s (p : prec) (x : Q) : Q :=
  outgrid ((ln_fix x (pF p) * 2 ^ pF p) / const_fix ln2_dec (pF p)) (pF p) (pP p).
Definition sqrt_s (p : prec) (x : Q) : Q :=
  Qred (Qmake (Z.sqrt (tofix x (2 * pP p))) (Z.to_pos (2 ^ pP p))).
Definition tanh_s (p : prec) (x : Q) : Q :=
  let F := pF p in
  let x := if Qlt_le_dec (inject_Z 20) x then inject_Z 20 else if Qlt_le_dec x (inject_Z (-20)) then inject_Z (-20) else x in
  let e2 := exp_fix (Qred (Qmult x (inject_Z 2))) F in
  outgrid (((e2 - 2 ^ F) * 2 ^ F) / (e2 + 2 ^ F)) F (pP p).

Definition prec_default : prec := {| pF := 48; pP := 32 |}.
