(** Specification of Rsi and MyRSI (C05) as functions of the history (oldest value first).
    No proofs here; generic in the scalar so that it can be executed at [Q]. *)
From Coq Require Import List Arith ZArith.
From SF Require Import Res Scalar Spec.
Import ListNotations.

Section SpecRsi.
Context {T : Type} {OT : Ops T}.

Local Notation "a +. b" := (sadd a b) (at level 50, left associativity).
Local Notation "a -. b" := (ssub a b) (at level 50, left associativity).
Local Notation "a *. b" := (smul a b) (at level 40, left associativity).

(** [x_i - x_(i-1)] for the values of [h], the value before the first one being [prev] *)
Fixpoint changes_from (prev : T) (h : list T) : list T :=
  match h with [] => [] | x :: r => (x -. prev) :: changes_from x r end.

(** the changes [d_i] of a history: [d_0 = 0], [d_i = x_i - x_(i-1)]; same length as the history *)
Definition changes (h : list T) : list T :=
  match h with [] => [] | x :: r => s0 :: changes_from x r end.

(** contribution of one change to the gains / to the losses (a tie contributes 0 to both) *)
Definition gain_of (d : T) : T := if sgtb d s0 then d else s0.
Definition loss_of (d : T) : T := if sgtb d s0 then s0 else sabs d.

Definition gains (l : list T) : T := ssum (map gain_of l).
Definition losses (l : list T) : T := ssum (map loss_of l).

(** G and L over the [n] most recent changes *)
Definition win_gain (n : nat) (h : list T) : T := gains (lastn n (changes h)).
Definition win_loss (n : nat) (h : list T) : T := losses (lastn n (changes h)).

Definition hundred : T := sofdec 100 0.

(** Rsi: [100*G/(G+L)], and [100] when [L = 0]; from the [n]-th value on *)
Definition rsi_value (n : nat) (h : list T) : T :=
  let G := win_gain n h in let L := win_loss n h in
  if seqb L s0 then hundred else sdivd (hundred *. G) (G +. L).
Definition spec_rsi (n : nat) (h : list T) : option T :=
  if Nat.ltb (length h) n then None else Some (rsi_value n h).

(** MyRSI: [(G-L)/(G+L)]; the previous output (initially 0) is kept while [G+L = 0] *)
Definition myrsi_upd (n : nat) (h : list T) (prev : T) : T :=
  let G := win_gain n h in let L := win_loss n h in
  if sneb (G +. L) s0 then sdivd (G -. L) (G +. L) else prev.
(** recursion over the prefixes of the history, given newest first *)
Fixpoint myrsi_hold_rev (n : nat) (rh : list T) : T :=
  match rh with
  | [] => s0
  | x :: r => myrsi_upd n (rev (x :: r)) (myrsi_hold_rev n r)
  end.
Definition myrsi_value (n : nat) (h : list T) : T := myrsi_hold_rev n (rev h).
Definition spec_myrsi (n : nat) (h : list T) : option T :=
  if Nat.ltb (length h) n then None else Some (myrsi_value n h).

End SpecRsi.
