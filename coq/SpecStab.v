(** C09 (stability and fading memory): the explicit rates and gains, as functions of the window
    length only.  Generic in the scalar; no proofs.  The batch difference equations the statements
    refer to are those of SpecAvg.v (Ema) and SpecLin.v (SuperSmoother, RoofingFilter, LaguerreFilter,
    CyberCycle). *)
From Coq Require Import List Arith Lia ZArith.
From SF Require Import Res Scalar Spec SpecLin.
Import ListNotations.
Set Implicit Arguments.

Section SpecStab.
Context {T : Type} {OT : Ops T}.

Local Notation "a +. b" := (sadd a b) (at level 50, left associativity).
Local Notation "a -. b" := (ssub a b) (at level 50, left associativity).
Local Notation "a *. b" := (smul a b) (at level 40, left associativity).

(** Ema (alpha = 2): the contraction factor 1 - 2/(N+1) *)
Definition stab_ema_rho (n : nat) : T := s1 -. sdivd (sofdec 2 0) (s1 +. sofnat n).

(** LaguerreFilter: gain of one all-pass section, (1+g)/(1-g), and of the whole filter
    (1 + 2k + 2k^2 + k^3)/6 *)
Definition stab_lag_k (g : T) : T := sdivd (s1 +. g) (s1 -. g).
Definition stab_lag_gain (g : T) : T :=
  let k := stab_lag_k g in
  sdivd (s1 +. l_two *. k +. l_two *. (k *. k) +. k *. k *. k) l_six.

(** RoofingFilter high-pass: the double pole 1 - alpha1 *)
Definition stab_hp_pole (n : nat) : T := s1 -. hpb_alpha n.
(** CyberCycle: the double pole 1 - alpha = (N-1)/(N+1) *)
Definition stab_cc_pole (n : nat) : T := s1 -. ccb_alpha n.

(** (A + k B) q^(k-1): the envelope of a double-pole homogeneous solution *)
Fixpoint spow (q : T) (k : nat) : T := match k with 0 => s1 | S k' => q *. spow q k' end.
Definition stab_dp_env (q a b : T) (k : nat) : T := (a +. sofnat k *. b) *. spow q (k - 1).

End SpecStab.
