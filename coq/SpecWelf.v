(** Specifications for WelfordOnline (mean(), variance(), last()), Vst and Vsct: functions of the
    history (oldest value first), no reference to the model's state.  Generic in the scalar. *)
From Coq Require Import List Arith Lia.
From SF Require Import Res Scalar Spec.
Import ListNotations.
Set Implicit Arguments.

Section SpecWelf.
Context {T : Type} {OT : Ops T}.

(** total square root: [sqrt x], and 0 where the scalar's square root is undefined *)
Definition ssqrtd (x : T) : T := match ssqrt x with Ok r => r | Err _ => s0 end.

(** sum of the squared deviations of the values of [l] from [m] *)
Definition ssqdev (m : T) (l : list T) : T := ssum (map (fun x => ssq (ssub x m)) l).

(** sample variance of a list: sum (x - mean)^2 / (k-1) for k > 1 values, 0 for k <= 1 values *)
Definition svar (w : list T) : T :=
  if Nat.ltb 1 (length w) then sdivd (ssqdev (smean w) w) (sofnat (length w - 1)) else s0.

(** sample standard deviation: 0 when the variance is <= 0, else its square root *)
Definition sstd (w : list T) : T := let v := svar w in if sleb v s0 then s0 else ssqrtd v.

(** the current value x_t: the most recent value (0 before the first one) *)
Definition scur (h : list T) : T := last h s0.

(** WelfordOnline::mean(): the mean of the last [n] values (of all values before [n] were seen; 0 on
    the empty history) *)
Definition spec_wmean (n : nat) (h : list T) : T := smean (lastn n h).
(** WelfordOnline::variance() *)
Definition spec_wvar (n : nat) (h : list T) : T := svar (lastn n h).
(** the windowed standard deviation *)
Definition spec_wstd (n : nat) (h : list T) : T := sstd (lastn n h).
(** WelfordOnline::last(): nothing while fewer than [n-1] values are in the window *)
Definition spec_wlast (n : nat) (h : list T) : option T :=
  if Nat.ltb (length (lastn n h)) (n - 1) then None else Some (spec_wstd n h).

(** Vst: x_t / std, and x_t when std = 0 *)
Definition spec_vst (n : nat) (h : list T) : option T :=
  match spec_wlast n h with
  | None => None
  | Some sd => Some (if seqb sd s0 then scur h else sdivd (scur h) sd)
  end.
(** Vsct: (x_t - mean) / std, and 0 when std = 0 *)
Definition spec_vsct (n : nat) (h : list T) : option T :=
  match spec_wlast n h with
  | None => None
  | Some sd => Some (if seqb sd s0 then s0 else sdivd (ssub (scur h) (spec_wmean n h)) sd)
  end.

End SpecWelf.
