(** Executable side of the specification check: the very specification functions the theorems are
    stated with (Spec*.v), evaluated at the [Q] instance on every prefix of a case's input and compared
    inside Coq with what the implementation answered.  This ties the theorems' right-hand sides to
    /repo's behaviour directly (independently of the model). *)
From Coq Require Import List Arith ZArith QArith Qreduction Bool.
From SF Require Import Res Surrogate Scalar View Models Exec Spec.
From SF Require Import SpecWinA SpecWelf SpecRoll SpecAvg SpecCorr SpecRsi SpecHln SpecLin SpecEhl.
Import ListNotations.
Local Open Scope nat_scope.

Inductive sview :=
| SpSma (n : nat) | SpCumulative (n : nat) | SpMin (n : nat) | SpMax (n : nat) | SpRoc (n : nat)
| SpWelford (n : nat) | SpWelfordMean (n : nat) | SpWelfordVar (n : nat) | SpVst (n : nat) | SpVsct (n : nat)
| SpHln (n : nat) | SpEntropy (n : nat) | SpEma (n : nat) | SpEmaAlpha (n : nat) (a : Q) | SpAlma (n : nat)
| SpAlmaCustom (n : nat) (sg off : Q)
| SpRsi (n : nat) | SpMyRsi (n : nat) | SpCti (n : nat) | SpNet (n : nat) | SpCog (n : nat)
| SpSs (n : nat) | SpRoofing (n m : nat) | SpLaguerre (g : Q) | SpCyber (n : nat) | SpCyberGen (n : nat)
| SpTrendFlex (n : nat) | SpReFlex (n : nat) | SpLrsi (n : nat)
| SpWRolling | SpWRollingMean | SpDrawdown | SpLnReturn
| SpEft (n : nat) (ma : desc Q) | SpPfe (n : nat) (ma : desc Q).

(** [None]: the specification says nothing about this history (e.g. CTI before its window is full,
    HLN / Welford getters on the empty history) *)
Definition spec_eval (v : sview) (h : list Q) : option (option Q) :=
  match v with
  | SpSma n => Some (spec_sma n h)
  | SpCumulative n => Some (spec_cumulative n h)
  | SpMin n => Some (spec_min n h) | SpMax n => Some (spec_max n h) | SpRoc n => Some (spec_roc n h)
  | SpWelford n => Some (spec_wlast n h)
  | SpWelfordMean n => Some (Some (spec_wmean n h)) | SpWelfordVar n => Some (Some (spec_wvar n h))
  | SpVst n => Some (spec_vst n h) | SpVsct n => Some (spec_vsct n h)
  | SpHln n => match h with [] => None | _ => Some (spec_hln n h) end
  | SpEntropy n => Some (spec_entropy n h)
  | SpEma n => Some (spec_ema n (sofdec 2 0) h) | SpEmaAlpha n a => Some (spec_ema n a h)
  | SpAlma n => Some (spec_alma n (sofdec 6 0) (sofdec 85 2) h)
  | SpAlmaCustom n sg off => Some (spec_alma n sg off h)
  | SpRsi n => Some (spec_rsi n h) | SpMyRsi n => Some (spec_myrsi n h)
  (* at R the Pearson correlation lies in [-1,1] (cti_range) and the implementation's clamp is the identity; at this
     instance sqrt is a surrogate floored to a 2^-32 grid, so the unclamped quotient can exceed 1 by 2^-32: clamp here too *)
  | SpCti n => Some (option_map (fun o => smin (smax o (sneg s1)) s1) (spec_cti n h))
  | SpNet n => Some (spec_net n h) | SpCog n => Some (spec_cog n h)
  | SpSs n => Some (spec_ss n h) | SpRoofing n m => Some (spec_roofing n m h)
  | SpLaguerre g => Some (spec_laguerre g h)
  | SpCyber n => Some (spec_cyber n h) | SpCyberGen n => Some (spec_cyber_gen n h)
  | SpTrendFlex n => Some (spec_trendflex n h) | SpReFlex n => Some (spec_reflex n h)
  | SpLrsi n => Some (spec_lrsi n h)
  | SpWRolling => match h with [] => Some None | _ => Some (Some (spec_rstd h)) end
  | SpWRollingMean => match h with [] => None | _ => Some (Some (spec_rmean h)) end
  | SpDrawdown => Some (Some (spec_drawdown h))
  | SpLnReturn => Some (spec_lnreturn h)
  (* the moving average is a parameter of these two specifications: its answers to the list of values the
     specification says it receives (eft_inputs / pfe_inputs) are obtained by running the MA's own model *)
  | SpEft n ma => match mrun (denote ma) (eft_inputs n h) with Ok mas => Some (spec_eft n h mas) | Err _ => None end
  | SpPfe n ma => match mrun (denote ma) (pfe_inputs n h) with Ok mas => Some (spec_pfe mas) | Err _ => None end
  end.

Definition oq_eqb (a b : option Q) : bool :=
  match a, b with None, None => true | Some x, Some y => Qeq_bool x y | _, _ => false end.

(** index (from 1) of the first step at which the implementation's answer differs from the
    specification; 0 if none *)
Fixpoint spec_first_diff (v : sview) (seen rest : list Q) (outs : list (option Q)) (k : Z) : Z :=
  match rest, outs with
  | x :: rest', o :: outs' =>
      let h := seen ++ [x] in
      match spec_eval v h with
      | Some e => if oq_eqb e o then spec_first_diff v h rest' outs' (k + 1)%Z else k
      | None => spec_first_diff v h rest' outs' (k + 1)%Z
      end
  | _, _ => 0%Z
  end.

Record scase := mkscase { sc_view : sview; sc_xs : list Q; sc_outs : list (option Q) }.
Definition check_scase (c : scase) : Z * Z := (spec_first_diff (sc_view c) [] (sc_xs c) (sc_outs c) 1%Z, 0%Z).
Definition check_scases (cs : list scase) : list (Z * Z) := map check_scase cs.
