(** Executable finiteness checkers (in the style of SpecBridge.v, through the generic [all_finite_run]) for the
    Welford views: WelfordOnline observed through [last()] (std), [mean()], [variance()]; Vst; Vsct; and
    WelfordRolling observed through [last()] (its sum of squares [wr_s] included, unlike [all_finite_wr_mean]).
    Generic in the scalar; at f64 ([finb := ffinite]) discharged by [vm_compute] on a concrete stream. *)
From Coq Require Import List Bool.
From SF Require Import Res Scalar View Models Core SpecBridge.
Import ListNotations.

Section ChkW.
Context {T : Type}.
Variable finb : T -> bool.
Context {OT : Ops T}.

(** the scalars held by WelfordOnline: the queue, the running mean and m2 *)
Definition wo_sfin (s : @wo_st T) : bool := forallb finb (wo_q s) && finb (wo_mean s) && finb (wo_m2 s).
(** Vst / Vsct: the last input and the private WelfordOnline *)
Definition vst_sfin (s : T * @wo_st T) : bool := finb (fst s) && wo_sfin (snd s).
(** WelfordRolling: mean and sum of squares *)
Definition wr_sfin (s : @wr_st T) : bool := finb (wr_mean s) && finb (wr_s s).

Definition all_finite_welford (n : nat) : list T -> bool := all_finite_run finb (welford_core n) wo_sfin.
Definition all_finite_welford_mean (n : nat) : list T -> bool := all_finite_run finb (welford_mean_core n) wo_sfin.
Definition all_finite_welford_var (n : nat) : list T -> bool := all_finite_run finb (welford_var_core n) wo_sfin.
Definition all_finite_vst (n : nat) : list T -> bool := all_finite_run finb (vst_core n) vst_sfin.
Definition all_finite_vsct (n : nat) : list T -> bool := all_finite_run finb (vsct_core n) vst_sfin.
Definition all_finite_wr : list T -> bool := all_finite_run finb wrolling_core wr_sfin.

End ChkW.
