(** Executable finiteness checkers for the bridge "model at primitive f64 = model at rounded reals".

    [all_finite_run finb c sfin vs]: run the core [c] on the history [vs] and check that the run does not
    err and that, for the initial state and for the state after EVERY prefix of [vs],
      - every scalar stored in the state is finite ([sfin], given per view below), and
      - the answer [clast] at that state is [Ok], and finite when it is [Some _].
    [finb] is the finiteness test of the scalar ([ffinite] at f64; [fun _ => true] at Q).  No reference
    to any other instance: at f64 the hypothesis [all_finite_run ... = true] is discharged by [vm_compute]
    on a concrete stream. *)
From Coq Require Import List Bool.
From SF Require Import Res Scalar View Models Core.
Import ListNotations.

Section Chk.
Context {T : Type}.
Variable finb : T -> bool.

Definition ofin (o : option T) : bool := match o with None => true | Some x => finb x end.

Definition st_ok (c : core T) (sfin : cst c -> bool) (s : cst c) : bool :=
  sfin s && match clast c s with Ok o => ofin o | Err _ => false end.

Fixpoint cfold_chk (c : core T) (sfin : cst c -> bool) (s : cst c) (vs : list T) : bool :=
  match vs with
  | [] => true
  | v :: r => match cstep c s v with
              | Ok s' => st_ok c sfin s' && cfold_chk c sfin s' r
              | Err _ => false
              end
  end.

Definition all_finite_run (c : core T) (sfin : cst c -> bool) (vs : list T) : bool :=
  match cnew c with Ok s => st_ok c sfin s && cfold_chk c sfin s vs | Err _ => false end.

(** the scalars held in the state of each target view *)
Context {OT : Ops T}.
Definition sma_sfin (s : @sma_st T) : bool := forallb finb (sma_q s) && finb (sma_sum s).
Definition cum_sfin (s : @cum_st T) : bool := forallb finb (cum_q s) && ofin (cum_out s).
(** Ema recomputes its weight [alpha / (1 + n)] at every update without storing it: checked with the state *)
Definition ema_sfin (n : nat) (alpha : T) (s : @ema_st T) : bool :=
  finb (ema_last s) && finb (ema_out s) && finb (sadd s1 (sofnat n)) &&
  match sdiv alpha (sadd s1 (sofnat n)) with Ok w => finb w | Err _ => false end.
(** WelfordRolling observed through [mean()]: only the running mean ([wr_s], the sum of squares, may overflow) *)
Definition wr_mean_sfin (s : @wr_st T) : bool := finb (wr_mean s).

Definition all_finite_sma (n : nat) : list T -> bool := all_finite_run (sma_core n) sma_sfin.
Definition all_finite_cumulative (n : nat) : list T -> bool := all_finite_run (cumulative_core n) cum_sfin.
Definition all_finite_ema (n : nat) : list T -> bool := all_finite_run (ema_core n) (ema_sfin n s2).
Definition all_finite_wr_mean : list T -> bool := all_finite_run wrolling_mean_core wr_mean_sfin.
End Chk.
