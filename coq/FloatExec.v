(** Executable correspondence check at binary64: the float counterpart of [Exec.check_case].
    The model is run at the [FOps] instance with [vm_compute] and compared bit-for-bit
    ([feqb_bits]) with what the implementation answered at [f64].

    A generated case file looks like this (expected outputs as sign / mantissa / exponent triples,
    i.e. what Rust's [f64::integer_decode] returns; inputs either as fractions [f_of_q n d] -- the
    harness computes [(n as f64) / (d as f64)] -- or as triples as well):

      From Coq Require Import ZArith List Floats.
      From SF Require Import Res Scalar View Models Exec FloatOps FloatExec.
      Import ListNotations.
      Open Scope Z_scope.
      Definition cases : list fcase := [
        mkfcase (DSma 2 DEcho)
                [OU 0 (f_of_q 1 10); OU 0 (f_of_q 2 10); OL 0; OU 0 (f_of_q 3 10)]
                true
                [XN; XS (f_of_sme false 5404319552844596 (-55)); XS (f_of_sme false 5404319552844596 (-55));
                 XS (f_of_sme false 4503599627370496 (-54))]
      ].
      Eval vm_compute in check_cases_f cases.      (* = [0] : every observation reproduced *)

    (see the [Example]s at the end of this file, which are exactly that).  Non-finite expected
    values are written [XS finf], [XS fninf], [XS fnan].  Cases must come from a build without
    debug assertions (the code's [debug_assert!(x.is_finite())] are not part of the model), and must
    not use the views that need transcendental functions (their constructor or update is [Err] at
    [float]: reported as -1 or as an [XE] observation). *)
From Coq Require Import List Arith ZArith Bool Floats.
From SF Require Import Res Scalar View Models Exec FloatOps.
Import ListNotations.
Set Implicit Arguments.

Definition xo_eqb_f (a b : xo float) : bool :=
  match a, b with
  | XN, XN | XE, XE | XX, XX | XC, XC => true
  | XS x, XS y => feqb_bits x y
  | _, _ => false
  end.

Record fcase := mkfcase {
  fc_desc : desc float;
  fc_ops : list (op float);
  fc_ctor_ok : bool;                  (* implementation: constructor did not panic *)
  fc_exp : list (xo float);           (* implementation: observation per op *)
}.

(** index (from 1) of the first operation whose observation differs; 0 if none *)
Fixpoint first_diff_f (k : Z) (m : list (xo float * nat)) (e : list (xo float)) : Z :=
  match m, e with
  | [], [] => 0%Z
  | a :: m', b :: e' => if xo_eqb_f (fst a) b then first_diff_f (k + 1)%Z m' e' else k
  | _, _ => k
  end.

(** 0: every observation reproduced bit-for-bit; k > 0: first differing op (from 1; also when the
    lists have different lengths); -1: the model and the implementation disagree on the constructor *)
Definition check_case_f (c : fcase) : Z :=
  match sched (denote (fc_desc c)) (fc_ops c), fc_ctor_ok c with
  | None, false => 0%Z
  | None, true | Some _, false => (-1)%Z
  | Some m, true => first_diff_f 1%Z m (fc_exp c)
  end.

Definition check_cases_f (cs : list fcase) : list Z := map check_case_f cs.

(** The other observation convention (the one the harness uses at the exact scalar, and at f64 when it
    prints [E] for a non-finite answer and drops the instance): a non-finite value reported by the
    OUTERMOST view is an error.  [guard_finite] turns such an answer of [last] into [Err NonFinite],
    so that [sched] reports [XE] and marks the instance dead, exactly like the harness. *)
Definition guard_finite (v : view float) : view float := {|
  vst := vst v; vnew := vnew v; vupd := vupd v;
  vlast := fun s => do o <- vlast v s;
                    match o with
                    | Some x => if PrimFloat.is_finite x then Ok o else Err NonFinite
                    | None => Ok None
                    end;
  vpop := vpop v |}.

Definition check_case_fe (c : fcase) : Z :=
  match sched (guard_finite (denote (fc_desc c))) (fc_ops c), fc_ctor_ok c with
  | None, false => 0%Z
  | None, true | Some _, false => (-1)%Z
  | Some m, true => first_diff_f 1%Z m (fc_exp c)
  end.
Definition check_cases_fe (cs : list fcase) : list Z := map check_case_fe cs.

(** the model's own answers, printable: (tag, kind, sign, mantissa, exponent) with tag
    0 None / 1 Some / 2 error / 3 dead / 4 clone and (kind, sign, mantissa, exponent) as in [sme_of_f] *)
Definition show_xo_f (o : xo float * nat) : Z * (Z * bool * Z * Z) :=
  match fst o with
  | XN => (0, (0, false, 0, 0))
  | XS v => (1, sme_of_f v)
  | XE => (2, (0, false, 0, 0)) | XX => (3, (0, false, 0, 0)) | XC => (4, (0, false, 0, 0))
  end%Z.
Definition show_case_f (c : fcase) : option (list (Z * (Z * bool * Z * Z))) :=
  match sched (denote (fc_desc c)) (fc_ops c) with None => None | Some m => Some (map show_xo_f m) end.

(** plain outputs of a view on a stream: convenient for [Eval vm_compute] experiments *)
Definition frun (d : desc float) (xs : list float) : option (list (xo float)) :=
  match sched (denote d) (map (fun x => OU 0 x) xs) with
  | None => None
  | Some m => Some (map fst m)
  end.

(** soundness of the comparison: a green check means the model reproduces every observation *)
Lemma first_diff_f_0 k m e : (0 < k)%Z -> first_diff_f k m e = 0%Z ->
  length m = length e /\
  forall i a b, nth_error m i = Some a -> nth_error e i = Some b -> xo_eqb_f (fst a) b = true.
Proof.
  revert k e; induction m as [|a m IH]; intros k e Hk H; destruct e as [|b e]; cbn in *.
  - split; [reflexivity|]. intros i ? ? Hi; destruct i; discriminate.
  - subst; exfalso. apply (Z.lt_irrefl 0); assumption.
  - subst; exfalso. apply (Z.lt_irrefl 0); assumption.
  - destruct (xo_eqb_f (fst a) b) eqn:E.
    + destruct (IH (k + 1)%Z e) as [Hl Hn]; [apply Z.lt_lt_succ_r; assumption | assumption |].
      split; [f_equal; assumption|]. intros i x y Hx Hy. destruct i; cbn in *.
      * inversion Hx; inversion Hy; subst; assumption.
      * eapply Hn; eassumption.
    + subst; exfalso. apply (Z.lt_irrefl 0); assumption.
Qed.

(** * Sanity: the model at [float] gives the bits Rust gives at [f64] *)
Local Set Warnings "-inexact-float".
Local Open Scope float_scope.

(** Sma(2) on 0.1, 0.2, 0.3: Rust prints 0.15000000000000002 and 0.25 *)
Example sma2_f64 :
  frun (DSma 2 DEcho) [f_of_q 1 10; f_of_q 2 10; f_of_q 3 10]
  = Some [XN; XS 0.15000000000000002; XS 0.25].
Proof. vm_compute. reflexivity. Qed.

(** the same as a generated case, expected outputs as (sign, mantissa, exponent) triples:
    0.15000000000000002 = 0x1.3333333333334p-3 = 5404319552844596 * 2^-55, 0.25 = 2^52 * 2^-54 *)
Example sma2_case :
  check_cases_f
    [ mkfcase (DSma 2 DEcho)
        [OU 0 (f_of_q 1 10); OU 0 (f_of_q 2 10); OL 0; OU 0 (f_of_q 3 10)]
        true
        [XN; XS (f_of_sme false 5404319552844596 (-55)); XS (f_of_sme false 5404319552844596 (-55));
         XS (f_of_sme false 4503599627370496 (-54))] ]
  = [0%Z].
Proof. vm_compute. reflexivity. Qed.

(** ... and a wrong expectation (0.15 instead of 0.15000000000000002: one ulp off) is caught at op 2 *)
Example sma2_case_off_by_one_ulp :
  check_case_f
    (mkfcase (DSma 2 DEcho) [OU 0 (f_of_q 1 10); OU 0 (f_of_q 2 10)] true
       [XN; XS (f_of_sme false 5404319552844595 (-55))])
  = 2%Z.
Proof. vm_compute. reflexivity. Qed.

(** WelfordOnline(3) on 0.1 0.2 0.3 0.4: its mean getter and its output (sample standard deviation
    of the window), equal to what the same recurrences give in Rust / any IEEE-754 double arithmetic *)
Example welford3_mean_f64 :
  frun (DWelfordMean 3 DEcho) [0.1; 0.2; 0.3; 0.4]
  = Some [XS 0.1; XS 0.15000000000000002; XS 0.2; XS 0.3].
Proof. vm_compute. reflexivity. Qed.
Example welford3_f64 :
  frun (DWelford 3 DEcho) [0.1; 0.2; 0.3; 0.4]
  = Some [XN; XS 0x1.21a1851ff630ap-4; XS 0x1.9999999999998p-4; XS 0x1.9999999999999p-4].
Proof. vm_compute. reflexivity. Qed.

(** a NaN / infinity round trip through Divide: 1/0 = +inf, 0/0 = NaN, -1/0 = -inf *)
Example divide_nonfinite :
  check_case_f
    (mkfcase (DDiv DEcho (DSub DEcho DEcho)) [OU 0 1; OU 0 0; OU 0 (-1)] true [XS finf; XS fnan; XS fninf])
  = 0%Z.
Proof. vm_compute. reflexivity. Qed.

(** the [E]-convention: the first non-finite answer is [XE] and the instance is dead afterwards *)
Example divide_nonfinite_fe :
  check_case_fe
    (mkfcase (DDiv DEcho (DSub DEcho DEcho)) [OU 0 1; OU 0 0; OL 0] true [XE; XX; XX])
  = 0%Z.
Proof. vm_compute. reflexivity. Qed.

(** views needing exp / cos are not executable at float: the constructor is an error *)
Example ss_not_executable : frun (DSs 4 DEcho) [1; 2] = None.
Proof. vm_compute. reflexivity. Qed.

(** * Long generated streams, compared through a hash of every observation

    For streams of thousands of steps the check does not ship the stream and the expected
    observations as literals: the stream is generated here by a linear congruential walk (the
    harness-side generator in [vlib/props.py] is the same integer recurrence), and every observation
    of the model is folded into one integer, which the driver compares with the same fold over the
    implementation's observations.  The walk moves in quarter units inside [1, 1000] by non-zero
    steps of at most 99.25, reflected at the borders; all its values are exact binary64 numbers. *)
Definition lcg (s : Z) : Z := ((s * 6364136223846793005 + 1442695040888963407) mod 2 ^ 64)%Z.
Definition walk_next (s c : Z) : Z * Z :=
  let s' := lcg s in
  let st := (((s' / 2 ^ 33) mod 397 + 1) * (if Z.testbit s' 60 then 1 else -1))%Z in
  let c' := if ((4 <=? c + st) && (c + st <=? 4000))%Z then (c + st)%Z else (c - st)%Z in
  (s', c').
Fixpoint walk_ops (n : nat) (s c : Z) : list (op float) :=
  match n with
  | O => []
  | S n' => let '(s', c') := walk_next s c in OU 0 (f_of_q c' 4) :: walk_ops n' s' c'
  end.

Definition xo_code (o : xo float) : Z :=
  match o with
  | XN => 1 | XE => 2 | XX => 3 | XC => 4
  | XS v => let '(k, s, m, e) := sme_of_f v in
            5 + k + 4 * (if s then 1 else 0) + 8 * m + 2 ^ 62 * (e + 1100)
  end%Z.
Definition hash_step (h c : Z) : Z := ((h * 1000003 + c) mod (2 ^ 127 - 1))%Z.
Definition hash_obs (m : list (xo float * nat)) : Z := fold_left (fun h o => hash_step h (xo_code (fst o))) m 7%Z.

(** hash of the model's observations on the walk of [len] steps from [seed] ([E]-convention); -1 when
    the model's constructor fails *)
Definition hash_walk_fe (d : desc float) (len seed : Z) : Z :=
  match sched (guard_finite (denote d)) (walk_ops (Z.to_nat len) seed 2000) with
  | None => (-1)%Z
  | Some m => hash_obs m
  end.

Example walk_ex : map (fun o => match o with OU _ x => sme_of_f x | _ => (9, false, 0, 0)%Z end) (walk_ops 3 1 2000)
  = map sme_of_f [f_of_q 1857 4; f_of_q 1525 4; f_of_q 1260 4].
Proof. vm_compute. reflexivity. Qed.
(** conventions of [sme_of_f] the driver's hash relies on: normal numbers carry a 53-bit mantissa,
    subnormal ones the exponent -1074 *)
Example sme_conventions :
  sme_of_f 1%float = (0, false, 4503599627370496, -52)%Z /\ sme_of_f (f_of_sme true 5 (-1074)) = (0, true, 5, -1074)%Z
  /\ sme_of_f 0x1p-1022%float = (0, false, 4503599627370496, -1074)%Z /\ sme_of_f (-0)%float = (0, true, 0, 0)%Z.
Proof. vm_compute. repeat split. Qed.
Example hash_walk_ex : hash_walk_fe (DSma 3 DEcho) 5 1 = hash_obs [(XN, O); (XN, O); (XS (f_of_q 4642 12), O); (XS (f_of_q 3732 12), O); (XS (f_of_q 2925 12), O)].
Proof. vm_compute. reflexivity. Qed.
