(** Specification functions for the "gap" properties.  No proofs; generic in the scalar. *)
From Coq Require Import List Arith.
From SF Require Import Res Scalar Spec.
Import ListNotations.

Section SpecGap.
Context {T : Type} {OT : Ops T}.

(** population variance by moments: mean of the squares minus the square of the mean *)
Definition spec_rvar_moments (h : list T) : T :=
  ssub (smean (map ssq h)) (ssq (smean h)).

(** the answers of a view that was delivered nothing by its inner view during [k] updates:
    [k] times the answer [o0] it gave before any update *)
Definition spec_starved (o0 : option T) (k : nat) : list (option T) := repeat o0 k.

(** the last answer of a list of answers ([None] before the first one) *)
Definition last_answer (outs : list (option T)) : option T :=
  match rev outs with [] => None | o :: _ => o end.

End SpecGap.
