(** The drift bounds of Flt2P.v / Flt2B64.v as executable functions of the unit roundoff [u], the
    underflow unit [eta], the input magnitude [M] and the window / stream length.  Generic in the
    scalar (proved at [R], evaluated at [Q]); no proofs here. *)
From Coq Require Import List Arith ZArith.
From SF Require Import Res Scalar Spec.
Import ListNotations.
Set Implicit Arguments.

Section SpecFlt2.
Context {T : Type} {OT : Ops T}.

(** Ema, window n: (12 u M + 3 eta) * (n+1)/2, independent of the stream length *)
Definition spec_ema_drift_bound (u eta M : T) (n : nat) : T :=
  smul (sadd (smul (smul (sofnat 12) u) M) (smul (sofnat 3) eta))
       (sdivd (sadd s1 (sofnat n)) (sofnat 2)).

(** WelfordRolling mean after t updates: (t + 10) u M + t (1 + u) eta *)
Definition spec_wr_mean_drift_bound (u eta M : T) (t : nat) : T :=
  sadd (smul (smul (sadd (sofnat t) (sofnat 10)) u) M)
       (smul (smul (sofnat t) (sadd s1 u)) eta).

(** "within tol of the natural scale": |a - b| <= tol * scale *)
Definition spec_within (tol scale a b : T) : bool := sleb (sabs (ssub a b)) (smul tol scale).

End SpecFlt2.
