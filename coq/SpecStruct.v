(** Structural specifications (C18, C01): executable functions only, generic in the scalar.
    [pop_bound d] is the memory bound of the view described by [d]: a function of the window lengths
    in the descriptor only.  [pfe_feed]/[eft_feed] are the value lists the PFE / EFT cores hand to
    their moving-average argument, as functions of the history of values the core received. *)
From Coq Require Import List Arith ZArith.
From SF Require Import Res Scalar View Models Exec Spec.
Import ListNotations.
Set Implicit Arguments.

(** window bound of a single queue of nominal length [n] (a queue is pushed before/after one eviction,
    so a zero-length window still holds one element in the views that do not reject [n = 0]) *)
Definition wb (n : nat) : nat := Nat.max n 1.

Section SpecStruct.
Context {T : Type}.

(** C18: bound on [vpop] (number of elements in all queues / vectors), by recursion on the descriptor:
    sum over the tree; PFE / EFT include the moving-average sub-descriptor. *)
Fixpoint pop_bound (d : desc T) : nat :=
  match d with
  | DEcho | DProbe _ | DConst _ => 0
  | DAdd a b | DSub a b | DMul a b | DDiv a b => pop_bound a + pop_bound b
  | DTanh a => pop_bound a
  | DGte _ a | DLte _ a | DDrawdown a | DLnReturn a | DWRolling a | DWRollingMean a => pop_bound a + 0
  | DEma _ a | DEmaAlpha _ _ a | DSs _ a | DRoofing _ _ a => pop_bound a + 0
  | DSma n a | DCumulative n a | DMin n a | DMax n a | DRoc n a
  | DWelford n a | DWelfordMean n a | DWelfordVar n a | DVst n a | DVsct n a
  | DHln n a | DEntropy n a | DCog n a | DCti n a | DNet n a | DRsi n a | DMyRsi n a
  | DTrendFlex n a | DReFlex n a => pop_bound a + wb n
  | DAlma n a | DAlmaCustom n _ _ a => pop_bound a + 3 * wb n
  | DCyber n a => pop_bound a + (2 * wb n + n)
  | DLaguerre _ a => pop_bound a + 10
  | DLrsi _ a => pop_bound a + 12
  | DPfe n a ma => pop_bound a + (pop_bound ma + wb n)
  | DEft n a ma => pop_bound a + (pop_bound ma + 2 * wb n)
  end.

(** C17: the update lineage of every instance of a schedule -- the values it was updated with since
    construction, inherited from the cloned instance at the time of cloning.  Independent of the view,
    of [last] operations and of failures. *)
Fixpoint lset {A} (l : list A) (i : nat) (x : A) : list A :=
  match l, i with
  | [], _ => []
  | _ :: r, O => x :: r
  | y :: r, S j => y :: lset r j x
  end.
Definition lin_upd (ls : list (list T)) (o : op T) : list (list T) :=
  match o with
  | OU i x => match nth_error ls i with Some lin => lset ls i (lin ++ [x]) | None => ls end
  | OL _ => ls
  | OC i => ls ++ [match nth_error ls i with Some lin => lin | None => [] end]
  end.
Definition lineages_from (ls : list (list T)) (ops : list (op T)) : list (list T) := fold_left lin_upd ops ls.
(** lineage of every instance after [ops], starting from the single constructed instance *)
Definition lineages (ops : list (op T)) : list (list T) := lineages_from [[]] ops.

End SpecStruct.

Section SpecFeed.
Context {T : Type} {OT : Ops T}.

Notation "a +. b" := (sadd a b) (at level 50, left associativity).
Notation "a -. b" := (ssub a b) (at level 50, left associativity).
Notation "a *. b" := (smul a b) (at level 40, left associativity).

(** C01(3), PFE.  The value handed to the MA once the window [q] (already containing [v]) is full. *)
Definition pfe_p (n : nat) (q : list T) (v : T) : res T :=
  do wl <- usub n 1; do cnt <- usub n 2;
  do sm <- pfe_sum q wl cnt 0 s0;
  do fr <- front q;
  do num <- ssqrt (ssq (v -. fr) +. ssq (sofnat n));
  do p <- sdiv num sm;
  do prev <- getq q cnt;
  Ok (if sltb v prev then sneg p else p).

(** the list of values PFE feeds to its MA while receiving [vs], starting from window [q];
    a value whose computation fails is not fed (the update fails there) *)
Fixpoint pfe_feed_from (n : nat) (q : list T) (vs : list T) : list T :=
  match vs with
  | [] => []
  | v :: r =>
      let q' := evict n q ++ [v] in
      if Nat.leb n (length q')
      then match pfe_p n q' v with Ok p => p :: pfe_feed_from n q' r | Err _ => [] end
      else pfe_feed_from n q' r
  end.
Definition pfe_feed (n : nat) (vs : list T) : list T := pfe_feed_from n [] vs.

(** C01(3), EFT.  The window part of the state, (q, high, low), evolves independently of the MA. *)
Definition eft_win := (list T * T * T)%type.
Definition eft_win_step (n : nat) (w : eft_win) (v : T) : res eft_win :=
  let '(q0, high0, low0) := w in
  let '(high, low) := match q0 with [] => (v, v) | _ => (high0, low0) end in
  do '(q, high, low) <-
     (if Nat.leb n (length q0)
      then do '(old, q') <- pop_front q0;
           do high' <- (if sgeb old high
                        then match max_by q' with Some h => Ok h | None => Err UnwrapNone end
                        else Ok high);
           do low' <- (if sleb old low
                       then match min_by q' with Some l => Ok l | None => Err UnwrapNone end
                       else Ok low);
           Ok (q', high', low')
      else Ok (q0, high, low));
  let q := q ++ [v] in
  let '(high, low) := if sgtb v high then (v, low) else if sltb v low then (high, v) else (high, low) in
  Ok (q, high, low).
(** the value handed to the MA in window state [w'] (after [v] was pushed): none on a flat window *)
Definition eft_x (w' : eft_win) (v : T) : res (option T) :=
  let '(_, high, low) := w' in
  if seqb high low then Ok None
  else do r <- sdiv (v -. low) (high -. low); Ok (Some (sofdec 2%Z 0 *. (r -. sofdec 5%Z 1))).

Fixpoint eft_feed_from (n : nat) (w : eft_win) (vs : list T) : list T :=
  match vs with
  | [] => []
  | v :: r =>
      match eft_win_step n w v with
      | Err _ => []
      | Ok w' =>
          match eft_x w' v with
          | Err _ => []
          | Ok None => eft_feed_from n w' r
          | Ok (Some x) => x :: eft_feed_from n w' r
          end
      end
  end.
Definition eft_feed (n : nat) (vs : list T) : list T := eft_feed_from n ([], s0, s0) vs.

End SpecFeed.
