(** Specifications of the moving averages Ema and Alma (and the weighted mean they are instances of) as
    functions of the history (oldest value first).  Generic in the scalar; no proofs.
    (Sma's specification [spec_sma] is in Spec.v.) *)
From Coq Require Import List Arith Lia.
From SF Require Import Res Scalar Spec.
Import ListNotations.
Set Implicit Arguments.

Section SpecAvg.
Context {T : Type} {OT : Ops T}.

(** total exponential for specifications (the scalar's [sexp] never fails at [R] and [Q]) *)
Definition sexpd (x : T) : T := match sexp x with Ok r => r | Err _ => s0 end.

(** sum_i w_i x_i   and   the weighted mean (sum_i w_i x_i) / (sum_i w_i) *)
Definition sdot (ws xs : list T) : T := ssum (map (fun p => smul (fst p) (snd p)) (combine ws xs)).
Definition wmean (ws xs : list T) : T := sdivd (sdot ws xs) (ssum ws).

(** * Ema:  e_0 = x_0,  e_t = x_t*w + e_(t-1)*(1-w),  w = alpha/(1+N);  no answer while fewer than N values *)
Definition ema_weight (n : nat) (alpha : T) : T := sdivd alpha (sadd s1 (sofnat n)).
Definition ema_rec (w e x : T) : T := sadd (smul x w) (smul e (ssub s1 w)).
Definition ema_val (w : T) (h : list T) : option T :=
  match h with [] => None | x0 :: r => Some (fold_left (ema_rec w) r x0) end.
Definition spec_ema (n : nat) (alpha : T) (h : list T) : option T :=
  if Nat.ltb (length h) n then None else ema_val (ema_weight n alpha) h.

(** * Alma: Gaussian kernel  g(k) = exp(-(k-m)^2 / (2 s^2)),  m = offset*(N+1),  s = N/sigma *)
Definition alma_m (n : nat) (offset : T) : T := smul offset (sadd (sofnat n) s1).
Definition alma_s (n : nat) (sigma : T) : T := sdivd (sofnat n) sigma.
Definition gauss (m s : T) (k : nat) : T :=
  sexpd (sdivd (sneg (ssq (ssub (sofnat k) m))) (smul (smul s2 s) s)).
(** the weight of the value with (0-based) arrival index [j]: its queue position at insertion time *)
Definition alma_weight (n : nat) (sigma offset : T) (j : nat) : T :=
  gauss (alma_m n offset) (alma_s n sigma) (Nat.min j (n - 1)).
(** the weights of the first [len] arrivals *)
Definition alma_all_weights (n : nat) (sigma offset : T) (len : nat) : list T :=
  map (alma_weight n sigma offset) (seq 0 len).
(** the weighted mean of the last [n] values, each with the weight it received on arrival *)
Definition spec_alma (n : nat) (sigma offset : T) (h : list T) : option T :=
  match h with
  | [] => None
  | _ => Some (wmean (lastn n (alma_all_weights n sigma offset (length h))) (lastn n h))
  end.

End SpecAvg.
