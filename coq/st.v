From SF Require Import Surrogate. From Coq Require Import ZArith QArith.
Eval vm_compute in (exp_s prec_default (-(3#2)), cos_s prec_default (44422#30000), sin_s prec_default (44422#30000), ln_s prec_default (7#3), log2_s prec_default (1#3), sqrt_s prec_default (2#1), tanh_s prec_default (1#2), exp_s prec_default (-(52#1))).
