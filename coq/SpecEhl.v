(** Specifications (C11, C07, C12) of the non-linear Ehlers indicators TrendFlex, ReFlex, LaguerreRSI,
    EhlersFisherTransform and PolarizedFractalEfficiency, as functions of the complete input history
    (oldest value first).  Batch evaluation of the difference equations; no reference to the model's
    state records (no windows that are evicted, no cached extrema).  Generic in the scalar. *)
From Coq Require Import List Arith Lia ZArith.
From SF Require Import Res Scalar Spec.
Import ListNotations.
Set Implicit Arguments.

Section SpecEhl.
Context {T : Type} {OT : Ops T}.

Notation "a +. b" := (sadd a b) (at level 50, left associativity).
Notation "a -. b" := (ssub a b) (at level 50, left associativity).
Notation "a *. b" := (smul a b) (at level 40, left associativity).

(** totalised transcendental functions (0 outside the domain, like [sdivd]) *)
Definition totd (r : res T) : T := match r with Ok x => x | Err _ => s0 end.
Definition sexpd (x : T) : T := totd (sexp x).
Definition scosd (x : T) : T := totd (scos x).
Definition ssqrtd (x : T) : T := totd (ssqrt x).
Definition slnd (x : T) : T := totd (sln x).

(** all non-empty prefixes, shortest first: [prefixes [a;b;c] = [[a];[a;b];[a;b;c]]] *)
Definition prefixes {A} (l : list A) : list (list A) := map (fun k => firstn k l) (seq 1 (length l)).
Definition lasto {A} (l : list A) : option A := match rev l with [] => None | x :: _ => Some x end.
(** the values of an option stream *)
Fixpoint ovals {A} (os : list (option A)) : list A :=
  match os with [] => [] | Some v :: r => v :: ovals r | None :: r => ovals r end.
(** "keep the previous output when the current step has none" over the prefixes of a sequence *)
Definition hold_last {A} (f : list A -> option T) (l : list A) : option T :=
  fold_left (fun o p => match f p with Some y => Some y | None => o end) (prefixes l) None.

(* ------------------------------------------------------------------ SuperSmoother (TrendFlex, ReFlex) *)

Definition ss_a1 (n : nat) : T := sexpd (sdivd (sofdec (-888442402435) 11) (sofnat n)).
Definition ss_b1 (n : nat) : T := s2 *. ss_a1 n *. scosd (sdivd (sofdec 444221201218 11) (sofnat n)).
Definition ss_c3 (n : nat) : T := sneg (ss_a1 n *. ss_a1 n).
Definition ss_c1 (n : nat) : T := s1 -. ss_b1 n -. ss_c3 n.

(** filt_t from all earlier filt values [F] (oldest first), x_{t-1} = [xp], x_t = [x]:
    the window holds N filt values including the current one, so N-1 earlier ones are visible. *)
Definition ss_next (n : nat) (F : list T) (xp x : T) : T :=
  let h := sdivd (ss_c1 n *. (x +. xp)) s2 in
  match rev (lastn (n - 1) F) with
  | [] => h
  | f1 :: [] => h +. ss_b1 n *. f1
  | f1 :: f2 :: _ => h +. ss_b1 n *. f1 +. ss_c3 n *. f2
  end.

(** the complete sequence filt_0 .. filt_t ; x_{-1} := x_0 *)
Definition ss_filts (n : nat) (h : list T) : list T :=
  fst (fold_left (fun (acc : list T * option T) x =>
                    let xp := match snd acc with None => x | Some p => p end in
                    (fst acc ++ [ss_next n (fst acc) xp x], Some x))
                 h ([], None)).

(** TrendFlex: d_t = (1/N) sum over the window of (filt_t - filt_j), from filt_0..filt_t *)
Definition tf_dev (n : nat) (F : list T) : T :=
  let f := last F s0 in
  sdivd (ssum (map (fun fj => f -. fj) (lastn n F))) (sofnat n).

(** ReFlex: slope = (oldest filt in window - filt_t)/N, d_t = (1/N) sum_i (filt_t + i*slope - filt_{t-i}) *)
Definition rf_dev (n : nat) (F : list T) : T :=
  let f := last F s0 in
  let w := lastn n F in
  let slope := sdivd (hd s0 w -. f) (sofnat n) in
  sdivd (ssum (map (fun p => (f +. sofnat (fst p) *. slope) -. snd p)
                   (combine (seq 0 (length w)) (rev w))))
        (sofnat n).

Definition tf_devs (n : nat) (h : list T) : list T := map (tf_dev n) (prefixes (ss_filts n h)).
Definition rf_devs (n : nat) (h : list T) : list T := map (rf_dev n) (prefixes (ss_filts n h)).

(** ms_t = 0.04 d_t^2 + 0.96 ms_{t-1}, ms_{-1} = 0, from d_0..d_t *)
Definition flex_ms (ds : list T) : T :=
  fold_left (fun m d => sofdec 4 2 *. ssq d +. sofdec 96 2 *. m) ds s0.
(** d_t / sqrt(ms_t) when ms_t > 0 *)
Definition flex_val (ds : list T) : option T :=
  let m := flex_ms ds in
  if sgtb m s0 then Some (sdivd (last ds s0) (ssqrtd m)) else None.

Definition spec_trendflex (n : nat) (h : list T) : option T :=
  match h with
  | [] => None
  | _ => Some (match flex_val (tf_devs n h) with Some o => o | None => s0 end)
  end.
Definition spec_reflex (n : nat) (h : list T) : option T := hold_last flex_val (rf_devs n h).

(* ------------------------------------------------------------------ LaguerreRSI *)

Definition lrsi_gamma (n : nat) : T := sdivd s2 (sofnat n +. s1).
Definition lad_step (g : T) (p : T * T * T * T) (x : T) : T * T * T * T :=
  let '(p0, p1, p2, p3) := p in
  let l0 := (s1 -. g) *. x +. g *. p0 in
  let l1 := sneg g *. l0 +. p0 +. g *. p1 in
  let l2 := sneg g *. l1 +. p1 +. g *. p2 in
  let l3 := sneg g *. l2 +. p2 +. g *. p3 in
  (l0, l1, l2, l3).
(** stages after the inputs [xs], from the zero state *)
Definition lrsi_stages (g : T) (xs : list T) : T * T * T * T := fold_left (lad_step g) xs (s0, s0, s0, s0).
Definition spos (x : T) : T := if sleb s0 x then x else s0.
Definition lrsi_cu (l : T * T * T * T) : T :=
  let '(l0, l1, l2, l3) := l in spos (l0 -. l1) +. spos (l1 -. l2) +. spos (l2 -. l3).
Definition lrsi_cd (l : T * T * T * T) : T :=
  let '(l0, l1, l2, l3) := l in spos (l1 -. l0) +. spos (l2 -. l1) +. spos (l3 -. l2).
(** CU/(CU+CD) when CU+CD <> 0 *)
Definition lrsi_val (g : T) (xs : list T) : option T :=
  let l := lrsi_stages g xs in
  let cu := lrsi_cu l in let cd := lrsi_cd l in
  if seqb (cu +. cd) s0 then None else Some (sdivd cu (cu +. cd)).
(** the first two inputs are swallowed; previous output kept when CU+CD = 0 *)
Definition spec_lrsi (n : nat) (h : list T) : option T := hold_last (lrsi_val (lrsi_gamma n)) (skipn 2 h).

(* ------------------------------------------------------------------ EhlersFisherTransform *)

Definition wmax (w : list T) : T := fold_left smax (tl w) (hd s0 w).
Definition wmin (w : list T) : T := fold_left smin (tl w) (hd s0 w).
(** the normalised value of step t from the (non-empty) history up to t; [None] while high = low *)
Definition eft_norm (n : nat) (p : list T) : option T :=
  let w := lastn n p in
  let hi := wmax w in let lo := wmin w in
  if seqb hi lo then None
  else Some (s2 *. (sdivd (last p s0 -. lo) (hi -. lo) -. sofdec 5 1)).
Definition eft_events (n : nat) (h : list T) : list (option T) := map (eft_norm n) (prefixes h).
(** the list of values the moving average has received after the history [h] *)
Definition eft_inputs (n : nat) (h : list T) : list T := ovals (eft_events n h).
Definition eft_fish (sm prev : T) : T :=
  let v := sclamp sm (sofdec (-99) 2) (sofdec 99 2) in
  sofdec 5 1 *. slnd (sdivd (s1 +. v) (s1 -. v)) +. sofdec 5 1 *. prev.
(** the value pushed last, from the per-step events and the moving average's answers [mas]
    (one answer per [Some] event): 0 while high = low, nothing while the MA is not ready, 0 at the first
    ready step when nothing was pushed before, else the Fisher recursion *)
Fixpoint eft_run (evs : list (option T)) (mas : list (option T)) (prev : option T) : option T :=
  match evs with
  | [] => prev
  | None :: r => eft_run r mas (Some s0)
  | Some _ :: r =>
      match mas with
      | [] => prev
      | None :: ms => eft_run r ms prev
      | Some sm :: ms =>
          eft_run r ms (Some (match prev with None => s0 | Some p => eft_fish sm p end))
      end
  end.
(** [mas]: the answers of the MA view to [eft_inputs n h] *)
Definition spec_eft (n : nat) (h : list T) (mas : list (option T)) : option T :=
  eft_run (eft_events n h) mas None.

(* ------------------------------------------------------------------ PolarizedFractalEfficiency *)

(** p_t from the history up to t ([None] before N values were seen); the window is x_{t-N+1}..x_t *)
Definition pfe_den (n : nat) (w : list T) : T :=
  ssum (map (fun i => ssqrtd (ssq (nth (n - 1 - i) w s0 -. nth (n - 2 - i) w s0) +. s1)) (seq 0 (n - 2))).
Definition pfe_num (n : nat) (w : list T) : T :=
  ssqrtd (ssq (nth (n - 1) w s0 -. nth 0 w s0) +. ssq (sofnat n)).
Definition pfe_p (n : nat) (p : list T) : option T :=
  if Nat.ltb (length p) n then None
  else
    let w := lastn n p in
    let r := sdivd (pfe_num n w) (pfe_den n w) in
    Some (if sltb (nth (n - 1) w s0) (nth (n - 2) w s0) then sneg r else r).
(** the list of values the moving average has received after the history [h] *)
Definition pfe_inputs (n : nat) (h : list T) : list T := ovals (map (pfe_p n) (prefixes h)).
(** [mas]: the answers of the MA view to [pfe_inputs n h]; the output is its last answer *)
Definition spec_pfe (mas : list (option T)) : option T :=
  match rev mas with [] => None | o :: _ => o end.

End SpecEhl.
