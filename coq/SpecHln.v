(** Specifications of HLNormalizer and BinaryEntropy (C02) as functions of the history (oldest value
    first).  No proofs, generic in the scalar, executable at [Q]. *)
From Coq Require Import List Arith Bool.
From SF Require Import Res Scalar Spec.
Import ListNotations.
Set Implicit Arguments.

Section SpecHln.
Context {T : Type} {OT : Ops T}.

(** minimum / maximum of the non-empty list [f :: r] *)
Definition wmin (f : T) (r : list T) : T := fold_left (fun m v => if sltb v m then v else m) r f.
Definition wmax (f : T) (r : list T) : T := fold_left (fun m v => if sgtb v m then v else m) r f.

(** [2 (x - mn) / (mx - mn) - 1], and 0 when [mx = mn] *)
Definition hl_norm (mn mx x : T) : T :=
  if seqb mx mn then s0 else ssub (sdivd (smul s2 (ssub x mn)) (ssub mx mn)) s1.

(** HLNormalizer: the newest value normalised by the extent of the window [lastn n h]
    (which is the whole history while fewer than [n] values have been seen).
    No value on the empty history. *)
Definition spec_hln (n : nat) (h : list T) : option T :=
  match lastn n h with
  | [] => None
  | f :: r => Some (hl_norm (wmin f r) (wmax f r) (last r f))
  end.

(** number of non-negative values *)
Definition count_nonneg (l : list T) : nat := length (filter (fun v => sgeb v s0) l).

(** total base-2 logarithm for specifications: 0 where the scalar's [slog2] is undefined *)
Definition be_log2d (x : T) : T := match slog2 x with Ok r => r | Err _ => s0 end.

(** Shannon entropy in bits of a Bernoulli(p) variable; 0 at [p = 0] and [p = 1] *)
Definition binary_entropy (p : T) : T :=
  if seqb p s0 || seqb p s1 then s0
  else sneg (sadd (smul p (be_log2d p)) (smul (ssub s1 p) (be_log2d (ssub s1 p)))).

(** BinaryEntropy: entropy of the fraction of non-negative values in the window [lastn n h] *)
Definition spec_entropy (n : nat) (h : list T) : option T :=
  match lastn n h with
  | [] => None
  | w => Some (binary_entropy (sdivd (sofnat (count_nonneg w)) (sofnat (length w))))
  end.

End SpecHln.
