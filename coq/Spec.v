(** Specifications: the property texts as functions of the history (oldest value first), written
    without reference to any state.  Generic in the scalar; proved at [R], executed at [Q]. *)
From Coq Require Import List Arith Lia.
From SF Require Import Res Scalar.
Import ListNotations.
Set Implicit Arguments.

Section Spec.
Context {T : Type} {OT : Ops T}.

(** total division for specifications: [a / b], and 0 where the scalar's division is undefined *)
Definition sdivd (a b : T) : T := match sdiv a b with Ok r => r | Err _ => s0 end.

(** the last [n] elements *)
Definition lastn {A} (n : nat) (l : list A) : list A := skipn (length l - n) l.

Definition ssum (l : list T) : T := fold_left sadd l s0.
Definition smean (l : list T) : T := sdivd (ssum l) (sofnat (length l)).

(** C02 *)
Definition spec_sma (n : nat) (h : list T) : option T :=
  if Nat.ltb (length h) n then None else Some (smean (lastn n h)).
Definition spec_cumulative (n : nat) (h : list T) : option T :=
  match h with [] => None | _ => Some (ssum (lastn n h)) end.

End Spec.
