(** Cores fed with plain values: [cout c vs] is what a stand-alone wrapper (over Echo) answers after
    receiving [vs]; invariants by induction over the history; the link back to runs and chains. *)
From Coq Require Import List Arith Lia.
From SF Require Import Res Scalar View.
From SF.Proofs Require Import Chain.
Import ListNotations.
Set Implicit Arguments.

Section Core.
Variable T : Type.

Fixpoint cfold (c : core T) (s : cst c) (vs : list T) : res (cst c) :=
  match vs with [] => Ok s | v :: r => do s' <- cstep c s v; cfold c s' r end.
Definition crun (c : core T) (vs : list T) : res (cst c) := do s <- cnew c; cfold c s vs.
(** the answer after the history [vs] *)
Definition cout (c : core T) (vs : list T) : res (option T) := do s <- crun c vs; clast c s.

Lemma cfold_app c s vs ws : cfold c s (vs ++ ws) = do s' <- cfold c s vs; cfold c s' ws.
Proof.
  revert s; induction vs as [|v vs IH]; intros s; cbn; [reflexivity|].
  destruct (cstep c s v); cbn; [apply IH | reflexivity].
Qed.

Lemma crun_snoc c vs v : crun c (vs ++ [v]) = do s <- crun c vs; cstep c s v.
Proof.
  unfold crun. destruct (cnew c) as [s0|e]; cbn; [|reflexivity].
  rewrite cfold_app. destruct (cfold c s0 vs); cbn; [|reflexivity]. destruct (cstep c a v); reflexivity.
Qed.

(** invariants over the history, with a domain predicate on the values fed *)
Lemma crun_inv (c : core T) (D : T -> Prop) (Inv : list T -> cst c -> Prop) s0 :
  cnew c = Ok s0 -> Inv [] s0 ->
  (forall h s v, Forall D h -> D v -> Inv h s -> exists s', cstep c s v = Ok s' /\ Inv (h ++ [v]) s') ->
  forall vs, Forall D vs -> exists s, crun c vs = Ok s /\ Inv vs s.
Proof.
  intros Hn H0 Hstep vs. induction vs as [|v vs IH] using rev_ind; intros HD.
  - exists s0. unfold crun. rewrite Hn. cbn. auto.
  - apply Forall_app in HD. destruct HD as [HD Hv]. apply Forall_inv in Hv.
    destruct (IH HD) as [s [Hs Hi]]. destruct (Hstep vs s v HD Hv Hi) as [s' [Hs' Hi']].
    exists s'. rewrite crun_snoc, Hs. cbn. auto.
Qed.

(** values of an option stream *)
Fixpoint somes (os : list (option T)) : list T :=
  match os with [] => [] | Some v :: r => v :: somes r | None :: r => somes r end.

Lemma somes_app a b : somes (a ++ b) = somes a ++ somes b.
Proof. induction a as [|[v|] a IH]; cbn; [reflexivity | rewrite IH; reflexivity | exact IH]. Qed.
Lemma somes_map_Some xs : somes (map Some xs) = xs.
Proof. induction xs as [|x xs IH]; cbn; [reflexivity | rewrite IH; reflexivity]. Qed.

(** replay = [cout] on the values received so far, at every step *)
Lemma replay_from_cfold c s os outs :
  replay_from c s os = Ok outs ->
  length outs = length os /\
  forall t o, nth_error outs t = Some o ->
    exists s', cfold c s (somes (firstn (S t) os)) = Ok s' /\ clast c s' = Ok o.
Proof.
  revert s outs. induction os as [|o os IH]; intros s outs H; cbn in H.
  - inversion H; subst. split; [reflexivity|]. intros t o Ht; destruct t; discriminate.
  - destruct o as [v|].
    + destruct (cstep c s v) as [s1|e] eqn:E1; cbn in H; [|discriminate].
      destruct (clast c s1) as [o1|e] eqn:E2; cbn in H; [|discriminate].
      destruct (replay_from c s1 os) as [r|e] eqn:E3; cbn in H; [|discriminate].
      inversion H; subst. destruct (IH _ _ E3) as [Hl Hn]. split; [cbn; f_equal; exact Hl|].
      intros t o Ht. destruct t; cbn in *.
      * inversion Ht; subst. exists s1. rewrite E1. cbn. auto.
      * rewrite E1. cbn. apply Hn; assumption.
    + destruct (clast c s) as [o1|e] eqn:E2; cbn in H; [|discriminate].
      destruct (replay_from c s os) as [r|e] eqn:E3; cbn in H; [|discriminate].
      inversion H; subst. destruct (IH _ _ E3) as [Hl Hn]. split; [cbn; f_equal; exact Hl|].
      intros t o Ht. destruct t; cbn in *.
      * inversion Ht; subst. exists s. auto.
      * apply Hn; assumption.
Qed.

(** a chain's output at step [t] is the wrapper core's [cout] on the inner outputs so far *)
Theorem chain_cout (c : core T) (a : view T) xs la outs :
  mrun a xs = Ok la -> mrun (wrap c a) xs = Ok outs ->
  forall t o, nth_error outs t = Some o -> cout c (somes (firstn (S t) la)) = Ok o.
Proof.
  intros Ha Hw t o Ht. unfold mrun in Hw. cbn in Hw.
  unfold mrun in Ha. destruct (vnew a) as [sa|e] eqn:Ea; cbn in Ha, Hw; [|discriminate].
  destruct (cnew c) as [sc|e] eqn:Ec; cbn in Hw; [|discriminate].
  rewrite (mrun_from_wrap c a sa sc xs Ha) in Hw.
  destruct (replay_from_cfold c sc la Hw) as [_ Hn].
  destruct (Hn t o Ht) as [s' [Hf Hl]]. unfold cout, crun. rewrite Ec, bind_Ok_l, Hf, bind_Ok_l. exact Hl.
Qed.

(** stand-alone: output at step [t] is [cout] on the first [t+1] inputs *)
Theorem standalone_cout (c : core T) xs outs :
  mrun (standalone c) xs = Ok outs ->
  forall t o, nth_error outs t = Some o -> cout c (firstn (S t) xs) = Ok o.
Proof.
  intros H t o Ht. unfold standalone in H.
  assert (Ha : mrun (@echo T) xs = Ok (map Some xs)) by (unfold mrun; cbn; apply mrun_from_echo).
  pose proof (chain_cout c (@echo T) xs Ha H t Ht) as Hc.
  rewrite firstn_map, somes_map_Some in Hc. exact Hc.
Qed.

(** and conversely a core that never fails on a domain gives a run without errors *)
Lemma replay_from_ok c s os :
  (forall s' t, t <= length os -> cfold c s (somes (firstn t os)) = Ok s' -> exists o, clast c s' = Ok o) ->
  (forall t, t <= length os -> exists s', cfold c s (somes (firstn t os)) = Ok s') ->
  exists outs, replay_from c s os = Ok outs.
Proof.
  revert s. induction os as [|o os IH]; intros s Hl Hf; cbn; [eauto|].
  destruct o as [v|].
  - destruct (Hf 1 ltac:(cbn; lia)) as [s1 H1]. cbn in H1.
    destruct (cstep c s v) as [s1'|e] eqn:E1; cbn in H1; [|discriminate]. inversion H1; subst. cbn.
    destruct (Hl s1 1 ltac:(cbn; lia)) as [o1 Ho1]; [cbn; rewrite E1; reflexivity|]. rewrite Ho1. cbn.
    destruct (IH s1) as [outs Ho].
    + intros s' t Ht Hc. apply (Hl s' (S t)); [cbn; lia|]. cbn. rewrite E1. cbn. exact Hc.
    + intros t Ht. destruct (Hf (S t) ltac:(cbn; lia)) as [s' Hs']. cbn in Hs'. rewrite E1 in Hs'. cbn in Hs'. eauto.
    + rewrite Ho. cbn. eauto.
  - destruct (Hl s 0 ltac:(lia)) as [o1 Ho1]; [reflexivity|]. rewrite Ho1. cbn.
    destruct (IH s) as [outs Ho].
    + intros s' t Ht Hc. apply (Hl s' (S t)); [cbn; lia|]. cbn. exact Hc.
    + intros t Ht. destruct (Hf (S t) ltac:(cbn; lia)) as [s' Hs']. cbn in Hs'. eauto.
    + rewrite Ho. cbn. eauto.
Qed.

End Core.
