(** Hand-written models of every [View] implementation of /repo/src, generic in the scalar [Ops T].
    Each definition follows the Rust statement by statement (file and line references are to
    /repo/src); every operation that can panic is monadic.  Validated against the implementation by
    the correspondence check (./check), not verified. *)
From Coq Require Import List Arith Lia ZArith Bool.
From SF Require Import Res Scalar View.
Import ListNotations.
Set Implicit Arguments.

Section Models.
Context {T : Type} {OT : Ops T}.

Notation "a +. b" := (sadd a b) (at level 50, left associativity).
Notation "a -. b" := (ssub a b) (at level 50, left associativity).
Notation "a *. b" := (smul a b) (at level 40, left associativity).

Definition last_opt (q : list T) : option T := match rev q with [] => None | x :: _ => Some x end.
Definition evict (n : nat) (q : list T) : list T := if Nat.leb n (length q) then tl q else q.

(* ------------------------------------------------------------------ pure_functions *)

(** constant.rs *)
Definition constant (c : T) : view T := {|
  vst := unit; vnew := Ok tt; vupd := fun s _ => Ok s; vlast := fun _ => Ok (Some c); vpop := fun _ => 0 |}.

(** add.rs subtract.rs multiply.rs divide.rs *)
Definition vadd := binop (fun a b : T => Ok (a +. b)).
Definition vsub := binop (fun a b : T => Ok (a -. b)).
Definition vmul := binop (fun a b : T => Ok (a *. b)).
Definition vdiv := binop (fun a b : T => sdiv a b).

(** tanh.rs *)
Definition vtanh := mapview (fun v : T => stanh v).

(** gte.rs lte.rs *)
Definition gte_core (clip : T) : core T := {|
  cst := option T; cnew := Ok None;
  cstep := fun _ v => Ok (Some (if sgeb v clip then v else clip));
  clast := fun s => Ok s; cpop := fun _ => 0 |}.
Definition lte_core (clip : T) : core T := {|
  cst := option T; cnew := Ok None;
  cstep := fun _ v => Ok (Some (if sleb v clip then v else clip));
  clast := fun s => Ok s; cpop := fun _ => 0 |}.

(* ------------------------------------------------------------------ rolling *)

(** drawdown.rs.  [peak = T::min_value()] initially: modelled as "no peak yet". *)
Record dd_st := { dd_max : T; dd_peak : option T; dd_min : T }.
Definition dd_step (s : dd_st) (v : T) : res dd_st :=
  let '(pk, mn) := match dd_peak s with
                   | None => (v, v)
                   | Some p => if sgtb v p then (v, v) else (p, dd_min s)
                   end in
  let mn := if sltb v mn then v else mn in
  do dd <- sdiv (pk -. mn) pk;
  Ok {| dd_max := if sgtb dd (dd_max s) then dd else dd_max s; dd_peak := Some pk; dd_min := mn |}.
Definition drawdown_core : core T := {|
  cst := dd_st; cnew := Ok {| dd_max := s0; dd_peak := None; dd_min := s0 |};
  cstep := dd_step; clast := fun s => Ok (Some (dd_max s)); cpop := fun _ => 0 |}.

(** ln_return.rs *)
Definition lnret_core : core T := {|
  cst := (T * T)%type;  (* (last_val, current_val) *)
  cnew := Ok (s0, s0);
  cstep := fun s v => Ok (snd s, v);
  clast := fun s => if seqb (fst s) s0 then Ok None
                    else do r <- sdiv (snd s) (fst s); do l <- sln r; Ok (Some l);
  cpop := fun _ => 0 |}.

(** welford_rolling.rs *)
Record wr_st := { wr_mean : T; wr_s : T; wr_n : nat }.
Definition wr_step (s : wr_st) (v : T) : res wr_st :=
  let n := S (wr_n s) in
  do d <- sdiv (v -. wr_mean s) (sofnat n);
  let mean := wr_mean s +. d in
  Ok {| wr_mean := mean; wr_s := wr_s s +. (v -. wr_mean s) *. (v -. mean); wr_n := n |}.
Definition wr_variance (s : wr_st) : res T :=
  if Nat.ltb 1 (wr_n s) then sdiv (wr_s s) (sofnat (wr_n s)) else Ok s0.
Definition wr_last (s : wr_st) : res (option T) :=
  if Nat.eqb (wr_n s) 0 then Ok None
  else do var <- wr_variance s; do r <- ssqrt var; Ok (Some r).
Definition wr_new : wr_st := {| wr_mean := s0; wr_s := s0; wr_n := 0 |}.
Definition wrolling_core : core T := {|
  cst := wr_st; cnew := Ok wr_new; cstep := wr_step; clast := wr_last; cpop := fun _ => 0 |}.
(** the public getter [mean()] observed as a view *)
Definition wrolling_mean_core : core T := {|
  cst := wr_st; cnew := Ok wr_new; cstep := wr_step; clast := fun s => Ok (Some (wr_mean s)); cpop := fun _ => 0 |}.

(* ------------------------------------------------------------------ sliding_windows *)

(** sma.rs *)
Record sma_st := { sma_q : list T; sma_sum : T }.
Definition sma_step (n : nat) (s : sma_st) (v : T) : res sma_st :=
  do '(q, sum) <- (if Nat.leb n (length (sma_q s))
                   then do '(old, q') <- pop_front (sma_q s); Ok (q', sma_sum s -. old)
                   else Ok (sma_q s, sma_sum s));
  Ok {| sma_q := q ++ [v]; sma_sum := sum +. v |}.
Definition sma_last (n : nat) (s : sma_st) : res (option T) :=
  if Nat.ltb (length (sma_q s)) n then Ok None
  else do m <- sdiv (sma_sum s) (sofnat (length (sma_q s))); Ok (Some m).
Definition sma_core (n : nat) : core T := {|
  cst := sma_st; cnew := Ok {| sma_q := []; sma_sum := s0 |};
  cstep := sma_step n; clast := sma_last n; cpop := fun s => length (sma_q s) |}.

(** ema.rs *)
Record ema_st := { ema_last : T; ema_out : T; ema_n : nat }.
Definition ema_step (n : nat) (alpha : T) (s : ema_st) (v : T) : res ema_st :=
  let k := S (ema_n s) in
  do w <- sdiv alpha (s1 +. sofnat n);
  if Nat.eqb k 1 then Ok {| ema_last := v; ema_out := v; ema_n := k |}
  else let out := v *. w +. ema_last s *. (s1 -. w) in
       Ok {| ema_last := out; ema_out := out; ema_n := k |}.
Definition ema_core_alpha (n : nat) (alpha : T) : core T := {|
  cst := ema_st; cnew := Ok {| ema_last := s0; ema_out := s0; ema_n := 0 |};
  cstep := ema_step n alpha;
  clast := fun s => if Nat.ltb (ema_n s) n then Ok None else Ok (Some (ema_out s));
  cpop := fun _ => 0 |}.
Definition ema_core (n : nat) : core T := ema_core_alpha n (sofdec 2 0).

(** cumulative.rs *)
Record cum_st := { cum_q : list T; cum_out : option T }.
Definition cum_step (n : nat) (s : cum_st) (v : T) : res cum_st :=
  let out := match cum_out s with None => s0 | Some o => o end in
  do '(q, out) <- (if Nat.leb n (length (cum_q s))
                   then do '(old, q') <- pop_front (cum_q s); Ok (q', out -. old)
                   else Ok (cum_q s, out));
  Ok {| cum_q := q ++ [v]; cum_out := Some (out +. v) |}.
Definition cumulative_core (n : nat) : core T := {|
  cst := cum_st; cnew := Ok {| cum_q := []; cum_out := None |};
  cstep := cum_step n; clast := fun s => Ok (cum_out s); cpop := fun s => length (cum_q s) |}.

(** min.rs max.rs.  [Iterator::min_by] keeps the earlier of two elements unless it is greater;
    [max_by] keeps the earlier only if it is greater. *)
Definition min_by (q : list T) : option T :=
  match q with [] => None | x :: r => Some (fold_left (fun m y => if sgtb m y then y else m) r x) end.
Definition max_by (q : list T) : option T :=
  match q with [] => None | x :: r => Some (fold_left (fun m y => if sgtb m y then m else y) r x) end.

Record ext_st := { ext_q : list T; ext_opt : option T }.
Definition min_step (n : nat) (s : ext_st) (v : T) : res ext_st :=
  do '(q, opt) <- (if Nat.leb n (length (ext_q s))
                   then do '(popped, q') <- pop_front (ext_q s);
                        match ext_opt s with
                        | None => Err UnwrapNone
                        | Some m => Ok (q', if seqb popped m then min_by q' else Some m)
                        end
                   else Ok (ext_q s, ext_opt s));
  Ok {| ext_q := q ++ [v];
        ext_opt := Some (match opt with Some m => if sltb v m then v else m | None => v end) |}.
Definition max_step (n : nat) (s : ext_st) (v : T) : res ext_st :=
  do '(q, opt) <- (if Nat.leb n (length (ext_q s))
                   then do '(popped, q') <- pop_front (ext_q s);
                        match ext_opt s with
                        | None => Err UnwrapNone
                        | Some m => Ok (q', if seqb popped m then max_by q' else Some m)
                        end
                   else Ok (ext_q s, ext_opt s));
  Ok {| ext_q := q ++ [v];
        ext_opt := Some (match opt with Some m => if sgtb v m then v else m | None => v end) |}.
Definition ext_new (n : nat) : res ext_st :=
  do _ <- assert (Nat.ltb 0 n); Ok {| ext_q := []; ext_opt := None |}.
Definition min_core (n : nat) : core T := {|
  cst := ext_st; cnew := ext_new n; cstep := min_step n; clast := fun s => Ok (ext_opt s);
  cpop := fun s => length (ext_q s) |}.
Definition max_core (n : nat) : core T := {|
  cst := ext_st; cnew := ext_new n; cstep := max_step n; clast := fun s => Ok (ext_opt s);
  cpop := fun s => length (ext_q s) |}.

(** roc.rs *)
Record roc_st := { roc_oldest : option T; roc_q : list T; roc_out : option T }.
Definition roc_step (n : nat) (s : roc_st) (v : T) : res roc_st :=
  let oldest := match roc_q s with [] => Some v | _ => roc_oldest s end in
  do '(oldest, q) <- (if Nat.leb n (length (roc_q s))
                      then do old <- front (roc_q s); Ok (Some old, tl (roc_q s))
                      else Ok (oldest, roc_q s));
  let q := q ++ [v] in
  match oldest with
  | None => Ok {| roc_oldest := oldest; roc_q := q; roc_out := roc_out s |}
  | Some o =>
      if seqb o s0 then Ok {| roc_oldest := oldest; roc_q := q; roc_out := roc_out s |}
      else do r <- sdiv (v -. o) o;
           Ok {| roc_oldest := oldest; roc_q := q; roc_out := Some (r *. sofdec 100 0) |}
  end.
Definition roc_core (n : nat) : core T := {|
  cst := roc_st; cnew := Ok {| roc_oldest := None; roc_q := []; roc_out := None |};
  cstep := roc_step n; clast := fun s => Ok (roc_out s); cpop := fun s => length (roc_q s) |}.

(** welford_online.rs *)
Record wo_st := { wo_q : list T; wo_mean : T; wo_m2 : T; wo_count : nat }.
Definition wo_add (mean m2 : T) (count : nat) (x : T) : res (T * T * nat) :=
  let delta := x -. mean in
  do d <- sdiv delta (sofnat (count + 1));
  let mean' := mean +. d in
  Ok (mean', m2 +. delta *. (x -. mean'), count + 1).
Definition wo_remove (mean m2 : T) (count : nat) (old : T) : res (T * T * nat) :=
  if Nat.leb count 1 then Ok (s0, s0, 0)
  else let delta := old -. mean in
       do d <- sdiv delta (sofnat (count - 1));
       let mean' := mean -. d in
       Ok (mean', m2 -. delta *. (old -. mean'), count - 1).
Definition wo_step (n : nat) (s : wo_st) (v : T) : res wo_st :=
  let q := wo_q s ++ [v] in
  do '(q, (mean, m2, count)) <-
     (if Nat.ltb n (length q)
      then do '(old, q') <- pop_front q;
           do st <- wo_remove (wo_mean s) (wo_m2 s) (wo_count s) old; Ok (q', st)
      else Ok (q, (wo_mean s, wo_m2 s, wo_count s)));
  do '(mean, m2, count) <- wo_add mean m2 count v;
  Ok {| wo_q := q; wo_mean := mean; wo_m2 := m2; wo_count := count |}.
Definition wo_variance (s : wo_st) : res T :=
  if Nat.ltb 1 (wo_count s) then sdiv (wo_m2 s) (sofnat (wo_count s - 1)) else Ok s0.
Definition wo_last (n : nat) (s : wo_st) : res (option T) :=
  do n1 <- usub n 1;
  if Nat.ltb (wo_count s) n1 then Ok None
  else do var <- wo_variance s;
       if sleb var s0 then Ok (Some s0) else do r <- ssqrt var; Ok (Some r).
Definition wo_new (n : nat) : res wo_st :=
  do _ <- assert (Nat.ltb 0 n); Ok {| wo_q := []; wo_mean := s0; wo_m2 := s0; wo_count := 0 |}.
Definition welford_core (n : nat) : core T := {|
  cst := wo_st; cnew := wo_new n; cstep := wo_step n; clast := wo_last n;
  cpop := fun s => length (wo_q s) |}.
(** public getters [mean()] and [variance()] observed as views *)
Definition welford_mean_core (n : nat) : core T := {|
  cst := wo_st; cnew := wo_new n; cstep := wo_step n; clast := fun s => Ok (Some (wo_mean s));
  cpop := fun s => length (wo_q s) |}.
Definition welford_var_core (n : nat) : core T := {|
  cst := wo_st; cnew := wo_new n; cstep := wo_step n;
  clast := fun s => do v <- wo_variance s; Ok (Some v);
  cpop := fun s => length (wo_q s) |}.

(** variance_stabilizing_transformation.rs (owns a private WelfordOnline<Echo>) *)
Definition vst_core (n : nat) : core T := {|
  cst := (T * wo_st)%type;
  cnew := do w <- wo_new n; Ok (s0, w);
  cstep := fun s v => do w <- wo_step n (snd s) v; Ok (v, w);
  clast := fun s => do o <- wo_last n (snd s);
                    match o with
                    | None => Ok None
                    | Some sd => if seqb sd s0 then Ok (Some (fst s))
                                 else do r <- sdiv (fst s) sd; Ok (Some r)
                    end;
  cpop := fun s => length (wo_q (snd s)) |}.

(** vsct.rs *)
Definition vsct_core (n : nat) : core T := {|
  cst := (T * wo_st)%type;
  cnew := do w <- wo_new n; Ok (s0, w);
  cstep := fun s v => do w <- wo_step n (snd s) v; Ok (v, w);
  clast := fun s => do o <- wo_last n (snd s);
                    match o with
                    | None => Ok None
                    | Some sd => if seqb sd s0 then Ok (Some s0)
                                 else do r <- sdiv (fst s -. wo_mean (snd s)) sd; Ok (Some r)
                    end;
  cpop := fun s => length (wo_q (snd s)) |}.

(** hl_normalizer.rs *)
Record hln_st := { hln_q : list T; hln_min : T; hln_max : T; hln_last : T; hln_init : bool }.
Definition extent_queue (q : list T) : res (T * T) :=
  do f <- front q;
  Ok (fold_left (fun (mm : T * T) v =>
                   let mx := if sgtb v (snd mm) then v else snd mm in
                   let mn := if sltb v (fst mm) then v else fst mm in (mn, mx)) q (f, f)).
Definition hln_step (n : nat) (s : hln_st) (v : T) : res hln_st :=
  let '(mn, mx) := if hln_init s then (v, v) else (hln_min s, hln_max s) in
  do '(q, mn, mx) <-
     (if Nat.leb n (length (hln_q s))
      then do old <- front (hln_q s);
           let q := tl (hln_q s) ++ [v] in
           if sleb old mn || sgeb old mx
           then do '(a, b) <- extent_queue q; Ok (q, a, b)
           else Ok (q, mn, mx)
      else Ok (hln_q s ++ [v], mn, mx));
  let mx := if sgtb v mx then v else mx in
  let mn := if sltb v mn then v else mn in
  Ok {| hln_q := q; hln_min := mn; hln_max := mx; hln_last := v; hln_init := false |}.
Definition hln_lastf (s : hln_st) : res (option T) :=
  if seqb (hln_last s) (hln_min s) && seqb (hln_last s) (hln_max s) then Ok (Some s0)
  else do r <- sdiv ((hln_last s -. hln_min s) *. sofdec 2 0) (hln_max s -. hln_min s);
       Ok (Some (sneg s1 +. r)).
Definition hln_core (n : nat) : core T := {|
  cst := hln_st;
  cnew := Ok {| hln_q := []; hln_min := s0; hln_max := s0; hln_last := s0; hln_init := true |};
  cstep := hln_step n; clast := hln_lastf; cpop := fun s => length (hln_q s) |}.

(** binary_entropy.rs.  The queue is used back-to-front there; only its length and multiset matter.
    [0 * log2(0) = NaN] repaired by [is_nan()] is modelled by testing [p = 0 \/ p = len]. *)
Record be_st := { be_q : list T; be_p : nat }.
Definition be_step (n : nat) (s : be_st) (v : T) : res be_st :=
  do '(q, p) <- (if Nat.leb n (length (be_q s))
                 then do '(old, q') <- pop_front (be_q s);
                      if sgeb old s0 then do p' <- usub (be_p s) 1; Ok (q', p') else Ok (q', be_p s)
                 else Ok (be_q s, be_p s));
  Ok {| be_q := q ++ [v]; be_p := if sgeb v s0 then p + 1 else p |}.
Definition be_last (s : be_st) : res (option T) :=
  match be_q s with
  | [] => Ok None
  | _ =>
      let len := length (be_q s) in
      do pt <- sdiv (sofnat (be_p s)) (sofnat len);
      let pn := s1 -. pt in
      if Nat.eqb (be_p s) 0 || Nat.eqb (be_p s) len then Ok (Some (sneg s0))
      else do lt <- slog2 pt; do ln <- slog2 pn;
           Ok (Some (sneg (pt *. lt +. pn *. ln)))
  end.
Definition entropy_core (n : nat) : core T := {|
  cst := be_st; cnew := Ok {| be_q := []; be_p := 0 |};
  cstep := be_step n; clast := be_last; cpop := fun s => length (be_q s) |}.

(** center_of_gravity.rs *)
Fixpoint cog_sums (q : list T) (w : nat) (num den : T) : T * T :=
  match q with
  | [] => (num, den)
  | v :: r => cog_sums r (w - 1) (num +. sofnat w *. v) (den +. v)
  end.
Definition cog_step (n : nat) (s : list T * option T) (v : T) : res (list T * option T) :=
  let q := evict n (fst s) ++ [v] in
  let len := length q in
  let '(num, den) := cog_sums q len s0 s0 in
  if sneb den s0
  then do a <- sdiv (sneg num) den; do b <- sdiv (sofnat len +. s1) (sofdec 2 0); Ok (q, Some (a +. b))
  else Ok (q, Some s0).
Definition cog_core (n : nat) : core T := {|
  cst := (list T * option T)%type; cnew := Ok ([], None);
  cstep := cog_step n; clast := fun s => Ok (snd s); cpop := fun s => length (fst s) |}.

(** correlation_trend_indicator.rs *)
Record cti_sums := { c_sx : T; c_sy : T; c_sxx : T; c_sxy : T; c_syy : T }.
Fixpoint cti_loop (q : list T) (i : nat) (a : cti_sums) : cti_sums :=
  match q with
  | [] => a
  | v :: r => let c := sofnat i in
              cti_loop r (S i) {| c_sx := c_sx a +. v; c_sy := c_sy a +. c; c_sxx := c_sxx a +. ssq v;
                                  c_sxy := c_sxy a +. v *. c; c_syy := c_syy a +. ssq c |}
  end.
Definition cti_last (n : nat) (q : list T) : res (option T) :=
  let a := cti_loop q 0 {| c_sx := s0; c_sy := s0; c_sxx := s0; c_sxy := s0; c_syy := s0 |} in
  let wl := sofnat (length q) in       (* the number of values present (not window_len) *)
  let vx := wl *. c_sxx a -. ssq (c_sx a) in
  let vy := wl *. c_syy a -. ssq (c_sy a) in
  if sgtb vx s0 && sgtb vy s0
  then do r <- ssqrt (vx *. vy); do o <- sdiv (wl *. c_sxy a -. c_sx a *. c_sy a) r;
       Ok (Some (smin (smax o (sneg s1)) s1))      (* out.max(-1).min(1) *)
  else Ok (Some s0).
Definition cti_step (n : nat) (q : list T) (v : T) : res (list T) :=
  do q' <- (if Nat.leb n (length q) then do '(_, q') <- pop_front q; Ok q' else Ok q);
  Ok (q' ++ [v]).
Definition cti_core (n : nat) : core T := {|
  cst := list T; cnew := Ok []; cstep := cti_step n; clast := cti_last n; cpop := @length T |}.

(** noise_elimination_technology.rs: [older] is a prefix of the queue, [newer] the element after it *)
Definition net_sign (num diff : T) : T :=
  if sgtb diff s0 then num +. s1 else if sltb diff s0 then num -. s1 else num.
Fixpoint net_loop (older : list T) (rest : list T) (num : T) : T :=
  match rest with
  | [] => num
  | x :: rest' =>
      let num' := fold_left (fun acc o => net_sign acc (x -. o)) older num in
      net_loop (older ++ [x]) rest' num'
  end.
Definition net_step (n : nat) (s : list T * option T) (v : T) : res (list T * option T) :=
  let q := evict n (fst s) ++ [v] in
  if Nat.ltb (length q) 2 then Ok (q, snd s)
  else let num := net_loop [] q s0 in
       let nn := sofnat (length q) in
       let denom := sofdec 5 1 *. nn *. (nn -. s1) in
       do o <- sdiv num denom; Ok (q, Some o).
Definition net_core (n : nat) : core T := {|
  cst := (list T * option T)%type; cnew := Ok ([], None);
  cstep := net_step n; clast := fun s => Ok (snd s); cpop := fun s => length (fst s) |}.

(** rsi.rs *)
Record rsi_st := { rsi_gain : T; rsi_loss : T; rsi_oldref : T; rsi_lastval : T; rsi_q : list T; rsi_out : option T }.
(** gains and losses over the changes inside the window, summed afresh on every update
    ([prev] starts at the value that precedes the window) *)
Fixpoint rsi_sums (wl : T) (q : list T) (prev gain loss : T) : res (T * T) :=
  match q with
  | [] => Ok (gain, loss)
  | v :: r =>
      let change := v -. prev in
      if sgtb change s0 then do d <- sdiv change wl; rsi_sums wl r v (gain +. d) loss
      else do d <- sdiv (sabs change) wl; rsi_sums wl r v gain (loss +. d)
  end.
Definition rsi_step (n : nat) (s : rsi_st) (v : T) : res rsi_st :=
  let oldref := match rsi_q s with [] => v | _ => rsi_oldref s end in
  let wl := sofnat n in
  do '(oldref, q) <- (if Nat.leb n (length (rsi_q s))
                      then do '(old, q') <- pop_front (rsi_q s); Ok (old, q')
                      else Ok (oldref, rsi_q s));
  let q := q ++ [v] in
  if Nat.ltb (length q) n
  then Ok {| rsi_gain := rsi_gain s; rsi_loss := rsi_loss s; rsi_oldref := oldref; rsi_lastval := v; rsi_q := q; rsi_out := rsi_out s |}
  else
    do '(gain, loss) <- rsi_sums wl q oldref s0 s0;
    let hundred := sofdec 100 0 in
    do out <- (if seqb loss s0 then Ok hundred
               else do rs <- sdiv gain loss; do d <- sdiv hundred (s1 +. rs); Ok (hundred -. d));
    Ok {| rsi_gain := gain; rsi_loss := loss; rsi_oldref := oldref; rsi_lastval := v; rsi_q := q; rsi_out := Some out |}.
Definition rsi_core (n : nat) : core T := {|
  cst := rsi_st;
  cnew := Ok {| rsi_gain := s0; rsi_loss := s0; rsi_oldref := s0; rsi_lastval := s0; rsi_q := []; rsi_out := None |};
  cstep := rsi_step n; clast := fun s => Ok (rsi_out s); cpop := fun s => length (rsi_q s) |}.

(** my_rsi.rs *)
Record myrsi_st := { my_cu : T; my_cd : T; my_out : T; my_q : list T; my_lastval : T; my_oldest : T }.
(** 'closes up' and 'closes down' over the changes inside the window, summed afresh on every update *)
Fixpoint myrsi_sums (q : list T) (prev cu cd : T) : T * T :=
  match q with
  | [] => (cu, cd)
  | v :: r => if sgtb v prev then myrsi_sums r v (cu +. v -. prev) cd else myrsi_sums r v cu (cd +. prev -. v)
  end.
Definition myrsi_step (n : nat) (s : myrsi_st) (v : T) : res myrsi_st :=
  let oldest := match my_q s with [] => v | _ => my_oldest s end in
  do '(oldest, q) <- (if Nat.leb n (length (my_q s))
                      then do '(old, q') <- pop_front (my_q s); Ok (old, q')
                      else Ok (oldest, my_q s));
  let q := q ++ [v] in
  let '(cu, cd) := myrsi_sums q oldest s0 s0 in
  do out <- (if sneb (cu +. cd) s0 then sdiv (cu -. cd) (cu +. cd) else Ok (my_out s));
  Ok {| my_cu := cu; my_cd := cd; my_out := out; my_q := q; my_lastval := v; my_oldest := oldest |}.
Definition myrsi_core (n : nat) : core T := {|
  cst := myrsi_st;
  cnew := Ok {| my_cu := s0; my_cd := s0; my_out := s0; my_q := []; my_lastval := s0; my_oldest := s0 |};
  cstep := myrsi_step n;
  clast := fun s => if Nat.ltb (length (my_q s)) n then Ok None else Ok (Some (my_out s));
  cpop := fun s => length (my_q s) |}.

(** alma.rs *)
Record alma_st := { al_wsum : T; al_cw : T; al_qv : list T; al_qw : list T; al_qo : list T }.
Definition alma_step (n : nat) (m s : T) (st : alma_st) (v : T) : res alma_st :=
  do '(wsum, cw, qv, qw, qo) <-
     (if Nat.leb n (length (al_qv st))
      then do ov <- front (al_qv st); do ow <- front (al_qw st);
           Ok (al_wsum st -. ow *. ov, al_cw st -. ow, tl (al_qv st), tl (al_qw st), tl (al_qo st))
      else Ok (al_wsum st, al_cw st, al_qv st, al_qw st, al_qo st));
  let count := sofnat (length qv) in
  do e <- sdiv (sneg (ssq (count -. m))) (sofdec 2 0 *. s *. s);
  do wtd <- sexp e;
  let wsum := wsum +. wtd *. v in
  let cw := cw +. wtd in
  do ala <- sdiv wsum cw;
  Ok {| al_wsum := wsum; al_cw := cw; al_qv := qv ++ [v]; al_qw := qw ++ [wtd]; al_qo := qo ++ [ala] |}.
Definition alma_core_custom (n : nat) (sigma offset : T) : core T :=
  let wl := sofnat n in
  let m := offset *. (wl +. s1) in {|
  cst := (T * alma_st)%type;   (* (s, state) : s = wl / sigma is computed by the constructor *)
  cnew := do s <- sdiv wl sigma;
          Ok (s, {| al_wsum := s0; al_cw := s0; al_qv := []; al_qw := []; al_qo := [] |});
  cstep := fun st v => do st' <- alma_step n m (fst st) (snd st) v; Ok (fst st, st');
  clast := fun st => Ok (last_opt (al_qo (snd st)));
  cpop := fun st => length (al_qv (snd st)) + length (al_qw (snd st)) + length (al_qo (snd st)) |}.
Definition alma_core (n : nat) : core T := alma_core_custom n (sofdec 6 0) (sofdec 85 2).

(** super_smoother.rs *)
Record ss_coef := { ss_c1 : T; ss_c2 : T; ss_c3 : T }.
Record ss_st := { ss_i : nat; ss_filt : T; ss_f1 : T; ss_f2 : T; ss_lastval : T }.
Definition ss_coefs (n : nat) : res ss_coef :=
  let wl := sofnat n in
  do e <- sdiv (sneg (sofdec 1414 3) *. sofdec 3141592653589793 15) wl;
  do a1 <- sexp e;
  do th <- sdiv (sofdec 44422 4) wl;
  do c <- scos th;
  let b1 := sofdec 2 0 *. a1 *. c in
  let c3 := sneg a1 *. a1 in
  Ok {| ss_c1 := s1 -. b1 -. c3; ss_c2 := b1; ss_c3 := c3 |}.
Definition ss_step (k : ss_coef) (s : ss_st) (v : T) : res ss_st :=
  do h <- sdiv (ss_c1 k *. (v +. ss_lastval s)) (sofdec 2 0);
  let filt := h +. ss_c2 k *. ss_f1 s +. ss_c3 k *. ss_f2 s in
  Ok {| ss_i := S (ss_i s); ss_filt := filt; ss_f1 := filt; ss_f2 := ss_f1 s; ss_lastval := v |}.
Definition ss_new : ss_st := {| ss_i := 0; ss_filt := s0; ss_f1 := s0; ss_f2 := s0; ss_lastval := s0 |}.
Definition ss_lastf (n : nat) (s : ss_st) : res (option T) :=
  if Nat.ltb (ss_i s) n then Ok None else Ok (Some (ss_filt s)).
Definition ss_core (n : nat) : core T := {|
  cst := (ss_coef * ss_st)%type;
  cnew := do k <- ss_coefs n; Ok (k, ss_new);
  cstep := fun s v => do s' <- ss_step (fst s) (snd s) v; Ok (fst s, s');
  clast := fun s => ss_lastf n (snd s); cpop := fun _ => 0 |}.

(** roofing_filter.rs (owns a private SuperSmoother<Echo>) *)
Record rf_st := { rf_ss : ss_st; rf_i : nat; rf_v1 : T; rf_v2 : T; rf_hp1 : T; rf_hp2 : T }.
Definition rf_alpha (n : nat) : res T :=
  let wl := sofnat n in
  do th <- sdiv (sofdec 44422 4) wl;
  do c <- scos th; do s <- ssin th;
  sdiv (c +. s -. s1) c.
Definition rf_step (n : nat) (al : T) (k : ss_coef) (s : rf_st) (v : T) : res rf_st :=
  let two := sofdec 2 0 in
  do h <- sdiv al two;
  let hp := ssq (s1 -. h) *. (v -. two *. rf_v1 s +. rf_v2 s)
            +. two *. (s1 -. al) *. rf_hp1 s
            -. ssq (s1 -. al) *. rf_hp2 s in
  do ss' <- (if Nat.ltb n (rf_i s) then ss_step k (rf_ss s) hp else Ok (rf_ss s));
  Ok {| rf_ss := ss'; rf_i := S (rf_i s); rf_v1 := v; rf_v2 := rf_v1 s; rf_hp1 := hp; rf_hp2 := rf_hp1 s |}.
Definition roofing_core (n m : nat) : core T := {|
  cst := (T * ss_coef * rf_st)%type;
  cnew := do _ <- assert (Nat.leb 2 n);
          do al <- rf_alpha n; do k <- ss_coefs m;
          Ok (al, k, {| rf_ss := ss_new; rf_i := 0; rf_v1 := s0; rf_v2 := s0; rf_hp1 := s0; rf_hp2 := s0 |});
  cstep := fun s v => let '(al, k, st) := s in do st' <- rf_step n al k st v; Ok (al, k, st');
  clast := fun s => ss_lastf m (rf_ss (snd s)); cpop := fun _ => 0 |}.

(** trend_flex.rs re_flex.rs *)
Record flex_st := { fx_lastval : T; fx_lastm : T; fx_q : list T; fx_out : option T }.
Definition flex_coefs (n : nat) : res (T * T * T) :=   (* (c1, b1, c3) *)
  let wl := sofnat n in
  do e <- sdiv (sofdec (-888442402435) 11) wl;
  do a1 <- sexp e;
  do th <- sdiv (sofdec 444221201218 11) wl;
  do c <- scos th;
  let b1 := sofdec 2 0 *. a1 *. c in
  let c3 := sneg a1 *. a1 in
  Ok (s1 -. b1 -. c3, b1, c3).
Definition flex_filt (c1 b1 c3 : T) (q : list T) (v lastval : T) : res T :=
  do h <- sdiv (c1 *. (v +. lastval)) (sofdec 2 0);
  match rev q with
  | [] => Ok h
  | f1 :: [] => Ok (h +. b1 *. f1)
  | f1 :: f2 :: _ => Ok (h +. b1 *. f1 +. c3 *. f2)
  end.
Definition flex_norm (s : flex_st) (q : list T) (v d : T) (reflex : bool) : res flex_st :=
  let ms0 := sofdec 4 2 *. ssq d +. sofdec 96 2 *. fx_lastm s in
  if sgtb ms0 s0
  then do r <- ssqrt ms0; do o <- sdiv d r;
       Ok {| fx_lastval := v; fx_lastm := ms0; fx_q := q; fx_out := Some o |}
  else Ok {| fx_lastval := v; fx_lastm := ms0; fx_q := q;
             fx_out := if reflex then fx_out s else Some s0 |}.
Definition trendflex_step (n : nat) (s : flex_st) (v : T) : res flex_st :=
  let lastval := match fx_q s with [] => v | _ => fx_lastval s end in
  let q := evict n (fx_q s) in
  do '(c1, b1, c3) <- flex_coefs n;
  do filt <- flex_filt c1 b1 c3 q v lastval;
  let q := q ++ [filt] in
  let dsum := fold_left (fun acc f => acc +. (filt -. f)) (rev q) s0 in
  do d <- sdiv dsum (sofnat n);
  flex_norm s q v d false.
Fixpoint reflex_sum (rq : list T) (i : nat) (filt slope acc : T) : T :=
  match rq with
  | [] => acc
  | f :: r => reflex_sum r (S i) filt slope (acc +. ((filt +. sofnat i *. slope) -. f))
  end.
Definition reflex_step (n : nat) (s : flex_st) (v : T) : res flex_st :=
  let lastval := match fx_q s with [] => v | _ => fx_lastval s end in
  let q := evict n (fx_q s) in
  do '(c1, b1, c3) <- flex_coefs n;
  do filt <- flex_filt c1 b1 c3 q v lastval;
  let q := q ++ [filt] in
  do fr <- front q;
  do slope <- sdiv (fr -. filt) (sofnat n);
  let dsum := reflex_sum (rev q) 0 filt slope s0 in
  do d <- sdiv dsum (sofnat n);
  flex_norm s q v d true.
Definition flex_new : flex_st := {| fx_lastval := s0; fx_lastm := s0; fx_q := []; fx_out := None |}.
Definition trendflex_core (n : nat) : core T := {|
  cst := flex_st; cnew := Ok flex_new; cstep := trendflex_step n; clast := fun s => Ok (fx_out s);
  cpop := fun s => length (fx_q s) |}.
Definition reflex_core (n : nat) : core T := {|
  cst := flex_st; cnew := Ok flex_new; cstep := reflex_step n; clast := fun s => Ok (fx_out s);
  cpop := fun s => length (fx_q s) |}.

(** laguerre_filter.rs.  The five vectors are only read at their last two positions (and trimmed to
    two entries): the model keeps the previous stage values and the current output. *)
Definition lag4 := (T * T * T * T)%type.
Definition lag_out (l : lag4) : res T :=
  let '(l0, l1, l2, l3) := l in
  sdiv (l0 +. sofdec 2 0 *. l1 +. sofdec 2 0 *. l2 +. l3) (sofdec 6 0).
Definition lag_ladder (g : T) (p : lag4) (v : T) : lag4 :=
  let '(p0, p1, p2, p3) := p in
  let l0 := (s1 -. g) *. v +. g *. p0 in
  let l1 := sneg g *. l0 +. p0 +. g *. p1 in
  let l2 := sneg g *. l1 +. p1 +. g *. p2 in
  let l3 := sneg g *. l2 +. p2 +. g *. p3 in
  (l0, l1, l2, l3).
Record lag_st := { lg_prev : option lag4; lg_out : option T; lg_len : nat }.
Definition laguerre_step (g : T) (s : lag_st) (v : T) : res lag_st :=
  let l := match lg_prev s with None => (v, v, v, v) | Some p => lag_ladder g p v end in
  do o <- lag_out l;
  Ok {| lg_prev := Some l; lg_out := Some o; lg_len := Nat.min 2 (S (lg_len s)) |}.
Definition laguerre_core (g : T) : core T := {|
  cst := lag_st; cnew := Ok {| lg_prev := None; lg_out := None; lg_len := 0 |};
  cstep := laguerre_step g; clast := fun s => Ok (lg_out s); cpop := fun s => 5 * lg_len s |}.

(** laguerre_rsi.rs: four queues of at most three entries, read at their last position only;
    the first two updates push zeros. *)
Record lrsi_st := { lr_len : nat; lr_prev : lag4; lr_value : option T }.
Definition lrsi_ratio (l : lag4) : T * T :=
  let '(l0, l1, l2, l3) := l in
  let '(cu, cd) := if sgeb l0 l1 then (l0 -. l1, s0) else (s0, l1 -. l0) in
  let '(cu, cd) := if sgeb l1 l2 then (cu +. (l1 -. l2), cd) else (cu, cd +. (l2 -. l1)) in
  if sgeb l2 l3 then (cu +. (l2 -. l3), cd) else (cu, cd +. (l3 -. l2)).
Definition lrsi_step (g : T) (s : lrsi_st) (v : T) : res lrsi_st :=
  let len := if Nat.leb 3 (lr_len s) then lr_len s - 1 else lr_len s in
  if Nat.ltb len 2
  then Ok {| lr_len := S len; lr_prev := (s0, s0, s0, s0); lr_value := lr_value s |}
  else
    let l := lag_ladder g (lr_prev s) v in
    let '(cu, cd) := lrsi_ratio l in
    do value <- (if sneb (cu +. cd) s0 then do r <- sdiv cu (cu +. cd); Ok (Some r) else Ok (lr_value s));
    Ok {| lr_len := S len; lr_prev := l; lr_value := value |}.
Definition lrsi_core (n : nat) : core T := {|
  cst := (T * lrsi_st)%type;
  cnew := do g <- sdiv (sofdec 2 0) (sofnat n +. s1);
          Ok (g, {| lr_len := 0; lr_prev := (s0, s0, s0, s0); lr_value := None |});
  cstep := fun s v => do s' <- lrsi_step (fst s) (snd s) v; Ok (fst s, s');
  clast := fun s => Ok (lr_value (snd s)); cpop := fun s => 4 * lr_len (snd s) |}.

(** cyber_cycle.rs.  [smooth] is fully rewritten (positions 3..N-1) before it is read whenever the
    window is full, positions 0..2 stay 0: the model computes it on the fly. *)
Record cc_st := { cc_vals : list T; cc_out : list T }.
Definition cc_smooth (vals : list T) (i : nat) : res T :=
  if Nat.ltb i 3 then Ok s0
  else do a <- getq vals i; do b <- getq vals (i - 1); do c <- getq vals (i - 2); do d <- getq vals (i - 3);
       sdiv (a +. sofdec 2 0 *. b +. sofdec 2 0 *. c +. d) (sofdec 6 0).
Definition cc_step (n : nat) (alpha : T) (s : cc_st) (v : T) : res cc_st :=
  let '(vals, out) := if Nat.leb n (length (cc_vals s)) then (tl (cc_vals s), tl (cc_out s))
                      else (cc_vals s, cc_out s) in
  let vals := vals ++ [v] in
  if Nat.ltb (length vals) n then Ok {| cc_vals := vals; cc_out := out ++ [s0] |}
  else
    do last <- usub (length vals) 1;
    let two := sofdec 2 0 in
    do _ <- (if Nat.ltb last n then Ok tt else Err IndexOOB);   (* smooth[last], smooth has n entries *)
    do sm0 <- cc_smooth vals last;
    do l1 <- usub last 1; do sm1 <- cc_smooth vals l1;
    do l2 <- usub last 2; do sm2 <- cc_smooth vals l2;
    do o1 <- getq out l1; do o2 <- getq out l2;
    let cc := ssq (s1 -. sofdec 5 1 *. alpha) *. (sm0 -. two *. sm1 +. sm2)
              +. two *. (s1 -. alpha) *. o1
              -. ssq (s1 -. alpha) *. o2 in
    Ok {| cc_vals := vals; cc_out := out ++ [cc] |}.
Definition cyber_core (n : nat) : core T := {|
  cst := (T * cc_st)%type;
  cnew := do _ <- assert (Nat.leb 3 n);
          do al <- sdiv (sofdec 2 0) (sofnat n +. s1);
          Ok (al, {| cc_vals := []; cc_out := [] |});
  cstep := fun s v => do s' <- cc_step n (fst s) (snd s) v; Ok (fst s, s');
  clast := fun s => Ok (last_opt (cc_out (snd s)));
  cpop := fun s => length (cc_vals (snd s)) + length (cc_out (snd s)) + n |}.

(** polarized_fractal_efficiency.rs: the second argument [ma] is a user-supplied view *)
Fixpoint pfe_sum (q : list T) (wl : nat) (cnt : nat) (i : nat) (acc : T) : res T :=
  match cnt with
  | O => Ok acc
  | S c =>
      do a <- usub wl i; do v0 <- getq q a;
      do b <- usub a 1; do v1 <- getq q b;
      do r <- ssqrt (ssq (v0 -. v1) +. s1);
      pfe_sum q wl c (S i) (acc +. r)
  end.
Definition pfe_core (n : nat) (ma : view T) : core T := {|
  cst := (vst ma * list T * option T)%type;
  cnew := do _ <- assert (Nat.leb 3 n); do m <- vnew ma; Ok (m, [], None);
  cstep := fun s v =>
    let '(m, q, out) := s in
    let q := evict n q ++ [v] in
    if Nat.leb n (length q)
    then
      do wl <- usub n 1; do cnt <- usub n 2;
      do sm <- pfe_sum q wl cnt 0 s0;
      do fr <- front q;
      do num <- ssqrt (ssq (v -. fr) +. ssq (sofnat n));
      do p <- sdiv num sm;
      do prev <- getq q cnt;
      let p := if sltb v prev then sneg p else p in
      do m' <- vupd ma m p;
      do o <- vlast ma m';
      Ok (m', q, o)
    else Ok (m, q, out);
  clast := fun s => Ok (snd s);
  cpop := fun s => let '(m, q, _) := s in vpop ma m + length q |}.

(** ehlers_fisher_transform.rs *)
Record eft_st (M : Type) := { ef_ma : M; ef_q : list T; ef_high : T; ef_low : T; ef_qout : list T }.
Arguments ef_ma {M}. Arguments ef_q {M}. Arguments ef_high {M}. Arguments ef_low {M}. Arguments ef_qout {M}.
Definition eft_step (n : nat) (ma : view T) (s : eft_st (vst ma)) (v : T) : res (eft_st (vst ma)) :=
  let qout := evict n (ef_qout s) in
  let '(high, low) := match ef_q s with [] => (v, v) | _ => (ef_high s, ef_low s) end in
  do '(q, high, low) <-
     (if Nat.leb n (length (ef_q s))
      then do '(old, q') <- pop_front (ef_q s);
           do high' <- (if sgeb old high
                        then match max_by q' with Some h => Ok h | None => Err UnwrapNone end
                        else Ok high);
           do low' <- (if sleb old low
                       then match min_by q' with Some l => Ok l | None => Err UnwrapNone end
                       else Ok low);
           Ok (q', high', low')
      else Ok (ef_q s, high, low));
  let q := q ++ [v] in
  let '(high, low) := if sgtb v high then (v, low) else if sltb v low then (high, v) else (high, low) in
  if seqb high low
  then Ok {| ef_ma := ef_ma s; ef_q := q; ef_high := high; ef_low := low; ef_qout := qout ++ [s0] |}
  else
    let half := sofdec 5 1 in
    do r <- sdiv (v -. low) (high -. low);
    let x := sofdec 2 0 *. (r -. half) in
    do m' <- vupd ma (ef_ma s) x;
    do o <- vlast ma m';
    match o with
    | None => Ok {| ef_ma := m'; ef_q := q; ef_high := high; ef_low := low; ef_qout := qout |}
    | Some sm =>
        let sm := sclamp sm (sofdec (-99) 2) (sofdec 99 2) in
        match last_opt qout with
        | None => Ok {| ef_ma := m'; ef_q := q; ef_high := high; ef_low := low; ef_qout := qout ++ [s0] |}
        | Some prev =>
            do a <- sdiv (s1 +. sm) (s1 -. sm);
            do l <- sln a;
            let fish := half *. l +. half *. prev in
            Ok {| ef_ma := m'; ef_q := q; ef_high := high; ef_low := low; ef_qout := qout ++ [fish] |}
        end
    end.
Definition eft_core (n : nat) (ma : view T) : core T := {|
  cst := eft_st (vst ma);
  cnew := do _ <- assert (Nat.leb 2 n); do m <- vnew ma;
          Ok {| ef_ma := m; ef_q := []; ef_high := s0; ef_low := s0; ef_qout := [] |};
  cstep := eft_step n ma;
  clast := fun s => Ok (last_opt (ef_qout s));
  cpop := fun s => vpop ma (ef_ma s) + length (ef_q s) + length (ef_qout s) |}.

(* ------------------------------------------------------------------ descriptors *)

Inductive desc :=
| DEcho | DProbe (k : nat) | DConst (c : T)
| DAdd (a b : desc) | DSub (a b : desc) | DMul (a b : desc) | DDiv (a b : desc)
| DTanh (a : desc) | DGte (c : T) (a : desc) | DLte (c : T) (a : desc)
| DDrawdown (a : desc) | DLnReturn (a : desc) | DWRolling (a : desc) | DWRollingMean (a : desc)
| DSma (n : nat) (a : desc) | DEma (n : nat) (a : desc) | DEmaAlpha (n : nat) (alpha : T) (a : desc)
| DCumulative (n : nat) (a : desc) | DMin (n : nat) (a : desc) | DMax (n : nat) (a : desc)
| DRoc (n : nat) (a : desc) | DWelford (n : nat) (a : desc) | DWelfordMean (n : nat) (a : desc)
| DWelfordVar (n : nat) (a : desc) | DVst (n : nat) (a : desc) | DVsct (n : nat) (a : desc)
| DHln (n : nat) (a : desc) | DEntropy (n : nat) (a : desc) | DCog (n : nat) (a : desc)
| DCti (n : nat) (a : desc) | DNet (n : nat) (a : desc) | DRsi (n : nat) (a : desc)
| DMyRsi (n : nat) (a : desc) | DAlma (n : nat) (a : desc)
| DAlmaCustom (n : nat) (sigma offset : T) (a : desc)
| DPfe (n : nat) (a ma : desc) | DCyber (n : nat) (a : desc) | DSs (n : nat) (a : desc)
| DRoofing (n m : nat) (a : desc) | DTrendFlex (n : nat) (a : desc) | DReFlex (n : nat) (a : desc)
| DLaguerre (g : T) (a : desc) | DLrsi (n : nat) (a : desc) | DEft (n : nat) (a ma : desc).

Fixpoint denote (d : desc) : view T :=
  match d with
  | DEcho => echo | DProbe _ => echo | DConst c => constant c
  | DAdd a b => vadd (denote a) (denote b) | DSub a b => vsub (denote a) (denote b)
  | DMul a b => vmul (denote a) (denote b) | DDiv a b => vdiv (denote a) (denote b)
  | DTanh a => vtanh (denote a)
  | DGte c a => wrap (gte_core c) (denote a) | DLte c a => wrap (lte_core c) (denote a)
  | DDrawdown a => wrap drawdown_core (denote a) | DLnReturn a => wrap lnret_core (denote a)
  | DWRolling a => wrap wrolling_core (denote a) | DWRollingMean a => wrap wrolling_mean_core (denote a)
  | DSma n a => wrap (sma_core n) (denote a) | DEma n a => wrap (ema_core n) (denote a)
  | DEmaAlpha n al a => wrap (ema_core_alpha n al) (denote a)
  | DCumulative n a => wrap (cumulative_core n) (denote a)
  | DMin n a => wrap (min_core n) (denote a) | DMax n a => wrap (max_core n) (denote a)
  | DRoc n a => wrap (roc_core n) (denote a) | DWelford n a => wrap (welford_core n) (denote a)
  | DWelfordMean n a => wrap (welford_mean_core n) (denote a)
  | DWelfordVar n a => wrap (welford_var_core n) (denote a)
  | DVst n a => wrap (vst_core n) (denote a) | DVsct n a => wrap (vsct_core n) (denote a)
  | DHln n a => wrap (hln_core n) (denote a) | DEntropy n a => wrap (entropy_core n) (denote a)
  | DCog n a => wrap (cog_core n) (denote a) | DCti n a => wrap (cti_core n) (denote a)
  | DNet n a => wrap (net_core n) (denote a) | DRsi n a => wrap (rsi_core n) (denote a)
  | DMyRsi n a => wrap (myrsi_core n) (denote a) | DAlma n a => wrap (alma_core n) (denote a)
  | DAlmaCustom n sg off a => wrap (alma_core_custom n sg off) (denote a)
  | DPfe n a ma => wrap (pfe_core n (denote ma)) (denote a)
  | DCyber n a => wrap (cyber_core n) (denote a) | DSs n a => wrap (ss_core n) (denote a)
  | DRoofing n m a => wrap (roofing_core n m) (denote a)
  | DTrendFlex n a => wrap (trendflex_core n) (denote a) | DReFlex n a => wrap (reflex_core n) (denote a)
  | DLaguerre g a => wrap (laguerre_core g) (denote a) | DLrsi n a => wrap (lrsi_core n) (denote a)
  | DEft n a ma => wrap (eft_core n (denote ma)) (denote a)
  end.

End Models.

Arguments desc T : clear implicits.
