(** The third instance of the scalar interface: Coq's primitive binary64 floats ([PrimFloat.float],
    IEEE 754 double precision, round-to-nearest-even -- the same arithmetic as Rust's [f64]).
    With it the SAME model (Models.v) is executed bit-for-bit like the Rust code at [f64], and
    statements about f64 behaviour become kernel-checked ([vm_compute]) theorems about model@float.

    Not available at this instance: [sexp sln scos ssin stanh slog2] ([PrimFloat] has no
    transcendental functions) -- they answer [Err Domain], so Alma, SuperSmoother, RoofingFilter,
    TrendFlex, ReFlex, Tanh, LnReturn, BinaryEntropy (log2) and EhlersFisherTransform are not
    executable at [float]. Everything else is. *)
From Coq Require Import ZArith QArith Qreduction Uint63 Floats Bool List.
From SF Require Import Res Scalar.
Import ListNotations.
Local Set Warnings "-inexact-float".
Local Open Scope Z_scope.

(** [f_of_Z z]: the integer [z] as a float.  Exact for [|z| < 2^53]; correctly rounded (to nearest
    even, like Rust's [z as f64]) for [2^53 <= |z| < 2^63]; meaningless beyond ([Uint63.of_Z] wraps). *)
Definition f_of_Z (z : Z) : float :=
  match z with
  | Z0 => PrimFloat.zero
  | Zpos _ => PrimFloat.of_uint63 (Uint63.of_Z z)
  | Zneg p => PrimFloat.opp (PrimFloat.of_uint63 (Uint63.of_Z (Zpos p)))
  end.

(** How the test harness turns an input fraction n/d into an f64: [(n as f64) / (d as f64)]. *)
Definition f_of_q (n : Z) (d : positive) : float := PrimFloat.div (f_of_Z n) (f_of_Z (Zpos d)).
Arguments f_of_q (_%Z) (_%positive).

(** [f_of_sme neg m e] = (-1)^neg * m * 2^e, built exactly.  Intended for [0 <= m < 2^53] and
    [-1074 <= e <= 971] with [m * 2^e] representable (what Rust's [f64::integer_decode] returns for a
    finite value: (mantissa, exponent, sign)); [m = 0] gives +0 / -0.  [Z.ldexp] is the exact scaling
    by a power of two of Coq.Floats.FloatOps (it is exact whenever the result is representable). *)
Definition f_of_sme (neg : bool) (m : Z) (e : Z) : float :=
  let f := Z.ldexp (PrimFloat.of_uint63 (Uint63.of_Z m)) e in
  if neg then PrimFloat.opp f else f.
Arguments f_of_sme _ (_%Z) (_%Z).

Definition finf : float := PrimFloat.infinity.
Definition fninf : float := PrimFloat.neg_infinity.
Definition fnan : float := PrimFloat.nan.

(** bit-for-bit equality: IEEE [==] plus agreement of the sign of zeros; all NaNs are identified
    (Coq's primitive floats have a single NaN, payloads and the sign of a NaN are not observable). *)
Definition feqb_bits (a b : float) : bool :=
  if PrimFloat.is_nan a then PrimFloat.is_nan b
  else PrimFloat.eqb a b && Bool.eqb (PrimFloat.get_sign a) (PrimFloat.get_sign b).

(** the inverse of [f_of_sme], for printing model outputs: (kind, sign, mantissa, exponent) with
    kind 0 finite (value = (-1)^sign * mantissa * 2^exponent), 1 infinity, 2 NaN *)
Definition sme_of_f (f : float) : Z * bool * Z * Z :=
  match Prim2SF f with
  | S754_nan => (2, false, 0, 0)
  | S754_infinity s => (1, s, 0, 0)
  | S754_zero s => (0, s, 0, 0)
  | S754_finite s m e => (0, s, Zpos m, e)
  end%Z.

(** the exact rational value of a finite float (0 for infinities and NaN): lets the exact model
    ([QOps]) be run on precisely the real numbers an f64 stream consists of *)
Definition q_of_f (f : float) : Q :=
  match Prim2SF f with
  | S754_finite s m e =>
      let z := if s then Zneg m else Zpos m in
      if (0 <=? e)%Z then inject_Z (z * 2 ^ e) else Qred (Qmake z (Z.to_pos (2 ^ (- e))))
  | _ => 0%Q
  end.

(** [sofdec m k] is the decimal literal m / 10^k.  Every literal of the code has |m| < 2^53 and
    k <= 15 (so 10^k < 2^53): both [f_of_Z m] and [f_of_Z (10^k)] are exact, and IEEE division is
    correctly rounded, so the quotient is the float nearest (ties to even) to the real number
    m / 10^k -- which is precisely the value a correctly rounding decimal parser (rustc's) gives the
    literal.  A negative literal [-0.99] is [-(0.99)] in Rust; rounding to nearest is symmetric, so
    dividing the negated numerator gives the same bits.  [sofdec 0 k] is +0. *)
Definition f_ofdec (m : Z) (k : nat) : float := PrimFloat.div (f_of_Z m) (f_of_Z (10 ^ Z.of_nat k)).

(** [T::from(usize)]: exact for n < 2^53 *)
Definition f_ofnat (n : nat) : float := f_of_Z (Z.of_nat n).

#[export] Instance FOps : Ops float := {|
  s0 := PrimFloat.zero; s1 := PrimFloat.one;
  sadd := PrimFloat.add; ssub := PrimFloat.sub; smul := PrimFloat.mul;
  sneg := PrimFloat.opp; sabs := PrimFloat.abs;
  sdiv := fun a b => Ok (PrimFloat.div a b);          (* IEEE: never an error (inf / NaN instead) *)
  sltb := PrimFloat.ltb; sleb := PrimFloat.leb; seqb := PrimFloat.eqb;   (* false on NaN; 0 == -0 *)
  sofnat := f_ofnat;
  sofdec := f_ofdec;
  ssqrt := fun x => Ok (PrimFloat.sqrt x);            (* NaN on negative input, as in Rust *)
  sexp := fun _ => Err Domain; sln := fun _ => Err Domain; scos := fun _ => Err Domain;
  ssin := fun _ => Err Domain; stanh := fun _ => Err Domain; slog2 := fun _ => Err Domain;
|}.

(** * Sanity *)
Example f_of_Z_ex : (f_of_Z 3, f_of_Z (-3), f_of_Z 0) = (3, -3, 0)%float.
Proof. vm_compute. reflexivity. Qed.
Example f_ofdec_ex : (f_ofdec 1 1, f_ofdec 5 1, f_ofdec (-99) 2, f_ofdec 3141592653589793 15, f_ofdec 100 0)
                     = (0.1, 0.5, -0.99, 0x1.921fb54442d18p+1, 100)%float.
Proof. vm_compute. reflexivity. Qed.
Example f_of_q_ex : (f_of_q 1 10, f_of_q (-7) 2, f_of_q 1 3) = (0.1, -3.5, 0x1.5555555555555p-2)%float.
Proof. vm_compute. reflexivity. Qed.
(** 0.1 = 0x1.999999999999ap-4 = 7205759403792794 * 2^-56 *)
Example f_of_sme_ex : feqb_bits (f_of_sme false 7205759403792794 (-56)) 0.1%float = true
                      /\ feqb_bits (f_of_sme true 1 (-1074)) (-0x1p-1074)%float = true
                      /\ feqb_bits (f_of_sme true 0 0) (-0)%float = true
                      /\ feqb_bits (f_of_sme false 0 0) (-0)%float = false
                      /\ feqb_bits (f_of_sme false 9007199254740991 971) 0x1.fffffffffffffp+1023%float = true.
Proof. vm_compute. repeat split. Qed.
Example sme_roundtrip : sme_of_f 0.1%float = (0, false, 7205759403792794, -56)%Z
                        /\ sme_of_f fninf = (1, true, 0, 0)%Z /\ sme_of_f fnan = (2, false, 0, 0)%Z
                        /\ sme_of_f (-0)%float = (0, true, 0, 0)%Z.
Proof. vm_compute. repeat split. Qed.
Example q_of_f_ex : (q_of_f 0.1%float, q_of_f (-3.5)%float, q_of_f 1e6%float, q_of_f (-0)%float)
                    = (Qmake 3602879701896397 36028797018963968, Qmake (-7) 2, Qmake 1000000 1, 0%Q).
Proof. vm_compute. reflexivity. Qed.
Example feqb_bits_ex : feqb_bits fnan fnan = true /\ feqb_bits 0%float (-0)%float = false
                       /\ feqb_bits finf finf = true /\ feqb_bits finf fninf = false
                       /\ feqb_bits 1%float 1%float = true /\ feqb_bits fnan 1%float = false
                       /\ feqb_bits 1%float fnan = false.
Proof. vm_compute. repeat split. Qed.
