(** C12 (scaling of the input): the two sides of the property as functions of the history.
    [spec_scale_hist a vs] is the history with every input replaced by a*x; a "value-like" view answers
    [spec_scale_out a o] on it when it answers [o] on [vs]; a "scale-free" view answers [o] itself. *)
From Coq Require Import List.
From SF Require Import Res Scalar Spec.
Import ListNotations.

Section SpecPow2.
Context {T : Type} {OT : Ops T}.

Definition spec_scale_hist (a : T) (vs : list T) : list T := map (smul a) vs.
Definition spec_scale_out (a : T) (o : option T) : option T :=
  match o with Some x => Some (smul a x) | None => None end.
(** the same on a result: errors are preserved *)
Definition spec_scale_res (a : T) (r : res (option T)) : res (option T) :=
  match r with Ok o => Ok (spec_scale_out a o) | Err e => Err e end.
(** variance-like quantities scale by a^2 *)
Definition spec_scale2_out (a : T) (o : option T) : option T :=
  match o with Some x => Some (smul a (smul a x)) | None => None end.
End SpecPow2.
