(** Specifications (C10/C11/C12) of the linear recursive filters SuperSmoother, RoofingFilter,
    LaguerreFilter and CyberCycle: batch re-evaluations of the difference equations from the complete
    input history (oldest value first), by recursion on the time index with explicit lags and explicit
    initial conditions.  No reference to the model's state.  Generic in the scalar. *)
From Coq Require Import List Arith Lia ZArith.
From SF Require Import Res Scalar Spec.
Import ListNotations.
Set Implicit Arguments.

Section SpecLin.
Context {T : Type} {OT : Ops T}.

Local Notation "a +. b" := (sadd a b) (at level 50, left associativity).
Local Notation "a -. b" := (ssub a b) (at level 50, left associativity).
Local Notation "a *. b" := (smul a b) (at level 40, left associativity).

(** total versions of the transcendental functions (0 where the scalar's function is undefined) *)
Definition sexpd (x : T) : T := match sexp x with Ok r => r | Err _ => s0 end.
Definition scosd (x : T) : T := match scos x with Ok r => r | Err _ => s0 end.
Definition ssind (x : T) : T := match ssin x with Ok r => r | Err _ => s0 end.

Definition l_two : T := sofdec 2 0.
Definition l_six : T := sofdec 6 0.

(** [lagx h t j] is [x_{t-j}] (0-based time index [t]); 0 before the start of the history *)
Definition lagx (h : list T) (t j : nat) : T := if Nat.ltb t j then s0 else nth (t - j) h s0.

(** the linear combination [a*x_i + b*y_i] of two streams, and of two optional outputs *)
Definition lcomb (a b : T) (xs ys : list T) : list T :=
  map (fun p => a *. fst p +. b *. snd p) (combine xs ys).
Definition olin (a b : T) (ox oy : option T) : option T :=
  match ox, oy with Some x, Some y => Some (a *. x +. b *. y) | _, _ => None end.

(* ------------------------------------------------------------------ SuperSmoother *)

(** the crate's angle 4.4422/N (4.4422 is its constant for 1.414*180 degrees) *)
Definition ssb_theta (n : nat) : T := sdivd (sofdec 44422 4) (sofnat n).
(** a1 = exp(-1.414*pi/N), pi the literal 3.141592653589793 *)
Definition ssb_a1 (n : nat) : T :=
  sexpd (sdivd (sneg (sofdec 1414 3) *. sofdec 3141592653589793 15) (sofnat n)).
Definition ssb_b1 (n : nat) : T := l_two *. ssb_a1 n *. scosd (ssb_theta n).
Definition ssb_c3 (n : nat) : T := sneg (ssq (ssb_a1 n)).
Definition ssb_c1 (n : nat) : T := s1 -. ssb_b1 n -. ssb_c3 n.

(** filt_t = c1*(x_t + x_{t-1})/2 + b1*filt_{t-1} + c3*filt_{t-2} *)
Definition ssb_eq (c1 b1 c3 : T) (x x1 f1 f2 : T) : T :=
  sdivd (c1 *. (x +. x1)) l_two +. b1 *. f1 +. c3 *. f2.

(** [ssb_upto c1 b1 c3 h k = (filt_{k-1}, filt_{k-2})]: the last two filter values after the first [k]
    samples of [h]; filt_{-1} = filt_{-2} = 0 and x_{-1} = 0 *)
Fixpoint ssb_upto (c1 b1 c3 : T) (h : list T) (k : nat) : T * T :=
  match k with
  | 0 => (s0, s0)
  | S t => let p := ssb_upto c1 b1 c3 h t in
           (ssb_eq c1 b1 c3 (lagx h t 0) (lagx h t 1) (fst p) (snd p), fst p)
  end.

(** the smoother with explicit coefficients: reported from the [n]-th value on *)
Definition ssb_out (c1 b1 c3 : T) (n : nat) (h : list T) : option T :=
  if Nat.ltb (length h) n then None else Some (fst (ssb_upto c1 b1 c3 h (length h))).

Definition spec_ss (n : nat) (h : list T) : option T :=
  let c1 := ssb_c1 n in let b1 := ssb_b1 n in let c3 := ssb_c3 n in ssb_out c1 b1 c3 n h.

(* ------------------------------------------------------------------ RoofingFilter *)

(** alpha1 = (cos(4.4422/N) + sin(4.4422/N) - 1) / cos(4.4422/N) *)
Definition hpb_alpha (n : nat) : T :=
  let th := ssb_theta n in sdivd (scosd th +. ssind th -. s1) (scosd th).

(** hp_t = (1-alpha1/2)^2 (x_t - 2x_{t-1} + x_{t-2}) + 2(1-alpha1) hp_{t-1} - (1-alpha1)^2 hp_{t-2} *)
Definition hpb_eq (al : T) (x x1 x2 h1 h2 : T) : T :=
  ssq (s1 -. sdivd al l_two) *. (x -. l_two *. x1 +. x2)
  +. l_two *. (s1 -. al) *. h1
  -. ssq (s1 -. al) *. h2.

(** [hpb_upto al h k = (hp_{k-1}, hp_{k-2})], zero initial state *)
Fixpoint hpb_upto (al : T) (h : list T) (k : nat) : T * T :=
  match k with
  | 0 => (s0, s0)
  | S t => let p := hpb_upto al h t in
           (hpb_eq al (lagx h t 0) (lagx h t 1) (lagx h t 2) (fst p) (snd p), fst p)
  end.
Definition hpb_at (al : T) (h : list T) (t : nat) : T := fst (hpb_upto al h (S t)).

(** what the inner smoother has received after the history [h]: hp_t for the step indices t > N *)
Definition rfb_fed (n : nat) (al : T) (h : list T) : list T :=
  map (hpb_at al h) (seq (S n) (length h - S n)).

Definition spec_roofing (n m : nat) (h : list T) : option T :=
  let al := hpb_alpha n in spec_ss m (rfb_fed n al h).

(* ------------------------------------------------------------------ LaguerreFilter *)

(** [(L0_t, L1_t, L2_t, L3_t)], all stages initialised to the first value:
    L0_t = (1-g) x_t + g L0_{t-1},  Lk_t = -g L(k-1)_t + L(k-1)_{t-1} + g Lk_{t-1} *)
Fixpoint lagb_at (g : T) (h : list T) (t : nat) : T * T * T * T :=
  match t with
  | 0 => let x := nth 0 h s0 in (x, x, x, x)
  | S t' =>
      let '(p0, p1, p2, p3) := lagb_at g h t' in
      let x := nth t h s0 in
      let l0 := (s1 -. g) *. x +. g *. p0 in
      let l1 := sneg g *. l0 +. p0 +. g *. p1 in
      let l2 := sneg g *. l1 +. p1 +. g *. p2 in
      let l3 := sneg g *. l2 +. p2 +. g *. p3 in
      (l0, l1, l2, l3)
  end.
(** (L0 + 2 L1 + 2 L2 + L3) / 6 *)
Definition lagb_out (l : T * T * T * T) : T :=
  let '(l0, l1, l2, l3) := l in sdivd (l0 +. l_two *. l1 +. l_two *. l2 +. l3) l_six.

Definition spec_laguerre (g : T) (h : list T) : option T :=
  match length h with 0 => None | S t => Some (lagb_out (lagb_at g h t)) end.

(* ------------------------------------------------------------------ CyberCycle *)

(** alpha = 2/(N+1) *)
Definition ccb_alpha (n : nat) : T := sdivd l_two (sofnat n +. s1).

(** smooth_{t-j} = (x_{t-j} + 2x_{t-j-1} + 2x_{t-j-2} + x_{t-j-3})/6 *)
Definition ccb_smooth (h : list T) (t j : nat) : T :=
  sdivd (lagx h t j +. l_two *. lagx h t (j + 1) +. l_two *. lagx h t (j + 2) +. lagx h t (j + 3)) l_six.

(** model fact: the implementation evaluates smooth by window position ([n-1-j] for lag [j]) and
    takes it as 0 for the positions 0,1,2; for [n >= 6] and [j <= 2] this is [ccb_smooth] *)
Definition ccb_gsmooth (n : nat) (h : list T) (t j : nat) : T :=
  if Nat.ltb (n - 1 - j) 3 then s0 else ccb_smooth h t j.

(** cycle_t = (1-alpha/2)^2 (smooth_t - 2 smooth_{t-1} + smooth_{t-2})
              + 2(1-alpha) cycle_{t-1} - (1-alpha)^2 cycle_{t-2} *)
Definition ccb_eq (al : T) (sm0 sm1 sm2 c1 c2 : T) : T :=
  ssq (s1 -. sdivd al l_two) *. (sm0 -. l_two *. sm1 +. sm2)
  +. l_two *. (s1 -. al) *. c1
  -. ssq (s1 -. al) *. c2.

(** [ccb_upto sm n al h k = (cycle_{k-1}, cycle_{k-2})]; the output is 0 for the first [n-1] steps
    (while the window of [n] values is not full) *)
Fixpoint ccb_upto (sm : list T -> nat -> nat -> T) (n : nat) (al : T) (h : list T) (k : nat) : T * T :=
  match k with
  | 0 => (s0, s0)
  | S t => let p := ccb_upto sm n al h t in
           ((if Nat.ltb k n then s0
             else ccb_eq al (sm h t 0) (sm h t 1) (sm h t 2) (fst p) (snd p)), fst p)
  end.

Definition ccb_out (sm : list T -> nat -> nat -> T) (n : nat) (h : list T) : option T :=
  match h with [] => None | _ => Some (fst (ccb_upto sm n (ccb_alpha n) h (length h))) end.

(** the paper's difference equation (C11, stated for n >= 6) *)
Definition spec_cyber (n : nat) (h : list T) : option T := ccb_out ccb_smooth n h.
(** what the implementation computes for every n >= 3 (smooth lags at window positions < 3 are 0) *)
Definition spec_cyber_gen (n : nat) (h : list T) : option T := ccb_out (ccb_gsmooth n) n h.

End SpecLin.
