(** Specifications of the windowed views Min, Max, Roc (C02) as functions of the history
    (oldest value first).  No reference to any state; generic in the scalar.
    ([spec_cumulative] is in Spec.v.) *)
From Coq Require Import List Arith Lia ZArith.
From SF Require Import Res Scalar Spec.
Import ListNotations.
Set Implicit Arguments.

Section SpecWinA.
Context {T : Type} {OT : Ops T}.

(** minimum / maximum of a list, [None] on the empty list; a left fold using [sltb] only *)
Definition lmin (l : list T) : option T :=
  match l with [] => None | x :: r => Some (fold_left (fun m y => if sltb y m then y else m) r x) end.
Definition lmax (l : list T) : option T :=
  match l with [] => None | x :: r => Some (fold_left (fun m y => if sltb m y then y else m) r x) end.

(** C02 Min / Max: the extremum of the [n] most recent values (of all values while fewer than [n]
    exist); [None] on the empty history *)
Definition spec_min (n : nat) (h : list T) : option T :=
  lmin (lastn n h).          (* [lastn n [] = []], so this is [None] on the empty history *)
Definition spec_max (n : nat) (h : list T) : option T :=
  lmax (lastn n h).

(** C02 Roc.  [seen] = the values before the current one ([length seen] = t), [v] = x_t.
    base = x_{t-n} if t >= n, else x_0 (which is [v] itself when t = 0). *)
Definition roc_base (n : nat) (seen : list T) (v : T) : T :=
  if Nat.leb n (length seen) then nth (length seen - n) seen v else hd v seen.

(** one step: hold the previous output when the base is 0, else 100 (v - base) / base *)
Definition roc_out1 (n : nat) (seen : list T) (prev : option T) (v : T) : option T :=
  let b := roc_base n seen v in
  if seqb b s0 then prev else Some (smul (sdivd (ssub v b) b) (sofdec 100%Z 0)).

(** walk the history oldest-first, carrying the values already seen and the previous output *)
Fixpoint roc_walk (n : nat) (seen : list T) (prev : option T) (rest : list T) : option T :=
  match rest with
  | [] => prev
  | v :: r => roc_walk n (seen ++ [v]) (roc_out1 n seen prev v) r
  end.

Definition spec_roc (n : nat) (h : list T) : option T := roc_walk n [] None h.

End SpecWinA.
