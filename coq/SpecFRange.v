(** C07 at f64, the views whose documented range holds EXACTLY in binary64 (MyRSI, Rsi, HLNormalizer, NET):
    executable hypotheses and conclusions, generic in the scalar.

    [all_finite_out finb c vs]: every input of the history [vs] is finite and the answer of the core [c]
    after [vs] is [Ok] and, when it is [Some v], finite.  ([finb] is the finiteness test of the scalar:
    [ffinite] at f64, [fun _ => true] at Q.)  NOTHING is asked of the intermediate results or of the state:
    that the sums inside did not overflow is a consequence, not a hypothesis.
    [in_rangeb lo hi v]: [lo <= v <= hi] with the comparisons of the scalar (IEEE at f64: false on NaN). *)
From Coq Require Import List Bool ZArith.
From SF Require Import Res Scalar View Models Core.
Import ListNotations.

Section Chk.
Context {T : Type} {OT : Ops T}.
Variable finb : T -> bool.

Definition ofinb (o : option T) : bool := match o with None => true | Some x => finb x end.

Definition all_finite_out (c : core T) (vs : list T) : bool :=
  forallb finb vs && match cout c vs with Ok o => ofinb o | Err _ => false end.

Definition in_rangeb (lo hi v : T) : bool := sleb lo v && sleb v hi.

(** the documented ranges *)
Definition myrsi_rangeb (v : T) : bool := in_rangeb (sneg s1) s1 v.
Definition rsi_rangeb (v : T) : bool := in_rangeb s0 (sofdec 100%Z 0) v.
Definition hln_rangeb (v : T) : bool := in_rangeb (sneg s1) s1 v.
Definition net_rangeb (v : T) : bool := in_rangeb (sneg s1) s1 v.
End Chk.
