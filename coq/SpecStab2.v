(** C09, second part (TrendFlex/ReFlex, LaguerreRSI, EFT): the explicit rates, gains and envelopes the theorems of
    Proofs/Stab2*.v refer to, as functions of the window length only.  Generic in the scalar; no proofs.
    The batch difference equations are those of SpecEhl.v ([ss_filts], [tf_devs], [flex_ms], [lrsi_stages],
    [eft_events], [eft_run]). *)
From Coq Require Import List Arith Lia ZArith.
From SF Require Import Res Scalar Spec SpecLin SpecStab SpecEhl.
Import ListNotations.
Set Implicit Arguments.

Section SpecStab2.
Context {T : Type} {OT : Ops T}.

Local Notation "a +. b" := (sadd a b) (at level 50, left associativity).
Local Notation "a -. b" := (ssub a b) (at level 50, left associativity).
Local Notation "a *. b" := (smul a b) (at level 40, left associativity).

(** the feedback the TrendFlex/ReFlex smoother actually has: its lags are read from a window of n filter values *)
Definition stab2_flex_b1e (n : nat) : T := if Nat.leb 2 n then ss_b1 n else s0.
Definition stab2_flex_c3e (n : nat) : T := if Nat.leb 3 n then ss_c3 n else s0.
Definition stab2_flex_theta (n : nat) : T := sdivd (sofdec 444221201218 11) (sofnat n).
(** fading rate of the smoother: a1 (n >= 3), |b1| (n = 2), 0 (n = 1) *)
Definition stab2_flex_rate (n : nat) : T := if Nat.leb 3 n then ss_a1 n else sabs (stab2_flex_b1e n).
(** BIBO gain of the smoother: |c1| / ((1 - a1) sin theta) (n >= 3), |c1| / (1 - |b1e|) (n = 1, 2) *)
Definition stab2_flex_gain (n : nat) : T :=
  if Nat.leb 3 n then sdivd (sabs (ss_c1 n)) ((s1 -. ss_a1 n) *. ssind (stab2_flex_theta n))
  else sdivd (sabs (ss_c1 n)) (s1 -. sabs (stab2_flex_b1e n)).
(** envelope of |ms_t - ms'_t| after k common inputs: (D^2 + k 0.16 D^2) q^(k-n), D = Kd G U *)
Definition stab2_ms_env (n : nat) (g kd u q : T) (k : nat) : T :=
  let d := kd *. (g *. u) in (d *. d +. sofnat k *. (sofdec 16 2 *. (d *. d))) *. spow q (k - n).
(** envelope of the LaguerreRSI stage differences after j common inputs: A (2j+1)^3 gamma^(j-3) *)
Definition stab2_lad_env (g a : T) (j : nat) : T :=
  let m := sofdec 2 0 *. sofnat j +. s1 in a *. (m *. (m *. m)) *. spow g (j - 3).
(** EFT: bound on |fish - fish'| k steps after synchronisation: (1/2)^k * 2 ln 199 *)
Definition stab2_eft_env (k : nat) : T := spow (sofdec 5 1) k *. (sofdec 2 0 *. slnd (sofnat 199)).
(** EFT: number of tail values after which two runs over an MA of memory m are synchronised *)
Definition stab2_eft_sync (n m : nat) : nat := n + m - 1.

End SpecStab2.
