(** C16 / C06 at f64 for CenterOfGravity (center_of_gravity.rs), POSITIVE finite inputs.
    Numerator  sum_k k x_(t-k+1)  and denominator  sum_k x_(t-k+1)  are recomputed over the window on every update and
    all their terms are positive, so their rounding errors are RELATIVE: with L = min(n, t) values in the window,
    num is within (1+u)^(L+1) - 1 and den within (1+u)^L - 1 (relative) of the exact sums; the quotient, the exactly
    computed (L+1)/2 and the final addition give
        | f64 answer - exact answer |  <=  (2 L + 4) * u * L        (u = 2^-53, L <= 2^20)
    provided the exact weighted sum of the window is at most 2^1023 (no overflow) -- and then the f64 answer IS finite.
    The float run takes the [denom != 0] branch exactly when the exact run does (always, for positive inputs).
    For inputs of mixed sign this fails, even qualitatively: [cog_f64_accuracy_mixed_refuted]. *)
From Coq Require Import List Arith Lia Reals Lra Lra ZArith Floats Bool Psatz.
From SF Require Import Res Scalar View Models Core Spec FloatOps SpecCorr SpecFAccB.
From SF.Proofs Require Import Window RBase FltErr FltBridge Flt2P Flt2B64 Flt2Prim BridgeOps FRangeBase FAccBase CorrP FAccBComb.
From Flocq Require Import Core BinarySingleNaN.
Import ListNotations.
Open Scope R_scope.

Local Notation F := PrimFloat.float.
Local Notation fzero := PrimFloat.zero.
Local Notation fone := PrimFloat.one.
Local Notation pos := (fun x : F => ffinite x = true /\ 0 < f2r x).
Local Notation u53 := (/ 9007199254740992).
Local Notation U := (1 + / 9007199254740992).

(** * Rounding helpers *)

(** an integer multiple of a binary64 number never suffers an underflow error: below 2^-1022 it is representable *)
Lemma rnd_int_mul_rel k x : b64_format x ->
  exists d, Rabs d <= u53 /\ b64_round (INR k * x) = INR k * x * (1 + d).
Proof.
  intros Fx. rewrite <- b64_u_val. destruct (Rle_or_lt (bpow radix2 (-1022)) (Rabs (INR k * x))) as [H|H].
  - apply rnd_rel. right. exact H.
  - exists 0. split; [rewrite Rabs_R0; exact b64_u_nonneg|].
    replace (INR k * x * (1 + 0)) with (INR k * x) by ring. apply rnd_id.
    pose proof b64_prec_gt_0 as P53. unfold b64_format, b64_exp. apply (@generic_format_FLT_FIX radix2 (-1074) 53 P53).
    + apply Rlt_le, Rlt_trans with (1 := H). apply bpow_lt. lia.
    + apply generic_format_FIX_FLT in Fx. apply FIX_format_generic in Fx. destruct Fx as [f E1 E2].
      apply generic_format_FIX. exists (Float radix2 (Z.of_nat k * Fnum f) (Fexp f)); [|exact E2].
      rewrite E1, INR_IZR_INZ. unfold F2R. cbn [Fnum Fexp]. rewrite mult_IZR. ring.
Qed.

(** half an integer below 2^53 is a binary64 number *)
Lemma format_half_nat k : (Z.of_nat k < 2 ^ 53)%Z -> b64_format (INR k / 2).
Proof.
  intros Hk. unfold b64_format, b64_exp. apply generic_format_FLT.
  exists (Float radix2 (Z.of_nat k) (-1)); cbn [Fnum Fexp]; [|rewrite Z.abs_eq by lia; exact Hk|lia].
  rewrite INR_IZR_INZ. unfold F2R. cbn [Fnum Fexp]. cbn. lra.
Qed.

Lemma small_round_fin y : Rabs y <= bpow radix2 30 -> Rabs (b64_round y) < bpow radix2 1024.
Proof.
  intros H. apply Rabs_le_inv' in H.
  assert (Fb : b64_format (bpow radix2 30)) by (apply generic_format_bpow; unfold FLT_exp; cbn; lia).
  apply Rle_lt_trans with (bpow radix2 30); [|apply bpow_lt; lia].
  apply Rabs_le'. split.
  - apply rnd_ge; [apply format_opp; exact Fb | lra].
  - apply rnd_le; [exact Fb | lra].
Qed.

(** * Relative closeness, in the form that composes over sums of non-negative terms *)
Definition within (j : nat) (a A : R) : Prop := Rabs (a - A) <= (U ^ j - 1) * A.

Lemma U_ge1 : 1 <= U. Proof. lra. Qed.
Lemma U_pow_ge1 j : 1 <= U ^ j. Proof. apply pow_R1_Rle. exact U_ge1. Qed.
Lemma U_pow_mono j k : (j <= k)%nat -> U ^ j <= U ^ k. Proof. apply Rle_pow. exact U_ge1. Qed.

Lemma W_exact j A : 0 <= A -> within j A A.
Proof. intros HA. unfold within. rewrite Rminus_diag_eq, Rabs_R0 by reflexivity. pose proof (U_pow_ge1 j). nra. Qed.
Lemma W_mono j k a A : (j <= k)%nat -> 0 <= A -> within j a A -> within k a A.
Proof. intros Hjk HA H. unfold within in *. pose proof (U_pow_mono j k Hjk). nra. Qed.
Lemma W_add j a t A T : 0 <= A -> 0 <= T -> within j a A -> within j t T -> within j (a + t) (A + T).
Proof.
  intros HA HT H1 H2. unfold within in *. replace (a + t - (A + T)) with ((a - A) + (t - T)) by ring.
  eapply Rle_trans; [apply Rabs_triang|]. lra.
Qed.
Lemma W_bounds j a A : 0 <= A -> within j a A -> A * (2 - U ^ j) <= a <= A * U ^ j.
Proof. intros HA H. unfold within in H. apply Rabs_le_inv' in H. lra. Qed.
Lemma W_rnd j y d A : 0 <= A -> Rabs d <= u53 -> within j y A -> within (S j) (y * (1 + d)) A.
Proof.
  intros HA Hd H. pose proof (W_bounds j y A HA H) as [Hl Hh]. unfold within in *. cbn [pow].
  pose proof (U_pow_ge1 j) as Hg. set (g := U ^ j) in *.
  assert (Hy : Rabs y <= g * A) by (apply Rabs_le'; nra).
  pose proof (Rabs_mul_le d y u53 (g * A) Hd Hy) as Hdy.
  replace (y * (1 + d) - A) with ((y - A) + d * y) by ring.
  eapply Rle_trans; [apply Rabs_triang|]. lra.
Qed.

(** * The two float sums over a positive window *)
Lemma pos_map_f2r (q : list F) : Forall pos q -> Forall (fun x => 0 < x) (map f2r q).
Proof. induction 1 as [|v r [_ Hv] _ IH]; cbn [map]; constructor; assumption. Qed.

Lemma bpow1024 : bpow radix2 1024 = 2 * bpow radix2 1023.
Proof. change 1024%Z with (1 + 1023)%Z. rewrite bpow_plus. reflexivity. Qed.

Lemma cog_sums_F q : forall (num den : F) (An Ad : R) (j : nat),
  Forall pos q -> (Z.of_nat (length q) < 2 ^ 53)%Z ->
  ffinite num = true -> ffinite den = true -> 0 <= Ad <= An ->
  within (S j) (f2r num) An -> within j (f2r den) Ad ->
  An + cn (map f2r q) <= bpow radix2 1023 ->
  U ^ (S j + length q) <= 3 / 2 ->
  exists num' den', @cog_sums F FOps q (length q) num den = (num', den') /\
    ffinite num' = true /\ ffinite den' = true /\
    within (S j + length q) (f2r num') (An + cn (map f2r q)) /\
    within (j + length q) (f2r den') (Ad + dn (map f2r q)).
Proof.
  induction q as [|v r IH]; intros num den An Ad j Hq Hlen Fn Fd HA Wn Wd Htot HU.
  - exists num, den. cbn [cog_sums length map]. rewrite cn_nil, dn_nil, !Rplus_0_r, !Nat.add_0_r. auto.
  - inversion Hq as [|? ? [Fv Pv] Hr]; subst. cbn [length map] in Hlen, Htot, HU.
    cbn [cog_sums length map]. replace (S (length r) - 1)%nat with (length r) by lia.
    rewrite cn_cons, dn_cons, map_length in *.
    destruct (pos_sums (map f2r r) (pos_map_f2r r Hr)) as (Hd0 & Hdc & _).
    set (x := f2r v) in *. set (wt := INR (S (length r))) in *.
    assert (Hwt : 1 <= wt) by (unfold wt; rewrite S_INR; pose proof (pos_INR (length r)); lra).
    assert (Hwx : x <= wt * x) by nra.
    pose proof (bpow_gt_0 radix2 1023) as HB. pose proof bpow1024 as HB2.
    assert (HUj : U ^ S j <= 3 / 2) by (eapply Rle_trans; [apply (U_pow_mono (S j) (S j + S (length r))); lia | exact HU]).
    assert (HUj' : U ^ j <= 3 / 2) by (eapply Rle_trans; [apply (U_pow_mono j (S j)); lia | exact HUj]).
    (* the term  w * v *)
    destruct (f_ofnat_exact (S (length r)) Hlen) as [Fw Ew].
    destruct (rnd_int_mul_rel (S (length r)) x (f2r_format v)) as (d1 & Hd1 & R1). fold wt in R1.
    assert (Ht0 : 0 <= b64_mul (f2r (f_ofnat (S (length r)))) x <= bpow radix2 1023).
    { rewrite Ew. fold wt. unfold b64_mul. split.
      - apply rnd_ge; [exact b64_format_0 | nra].
      - apply rnd_le; [apply generic_format_bpow; unfold FLT_exp; cbn; lia | lra]. }
    destruct (prim_mul_b64 (f_ofnat (S (length r))) v Fw Fv) as [Et Ft].
    { fold x. rewrite Rabs_pos_eq by apply Ht0. lra. }
    change (@sofnat F FOps (S (length r))) with (f_ofnat (S (length r))). cbn [sadd smul FOps].
    set (t := PrimFloat.mul (f_ofnat (S (length r))) v) in *.
    fold x in Et. rewrite Ew in Et. fold wt in Et. unfold b64_mul in Et. rewrite R1 in Et.
    assert (Hwx0 : 0 <= wt * x) by nra.
    assert (Wt : within (S j) (f2r t) (wt * x)).
    { rewrite Et. apply (W_mono 1 (S j)); [lia | exact Hwx0|]. apply W_rnd; [exact Hwx0 | exact Hd1 | apply W_exact; exact Hwx0]. }
    (* num + t *)
    assert (HAn : 0 <= An) by lra.
    pose proof (W_add (S j) _ _ _ _ HAn Hwx0 Wn Wt) as Wsn.
    assert (HAw : 0 <= An + wt * x) by lra.
    destruct (W_bounds _ _ _ HAw Wsn) as [Hsl Hsh].
    destruct (rnd_add_rel (f2r num) (f2r t) (f2r_format _) (f2r_format _)) as (d2 & Hd2 & R2). rewrite b64_u_val in Hd2.
    destruct (prim_add_b64 num t Fn Ft) as [En Fn1].
    { unfold b64_add. rewrite R2. apply Rabs_le_inv' in Hd2.
      assert (Hs0 : 0 <= f2r num + f2r t) by nra.
      assert (Hs1 : f2r num + f2r t <= 3 / 2 * bpow radix2 1023) by nra.
      assert (Hdd : 0 <= 1 + d2 <= 1 + u53) by lra.
      rewrite Rabs_pos_eq by (apply Rmult_le_pos; lra).
      assert ((f2r num + f2r t) * (1 + d2) <= (3 / 2 * bpow radix2 1023) * (1 + u53)) by (apply Rmult_le_compat; lra).
      lra. }
    unfold b64_add in En. rewrite R2 in En.
    pose proof (W_rnd (S j) _ d2 _ HAw Hd2 Wsn) as Wn1. rewrite <- En in Wn1.
    (* den + v *)
    assert (HAd : 0 <= Ad) by lra.
    pose proof (W_add j _ _ _ _ HAd (Rlt_le _ _ Pv) Wd (W_exact j x (Rlt_le _ _ Pv))) as Wsd.
    assert (HAx : 0 <= Ad + x) by lra.
    destruct (W_bounds _ _ _ HAx Wsd) as [Hdl Hdh].
    destruct (rnd_add_rel (f2r den) x (f2r_format _) (f2r_format _)) as (d3 & Hd3 & R3). rewrite b64_u_val in Hd3.
    destruct (prim_add_b64 den v Fd Fv) as [Ed Fd1].
    { unfold b64_add. fold x. rewrite R3. apply Rabs_le_inv' in Hd3.
      assert (Hs0 : 0 <= f2r den + x) by nra.
      assert (Hs1 : f2r den + x <= 3 / 2 * bpow radix2 1023) by nra.
      assert (Hdd : 0 <= 1 + d3 <= 1 + u53) by lra.
      rewrite Rabs_pos_eq by (apply Rmult_le_pos; lra).
      assert ((f2r den + x) * (1 + d3) <= (3 / 2 * bpow radix2 1023) * (1 + u53)) by (apply Rmult_le_compat; lra).
      lra. }
    unfold b64_add in Ed. fold x in Ed. rewrite R3 in Ed.
    pose proof (W_rnd j _ d3 _ HAx Hd3 Wsd) as Wd1. rewrite <- Ed in Wd1.
    (* recursion *)
    destruct (IH (PrimFloat.add num t) (PrimFloat.add den v) (An + wt * x) (Ad + x) (S j)) as (num' & den' & E & Fn' & Fd' & Wn' & Wd').
    + exact Hr.
    + lia.
    + exact Fn1.
    + exact Fd1.
    + lra.
    + exact Wn1.
    + exact Wd1.
    + lra.
    + replace (S (S j) + length r)%nat with (S j + S (length r))%nat by lia. exact HU.
    + exists num', den'. split; [exact E|]. split; [exact Fn'|]. split; [exact Fd'|].
      replace (S j + S (length r))%nat with (S (S j) + length r)%nat by lia.
      replace (j + S (length r))%nat with (S j + length r)%nat by lia.
      rewrite <- !Rplus_assoc. split; assumption.
Qed.

(** * The answer computed from a window *)
Definition cog_ansF (q : list F) : F :=
  let '(num, den) := @cog_sums F FOps q (length q) fzero fzero in
  if negb (PrimFloat.eqb den fzero)
  then PrimFloat.add (PrimFloat.div (PrimFloat.opp num) den)
                     (PrimFloat.div (PrimFloat.add (f_ofnat (length q)) fone) (f_ofdec 2 0))
  else fzero.

Lemma cog_step_F n s v :
  @cog_step F FOps n s v = Ok (evict n (fst s) ++ [v], Some (cog_ansF (evict n (fst s) ++ [v]))).
Proof.
  unfold cog_step, cog_ansF. cbv zeta.
  destruct (@cog_sums F FOps (evict n (fst s) ++ [v]) (length (evict n (fst s) ++ [v])) s0 s0) as [num den] eqn:E.
  change (@s0 F FOps) with fzero in E. rewrite E. unfold sneb.
  cbn [seqb s0 s1 sdiv sneg sadd sofnat sofdec FOps bind].
  destruct (negb (PrimFloat.eqb den fzero)); reflexivity.
Qed.

(** the float run never fails, keeps the last [n] inputs, and answers from them alone *)
Lemma cog_F_run n fs : (1 <= n)%nat ->
  exists s, crun (@cog_core F FOps n) fs = Ok s /\ fst s = lastn n fs /\
            snd s = match fs with [] => None | _ => Some (cog_ansF (lastn n fs)) end.
Proof.
  intros Hn.
  destruct (@crun_inv F (@cog_core F FOps n) (fun _ => True)
              (fun h s => fst s = lastn n h /\ snd s = match h with [] => None | _ => Some (cog_ansF (lastn n h)) end)
              ([], None)) with (vs := fs) as [s [Hr Hi]].
  - reflexivity.
  - split; [rewrite lastn_nil; reflexivity | reflexivity].
  - intros h s v _ _ [Hq _]. cbn [cstep cog_core]. rewrite cog_step_F. eexists. split; [reflexivity|].
    cbn [fst snd]. rewrite Hq. unfold evict. rewrite (evict_push_lastn n h v Hn).
    split; [reflexivity|]. destruct h; reflexivity.
  - apply Forall_forall; trivial.
  - exists s. split; [exact Hr | exact Hi].
Qed.

Lemma dn_pos (w : list R) : w <> [] -> Forall (fun x => 0 < x) w -> 0 < dn w.
Proof.
  intros Hne Hp. destruct w as [|x r]; [contradiction|]. inversion Hp as [|? ? Hx Hr]; subst.
  rewrite dn_cons. destruct (pos_sums r Hr) as [H0 _]. lra.
Qed.

Lemma cog_ans_acc (w : list F) : w <> [] -> Forall pos w -> (Z.of_nat (length w) <= 1048576)%Z ->
  cn (map f2r w) <= bpow radix2 1023 ->
  ffinite (cog_ansF w) = true /\
  Rabs (f2r (cog_ansF w) - cogv (map f2r w)) <= (2 * INR (length w) + 4) * u53 * INR (length w).
Proof.
  intros Hne Hp HL Htot.
  pose proof (pos_map_f2r w Hp) as Hp'.
  assert (Hne' : map f2r w <> []) by (destruct w; [contradiction | discriminate]).
  destruct (pos_sums _ Hp') as (_ & HDN & HNL). pose proof (dn_pos _ Hne' Hp') as HD.
  rewrite map_length in HNL.
  set (L := length w) in *. set (l := INR L) in *. set (N := cn (map f2r w)) in *. set (D := dn (map f2r w)) in *.
  assert (Hl1 : 1 <= l).
  { unfold l, L. destruct w; [contradiction|]. cbn [length]. rewrite S_INR. pose proof (pos_INR (length w)). lra. }
  assert (Hl2 : l <= 1048576) by (unfold l; rewrite INR_IZR_INZ; apply IZR_le; exact HL).
  assert (HLz : (Z.of_nat (S L) < 2 ^ 53)%Z) by (unfold L in *; lia).
  (* the unit roundoff accumulated by the sums *)
  set (K := (l + 1) * u53).
  assert (HK : 0 <= K <= / 4294967296) by (unfold K; lra).
  set (G := U ^ S L - 1).
  assert (HG0 : 0 <= G) by (unfold G; pose proof (U_pow_ge1 (S L)); lra).
  assert (HGK : G <= K * (1 + 2 * K)).
  { assert (Hu0 : 0 <= u53) by lra.
    assert (Hk1 : INR (S L) * u53 < 1) by (rewrite S_INR; fold l; lra).
    pose proof (pow_gamma u53 (S L) Hu0 Hk1) as Hg. rewrite S_INR in Hg. fold l in Hg. fold K in Hg. fold G in Hg.
    assert (Hg' : G * (1 - K) <= K).
    { apply (Rmult_le_compat_r (1 - K)) in Hg; [|lra]. unfold Rdiv in Hg. rewrite Rmult_assoc, Rinv_l in Hg by lra. lra. }
    apply (Rmult_le_reg_r (1 - K)); [lra|]. nra. }
  assert (HG : G <= K * (1 + / 2147483648)) by nra.
  assert (HG' : G <= / 2147483648) by nra.
  assert (HUL : U ^ (1 + L) <= 3 / 2) by (change (1 + L)%nat with (S L); unfold G in HG'; lra).
  (* the two sums *)
  destruct prim_zero_fin as [F0 E0].
  destruct (cog_sums_F w fzero fzero 0 0 0 Hp ltac:(unfold L in *; lia) F0 F0 ltac:(lra)) as (num & den & E & Fn & Fd & Wn & Wd).
  { rewrite E0. apply W_exact. lra. }
  { rewrite E0. apply W_exact. lra. }
  { rewrite Rplus_0_l. exact Htot. }
  { exact HUL. }
  fold L in E, Wn, Wd. fold N in Wn. fold D in Wd. rewrite Rplus_0_l in Wn, Wd. cbn [plus] in Wd.
  change (1 + L)%nat with (S L) in Wn.
  unfold cog_ansF. fold L. rewrite E.
  set (qn := f2r num) in *. set (qd := f2r den) in *.
  assert (HGd : U ^ L - 1 <= G) by (unfold G; pose proof (U_pow_mono L (S L) ltac:(lia)); lra).
  pose proof (U_pow_ge1 L) as HUL1.
  assert (Hn1 : Rabs (qn - N) <= G * N) by exact Wn.
  assert (Hd1 : Rabs (qd - D) <= G * D) by (unfold within in Wd; nra).
  pose proof (Rabs_le_inv' _ _ Hn1) as Hn2. pose proof (Rabs_le_inv' _ _ Hd1) as Hd2.
  assert (Hqdl : D * (1 - G) <= qd) by lra.
  assert (Hqd : 0 < qd) by nra.
  (* branch *)
  assert (Eb : PrimFloat.eqb den fzero = false).
  { rewrite (prim_eqb_real den fzero Fd F0), E0. apply Reqb_false. fold qd. lra. }
  rewrite Eb. cbn [negb].
  (* the quotient *)
  set (rho := N / D).
  assert (Hrho : rho * D = N) by (unfold rho; field; lra).
  assert (Hr1 : 1 <= rho <= l) by (split; apply (Rmult_le_reg_r D); lra).
  destruct (prim_opp_fin num) as [Fo Eo]. rewrite Fn in Fo. fold qn in Eo.
  assert (Hquo : Rabs (- qn / qd) <= bpow radix2 22).
  { assert (Hq3 : 0 <= qn / qd <= 3 * l).
    { assert (0 <= qn) by nra. split.
      - apply Rmult_le_pos; [lra | apply Rlt_le, Rinv_0_lt_compat; lra].
      - apply (Rmult_le_reg_r qd); [lra|]. unfold Rdiv. rewrite Rmult_assoc, Rinv_l by lra. nra. }
    replace (- qn / qd) with (- (qn / qd)) by (field; lra). rewrite Rabs_Ropp, Rabs_pos_eq by lra.
    apply Rle_trans with 4194304; [lra | cbn; lra]. }
  assert (Hdiv : Rabs (b64_div (f2r (PrimFloat.opp num)) (f2r den)) <= bpow radix2 22).
  { rewrite Eo. fold qd. apply round_abs_le; [lia | lia | exact Hquo]. }
  destruct (prim_div_b64 (PrimFloat.opp num) den Fo Fd ltac:(fold qd; lra)) as [Ea Fa].
  { eapply Rle_lt_trans; [exact Hdiv | apply bpow_lt; lia]. }
  set (a := PrimFloat.div (PrimFloat.opp num) den) in *. rewrite <- Ea in Hdiv. rewrite Eo in Ea. fold qd in Ea.
  (* (L + 1) / 2, exactly *)
  destruct (f_ofnat_exact L ltac:(lia)) as [FL EL]. destruct prim_one_fin as [F1 E1]. destruct prim_two_fin as [F2 E2].
  assert (Hb1 : b64_add (f2r (f_ofnat L)) (f2r fone) = l + 1).
  { rewrite EL, E1. fold l. unfold b64_add. apply rnd_id. replace (l + 1) with (INR (S L)) by (rewrite S_INR; reflexivity).
    apply b64_format_INR. exact HLz. }
  destruct (prim_add_b64 (f_ofnat L) fone FL F1) as [Eb1 Fb1].
  { rewrite Hb1. rewrite Rabs_pos_eq by lra. apply Rle_lt_trans with (bpow radix2 30); [cbn; lra | apply bpow_lt; lia]. }
  rewrite Hb1 in Eb1.
  assert (Hb2 : b64_div (f2r (PrimFloat.add (f_ofnat L) fone)) (f2r (f_ofdec 2 0)) = (l + 1) / 2).
  { rewrite Eb1, E2. unfold b64_div. apply rnd_id. replace (l + 1) with (INR (S L)) by (rewrite S_INR; reflexivity).
    apply format_half_nat. exact HLz. }
  destruct (prim_div_b64 _ (f_ofdec 2 0) Fb1 F2 ltac:(rewrite E2; lra)) as [Eb2 Fb2].
  { rewrite Hb2. rewrite Rabs_pos_eq by lra. apply Rle_lt_trans with (bpow radix2 30); [cbn; lra | apply bpow_lt; lia]. }
  rewrite Hb2 in Eb2. set (b := PrimFloat.div (PrimFloat.add (f_ofnat L) fone) (f_ofdec 2 0)) in *.
  (* the final addition *)
  assert (Hsum : Rabs (f2r a + f2r b) <= bpow radix2 30).
  { rewrite Eb2. eapply Rle_trans; [apply Rabs_triang|]. rewrite (Rabs_pos_eq ((l + 1) / 2)) by lra.
    apply Rle_trans with (bpow radix2 22 + 1048576); [lra | cbn; lra]. }
  destruct (prim_add_b64 a b Fa Fb2) as [Ev Fv].
  { apply small_round_fin. exact Hsum. }
  split; [exact Fv|].
  (* error analysis *)
  rewrite Ev. unfold b64_add.
  destruct (rnd_add_rel (f2r a) (f2r b) (f2r_format _) (f2r_format _)) as (e2 & He2 & ->). rewrite b64_u_val in He2.
  unfold cogv. fold D N. rewrite map_length. fold L l. destruct (Req_EM_T D 0) as [HD0|_]; [lra|]. fold rho.
  unfold b64_div in Ea. destruct (b64_round_err (- qn / qd)) as (e1 & ee1 & He1 & Hee1 & R1). rewrite b64_u_val in He1.
  rewrite R1 in Ea. rewrite Eb2.
  pose proof u_eta as Heta. rewrite b64_u_val in Heta. pose proof b64_eta_nonneg as Heta0.
  set (Eq := qn / qd - rho).
  assert (HEq : Rabs Eq * qd <= 2 * G * rho * D).
  { rewrite <- (Rabs_pos_eq qd) at 1 by lra. rewrite <- Rabs_mult.
    replace (Eq * qd) with ((qn - N) - rho * (qd - D)) by (unfold Eq; rewrite <- Hrho; field; lra).
    eapply Rle_trans; [apply Rabs_triang|]. rewrite Rabs_Ropp, Rabs_mult, (Rabs_pos_eq rho) by lra.
    assert (rho * Rabs (qd - D) <= rho * (G * D)) by (apply Rmult_le_compat_l; lra). nra. }
  set (e0 := Rabs Eq) in *. assert (He0 : 0 <= e0) by apply Rabs_pos.
  assert (He0G : e0 * (1 - G) <= 2 * G * rho).
  { apply (Rmult_le_reg_r D); [lra|]. pose proof (Rmult_le_compat_l e0 _ _ He0 Hqdl). nra. }
  set (p := u53 * rho). assert (Hp0 : 0 <= p <= u53 * l) by (unfold p; nra).
  assert (He0p : e0 <= (2 * l + 2 + / 128) * p).
  { assert (H1 : e0 <= 2 * G * rho * (1 + 2 * G)).
    { apply (Rmult_le_reg_r (1 - G)); [lra|]. assert (Hc : 1 <= (1 + 2 * G) * (1 - G)) by nra.
      assert (Hgr : 0 <= 2 * G * rho) by nra.
      pose proof (Rmult_le_compat_l (2 * G * rho) _ _ Hgr Hc). nra. }
    assert (H2 : 2 * G * (1 + 2 * G) <= (2 * l + 2) * u53 * (1 + / 536870912)).
    { fold K. replace ((2 * l + 2) * u53) with (2 * K) by (unfold K; ring). nra. }
    assert (H3 : (2 * l + 2) * (1 + / 536870912) <= 2 * l + 2 + / 128) by lra.
    unfold p. nra. }
  set (X := f2r a + rho).
  assert (HX : Rabs X <= (2 * l + 3 + / 64) * p + b64_eta).
  { unfold X. rewrite Ea. replace (- qn / qd * (1 + e1) + ee1 + rho) with (- Eq + - (e1 * (rho + Eq)) + ee1)
      by (unfold Eq; field; lra).
    eapply Rle_trans; [apply Rabs_triang3|]. rewrite !Rabs_Ropp, Rabs_mult. fold e0.
    assert (Rabs (rho + Eq) <= rho + e0) by (eapply Rle_trans; [apply Rabs_triang|]; rewrite (Rabs_pos_eq rho) by lra; unfold e0; lra).
    assert (Rabs e1 * Rabs (rho + Eq) <= u53 * (rho + e0)) by (apply Rmult_le_compat; try apply Rabs_pos; lra).
    assert (u53 * e0 <= / 128 * p) by nra.
    unfold p in *. lra. }
  replace ((f2r a + (l + 1) / 2) * (1 + e2) - ((l + 1) / 2 - rho)) with (X + e2 * (X + ((l + 1) / 2 - rho))) by (unfold X; ring).
  eapply Rle_trans; [apply Rabs_triang|]. rewrite Rabs_mult.
  assert (Hr' : Rabs ((l + 1) / 2 - rho) <= (l - 1) / 2) by (apply Rabs_le'; lra).
  assert (HXr : Rabs (X + ((l + 1) / 2 - rho)) <= Rabs X + (l - 1) / 2) by (eapply Rle_trans; [apply Rabs_triang|]; lra).
  assert (He2X : Rabs e2 * Rabs (X + ((l + 1) / 2 - rho)) <= u53 * (Rabs X + (l - 1) / 2))
    by (apply Rmult_le_compat; try apply Rabs_pos; lra).
  assert (HuX : u53 * Rabs X <= / 128 * p + b64_eta).
  { assert (u53 * Rabs X <= u53 * ((2 * l + 3 + / 64) * p + b64_eta)) by (apply Rmult_le_compat_l; lra). nra. }
  assert (Hlp : l * p <= l * (u53 * l)) by (apply Rmult_le_compat_l; lra).
  nra.
Qed.

(** * Main theorems *)

(** C16 / C06 at f64, CenterOfGravity on positive inputs: window 1 <= n <= 2^20, finite positive inputs, the exact
    weighted sum of the window at most 2^1023: the f64 answer is finite and within (2L+4) * 2^-53 * L of the exact
    answer, L = min(n, length) the number of values in the window -- for every stream length. *)
Theorem cog_f64_accuracy_pos n (fs : list F) (v : F) : (1 <= n)%nat -> (Z.of_nat n <= 1048576)%Z ->
  Forall pos fs -> @cog_wsum R ROps n (map f2r fs) <= bpow radix2 1023 ->
  cout (@cog_core F FOps n) fs = Ok (Some v) ->
  ffinite v = true /\
  exists r, cout (@cog_core R ROps n) (map f2r fs) = Ok (Some r) /\
            Rabs (f2r v - r) <= (2 * INR (Nat.min n (length fs)) + 4) * / 9007199254740992 * INR (Nat.min n (length fs)).
Proof.
  intros Hn Hn2 Hp Htot Hc.
  destruct (cog_F_run n fs Hn) as (s & Hr & _ & Hs). unfold cout in Hc. rewrite Hr in Hc. cbn [bind clast cog_core] in Hc.
  rewrite Hs in Hc. destruct fs as [|f0 fr]; [discriminate|]. set (fs := f0 :: fr) in *.
  assert (Hne : fs <> []) by discriminate. inversion Hc; subst v.
  assert (Hne' : map f2r fs <> []) by discriminate.
  rewrite (cog_out n (map f2r fs) Hn Hne'). rewrite lastn_map.
  unfold cog_wsum in Htot. rewrite lastn_map in Htot. fold (cn (map f2r (lastn n fs))) in Htot.
  destruct (cog_ans_acc (lastn n fs)) as [Fv Hacc].
  - apply lastn_nonnil; assumption.
  - apply FltErr.Forall_lastn. exact Hp.
  - rewrite lastn_length. lia.
  - exact Htot.
  - split; [exact Fv|]. eexists. split; [reflexivity|]. rewrite lastn_length in Hacc. exact Hacc.
Qed.

(** the same with the window length n in the bound *)
Corollary cog_f64_accuracy_pos_n n (fs : list F) (v : F) : (1 <= n)%nat -> (Z.of_nat n <= 1048576)%Z ->
  Forall pos fs -> @cog_wsum R ROps n (map f2r fs) <= bpow radix2 1023 ->
  cout (@cog_core F FOps n) fs = Ok (Some v) ->
  ffinite v = true /\
  exists r, cout (@cog_core R ROps n) (map f2r fs) = Ok (Some r) /\
            Rabs (f2r v - r) <= (2 * INR n + 4) * / 9007199254740992 * INR n.
Proof.
  intros Hn Hn2 Hp Htot Hc. destruct (cog_f64_accuracy_pos n fs v Hn Hn2 Hp Htot Hc) as (Fv & r & Er & Hb).
  split; [exact Fv|]. exists r. split; [exact Er|]. eapply Rle_trans; [exact Hb|].
  assert (H1 : INR (Nat.min n (length fs)) <= INR n) by (apply le_INR; lia).
  pose proof (pos_INR (Nat.min n (length fs))) as H0.
  assert (Hu : 0 <= / 9007199254740992) by lra.
  apply Rmult_le_compat; [nra | exact H0 | | exact H1].
  apply Rmult_le_compat_r; [exact Hu | lra].
Qed.

(** readiness and totality: the float run never fails and answers exactly when the exact run does (from the first
    value on) *)
Theorem cog_f64_readiness n (fs : list F) : (1 <= n)%nat ->
  exists o, cout (@cog_core F FOps n) fs = Ok o /\
            (o = None <-> fs = []) /\ (cout (@cog_core R ROps n) (map f2r fs) = Ok None <-> fs = []).
Proof.
  intros Hn. destruct (cog_F_run n fs Hn) as (s & Hr & _ & Hs). unfold cout at 1. rewrite Hr. cbn [bind clast cog_core].
  exists (snd s). split; [reflexivity|]. rewrite Hs. destruct fs as [|f0 fr].
  - split; [split; reflexivity|]. split; reflexivity.
  - split; [split; discriminate|]. rewrite (cog_out n (map f2r (f0 :: fr)) Hn ltac:(discriminate)). split; discriminate.
Qed.

(** the no-overflow condition in terms of the inputs: every x <= 2^1023 / (n (n+1) / 2) suffices; simplest instance *)
Lemma cn_le_bound (w : list R) M : Forall (fun x => 0 < x <= M) w -> cn w <= INR (length w) * INR (length w) * M.
Proof.
  induction 1 as [|x r [Hx0 Hx] _ IH]; [rewrite cn_nil; cbn; lra|].
  rewrite cn_cons. cbn [length]. rewrite !S_INR. pose proof (pos_INR (length r)) as Hl.
  assert (0 <= M) by lra. nra.
Qed.

(** * Mixed signs: the statement is FALSE, even qualitatively.  Window 3, inputs 2^53, 1, -2^53: the exact denominator
    is 1 and the exact answer is  2 - (3*2^53 + 2 - 2^53) = -2^54;  in f64 the denominator 2^53 + 1 - 2^53 evaluates to
    0, the view takes the [denom == 0] branch and answers 0. *)
Local Set Warnings "-inexact-float".
Theorem cog_f64_accuracy_mixed_refuted : exists n (fs : list F) (v : F),
  (1 <= n)%nat /\ forallb ffinite fs = true /\ cout (@cog_core F FOps n) fs = Ok (Some v) /\ ffinite v = true /\
  f2r v = 0 /\ cout (@cog_core R ROps n) (map f2r fs) = Ok (Some (- 18014398509481984)).
Proof.
  exists 3%nat, [0x1p53; 1; -0x1p53]%float, 0%float.
  split; [lia|]. split; [vm_compute; reflexivity|]. split; [vm_compute; reflexivity|].
  split; [exact (proj1 prim_zero_fin)|]. split; [exact (proj2 prim_zero_fin)|].
  rewrite (cog_out 3 (map f2r [0x1p53; 1; -0x1p53]%float) ltac:(lia) ltac:(discriminate)).
  assert (E1 : f2r 0x1p53%float = 9007199254740992).
  { rewrite f2r_SF. replace (Prim2SF 0x1p53%float) with (S754_finite false 4503599627370496 1) by (vm_compute; reflexivity).
    unfold SF2R, F2R. cbn. lra. }
  assert (E2 : f2r (-0x1p53)%float = - 9007199254740992).
  { rewrite f2r_SF. replace (Prim2SF (-0x1p53)%float) with (S754_finite true 4503599627370496 1) by (vm_compute; reflexivity).
    unfold SF2R, F2R. cbn. lra. }
  assert (E3 : f2r 1%float = 1) by exact (proj2 prim_one_fin).
  cbn [map]. rewrite E1, E2, E3.
  replace (lastn 3 [9007199254740992; 1; - 9007199254740992]) with [9007199254740992; 1; - 9007199254740992] by reflexivity.
  unfold cogv. rewrite !dn_cons, !cn_cons, dn_nil, cn_nil. cbn [length INR].
  destruct (Req_EM_T (9007199254740992 + (1 + (- 9007199254740992 + 0))) 0) as [H|H]; [exfalso; lra|].
  do 2 f_equal. field.
Qed.

(** * Example: hypotheses satisfiable on a non-trivial stream *)
Example cog_f64_accuracy_pos_ex :
  forallb (fun x => ffinite x && PrimFloat.ltb fzero x && PrimFloat.leb x 0x1p1000) [1e6; 8.13; 3.461; 5.401; 3.311; 0.1; 7.5]%float = true /\
  cout (@cog_core F FOps 3) [1e6; 8.13; 3.461; 5.401; 3.311; 0.1; 7.5]%float = Ok (Some 0.3839244798826873%float).
Proof. split; vm_compute; reflexivity. Qed.

Print Assumptions cog_f64_accuracy_pos.
Print Assumptions cog_f64_accuracy_pos_n.
Print Assumptions cog_f64_readiness.
Print Assumptions cog_f64_accuracy_mixed_refuted.
