(** Consequences of the WelfordOnline m2 drift bound (WdriftP.v) for the views built on it, in the standard
    model of Flt2P.v extended with a rounded square root:
      - [welford_var_drift]: the sample variance m2/(n-1) (one more rounded division);
      - [welford_std_drift]: last() = sqrt(variance), when the exact variance V > 0 and the variance error
        bound E <= V/2:   |std_fl - sqrt V| <= E / sqrt V + 2 u sqrt V;
      - [vst_drift]:  Vst = x_t / std:  |Vst_fl - Vst_ex| <= |Vst_ex| (17/8 E/V + 7 u) + eta: the RELATIVE error of
        Vst is the variance residue divided by the variance itself (amplified on nearly flat windows). *)
From Coq Require Import List Arith Lia Reals Lra ZArith.
From SF Require Import Res Scalar View Models Spec Core SpecAvg SpecRoll SpecWelf.
From SF.Proofs Require Import Window RBase WinAP AvgP RollP WelfP FltErr Flt2P WdriftArith WdriftP.
Import ListNotations.
Open Scope R_scope.

(** the variance error bound: t updates, window n, exact variance V *)
Definition wo_varE (u eta M : R) (n t : nat) (V : R) : R :=
  INR t * ((33 * INR n + 80) * (u * (M * M)) + (13 * INR n * M + 3) * eta) / (INR n - 1) * (1 + u)
  + V * u + eta.

(** * Generic facts about the three cores sharing WelfordOnline's state *)
Lemma crun_var_core_gen (OT : Ops R) n vs :
  crun (@welford_var_core R OT n) vs = crun (@welford_core R OT n) vs.
Proof.
  unfold crun. cbn [cnew welford_var_core welford_core]. destruct (wo_new n) as [s|e]; [|reflexivity].
  cbn [bind]. revert s. induction vs as [|v vs IH]; intros s; [reflexivity|].
  cbn [cfold cstep welford_var_core welford_core]. destruct (wo_step n s v); [apply IH | reflexivity].
Qed.

Lemma crun_vst_core_gen (OT : Ops R) n vs :
  crun (@vst_core R OT n) vs = do w <- crun (@welford_core R OT n) vs; Ok (last vs (@s0 R OT), w).
Proof.
  induction vs as [|v vs IH] using rev_ind.
  - unfold crun. cbn [cnew vst_core welford_core]. destruct (wo_new n) as [s|e]; reflexivity.
  - rewrite !crun_snoc, IH. destruct (crun (@welford_core R OT n) vs) as [w|e]; [|reflexivity].
    cbn [bind cstep vst_core welford_core snd]. destruct (wo_step n w v) as [w'|e]; [|reflexivity].
    cbn [bind]. rewrite last_last. reflexivity.
Qed.

Lemma crun_vsct_core_gen (OT : Ops R) n vs : crun (@vsct_core R OT n) vs = crun (@vst_core R OT n) vs.
Proof.
  unfold crun. cbn [cnew vsct_core vst_core]. destruct (wo_new n) as [w|e]; [|reflexivity].
  cbn [bind]. generalize (@s0 R OT, w). intros s. revert s.
  induction vs as [|v vs IH]; intros s; [reflexivity|].
  cbn [cfold cstep vsct_core vst_core]. destruct (wo_step n (snd s) v); [apply IH | reflexivity].
Qed.

Lemma quot_err x sd sg dl : 0 < sg -> 0 <= dl <= 41 / 80 -> Rabs (sd - sg) <= dl * sg ->
  0 < sd /\ Rabs (x / sd - x / sg) <= Rabs (x / sg) * (17 / 8 * dl) /\
  Rabs (x / sd) <= Rabs (x / sg) * (1 + 17 / 8 * dl).
Proof.
  intros Hsg Hdl Hsd. apply Rabs_le_inv' in Hsd.
  assert (Hlow : sg * (1 - dl) <= sd) by nra.
  assert (Hsd0 : 0 < sd) by nra.
  split; [exact Hsd0|].
  assert (Hr : Rabs ((sg - sd) / sd) <= 17 / 8 * dl).
  { unfold Rdiv. rewrite Rabs_mult, Rabs_inv, (Rabs_right sd) by lra.
    apply Rmult_le_reg_r with sd; [exact Hsd0|]. rewrite Rmult_assoc, Rinv_l, Rmult_1_r by lra.
    assert (Rabs (sg - sd) <= dl * sg) by (apply Rabs_le'; lra). nra. }
  assert (E1 : x / sd - x / sg = x / sg * ((sg - sd) / sd)) by (field; lra).
  assert (E2 : x / sd = x / sg * (1 + (sg - sd) / sd)) by (field; lra).
  split.
  - rewrite E1, Rabs_mult. apply Rmult_le_compat_l; [apply Rabs_pos | exact Hr].
  - rewrite E2, Rabs_mult. apply Rmult_le_compat_l; [apply Rabs_pos|].
    eapply Rle_trans; [apply Rabs_triang|]. rewrite Rabs_R1. lra.
Qed.

Section StdModel3.
Variables u eta : R.
Variables fadd fsub fmul fdiv : R -> R -> R.
Variable fsqrt : R -> R.
Variable F : R -> Prop.                       (* "is a floating-point number" *)
Hypothesis u_nonneg : 0 <= u.
Hypothesis eta_nonneg : 0 <= eta.
Hypothesis F0 : F 0.
Hypothesis fadd_ok : forall a b, F a -> F b ->
  F (fadd a b) /\ exists d, Rabs d <= u /\ fadd a b = (a + b) * (1 + d).
Hypothesis fsub_ok : forall a b, F a -> F b ->
  F (fsub a b) /\ exists d, Rabs d <= u /\ fsub a b = (a - b) * (1 + d).
Hypothesis fmul_ok : forall a b, F a -> F b ->
  F (fmul a b) /\ exists d e, Rabs d <= u /\ Rabs e <= eta /\ fmul a b = a * b * (1 + d) + e.
Hypothesis fdiv_ok : forall a b, F a -> F b -> b <> 0 ->
  F (fdiv a b) /\ exists d e, Rabs d <= u /\ Rabs e <= eta /\ fdiv a b = a / b * (1 + d) + e.
Hypothesis fsqrt_ok : forall a, F a -> 0 <= a ->
  F (fsqrt a) /\ exists d, Rabs d <= u /\ fsqrt a = sqrt a * (1 + d).

Variable M : R.
Hypothesis M_nonneg : 0 <= M.

Notation FL := (FlOps2 fadd fsub fmul fdiv).
Notation DM := (DinM F M).

(** [FlOps2] with a ROUNDED square root *)
Definition FlOps3 : Ops R := {|
  s0 := 0; s1 := 1;
  sadd := fadd; ssub := fsub; smul := fmul; sneg := Ropp; sabs := Rabs;
  sdiv := fun a b => if Req_EM_T b 0 then Err NonFinite else Ok (fdiv a b);
  sltb := Rltb; sleb := Rleb; seqb := Reqb;
  sofnat := INR;
  sofdec := fun m k => IZR m / IZR (10 ^ Z.of_nat k);
  ssqrt := fun x => if Rlt_dec x 0 then Err Domain else Ok (fsqrt x);
  sexp := fun x => Ok (exp x);
  sln := fun x => if Rle_dec x 0 then Err Domain else Ok (ln x);
  scos := fun x => Ok (cos x);
  ssin := fun x => Ok (sin x);
  stanh := fun x => Ok (tanh x);
  slog2 := fun x => if Rle_dec x 0 then Err Domain else Ok (ln x / ln 2);
|}.
Notation FL3 := FlOps3.

(** WelfordOnline's state does not involve the square root *)
Lemma crun_welford_FL3 n vs : crun (@welford_core R FL3 n) vs = crun (@welford_core R FL n) vs.
Proof.
  unfold crun. cbn [cnew welford_core].
  change (@wo_new R FL3 n) with (@wo_new R FL n). destruct (@wo_new R FL n) as [s|e]; [|reflexivity].
  cbn [bind]. revert s. induction vs as [|v vs IH]; intros s; [reflexivity|].
  cbn [cfold cstep welford_core]. change (@wo_step R FL3 n s v) with (@wo_step R FL n s v).
  destruct (@wo_step R FL n s v); [apply IH | reflexivity].
Qed.

Section Online3.
Variable n : nat.
Hypothesis n_ge2 : (2 <= n)%nat.
Variable vs : list R.
Hypothesis full : (n <= length vs)%nat.
Hypothesis Hvs : Forall DM vs.
Hypothesis nat_F : forall k, (1 <= k <= n)%nat -> F (INR k).
Hypothesis small : 160 * (INR (length vs) * u) <= 1.
Hypothesis eta_small : 48 * (INR (length vs) * eta) <= M.

Notation W := (lastn n vs).
Notation V := (@spec_wvar R ROps n vs).
Notation E := (wo_varE u eta M n (length vs) V).

Lemma W_len : length W = n.
Proof. rewrite lastn_length. lia. Qed.

Lemma V_eq : V = rsqdev (rmean W) W / (INR n - 1).
Proof.
  unfold spec_wvar, svar. rewrite W_len.
  destruct (Nat.ltb_spec 1 n) as [H|H]; [|lia].
  assert (Hk : INR (n - 1) <> 0) by (apply INR_pos_neq; lia).
  cbn [sofnat ROps]. rewrite sdivd_R by exact Hk. rewrite (minus_INR n 1) by lia. reflexivity.
Qed.

Lemma n1_pos : 1 <= INR n - 1.
Proof. assert (2 <= INR n) by (change 2 with (INR 2); apply le_INR; lia). lra. Qed.

Lemma V_nonneg : 0 <= V.
Proof.
  rewrite V_eq. pose proof n1_pos. apply Rmult_le_pos; [apply rsqdev_nonneg|].
  apply Rlt_le, Rinv_0_lt_compat. lra.
Qed.

(** the final state of the rounded model and its variance getter *)
Lemma wo_final :
  exists s, crun (@welford_core R FL n) vs = Ok s /\ wo_count s = n /\
    F (wo_mean s) /\ F (wo_m2 s) /\
    Rabs (wo_mean s - rmean W) <= INR (length vs) * (10 * u * M + 3 * eta) /\
    Rabs (wo_m2 s - rsqdev (rmean W) W)
    <= INR (length vs) * ((33 * INR n + 80) * (u * (M * M)) + (13 * INR n * M + 3) * eta).
Proof.
  destruct (wo2_run u eta fadd fsub fmul fdiv F u_nonneg eta_nonneg F0 fadd_ok fsub_ok fmul_ok fdiv_ok M M_nonneg
              n n_ge2 (length vs) nat_F small eta_small vs Hvs) as [s [Hr [(Hq & Hc & Hi) Hi2]]].
  destruct (Hi (le_n _)) as [Fm Em]. destruct (Hi2 (le_n _)) as [Fq _].
  destruct (welford_m2_drift u eta fadd fsub fmul fdiv F u_nonneg eta_nonneg F0 fadd_ok fsub_ok fmul_ok fdiv_ok
              M M_nonneg n vs n_ge2 Hvs nat_F small eta_small) as [s' [sx [Hr' [_ [Hx Eb]]]]].
  rewrite Hr in Hr'. injection Hr' as <-. rewrite Hx in Eb.
  exists s. split; [exact Hr|]. split; [rewrite Hc; exact W_len|].
  split; [exact Fm|]. split; [exact Fq|]. split; [exact Em | exact Eb].
Qed.

Lemma wo_var_fl s : wo_count s = n -> F (wo_m2 s) ->
  Rabs (wo_m2 s - rsqdev (rmean W) W)
    <= INR (length vs) * ((33 * INR n + 80) * (u * (M * M)) + (13 * INR n * M + 3) * eta) ->
  exists v_fl, @wo_variance R FL s = Ok v_fl /\ F v_fl /\ Rabs (v_fl - V) <= E.
Proof.
  intros Hc Fq Eb. pose proof n1_pos as Hn1.
  assert (HK0 : INR (n - 1) <> 0) by (apply INR_pos_neq; lia).
  destruct (fdiv_ok (wo_m2 s) (INR (n - 1)) Fq (nat_F (n - 1) ltac:(lia)) HK0) as [Fv [d [e [Hd [He Ev]]]]].
  exists (fdiv (wo_m2 s) (INR (n - 1))). split; [|split; [exact Fv|]].
  - unfold wo_variance. rewrite Hc. destruct (Nat.ltb_spec 1 n) as [H|H]; [|lia].
    cbn [sdiv sofnat FlOps2]. destruct (Req_EM_T (INR (n - 1)) 0) as [Hz|_]; [contradiction | reflexivity].
  - rewrite Ev, V_eq. rewrite (minus_INR n 1) by lia. change (INR 1) with 1.
    set (K := INR n - 1) in *. set (S' := rsqdev (rmean W) W) in *.
    set (B := INR (length vs) * ((33 * INR n + 80) * (u * (M * M)) + (13 * INR n * M + 3) * eta)) in *.
    assert (HKi : 0 < / K) by (apply Rinv_0_lt_compat; lra).
    replace (wo_m2 s / K * (1 + d) + e - S' / K)
      with ((wo_m2 s - S') * / K * (1 + d) + S' / K * d + e) by (field; lra).
    eapply Rle_trans; [apply Rabs_triang3|].
    assert (H1 : Rabs ((wo_m2 s - S') * / K) <= B / K).
    { rewrite Rabs_mult, (Rabs_right (/ K)) by lra. unfold Rdiv. apply Rmult_le_compat_r; lra. }
    pose proof (Rabs_mul_le _ (1 + d) _ _ H1 (Rabs_1d d u Hd)) as T1.
    assert (HV0 : 0 <= S' / K).
    { apply Rmult_le_pos; [apply rsqdev_nonneg | lra]. }
    assert (T2 : Rabs (S' / K * d) <= S' / K * u).
    { rewrite Rabs_mult, (Rabs_right (S' / K)) by lra. apply Rmult_le_compat_l; assumption. }
    unfold wo_varE. fold K S' B. lra.
Qed.

(** A. WelfordOnline::variance() = fl(m2 / (n-1)), full window (t >= n >= 2):
    |var_fl - V| <= t ((33 n + 80) u M^2 + (13 n M + 3) eta) / (n-1) * (1+u) + V u + eta,  V the exact sample variance. *)
Theorem welford_var_drift :
  exists v_fl,
    cout (@welford_var_core R FL n) vs = Ok (Some v_fl) /\
    cout (@welford_var_core R ROps n) vs = Ok (Some V) /\
    Rabs (v_fl - V) <= E.
Proof.
  destruct wo_final as [s [Hr [Hc [_ [Fq [_ Eb]]]]]].
  destruct (wo_var_fl s Hc Fq Eb) as [v_fl [Hv [_ Ev]]].
  exists v_fl. split; [|split; [|exact Ev]].
  - unfold cout. rewrite crun_var_core_gen, Hr. cbn [bind clast welford_var_core]. rewrite Hv. reflexivity.
  - apply welford_var_closed_form. lia.
Qed.

(* ------------------------------------------------------------------------------------------ *)
(** * B. last() = sqrt(variance) and Vst = x_t / last() *)
Lemma small_u : 160 * u <= 1.
Proof.
  assert (1 <= INR (length vs)) by (change 1 with (INR 1); apply le_INR; lia).
  assert (u <= INR (length vs) * u) by nra. lra.
Qed.

Lemma wo_last_FL3 s v_fl : wo_count s = n -> @wo_variance R FL s = Ok v_fl -> 0 < v_fl ->
  @wo_last R FL3 n s = Ok (Some (fsqrt v_fl)).
Proof.
  intros Hc Hv Hpos. unfold wo_last, usub. destruct (Nat.ltb_spec n 1) as [H|_]; [lia|]. cbn [bind].
  rewrite Hc. destruct (Nat.ltb_spec n (n - 1)) as [H|_]; [lia|].
  change (@wo_variance R FL3 s) with (@wo_variance R FL s). rewrite Hv. cbn [bind sleb s0 FlOps3].
  destruct (Rleb v_fl 0) eqn:Eb; [apply Rleb_true in Eb; lra|].
  cbn [ssqrt FlOps3]. destruct (Rlt_dec v_fl 0); [lra | reflexivity].
Qed.

(** the square root of a perturbed positive number, rounded *)
Lemma sqrt_err v_fl d : 0 < V -> E <= V / 2 -> Rabs (v_fl - V) <= E -> Rabs d <= u ->
  0 < v_fl /\ Rabs (sqrt v_fl * (1 + d) - sqrt V) <= E / sqrt V + 2 * u * sqrt V.
Proof.
  intros HV HE Hv Hd. apply Rabs_le_inv' in Hv. assert (Hvp : 0 < v_fl) by lra. split; [exact Hvp|].
  pose proof small_u as Hu.
  pose proof (sqrt_lt_R0 V HV) as Hb. pose proof (sqrt_lt_R0 v_fl Hvp) as Ha.
  pose proof (sqrt_sqrt V ltac:(lra)) as Eb. pose proof (sqrt_sqrt v_fl ltac:(lra)) as Ea.
  set (a := sqrt v_fl) in *. set (b := sqrt V) in *.
  assert (HEb : E / b = E * / b) by reflexivity.
  assert (Hbi : 0 < / b) by (apply Rinv_0_lt_compat; exact Hb).
  assert (Hab : Rabs (a - b) <= E / b).
  { apply Rmult_le_reg_r with b; [exact Hb|]. unfold Rdiv. rewrite Rmult_assoc, Rinv_l, Rmult_1_r by lra.
    replace (Rabs (a - b) * b) with (Rabs ((a - b) * b)) by (rewrite Rabs_mult, (Rabs_right b) by lra; reflexivity).
    apply Rabs_le'.
    assert (Eab : (a - b) * (a + b) = v_fl - V) by (rewrite <- Ea, <- Eb; ring).
    destruct (Rle_dec b a); nra. }
  assert (HEb2 : E / b <= b / 2).
  { apply Rmult_le_reg_r with b; [exact Hb|]. unfold Rdiv. rewrite Rmult_assoc, Rinv_l, Rmult_1_r by lra. nra. }
  apply Rabs_le_inv' in Hab.
  replace (a * (1 + d) - b) with ((a - b) + a * d) by ring.
  eapply Rle_trans; [apply Rabs_triang|].
  assert (T1 : Rabs (a - b) <= E / b) by (apply Rabs_le'; lra).
  assert (T2 : Rabs (a * d) <= 3 / 2 * b * u).
  { apply Rabs_mul_le; [rewrite Rabs_right; lra | exact Hd]. }
  nra.
Qed.

Lemma wo_std_fl : 0 < V -> E <= V / 2 ->
  exists s sd_fl, crun (@welford_core R FL n) vs = Ok s /\
    @wo_last R FL3 n s = Ok (Some sd_fl) /\ F sd_fl /\
    Rabs (sd_fl - sqrt V) <= E / sqrt V + 2 * u * sqrt V.
Proof.
  intros HV HE. destruct wo_final as [s [Hr [Hc [_ [Fq [_ Eb]]]]]].
  destruct (wo_var_fl s Hc Fq Eb) as [v_fl [Hv [Fv Ev]]].
  assert (Hvp : 0 < v_fl) by (apply Rabs_le_inv' in Ev; lra).
  destruct (fsqrt_ok v_fl Fv ltac:(lra)) as [Fs [d [Hd Es]]].
  exists s, (fsqrt v_fl). split; [exact Hr|]. split; [apply wo_last_FL3; assumption|]. split; [exact Fs|].
  rewrite Es. apply sqrt_err; assumption.
Qed.

Lemma spec_wlast_pos : 0 < V -> @spec_wlast R ROps n vs = Some (sqrt V).
Proof.
  intros HV. unfold spec_wlast. rewrite W_len. destruct (Nat.ltb_spec n (n - 1)) as [H|_]; [lia|].
  unfold spec_wstd. destruct (rstd_cases W) as [[H _]|[_ H]].
  - unfold spec_wvar in HV. lra.
  - rewrite H. reflexivity.
Qed.

(** B1. WelfordOnline::last() with a rounded square root, full window, exact variance V > 0, E <= V/2:
    |std_fl - sqrt V| <= E / sqrt V + 2 u sqrt V *)
Theorem welford_std_drift : 0 < V -> E <= V / 2 ->
  exists sd_fl,
    cout (@welford_core R FL3 n) vs = Ok (Some sd_fl) /\
    cout (@welford_core R ROps n) vs = Ok (Some (sqrt V)) /\
    Rabs (sd_fl - sqrt V) <= E / sqrt V + 2 * u * sqrt V.
Proof.
  intros HV HE. destruct (wo_std_fl HV HE) as [s [sd [Hr [Hl [_ Eb]]]]].
  exists sd. split; [|split; [|exact Eb]].
  - unfold cout. rewrite crun_welford_FL3, Hr. cbn [bind clast welford_core]. exact Hl.
  - rewrite welford_closed_form by lia. rewrite spec_wlast_pos by exact HV. reflexivity.
Qed.

Lemma last_DM : DM (last vs 0).
Proof.
  assert (Hne : vs <> []) by (intros ->; cbn in full; lia).
  rewrite (app_removelast_last 0 Hne) in Hvs. apply Forall_app in Hvs. destruct Hvs as [_ H].
  apply Forall_inv in H. exact H.
Qed.

(** B2. Vst = fl(x_t / std_fl):  |Vst_fl - x_t / sqrt V| <= |x_t / sqrt V| (17/8 E/V + 7 u) + eta:
    the relative error is the variance error divided by the variance ITSELF. *)
Theorem vst_drift : 0 < V -> E <= V / 2 ->
  exists o_fl,
    cout (@vst_core R FL3 n) vs = Ok (Some o_fl) /\
    cout (@vst_core R ROps n) vs = Ok (Some (last vs 0 / sqrt V)) /\
    Rabs (o_fl - last vs 0 / sqrt V) <= Rabs (last vs 0 / sqrt V) * (17 / 8 * (E / V) + 7 * u) + eta.
Proof.
  intros HV HE. destruct (wo_std_fl HV HE) as [s [sd [Hr [Hl [Fsd Eb]]]]].
  pose proof small_u as Hu. destruct last_DM as [Fx _].
  set (x := last vs 0) in *. pose proof (sqrt_lt_R0 V HV) as Hb. pose proof (sqrt_sqrt V ltac:(lra)) as Ebb.
  set (b := sqrt V) in *.
  assert (HE0 : 0 <= E).
  { unfold wo_varE. pose proof n1_pos as Hn1. pose proof (pos_INR (length vs)). pose proof (pos_INR n).
    assert (0 <= u * (M * M)) by (apply Rmult_le_pos; [|apply Rmult_le_pos]; assumption).
    assert (0 <= INR n * M) by (apply Rmult_le_pos; assumption).
    assert (0 <= (33 * INR n + 80) * (u * (M * M)) + (13 * INR n * M + 3) * eta).
    { apply Rplus_le_le_0_compat; apply Rmult_le_pos; try assumption; nra. }
    assert (0 <= INR (length vs) * ((33 * INR n + 80) * (u * (M * M)) + (13 * INR n * M + 3) * eta) / (INR n - 1)).
    { apply Rmult_le_pos; [apply Rmult_le_pos; assumption | apply Rlt_le, Rinv_0_lt_compat; lra]. }
    assert (0 <= INR (length vs) * ((33 * INR n + 80) * (u * (M * M)) + (13 * INR n * M + 3) * eta) / (INR n - 1) * (1 + u))
      by (apply Rmult_le_pos; lra).
    assert (0 <= V * u) by (apply Rmult_le_pos; lra). lra. }
  set (EE := E) in *.
  set (dl := EE / V + 2 * u).
  assert (HEV : 0 <= EE / V <= 1 / 2).
  { split; [apply Rmult_le_pos; [exact HE0 | apply Rlt_le, Rinv_0_lt_compat; exact HV]|].
    apply Rmult_le_reg_r with V; [exact HV|]. unfold Rdiv. rewrite Rmult_assoc, Rinv_l, Rmult_1_r by lra. lra. }
  assert (Hdl : 0 <= dl <= 41 / 80) by (unfold dl; lra).
  assert (Edl : EE / b + 2 * u * b = dl * b).
  { unfold dl. rewrite <- Ebb. field. lra. }
  rewrite Edl in Eb.
  destruct (quot_err x sd b dl Hb Hdl Eb) as [Hsd0 [Q1 Q2]].
  assert (Hsdne : sd <> 0) by lra.
  destruct (fdiv_ok x sd Fx Fsd Hsdne) as [Fo [d [e [Hd [He Eo]]]]].
  exists (fdiv x sd). split; [|split].
  - unfold cout. rewrite crun_vst_core_gen, crun_welford_FL3, Hr. cbn [bind clast vst_core snd fst].
    rewrite Hl. cbn [bind seqb s0 FlOps3]. fold x.
    destruct (Reqb sd 0) eqn:Eq; [apply Reqb_true in Eq; contradiction|].
    cbn [sdiv FlOps3]. destruct (Req_EM_T sd 0) as [Hz|_]; [contradiction | reflexivity].
  - rewrite vst_closed_form by lia. unfold spec_vst. rewrite spec_wlast_pos by exact HV. fold b.
    cbn [seqb s0 ROps]. destruct (Reqb b 0) eqn:Eq; [apply Reqb_true in Eq; lra|].
    rewrite sdivd_R by lra. reflexivity.
  - rewrite Eo. replace (x / sd * (1 + d) + e - x / b) with ((x / sd - x / b) + x / sd * d + e) by ring.
    eapply Rle_trans; [apply Rabs_triang3|].
    pose proof (Rabs_mul_le _ _ _ _ Q2 Hd) as T2. pose proof (Rabs_pos (x / b)) as Hxb.
    assert (Hxdl : Rabs (x / b) * dl <= Rabs (x / b) * (41 / 80)) by (apply Rmult_le_compat_l; lra).
    assert (Hxdl0 : 0 <= Rabs (x / b) * dl) by (apply Rmult_le_pos; lra).
    assert (Hxu : 0 <= Rabs (x / b) * u) by (apply Rmult_le_pos; lra).
    assert (Hxdlu : Rabs (x / b) * dl * u <= Rabs (x / b) * (41 / 80) * u) by (apply Rmult_le_compat_r; lra).
    assert (Hxev : Rabs (x / b) * dl = Rabs (x / b) * (EE / V) + 2 * (Rabs (x / b) * u)) by (unfold dl; ring).
    nra.
Qed.

(** B3. Vsct = fl(fl(x_t - mean_fl) / std_fl): the same relative amplification, plus the mean drift over sqrt V *)
Theorem vsct_drift : 0 < V -> E <= V / 2 ->
  exists o_fl,
    cout (@vsct_core R FL3 n) vs = Ok (Some o_fl) /\
    cout (@vsct_core R ROps n) vs = Ok (Some ((last vs 0 - rmean W) / sqrt V)) /\
    Rabs (o_fl - (last vs 0 - rmean W) / sqrt V)
    <= Rabs ((last vs 0 - rmean W) / sqrt V) * (17 / 8 * (E / V) + 7 * u)
       + 17 / 8 * ((INR (length vs) * (10 * u * M + 3 * eta) * (1 + u) + 2 * M * u) / sqrt V) + eta.
Proof.
  intros HV HE. destruct wo_final as [s [Hr [Hc [Fm [Fq [Em Eb]]]]]].
  destruct (wo_var_fl s Hc Fq Eb) as [v_fl [Hv [Fv Ev]]].
  assert (Hvp : 0 < v_fl) by (apply Rabs_le_inv' in Ev; lra).
  destruct (fsqrt_ok v_fl Fv ltac:(lra)) as [Fsd [ds [Hds Es]]].
  pose proof (wo_last_FL3 s v_fl Hc Hv Hvp) as Hl.
  destruct (sqrt_err v_fl ds HV HE Ev Hds) as [_ Esd]. rewrite <- Es in Esd.
  set (sd := fsqrt v_fl) in *.
  pose proof small_u as Hu. destruct last_DM as [Fx Hxb].
  set (x := last vs 0) in *. pose proof (sqrt_lt_R0 V HV) as Hb. pose proof (sqrt_sqrt V ltac:(lra)) as Ebb.
  set (b := sqrt V) in *.
  pose proof (Rmean_bound F M M_nonneg W (Forall_lastn DM n vs Hvs)) as Hmu.
  set (mu := rmean W) in *. set (m := wo_mean s) in *.
  set (A := INR (length vs) * (10 * u * M + 3 * eta)) in *.
  assert (HA0 : 0 <= A) by (eapply Rle_trans; [apply Rabs_pos | exact Em]).
  set (Dn := A * (1 + u) + 2 * M * u).
  assert (HDn0 : 0 <= Dn).
  { unfold Dn. assert (0 <= A * (1 + u)) by (apply Rmult_le_pos; lra).
    assert (0 <= M * u) by (apply Rmult_le_pos; lra). lra. }
  assert (HE0 : 0 <= E).
  { eapply Rle_trans; [apply Rabs_pos | exact Ev]. }
  set (EE := E) in *.
  set (dl := EE / V + 2 * u).
  assert (HEV : 0 <= EE / V <= 1 / 2).
  { split; [apply Rmult_le_pos; [exact HE0 | apply Rlt_le, Rinv_0_lt_compat; exact HV]|].
    apply Rmult_le_reg_r with V; [exact HV|]. unfold Rdiv. rewrite Rmult_assoc, Rinv_l, Rmult_1_r by lra. lra. }
  assert (Hdl : 0 <= dl <= 41 / 80) by (unfold dl; lra).
  assert (Edl : EE / b + 2 * u * b = dl * b).
  { unfold dl. rewrite <- Ebb. field. lra. }
  rewrite Edl in Esd.
  destruct (quot_err (x - mu) sd b dl Hb Hdl Esd) as [Hsd0 [Q1 Q2]].
  destruct (quot_err 1 sd b dl Hb Hdl Esd) as [_ [_ Q3]].
  assert (Hsdne : sd <> 0) by lra.
  destruct (fsub_ok x m Fx Fm) as [Fnum [d1 [Hd1 E1]]].
  destruct (fdiv_ok (fsub x m) sd Fnum Fsd Hsdne) as [Fo [d [e [Hd [He Eo]]]]].
  exists (fdiv (fsub x m) sd). split; [|split].
  - unfold cout. rewrite crun_vsct_core_gen, crun_vst_core_gen, crun_welford_FL3, Hr.
    cbn [bind clast vsct_core snd fst]. rewrite Hl. cbn [bind seqb s0 FlOps3]. fold x. fold m.
    destruct (Reqb sd 0) eqn:Eq; [apply Reqb_true in Eq; contradiction|].
    cbn [sdiv ssub FlOps3]. destruct (Req_EM_T sd 0) as [Hz|_]; [contradiction | reflexivity].
  - rewrite vsct_closed_form by lia. unfold spec_vsct. rewrite spec_wlast_pos by exact HV. fold b.
    cbn [seqb s0 ROps]. destruct (Reqb b 0) eqn:Eq; [apply Reqb_true in Eq; lra|].
    rewrite sdivd_R by lra. reflexivity.
  - assert (Hdn : Rabs ((x - m) * (1 + d1) - (x - mu)) <= Dn) by (apply sub_err; assumption).
    set (dn := (x - m) * (1 + d1) - (x - mu)) in *.
    rewrite Eo, E1. replace ((x - m) * (1 + d1)) with ((x - mu) + dn) by (unfold dn; ring).
    replace (((x - mu) + dn) / sd * (1 + d) + e - (x - mu) / b)
      with (((x - mu) / sd - (x - mu) / b) + dn * (1 / sd) * (1 + d) + (x - mu) / sd * d + e) by (field; lra).
    eapply Rle_trans; [apply Rabs_triang4|].
    set (r := Rabs ((x - mu) / b)) in *. assert (Hr0 : 0 <= r) by apply Rabs_pos.
    assert (E1b : Rabs (1 / b) = / b).
    { unfold Rdiv. rewrite Rmult_1_l, Rabs_inv, Rabs_right by lra. reflexivity. }
    rewrite E1b in Q3.
    assert (Hbi : 0 < / b) by (apply Rinv_0_lt_compat; exact Hb).
    assert (Q3' : Rabs (1 / sd) <= / b * (2090 / 1000)).
    { eapply Rle_trans; [exact Q3|]. apply Rmult_le_compat_l; lra. }
    assert (T2 : Rabs (dn * (1 / sd) * (1 + d)) <= Dn * (/ b * (2090 / 1000)) * (1 + u)).
    { apply Rabs_mul_le; [apply Rabs_mul_le; assumption | apply Rabs_1d; exact Hd]. }
    pose proof (Rabs_mul_le _ _ _ _ Q2 Hd) as T3.
    assert (HDb : 0 <= Dn / b) by (apply Rmult_le_pos; lra).
    assert (T2' : Dn * (/ b * (2090 / 1000)) * (1 + u) <= 17 / 8 * (Dn / b)).
    { replace (Dn * (/ b * (2090 / 1000)) * (1 + u)) with (Dn / b * (2090 / 1000 * (1 + u))) by (field; lra).
      replace (17 / 8 * (Dn / b)) with (Dn / b * (17 / 8)) by ring. apply Rmult_le_compat_l; [exact HDb | lra]. }
    assert (Hxdl : r * dl <= r * (41 / 80)) by (apply Rmult_le_compat_l; lra).
    assert (Hxdl0 : 0 <= r * dl) by (apply Rmult_le_pos; lra).
    assert (Hxu : 0 <= r * u) by (apply Rmult_le_pos; lra).
    assert (Hxdlu : r * dl * u <= r * (41 / 80) * u) by (apply Rmult_le_compat_r; lra).
    assert (Hxev : r * dl = r * (EE / V) + 2 * (r * u)) by (unfold dl; ring).
    fold Dn. nra.
Qed.
End Online3.
End StdModel3.

Print Assumptions welford_var_drift.
Print Assumptions welford_std_drift.
Print Assumptions vst_drift.
Print Assumptions vsct_drift.
