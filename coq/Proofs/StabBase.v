(** C09 (stability and fading memory): definitions and general lemmas.
    [bibo c K]: inputs bounded by U give outputs bounded by K*U, for every stream length.
    Fading memory of a linear core reduces (by linearity) to the decay of its zero-input response:
    out(p ++ s) - out(p' ++ s) = out((p - p') ++ 0^|s|). *)
From Coq Require Import List Arith Lia ZArith Reals Lra.
From SF Require Import Res Scalar View Models Spec Core SpecLin.
From SF.Proofs Require Import Window RBase LinBase LinLinear LinConv.
Import ListNotations.
Open Scope R_scope.
Local Existing Instance ROps.

(** * bounded histories *)
Definition bounded (U : R) (vs : list R) : Prop := Forall (fun x => Rabs x <= U) vs.

(** BIBO with explicit gain [K] *)
Definition bibo (c : core R) (K : R) : Prop :=
  forall U vs, bounded U vs -> forall o, cout c vs = Ok (Some o) -> Rabs o <= K * U.

(** zero-input response bounded by [F V k] after [k] zeros, when the earlier values are bounded by [V] *)
Definition zero_input_bound (c : core R) (F : R -> nat -> R) : Prop :=
  forall V d k o, 0 <= V -> bounded V d -> cout c (d ++ repeat 0 k) = Ok (Some o) -> Rabs o <= F V k.

(** fading memory, explicit: two streams with same-length prefixes bounded by [U] and a common tail [s]
    (the tail itself is arbitrary) *)
Definition fading_bound (c : core R) (F : R -> nat -> R) : Prop :=
  forall U p p' s o o', 0 <= U -> length p = length p' -> bounded U p -> bounded U p' ->
  cout c (p ++ s) = Ok (Some o) -> cout c (p' ++ s) = Ok (Some o') ->
  Rabs (o - o') <= F (2 * U) (length s).

(** epsilon forms *)
Definition zero_input_decays (c : core R) : Prop :=
  forall d eps, 0 < eps -> exists M, forall k, (M <= k)%nat ->
  forall o, cout c (d ++ repeat 0 k) = Ok (Some o) -> Rabs o < eps.

Definition fading_eps (c : core R) : Prop :=
  forall p p', length p = length p' -> forall eps, 0 < eps -> exists M, forall s, (M <= length s)%nat ->
  forall o o', cout c (p ++ s) = Ok (Some o) -> cout c (p' ++ s) = Ok (Some o') -> Rabs (o - o') < eps.

Lemma Rabs_le_between x U : Rabs x <= U -> - U <= x <= U.
Proof. unfold Rabs. destruct (Rcase_abs x); lra. Qed.

Lemma bounded_app U a b : bounded U (a ++ b) <-> bounded U a /\ bounded U b.
Proof. apply Forall_app. Qed.

Lemma bounded_nonneg U x l : bounded U (x :: l) -> 0 <= U.
Proof. intros H. inversion H; subst. pose proof (Rabs_pos x). lra. Qed.

Lemma bounded_nth U l i : 0 <= U -> bounded U l -> Rabs (nth i l 0) <= U.
Proof.
  intros HU H. destruct (Nat.lt_ge_cases i (length l)) as [Hi|Hi].
  - unfold bounded in H. rewrite Forall_forall in H. apply H. apply nth_In. exact Hi.
  - rewrite nth_overflow by exact Hi. rewrite Rabs_R0. exact HU.
Qed.

Lemma bounded_lagx U l t j : 0 <= U -> bounded U l -> Rabs (lagx l t j) <= U.
Proof.
  intros HU H. unfold lagx. destruct (Nat.ltb t j).
  - cbn [s0 ROps]. rewrite Rabs_R0. exact HU.
  - apply bounded_nth; assumption.
Qed.

Lemma bounded_repeat U c k : Rabs c <= U -> bounded U (repeat c k).
Proof. intros H. induction k; constructor; assumption. Qed.

Lemma bounded_mono U V l : U <= V -> bounded U l -> bounded V l.
Proof. intros H. apply Forall_impl. intros x Hx. lra. Qed.

(** * differences of histories *)
Lemma lcomb_app a b (xs ys s t : list R) : length xs = length ys ->
  lcomb a b (xs ++ s) (ys ++ t) = lcomb a b xs ys ++ lcomb a b s t.
Proof.
  revert ys. induction xs as [|x xs IH]; intros [|y ys] H; try discriminate; [reflexivity|].
  cbn [app]. unfold lcomb in *. cbn [combine map]. rewrite IH by (cbn in H; lia). reflexivity.
Qed.

Lemma lcomb_self_zero (s : list R) : lcomb 1 (-1) s s = repeat 0 (length s).
Proof.
  induction s as [|x s IH]; [reflexivity|]. unfold lcomb in *. cbn [combine map length repeat fst snd].
  rewrite IH. f_equal. cbn [sadd smul ROps]. ring.
Qed.

Lemma bounded_diff U (p p' : list R) : length p = length p' -> bounded U p -> bounded U p' ->
  bounded (2 * U) (lcomb 1 (-1) p p').
Proof.
  revert p'. induction p as [|x p IH]; intros [|y p'] Hl Hp Hp'; try discriminate; [constructor|].
  inversion Hp; subst. inversion Hp'; subst. unfold lcomb. cbn [combine map fst snd].
  constructor; [|apply IH; (cbn in Hl; lia) || assumption].
  cbn [sadd smul ROps]. replace (1 * x + -1 * y) with (x - y) by ring.
  unfold Rminus. eapply Rle_trans; [apply Rabs_triang|]. rewrite Rabs_Ropp. lra.
Qed.

(** * linearity reduces fading memory to the zero-input response *)
Lemma linear_diff c p p' s o o' : core_linear c -> length p = length p' ->
  cout c (p ++ s) = Ok (Some o) -> cout c (p' ++ s) = Ok (Some o') ->
  cout c (lcomb 1 (-1) p p' ++ repeat 0 (length s)) = Ok (Some (o - o')).
Proof.
  intros Hlin Hl Ho Ho'.
  destruct (Hlin 1 (-1) (p ++ s) (p' ++ s)) as (ox & oy & Hx & Hy & Hxy).
  { rewrite !app_length, Hl. reflexivity. }
  rewrite Ho in Hx. rewrite Ho' in Hy. inversion Hx; subst ox. inversion Hy; subst oy.
  rewrite lcomb_app, lcomb_self_zero in Hxy by exact Hl. rewrite Hxy. cbn [olin sadd smul ROps].
  do 2 f_equal. ring.
Qed.

Theorem fading_of_zero_input c F : core_linear c -> zero_input_bound c F -> fading_bound c F.
Proof.
  intros Hlin Hz U p p' s o o' HU Hl Hp Hp' Ho Ho'.
  apply (Hz (2 * U) (lcomb 1 (-1) p p') (length s) (o - o')).
  - lra.
  - apply bounded_diff; assumption.
  - apply linear_diff; assumption.
Qed.

Theorem fading_eps_of_zero_input c : core_linear c -> zero_input_decays c -> fading_eps c.
Proof.
  intros Hlin Hz p p' Hl eps He. destruct (Hz (lcomb 1 (-1) p p') eps He) as [M HM].
  exists M. intros s Hs o o' Ho Ho'. apply (HM (length s) Hs). apply linear_diff; assumption.
Qed.

(** an explicit bound that tends to 0 gives the epsilon form *)
Lemma zero_input_decays_of_bound c F :
  zero_input_bound c F ->
  (forall V eps, 0 < eps -> exists M, forall k, (M <= k)%nat -> F V k < eps) ->
  forall d V, 0 <= V -> bounded V d -> forall eps, 0 < eps -> exists M, forall k, (M <= k)%nat ->
  forall o, cout c (d ++ repeat 0 k) = Ok (Some o) -> Rabs o < eps.
Proof.
  intros Hz HF d V HV Hd eps He. destruct (HF V eps He) as [M HM]. exists M. intros k Hk o Ho.
  eapply Rle_lt_trans; [apply (Hz V d k o HV Hd Ho)|]. apply HM. exact Hk.
Qed.

(** every history is bounded by something *)
Lemma bounded_exists (d : list R) : exists V, 0 <= V /\ bounded V d.
Proof.
  induction d as [|x d [V [HV Hd]]].
  - exists 0. split; [lra | constructor].
  - exists (V + Rabs x). pose proof (Rabs_pos x). split; [lra|]. constructor; [lra|].
    eapply bounded_mono; [|exact Hd]. lra.
Qed.

(** * powers *)
Lemma pow_pred_le q k : 0 <= q <= 1 -> q * q ^ (k - 1) <= q ^ k.
Proof.
  intros Hq. destruct k as [|k]; cbn [Nat.sub pow].
  - lra.
  - rewrite Nat.sub_0_r. lra.
Qed.

Lemma pow_le_1 q k : 0 <= q <= 1 -> 0 <= q ^ k <= 1.
Proof. intros Hq. split; [apply pow_le; lra|]. rewrite <- (pow1 k). apply pow_incr. lra. Qed.

Lemma pow_anti q j k : 0 <= q <= 1 -> (j <= k)%nat -> q ^ k <= q ^ j.
Proof.
  intros Hq H. replace k with (j + (k - j))%nat by lia. rewrite pow_add.
  pose proof (pow_le_1 q (k - j) Hq). pose proof (pow_le q j ltac:(lra)). nra.
Qed.

(** (A + k B) q^k -> 0 for 0 <= q < 1 (a solution of the double-pole recursion) *)
Lemma poly_geo_zero q A B : 0 <= q < 1 -> forall eps, 0 < eps ->
  exists M, forall k, (M <= k)%nat -> Rabs ((A + INR k * B) * q ^ k) < eps.
Proof.
  intros Hq eps He.
  apply (@double_pole_decay (fun k => (A + INR k * B) * q ^ k) q Hq); [|exact He].
  intros m. rewrite !S_INR. cbn [pow]. ring.
Qed.

(** ... and with the exponent k-1 *)
Lemma poly_geo_zero_pred q A B : 0 <= q < 1 -> 0 <= A -> 0 <= B -> forall eps, 0 < eps ->
  exists M, forall k, (M <= k)%nat -> (A + INR k * B) * q ^ (k - 1) < eps.
Proof.
  intros Hq HA HB eps He.
  destruct (@poly_geo_zero q (A + B) B Hq eps He) as [M HM]. exists (S M). intros k Hk.
  destruct k as [|k]; [lia|]. cbn [Nat.sub]. rewrite Nat.sub_0_r.
  pose proof (HM k ltac:(lia)) as H. rewrite S_INR.
  replace (A + (INR k + 1) * B) with (A + B + INR k * B) by ring.
  eapply Rle_lt_trans; [apply Rle_abs | exact H].
Qed.

(** C q^(k-j) -> 0 *)
Lemma geo_zero_shift q C j : 0 <= q < 1 -> forall eps, 0 < eps ->
  exists M, forall k, (M <= k)%nat -> C * q ^ (k - j) < eps.
Proof.
  intros Hq eps He.
  assert (Hq' : Rabs q < 1) by (rewrite Rabs_pos_eq; lra).
  assert (Hy : 0 < eps / (Rabs C + 1)) by (apply Rdiv_lt_0_compat; [lra | pose proof (Rabs_pos C); lra]).
  destruct (pow_lt_1_zero q Hq' _ Hy) as [M HM]. exists (M + j)%nat. intros k Hk.
  pose proof (HM (k - j)%nat ltac:(lia)) as H. rewrite Rabs_pos_eq in H by (apply pow_le; lra).
  pose proof (Rabs_pos C) as HC. pose proof (Rle_abs C) as HC'.
  assert (Hp : 0 <= q ^ (k - j)) by (apply pow_le; lra).
  apply (Rmult_lt_compat_r (Rabs C + 1)) in H; [|lra].
  replace (eps / (Rabs C + 1) * (Rabs C + 1)) with eps in H by (field; lra). nra.
Qed.

(** * a stable first-order comparison recursion driven by a decaying input decays *)
Lemma driven_decay (N w : nat -> R) a : 0 <= a < 1 ->
  (forall t, 0 <= N t) -> (forall t, N (S t) <= a * N t + w t) ->
  (forall eps, 0 < eps -> exists M, forall t, (M <= t)%nat -> w t < eps) ->
  forall eps, 0 < eps -> exists M, forall t, (M <= t)%nat -> N t < eps.
Proof.
  intros Ha HN Hrec Hw eps He.
  destruct (Hw (eps * (1 - a) / 2)) as [M1 HM1]; [nra|].
  assert (Hb : forall k, N (M1 + k)%nat <= a ^ k * N M1 + eps / 2).
  { induction k as [|k IH].
    - cbn [pow]. rewrite Nat.add_0_r. lra.
    - replace (M1 + S k)%nat with (S (M1 + k)) by lia.
      eapply Rle_trans; [apply Hrec|]. pose proof (HM1 (M1 + k)%nat ltac:(lia)) as Hwk.
      cbn [pow]. assert (a * N (M1 + k)%nat <= a * (a ^ k * N M1 + eps / 2)) by (apply Rmult_le_compat_l; lra).
      nra. }
  destruct (@geo_zero_shift a (N M1) 0 Ha (eps / 2)) as [M2 HM2]; [lra|].
  exists (M1 + M2)%nat. intros t Ht. replace t with (M1 + (t - M1))%nat by lia.
  eapply Rle_lt_trans; [apply Hb|]. pose proof (HM2 (t - M1)%nat ltac:(lia)) as H.
  rewrite Nat.sub_0_r in H. lra.
Qed.

(** * the Euclidean norm of the quadratic form V(y1,y0) = (y1 - c y0)^2 + d^2 y0^2 *)
Definition Vq (c d y1 y0 : R) : R := (y1 - c * y0) * (y1 - c * y0) + d * d * y0 * y0.

Lemma Vq_nonneg c d y1 y0 : 0 <= Vq c d y1 y0.
Proof.
  unfold Vq. pose proof (Rle_0_sqr (y1 - c * y0)) as H1. pose proof (Rle_0_sqr (d * y0)) as H2.
  unfold Rsqr in *. nra.
Qed.

Lemma mink2 p q r s :
  sqrt ((p + r) * (p + r) + (q + s) * (q + s)) <= sqrt (p * p + q * q) + sqrt (r * r + s * s).
Proof.
  assert (HA : 0 <= p * p + q * q) by nra. assert (HB : 0 <= r * r + s * s) by nra.
  apply Rsqr_incr_0_var;
    [|pose proof (sqrt_pos (p * p + q * q)); pose proof (sqrt_pos (r * r + s * s)); lra].
  unfold Rsqr. rewrite sqrt_sqrt
    by (pose proof (Rle_0_sqr (p + r)) as X1; pose proof (Rle_0_sqr (q + s)) as X2; unfold Rsqr in *; lra).
  pose proof (sqrt_sqrt _ HA) as Ha. pose proof (sqrt_sqrt _ HB) as Hb.
  pose proof (sqrt_pos (p * p + q * q)) as Pa. pose proof (sqrt_pos (r * r + s * s)) as Pb.
  set (A := sqrt (p * p + q * q)) in *. set (B := sqrt (r * r + s * s)) in *. clearbody A B.
  assert (Hcs : (p * r + q * s) * (p * r + q * s) <= (A * B) * (A * B)).
  { replace ((A * B) * (A * B)) with ((A * A) * (B * B)) by ring. rewrite Ha, Hb.
    pose proof (Rle_0_sqr (p * s - q * r)) as Hsq; unfold Rsqr in Hsq. nra. }
  assert (p * r + q * s <= A * B).
  { destruct (Rle_dec (p * r + q * s) 0); [nra|]. apply Rsqr_incr_0_var; [unfold Rsqr; lra | nra]. }
  nra.
Qed.

Lemma Vq_tri c d a1 a0 b1 b0 :
  sqrt (Vq c d (a1 + b1) (a0 + b0)) <= sqrt (Vq c d a1 a0) + sqrt (Vq c d b1 b0).
Proof.
  unfold Vq. pose proof (mink2 (a1 - c * a0) (d * a0) (b1 - c * b0) (d * b0)) as H.
  replace ((a1 + b1 - c * (a0 + b0)) * (a1 + b1 - c * (a0 + b0)) + d * d * (a0 + b0) * (a0 + b0))
    with ((a1 - c * a0 + (b1 - c * b0)) * (a1 - c * a0 + (b1 - c * b0)) + (d * a0 + d * b0) * (d * a0 + d * b0)) by ring.
  replace (d * d * a0 * a0) with (d * a0 * (d * a0)) by ring.
  replace (d * d * b0 * b0) with (d * b0 * (d * b0)) by ring. exact H.
Qed.

Lemma Vq_unit c d u : sqrt (Vq c d u 0) = Rabs u.
Proof.
  unfold Vq. replace ((u - c * 0) * (u - c * 0) + d * d * 0 * 0) with (Rsqr u) by (unfold Rsqr; ring).
  apply sqrt_Rsqr_abs.
Qed.

Lemma Vq_scale c d a y1 y0 : 0 <= a -> sqrt (a * a * Vq c d y1 y0) = a * sqrt (Vq c d y1 y0).
Proof.
  intros Ha. rewrite sqrt_mult; [|nra|apply Vq_nonneg]. rewrite sqrt_square by exact Ha. reflexivity.
Qed.

(** |y1| <= sqrt V / |S| when the form is a^2 S^2-definite in the first coordinate *)
Lemma Vq_first a C Sv y1 y0 : C * C + Sv * Sv = 1 ->
  Rabs Sv * Rabs y1 <= sqrt (Vq (a * C) (a * Sv) y1 y0).
Proof.
  intros H. rewrite <- Rabs_mult. rewrite <- sqrt_Rsqr_abs. apply sqrt_le_1_alt.
  unfold Vq, Rsqr. pose proof (Rle_0_sqr (a * y0 - C * y1)) as Hs. unfold Rsqr in Hs.
  replace ((y1 - a * C * y0) * (y1 - a * C * y0) + a * Sv * (a * Sv) * y0 * y0)
    with (Sv * y1 * (Sv * y1) + (a * y0 - C * y1) * (a * y0 - C * y1)).
  - lra.
  - replace (Sv * y1 * (Sv * y1)) with ((Sv * Sv) * (y1 * y1)) by ring.
    replace (a * Sv * (a * Sv) * y0 * y0) with ((Sv * Sv) * (a * a * y0 * y0)) by ring.
    replace (Sv * Sv) with (1 - C * C) by lra. ring.
Qed.

(** (2k+1)^j q^k -> 0 for every degree j (0 <= q < 1): split q^k = (sqrt q)^k (sqrt q)^k *)
Lemma polyj_geo_zero j : forall q, 0 <= q < 1 -> forall eps, 0 < eps ->
  exists M, forall k, (M <= k)%nat -> (2 * INR k + 1) ^ j * q ^ k < eps.
Proof.
  induction j as [|j IH]; intros q Hq eps He.
  - destruct (@geo_zero_shift q 1 0 Hq eps He) as [M HM]. exists M. intros k Hk.
    pose proof (HM k Hk) as H. rewrite Nat.sub_0_r in H. cbn [pow]. lra.
  - set (s := sqrt q).
    assert (Hs : 0 <= s < 1).
    { split; [apply sqrt_pos|]. unfold s. rewrite <- sqrt_1. apply sqrt_lt_1_alt. lra. }
    assert (Hss : s * s = q) by (apply sqrt_sqrt; lra).
    destruct (IH s Hs eps He) as [M1 HM1].
    destruct (@poly_geo_zero s 1 2 Hs 1 ltac:(lra)) as [M2 HM2].
    exists (Nat.max M1 M2). intros k Hk.
    pose proof (HM1 k ltac:(lia)) as H1. pose proof (HM2 k ltac:(lia)) as H2.
    apply Rabs_def2 in H2. destruct H2 as [H2 _].
    assert (Hm : 1 <= 2 * INR k + 1) by (pose proof (pos_INR k); lra).
    assert (Hp : 0 <= s ^ k) by (apply pow_le; lra).
    assert (Hj : 0 <= (2 * INR k + 1) ^ j) by (apply pow_le; lra).
    rewrite <- Hss, Rpow_mult_distr. cbn [pow].
    set (a := (2 * INR k + 1) ^ j * s ^ k) in *. set (b := (1 + INR k * 2) * s ^ k) in *.
    replace ((2 * INR k + 1) * (2 * INR k + 1) ^ j * (s ^ k * s ^ k)) with (a * b) by (unfold a, b; ring).
    assert (Ha : 0 <= a) by (unfold a; apply Rmult_le_pos; assumption).
    assert (Hb : 0 <= b) by (unfold b; apply Rmult_le_pos; [lra | assumption]).
    clearbody a b. nra.
Qed.
