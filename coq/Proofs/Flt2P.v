(** C16 / C13 (f64 clauses), second part: the standard model of floating-point arithmetic extended to
    multiplication and division, with an ABSOLUTE underflow term:

        fl(a + b) = (a + b)(1 + d)                      |d| <= u           (no underflow term needed)
        fl(a - b) = (a - b)(1 + d)
        fl(a * b) = (a * b)(1 + d) + e                  |d| <= u, |e| <= eta
        fl(a / b) = (a / b)(1 + d) + e

    ([eta = 0] is the textbook standard model; for binary64 [u = 2^-53], [eta = 2^-1075] and the
    hypotheses hold WITHOUT any no-underflow side condition, see Flt2B64.v.)  The model of every view
    is instantiated at the reals with these rounded operations ([FlOps2]) and compared with the same
    model at the exact reals ([ROps]).  Results (inputs x_i in the format with |x_i| <= M):

    - Ema (default alpha, window n >= 1, w = 2/(n+1)):   |ema_fl(t) - ema_exact(t)| <= (12 u M + 3 eta) / w
      for EVERY stream length t (the bound does not depend on t), provided 64 u <= w and eta <= u w.
    - WelfordRolling mean:  |mean_fl(t) - mean_exact(t)| <= (t + 10) u M + t (1+u) eta  while (t+4) u <= 1/4;
      the linear growth in t is attained in the standard model ([wr_mean_linear_growth]).
    - Min, Max, GTE, LTE perform no arithmetic: rounded model = exact model (0 ulps). *)
From Coq Require Import List Arith Lia Reals Lra ZArith.
From SF Require Import Res Scalar View Models Spec Core SpecAvg SpecRoll.
From SF.Proofs Require Import Window RBase WinAP AvgP RollP FltErr.
Import ListNotations.
Open Scope R_scope.

(** * Real-number helpers *)
Lemma Rabs_mul_le a b A B : Rabs a <= A -> Rabs b <= B -> Rabs (a * b) <= A * B.
Proof.
  intros Ha Hb. rewrite Rabs_mult. pose proof (Rabs_pos a). pose proof (Rabs_pos b).
  apply Rmult_le_compat; assumption.
Qed.

Lemma Rabs_triang3 a b c : Rabs (a + b + c) <= Rabs a + Rabs b + Rabs c.
Proof. pose proof (Rabs_triang (a + b) c). pose proof (Rabs_triang a b). lra. Qed.

Lemma Rabs_triang5 a b c d e : Rabs (a + b + c + d + e) <= Rabs a + Rabs b + Rabs c + Rabs d + Rabs e.
Proof.
  pose proof (Rabs_triang (a + b + c + d) e). pose proof (Rabs_triang (a + b + c) d).
  pose proof (Rabs_triang3 a b c). lra.
Qed.

(** (1+d1)(1+d2) - 1 and (1+d1)(1+d2)(1+d3) - 1 for a small unit roundoff, with explicit constants *)
Lemma two_d_small d1 d2 u : 0 <= u -> 64 * u <= 1 -> Rabs d1 <= u -> Rabs d2 <= u ->
  Rabs ((1 + d1) * (1 + d2) - 1) <= 33 / 16 * u.
Proof.
  intros Hu Hs H1 H2. apply Rabs_le_inv' in H1. apply Rabs_le_inv' in H2. apply Rabs_le'. nra.
Qed.

Lemma three_d_bound d1 d2 d3 u : 0 <= u -> Rabs d1 <= u -> Rabs d2 <= u -> Rabs d3 <= u ->
  Rabs ((1 + d1) * (1 + d2) * (1 + d3) - 1) <= (1 + u) ^ 3 - 1.
Proof.
  intros Hu H1 H2 H3.
  replace ((1 + d1) * (1 + d2) * (1 + d3) - 1)
    with (d1 + d2 + d3 + d1 * d2 + d1 * d3 + d2 * d3 + d1 * d2 * d3) by ring.
  replace ((1 + u) ^ 3 - 1) with (u + u + u + u * u + u * u + u * u + u * u * u) by ring.
  pose proof (Rabs_mul_le d1 d2 u u H1 H2) as H12.
  pose proof (Rabs_mul_le d1 d3 u u H1 H3) as H13.
  pose proof (Rabs_mul_le d2 d3 u u H2 H3) as H23.
  pose proof (Rabs_mul_le (d1 * d2) d3 (u * u) u H12 H3) as H123.
  pose proof (Rabs_triang (d1 + d2 + d3 + d1 * d2 + d1 * d3 + d2 * d3) (d1 * d2 * d3)).
  pose proof (Rabs_triang (d1 + d2 + d3 + d1 * d2 + d1 * d3) (d2 * d3)).
  pose proof (Rabs_triang5 d1 d2 d3 (d1 * d2) (d1 * d3)). lra.
Qed.

Lemma cube_small u : 0 <= u -> 20 * u <= 1 -> (1 + u) ^ 3 - 1 <= 51 / 16 * u.
Proof. intros Hu Hs. nra. Qed.
Lemma cube_small64 u : 0 <= u -> 64 * u <= 1 -> (1 + u) ^ 3 - 1 <= 49 / 16 * u.
Proof. intros Hu Hs. nra. Qed.

(** * The standard model with multiplication and division *)
Section StdModel2.
Variables u eta : R.
Variables fadd fsub fmul fdiv : R -> R -> R.
Variable F : R -> Prop.                       (* "is a floating-point number" *)
Hypothesis u_nonneg : 0 <= u.
Hypothesis eta_nonneg : 0 <= eta.
Hypothesis F0 : F 0.
Hypothesis F1 : F 1.
Hypothesis F2 : F 2.
Hypothesis fadd_ok : forall a b, F a -> F b ->
  F (fadd a b) /\ exists d, Rabs d <= u /\ fadd a b = (a + b) * (1 + d).
Hypothesis fsub_ok : forall a b, F a -> F b ->
  F (fsub a b) /\ exists d, Rabs d <= u /\ fsub a b = (a - b) * (1 + d).
Hypothesis fmul_ok : forall a b, F a -> F b ->
  F (fmul a b) /\ exists d e, Rabs d <= u /\ Rabs e <= eta /\ fmul a b = a * b * (1 + d) + e.
Hypothesis fdiv_ok : forall a b, F a -> F b -> b <> 0 ->
  F (fdiv a b) /\ exists d e, Rabs d <= u /\ Rabs e <= eta /\ fdiv a b = a / b * (1 + d) + e.

(** the reals with rounded + - * / (with [fmul := Rmult] this is [FltErr.FlOps fadd fsub fdiv]) *)
Definition FlOps2 : Ops R := {|
  s0 := 0; s1 := 1;
  sadd := fadd; ssub := fsub; smul := fmul; sneg := Ropp; sabs := Rabs;
  sdiv := fun a b => if Req_EM_T b 0 then Err NonFinite else Ok (fdiv a b);
  sltb := Rltb; sleb := Rleb; seqb := Reqb;
  sofnat := INR;
  sofdec := fun m k => IZR m / IZR (10 ^ Z.of_nat k);
  ssqrt := fun x => if Rlt_dec x 0 then Err Domain else Ok (sqrt x);
  sexp := fun x => Ok (exp x);
  sln := fun x => if Rle_dec x 0 then Err Domain else Ok (ln x);
  scos := fun x => Ok (cos x);
  ssin := fun x => Ok (sin x);
  stanh := fun x => Ok (tanh x);
  slog2 := fun x => if Rle_dec x 0 then Err Domain else Ok (ln x / ln 2);
|}.

Variable M : R.
Hypothesis M_nonneg : 0 <= M.

(** admissible inputs: floating-point numbers of magnitude at most [M] *)
Definition DinM (x : R) : Prop := F x /\ Rabs x <= M.

Lemma two_fl : @sofdec R FlOps2 2 0 = 2.
Proof. cbn [sofdec FlOps2]. cbn. lra. Qed.

(* ------------------------------------------------------------------------------------------ *)
(** * 1. Ema *)

(** the exact weight, and the weight the rounded model computes: fl(2 / fl(1 + n)) *)
Definition ema_wex (n : nat) : R := 2 / (1 + INR n).
Definition ema_wsum (n : nat) : R := fadd 1 (INR n).
Definition ema_wfl (n : nat) : R := fdiv 2 (ema_wsum n).

Lemma ema_wex_range n : (1 <= n)%nat -> 0 < ema_wex n <= 1.
Proof.
  intros Hn. unfold ema_wex. apply le_INR in Hn. cbn in Hn.
  assert (Hd : 0 < 1 + INR n) by lra. split.
  - apply Rdiv_lt_0_compat; lra.
  - apply Rmult_le_reg_r with (1 + INR n); [exact Hd|]. unfold Rdiv. rewrite Rmult_assoc, Rinv_l by lra. lra.
Qed.

(** the rounded weight: relative error 3u plus the underflow term of the division *)
Lemma ema_wfl_err n : (1 <= n)%nat -> F (INR n) -> 4 * u <= 1 ->
  ema_wsum n <> 0 /\ F (ema_wfl n) /\ Rabs (ema_wfl n - ema_wex n) <= 3 * u * ema_wex n + eta.
Proof.
  intros Hn Fn Hs. pose proof (ema_wex_range n Hn) as Hw.
  destruct (fadd_ok 1 (INR n) F1 Fn) as [Fs [d1 [Hd1 E1]]]. fold (ema_wsum n) in Fs, E1.
  pose proof (pos_INR n) as Hp.
  pose proof (Rabs_le_inv' _ _ Hd1) as Hd1'.
  assert (Hne : ema_wsum n <> 0).
  { rewrite E1. apply Rmult_integral_contrapositive. split; lra. }
  destruct (fdiv_ok 2 (ema_wsum n) F2 Fs Hne) as [Fw [d2 [e2 [Hd2 [He2 E2]]]]]. fold (ema_wfl n) in Fw, E2.
  split; [exact Hne|]. split; [exact Fw|].
  pose proof (Rabs_le_inv' _ _ Hd2) as Hd2'.
  set (q := (d2 - d1) / (1 + d1)).
  assert (Eq : ema_wfl n - ema_wex n = ema_wex n * q + e2).
  { rewrite E2, E1. unfold ema_wex, q. field. split; lra. }
  assert (Hq : Rabs q <= 3 * u).
  { unfold q, Rdiv. rewrite Rabs_mult, Rabs_inv, (Rabs_right (1 + d1)) by lra.
    assert (H1 : Rabs (d2 - d1) <= 2 * u) by (apply Rabs_le'; lra).
    assert (H2 : / (1 + d1) <= 4 / 3).
    { replace (4 / 3) with (/ (3 / 4)) by field. apply Rinv_le_contravar; lra. }
    assert (H3 : 0 < / (1 + d1)) by (apply Rinv_0_lt_compat; lra).
    pose proof (Rabs_pos (d2 - d1)). nra. }
  rewrite Eq.
  pose proof (Rabs_triang (ema_wex n * q) e2) as T.
  pose proof (Rabs_mul_le (ema_wex n) q (ema_wex n) (3 * u)) as P.
  rewrite (Rabs_right (ema_wex n)) in P by lra. specialize (P (Rle_refl _) Hq). lra.
Qed.

(** the budget of one Ema step: contraction (1-w) of the old error + the new local errors <= E *)
Lemma ema_budget w E : 0 < w <= 1 -> 64 * u <= w -> 0 <= E -> 12 * u * M + 3 * eta <= w * E ->
  (1 - w) * E + (2 * M + E) * (4 * u * w) + M * (w * (17 / 16)) * (33 / 16 * u)
  + (M + E) * (1 - w + 4 * u * w) * (49 / 16 * u) + 65 / 32 * eta <= E.
Proof.
  intros Hw Hs HE Hb.
  assert (Ha : 0 <= u * M) by (apply Rmult_le_pos; assumption).
  assert (Hb1 : 64 * (u * E) <= w * E) by nra.
  assert (Hb0 : 0 <= u * E) by (apply Rmult_le_pos; assumption).
  assert (Hwa : w * (u * M) <= u * M) by nra.
  assert (Hwa0 : 0 <= w * (u * M)) by (apply Rmult_le_pos; lra).
  assert (Hwb : w * (u * E) <= u * E) by nra.
  assert (Hwb0 : 0 <= w * (u * E)) by (apply Rmult_le_pos; lra).
  assert (Huwa : 64 * (u * (w * (u * M))) <= w * (u * M)) by nra.
  assert (Huwa0 : 0 <= u * (w * (u * M))) by (apply Rmult_le_pos; lra).
  assert (Huwb : 64 * (u * (w * (u * E))) <= w * (u * E)) by nra.
  assert (Huwb0 : 0 <= u * (w * (u * E))) by (apply Rmult_le_pos; lra).
  nra.
Qed.

Lemma ema_one_step w wt E v f' x' d1 d2 d3 d4 e1 e3 :
  0 < w <= 1 -> 64 * u <= w -> 0 <= E -> 12 * u * M + 3 * eta <= w * E ->
  Rabs (wt - w) <= 4 * u * w ->
  Rabs v <= M -> Rabs x' <= M -> Rabs (f' - x') <= E ->
  Rabs d1 <= u -> Rabs d2 <= u -> Rabs d3 <= u -> Rabs d4 <= u -> Rabs e1 <= eta -> Rabs e3 <= eta ->
  Rabs (((v * wt * (1 + d1) + e1) + (f' * ((1 - wt) * (1 + d2)) * (1 + d3) + e3)) * (1 + d4)
        - (v * w + x' * (1 - w))) <= E.
Proof.
  intros Hw Hs HE Hb Hwt Hv Hx Hf Hd1 Hd2 Hd3 Hd4 He1 He3.
  assert (Hu64 : 64 * u <= 1) by lra.
  replace (((v * wt * (1 + d1) + e1) + (f' * ((1 - wt) * (1 + d2)) * (1 + d3) + e3)) * (1 + d4)
           - (v * w + x' * (1 - w)))
    with ((1 - w) * (f' - x') + (v - f') * (wt - w) + v * wt * ((1 + d1) * (1 + d4) - 1)
          + f' * (1 - wt) * ((1 + d2) * (1 + d3) * (1 + d4) - 1) + (e1 + e3) * (1 + d4)) by ring.
  eapply Rle_trans; [apply Rabs_triang5|].
  eapply Rle_trans; [|apply (ema_budget w E Hw Hs HE Hb)].
  assert (Hf' : Rabs f' <= M + E).
  { replace f' with (x' + (f' - x')) by ring. pose proof (Rabs_triang x' (f' - x')). lra. }
  assert (Hvf : Rabs (v - f') <= 2 * M + E).
  { unfold Rminus. pose proof (Rabs_triang v (- f')). rewrite Rabs_Ropp in *. lra. }
  assert (Hwt1 : Rabs wt <= w * (17 / 16)).
  { replace wt with (w + (wt - w)) by ring. pose proof (Rabs_triang w (wt - w)).
    rewrite (Rabs_right w) in * by lra. nra. }
  assert (Hwt2 : Rabs (1 - wt) <= 1 - w + 4 * u * w).
  { replace (1 - wt) with ((1 - w) + - (wt - w)) by ring. pose proof (Rabs_triang (1 - w) (- (wt - w))).
    rewrite Rabs_Ropp in *. rewrite (Rabs_right (1 - w)) in * by lra. lra. }
  assert (Hc1 : Rabs ((1 + d1) * (1 + d4) - 1) <= 33 / 16 * u) by (apply two_d_small; assumption).
  assert (Hc2 : Rabs ((1 + d2) * (1 + d3) * (1 + d4) - 1) <= 49 / 16 * u).
  { eapply Rle_trans; [apply (three_d_bound d2 d3 d4 u); assumption|]. apply cube_small64; assumption. }
  assert (T1 : Rabs ((1 - w) * (f' - x')) <= (1 - w) * E).
  { rewrite Rabs_mult, (Rabs_right (1 - w)) by lra. apply Rmult_le_compat_l; [lra | exact Hf]. }
  assert (T2 : Rabs ((v - f') * (wt - w)) <= (2 * M + E) * (4 * u * w)) by (apply Rabs_mul_le; assumption).
  assert (T3 : Rabs (v * wt * ((1 + d1) * (1 + d4) - 1)) <= M * (w * (17 / 16)) * (33 / 16 * u)).
  { apply Rabs_mul_le; [apply Rabs_mul_le|]; assumption. }
  assert (T4 : Rabs (f' * (1 - wt) * ((1 + d2) * (1 + d3) * (1 + d4) - 1))
               <= (M + E) * (1 - w + 4 * u * w) * (49 / 16 * u)).
  { apply Rabs_mul_le; [apply Rabs_mul_le|]; assumption. }
  assert (T5 : Rabs ((e1 + e3) * (1 + d4)) <= 65 / 32 * eta).
  { pose proof (Rabs_triang e1 e3). pose proof (Rabs_triang 1 d4). rewrite Rabs_R1 in *.
    pose proof (Rabs_mul_le (e1 + e3) (1 + d4) (2 * eta) (1 + u)) as P.
    eapply Rle_trans; [apply P; lra|]. nra. }
  lra.
Qed.

Section Ema.
Variable n : nat.
Hypothesis n_pos : (1 <= n)%nat.
Let w := ema_wex n.
Let wt := ema_wfl n.
Variable E : R.
Hypothesis small : 64 * u <= w.
Hypothesis E_nonneg : 0 <= E.
Hypothesis E_budget : 12 * u * M + 3 * eta <= w * E.
Hypothesis wsum_ne : ema_wsum n <> 0.
Hypothesis wt_F : F wt.
Hypothesis wt_err : Rabs (wt - w) <= 4 * u * w.

Definition ema_fl_inv (h : list R) (s : @ema_st R) : Prop :=
  ema_n s = length h /\ ema_out s = ema_last s /\
  (h <> [] -> F (ema_last s) /\ Rabs (ema_last s - ema_valT w h) <= E).

Lemma ema_valT_bound h : h <> [] -> Forall DinM h -> Rabs (ema_valT w h) <= M.
Proof.
  intros Hne Hh. pose proof (ema_wex_range n n_pos) as Hw. fold w in Hw.
  destruct h as [|x0 r]; [congruence|]. unfold ema_valT, ema_val. inversion Hh as [|? ? [_ Hx] Hr]; subst.
  apply Rabs_le'. apply (ema_fold_hull w (- M) M r); [lra | |].
  - unfold between. apply Rabs_le_inv'. exact Hx.
  - revert Hr. apply Forall_impl. intros y [_ Hy]. unfold between. apply Rabs_le_inv'. exact Hy.
Qed.

Lemma ema_fl_step h s v : Forall DinM h -> DinM v -> ema_fl_inv h s ->
  exists s', @ema_step R FlOps2 n 2 s v = Ok s' /\ ema_fl_inv (h ++ [v]) s'.
Proof.
  intros Hh [Fv Hv] [Hn [Ho Hi]].
  pose proof (ema_wex_range n n_pos) as Hw. fold w in Hw.
  unfold ema_step. cbn [s1 sadd sofnat sdiv FlOps2]. fold (ema_wsum n).
  destruct (Req_EM_T (ema_wsum n) 0) as [Hz|_]; [contradiction|]. cbn [bind].
  fold (ema_wfl n). fold wt. rewrite Hn.
  destruct h as [|x0 r].
  - cbn [length Nat.eqb]. eexists; split; [reflexivity|]. unfold ema_fl_inv. cbn [ema_n ema_last ema_out app length].
    split; [reflexivity|]. split; [reflexivity|]. intros _. split; [exact Fv|].
    unfold ema_valT, ema_val. cbn [fold_left]. rewrite Rminus_diag_eq by reflexivity. rewrite Rabs_R0. exact E_nonneg.
  - cbn [length Nat.eqb]. eexists; split; [reflexivity|].
    destruct (Hi ltac:(discriminate)) as [Fl Hl].
    unfold ema_fl_inv. cbn [ema_n ema_last ema_out smul ssub sadd s1 FlOps2].
    split; [rewrite !app_length; cbn [length]; lia|]. split; [reflexivity|]. intros _.
    set (f' := ema_last s) in *.
    destruct (fmul_ok v wt Fv wt_F) as [Fp1 [d1 [e1 [Hd1 [He1 E1]]]]].
    destruct (fsub_ok 1 wt F1 wt_F) as [Fc [d2 [Hd2 E2]]].
    destruct (fmul_ok f' (fsub 1 wt) Fl Fc) as [Fp2 [d3 [e3 [Hd3 [He3 E3]]]]].
    destruct (fadd_ok (fmul v wt) (fmul f' (fsub 1 wt)) Fp1 Fp2) as [Fo [d4 [Hd4 E4]]].
    split; [exact Fo|].
    unfold ema_valT at 1. rewrite ema_val_snoc.
    rewrite E4, E3, E2, E1.
    apply ema_one_step; try assumption.
    apply ema_valT_bound; [discriminate | exact Hh].
Qed.

Lemma ema_fl_run vs : Forall DinM vs ->
  exists s, crun (@ema_core_alpha R FlOps2 n 2) vs = Ok s /\ ema_fl_inv vs s.
Proof.
  intros Hvs.
  apply (@crun_inv R (@ema_core_alpha R FlOps2 n 2) DinM ema_fl_inv {| ema_last := 0; ema_out := 0; ema_n := 0 |}).
  - reflexivity.
  - split; [reflexivity|]. split; [reflexivity|]. intros H; congruence.
  - intros h s v Hh Hv Hi. apply ema_fl_step; assumption.
  - exact Hvs.
Qed.
End Ema.

(** Ema, general form: any bound [E] with  12 u M + 3 eta <= w E  is kept for ever, given that the
    ROUNDED weight [wt = fl(2/fl(1+n))] is in the format and within 4 u w of the EXACT weight [w = 2/(1+n)].
    [o_fl]: output of the model with rounded operations; [o_ex]: output of the model at the exact reals. *)
Theorem ema_drift_gen n vs E : (1 <= n)%nat -> (n <= length vs)%nat -> Forall DinM vs ->
  64 * u <= ema_wex n -> 0 <= E -> 12 * u * M + 3 * eta <= ema_wex n * E ->
  ema_wsum n <> 0 -> F (ema_wfl n) -> Rabs (ema_wfl n - ema_wex n) <= 4 * u * ema_wex n ->
  exists o_fl o_ex,
    cout (@ema_core R FlOps2 n) vs = Ok (Some o_fl) /\
    cout (@ema_core R ROps n) vs = Ok (Some o_ex) /\
    Rabs (o_fl - o_ex) <= E.
Proof.
  intros Hn Hl Hvs Hs HE Hb Hne Fw Hw.
  destruct (ema_fl_run n Hn E Hs HE Hb Hne Fw Hw vs Hvs) as [s [Hr [Hk [Ho Hi]]]].
  assert (Hnil : vs <> []) by (intros ->; cbn in Hl; lia).
  destruct (Hi Hnil) as [_ Herr].
  exists (ema_out s), (ema_valT (ema_wex n) vs). split; [|split].
  - unfold cout, ema_core. rewrite two_fl, Hr. cbn [bind clast ema_core_alpha]. rewrite Hk.
    destruct (Nat.ltb_spec (length vs) n) as [H|H]; [lia | reflexivity].
  - rewrite ema_default_closed_form by (left; exact Hn). unfold spec_ema.
    destruct (Nat.ltb_spec (length vs) n) as [H|H]; [lia|].
    rewrite ema_weight_R. fold (ema_wex n). unfold ema_valT.
    destruct vs as [|x0 r]; [congruence | reflexivity].
  - rewrite Ho. exact Herr.
Qed.

(** Ema, main theorem: the distance between the rounded and the exact output is at most
    (12 u M + 3 eta) / w = (6 u M + 1.5 eta)(n + 1), whatever the length of the stream. *)
Theorem ema_drift n vs : (1 <= n)%nat -> (n <= length vs)%nat -> Forall DinM vs -> F (INR n) ->
  64 * u <= ema_wex n -> eta <= u * ema_wex n ->
  exists o_fl o_ex,
    cout (@ema_core R FlOps2 n) vs = Ok (Some o_fl) /\
    cout (@ema_core R ROps n) vs = Ok (Some o_ex) /\
    Rabs (o_fl - o_ex) <= (12 * u * M + 3 * eta) / ema_wex n.
Proof.
  intros Hn Hl Hvs Fn Hs Heta. pose proof (ema_wex_range n Hn) as Hw.
  destruct (ema_wfl_err n Hn Fn ltac:(lra)) as [Hne [Fw Herr]].
  apply ema_drift_gen; try assumption.
  - apply Rmult_le_pos; [|apply Rlt_le, Rinv_0_lt_compat; lra].
    assert (0 <= u * M) by (apply Rmult_le_pos; assumption). lra.
  - apply Req_le. field. lra.
  - lra.
Qed.

(* ------------------------------------------------------------------------------------------ *)
(** * 2. WelfordRolling: the running mean  m_t = fl(m_(t-1) + fl(fl(v - m_(t-1)) / t)) *)

(** the exact mean of a bounded history is bounded, and its one-step recurrence *)
Lemma Rmean_bound h : Forall DinM h -> Rabs (Rmean h) <= M.
Proof.
  intros Hh. destruct h as [|x r].
  - unfold smean. cbn [length]. rewrite ssum_R_nil. cbn [sofnat ROps INR]. rewrite sdivd_R_0, Rabs_R0. exact M_nonneg.
  - assert (HN : 0 < INR (length (x :: r))) by (apply lt_0_INR; cbn; lia).
    pose proof (Rmean_mul (x :: r)) as Hmu.
    assert (Hs : Rabs (Rsum (x :: r)) <= INR (length (x :: r)) * M).
    { apply ssum_abs_le. revert Hh. apply Forall_impl. intros y [_ Hy]; exact Hy. }
    rewrite <- Hmu, Rabs_mult, (Rabs_right (INR (length (x :: r)))) in Hs by lra.
    apply Rmult_le_reg_l with (INR (length (x :: r))); assumption.
Qed.

Lemma Rmean_snoc h v : Rmean (h ++ [v]) = Rmean h + (v - Rmean h) / INR (S (length h)).
Proof.
  assert (HN : INR (S (length h)) <> 0) by (apply INR_pos_neq; lia).
  pose proof (Rmean_mul h) as Hmu. pose proof (Rmean_mul (h ++ [v])) as Hmu'.
  rewrite ssum_R_app in Hmu'. rewrite app_length in Hmu'. cbn [length] in Hmu'.
  replace (length h + 1)%nat with (S (length h)) in Hmu' by lia.
  rewrite S_INR in *. set (N := INR (length h)) in *. set (m := Rmean h) in *.
  set (m' := Rmean (h ++ [v])) in *. clearbody N m m'.
  apply Rmult_eq_reg_l with (N + 1); [|exact HN]. rewrite Hmu', <- Hmu. field. exact HN.
Qed.

(** per-step quantities: [wr_P] is the absolute error committed by one update on a mean of size M *)
Definition wr_g3 : R := (1 + u) ^ 3 - 1.
Definition wr_alpha : R := 3 * M * wr_g3.
Definition wr_P : R := M * u + eta * (1 + u).

Lemma wr_g3_nonneg : 0 <= wr_g3.
Proof. unfold wr_g3. pose proof (pow_R1_Rle (1 + u) 3). lra. Qed.
Lemma wr_alpha_nonneg : 0 <= wr_alpha.
Proof. unfold wr_alpha. pose proof wr_g3_nonneg. apply Rmult_le_pos; [apply Rmult_le_pos; lra | assumption]. Qed.
Lemma wr_P_nonneg : 0 <= wr_P.
Proof. unfold wr_P. apply Rplus_le_le_0_compat; apply Rmult_le_pos; lra. Qed.

Lemma wr_budget N A' : 1 <= N -> wr_g3 + N * u <= 1 / 4 -> A' = wr_alpha + (N - 1) * wr_P ->
  A' * (1 - / N) + (2 * M + A') * wr_g3 * / N + (M + A') * u + eta * (1 + u) <= wr_alpha + N * wr_P.
Proof.
  intros HN Hth EA.
  pose proof wr_g3_nonneg as Hg. pose proof wr_alpha_nonneg as Ha. pose proof wr_P_nonneg as HP.
  assert (key : A' * (N - 1) + (2 * M + A') * wr_g3 + N * ((M + A') * u + eta * (1 + u))
                <= N * (wr_alpha + N * wr_P)).
  { assert (E1 : A' * (N - 1) + (2 * M + A') * wr_g3 + N * ((M + A') * u + eta * (1 + u))
                 = A' * (N - 1 + (wr_g3 + N * u)) + 2 * M * wr_g3 + N * wr_P) by (unfold wr_P; ring).
    rewrite E1. set (th := wr_g3 + N * u) in *. subst A'.
    assert (H1 : 0 <= (1 / 4 - th) * wr_alpha) by (apply Rmult_le_pos; lra).
    assert (H2 : 0 <= (1 - th) * ((N - 1) * wr_P)).
    { apply Rmult_le_pos; [lra|]. apply Rmult_le_pos; lra. }
    assert (H3 : 2 * M * wr_g3 <= 3 / 4 * wr_alpha).
    { unfold wr_alpha. assert (0 <= M * wr_g3) by (apply Rmult_le_pos; assumption). lra. }
    clearbody th. nra. }
  assert (HNp : 0 < / N) by (apply Rinv_0_lt_compat; lra).
  replace (A' * (1 - / N) + (2 * M + A') * wr_g3 * / N + (M + A') * u + eta * (1 + u))
    with ((A' * (N - 1) + (2 * M + A') * wr_g3 + N * ((M + A') * u + eta * (1 + u))) * / N) by (field; lra).
  replace (wr_alpha + N * wr_P) with (N * (wr_alpha + N * wr_P) * / N) by (field; lra).
  apply Rmult_le_compat_r; [lra | exact key].
Qed.

Lemma wr_one_step N v m' mu' d1 d2 d3 e2 :
  1 <= N -> wr_g3 + N * u <= 1 / 4 ->
  Rabs v <= M -> Rabs mu' <= M -> Rabs (m' - mu') <= wr_alpha + (N - 1) * wr_P ->
  Rabs d1 <= u -> Rabs d2 <= u -> Rabs d3 <= u -> Rabs e2 <= eta ->
  Rabs ((m' + ((v - m') * (1 + d1) / N * (1 + d2) + e2)) * (1 + d3) - (mu' + (v - mu') / N))
  <= wr_alpha + N * wr_P.
Proof.
  intros HN Hth Hv Hmu Herr Hd1 Hd2 Hd3 He2.
  assert (HNp : 0 < / N) by (apply Rinv_0_lt_compat; lra).
  assert (HN1 : / N <= 1) by (rewrite <- Rinv_1; apply Rinv_le_contravar; lra).
  replace ((m' + ((v - m') * (1 + d1) / N * (1 + d2) + e2)) * (1 + d3) - (mu' + (v - mu') / N))
    with ((m' - mu') * (1 - / N) + (v - m') * ((1 + d1) * (1 + d2) * (1 + d3) - 1) * / N
          + (m' * d3 + e2 * (1 + d3))) by (field; lra).
  set (A' := wr_alpha + (N - 1) * wr_P) in *.
  eapply Rle_trans; [apply Rabs_triang3|].
  eapply Rle_trans; [|apply (wr_budget N A' HN Hth eq_refl)].
  assert (Hm' : Rabs m' <= M + A').
  { replace m' with (mu' + (m' - mu')) by ring. pose proof (Rabs_triang mu' (m' - mu')). lra. }
  assert (Hvm : Rabs (v - m') <= 2 * M + A').
  { unfold Rminus. pose proof (Rabs_triang v (- m')). rewrite Rabs_Ropp in *. lra. }
  assert (Hc : Rabs ((1 + d1) * (1 + d2) * (1 + d3) - 1) <= wr_g3) by (apply three_d_bound; assumption).
  assert (T1 : Rabs ((m' - mu') * (1 - / N)) <= A' * (1 - / N)).
  { rewrite Rabs_mult, (Rabs_right (1 - / N)) by lra. apply Rmult_le_compat_r; [lra | exact Herr]. }
  assert (T2 : Rabs ((v - m') * ((1 + d1) * (1 + d2) * (1 + d3) - 1) * / N) <= (2 * M + A') * wr_g3 * / N).
  { rewrite Rabs_mult, (Rabs_right (/ N)) by lra. apply Rmult_le_compat_r; [lra|]. apply Rabs_mul_le; assumption. }
  assert (T3 : Rabs (m' * d3 + e2 * (1 + d3)) <= (M + A') * u + eta * (1 + u)).
  { pose proof (Rabs_triang (m' * d3) (e2 * (1 + d3))). pose proof (Rabs_mul_le m' d3 _ _ Hm' Hd3).
    pose proof (Rabs_triang 1 d3). rewrite Rabs_R1 in *.
    assert (Rabs (e2 * (1 + d3)) <= eta * (1 + u)) by (apply Rabs_mul_le; lra). lra. }
  lra.
Qed.

Section Welford.
Variable T : nat.                               (* horizon: number of updates considered *)
Hypothesis nat_F : forall k, (1 <= k <= T)%nat -> F (INR k).
Hypothesis small : (INR T + 4) * u <= 1 / 4.

Definition wr_fl_inv (h : list R) (s : @wr_st R) : Prop :=
  wr_n s = length h /\
  ((length h <= T)%nat ->
   F (wr_mean s) /\ Rabs (wr_mean s - Rmean h) <= wr_alpha + INR (length h) * wr_P).

Lemma wr_fl_step h s v : Forall DinM h -> DinM v -> wr_fl_inv h s ->
  exists s', @wr_step R FlOps2 s v = Ok s' /\ wr_fl_inv (h ++ [v]) s'.
Proof.
  intros Hh [Fv Hv] [Hn Hi].
  unfold wr_step. cbn [sdiv sofnat ssub sadd smul FlOps2]. rewrite Hn.
  assert (HN0 : INR (S (length h)) <> 0) by (apply INR_pos_neq; lia).
  destruct (Req_EM_T (INR (S (length h))) 0) as [Hz|_]; [contradiction|]. cbn [bind].
  eexists; split; [reflexivity|]. unfold wr_fl_inv. cbn [wr_n wr_mean].
  assert (Hlen : length (h ++ [v]) = S (length h)) by (rewrite app_length; cbn; lia).
  split; [symmetry; exact Hlen|]. rewrite Hlen. intros HT.
  destruct (Hi ltac:(lia)) as [Fm Herr].
  set (m' := wr_mean s) in *.
  destruct (fsub_ok v m' Fv Fm) as [Fd [d1 [Hd1 E1]]].
  destruct (fdiv_ok (fsub v m') (INR (S (length h))) Fd (nat_F (S (length h)) ltac:(lia)) HN0) as [Fq [d2 [e2 [Hd2 [He2 E2]]]]].
  destruct (fadd_ok m' (fdiv (fsub v m') (INR (S (length h)))) Fm Fq) as [Fo [d3 [Hd3 E3]]].
  split; [exact Fo|].
  rewrite Rmean_snoc, E3, E2, E1.
  assert (HN1 : 1 <= INR (S (length h))) by (change 1 with (INR 1); apply le_INR; lia).
  assert (HNT : INR (S (length h)) <= INR T) by (apply le_INR; lia).
  assert (Hu20 : 20 * u <= 1) by nra.
  apply wr_one_step; try assumption.
  - pose proof (cube_small u u_nonneg Hu20) as Hc. fold wr_g3 in Hc. nra.
  - apply Rmean_bound; exact Hh.
  - rewrite S_INR. replace (INR (length h) + 1 - 1) with (INR (length h)) by ring. exact Herr.
Qed.

Lemma wr_fl_run vs : Forall DinM vs ->
  exists s, crun (@wrolling_mean_core R FlOps2) vs = Ok s /\ wr_fl_inv vs s.
Proof.
  intros Hvs.
  apply (@crun_inv R (@wrolling_mean_core R FlOps2) DinM wr_fl_inv (@wr_new R FlOps2)).
  - reflexivity.
  - split; [reflexivity|]. intros _. cbn [wr_new wr_mean s0 FlOps2 length INR]. split; [exact F0|].
    unfold smean. cbn [length]. rewrite ssum_R_nil. cbn [sofnat ROps INR]. rewrite sdivd_R_0.
    rewrite Rminus_0_r, Rabs_R0. pose proof wr_alpha_nonneg. lra.
  - intros h s v Hh Hv Hi. apply wr_fl_step; assumption.
  - exact Hvs.
Qed.
End Welford.

(** WelfordRolling mean, sharp form: after t = length vs updates,
    |rounded mean - exact mean| <= 3 M ((1+u)^3 - 1) + t (M u + eta (1+u)). *)
Theorem wr_mean_drift_sharp vs : vs <> [] -> Forall DinM vs ->
  (forall k, (1 <= k <= length vs)%nat -> F (INR k)) -> (INR (length vs) + 4) * u <= 1 / 4 ->
  exists m_fl m_ex,
    cout (@wrolling_mean_core R FlOps2) vs = Ok (Some m_fl) /\
    cout (@wrolling_mean_core R ROps) vs = Ok (Some m_ex) /\
    Rabs (m_fl - m_ex) <= 3 * M * ((1 + u) ^ 3 - 1) + INR (length vs) * (M * u + eta * (1 + u)).
Proof.
  intros Hne Hvs HF Hs.
  destruct (wr_fl_run (length vs) HF Hs vs Hvs) as [s [Hr [_ Hi]]].
  destruct (Hi (le_n _)) as [_ Herr].
  exists (wr_mean s), (Rmean vs). split; [|split].
  - unfold cout. rewrite Hr. reflexivity.
  - rewrite wrolling_mean_closed_form by exact Hne. reflexivity.
  - exact Herr.
Qed.

(** WelfordRolling mean, readable form: the error grows at most linearly, (t + 10) u M + t (1+u) eta. *)
Theorem wr_mean_drift vs : vs <> [] -> Forall DinM vs ->
  (forall k, (1 <= k <= length vs)%nat -> F (INR k)) -> (INR (length vs) + 4) * u <= 1 / 4 ->
  exists m_fl m_ex,
    cout (@wrolling_mean_core R FlOps2) vs = Ok (Some m_fl) /\
    cout (@wrolling_mean_core R ROps) vs = Ok (Some m_ex) /\
    Rabs (m_fl - m_ex) <= (INR (length vs) + 10) * u * M + INR (length vs) * (1 + u) * eta.
Proof.
  intros Hne Hvs HF Hs.
  destruct (wr_mean_drift_sharp vs Hne Hvs HF Hs) as [a [b [Ha [Hb Hab]]]].
  exists a, b. split; [exact Ha|]. split; [exact Hb|]. eapply Rle_trans; [exact Hab|].
  assert (Hl : 1 <= INR (length vs)).
  { destruct vs as [|x r]; [congruence|]. change 1 with (INR 1). apply le_INR. cbn; lia. }
  assert (Hu20 : 20 * u <= 1) by nra.
  pose proof (cube_small u u_nonneg Hu20) as Hc.
  assert (HuM : 0 <= u * M) by (apply Rmult_le_pos; assumption).
  assert (H3 : 3 * M * ((1 + u) ^ 3 - 1) <= 10 * u * M) by nra.
  nra.
Qed.

(* ------------------------------------------------------------------------------------------ *)
(** * 3. Comparison-only views: the rounded model IS the exact model (0 ulps)

    Min, Max, GTE, LTE only compare and copy values; [FlOps2] and [ROps] have the same comparisons, so
    the two models coincide on every history (in the format or not).  The answers are moreover elements
    of the input (or the clip level), hence in the format when the inputs are. *)
Theorem min_fl_exact n vs : cout (@min_core R FlOps2 n) vs = cout (@min_core R ROps n) vs.
Proof. reflexivity. Qed.
Theorem max_fl_exact n vs : cout (@max_core R FlOps2 n) vs = cout (@max_core R ROps n) vs.
Proof. reflexivity. Qed.
Theorem gte_fl_exact clip vs : cout (@gte_core R FlOps2 clip) vs = cout (@gte_core R ROps clip) vs.
Proof. reflexivity. Qed.
Theorem lte_fl_exact clip vs : cout (@lte_core R FlOps2 clip) vs = cout (@lte_core R ROps clip) vs.
Proof. reflexivity. Qed.

(** the rounded Min answers a floating-point number: the least element of the window *)
Theorem min_fl_format n vs m : (1 <= n)%nat -> Forall F vs ->
  cout (@min_core R FlOps2 n) vs = Ok (Some m) ->
  F m /\ In m (lastn n vs) /\ forall x, In x (lastn n vs) -> m <= x.
Proof.
  intros Hn HF H. rewrite min_fl_exact in H. destruct (WinAP.min_is_minimum n vs m Hn H) as [Hin Hle].
  split; [|split; assumption].
  pose proof (Forall_lastn F n vs HF) as HFw. rewrite Forall_forall in HFw. apply HFw. exact Hin.
Qed.
Theorem max_fl_format n vs m : (1 <= n)%nat -> Forall F vs ->
  cout (@max_core R FlOps2 n) vs = Ok (Some m) ->
  F m /\ In m (lastn n vs) /\ forall x, In x (lastn n vs) -> x <= m.
Proof.
  intros Hn HF H. rewrite max_fl_exact in H. destruct (WinAP.max_is_maximum n vs m Hn H) as [Hin Hle].
  split; [|split; assumption].
  pose proof (Forall_lastn F n vs HF) as HFw. rewrite Forall_forall in HFw. apply HFw. exact Hin.
Qed.

(** GTE / LTE answer the latest value or the clip level *)
Theorem gte_fl_format clip vs o : F clip -> Forall F vs ->
  cout (@gte_core R FlOps2 clip) vs = Ok (Some o) -> F o /\ clip <= o.
Proof.
  intros Fc HF. destruct vs as [|a vs _] using rev_ind; [cbn; discriminate|].
  unfold cout. rewrite crun_snoc. unfold crun. cbn [cnew gte_core bind].
  destruct (cfold (@gte_core R FlOps2 clip) None vs) as [s|e] eqn:E; cbn [bind]; [|discriminate].
  cbn [cstep clast gte_core bind]. intros H. injection H as H. subst o.
  apply Forall_app in HF. destruct HF as [_ Ha]. apply Forall_inv in Ha.
  unfold sgeb. cbn [sleb FlOps2]. destruct (Rleb clip a) eqn:Eb.
  - apply Rleb_true in Eb. split; assumption.
  - split; [exact Fc | lra].
Qed.
Theorem lte_fl_format clip vs o : F clip -> Forall F vs ->
  cout (@lte_core R FlOps2 clip) vs = Ok (Some o) -> F o /\ o <= clip.
Proof.
  intros Fc HF. destruct vs as [|a vs _] using rev_ind; [cbn; discriminate|].
  unfold cout. rewrite crun_snoc. unfold crun. cbn [cnew lte_core bind].
  destruct (cfold (@lte_core R FlOps2 clip) None vs) as [s|e] eqn:E; cbn [bind]; [|discriminate].
  cbn [cstep clast lte_core bind]. intros H. injection H as H. subst o.
  apply Forall_app in HF. destruct HF as [_ Ha]. apply Forall_inv in Ha.
  cbn [sleb FlOps2]. destruct (Rleb a clip) eqn:Eb.
  - apply Rleb_true in Eb. split; assumption.
  - split; [exact Fc | lra].
Qed.

End StdModel2.

(* ------------------------------------------------------------------------------------------ *)
(** * The linear growth of the WelfordRolling bound is attained in the standard model

    An instance of the hypotheses: every addition errs by the full relative amount u upwards
    ([tadd a b = (a+b)(1+u)]), the other operations are exact, every real is "in the format".
    On the constant stream M, M, M, ... the exact mean is M while the rounded mean is at least
    M + (t+1)/2 * u * M.  So no bound of the form c u M (1 + ln t) follows from the standard model alone:
    the bound [wr_mean_drift] is sharp up to the constant (1 versus 1/2). *)
Section Tight.
Variables u M : R.
Hypothesis u_nonneg : 0 <= u.
Hypothesis M_nonneg : 0 <= M.

Definition tadd (a b : R) : R := (a + b) * (1 + u).
Definition TOps : Ops R := FlOps2 tadd Rminus Rmult Rdiv.

(** [tadd], exact -, *, / satisfy the hypotheses of [StdModel2] with [eta = 0] and [F] = everything *)
Lemma tight_instance_ok :
  (forall a b : R, True -> True -> True /\ exists d, Rabs d <= u /\ tadd a b = (a + b) * (1 + d)) /\
  (forall a b : R, True -> True -> True /\ exists d, Rabs d <= u /\ a - b = (a - b) * (1 + d)) /\
  (forall a b : R, True -> True -> True /\ exists d e, Rabs d <= u /\ Rabs e <= 0 /\ a * b = a * b * (1 + d) + e) /\
  (forall a b : R, True -> True -> b <> 0 -> True /\ exists d e, Rabs d <= u /\ Rabs e <= 0 /\ a / b = a / b * (1 + d) + e).
Proof.
  assert (H0 : Rabs 0 <= u) by (rewrite Rabs_R0; exact u_nonneg).
  assert (H00 : Rabs 0 <= 0) by (rewrite Rabs_R0; lra).
  repeat split.
  - exists u. split; [rewrite Rabs_right; lra | reflexivity].
  - exists 0. split; [exact H0 | ring].
  - exists 0, 0. repeat split; try assumption. ring.
  - exists 0, 0. repeat split; try assumption. ring.
Qed.

Definition tight_inv (h : list R) (s : @wr_st R) : Prop :=
  wr_n s = length h /\
  INR (length h) * (INR (length h) + 1) / 2 * (u * M) <= INR (length h) * (wr_mean s - M).

Lemma tight_step h s v : v = M -> tight_inv h s ->
  exists s', @wr_step R TOps s v = Ok s' /\ tight_inv (h ++ [v]) s'.
Proof.
  intros -> [Hn Hi]. unfold wr_step, TOps. cbn [sdiv sofnat ssub sadd smul FlOps2]. rewrite Hn.
  assert (HN0 : INR (S (length h)) <> 0) by (apply INR_pos_neq; lia).
  destruct (Req_EM_T (INR (S (length h))) 0) as [Hz|_]; [contradiction|]. cbn [bind].
  eexists; split; [reflexivity|]. unfold tight_inv. cbn [wr_n wr_mean].
  assert (Hlen : length (h ++ [M]) = S (length h)) by (rewrite app_length; cbn; lia).
  split; [symmetry; exact Hlen|]. rewrite Hlen. rewrite S_INR in *.
  set (k := INR (length h)) in *. set (m' := wr_mean s) in *.
  assert (Hk : 0 <= k) by apply pos_INR.
  unfold tadd.
  replace ((k + 1) * ((m' + (M - m') / (k + 1)) * (1 + u) - M))
    with (k * (m' - M) * (1 + u) + (k + 1) * (u * M)) by (field; lra).
  assert (HuM : 0 <= u * M) by (apply Rmult_le_pos; assumption).
  assert (H0 : 0 <= k * (m' - M)).
  { eapply Rle_trans; [|exact Hi]. apply Rmult_le_pos; [|exact HuM]. unfold Rdiv. nra. }
  clearbody k m'. nra.
Qed.

Lemma Rmean_repeat t : (1 <= t)%nat -> Rmean (repeat M t) = M.
Proof.
  intros Ht. pose proof (Rmean_mul (repeat M t)) as H. rewrite repeat_length in H.
  assert (Hs : Rsum (repeat M t) = INR t * M).
  { clear. induction t as [|t IH]; [cbn [repeat]; rewrite ssum_R_nil; cbn; lra|].
    cbn [repeat]. rewrite ssum_R_cons, IH, S_INR. ring. }
  rewrite Hs in H. apply Rmult_eq_reg_l with (INR t); [exact H|]. apply INR_pos_neq. lia.
Qed.

Theorem wr_mean_linear_growth t : (1 <= t)%nat ->
  exists m_fl,
    cout (@wrolling_mean_core R TOps) (repeat M t) = Ok (Some m_fl) /\
    cout (@wrolling_mean_core R ROps) (repeat M t) = Ok (Some M) /\
    (INR t + 1) / 2 * (u * M) <= m_fl - M.
Proof.
  intros Ht.
  destruct (@crun_inv R (@wrolling_mean_core R TOps) (fun x => x = M) tight_inv (@wr_new R TOps))
    with (vs := repeat M t) as [s [Hr [_ Hi]]].
  - reflexivity.
  - split; [reflexivity|]. cbn [length INR]. lra.
  - intros h s v _ Hv Hi. apply tight_step; assumption.
  - apply Forall_forall. intros x Hx. apply repeat_spec in Hx. exact Hx.
  - exists (wr_mean s). split; [|split].
    + unfold cout. rewrite Hr. reflexivity.
    + rewrite wrolling_mean_closed_form by (destruct t; [lia | discriminate]).
      unfold spec_rmean. rewrite Rmean_repeat by exact Ht. reflexivity.
    + rewrite repeat_length in Hi. assert (Hp : 0 < INR t) by (apply lt_0_INR; lia).
      apply Rmult_le_reg_l with (INR t); [exact Hp|]. eapply Rle_trans; [|exact Hi]. apply Req_le. field.
Qed.
End Tight.

(** * The hypotheses are satisfiable: exact arithmetic is an instance (u = eta = 0); the binary64 instance
    is in Flt2B64.v *)
Example std2_exact_instance :
  (forall a b : R, True -> True -> True /\ exists d, Rabs d <= 0 /\ a + b = (a + b) * (1 + d)) /\
  (forall a b : R, True -> True -> True /\ exists d e, Rabs d <= 0 /\ Rabs e <= 0 /\ a / b = a / b * (1 + d) + e).
Proof.
  assert (H00 : Rabs 0 <= 0) by (rewrite Rabs_R0; lra).
  split; intros a b _ _; (split; [exact I|]).
  - exists 0. split; [exact H00 | ring].
  - exists 0, 0. repeat split; try exact H00. ring.
Qed.

Print Assumptions ema_drift_gen.
Print Assumptions ema_drift.
Print Assumptions wr_mean_drift_sharp.
Print Assumptions wr_mean_drift.
Print Assumptions wr_mean_linear_growth.
Print Assumptions min_fl_exact.
Print Assumptions max_fl_exact.
Print Assumptions gte_fl_exact.
Print Assumptions lte_fl_exact.
Print Assumptions min_fl_format.
Print Assumptions max_fl_format.
Print Assumptions gte_fl_format.
Print Assumptions lte_fl_format.
About ema_drift.
About wr_mean_drift.
