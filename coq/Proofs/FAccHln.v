(** C16 at f64 for HLNormalizer: on finite inputs the float run keeps EXACTLY the window, the minimum, the maximum and
    the last value of the exact run on the real values (comparisons of finite floats are exact), and when
    [max - min] does not overflow a finite answer is within 8 * 2^-53 of the exact answer -- for every length
    of the stream.  Without the no-overflow condition this is false: [hln_f64_accuracy_refuted]. *)
From Coq Require Import List Arith Lia Reals Lra ZArith Floats Bool.
From SF Require Import Res Scalar View Models Core Spec FloatOps SpecHln SpecFRange SpecFAcc.
From SF.Proofs Require Import Window RBase FltErr FltBridge Flt2P Flt2B64 Flt2Prim BridgeOps FRangeBase FRangeMy FRangeHln
  FAccBase HlnP.
From Flocq Require Import Core BinarySingleNaN.
From Interval Require Import Tactic.
Import ListNotations.
Open Scope R_scope.

Local Notation F := PrimFloat.float.
Local Notation pinf := PrimFloat.infinity.
Local Notation fzero := PrimFloat.zero.
Local Notation fone := PrimFloat.one.
Local Notation fin := (fun x : F => ffinite x = true).

(** * The float state, seen through [f2r] *)
Definition hmap (s : @hln_st F) : @hln_st R :=
  {| hln_q := map f2r (hln_q s); hln_min := f2r (hln_min s); hln_max := f2r (hln_max s);
     hln_last := f2r (hln_last s); hln_init := hln_init s |}.

Lemma if_f2r (b : bool) (x y : F) : (if b then f2r x else f2r y) = f2r (if b then x else y).
Proof. destruct b; reflexivity. Qed.

Definition extF (mm : F * F) (v : F) : F * F :=
  let mx := if @sgtb F FOps v (snd mm) then v else snd mm in
  let mn := if @sltb F FOps v (fst mm) then v else fst mm in (mn, mx).
Definition extR (mm : R * R) (v : R) : R * R :=
  let mx := if @sgtb R ROps v (snd mm) then v else snd mm in
  let mn := if @sltb R ROps v (fst mm) then v else fst mm in (mn, mx).
Definition pm (mm : F * F) : R * R := (f2r (fst mm), f2r (snd mm)).

Lemma extent_fold_sim q : forall mm : F * F, Forall fin q -> ffinite (fst mm) = true -> ffinite (snd mm) = true ->
  fold_left extR (map f2r q) (pm mm) = pm (fold_left extF q mm).
Proof.
  induction q as [|v q IH]; intros mm Hq H1 H2; [reflexivity|].
  inversion Hq as [|? ? Fv Hq']; subst. cbn [fold_left map].
  assert (E : extR (pm mm) (f2r v) = pm (extF mm v)).
  { unfold extR, extF, pm, sgtb. cbn [sltb ROps FOps fst snd].
    rewrite (prim_ltb_real _ _ H2 Fv), (prim_ltb_real _ _ Fv H1), !if_f2r. reflexivity. }
  rewrite E. apply IH; [exact Hq' | |]; unfold extF; cbn [fst snd].
  - destruct (sltb v (fst mm)); assumption.
  - destruct (sgtb v (snd mm)); assumption.
Qed.

Lemma extent_queue_sim q a b : Forall fin q -> @extent_queue F FOps q = Ok (a, b) ->
  @extent_queue R ROps (map f2r q) = Ok (f2r a, f2r b).
Proof.
  intros Hq. unfold extent_queue. destruct q as [|f r]; [discriminate|]. cbn [front bind map]. intros H.
  inversion Hq as [|? ? Ff _]; subst.
  pose proof (extent_fold_sim (f :: r) (f, f) Hq Ff Ff) as HH.
  change (fold_left _ (f :: r) (f, f)) with (fold_left extF (f :: r) (f, f)) in H.
  change (fold_left _ (f2r f :: map f2r r) (f2r f, f2r f)) with (fold_left extR (map f2r (f :: r)) (pm (f, f))).
  rewrite HH. assert (H' : fold_left extF (f :: r) (f, f) = (a, b)) by (injection H as H; exact H).
  rewrite H'. reflexivity.
Qed.

Lemma hln_step_sim n s v s' : ffinite v = true -> hln_rinv s -> @hln_step F FOps n s v = Ok s' ->
  @hln_step R ROps n (hmap s) (f2r v) = Ok (hmap s').
Proof.
  intros Fv (Hq & Fmn & Fmx & _ & _). unfold hln_step. cbn [hmap hln_q hln_min hln_max hln_init].
  rewrite map_length.
  assert (H0 : exists mn mx, (if hln_init s then (v, v) else (hln_min s, hln_max s)) = (mn, mx)
                /\ (if hln_init s then (f2r v, f2r v) else (f2r (hln_min s), f2r (hln_max s))) = (f2r mn, f2r mx)
                /\ ffinite mn = true /\ ffinite mx = true).
  { destruct (hln_init s); eexists _, _; (split; [reflexivity|]); (split; [reflexivity|]); auto. }
  destruct H0 as (mn & mx & -> & -> & Fn & Fx).
  destruct (Nat.leb n (length (hln_q s))).
  - destruct (hln_q s) as [|old r] eqn:Eq; cbn [front bind tl map]; [discriminate|].
    inversion Hq as [|? ? Fo Hr]; subst.
    assert (Hq' : Forall fin (r ++ [v])) by (apply Forall_app; split; [assumption | constructor; [exact Fv | constructor]]).
    unfold sgeb. cbn [sleb FOps ROps].
    rewrite <- (prim_leb_real old mn Fo Fn), <- (prim_leb_real mx old Fx Fo).
    replace (map f2r r ++ [f2r v]) with (map f2r (r ++ [v])) by (rewrite map_app; reflexivity).
    destruct (PrimFloat.leb old mn || PrimFloat.leb mx old).
    + destruct (extent_queue (r ++ [v])) as [[a b]|e] eqn:Ee; cbn [bind]; [|discriminate].
      destruct (extent_queue_fin _ a b Hq' Ee) as [Fa Fb].
      rewrite (extent_queue_sim _ a b Hq' Ee). cbn [bind].
      intros H. inversion H; subst s'. unfold hmap. cbn [hln_q hln_min hln_max hln_last hln_init].
      unfold sgtb. cbn [sltb FOps ROps].
      rewrite (prim_ltb_real _ _ Fb Fv), (prim_ltb_real _ _ Fv Fa), !if_f2r. reflexivity.
    + cbn [bind]. intros H. inversion H; subst s'. unfold hmap. cbn [hln_q hln_min hln_max hln_last hln_init].
      unfold sgtb. cbn [sltb FOps ROps].
      rewrite (prim_ltb_real _ _ Fx Fv), (prim_ltb_real _ _ Fv Fn), !if_f2r. reflexivity.
  - cbn [bind]. intros H. inversion H; subst s'. unfold hmap. cbn [hln_q hln_min hln_max hln_last hln_init].
    unfold sgtb. cbn [sltb FOps ROps].
    rewrite (prim_ltb_real _ _ Fx Fv), (prim_ltb_real _ _ Fv Fn), !if_f2r, map_app. reflexivity.
Qed.

(** the float state after any finite history is the state of the exact run, value for value *)
Theorem hln_state_exact n fs s : Forall fin fs -> crun (@hln_core F FOps n) fs = Ok s ->
  crun (@hln_core R ROps n) (map f2r fs) = Ok (hmap s) /\ hln_rinv s.
Proof.
  intros Hf Hr.
  destruct (@crun_sim F R (@hln_core F FOps n) (@hln_core R ROps n) f2r fin
              (fun sf sr => sr = hmap sf /\ hln_rinv sf)
              {| hln_q := []; hln_min := s0; hln_max := s0; hln_last := s0; hln_init := true |}
              {| hln_q := []; hln_min := s0; hln_max := s0; hln_last := s0; hln_init := true |}) with (vs := fs) (sa := s)
    as (sr & Er & -> & Hi).
  - reflexivity.
  - reflexivity.
  - split.
    + unfold hmap. cbn [hln_q hln_min hln_max hln_last hln_init map s0 FOps ROps].
      rewrite (proj2 prim_zero_fin). reflexivity.
    + unfold hln_rinv. cbn [hln_q hln_min hln_max hln_last]. destruct prim_zero_fin as [H0 E0].
      split; [constructor|]. cbn [s0 FOps]. repeat split; try exact H0; apply Rle_refl.
  - intros sa sb v sa' Fv [-> Hi] Hs. exists (hmap sa'). split.
    + exact (hln_step_sim n sa v sa' Fv Hi Hs).
    + split; [reflexivity | exact (hln_rstep n sa v sa' Fv Hi Hs)].
  - exact Hf.
  - exact Hr.
  - split; assumption.
Qed.

(** * The answer: four roundings *)

Lemma hln_answer_acc last mn mx : ffinite last = true -> ffinite mn = true -> ffinite mx = true ->
  f2r mn <= f2r last <= f2r mx -> 0 < f2r mx - f2r mn <= bpow radix2 1023 ->
  let v := PrimFloat.add (PrimFloat.opp fone)
             (PrimFloat.div (PrimFloat.mul (PrimFloat.sub last mn) (f_ofdec 2 0)) (PrimFloat.sub mx mn)) in
  ffinite v = true ->
  Rabs (f2r v - (- 1 + (f2r last - f2r mn) * 2 / (f2r mx - f2r mn))) <= 8 * b64_u.
Proof.
  intros Fl Fn Fx [Hlo Hhi] [Hb0 Hb1]. cbv zeta. intros Fv.
  pose proof BIG_pos as BP. pose proof b64_u_val as Hu. pose proof u_eta as Heta. pose proof b64_eta_nonneg as He0.
  destruct (prim_add_fin _ _ Fv) as (_ & Fr & Ev). rewrite Ev.
  change (PrimFloat.opp fone) with (-1)%float. rewrite (proj2 f2r_m1).
  set (d1 := PrimFloat.sub last mn) in *. set (m := PrimFloat.mul d1 (f_ofdec 2 0)) in *.
  set (a := f2r last - f2r mn) in *. set (b := f2r mx - f2r mn) in *.
  assert (Ha : 0 <= a <= b) by (unfold a, b; lra).
  (* the denominator: positive, finite *)
  assert (Hd2p : 0 < b64_sub (f2r mx) (f2r mn)).
  { apply rnd_sub_pos; [apply f2r_format | apply f2r_format | unfold b in Hb0; lra]. }
  assert (Hd2b : b64_sub (f2r mx) (f2r mn) <= bpow radix2 1023).
  { apply rnd_le; [|exact Hb1]. apply generic_format_bpow. unfold FLT_exp. cbn. lia. }
  assert (HB : bpow radix2 1023 < BIG) by (apply bpow_lt; lia).
  destruct (sub_spec mx mn Fx Fn) as [(_ & Fd2 & Ed2)|[(Hr & _)|(Hr & _)]]; [|exfalso; lra|exfalso; lra].
  set (d2 := PrimFloat.sub mx mn) in *.
  destruct (prim_div_fin m d2 Fd2 Fr) as (Fm & Hd0 & Er).
  destruct (prim_mul_fin d1 (f_ofdec 2 0) Fm) as (Fd1 & _ & Em). rewrite (proj2 prim_two_fin) in Em. fold m in Em.
  destruct (prim_sub_fin last mn Fd1) as (_ & _ & Ed1). fold d1 in Ed1.
  (* the three relative errors *)
  destruct (rnd_sub_rel (f2r last) (f2r mn) (f2r_format _) (f2r_format _)) as (e1 & He1 & R1).
  destruct (rnd_sub_rel (f2r mx) (f2r mn) (f2r_format _) (f2r_format _)) as (e2 & He2 & R2).
  fold a in R1. fold b in R2. unfold b64_sub in Ed1, Ed2. fold a in Ed1. fold b in Ed2.
  assert (Em' : f2r m = f2r d1 * 2).
  { rewrite Em. unfold b64_mul. apply rnd_id. apply format_double, f2r_format. }
  destruct (b64_round_err (f2r m / f2r d2)) as (e3 & ee & He3 & Hee & R3).
  fold (b64_div (f2r m) (f2r d2)) in R3. rewrite <- Er in R3. set (q := PrimFloat.div m d2) in *.
  (* the quotient is in [0, 2] *)
  assert (H1 : 0 <= f2r d1 <= f2r d2).
  { rewrite Ed1, Ed2. split; [apply rnd_ge; [exact b64_format_0 | lra] | apply rnd_mono; lra]. }
  assert (Hp : 0 < f2r d2) by (rewrite Ed2; exact Hd2p).
  assert (Hq : 0 <= f2r m / f2r d2 <= 2).
  { rewrite Em'. split.
    - apply Rmult_le_pos; [lra|]. apply Rlt_le, Rinv_0_lt_compat. exact Hp.
    - apply (Rmult_le_reg_r (f2r d2)); [exact Hp|]. unfold Rdiv. rewrite Rmult_assoc, Rinv_l by lra. lra. }
  assert (Hq2 : 0 <= f2r q <= 2).
  { rewrite Er. split; [apply rnd_ge; [exact b64_format_0 | apply Hq] | apply rnd_le; [exact b64_format_2 | apply Hq]]. }
  (* last rounding *)
  destruct (rnd_add_rel (-1) (f2r q) format_m1 (f2r_format q)) as (e4 & He4 & R4).
  unfold b64_add. rewrite R4.
  (* the exact quotient t and the perturbation factor *)
  set (t := a * 2 / b).
  assert (Ht : 0 <= t <= 2).
  { unfold t. split.
    - apply Rmult_le_pos; [lra|]. apply Rlt_le, Rinv_0_lt_compat. exact Hb0.
    - apply (Rmult_le_reg_r b); [exact Hb0|]. unfold Rdiv. rewrite Rmult_assoc, Rinv_l by lra. lra. }
  rewrite Hu in He1, He2, He3, He4.
  assert (H1e2 : 1 + e2 <> 0).
  { assert (-1 < e2); [|lra]. apply Rabs_def2 in He2 || (pose proof (Rabs_def2 e2 1));
    destruct (Rabs_le_inv _ _ He2); lra. }
  assert (Eq : f2r q = t * ((1 + e1) * (1 + e3) / (1 + e2)) + ee).
  { rewrite R3, Em', Ed1, Ed2, R1, R2. unfold t. field. split; [exact H1e2 | lra]. }
  assert (Hth : Rabs ((1 + e1) * (1 + e3) / (1 + e2) - 1) <= 301 / 100 * / 9007199254740992)
    by (interval with (i_prec 120)).
  set (th := (1 + e1) * (1 + e3) / (1 + e2)) in *.
  replace ((-1 + f2r q) * (1 + e4) - (-1 + t)) with ((f2r q - t) + e4 * (-1 + f2r q)) by ring.
  assert (A1 : Rabs (f2r q - t) <= 2 * (301 / 100 * / 9007199254740992) + b64_eta).
  { rewrite Eq. replace (t * th + ee - t) with (t * (th - 1) + ee) by ring.
    eapply Rle_trans; [apply Rabs_triang|]. rewrite Rabs_mult, (Rabs_pos_eq t) by lra.
    assert (t * Rabs (th - 1) <= 2 * (301 / 100 * / 9007199254740992)).
    { apply Rmult_le_compat; [lra | apply Rabs_pos | lra | exact Hth]. }
    lra. }
  assert (A2 : Rabs (e4 * (-1 + f2r q)) <= / 9007199254740992 * 1).
  { rewrite Rabs_mult. apply Rmult_le_compat; [apply Rabs_pos | apply Rabs_pos | exact He4 |].
    apply Rabs_le. lra. }
  eapply Rle_trans; [apply Rabs_triang|]. rewrite Hu. rewrite Hu in Heta. lra.
Qed.

(** C16 at f64, HLNormalizer: window >= 1, finite inputs, the extent [max - min] of the window (on the real values)
    at most 2^1023, a finite answer: it is within 8 * 2^-53 of the exact answer, for every stream length. *)
Theorem hln_f64_accuracy n (fs : list F) (v : F) : (1 <= n)%nat -> Forall fin fs ->
  @spec_extent R ROps n (map f2r fs) <= bpow radix2 1023 ->
  cout (@hln_core F FOps n) fs = Ok (Some v) -> ffinite v = true ->
  exists r, cout (@hln_core R ROps n) (map f2r fs) = Ok (Some r) /\ Rabs (f2r v - r) <= 8 * / 9007199254740992.
Proof.
  intros Hn Hf Hext Hc Fv. unfold cout in Hc |- *.
  destruct (crun (@hln_core F FOps n) fs) as [s|e] eqn:Er; [|discriminate]. cbn [bind clast hln_core] in Hc.
  destruct (hln_state_exact n fs s Hf Er) as (ER & (_ & Fn & Fx & Fl & Hord)).
  rewrite ER. cbn [bind clast hln_core].
  (* the extent of the window is max - min of the state *)
  assert (Hb : f2r (hln_max s) - f2r (hln_min s) <= bpow radix2 1023).
  { destruct fs as [|f0 fr].
    - unfold crun in Er. cbn in Er. inversion Er; subst s. cbn [hln_max hln_min]. rewrite (proj2 prim_zero_fin).
      pose proof (bpow_ge_0 radix2 1023). lra.
    - assert (Hne : map f2r (f0 :: fr) <> []) by discriminate.
      destruct (hln_run n (map f2r (f0 :: fr)) Hn) as (sr & Hr & Hq & Hi & Hx).
      rewrite ER in Hr. inversion Hr; subst sr. destruct (Hx Hne) as (Hmin & Hmax & _).
      cbn [hmap hln_min hln_max] in Hmin, Hmax.
      unfold spec_extent in Hext. pose proof (lastn_nonempty n _ Hn Hne) as Hw.
      destruct (lastn n (map f2r (f0 :: fr))) as [|f r] eqn:Ew; [contradiction|].
      rewrite (is_min_unique _ _ (f :: r) Hmin (wmin_is_min f r)).
      rewrite (is_max_unique _ _ (f :: r) Hmax (wmax_is_max f r)). exact Hext. }
  unfold hln_lastf in Hc |- *. cbn [hmap hln_min hln_max hln_last]. cbn [seqb FOps ROps] in Hc |- *.
  rewrite <- (prim_eqb_real _ _ Fl Fn), <- (prim_eqb_real _ _ Fl Fx).
  destruct (PrimFloat.eqb (hln_last s) (hln_min s) && PrimFloat.eqb (hln_last s) (hln_max s)) eqn:Eb.
  - inversion Hc; subst v. exists 0. split; [reflexivity|]. cbn [s0 FOps]. rewrite (proj2 prim_zero_fin).
    rewrite Rminus_0_r, Rabs_R0. lra.
  - cbn [sdiv smul ssub sadd sneg s1 sofdec FOps bind] in Hc. injection Hc as Hv. subst v.
    assert (Hpos : 0 < f2r (hln_max s) - f2r (hln_min s)).
    { destruct (Req_dec (f2r (hln_max s)) (f2r (hln_min s))) as [E|E]; [|lra]. exfalso.
      apply andb_false_iff in Eb. destruct Eb as [Eb|Eb]; apply (eqb_real_false _ _ Fl) in Eb; try assumption; apply Eb; lra. }
    cbn [sdiv smul ssub sadd sneg s1 sofdec ROps]. rewrite Rdiv_res_ok by lra. cbn [bind].
    eexists. split; [reflexivity|].
    pose proof (hln_answer_acc (hln_last s) (hln_min s) (hln_max s) Fl Fn Fx Hord (conj Hpos Hb) Fv) as HA.
    rewrite b64_u_val in HA. change (10 ^ Z.of_nat 0)%Z with 1%Z.
    replace (IZR 2 / IZR 1) with 2 by lra. exact HA.
Qed.

(** in terms of the inputs: every |x| <= 2^1022 *)
Lemma is_minmax_bound (l : list R) mn mx M : (forall x, In x l -> Rabs x <= M) -> is_min mn l -> is_max mx l -> mx - mn <= 2 * M.
Proof.
  intros H [I1 _] [I2 _]. pose proof (H _ I1) as H1. pose proof (H _ I2) as H2.
  apply Rabs_le_inv in H1. apply Rabs_le_inv in H2. lra.
Qed.
Corollary hln_f64_accuracy_bounded n (fs : list F) (v : F) : (1 <= n)%nat ->
  Forall (fun x => ffinite x = true /\ Rabs (f2r x) <= bpow radix2 1022) fs ->
  cout (@hln_core F FOps n) fs = Ok (Some v) -> ffinite v = true ->
  exists r, cout (@hln_core R ROps n) (map f2r fs) = Ok (Some r) /\ Rabs (f2r v - r) <= 8 * / 9007199254740992.
Proof.
  intros Hn Hf. apply hln_f64_accuracy; [exact Hn | eapply Forall_impl; [|exact Hf]; intros a [H _]; exact H |].
  unfold spec_extent. destruct (lastn n (map f2r fs)) as [|f r] eqn:Ew.
  - cbn [s0 ROps]. apply bpow_ge_0.
  - cbn [ssub ROps].
    replace (bpow radix2 1023) with (2 * bpow radix2 1022) by (change 1023%Z with (1 + 1022)%Z; rewrite bpow_plus; reflexivity).
    apply (is_minmax_bound (f :: r)); [|apply wmin_is_min|apply wmax_is_max].
    intros x Hx. rewrite <- Ew in Hx.
    assert (HA : Forall (fun y => Rabs y <= bpow radix2 1022) (map f2r fs)).
    { apply Forall_forall. intros y Hy. apply in_map_iff in Hy. destruct Hy as (z & <- & Hz).
      rewrite Forall_forall in Hf. exact (proj2 (Hf z Hz)). }
    pose proof (FltErr.Forall_lastn _ n _ HA) as HL. rewrite Forall_forall in HL. exact (HL x Hx).
Qed.

(** * Without the no-overflow condition the statement is FALSE: finite inputs, finite answer -1, exact answer -1/2 *)
Local Set Warnings "-inexact-float".
Theorem hln_f64_accuracy_refuted : exists n (fs : list F) (v : F),
  (1 <= n)%nat /\ forallb ffinite fs = true /\ cout (@hln_core F FOps n) fs = Ok (Some v) /\ ffinite v = true /\
  f2r v = -1 /\ cout (@hln_core R ROps n) (map f2r fs) = Ok (Some (- (1 / 2))).
Proof.
  exists 3%nat, [-0x1p1023; 0x1p1023; -0x1p1022]%float, (-1)%float.
  split; [lia|]. split; [vm_compute; reflexivity|]. split; [vm_compute; reflexivity|].
  split; [exact (proj1 f2r_m1)|]. split; [exact (proj2 f2r_m1)|].
  assert (Hs : crun (@hln_core F FOps 3) [-0x1p1023; 0x1p1023; -0x1p1022]%float
               = Ok {| hln_q := [-0x1p1023; 0x1p1023; -0x1p1022]%float; hln_min := (-0x1p1023)%float;
                       hln_max := 0x1p1023%float; hln_last := (-0x1p1022)%float; hln_init := false |})
    by (vm_compute; reflexivity).
  assert (Hfin : Forall fin [-0x1p1023; 0x1p1023; -0x1p1022]%float).
  { repeat constructor; rewrite <- pfin_ffinite; reflexivity. }
  destruct (hln_state_exact 3 _ _ Hfin Hs) as [ER _]. unfold cout. rewrite ER. cbn [bind clast hln_core].
  unfold hln_lastf. cbn [hmap hln_min hln_max hln_last seqb sdiv smul ssub sadd sneg s1 sofdec ROps].
  assert (E1 : f2r (-0x1p1023)%float = - bpow radix2 1023).
  { rewrite f2r_SF. replace (Prim2SF (-0x1p1023)%float) with (S754_finite true 4503599627370496 971) by (vm_compute; reflexivity).
    unfold SF2R, F2R. cbn [cond_Zopp Fnum Fexp Z.opp]. change (IZR (-4503599627370496)) with (- bpow radix2 52).
    change (bpow radix2 1023) with (bpow radix2 (52 + 971)).
    rewrite bpow_plus. lra. }
  assert (E2 : f2r 0x1p1023%float = bpow radix2 1023).
  { rewrite f2r_SF. replace (Prim2SF 0x1p1023%float) with (S754_finite false 4503599627370496 971) by (vm_compute; reflexivity).
    unfold SF2R, F2R. cbn [cond_Zopp Fnum Fexp].
    change (IZR 4503599627370496) with (bpow radix2 52). change (bpow radix2 1023) with (bpow radix2 (52 + 971)).
    rewrite bpow_plus. reflexivity. }
  assert (E3 : f2r (-0x1p1022)%float = - bpow radix2 1022).
  { rewrite f2r_SF. replace (Prim2SF (-0x1p1022)%float) with (S754_finite true 4503599627370496 970) by (vm_compute; reflexivity).
    unfold SF2R, F2R. cbn [cond_Zopp Fnum Fexp Z.opp]. change (IZR (-4503599627370496)) with (- bpow radix2 52).
    change (bpow radix2 1022) with (bpow radix2 (52 + 970)).
    rewrite bpow_plus. lra. }
  rewrite E1, E2, E3.
  assert (E4 : bpow radix2 1023 = 2 * bpow radix2 1022) by (change 1023%Z with (1 + 1022)%Z; rewrite bpow_plus; reflexivity).
  pose proof (bpow_gt_0 radix2 1022) as Hp. rewrite E4. set (B := bpow radix2 1022) in *.
  replace (Reqb (- B) (- (2 * B))) with false by (symmetry; apply Reqb_false; lra). cbn [andb].
  rewrite Rdiv_res_ok by lra. cbn [bind]. do 2 f_equal. change (10 ^ Z.of_nat 0)%Z with 1%Z. field. lra.
Qed.

Example hln_f64_accuracy_ex :
  forallb (fun x => ffinite x && PrimFloat.leb (PrimFloat.abs x) 0x1p1022) [1e6; 8.13; 3.461; 5.401; 3.311; 0.1; 7.5]%float = true /\
  cout (@hln_core F FOps 3) [1e6; 8.13; 3.461; 5.401; 3.311; 0.1; 7.5]%float = Ok (Some 1%float).
Proof. split; vm_compute; reflexivity. Qed.

Print Assumptions hln_state_exact.
Print Assumptions hln_f64_accuracy.
Print Assumptions hln_f64_accuracy_bounded.
Print Assumptions hln_f64_accuracy_refuted.
