(** Pure real-number lemmas for the drift bounds of the Welford second-moment accumulators (WdriftP.v). *)
From Coq Require Import List Arith Lia Reals Lra ZArith.
From SF Require Import Res Scalar View Models Spec Core SpecAvg SpecRoll SpecWelf.
From SF.Proofs Require Import Window RBase WinAP AvgP RollP WelfP FltErr Flt2P.
Import ListNotations.
Open Scope R_scope.

Lemma Rabs_triang4 a b c d : Rabs (a + b + c + d) <= Rabs a + Rabs b + Rabs c + Rabs d.
Proof. pose proof (Rabs_triang (a + b + c) d). pose proof (Rabs_triang3 a b c). lra. Qed.

Lemma Rabs_sub_le a b A B : Rabs a <= A -> Rabs b <= B -> Rabs (a - b) <= A + B.
Proof. intros Ha Hb. unfold Rminus. pose proof (Rabs_triang a (- b)). rewrite Rabs_Ropp in *. lra. Qed.

Lemma Rabs_add_le a b A B : Rabs a <= A -> Rabs b <= B -> Rabs (a + b) <= A + B.
Proof. intros Ha Hb. pose proof (Rabs_triang a b). lra. Qed.

Lemma Rabs_1d d u : Rabs d <= u -> Rabs (1 + d) <= 1 + u.
Proof. intros H. pose proof (Rabs_triang 1 d). rewrite Rabs_R1 in *. lra. Qed.

Lemma two_d_bound d1 d2 u : 0 <= u -> Rabs d1 <= u -> Rabs d2 <= u ->
  Rabs ((1 + d1) * (1 + d2) - 1) <= 2 * u + u * u.
Proof.
  intros Hu H1 H2. replace ((1 + d1) * (1 + d2) - 1) with (d1 + d2 + d1 * d2) by ring.
  pose proof (Rabs_triang3 d1 d2 (d1 * d2)). pose proof (Rabs_mul_le d1 d2 u u H1 H2). lra.
Qed.

(** * Sums of squared deviations of bounded data *)
Lemma rsqdev0_le M l : Forall (fun x => Rabs x <= M) l -> rsqdev 0 l <= INR (length l) * (M * M).
Proof.
  induction l as [|x l IH]; intros H.
  - rewrite rsqdev_nil. cbn. lra.
  - inversion H as [|? ? Hx Hl]; subst. specialize (IH Hl). rewrite rsqdev_cons.
    change (length (x :: l)) with (S (length l)). rewrite S_INR.
    assert (Hxx : (x - 0) * (x - 0) <= M * M).
    { rewrite Rminus_0_r. pose proof (Rabs_mul_le x x M M Hx Hx) as P.
      rewrite Rabs_right in P; [exact P|]. apply Rle_ge. pose proof (Rle_0_sqr x) as Q. unfold Rsqr in Q. exact Q. }
    lra.
Qed.

(** the sum of squared deviations from the mean is at most the sum of squares: [0 <= S <= k M^2] *)
Lemma rsqdev_mean_le M l : Forall (fun x => Rabs x <= M) l ->
  0 <= rsqdev (rmean l) l <= INR (length l) * (M * M).
Proof.
  intros H. split; [apply rsqdev_nonneg|].
  rewrite rsqdev_expand. pose proof (Rmean_mul l) as Hmu. rewrite <- Hmu.
  pose proof (rsqdev0_le M l H) as H0. pose proof (pos_INR (length l)) as Hp.
  pose proof (Rle_0_sqr (rmean l)) as Hq. unfold Rsqr in Hq.
  assert (0 <= INR (length l) * (rmean l * rmean l)) by (apply Rmult_le_pos; assumption).
  lra.
Qed.

Lemma spec_rdev_rsqdev h : @spec_rdev R ROps h = rsqdev (rmean h) h.
Proof. reflexivity. Qed.

(** * One rounded product of two perturbed factors *)
Lemma prod_err al be a b d e M E u eta :
  0 <= M -> 0 <= E -> 0 <= u ->
  Rabs al <= 2 * M -> Rabs be <= 2 * M -> Rabs (a - al) <= E -> Rabs (b - be) <= E ->
  Rabs d <= u -> Rabs e <= eta ->
  Rabs (a * b * (1 + d) + e - al * be) <= 4 * M * E + E * E + (2 * M + E) * (2 * M + E) * u + eta.
Proof.
  intros HM HE Hu Hal Hbe Ha Hb Hd He.
  replace (a * b * (1 + d) + e - al * be)
    with (al * (b - be) + (a - al) * be + (a - al) * (b - be) + a * b * d + e) by ring.
  eapply Rle_trans; [apply Rabs_triang5|].
  assert (Ha' : Rabs a <= 2 * M + E).
  { replace a with (al + (a - al)) by ring. apply Rabs_add_le; assumption. }
  assert (Hb' : Rabs b <= 2 * M + E).
  { replace b with (be + (b - be)) by ring. apply Rabs_add_le; assumption. }
  pose proof (Rabs_mul_le al (b - be) _ _ Hal Hb) as T1.
  pose proof (Rabs_mul_le (a - al) be _ _ Ha Hbe) as T2.
  pose proof (Rabs_mul_le (a - al) (b - be) _ _ Ha Hb) as T3.
  pose proof (Rabs_mul_le (a * b) d _ _ (Rabs_mul_le a b _ _ Ha' Hb') Hd) as T4.
  lra.
Qed.

(** a rounded difference [fl(v - m)] against the exact difference [v - mu] *)
Lemma sub_err v m mu d M A u : 0 <= u ->
  Rabs v <= M -> Rabs mu <= M -> Rabs (m - mu) <= A -> Rabs d <= u ->
  Rabs ((v - m) * (1 + d) - (v - mu)) <= A * (1 + u) + 2 * M * u.
Proof.
  intros Hu Hv Hmu Hm Hd.
  replace ((v - m) * (1 + d) - (v - mu)) with (- (m - mu) * (1 + d) + (v - mu) * d) by ring.
  eapply Rle_trans; [apply Rabs_triang|].
  assert (H1 : Rabs (- (m - mu) * (1 + d)) <= A * (1 + u)).
  { apply Rabs_mul_le; [rewrite Rabs_Ropp; exact Hm | apply Rabs_1d; exact Hd]. }
  assert (H2 : Rabs ((v - mu) * d) <= 2 * M * u).
  { apply Rabs_mul_le; [|exact Hd]. replace (2 * M) with (M + M) by ring. apply Rabs_sub_le; assumption. }
  lra.
Qed.

(** accumulating a rounded term into a rounded sum: [fl(s + p)] against [S + P] *)
Lemma acc_err s p S P d del Pe Smax u : 0 <= u ->
  Rabs (s - S) <= del -> Rabs (p - P) <= Pe -> Rabs (S + P) <= Smax -> Rabs d <= u ->
  Rabs ((s + p) * (1 + d) - (S + P)) <= del * (1 + u) + Pe * (1 + u) + Smax * u.
Proof.
  intros Hu Hs Hp HS Hd.
  replace ((s + p) * (1 + d) - (S + P)) with ((s - S) * (1 + d) + (p - P) * (1 + d) + (S + P) * d) by ring.
  eapply Rle_trans; [apply Rabs_triang3|].
  pose proof (Rabs_1d d u Hd) as H1.
  pose proof (Rabs_mul_le (s - S) (1 + d) _ _ Hs H1).
  pose proof (Rabs_mul_le (p - P) (1 + d) _ _ Hp H1).
  pose proof (Rabs_mul_le (S + P) d _ _ HS Hd). lra.
Qed.

Lemma acc_err_sub s p S P d del Pe Smax u : 0 <= u ->
  Rabs (s - S) <= del -> Rabs (p - P) <= Pe -> Rabs (S - P) <= Smax -> Rabs d <= u ->
  Rabs ((s - p) * (1 + d) - (S - P)) <= del * (1 + u) + Pe * (1 + u) + Smax * u.
Proof.
  intros Hu Hs Hp HS Hd.
  replace ((s - p) * (1 + d) - (S - P)) with ((s + - p) * (1 + d) - (S + - P)) by ring.
  apply acc_err; try assumption.
  replace (- p - - P) with (- (p - P)) by ring. rewrite Rabs_Ropp. exact Hp.
Qed.

(** * WelfordRolling second moment: the budget of one step *)
Definition wr_sB (u eta M k : R) : R :=
  (4 * k + 90) * k * (u * (M * M)) + (5 * k * M + 2) * k * eta.

Lemma wr_sB_nonneg u eta M k : 0 <= u -> 0 <= eta -> 0 <= M -> 0 <= k -> 0 <= wr_sB u eta M k.
Proof.
  intros Hu He HM Hk. unfold wr_sB.
  assert (0 <= u * (M * M)) by (apply Rmult_le_pos; [|apply Rmult_le_pos]; assumption).
  assert (0 <= k * M) by (apply Rmult_le_pos; assumption).
  apply Rplus_le_le_0_compat; (apply Rmult_le_pos; [apply Rmult_le_pos; [nra | assumption] | assumption]).
Qed.

(** the mean-drift bound of Flt2P in readable form *)
Lemma wr_a_bound u eta M N : 0 <= u -> 0 <= eta -> 0 <= M -> 0 <= N -> 64 * u <= 1 ->
  0 <= wr_alpha u M + N * wr_P u eta M <= (N + 147 / 16) * (u * M) + N * (65 / 64) * eta.
Proof.
  intros Hu He HM HN Hs.
  pose proof (wr_alpha_nonneg u Hu M HM) as Ha. pose proof (wr_P_nonneg u eta Hu He M HM) as HP.
  split; [apply Rplus_le_le_0_compat; [exact Ha | apply Rmult_le_pos; assumption]|].
  pose proof (cube_small64 u Hu Hs) as Hc. unfold wr_alpha, wr_P, wr_g3.
  assert (H1 : M * ((1 + u) ^ 3 - 1) <= M * (49 / 16 * u)) by (apply Rmult_le_compat_l; assumption).
  assert (H2 : N * eta * u <= N * eta * (/ 64)).
  { apply Rmult_le_compat_l; [apply Rmult_le_pos; assumption | lra]. }
  nra.
Qed.

Lemma wr_s_budget u eta M N : 0 <= u -> 0 <= eta -> 0 <= M ->
  1 <= N -> (N + 16) * u <= 1 / 4 -> N * eta <= M / 8 ->
  forall a E, a = wr_alpha u M + N * wr_P u eta M -> E = a * (1 + u) + 2 * M * u ->
  wr_sB u eta M (N - 1) * (1 + u)
  + (4 * M * E + E * E + (2 * M + E) * (2 * M + E) * u + eta) * (1 + u) + N * (M * M) * u
  <= wr_sB u eta M N.
Proof.
  intros Hu He HM HN Hsm Het a E Ea EE.
  assert (Hu64 : 64 * u <= 1) by nra.
  pose proof (wr_a_bound u eta M N Hu He HM ltac:(lra) Hu64) as [Ha0 Hab]. rewrite <- Ea in Ha0, Hab.
  set (x := u * M) in *. set (w := u * (M * M)). set (z := M * eta).
  assert (Hx0 : 0 <= x) by (apply Rmult_le_pos; assumption).
  assert (Hw0 : 0 <= w) by (apply Rmult_le_pos; [|apply Rmult_le_pos]; assumption).
  assert (Hz0 : 0 <= z) by (apply Rmult_le_pos; assumption).
  assert (HMx : M * x = w) by (unfold x, w; ring).
  assert (HNx : (N + 16) * x <= M / 4).
  { unfold x. replace ((N + 16) * (u * M)) with ((N + 16) * u * M) by ring.
    replace (M / 4) with (1 / 4 * M) by field. apply Rmult_le_compat_r; assumption. }
  assert (HNx0 : 0 <= N * x) by (apply Rmult_le_pos; lra).
  assert (HNe0 : 0 <= N * eta) by (apply Rmult_le_pos; lra).
  assert (Hah : a <= M / 2) by lra.
  assert (Hau : a * u <= a * / 64) by (apply Rmult_le_compat_l; lra).
  assert (HxM : 2 * x <= M / 32) by (unfold x; nra).
  assert (HE1 : E <= 65 / 64 * a + 2 * x) by (rewrite EE; unfold x; lra).
  assert (HE0 : 0 <= E) by (rewrite EE; unfold x in *; nra).
  assert (HE2 : E <= 9 / 16 * M) by lra.
  assert (HEE : E * E <= 9 / 16 * M * E) by (apply Rmult_le_compat_r; assumption).
  assert (HQ : (2 * M + E) * (2 * M + E) <= (41 / 16 * M) * (41 / 16 * M)).
  { apply Rmult_le_compat; lra. }
  assert (HQu : (2 * M + E) * (2 * M + E) * u <= (41 / 16 * M) * (41 / 16 * M) * u).
  { apply Rmult_le_compat_r; assumption. }
  assert (HME : M * E <= 65 / 64 * (M * a) + 2 * w).
  { rewrite <- HMx. replace (65 / 64 * (M * a) + 2 * (M * x)) with (M * (65 / 64 * a + 2 * x)) by ring.
    apply Rmult_le_compat_l; assumption. }
  assert (HMa : M * a <= (N + 147 / 16) * w + N * (65 / 64) * z).
  { replace ((N + 147 / 16) * w + N * (65 / 64) * z) with (M * ((N + 147 / 16) * x + N * (65 / 64) * eta))
      by (unfold w, z, x; ring). apply Rmult_le_compat_l; assumption. }
  set (Pe := 4 * M * E + E * E + (2 * M + E) * (2 * M + E) * u + eta).
  assert (HPe : Pe <= 73 / 16 * (M * E) + 1681 / 256 * w + eta).
  { unfold Pe. assert (Ew : (41 / 16 * M) * (41 / 16 * M) * u = 1681 / 256 * w) by (unfold w; field). lra. }
  assert (HPe0 : 0 <= Pe).
  { unfold Pe. assert (0 <= M * E) by (apply Rmult_le_pos; assumption).
    assert (0 <= E * E) by (apply Rmult_le_pos; assumption).
    assert (0 <= (2 * M + E) * (2 * M + E) * u) by (apply Rmult_le_pos; [apply Rmult_le_pos; lra | assumption]).
    lra. }
  assert (HPeu : Pe * (1 + u) <= Pe * (65 / 64)) by (apply Rmult_le_compat_l; lra).
  (* the growth of the old bound *)
  set (q := (N - 1) * u).
  assert (Hq : 0 <= q <= 1 / 4) by (unfold q; split; [apply Rmult_le_pos; lra | nra]).
  assert (HN1w : 0 <= (N - 1) * w) by (apply Rmult_le_pos; lra).
  assert (HN1z : 0 <= (N - 1) * z) by (apply Rmult_le_pos; lra).
  assert (HN1ww : 0 <= (N - 1) * ((N - 1) * w)) by (apply Rmult_le_pos; lra).
  assert (HN1zz : 0 <= (N - 1) * ((N - 1) * z)) by (apply Rmult_le_pos; lra).
  assert (HG : wr_sB u eta M (N - 1) * u
               <= ((4 * (N - 1) + 90) * w + (5 * ((N - 1) * z) + 2 * eta)) * (1 / 4)).
  { replace (wr_sB u eta M (N - 1) * u)
      with (((4 * (N - 1) + 90) * w + (5 * ((N - 1) * z) + 2 * eta)) * q) by (unfold wr_sB, q, w, z; ring).
    apply Rmult_le_compat_l; [|lra]. lra. }
  assert (HNw : 0 <= N * w) by (apply Rmult_le_pos; lra).
  assert (HNz : 0 <= N * z) by (apply Rmult_le_pos; lra).
  replace (N * (M * M) * u) with (N * w) by (unfold w; ring).
  replace (wr_sB u eta M (N - 1) * (1 + u)) with (wr_sB u eta M (N - 1) + wr_sB u eta M (N - 1) * u) by ring.
  fold Pe.
  assert (EG1 : wr_sB u eta M (N - 1)
                = 4 * ((N - 1) * ((N - 1) * w)) + 90 * ((N - 1) * w) + 5 * ((N - 1) * ((N - 1) * z)) + 2 * ((N - 1) * eta))
    by (unfold wr_sB, w, z; ring).
  assert (EG : wr_sB u eta M N = 4 * (N * (N * w)) + 90 * (N * w) + 5 * (N * (N * z)) + 2 * (N * eta))
    by (unfold wr_sB, w, z; ring).
  rewrite EG, EG1 in *.
  replace ((N - 1) * ((N - 1) * w)) with (N * (N * w) - 2 * (N * w) + w) in * by ring.
  replace ((N - 1) * ((N - 1) * z)) with (N * (N * z) - 2 * (N * z) + z) in * by ring.
  replace ((N - 1) * w) with (N * w - w) in * by ring.
  replace ((N - 1) * z) with (N * z - z) in * by ring.
  replace ((N - 1) * eta) with (N * eta - eta) in * by ring.
  replace ((N + 147 / 16) * w) with (N * w + 147 / 16 * w) in * by ring.
  replace (N * (65 / 64) * z) with (65 / 64 * (N * z)) in * by ring.
  clearbody Pe. lra.
Qed.

(* ------------------------------------------------------------------------------------------ *)
(** * WelfordOnline: the local error of one rounded mean update / downdate *)

(** add:  m' = fl(m + fl(fl(y - m) / D));   D * (m' - (m + (y - m)/D))  is small *)
Lemma eps_add y m D d1 d2 d3 e2 Ym Mm u eta : 0 <= u -> 0 < D ->
  Rabs (y - m) <= Ym -> Rabs m <= Mm ->
  Rabs d1 <= u -> Rabs d2 <= u -> Rabs d3 <= u -> Rabs e2 <= eta ->
  Rabs (D * ((m + ((y - m) * (1 + d1) / D * (1 + d2) + e2)) * (1 + d3) - m) - (y - m))
  <= Ym * wr_g3 u + D * (Mm * u + eta * (1 + u)).
Proof.
  intros Hu HD Hy Hm H1 H2 H3 He.
  replace (D * ((m + ((y - m) * (1 + d1) / D * (1 + d2) + e2)) * (1 + d3) - m) - (y - m))
    with ((y - m) * ((1 + d1) * (1 + d2) * (1 + d3) - 1) + D * (m * d3 + e2 * (1 + d3))) by (field; lra).
  eapply Rle_trans; [apply Rabs_triang|].
  pose proof (three_d_bound d1 d2 d3 u Hu H1 H2 H3) as Hg. fold (wr_g3 u) in Hg.
  pose proof (Rabs_mul_le _ _ _ _ Hy Hg) as T1.
  pose proof (Rabs_mul_le _ _ _ _ Hm H3) as T2.
  pose proof (Rabs_mul_le _ _ _ _ He (Rabs_1d d3 u H3)) as T3.
  pose proof (Rabs_add_le _ _ _ _ T2 T3) as T4.
  assert (T5 : Rabs (D * (m * d3 + e2 * (1 + d3))) <= D * (Mm * u + eta * (1 + u))).
  { rewrite Rabs_mult, (Rabs_right D) by lra. apply Rmult_le_compat_l; lra. }
  lra.
Qed.

(** remove:  m1 = fl(m - fl(fl(y - m) / D));   D * (m1 - (m - (y - m)/D))  is small *)
Lemma eps_rm y m D d1 d2 d3 e2 Ym Mm u eta : 0 <= u -> 0 < D ->
  Rabs (y - m) <= Ym -> Rabs m <= Mm ->
  Rabs d1 <= u -> Rabs d2 <= u -> Rabs d3 <= u -> Rabs e2 <= eta ->
  Rabs (D * ((m - ((y - m) * (1 + d1) / D * (1 + d2) + e2)) * (1 + d3) - m) + (y - m))
  <= Ym * wr_g3 u + D * (Mm * u + eta * (1 + u)).
Proof.
  intros Hu HD Hy Hm H1 H2 H3 He.
  replace (D * ((m - ((y - m) * (1 + d1) / D * (1 + d2) + e2)) * (1 + d3) - m) + (y - m))
    with (- (y - m) * ((1 + d1) * (1 + d2) * (1 + d3) - 1) + D * (m * d3 + - e2 * (1 + d3))) by (field; lra).
  eapply Rle_trans; [apply Rabs_triang|].
  pose proof (three_d_bound d1 d2 d3 u Hu H1 H2 H3) as Hg. fold (wr_g3 u) in Hg.
  assert (Hy' : Rabs (- (y - m)) <= Ym) by (rewrite Rabs_Ropp; exact Hy).
  assert (He' : Rabs (- e2) <= eta) by (rewrite Rabs_Ropp; exact He).
  pose proof (Rabs_mul_le _ _ _ _ Hy' Hg) as T1.
  pose proof (Rabs_mul_le _ _ _ _ Hm H3) as T2.
  pose proof (Rabs_mul_le _ _ _ _ He' (Rabs_1d d3 u H3)) as T3.
  pose proof (Rabs_add_le _ _ _ _ T2 T3) as T4.
  assert (T5 : Rabs (D * (m * d3 + - e2 * (1 + d3))) <= D * (Mm * u + eta * (1 + u))).
  { rewrite Rabs_mult, (Rabs_right D) by lra. apply Rmult_le_compat_l; lra. }
  lra.
Qed.

(** per-update drift of the WelfordOnline mean *)
Definition wo_Cm (u eta M : R) : R := 10 * u * M + 3 * eta.

Lemma wo_Cm_nonneg u eta M : 0 <= u -> 0 <= eta -> 0 <= M -> 0 <= wo_Cm u eta M.
Proof. intros. unfold wo_Cm. assert (0 <= u * M) by (apply Rmult_le_pos; assumption). lra. Qed.

(** bounds of the local errors (times the divisor) *)
Definition wo_Rb (u eta M K : R) : R := 17 / 8 * M * wr_g3 u + K * (9 / 8 * M * u + eta * (1 + u)).
Definition wo_Ab (u eta M N : R) : R := 5 / 2 * M * wr_g3 u + N * (3 / 2 * M * u + eta * (1 + u)).

Lemma wo_RbAb_lin u eta M D : 0 <= u -> 0 <= eta -> 0 <= M -> 0 <= D -> 64 * u <= 1 ->
  0 <= wo_Rb u eta M D <= 833 / 128 * (u * M) + D * (9 / 8 * (u * M) + 65 / 64 * eta) /\
  0 <= wo_Ab u eta M D <= 245 / 32 * (u * M) + D * (3 / 2 * (u * M) + 65 / 64 * eta).
Proof.
  intros Hu He HM HD Hs. pose proof (cube_small64 u Hu Hs) as Hc. fold (wr_g3 u) in Hc.
  pose proof (wr_g3_nonneg u Hu) as Hg.
  assert (H1 : M * wr_g3 u <= M * (49 / 16 * u)) by (apply Rmult_le_compat_l; assumption).
  assert (H0 : 0 <= M * wr_g3 u) by (apply Rmult_le_pos; assumption).
  assert (H2 : eta * u <= eta * / 64) by (apply Rmult_le_compat_l; lra).
  assert (H3 : 0 <= eta * u) by (apply Rmult_le_pos; assumption).
  assert (H4 : 0 <= u * M) by (apply Rmult_le_pos; assumption).
  assert (H5 : D * (9 / 8 * M * u + eta * (1 + u)) <= D * (9 / 8 * (u * M) + 65 / 64 * eta))
    by (apply Rmult_le_compat_l; lra).
  assert (H6 : D * (3 / 2 * M * u + eta * (1 + u)) <= D * (3 / 2 * (u * M) + 65 / 64 * eta))
    by (apply Rmult_le_compat_l; lra).
  assert (H7 : 0 <= D * (9 / 8 * M * u + eta * (1 + u))) by (apply Rmult_le_pos; nra).
  assert (H8 : 0 <= D * (3 / 2 * M * u + eta * (1 + u))) by (apply Rmult_le_pos; nra).
  unfold wo_Rb, wo_Ab. repeat split; lra.
Qed.

(** warm-up (only an add) and steady state (a remove then an add): the local errors fit the budget *)
Lemma wo_mean_budget_warm u eta M N : 0 <= u -> 0 <= eta -> 0 <= M -> 1 <= N -> 64 * u <= 1 ->
  wo_Ab u eta M N <= N * wo_Cm u eta M.
Proof.
  intros Hu He HM HN Hs. destruct (wo_RbAb_lin u eta M N Hu He HM ltac:(lra) Hs) as [_ [_ H]].
  eapply Rle_trans; [exact H|]. unfold wo_Cm.
  assert (0 <= u * M) by (apply Rmult_le_pos; assumption). nra.
Qed.

Lemma wo_mean_budget_steady u eta M N : 0 <= u -> 0 <= eta -> 0 <= M -> 2 <= N -> 64 * u <= 1 ->
  wo_Rb u eta M (N - 1) + wo_Ab u eta M N <= N * wo_Cm u eta M.
Proof.
  intros Hu He HM HN Hs. destruct (wo_RbAb_lin u eta M N Hu He HM ltac:(lra) Hs) as [_ [_ H]].
  destruct (wo_RbAb_lin u eta M (N - 1) Hu He HM ltac:(lra) Hs) as [[_ H'] _].
  unfold wo_Cm. assert (0 <= u * M) by (apply Rmult_le_pos; assumption). nra.
Qed.

(** after the remove the mean is still within M/2 of the exact one *)
Lemma wo_e1_bound u eta M N e Ke : 0 <= u -> 0 <= eta -> 0 <= M -> 2 <= N -> 160 * u <= 1 -> 48 * eta <= M ->
  Rabs e <= M / 8 -> Rabs Ke <= wo_Rb u eta M (N - 1) ->
  Rabs (e * N / (N - 1) + Ke / (N - 1)) <= M / 2.
Proof.
  intros Hu He HM HN Hs Het Hee HKe.
  destruct (wo_RbAb_lin u eta M (N - 1) Hu He HM ltac:(lra) ltac:(lra)) as [[_ H'] _].
  assert (HK : 0 < N - 1) by lra. assert (HKi : 0 < / (N - 1)) by (apply Rinv_0_lt_compat; exact HK).
  assert (HKi1 : / (N - 1) <= 1) by (rewrite <- Rinv_1; apply Rinv_le_contravar; lra).
  assert (HNK : N * / (N - 1) <= 2).
  { apply Rmult_le_reg_r with (N - 1); [exact HK|]. rewrite Rmult_assoc, Rinv_l by lra. lra. }
  assert (HNK0 : 0 <= N * / (N - 1)) by (apply Rmult_le_pos; lra).
  unfold Rdiv. eapply Rle_trans; [apply Rabs_triang|].
  assert (T1 : Rabs (e * N * / (N - 1)) <= M / 8 * 2).
  { rewrite Rmult_assoc. rewrite Rabs_mult, (Rabs_right (N * / (N - 1))) by lra.
    pose proof (Rabs_pos e). apply Rmult_le_compat; lra. }
  assert (HxM : u * M <= M / 160) by nra.
  assert (HuM0 : 0 <= u * M) by (apply Rmult_le_pos; assumption).
  assert (T2 : Rabs (Ke * / (N - 1)) <= 833 / 128 * (u * M) + (9 / 8 * (u * M) + 65 / 64 * eta)).
  { rewrite Rabs_mult, (Rabs_right (/ (N - 1))) by lra.
    apply Rmult_le_reg_r with (N - 1); [exact HK|]. rewrite Rmult_assoc, Rinv_l, Rmult_1_r by lra.
    eapply Rle_trans; [exact HKe|]. eapply Rle_trans; [exact H'|]. nra. }
  lra.
Qed.

(* ------------------------------------------------------------------------------------------ *)
(** * WelfordOnline m2: the quantity  Omega = m2 - (sum y^2 - c m^2)  (m the COMPUTED mean, c the count)
    is an exact invariant of Welford's update and downdate whatever the mean is; under rounding it moves
    only by local errors. *)

Lemma prod_rel A0 B0 d1 d4 d5 e5 Xb u eta : 0 <= u -> Rabs (A0 * B0) <= Xb ->
  Rabs d1 <= u -> Rabs d4 <= u -> Rabs d5 <= u -> Rabs e5 <= eta ->
  Rabs (A0 * (1 + d1) * (B0 * (1 + d4)) * (1 + d5) + e5 - A0 * B0) <= Xb * wr_g3 u + eta.
Proof.
  intros Hu HX H1 H4 H5 He.
  replace (A0 * (1 + d1) * (B0 * (1 + d4)) * (1 + d5) + e5 - A0 * B0)
    with (A0 * B0 * ((1 + d1) * (1 + d4) * (1 + d5) - 1) + e5) by ring.
  eapply Rle_trans; [apply Rabs_triang|].
  pose proof (three_d_bound d1 d4 d5 u Hu H1 H4 H5) as Hg. fold (wr_g3 u) in Hg.
  pose proof (Rabs_mul_le _ _ _ _ HX Hg). lra.
Qed.

Lemma omega_add_bound K N Qw v m m' m2 p d6 Eb Sm Xb Pb Om Cap u : N = K + 1 -> 0 <= u ->
  Rabs (N * (m' - m) - (v - m)) <= Eb -> Rabs (m' + m) <= Sm ->
  Rabs ((v - m) * (v - m')) <= Xb -> Rabs (p - (v - m) * (v - m')) <= Pb ->
  Rabs (m2 - (Qw - K * m * m)) <= Om -> Rabs (Qw - K * m * m) <= Cap -> Rabs d6 <= u ->
  Rabs (((m2 + p) * (1 + d6) - (Qw + v * v - N * m' * m')) - (m2 - (Qw - K * m * m)))
  <= Eb * Sm + Pb * (1 + u) + (Om + Cap + Xb) * u.
Proof.
  intros EN Hu HE HS HX HP HO HC Hd. subst N.
  replace (((m2 + p) * (1 + d6) - (Qw + v * v - (K + 1) * m' * m')) - (m2 - (Qw - K * m * m)))
    with (((K + 1) * (m' - m) - (v - m)) * (m' + m) + (p - (v - m) * (v - m')) * (1 + d6)
          + ((m2 - (Qw - K * m * m)) + (Qw - K * m * m) + (v - m) * (v - m')) * d6) by ring.
  eapply Rle_trans; [apply Rabs_triang3|].
  pose proof (Rabs_mul_le _ _ _ _ HE HS) as T1.
  pose proof (Rabs_mul_le _ _ _ _ HP (Rabs_1d d6 u Hd)) as T2.
  pose proof (Rabs_triang3 (m2 - (Qw - K * m * m)) (Qw - K * m * m) ((v - m) * (v - m'))) as T0.
  assert (T3 : Rabs (((m2 - (Qw - K * m * m)) + (Qw - K * m * m) + (v - m) * (v - m')) * d6) <= (Om + Cap + Xb) * u).
  { apply Rabs_mul_le; [lra | exact Hd]. }
  lra.
Qed.

Lemma omega_rm_bound K N Qw x m m1 m2 p d6 Eb Sm Xb Pb Om Cap u : N = K + 1 -> 0 <= u ->
  Rabs (K * (m1 - m) + (x - m)) <= Eb -> Rabs (m + m1) <= Sm ->
  Rabs ((x - m) * (x - m1)) <= Xb -> Rabs (p - (x - m) * (x - m1)) <= Pb ->
  Rabs (m2 - (x * x + Qw - N * m * m)) <= Om -> Rabs (x * x + Qw - N * m * m) <= Cap -> Rabs d6 <= u ->
  Rabs (((m2 - p) * (1 + d6) - (Qw - K * m1 * m1)) - (m2 - (x * x + Qw - N * m * m)))
  <= Eb * Sm + Pb * (1 + u) + (Om + Cap + Xb) * u.
Proof.
  intros EN Hu HE HS HX HP HO HC Hd. subst N.
  replace (((m2 - p) * (1 + d6) - (Qw - K * m1 * m1)) - (m2 - (x * x + Qw - (K + 1) * m * m)))
    with ((K * (m1 - m) + (x - m)) * (m + m1) + - (p - (x - m) * (x - m1)) * (1 + d6)
          + ((m2 - (x * x + Qw - (K + 1) * m * m)) + (x * x + Qw - (K + 1) * m * m) + - ((x - m) * (x - m1))) * d6) by ring.
  eapply Rle_trans; [apply Rabs_triang3|].
  pose proof (Rabs_mul_le _ _ _ _ HE HS) as T1.
  assert (HP' : Rabs (- (p - (x - m) * (x - m1))) <= Pb) by (rewrite Rabs_Ropp; exact HP).
  pose proof (Rabs_mul_le _ _ _ _ HP' (Rabs_1d d6 u Hd)) as T2.
  pose proof (Rabs_triang3 (m2 - (x * x + Qw - (K + 1) * m * m)) (x * x + Qw - (K + 1) * m * m) (- ((x - m) * (x - m1)))) as T0.
  rewrite Rabs_Ropp in T0.
  assert (T3 : Rabs (((m2 - (x * x + Qw - (K + 1) * m * m)) + (x * x + Qw - (K + 1) * m * m) + - ((x - m) * (x - m1))) * d6)
               <= (Om + Cap + Xb) * u).
  { apply Rabs_mul_le; [lra | exact Hd]. }
  lra.
Qed.

(** |sum y^2 - c m^2| <= c Mb^2 when |y| <= M <= Mb and |m| <= Mb *)
Lemma cap_bound Q c m M Mb : 0 <= Q <= c * (M * M) -> 0 <= c -> 0 <= M <= Mb -> Rabs m <= Mb ->
  Rabs (Q - c * m * m) <= c * (Mb * Mb).
Proof.
  intros HQ Hc HM Hm.
  assert (Hmm : 0 <= m * m <= Mb * Mb).
  { pose proof (Rle_0_sqr m) as Q0. unfold Rsqr in Q0. split; [exact Q0|].
    pose proof (Rabs_mul_le m m Mb Mb Hm Hm) as P. rewrite Rabs_right in P by lra. exact P. }
  assert (HMM : M * M <= Mb * Mb) by (apply Rmult_le_compat; lra).
  assert (H1 : c * (M * M) <= c * (Mb * Mb)) by (apply Rmult_le_compat_l; lra).
  assert (H2 : 0 <= c * (m * m) <= c * (Mb * Mb)).
  { split; [apply Rmult_le_pos; lra | apply Rmult_le_compat_l; lra]. }
  apply Rabs_le'. replace (c * m * m) with (c * (m * m)) by ring. lra.
Qed.

(** per-update drift of Omega for a window of N values *)
Definition wo_Cq (u eta M N : R) : R := (11 * N + 80) * (u * (M * M)) + (6 * N * M + 3) * eta.

Lemma wo_Cq_nonneg u eta M N : 0 <= u -> 0 <= eta -> 0 <= M -> 0 <= N -> 0 <= wo_Cq u eta M N.
Proof.
  intros Hu He HM HN. unfold wo_Cq.
  assert (0 <= u * (M * M)) by (apply Rmult_le_pos; [|apply Rmult_le_pos]; assumption).
  assert (0 <= N * M) by (apply Rmult_le_pos; assumption).
  apply Rplus_le_le_0_compat; apply Rmult_le_pos; try assumption; nra.
Qed.

(** the parts of the two increments that do not involve Omega itself *)
Definition wo_D0rm (u eta M N : R) : R :=
  wo_Rb u eta M (N - 1) * (21 / 8 * M) + (85 / 16 * (M * M) * wr_g3 u + eta) * (1 + u)
  + (81 / 64 * N * (M * M) + 85 / 16 * (M * M)) * u.
Definition wo_D0add (u eta M Nc : R) : R :=
  wo_Ab u eta M Nc * (21 / 8 * M) + (85 / 16 * (M * M) * wr_g3 u + eta) * (1 + u)
  + (9 / 4 * (Nc - 1) * (M * M) + 85 / 16 * (M * M)) * u.

Lemma wo_D0_lin u eta M N Nc : 0 <= u -> 0 <= eta -> 0 <= M -> 1 <= Nc <= N -> 64 * u <= 1 ->
  0 <= wo_D0rm u eta M N <= 39 * (u * (M * M)) + 2954 / 1000 * ((N - 1) * (u * (M * M))) + 1266 / 1000 * (N * (u * (M * M)))
                            + 2667 / 1000 * ((N - 1) * (M * eta)) + 65 / 64 * eta /\
  0 <= wo_D0add u eta M Nc <= 42 * (u * (M * M)) + 39375 / 10000 * (N * (u * (M * M))) + 9 / 4 * ((N - 1) * (u * (M * M)))
                              + 2667 / 1000 * (N * (M * eta)) + 65 / 64 * eta.
Proof.
  intros Hu He HM [HNc HN] Hs.
  destruct (wo_RbAb_lin u eta M (N - 1) Hu He HM ltac:(lra) Hs) as [[HR0 HR] _].
  destruct (wo_RbAb_lin u eta M Nc Hu He HM ltac:(lra) Hs) as [_ [HA0 HA]].
  pose proof (cube_small64 u Hu Hs) as Hc. fold (wr_g3 u) in Hc. pose proof (wr_g3_nonneg u Hu) as Hg.
  set (w := u * (M * M)). set (z := M * eta). set (x := u * M) in *.
  assert (Hw0 : 0 <= w) by (apply Rmult_le_pos; [|apply Rmult_le_pos]; assumption).
  assert (Hz0 : 0 <= z) by (apply Rmult_le_pos; assumption).
  assert (Hx0 : 0 <= x) by (apply Rmult_le_pos; assumption).
  assert (HMM : 0 <= M * M) by (apply Rmult_le_pos; assumption).
  assert (Hg1 : M * M * wr_g3 u <= M * M * (49 / 16 * u)) by (apply Rmult_le_compat_l; assumption).
  assert (Hg0 : 0 <= M * M * wr_g3 u) by (apply Rmult_le_pos; assumption).
  assert (Ew : M * M * u = w) by (unfold w; ring).
  set (Pt := 85 / 16 * (M * M) * wr_g3 u + eta).
  assert (HPt : 0 <= Pt <= 85 / 16 * (49 / 16) * w + eta) by (unfold Pt; lra).
  assert (HPtu : Pt * (1 + u) <= Pt * (65 / 64)) by (apply Rmult_le_compat_l; lra).
  assert (HPtu0 : 0 <= Pt * (1 + u)) by (apply Rmult_le_pos; lra).
  assert (HRM : wo_Rb u eta M (N - 1) * (21 / 8 * M)
                <= (833 / 128 * x + (N - 1) * (9 / 8 * x + 65 / 64 * eta)) * (21 / 8 * M))
    by (apply Rmult_le_compat_r; lra).
  assert (HRM0 : 0 <= wo_Rb u eta M (N - 1) * (21 / 8 * M)) by (apply Rmult_le_pos; lra).
  assert (HAM : wo_Ab u eta M Nc * (21 / 8 * M)
                <= (245 / 32 * x + Nc * (3 / 2 * x + 65 / 64 * eta)) * (21 / 8 * M))
    by (apply Rmult_le_compat_r; lra).
  assert (HAM0 : 0 <= wo_Ab u eta M Nc * (21 / 8 * M)) by (apply Rmult_le_pos; lra).
  assert (ExM : x * M = w) by (unfold x, w; ring).
  assert (HNw : 0 <= (N - 1) * w) by (apply Rmult_le_pos; lra).
  assert (HNz : 0 <= (N - 1) * z) by (apply Rmult_le_pos; lra).
  assert (HNcw : Nc * w <= N * w) by (apply Rmult_le_compat_r; lra).
  assert (HNcz : Nc * z <= N * z) by (apply Rmult_le_compat_r; lra).
  assert (HNcw0 : 0 <= (Nc - 1) * w) by (apply Rmult_le_pos; lra).
  assert (HNcw1 : (Nc - 1) * w <= (N - 1) * w) by (apply Rmult_le_compat_r; lra).
  assert (E1 : (833 / 128 * x + (N - 1) * (9 / 8 * x + 65 / 64 * eta)) * (21 / 8 * M)
               = 833 / 128 * (21 / 8) * w + 9 / 8 * (21 / 8) * ((N - 1) * w) + 65 / 64 * (21 / 8) * ((N - 1) * z))
    by (unfold w, z, x; field).
  assert (E2 : (245 / 32 * x + Nc * (3 / 2 * x + 65 / 64 * eta)) * (21 / 8 * M)
               = 245 / 32 * (21 / 8) * w + 3 / 2 * (21 / 8) * (Nc * w) + 65 / 64 * (21 / 8) * (Nc * z))
    by (unfold w, z, x; field).
  assert (E3 : (81 / 64 * N * (M * M) + 85 / 16 * (M * M)) * u = 81 / 64 * (N * w) + 85 / 16 * w) by (unfold w; field).
  assert (E4 : (9 / 4 * (Nc - 1) * (M * M) + 85 / 16 * (M * M)) * u = 9 / 4 * ((Nc - 1) * w) + 85 / 16 * w) by (unfold w; field).
  unfold wo_D0rm, wo_D0add. fold Pt. rewrite E3, E4. rewrite E1 in HRM. rewrite E2 in HAM.
  assert (HNw' : 0 <= N * w) by (apply Rmult_le_pos; lra).
  assert (HNcw' : 0 <= Nc * w) by (apply Rmult_le_pos; lra).
  assert (HNcz' : 0 <= Nc * z) by (apply Rmult_le_pos; lra).
  repeat split; lra.
Qed.

(** steady state: remove-increment + add-increment <= Cq, with Omega <= k Cq and k u <= 1/160 *)
Lemma wo_m2_budget u eta M N Nc Om : 0 <= u -> 0 <= eta -> 0 <= M -> 2 <= N -> 1 <= Nc <= N -> 160 * u <= 1 ->
  0 <= Om -> Om * u <= wo_Cq u eta M N / 160 ->
  let Drm := wo_D0rm u eta M N + Om * u in
  let Dadd := wo_D0add u eta M Nc + (Om + Drm) * u in
  Drm + Dadd <= wo_Cq u eta M N /\ wo_D0add u eta M Nc + Om * u <= wo_Cq u eta M N.
Proof.
  intros Hu He HM HN HNc Hs HOm HOu Drm Dadd.
  destruct (wo_D0_lin u eta M N Nc Hu He HM HNc ltac:(lra)) as [[HR0 HR] [HA0 HA]].
  pose proof (wo_Cq_nonneg u eta M N Hu He HM ltac:(lra)) as HC0.
  assert (EC : wo_Cq u eta M N = 11 * (N * (u * (M * M))) + 80 * (u * (M * M)) + 6 * (N * (M * eta)) + 3 * eta)
    by (unfold wo_Cq; ring).
  set (w := u * (M * M)) in *. set (z := M * eta) in *.
  assert (Hw0 : 0 <= w) by (apply Rmult_le_pos; [|apply Rmult_le_pos]; assumption).
  assert (Hz0 : 0 <= z) by (apply Rmult_le_pos; assumption).
  assert (HNw : 0 <= N * w) by (apply Rmult_le_pos; lra).
  assert (HNz : 0 <= N * z) by (apply Rmult_le_pos; lra).
  replace ((N - 1) * w) with (N * w - w) in * by ring.
  replace ((N - 1) * z) with (N * z - z) in * by ring.
  assert (HRu : wo_D0rm u eta M N * u <= wo_D0rm u eta M N * / 64) by (apply Rmult_le_compat_l; lra).
  assert (HOuu : Om * u * u <= Om * u * / 64).
  { apply Rmult_le_compat_l; [apply Rmult_le_pos; assumption | lra]. }
  assert (HOu0 : 0 <= Om * u) by (apply Rmult_le_pos; assumption).
  unfold Dadd, Drm. split.
  - replace (wo_D0rm u eta M N + Om * u + (wo_D0add u eta M Nc + (Om + (wo_D0rm u eta M N + Om * u)) * u))
      with (wo_D0rm u eta M N + wo_D0rm u eta M N * u + wo_D0add u eta M Nc + 2 * (Om * u) + Om * u * u) by ring.
    clearbody w z. lra.
  - clearbody w z. lra.
Qed.
