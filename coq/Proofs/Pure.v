(** C14: combinators are pointwise, stateless functions of their children (generic: holds for every
    scalar instance, floats included). *)
From Coq Require Import List Arith Lia.
From SF Require Import Res Scalar View Models.
From SF.Proofs Require Import Chain.
Import ListNotations.
Set Implicit Arguments.

Section Pure.
Context {T : Type} {OT : Ops T}.

Definition lift2 (g : T -> T -> T) (oa ob : option T) : option T :=
  match oa, ob with Some x, Some y => Some (g x y) | _, _ => None end.

Fixpoint map2 {A B C} (g : A -> B -> C) (la : list A) (lb : list B) : list C :=
  match la, lb with x :: la', y :: lb' => g x y :: map2 g la' lb' | _, _ => [] end.

Lemma zipf_total (g : T -> T -> T) la lb :
  zipf (fun a b => Ok (g a b)) la lb = Ok (map2 (lift2 g) la lb).
Proof.
  revert lb; induction la as [|oa la IH]; intros lb; destruct lb as [|ob lb]; cbn; try reflexivity.
  rewrite IH. destruct oa, ob; reflexivity.
Qed.

Theorem add_pointwise (a b : view T) xs la lb :
  mrun a xs = Ok la -> mrun b xs = Ok lb -> mrun (vadd a b) xs = Ok (map2 (lift2 sadd) la lb).
Proof. intros Ha Hb. unfold vadd. rewrite (mrun_binop _ _ _ _ Ha Hb). apply zipf_total. Qed.
Theorem sub_pointwise (a b : view T) xs la lb :
  mrun a xs = Ok la -> mrun b xs = Ok lb -> mrun (vsub a b) xs = Ok (map2 (lift2 ssub) la lb).
Proof. intros Ha Hb. unfold vsub. rewrite (mrun_binop _ _ _ _ Ha Hb). apply zipf_total. Qed.
Theorem mul_pointwise (a b : view T) xs la lb :
  mrun a xs = Ok la -> mrun b xs = Ok lb -> mrun (vmul a b) xs = Ok (map2 (lift2 smul) la lb).
Proof. intros Ha Hb. unfold vmul. rewrite (mrun_binop _ _ _ _ Ha Hb). apply zipf_total. Qed.
(** division: exactly the monadic zip of [sdiv] (an error only where [sdiv] of two present values is) *)
Theorem div_pointwise (a b : view T) xs la lb :
  mrun a xs = Ok la -> mrun b xs = Ok lb -> mrun (vdiv a b) xs = zipf sdiv la lb.
Proof. intros Ha Hb. unfold vdiv. apply mrun_binop; assumption. Qed.

Theorem tanh_pointwise (a : view T) xs la :
  mrun a xs = Ok la -> mrun (vtanh a) xs = mapf stanh la.
Proof. intros Ha. unfold vtanh. apply mrun_mapview; assumption. Qed.

(** GTE / LTE: clip of the child's current output; the previous answer is held only while the child
    is silent *)
Fixpoint hold (g : T -> T) (prev : option T) (os : list (option T)) : list (option T) :=
  match os with
  | [] => []
  | None :: r => prev :: hold g prev r
  | Some v :: r => Some (g v) :: hold g (Some (g v)) r
  end.

Lemma replay_gte clip s os :
  replay_from (gte_core clip) s os = Ok (hold (fun v => if sgeb v clip then v else clip) s os).
Proof.
  revert s; induction os as [|o os IH]; intros s; cbn; [reflexivity|].
  destruct o as [v|]; cbn; rewrite IH; reflexivity.
Qed.
Lemma replay_lte clip s os :
  replay_from (lte_core clip) s os = Ok (hold (fun v => if sleb v clip then v else clip) s os).
Proof.
  revert s; induction os as [|o os IH]; intros s; cbn; [reflexivity|].
  destruct o as [v|]; cbn; rewrite IH; reflexivity.
Qed.

Theorem gte_pointwise clip (a : view T) xs la :
  mrun a xs = Ok la ->
  mrun (wrap (gte_core clip) a) xs = Ok (hold (fun v => if sgeb v clip then v else clip) None la).
Proof. intros Ha. rewrite (mrun_wrap (gte_core clip) a xs Ha (sc:=None)); [apply replay_gte | reflexivity]. Qed.
Theorem lte_pointwise clip (a : view T) xs la :
  mrun a xs = Ok la ->
  mrun (wrap (lte_core clip) a) xs = Ok (hold (fun v => if sleb v clip then v else clip) None la).
Proof. intros Ha. rewrite (mrun_wrap (lte_core clip) a xs Ha (sc:=None)); [apply replay_lte | reflexivity]. Qed.

Theorem echo_latest (xs : list T) : mrun (@echo T) xs = Ok (map Some xs).
Proof. unfold mrun; cbn. apply mrun_from_echo. Qed.

Theorem constant_always (c : T) (xs : list T) : mrun (constant c) xs = Ok (map (fun _ => Some c) xs).
Proof.
  unfold mrun; cbn. generalize tt. induction xs as [|x xs IH]; intros u; cbn; [reflexivity|].
  rewrite IH. reflexivity.
Qed.

(** statelessness: the combinator's state after any input is the pair of its children's states *)
Theorem binop_stateless f (a b : view T) xs sa sb :
  state_after a xs = Ok sa -> state_after b xs = Ok sb -> state_after (binop f a b) xs = Ok (sa, sb).
Proof.
  unfold state_after; cbn. destruct (vnew a) as [sa0|]; cbn; [|discriminate].
  destruct (vnew b) as [sb0|]; cbn; [|discriminate]. apply steps_binop.
Qed.

End Pure.
