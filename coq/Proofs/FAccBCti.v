(** C16 / C06 at f64 for CorrelationTrendIndicator: what is TRUE and what is not.
    TRUE (already proved, [cti_range_f64] in FltP.v): every f64 answer lies in [-1, 1] (the clamp).
    FALSE: any accuracy statement relative to the exact answer, however weak.  The sums are recomputed over the window
    (no drift), but  n * Sxx - Sx^2  cancels: on the perfectly affine window  10^8, 10^8 + 1, 10^8 + 2  (window 3) the exact
    variance term is 6 and the exact answer is 1, while in f64 the squares 10^16 + ... are not representable, the
    variance term evaluates to a non-positive number, the view takes its "no variance" branch and answers 0:
    an absolute error of 1 on an answer whose range is [-1, 1] ([cti_f64_accuracy_refuted]); with window 4 the f64
    answer is 0.79 instead of 1 ([cti_f64_accuracy_refuted4]).  The branch decision [vx > 0] itself differs between
    the float run and the exact run. *)
From Coq Require Import List Arith Lia Reals Lra ZArith Floats Bool.
From SF Require Import Res Scalar View Models Core Spec FloatOps.
From SF.Proofs Require Import Window RBase FltErr FltBridge Flt2P Flt2B64 Flt2Prim BridgeOps FRangeBase FAccBase CorrP FltP.
Import ListNotations.
Open Scope R_scope.

Local Notation F := PrimFloat.float.

Definition cti_w3 : list F := [f_of_Z 100000000; f_of_Z 100000001; f_of_Z 100000002].
Definition cti_w4 : list F := [f_of_Z 100000000; f_of_Z 100000001; f_of_Z 100000002; f_of_Z 100000003].

Lemma f2r_ofZ z : (Z.abs z < 2 ^ 53)%Z -> f2r (f_of_Z z) = IZR z.
Proof. intros H. exact (proj2 (f_of_Z_exact z H)). Qed.

Theorem cti_f64_accuracy_refuted : exists n (fs : list F) (v : F),
  (2 <= n)%nat /\ forallb ffinite fs = true /\ Forall (fun x => 0 < f2r x <= 100000002) fs /\
  cout (@cti_core F FOps n) fs = Ok (Some v) /\ ffinite v = true /\
  f2r v = 0 /\ cout (@cti_core R ROps n) (map f2r fs) = Ok (Some 1).
Proof.
  exists 3%nat, cti_w3, PrimFloat.zero.
  split; [lia|]. split; [vm_compute; reflexivity|].
  assert (E0 : f2r (f_of_Z 100000000) = 100000000) by (apply f2r_ofZ; reflexivity).
  assert (E1 : f2r (f_of_Z 100000001) = 100000001) by (apply f2r_ofZ; reflexivity).
  assert (E2 : f2r (f_of_Z 100000002) = 100000002) by (apply f2r_ofZ; reflexivity).
  split; [unfold cti_w3; repeat constructor; rewrite ?E0, ?E1, ?E2; lra|].
  split; [vm_compute; reflexivity|].
  split; [exact (proj1 prim_zero_fin)|]. split; [exact (proj2 prim_zero_fin)|].
  apply (proj1 (cti_affine 3 100000000 1 (map f2r cti_w3) ltac:(lia)
           ltac:(unfold cti_w3; cbn [map]; rewrite E0, E1, E2; unfold lastn; cbn [length skipn Nat.sub seq map INR]; repeat f_equal; lra))).
  lra.
Qed.

Local Set Warnings "-inexact-float".
Theorem cti_f64_accuracy_refuted4 : exists n (fs : list F) (v : F),
  (2 <= n)%nat /\ forallb ffinite fs = true /\
  cout (@cti_core F FOps n) fs = Ok (Some v) /\ v = 0.79056941504209477%float /\
  cout (@cti_core R ROps n) (map f2r fs) = Ok (Some 1).
Proof.
  exists 4%nat, cti_w4, 0.79056941504209477%float.
  split; [lia|]. split; [vm_compute; reflexivity|].
  assert (E0 : f2r (f_of_Z 100000000) = 100000000) by (apply f2r_ofZ; reflexivity).
  assert (E1 : f2r (f_of_Z 100000001) = 100000001) by (apply f2r_ofZ; reflexivity).
  assert (E2 : f2r (f_of_Z 100000002) = 100000002) by (apply f2r_ofZ; reflexivity).
  assert (E3 : f2r (f_of_Z 100000003) = 100000003) by (apply f2r_ofZ; reflexivity).
  split; [vm_compute; reflexivity|]. split; [reflexivity|].
  apply (proj1 (cti_affine 4 100000000 1 (map f2r cti_w4) ltac:(lia)
           ltac:(unfold cti_w4; cbn [map]; rewrite E0, E1, E2, E3; unfold lastn; cbn [length skipn Nat.sub seq map INR]; repeat f_equal; lra))).
  lra.
Qed.

(** the literal streams: the same floats as 1e8, 100000001, ... *)
Example cti_w3_literals : cti_w3 = [1e8; 100000001; 100000002]%float.
Proof. vm_compute. reflexivity. Qed.

Print Assumptions cti_f64_accuracy_refuted.
Print Assumptions cti_f64_accuracy_refuted4.
