(** C07 at f64 for NET (noise elimination technology): for window lengths below 2^26 and EVERY stream of floats
    (finite or not, NaN included: the inputs are only subtracted and the differences only compared with 0) every
    value NET reports at binary64 is finite and lies in [-1, 1] EXACTLY.  The numerator is a sum of +-1, one per
    pair: small integers are exact in binary64; the denominator 0.5 * k * (k - 1) is exact as well, and
    |numerator| <= number of pairs = denominator. *)
From Coq Require Import List Arith Lia Reals Lra ZArith Floats Bool.
From SF Require Import Res Scalar View Models Core Spec FloatOps SpecFRange.
From SF.Proofs Require Import FltErr FltBridge Flt2P Flt2B64 Flt2Prim BridgeOps FRangeBase FRangeMy.
From Flocq Require Import Core BinarySingleNaN.
Import ListNotations.
Open Scope R_scope.

Local Notation F := PrimFloat.float.
Local Notation fzero := PrimFloat.zero.
Local Notation fone := PrimFloat.one.

(** * Exact operations *)
Lemma small_lt_BIG x : Rabs x <= 9007199254740992 -> Rabs x < BIG.
Proof.
  intros H. eapply Rle_lt_trans; [exact H|]. change 9007199254740992 with (IZR (2 ^ 53)). exact bpow53_lt_emax.
Qed.
Lemma add_exact x y : ffinite x = true -> ffinite y = true -> b64_format (f2r x + f2r y) ->
  Rabs (f2r x + f2r y) <= 9007199254740992 ->
  ffinite (PrimFloat.add x y) = true /\ f2r (PrimFloat.add x y) = f2r x + f2r y.
Proof.
  intros Fx Fy Hf Hb. destruct (prim_add_b64 x y Fx Fy) as [E Ff].
  - unfold b64_add. rewrite (rnd_id _ Hf). apply small_lt_BIG. exact Hb.
  - split; [exact Ff|]. rewrite E. apply rnd_id. exact Hf.
Qed.
Lemma sub_exact x y : ffinite x = true -> ffinite y = true -> b64_format (f2r x - f2r y) ->
  Rabs (f2r x - f2r y) <= 9007199254740992 ->
  ffinite (PrimFloat.sub x y) = true /\ f2r (PrimFloat.sub x y) = f2r x - f2r y.
Proof.
  intros Fx Fy Hf Hb. destruct (prim_sub_b64 x y Fx Fy) as [E Ff].
  - unfold b64_sub. rewrite (rnd_id _ Hf). apply small_lt_BIG. exact Hb.
  - split; [exact Ff|]. rewrite E. apply rnd_id. exact Hf.
Qed.
Lemma mul_exact x y : ffinite x = true -> ffinite y = true -> b64_format (f2r x * f2r y) ->
  Rabs (f2r x * f2r y) <= 9007199254740992 ->
  ffinite (PrimFloat.mul x y) = true /\ f2r (PrimFloat.mul x y) = f2r x * f2r y.
Proof.
  intros Fx Fy Hf Hb. destruct (prim_mul_b64 x y Fx Fy) as [E Ff].
  - unfold b64_mul. rewrite (rnd_id _ Hf). apply small_lt_BIG. exact Hb.
  - split; [exact Ff|]. rewrite E. apply rnd_id. exact Hf.
Qed.

Lemma format_half z : (Z.abs z < 2 ^ 53)%Z -> b64_format (IZR z / 2).
Proof.
  intros Hz. replace (IZR z / 2) with (F2R (Float radix2 z (-1))) by (unfold F2R; cbn; lra).
  apply generic_format_FLT. exists (Float radix2 z (-1)); [reflexivity | exact Hz | cbn; lia].
Qed.
Lemma f2r_half : ffinite (f_ofdec 5 1) = true /\ f2r (f_ofdec 5 1) = 1 / 2.
Proof.
  split; [rewrite <- pfin_ffinite; reflexivity|]. rewrite f2r_SF.
  replace (Prim2SF (f_ofdec 5 1)) with (S754_finite false 4503599627370496 (-53)) by (vm_compute; reflexivity).
  unfold SF2R, F2R. cbn. lra.
Qed.
Lemma IZR_abs_le z c : (Z.abs z <= c)%Z -> - IZR c <= IZR z <= IZR c.
Proof. intros H. rewrite <- opp_IZR. split; apply IZR_le; lia. Qed.

(** * The numerator: an integer of magnitude at most the number of comparisons made *)
Definition isint (x : F) (c : Z) : Prop := ffinite x = true /\ exists z, f2r x = IZR z /\ (Z.abs z <= c)%Z.

Lemma net_sign_int num diff c : isint num c -> (c + 1 < 2 ^ 53)%Z -> isint (@net_sign F FOps num diff) (c + 1).
Proof.
  intros (Fn & z & Ez & Hz) Hc. unfold net_sign, sgtb. cbn [sltb sadd ssub s0 s1 FOps].
  destruct prim_one_fin as [F1 E1].
  assert (HB : forall w : Z, (Z.abs w <= c + 1)%Z -> Rabs (IZR w) <= 9007199254740992).
  { intros w Hw. rewrite <- abs_IZR. apply IZR_le. change (2 ^ 53)%Z with 9007199254740992%Z in Hc. lia. }
  destruct (PrimFloat.ltb fzero diff); [|destruct (PrimFloat.ltb diff fzero)].
  - assert (E : f2r num + f2r fone = IZR (z + 1)) by (rewrite Ez, E1, plus_IZR; reflexivity).
    destruct (add_exact num fone Fn F1) as [Ff Ev].
    + rewrite E. apply b64_format_IZR. lia.
    + rewrite E. apply HB. lia.
    + split; [exact Ff|]. exists (z + 1)%Z. split; [rewrite Ev; exact E | lia].
  - assert (E : f2r num - f2r fone = IZR (z - 1)) by (rewrite Ez, E1, minus_IZR; reflexivity).
    destruct (sub_exact num fone Fn F1) as [Ff Ev].
    + rewrite E. apply b64_format_IZR. lia.
    + rewrite E. apply HB. lia.
    + split; [exact Ff|]. exists (z - 1)%Z. split; [rewrite Ev; exact E | lia].
  - split; [exact Fn|]. exists z. split; [exact Ez | lia].
Qed.

Lemma net_fold_int (x : F) older : forall num c, isint num c -> (c + Z.of_nat (length older) < 2 ^ 53)%Z ->
  isint (fold_left (fun acc o => @net_sign F FOps acc (@ssub F FOps x o)) older num) (c + Z.of_nat (length older)).
Proof.
  induction older as [|o r IH]; intros num c Hi Hc.
  - cbn [fold_left length Z.of_nat]. rewrite Z.add_0_r. exact Hi.
  - cbn [fold_left]. cbn [length] in Hc |- *. rewrite Nat2Z.inj_succ in Hc |- *.
    replace (c + Z.succ (Z.of_nat (length r)))%Z with ((c + 1) + Z.of_nat (length r))%Z by lia.
    apply IH; [apply net_sign_int; [exact Hi | lia] | lia].
Qed.

(** comparisons made by [net_loop older rest]: |older| + (|older|+1) + ... *)
Fixpoint pairs (a r : nat) : nat := match r with O => O | S r' => a + pairs (S a) r' end.
Lemma pairs_closed r : forall a, (2 * pairs a r + r = 2 * r * a + r * r)%nat.
Proof. induction r as [|r IH]; intros a; [reflexivity|]. cbn [pairs]. specialize (IH (S a)). nia. Qed.

Lemma net_loop_int rest : forall older num c, isint num c ->
  (c + Z.of_nat (pairs (length older) (length rest)) < 2 ^ 53)%Z ->
  isint (@net_loop F FOps older rest num) (c + Z.of_nat (pairs (length older) (length rest))).
Proof.
  induction rest as [|x rest IH]; intros older num c Hi Hc.
  - cbn [net_loop length pairs Z.of_nat]. rewrite Z.add_0_r. exact Hi.
  - cbn [net_loop]. cbn [length pairs] in Hc |- *. rewrite Nat2Z.inj_add in Hc |- *.
    replace (c + (Z.of_nat (length older) + Z.of_nat (pairs (S (length older)) (length rest))))%Z
      with ((c + Z.of_nat (length older)) + Z.of_nat (pairs (length (older ++ [x])) (length rest)))%Z
      by (rewrite app_length; cbn [length]; rewrite Nat.add_1_r; lia).
    apply IH.
    + apply net_fold_int; [exact Hi | lia].
    + rewrite app_length. cbn [length]. rewrite Nat.add_1_r. lia.
Qed.

(** * The denominator 0.5 * k * (k - 1), exactly *)
Lemma net_denom k : (2 <= k)%nat -> (Z.of_nat k < 2 ^ 26)%Z ->
  let nn := f_ofnat k in
  let d := PrimFloat.mul (PrimFloat.mul (f_ofdec 5 1) nn) (PrimFloat.sub nn fone) in
  ffinite d = true /\ f2r d = IZR (Z.of_nat k) * (IZR (Z.of_nat k) - 1) / 2.
Proof.
  intros Hk Hb. cbv zeta. change (2 ^ 26)%Z with 67108864%Z in Hb.
  destruct (f_ofnat_exact k) as [Fn En]; [change (2 ^ 53)%Z with 9007199254740992%Z; lia|].
  rewrite INR_IZR_INZ in En. set (K := Z.of_nat k) in *.
  assert (HK : 2 <= IZR K <= 67108864) by (split; apply IZR_le; lia).
  destruct f2r_half as [Fh Eh]. destruct prim_one_fin as [F1 E1].
  destruct (mul_exact (f_ofdec 5 1) (f_ofnat k) Fh Fn) as [Fp Ep].
  { rewrite Eh, En. replace (1 / 2 * IZR K) with (IZR K / 2) by lra. apply format_half.
    change (2 ^ 53)%Z with 9007199254740992%Z. lia. }
  { rewrite Eh, En. rewrite Rabs_pos_eq; lra. }
  destruct (sub_exact (f_ofnat k) fone Fn F1) as [Fm Em].
  { rewrite En, E1, <- minus_IZR. apply b64_format_IZR. change (2 ^ 53)%Z with 9007199254740992%Z. lia. }
  { rewrite En, E1. rewrite Rabs_pos_eq; lra. }
  rewrite Eh, En in Ep. rewrite En, E1 in Em.
  destruct (mul_exact _ _ Fp Fm) as [Fd Ed].
  { rewrite Ep, Em. replace (1 / 2 * IZR K * (IZR K - 1)) with (IZR (K * (K - 1)) / 2)
      by (rewrite mult_IZR, minus_IZR; lra).
    apply format_half. change (2 ^ 53)%Z with 9007199254740992%Z. rewrite Z.abs_eq by nia. nia. }
  { rewrite Ep, Em. rewrite Rabs_pos_eq by nra. nra. }
  split; [exact Fd|]. rewrite Ed, Ep, Em. lra.
Qed.

(** the answer: |num| <= #pairs = denom, so the rounded quotient is in [-1, 1] *)
Lemma net_answer q : (2 <= length q)%nat -> (Z.of_nat (length q) < 2 ^ 26)%Z ->
  let nn := f_ofnat (length q) in
  let o := PrimFloat.div (@net_loop F FOps [] q fzero)
             (PrimFloat.mul (PrimFloat.mul (f_ofdec 5 1) nn) (PrimFloat.sub nn fone)) in
  ffinite o = true /\ -1 <= f2r o <= 1.
Proof.
  intros Hk Hb. cbv zeta. destruct (net_denom (length q) Hk Hb) as [Fd Ed]. cbv zeta in Fd, Ed.
  set (d := PrimFloat.mul _ _) in *. set (k := length q) in *.
  pose proof (pairs_closed k 0) as Hp. rewrite Nat.mul_0_r, Nat.add_0_l in Hp.
  change (2 ^ 26)%Z with 67108864%Z in Hb.
  assert (Hi0 : isint fzero 0).
  { split; [exact (proj1 prim_zero_fin)|]. exists 0%Z. split; [exact (proj2 prim_zero_fin) | reflexivity]. }
  destruct (net_loop_int q [] fzero 0 Hi0) as (Fnum & z & Ez & Hz).
  { cbn [length]. fold k. change (2 ^ 53)%Z with 9007199254740992%Z. nia. }
  cbn [length] in Fnum, Ez, Hz. fold k in Fnum, Ez, Hz. rewrite Z.add_0_l in Hz.
  set (num := net_loop [] q fzero) in *.
  assert (EP : IZR (Z.of_nat (pairs 0 k)) = f2r d).
  { rewrite Ed. assert (E2 : (2 * Z.of_nat (pairs 0 k) = Z.of_nat k * (Z.of_nat k - 1))%Z) by nia.
    apply (f_equal IZR) in E2. rewrite mult_IZR, mult_IZR, minus_IZR in E2. lra. }
  pose proof (IZR_abs_le z _ Hz) as Hzz. rewrite EP in Hzz.
  assert (HD : 1 <= f2r d).
  { rewrite Ed. assert (2 <= IZR (Z.of_nat k)) by (apply IZR_le; lia). nra. }
  assert (Hq : -1 <= f2r num / f2r d <= 1).
  { rewrite Ez. split.
    - apply (Rmult_le_reg_r (f2r d)); [lra|]. unfold Rdiv. rewrite Rmult_assoc, Rinv_l by lra. lra.
    - apply (Rmult_le_reg_r (f2r d)); [lra|]. unfold Rdiv. rewrite Rmult_assoc, Rinv_l by lra. lra. }
  assert (HR : -1 <= b64_div (f2r num) (f2r d) <= 1).
  { split; [apply rnd_ge; [exact format_m1 | apply Hq] | apply rnd_le; [exact b64_format_1 | apply Hq]]. }
  pose proof BIG_gt_100 as B100.
  destruct (div_spec num d Fnum Fd ltac:(lra)) as [(_ & Fo & Eo)|[(Hr & _)|(Hr & _)]]; [|exfalso; lra|exfalso; lra].
  split; [exact Fo | rewrite Eo; exact HR].
Qed.

(** * The invariant *)
Definition net_rinv (n : nat) (s : list F * option F) : Prop :=
  (length (fst s) <= Nat.max n 1)%nat /\ forall o, snd s = Some o -> ffinite o = true /\ -1 <= f2r o <= 1.

Lemma net_rstep n s v s' : (Z.of_nat n < 2 ^ 26)%Z -> net_rinv n s -> @net_step F FOps n s v = Ok s' -> net_rinv n s'.
Proof.
  intros Hb (Hl & Ho). unfold net_step. cbv zeta.
  assert (Hlen : (length (evict n (fst s) ++ [v]) <= Nat.max n 1)%nat).
  { rewrite app_length. cbn [length]. unfold evict. destruct (Nat.leb_spec n (length (fst s))).
    - destruct (fst s) as [|x r]; cbn [tl length] in *; lia.
    - lia. }
  set (q := evict n (fst s) ++ [v]) in *.
  destruct (Nat.ltb_spec (length q) 2) as [H2|H2].
  - intros H; inversion H; subst s'. split; cbn [fst snd]; assumption.
  - cbn [sdiv smul ssub sofnat sofdec s0 s1 FOps bind]. intros H; inversion H; subst s'. split; cbn [fst snd]; [exact Hlen|].
    intros o Eo. inversion Eo; subst o. apply net_answer; [exact H2|].
    change (2 ^ 26)%Z with 67108864%Z in *. lia.
Qed.

Lemma net_rrun n fs s : (Z.of_nat n < 2 ^ 26)%Z -> crun (@net_core F FOps n) fs = Ok s -> net_rinv n s.
Proof.
  intros Hb.
  apply (@crun_pres F (@net_core F FOps n) (fun _ => True) (net_rinv n) ([], None)).
  - reflexivity.
  - split; cbn [fst snd length]; [lia | discriminate].
  - intros s1 v s2 _ Hi Hs. exact (net_rstep n s1 v s2 Hb Hi Hs).
  - apply Forall_forall. trivial.
Qed.

(** C07 at f64, NET: window below 2^26, ANY stream of floats (no finiteness assumed, not even of the inputs):
    every value reported is finite and in [-1, 1] exactly *)
Theorem net_range_f64_any n (fs : list F) (v : F) : (Z.of_nat n < 2 ^ 26)%Z ->
  cout (@net_core F FOps n) fs = Ok (Some v) ->
  ffinite v = true /\ PrimFloat.leb (-1) v && PrimFloat.leb v 1 = true.
Proof.
  intros Hb Hc. unfold cout in Hc.
  destruct (crun (@net_core F FOps n) fs) as [s|e] eqn:Er; [|discriminate]. cbn [bind clast net_core] in Hc.
  destruct (net_rrun n fs s Hb Er) as (_ & Ho). inversion Hc as [Hc'].
  destruct (Ho v Hc') as [Fv Hv]. split; [exact Fv|].
  apply (range_real (-1)%float fone); try apply f2r_m1; try apply prim_one_fin; [exact Fv|].
  rewrite (proj2 f2r_m1), (proj2 prim_one_fin). exact Hv.
Qed.

(** in the common form *)
Theorem net_range_f64 n (fs : list F) (v : F) : (Z.of_nat n < 2 ^ 26)%Z ->
  all_finite_out ffinite (@net_core F FOps n) fs = true ->
  cout (@net_core F FOps n) fs = Ok (Some v) -> PrimFloat.leb (-1) v && PrimFloat.leb v 1 = true.
Proof. intros Hb _ Hc. exact (proj2 (net_range_f64_any n fs v Hb Hc)). Qed.

Local Set Warnings "-inexact-float".
Example net_range_f64_ex :
  (Z.of_nat 3 < 2 ^ 26)%Z /\
  all_finite_out ffinite (@net_core F FOps 3) [1e6; 8.13; 3.461; 5.401; 3.311]%float = true /\
  exists v, cout (@net_core F FOps 3) [1e6; 8.13; 3.461; 5.401; 3.311]%float = Ok (Some v).
Proof. split; [reflexivity|]. split; [vm_compute; reflexivity|]. eexists. vm_compute. reflexivity. Qed.
Example net_any_ex :
  cout (@net_core F FOps 3) [PrimFloat.nan; PrimFloat.infinity; 1; PrimFloat.neg_infinity]%float = Ok (Some (-1)%float).
Proof. vm_compute. reflexivity. Qed.

Print Assumptions net_range_f64_any.
Print Assumptions net_range_f64.
