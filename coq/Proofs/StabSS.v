(** C09 for SuperSmoother (n >= 1): poles a1*exp(+-i*theta), 0 < a1 < 1, theta = 4.4422/n, sin theta <> 0.
    In the norm N(f,g) = sqrt((f - a1 cos(theta) g)^2 + (a1 sin(theta) g)^2) of the state (filt_t, filt_{t-1})
    one step is  N(s_{t+1}) <= a1 N(s_t) + |c1 (x_t + x_{t-1})/2|,  with equality a1 N(s_t) for zero input.
    BIBO gain K = |c1| / ((1 - a1) |sin theta|); zero-input response <= K V a1^(k-1). *)
From Coq Require Import List Arith Lia ZArith Reals Lra.
From SF Require Import Res Scalar View Models Spec Core SpecLin SpecStab.
From SF.Proofs Require Import Window RBase LinBase LinSS LinLinear LinDC LinConv StabBase.
Import ListNotations.
Open Scope R_scope.
Local Existing Instance ROps.

(** the homogeneous step multiplies the quadratic form by a^2 *)
Lemma Vq_hom a C Sv f g : C * C + Sv * Sv = 1 ->
  Vq (a * C) (a * Sv) (2 * a * C * f + - (a * a) * g) f = a * a * Vq (a * C) (a * Sv) f g.
Proof.
  intros H. unfold Vq. assert (HS : Sv * Sv = 1 - C * C) by lra.
  transitivity (a * a * (f * f - 2 * a * C * f * g + a * a * (g * g))).
  - replace (a * Sv * (a * Sv) * f * f) with (a * a * f * f * (Sv * Sv)) by ring. rewrite HS. ring.
  - replace (a * Sv * (a * Sv) * g * g) with (a * a * g * g * (Sv * Sv)) by ring. rewrite HS. ring.
Qed.

Section SS.
Variable n : nat.
Hypothesis Hn : (1 <= n)%nat.

Let c1 := @ssb_c1 R ROps n.
Let b1 := @ssb_b1 R ROps n.
Let c3 := @ssb_c3 R ROps n.
Let a := @ssb_a1 R ROps n.
Let C := cos (@ssb_theta R ROps n).
Let Sv := sin (@ssb_theta R ROps n).

(** the state norm *)
Definition ssN (p : R * R) : R := sqrt (Vq (a * C) (a * Sv) (fst p) (snd p)).

(** BIBO gain and the bound on the norm *)
Definition ss_gain : R := Rabs c1 / ((1 - a) * Rabs Sv).

Lemma ss_CS : C * C + Sv * Sv = 1.
Proof. unfold C, Sv. pose proof (sin2_cos2 (@ssb_theta R ROps n)) as H. unfold Rsqr in H. lra. Qed.

Lemma ss_a_range : 0 < a < 1. Proof. apply ssb_a1_bounds. exact Hn. Qed.
Lemma ss_S_pos : 0 < Rabs Sv. Proof. apply Rabs_pos_lt. apply sin_theta_neq. exact Hn. Qed.

Lemma ssN_nonneg p : 0 <= ssN p. Proof. apply sqrt_pos. Qed.

(** one step in the norm *)
Lemma ssN_step (h : list R) t :
  ssN (ssb_upto c1 b1 c3 h (S t)) <=
  a * ssN (ssb_upto c1 b1 c3 h t) + Rabs (c1 * (lagx h t 0 + lagx h t 1) / 2).
Proof.
  rewrite ssb_upto_S. set (p := ssb_upto c1 b1 c3 h t). rewrite ssb_eq_R. unfold ssN. cbn [fst snd].
  destruct (ssb_coefs_R n) as (Eb & E3 & _). fold a C in Eb, E3. fold b1 in Eb. fold c3 in E3.
  rewrite Eb, E3. set (u := c1 * (lagx h t 0 + lagx h t 1) / 2).
  replace (u + 2 * a * C * fst p + - (a * a) * snd p) with ((2 * a * C * fst p + - (a * a) * snd p) + u) by ring.
  replace (fst p) with (fst p + 0) at 2 by ring.
  eapply Rle_trans; [apply Vq_tri|]. rewrite Vq_unit, Vq_hom by apply ss_CS.
  rewrite Vq_scale by (pose proof ss_a_range; lra). lra.
Qed.

(** the first coordinate is controlled by the norm *)
Lemma ssN_first p : Rabs Sv * Rabs (fst p) <= ssN p.
Proof. unfold ssN. apply Vq_first. apply ss_CS. Qed.

Lemma ssN_zero : ssN (0, 0) = 0.
Proof. unfold ssN, Vq. cbn [fst snd]. replace ((0 - a * C * 0) * (0 - a * C * 0) + a * Sv * (a * Sv) * 0 * 0) with 0 by ring. apply sqrt_0. Qed.

(** * BIBO *)
Lemma ss_forcing_bound U (h : list R) t : 0 <= U -> bounded U h ->
  Rabs (c1 * (lagx h t 0 + lagx h t 1) / 2) <= Rabs c1 * U.
Proof.
  intros HU Hb. pose proof (bounded_lagx U h t 0 HU Hb) as H0. pose proof (bounded_lagx U h t 1 HU Hb) as H1.
  unfold Rdiv. rewrite Rmult_assoc, Rabs_mult. apply Rmult_le_compat_l; [apply Rabs_pos|].
  apply Rabs_le_between in H0. apply Rabs_le_between in H1. apply Rabs_le. lra.
Qed.

Lemma ss_norm_bound U (h : list R) : 0 <= U -> bounded U h ->
  forall k, ssN (ssb_upto c1 b1 c3 h k) <= Rabs c1 * U / (1 - a).
Proof.
  intros HU Hb. pose proof ss_a_range as Ha.
  assert (HB : 0 <= Rabs c1 * U / (1 - a)).
  { apply Rle_mult_inv_pos; [apply Rmult_le_pos; [apply Rabs_pos | exact HU] | lra]. }
  induction k as [|k IH].
  - cbn [ssb_upto]. change (@s0 R ROps) with 0. rewrite ssN_zero. exact HB.
  - eapply Rle_trans; [apply ssN_step|]. pose proof (ss_forcing_bound U h k HU Hb) as Hf.
    set (B := Rabs c1 * U / (1 - a)) in *.
    assert (E : Rabs c1 * U = B * (1 - a)) by (unfold B; field; lra).
    assert (a * ssN (ssb_upto c1 b1 c3 h k) <= a * B) by (apply Rmult_le_compat_l; lra).
    lra.
Qed.

Lemma ss_first_of_norm p B : ssN p <= B -> Rabs (fst p) <= B / Rabs Sv.
Proof.
  intros H. pose proof ss_S_pos as HS. pose proof (ssN_first p) as H1.
  apply (Rmult_le_reg_l (Rabs Sv)); [exact HS|].
  replace (Rabs Sv * (B / Rabs Sv)) with B by (field; lra). lra.
Qed.

Lemma ss_out_some (h : list R) o : cout (@ss_core R ROps n) h = Ok (Some o) ->
  (n <= length h)%nat /\ o = fst (ssb_upto c1 b1 c3 h (length h)).
Proof.
  rewrite ss_closed_form by exact Hn. unfold spec_ss, ssb_out. cbv zeta. fold c1 b1 c3.
  destruct (Nat.ltb_spec (length h) n) as [Hlt|Hge]; [discriminate|]. intros Ho. injection Ho as Ho. split; [assumption | congruence].
Qed.

(** C09 (SuperSmoother): BIBO with gain |c1| / ((1 - a1) |sin theta|) *)
Theorem ss_bibo : bibo (@ss_core R ROps n) ss_gain.
Proof.
  intros U vs Hb o Ho. destruct (ss_out_some vs o Ho) as [Hl E]. subst o.
  destruct vs as [|x vs']; [cbn in Hl; lia|]. pose proof (bounded_nonneg U x vs' Hb) as HU.
  pose proof (ss_first_of_norm _ _ (ss_norm_bound U (x :: vs') HU Hb (length (x :: vs')))) as H.
  eapply Rle_trans; [exact H|]. unfold ss_gain. pose proof ss_a_range. pose proof ss_S_pos.
  apply Req_le. field. lra.
Qed.

(** * zero-input response: exact geometric decay of the norm *)
Lemma lagx_zero_tail (d : list R) k t j : (j <= 1)%nat -> (length d + 1 <= t)%nat ->
  lagx (d ++ repeat 0 k) t j = 0.
Proof.
  intros Hj Ht. rewrite lagx_ge by lia.
  destruct (Nat.lt_ge_cases (t - j) (length (d ++ repeat 0 k))) as [H|H].
  - rewrite app_nth2 by lia. rewrite app_length, repeat_length in H. apply nth_repeat_lt. lia.
  - apply nth_overflow. exact H.
Qed.

Lemma ss_zero_tail_decay V (d : list R) k : 0 <= V -> bounded V d ->
  forall m, ssN (ssb_upto c1 b1 c3 (d ++ repeat 0 k) (length d + 1 + m)) <= a ^ m * (Rabs c1 * V / (1 - a)).
Proof.
  intros HV Hd. pose proof ss_a_range as Ha.
  assert (Hb : bounded V (d ++ repeat 0 k)).
  { apply bounded_app. split; [exact Hd | apply bounded_repeat; rewrite Rabs_R0; exact HV]. }
  induction m as [|m IH].
  - cbn [pow]. rewrite Rmult_1_l. apply ss_norm_bound; assumption.
  - replace (length d + 1 + S m)%nat with (S (length d + 1 + m)) by lia.
    eapply Rle_trans; [apply ssN_step|]. rewrite !lagx_zero_tail by lia.
    replace (c1 * (0 + 0) / 2) with 0 by field. rewrite Rabs_R0. cbn [pow].
    assert (a * ssN (ssb_upto c1 b1 c3 (d ++ repeat 0 k) (length d + 1 + m))
            <= a * (a ^ m * (Rabs c1 * V / (1 - a)))) by (apply Rmult_le_compat_l; lra).
    lra.
Qed.

(** C09 (SuperSmoother): after values bounded by V, k zero inputs leave at most K V a1^(k-1) *)
Theorem ss_zero_input : zero_input_bound (@ss_core R ROps n) (fun V k => ss_gain * V * a ^ (k - 1)).
Proof.
  intros V d k o HV Hd Ho. destruct (ss_out_some _ o Ho) as [_ E]. subst o.
  pose proof ss_a_range as Ha. pose proof ss_S_pos as HS.
  rewrite app_length, repeat_length.
  assert (Hm : ssN (ssb_upto c1 b1 c3 (d ++ repeat 0 k) (length d + k)) <= a ^ (k - 1) * (Rabs c1 * V / (1 - a))).
  { destruct k as [|k].
    - cbn [Nat.sub pow]. rewrite Rmult_1_l. apply ss_norm_bound; [exact HV|].
      cbn [repeat]. rewrite app_nil_r. exact Hd.
    - replace (length d + S k)%nat with (length d + 1 + k)%nat by lia.
      replace (S k - 1)%nat with k by lia. apply ss_zero_tail_decay; assumption. }
  eapply Rle_trans; [apply (ss_first_of_norm _ _ Hm)|]. unfold ss_gain. apply Req_le. field. lra.
Qed.

(** C09 (SuperSmoother), fading memory: |out - out'| <= 2 K U a1^(k-1) after k common values *)
Theorem ss_fading : fading_bound (@ss_core R ROps n) (fun V k => ss_gain * V * a ^ (k - 1)).
Proof. apply fading_of_zero_input; [apply ss_linear; exact Hn | apply ss_zero_input]. Qed.

(** the homogeneous recursion itself: the quadratic form contracts by exactly a1^2 per step *)
Theorem ss_homogeneous_exact f g :
  Vq (a * C) (a * Sv) (b1 * f + c3 * g) f = a * a * Vq (a * C) (a * Sv) f g.
Proof.
  destruct (ssb_coefs_R n) as (Eb & E3 & _). fold a C in Eb, E3. fold b1 in Eb. fold c3 in E3.
  rewrite Eb, E3. apply Vq_hom. apply ss_CS.
Qed.

End SS.

(** epsilon forms *)
Corollary ss_zero_input_decays n : (1 <= n)%nat -> zero_input_decays (@ss_core R ROps n).
Proof.
  intros Hn d eps He. destruct (bounded_exists d) as [V [HV Hd]].
  apply (@zero_input_decays_of_bound _ _ (ss_zero_input n Hn)) with (V := V); try assumption.
  intros V' eps' He'. apply geo_zero_shift; [|exact He']. pose proof (ssb_a1_bounds n Hn). lra.
Qed.

Corollary ss_fading_eps n : (1 <= n)%nat -> fading_eps (@ss_core R ROps n).
Proof. intros Hn. apply fading_eps_of_zero_input; [apply ss_linear; exact Hn | apply ss_zero_input_decays; exact Hn]. Qed.
