(** C09 for ReFlex, parts (b)-(d): the ReFlex deviation is a window functional with constant Kd = 4, so the generic
    section [Flex] of Stab2Flex.v applies (same smoother as TrendFlex). *)
From Coq Require Import List Arith Lia ZArith Reals Lra.
From SF Require Import Res Scalar View Models Spec Core SpecEhl.
From SF.Proofs Require Import Window RBase EhlBase EhlFlex StabBase StabSS Stab2SS Stab2Flex.
Import ListNotations.
Open Scope R_scope.
Local Existing Instance ROps.

Lemma ssum_map_diff_same {A} (g g' : A -> R) (L : list A) B :
  (forall y, In y L -> Rabs (g y - g' y) <= B) ->
  Rabs (@ssum R ROps (map g L) - @ssum R ROps (map g' L)) <= INR (length L) * B.
Proof.
  induction L as [|y L IH]; intros H.
  - cbn [map length INR]. rewrite ssum_R_nil, Rminus_0_r, Rabs_R0. lra.
  - cbn [map]. rewrite !ssum_R_cons. change (length (y :: L)) with (S (length L)). rewrite S_INR.
    replace (g y + @ssum R ROps (map g L) - (g' y + @ssum R ROps (map g' L)))
      with ((g y - g' y) + (@ssum R ROps (map g L) - @ssum R ROps (map g' L))) by ring.
    eapply Rle_trans; [apply Rabs_triang|].
    pose proof (H y (or_introl eq_refl)). specialize (IH (fun z Hz => H z (or_intror Hz))). lra.
Qed.

Lemma map_combine_seq (h : nat * R -> R) (l : list R) a :
  map h (combine (seq a (length l)) l) = map (fun i => h (i, nth (i - a) l 0)) (seq a (length l)).
Proof.
  revert a. induction l as [|x l IH]; intros a; [reflexivity|].
  cbn [length seq combine map]. rewrite Nat.sub_diag. cbn [nth]. f_equal. rewrite IH.
  apply map_ext_in. intros i Hi. apply in_seq in Hi. replace (i - a)%nat with (S (i - S a)) by lia. reflexivity.
Qed.

(** the ReFlex deviation at R, as a sum over the positions 0..|w|-1 of the reversed window *)
Definition rf_term (n : nat) (F : list R) (i : nat) : R :=
  let f := last F 0 in let w := lastn n F in
  f + INR i * ((hd 0 w - f) / INR n) - nth i (rev w) 0.

Lemma rf_dev_R n F : (1 <= n)%nat ->
  @rf_dev R ROps n F = @ssum R ROps (map (rf_term n F) (seq 0 (length (lastn n F)))) / INR n.
Proof.
  intros Hn. unfold rf_dev. cbv zeta. cbn [sofnat sadd ssub smul ROps].
  rewrite !sdivd_R by (apply INR_pos_neq; lia). f_equal.
  rewrite <- (rev_length (lastn n F)) at 1. rewrite map_combine_seq. rewrite rev_length.
  f_equal. apply map_ext. intros i. unfold rf_term. cbv zeta. cbn [fst snd]. rewrite Nat.sub_0_r. reflexivity.
Qed.

Lemma idx_frac n i X : (i < n)%nat -> 0 <= X -> INR i * (X / INR n) <= X.
Proof.
  intros Hi HX. assert (Hp : 0 < INR n) by (apply lt_0_INR; lia).
  assert (Hle : INR i <= INR n) by (apply le_INR; lia). pose proof (pos_INR i).
  apply (Rmult_le_reg_r (INR n)); [exact Hp|].
  replace (INR i * (X / INR n) * INR n) with (INR i * X) by (field; lra). nra.
Qed.

Lemma hd_nth0 (w : list R) : hd 0 w = nth 0 w 0.
Proof. destruct w; reflexivity. Qed.

Lemma rf_dev_bound n V F : (1 <= n)%nat -> 0 <= V -> bounded V F -> Rabs (@rf_dev R ROps n F) <= 4 * V.
Proof.
  intros Hn HV Hb. rewrite rf_dev_R by exact Hn. assert (Hp : 0 < INR n) by (apply lt_0_INR; lia).
  unfold Rdiv. rewrite Rabs_mult, (Rabs_pos_eq (/ INR n)) by (left; apply Rinv_0_lt_compat; exact Hp).
  pose proof (last_bounded V F 0 ltac:(rewrite Rabs_R0; exact HV) Hb) as Hl.
  pose proof (bounded_lastn V n F Hb) as Hw.
  assert (Hnth : forall (l : list R) j, bounded V l -> Rabs (nth j l 0) <= V) by (intros; apply bounded_nth; assumption).
  assert (Hrev : bounded V (rev (lastn n F))).
  { unfold bounded in *. rewrite Forall_forall in *. intros y Hy. apply Hw. apply in_rev. exact Hy. }
  assert (H : Rabs (@ssum R ROps (map (rf_term n F) (seq 0 (length (lastn n F))))) <= INR (length (seq 0 (length (lastn n F)))) * (4 * V)).
  { apply ssum_map_bound. intros i Hi. apply in_seq in Hi. unfold rf_term. cbv zeta.
    pose proof (Hnth _ i Hrev) as Hy. rewrite hd_nth0. pose proof (Hnth _ 0%nat Hw) as Hh.
    assert (Hin : (i < n)%nat) by (rewrite lastn_length in Hi; lia).
    set (f := last F 0) in *. set (h0 := nth 0 (lastn n F) 0) in *. set (y := nth i (rev (lastn n F)) 0) in *.
    clearbody f h0 y.
    assert (Hsl : Rabs (INR i * ((h0 - f) / INR n)) <= 2 * V).
    { rewrite Rabs_mult, (Rabs_pos_eq (INR i)) by apply pos_INR. unfold Rdiv. rewrite Rabs_mult.
      rewrite (Rabs_pos_eq (/ INR n)) by (left; apply Rinv_0_lt_compat; exact Hp).
      assert (Rabs (h0 - f) <= 2 * V).
      { apply Rabs_le_between in Hl. apply Rabs_le_between in Hh. apply Rabs_le. lra. }
      eapply Rle_trans; [|apply (idx_frac n i (2 * V) Hin ltac:(lra))].
      apply Rmult_le_compat_l; [apply pos_INR|]. unfold Rdiv. apply Rmult_le_compat_r; [left; apply Rinv_0_lt_compat; exact Hp | assumption]. }
    apply Rabs_le_between in Hl. apply Rabs_le_between in Hy. apply Rabs_le_between in Hsl. apply Rabs_le. lra. }
  rewrite seq_length in H.
  eapply Rle_trans; [apply Rmult_le_compat_r; [left; apply Rinv_0_lt_compat; exact Hp | exact H]|].
  apply (win_frac n F (4 * V) Hn). lra.
Qed.

Lemma rf_dev_diff n B F F' : (1 <= n)%nat -> 0 <= B -> length F = length F' ->
  (forall i, (length F - n <= i)%nat -> Rabs (nth i F 0 - nth i F' 0) <= B) ->
  Rabs (@rf_dev R ROps n F - @rf_dev R ROps n F') <= 4 * B.
Proof.
  intros Hn HB Hl H. rewrite !rf_dev_R by exact Hn. assert (Hp : 0 < INR n) by (apply lt_0_INR; lia).
  unfold Rdiv. rewrite <- Rmult_minus_distr_r, Rabs_mult, (Rabs_pos_eq (/ INR n)) by (left; apply Rinv_0_lt_compat; exact Hp).
  assert (Hlw : length (lastn n F') = length (lastn n F)) by (rewrite !lastn_length, Hl; reflexivity).
  rewrite Hlw.
  pose proof (H (length F - 1)%nat ltac:(lia)) as Hlast. rewrite nth_last in Hlast. rewrite Hl, nth_last in Hlast.
  assert (Hs : Rabs (@ssum R ROps (map (rf_term n F) (seq 0 (length (lastn n F)))) -
                     @ssum R ROps (map (rf_term n F') (seq 0 (length (lastn n F)))))
               <= INR (length (seq 0 (length (lastn n F)))) * (4 * B)).
  { apply ssum_map_diff_same. intros i Hi. apply in_seq in Hi. unfold rf_term. cbv zeta.
    assert (Hin : (i < n)%nat) by (rewrite lastn_length in Hi; lia).
    rewrite !hd_nth0, !nth_lastn. rewrite !rev_nth by lia. rewrite Hlw, !nth_lastn, <- Hl.
    pose proof (H (length F - n + 0)%nat ltac:(lia)) as Hh.
    pose proof (H (length F - n + (length (lastn n F) - S i))%nat ltac:(lia)) as Hy.
    set (f := last F 0) in *. set (f' := last F' 0) in *.
    set (h0 := nth (length F - n + 0) F 0) in *. set (h0' := nth (length F - n + 0) F' 0) in *.
    set (y := nth (length F - n + (length (lastn n F) - S i)) F 0) in *.
    set (y' := nth (length F - n + (length (lastn n F) - S i)) F' 0) in *.
    clearbody f f' h0 h0' y y'.
    replace (f + INR i * ((h0 - f) / INR n) - y - (f' + INR i * ((h0' - f') / INR n) - y'))
      with ((f - f') + INR i * (((h0 - h0') - (f - f')) / INR n) - (y - y')) by (field; lra).
    assert (Hsl : Rabs (INR i * (((h0 - h0') - (f - f')) / INR n)) <= 2 * B).
    { rewrite Rabs_mult, (Rabs_pos_eq (INR i)) by apply pos_INR. unfold Rdiv. rewrite Rabs_mult.
      rewrite (Rabs_pos_eq (/ INR n)) by (left; apply Rinv_0_lt_compat; exact Hp).
      assert (Rabs ((h0 - h0') - (f - f')) <= 2 * B).
      { apply Rabs_le_between in Hlast. apply Rabs_le_between in Hh. apply Rabs_le. lra. }
      eapply Rle_trans; [|apply (idx_frac n i (2 * B) Hin ltac:(lra))].
      apply Rmult_le_compat_l; [apply pos_INR|]. unfold Rdiv. apply Rmult_le_compat_r; [left; apply Rinv_0_lt_compat; exact Hp | assumption]. }
    apply Rabs_le_between in Hlast. apply Rabs_le_between in Hy. apply Rabs_le_between in Hsl. apply Rabs_le. lra. }
  rewrite seq_length in Hs.
  eapply Rle_trans; [apply Rmult_le_compat_r; [left; apply Rinv_0_lt_compat; exact Hp | exact Hs]|].
  apply (win_frac n F (4 * B) Hn). lra.
Qed.

(** * ReFlex *)
Definition rf_d (n : nat) (h : list R) : R := @rf_dev R ROps n (@ss_filts R ROps n h).
Definition rf_ms (n : nat) (h : list R) : R := @flex_ms R ROps (@rf_devs R ROps n h).
Definition rf_out (n : nat) (h : list R) : R := rf_d n h / sqrt (rf_ms n h).

Lemma rf_d_gdev n h : rf_d n h = gdev n (@rf_dev R ROps n) h. Proof. reflexivity. Qed.
Lemma rf_ms_gms n h : rf_ms n h = gms n (@rf_dev R ROps n) h. Proof. reflexivity. Qed.
Lemma rf_out_gout n h : rf_out n h = gout n (@rf_dev R ROps n) h. Proof. reflexivity. Qed.

Ltac rf_side n Hn :=
  first [ exact Hn | assumption | lra
        | apply (flex_gain_nonneg n Hn) | apply (flex_rate_range n Hn)
        | apply (flex_filt_bibo n Hn) | apply (flex_filt_fading n Hn)
        | intros ? ?; apply (rf_dev_bound n); exact Hn
        | intros ? ? ?; apply (rf_dev_diff n); exact Hn ].

(** C09 1(b) (ReFlex): |d_t| <= 4 G U *)
Theorem reflex_dev_bounded n U h : (1 <= n)%nat -> 0 <= U -> bounded U h -> Rabs (rf_d n h) <= 4 * (flex_gain n * U).
Proof. intros Hn HU Hb. rewrite rf_d_gdev. apply (dev_bounded n (flex_gain n) 4 (@rf_dev R ROps n)); rf_side n Hn. Qed.

(** C09 1(b) (ReFlex): deviations of two runs with common tail s differ by <= 8 G U rho^(|s| - n) *)
Theorem reflex_dev_fading n U p p' s : (1 <= n)%nat -> 0 <= U -> length p = length p' -> bounded U p -> bounded U p' ->
  Rabs (rf_d n (p ++ s) - rf_d n (p' ++ s)) <= 4 * (2 * flex_gain n * U * flex_rate n ^ (length s - n)).
Proof.
  intros Hn HU Hl Hp Hp'. rewrite !rf_d_gdev.
  apply (dev_fading n (flex_gain n) (flex_rate n) 4 (@rf_dev R ROps n)); rf_side n Hn.
Qed.

(** C09 1(c) (ReFlex) *)
Theorem reflex_ms_bounded n U h : (1 <= n)%nat -> 0 <= U -> bounded U h ->
  0 <= rf_ms n h <= (4 * (flex_gain n * U)) * (4 * (flex_gain n * U)).
Proof.
  intros Hn HU Hb. split; [apply flex_ms_nonneg|]. rewrite rf_ms_gms.
  apply (ms_bounded n (flex_gain n) 4 (@rf_dev R ROps n)); rf_side n Hn.
Qed.

Theorem reflex_ms_fading n U q p p' s : (1 <= n)%nat -> 0 <= U -> 96 / 100 <= q < 1 -> flex_rate n <= q ->
  length p = length p' -> bounded U (p ++ s) -> bounded U (p' ++ s) ->
  Rabs (rf_ms n (p ++ s) - rf_ms n (p' ++ s)) <= ms_env n (flex_gain n) 4 U q (length s).
Proof.
  intros Hn HU Hq Hrq Hl Hb Hb'. rewrite !rf_ms_gms.
  apply (ms_fading n (flex_gain n) (flex_rate n) 4 (@rf_dev R ROps n)); rf_side n Hn.
Qed.

(** what the model reports when ms_t > 0 *)
Lemma reflex_out_nondeg n h : (1 <= n)%nat -> 0 < rf_ms n h ->
  cout (@reflex_core R ROps n) h = Ok (Some (rf_out n h)).
Proof.
  intros Hn Hm. rewrite reflex_closed_form by exact Hn. unfold spec_reflex.
  destruct h as [|x h _] using rev_ind; [unfold rf_ms in Hm; cbn in Hm; lra|].
  rewrite rf_devs_snoc at 1. rewrite hold_last_snoc, <- rf_devs_snoc.
  unfold flex_val. fold (rf_ms n (h ++ [x])). unfold sgtb. cbn [sltb s0 ROps].
  destruct (Rltb 0 (rf_ms n (h ++ [x]))) eqn:E; [|apply Rltb_false in E; lra].
  do 2 f_equal. unfold ssqrtd, totd. cbn [ssqrt ROps]. destruct (Rlt_dec (rf_ms n (h ++ [x])) 0) as [Hlt|_]; [lra|].
  rewrite sdivd_R by (pose proof (sqrt_lt_R0 _ Hm); lra).
  unfold rf_out. f_equal. change (@rf_devs R ROps n (h ++ [x])) with (gdevs n (@rf_dev R ROps n) (h ++ [x])).
  rewrite gdevs_last by (destruct h; discriminate). reflexivity.
Qed.

(** C09 1(d) (ReFlex, every n >= 1) *)
Theorem reflex_fading_nondegenerate n U eps0 p p' : (1 <= n)%nat -> 0 <= U -> 0 < eps0 -> length p = length p' ->
  forall eps, 0 < eps -> exists M, forall s o o', (M <= length s)%nat ->
  bounded U (p ++ s) -> bounded U (p' ++ s) -> eps0 <= rf_ms n (p ++ s) -> eps0 <= rf_ms n (p' ++ s) ->
  cout (@reflex_core R ROps n) (p ++ s) = Ok (Some o) -> cout (@reflex_core R ROps n) (p' ++ s) = Ok (Some o') ->
  Rabs (o - o') < eps.
Proof.
  intros Hn HU He0 Hl eps He.
  assert (HX : exists M, forall s, (M <= length s)%nat ->
    bounded U (p ++ s) -> bounded U (p' ++ s) ->
    eps0 <= gms n (@rf_dev R ROps n) (p ++ s) -> eps0 <= gms n (@rf_dev R ROps n) (p' ++ s) ->
    Rabs (gout n (@rf_dev R ROps n) (p ++ s) - gout n (@rf_dev R ROps n) (p' ++ s)) < eps).
  { apply (out_fading_nondegenerate n (flex_gain n) (flex_rate n) 4 (@rf_dev R ROps n)); rf_side n Hn. }
  destruct HX as [M HM].
  exists M. intros s o o' Hs Hb Hb' Hm Hm' Ho Ho'.
  rewrite reflex_out_nondeg in Ho, Ho' by (assumption || lra).
  injection Ho as Ho. injection Ho' as Ho'. subst o o'. rewrite !rf_out_gout. apply HM; assumption.
Qed.
