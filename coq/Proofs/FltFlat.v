(** Rsi and MyRSI on a flat window at the PRIMITIVE-FLOAT instance [FOps] (IEEE binary64), for every
    stream and every window length: the gains / losses are summed afresh over the window on every
    update, every change of a flat window is [c - c = +0], so the sums are exactly [+0] whatever
    preceded the window -- there is no residue of earlier values.  Proved from the IEEE semantics of
    the primitive operations (Flocq's [IEEE754.PrimFloat] bridge), not by computation on a stream. *)
From Coq Require Import List Arith Lia Reals ZArith Floats Bool.
From SF Require Import Res Scalar View Models Core Spec FloatOps.
From SF.Proofs Require Import Window RsiP.
From Flocq Require Import Core BinarySingleNaN.
From Flocq Require IEEE754.PrimFloat.
Import ListNotations.
Module FP := Flocq.IEEE754.PrimFloat.

Local Notation P2B := FP.Prim2B.
Local Notation fzero := PrimFloat.zero.

(** * Facts about binary64 *)
Definition ffin (x : PrimFloat.float) : Prop := PrimFloat.is_finite x = true.

Lemma ffin_B x : ffin x -> is_finite (P2B x) = true.
Proof. unfold ffin. rewrite FP.is_finite_equiv. trivial. Qed.

Lemma of_B_zero x : P2B x = B754_zero false -> x = fzero.
Proof. intros H. rewrite <- (FP.B2Prim_Prim2B x), H. reflexivity. Qed.

(** a finite float with real value 0 and sign + is +0 *)
Lemma B_zero_char (b : binary_float prec emax) :
  is_finite b = true -> B2R b = 0%R -> Bsign b = false -> b = B754_zero false.
Proof.
  intros Hf Hr Hs. apply (B2R_Bsign_inj prec emax); [exact Hf | reflexivity | exact Hr | exact Hs].
Qed.

Lemma round0_lt : Rlt_bool (Rabs (round radix2 (SpecFloat.fexp prec emax) (round_mode mode_NE) 0)) (bpow radix2 emax) = true.
Proof. rewrite round_0 by (apply valid_rnd_round_mode). rewrite Rabs_R0. apply Rlt_bool_true. apply bpow_gt_0. Qed.

(** [c - c = +0] for every finite [c] (round to nearest: an exact zero difference is +0) *)
Lemma fsub_self c : ffin c -> PrimFloat.sub c c = fzero.
Proof.
  intros Hc. apply ffin_B in Hc. apply of_B_zero. rewrite FP.sub_equiv.
  pose proof (Bminus_correct prec emax FP.Hprec FP.Hmax mode_NE (P2B c) (P2B c) Hc Hc) as H.
  rewrite Rminus_diag_eq in H by reflexivity. rewrite round0_lt in H. destruct H as (Hr & Hf & Hs).
  rewrite round_0 in Hr by (apply valid_rnd_round_mode).
  rewrite Rcompare_Eq in Hs by reflexivity.
  apply B_zero_char; [exact Hf | exact Hr |]. rewrite Hs. destruct (Bsign (P2B c)); reflexivity.
Qed.

(** a sign bit + means a non-negative real value *)
Lemma Bsign_false_nonneg (b : binary_float prec emax) : Bsign b = false -> (0 <= B2R b)%R.
Proof.
  destruct b as [s|s| |s m e H]; cbn [Bsign B2R]; intros Hs; try apply Rle_refl.
  subst s. apply F2R_ge_0. cbn. lia.
Qed.

(** [(+0 + c) - c = +0] for every finite [c] (also for [c = -0]: [+0 + -0 = +0], [+0 - -0 = +0]) *)
Lemma fadd0_sub_self c : ffin c -> PrimFloat.sub (PrimFloat.add fzero c) c = fzero.
Proof.
  intros Hc. apply ffin_B in Hc. apply of_B_zero. rewrite FP.sub_equiv, FP.add_equiv.
  change (P2B fzero) with (B754_zero false : binary_float prec emax).
  pose proof (Bplus_correct prec emax FP.Hprec FP.Hmax mode_NE (B754_zero false) (P2B c) eq_refl Hc) as H.
  cbn [B2R] in H. rewrite Rplus_0_l in H.
  assert (Hrd : round radix2 (SpecFloat.fexp prec emax) (round_mode mode_NE) (B2R (P2B c)) = B2R (P2B c)).
  { apply round_generic; [apply valid_rnd_round_mode | apply generic_format_B2R]. }
  rewrite Hrd in H. rewrite Rlt_bool_true in H by (apply abs_B2R_lt_emax).
  destruct H as (Hr & Hf & Hs). set (x := Bplus mode_NE (B754_zero false) (P2B c)) in *.
  pose proof (Bminus_correct prec emax FP.Hprec FP.Hmax mode_NE x (P2B c) Hf Hc) as H.
  rewrite Hr, Rminus_diag_eq in H by reflexivity. rewrite round0_lt in H. destruct H as (Hr' & Hf' & Hs').
  rewrite round_0 in Hr' by (apply valid_rnd_round_mode).
  rewrite Rcompare_Eq in Hs' by reflexivity.
  apply B_zero_char; [exact Hf' | exact Hr' |]. rewrite Hs'.
  destruct (Bsign (P2B c)) eqn:Ec; [apply andb_false_r|]. cbn [negb]. rewrite andb_true_r.
  rewrite Hs. cbn [Bsign andb]. pose proof (Bsign_false_nonneg _ Ec) as Hn.
  destruct (Rcompare_spec (B2R (P2B c)) 0) as [Hlt|_|_]; try reflexivity.
  exfalso. apply (Rlt_irrefl 0). apply (Rle_lt_trans _ _ _ Hn Hlt).
Qed.

(** [c > c] is false for every float *)
Lemma fltb_irrefl c : PrimFloat.ltb c c = false.
Proof.
  rewrite FP.ltb_equiv. unfold Bltb, SpecFloat.SFltb.
  destruct (P2B c) as [s|s| |s m e H]; cbn; try (destruct s; reflexivity); try reflexivity.
  rewrite Z.compare_refl, Pos.compare_refl. destruct s; reflexivity.
Qed.

(** [+0 / w = +0] for every [w > 0] (including +infinity) *)
Lemma fdiv0_pos w : PrimFloat.ltb fzero w = true -> PrimFloat.div fzero w = fzero.
Proof.
  intros Hw. apply of_B_zero. rewrite FP.div_equiv. rewrite FP.ltb_equiv in Hw.
  change (P2B fzero) with (B754_zero false : binary_float prec emax) in *.
  unfold Bltb, SpecFloat.SFltb in Hw.
  destruct (P2B w) as [s|s| |s m e H]; cbn in Hw; try discriminate; destruct s; try discriminate; reflexivity.
Qed.

(** [usize as f64] is positive for [1 <= n < 2^63] *)
Lemma f_ofnat_pos n : (1 <= n)%nat -> (Z.of_nat n < 2 ^ 63)%Z -> PrimFloat.ltb fzero (f_ofnat n) = true.
Proof.
  intros Hn Hb. unfold f_ofnat, f_of_Z.
  destruct (Z.of_nat n) as [|p|p] eqn:E; try lia.
  rewrite FP.ltb_equiv. change (P2B fzero) with (B754_zero false : binary_float prec emax).
  rewrite FP.of_int63_equiv.
  assert (Hz : Uint63.to_Z (Uint63.of_Z (Z.pos p)) = Z.pos p).
  { rewrite Uint63.of_Z_spec. apply Z.mod_small. change Uint63.wB with (2 ^ 63)%Z. lia. }
  rewrite Hz.
  pose proof (binary_normalize_correct prec emax FP.Hprec FP.Hmax mode_NE (Z.pos p) 0 false) as H.
  cbv zeta in H.
  assert (Hx : F2R (Float radix2 (Z.pos p) 0) = IZR (Z.pos p)) by (unfold F2R; cbn; ring).
  rewrite Hx in H.
  set (r := round radix2 (SpecFloat.fexp prec emax) (round_mode mode_NE) (IZR (Z.pos p))) in *.
  assert (Hg : forall e, (0 <= e)%Z -> (e <= 63)%Z ->
            round radix2 (SpecFloat.fexp prec emax) (round_mode mode_NE) (bpow radix2 e) = bpow radix2 e).
  { intros e He0 He. apply round_generic; [apply valid_rnd_round_mode|].
    apply generic_format_bpow. unfold SpecFloat.fexp, SpecFloat.emin, prec, emax. lia. }
  assert (Hv : Valid_exp (SpecFloat.fexp prec emax)) by (apply fexp_correct; reflexivity).
  assert (H1 : (1 <= r)%R).
  { unfold r. change 1%R with (bpow radix2 0). rewrite <- (Hg 0%Z) by lia.
    apply round_le; [exact Hv | apply valid_rnd_round_mode | cbn; apply IZR_le; lia]. }
  assert (H2 : (r <= bpow radix2 63)%R).
  { unfold r. apply (Rle_trans _ (round radix2 (SpecFloat.fexp prec emax) (round_mode mode_NE) (bpow radix2 63)));
      [|rewrite (Hg 63%Z) by lia; apply Rle_refl].
    apply round_le; [exact Hv | apply valid_rnd_round_mode |].
    rewrite <- IZR_Zpower by lia. apply IZR_le. change (radix_val radix2) with 2%Z. lia. }
  rewrite Rlt_bool_true in H.
  - destruct H as (Hr & Hf & _).
    rewrite (Bltb_correct prec emax (B754_zero false) _ eq_refl Hf). cbn [B2R]. rewrite Hr.
    apply Rlt_bool_true. apply (Rlt_le_trans _ 1); [apply Rlt_0_1 | exact H1].
  - rewrite Rabs_pos_eq by (apply (Rle_trans _ 1); [apply Rle_0_1 | exact H1]).
    apply (Rle_lt_trans _ _ _ H2). apply bpow_lt. reflexivity.
Qed.

(** * The sums over a flat window are exactly +0 *)
Local Notation F := PrimFloat.float.

(** if every value of the queue is (bitwise) the finite value [c] that precedes it, both sums are +0 *)
Lemma rsi_sums_flat wl c q : ffin c -> PrimFloat.ltb fzero wl = true -> Forall (eq c) q ->
  @rsi_sums F FOps wl q c fzero fzero = Ok (fzero, fzero).
Proof.
  intros Hc Hw Hq. induction Hq as [|v q Hv _ IH]; [reflexivity|]. subst v.
  cbn [rsi_sums]. unfold sgtb. cbn [sltb ssub s0 sabs sadd sdiv FOps].
  rewrite (fsub_self c Hc).
  change (PrimFloat.ltb fzero fzero) with false. cbv iota.
  change (PrimFloat.abs fzero) with fzero. cbn [bind].
  rewrite (fdiv0_pos wl Hw). change (PrimFloat.add fzero fzero) with fzero. exact IH.
Qed.
Lemma myrsi_sums_flat c q : ffin c -> Forall (eq c) q ->
  @myrsi_sums F FOps q c fzero fzero = (fzero, fzero).
Proof.
  intros Hc Hq. induction Hq as [|v q Hv _ IH]; [reflexivity|]. subst v.
  cbn [myrsi_sums]. unfold sgtb. cbn [sltb ssub sadd FOps].
  rewrite (fltb_irrefl c). rewrite (fadd0_sub_self c Hc). exact IH.
Qed.

(** at [FOps] division never fails, so neither does the fold *)
Lemma rsi_sums_total wl q : forall prev g l, exists p, @rsi_sums F FOps wl q prev g l = Ok p.
Proof.
  induction q as [|v q IH]; intros prev g l; cbn [rsi_sums]; [eauto|].
  destruct (sgtb _ _); cbn [sdiv FOps bind]; apply IH.
Qed.

(** * Lists *)
Lemma Forall_lastn {A} (P : A -> Prop) n l : Forall P l -> Forall P (lastn n l).
Proof.
  unfold lastn. generalize (length l - n)%nat. intros m H. revert m.
  induction H as [|x l Hx Hl IH]; intros [|m]; cbn [skipn]; auto.
Qed.
Lemma lastn_lastn_S {A} n (l : list A) : lastn n l = lastn n (lastn (S n) l).
Proof.
  destruct (le_lt_dec (length l) (S n)) as [H|H].
  - rewrite (lastn_all (S n) l) by exact H. reflexivity.
  - destruct (split_window (S n) l H) as (p & y & w & E & Lw). subst l.
    replace (p ++ y :: w) with ((p ++ [y]) ++ w) by (rewrite <- app_assoc; reflexivity).
    rewrite (lastn_app_suffix (S n) (p ++ [y]) w) by lia.
    rewrite (lastn_app_suffix n (p ++ [y]) w) by lia.
    rewrite (lastn_all (S n) w) by lia. reflexivity.
Qed.
Lemma flat_window {A} (c d : A) n (h : list A) : h <> [] -> Forall (eq c) (lastn (S n) h) ->
  hd d (lastn (S n) h) = c /\ Forall (eq c) (lastn n h).
Proof.
  intros Hne Hf. split.
  - pose proof (lastn_nonnil (S n) h ltac:(lia) Hne) as Hnn.
    destruct (lastn (S n) h) as [|x r]; [congruence|]. inversion Hf; subst. reflexivity.
  - rewrite lastn_lastn_S. apply Forall_lastn. exact Hf.
Qed.
Lemma lastn_flat_tail {A} (c : A) n fs k : (S n <= k)%nat -> lastn (S n) (fs ++ repeat c k) = repeat c (S n).
Proof.
  intros Hk. rewrite (lastn_app_suffix (S n) fs (repeat c k)) by (rewrite repeat_length; exact Hk).
  replace k with ((k - S n) + S n)%nat at 1 by lia. rewrite repeat_app.
  rewrite lastn_app_suffix by (rewrite repeat_length; lia).
  apply lastn_all. rewrite repeat_length. lia.
Qed.
Lemma Forall_repeat_eq {A} (c : A) k : Forall (eq c) (repeat c k).
Proof. induction k; cbn; auto. Qed.
Lemma repeat_S_snoc {A} (c : A) k : repeat c (S k) = repeat c k ++ [c].
Proof. induction k as [|k IH]; [reflexivity|]. cbn [repeat app] in *. rewrite <- IH. reflexivity. Qed.
Lemma snoc_nonnil {A} (h : list A) v : h ++ [v] <> [].
Proof. destruct h; discriminate. Qed.

(** * Rsi at binary64 *)
Definition f100 : F := f_ofdec 100 0.

(** after history [h]: the queue is the window, [old_ref] the value preceding it; and if the window and
    the value preceding it all equal the finite value [c], the answer is the literal 100 *)
Definition rsi_finv (n : nat) (c : F) (h : list F) (s : @rsi_st F) : Prop :=
  rsi_q s = lastn n h /\
  (h <> [] -> rsi_oldref s = hd fzero (lastn (S n) h)) /\
  ((n <= length h)%nat -> Forall (eq c) (lastn (S n) h) -> rsi_out s = Some f100).

Lemma rsi_fstep n c h s v : (1 <= n)%nat -> ffin c -> PrimFloat.ltb fzero (f_ofnat n) = true ->
  rsi_finv n c h s -> exists s', @rsi_step F FOps n s v = Ok s' /\ rsi_finv n c (h ++ [v]) s'.
Proof.
  intros Hn Hc Hw (Hq & Href & Ho). unfold rsi_step.
  destruct (window_bookkeeping n h v (rsi_q s) (rsi_oldref s) fzero Hn Hq Href) as (q0 & -> & Hq0).
  cbn [bind]. cbv zeta. rewrite Hq0, lastn_length, app_length. cbn [length].
  destruct (Nat.ltb_spec (Nat.min n (length h + 1)) n) as [H|H].
  - eexists; split; [reflexivity|]. repeat split; cbn [rsi_q rsi_oldref rsi_out].
    intros Hl. rewrite app_length in Hl. cbn [length] in Hl. lia.
  - cbn [sofnat FOps].
    destruct (rsi_sums_total (f_ofnat n) (lastn n (h ++ [v])) (hd fzero (lastn (S n) (h ++ [v]))) s0 s0)
      as [[g l] Hs].
    rewrite Hs. cbn [bind sdiv FOps].
    destruct (seqb l s0) eqn:El; cbn [bind].
    + eexists; split; [reflexivity|]. repeat split; cbn [rsi_q rsi_oldref rsi_out].
    + eexists; split; [reflexivity|]. repeat split; cbn [rsi_q rsi_oldref rsi_out].
      intros _ Hflat. exfalso.
      destruct (flat_window c fzero n (h ++ [v]) (snoc_nonnil h v) Hflat) as [Hhd Hwin].
      rewrite Hhd in Hs. change (@s0 F FOps) with fzero in Hs.
      rewrite (rsi_sums_flat (f_ofnat n) c _ Hc Hw Hwin) in Hs. inversion Hs; subst l.
      cbn in El. discriminate.
Qed.

Lemma rsi_frun n c vs : (1 <= n)%nat -> ffin c -> PrimFloat.ltb fzero (f_ofnat n) = true ->
  exists s, crun (@rsi_core F FOps n) vs = Ok s /\ rsi_finv n c vs s.
Proof.
  intros Hn Hc Hw.
  apply (@crun_inv F (@rsi_core F FOps n) (fun _ => True) (rsi_finv n c)
           {| rsi_gain := s0; rsi_loss := s0; rsi_oldref := s0; rsi_lastval := s0; rsi_q := []; rsi_out := None |}).
  - reflexivity.
  - unfold rsi_finv. cbn [rsi_q rsi_oldref rsi_out length]. rewrite lastn_nil.
    split; [reflexivity|]. split; [congruence | intros; lia].
  - intros h s v _ _ Hi. apply rsi_fstep; assumption.
  - apply Forall_forall; trivial.
Qed.

(** C16 at binary64, Rsi, every window length and EVERY prefix [fs] (any floats, even infinities or NaN:
    the prefix never enters the arithmetic once it has left the window): after [k >= n+1] copies of a
    finite [c] the answer is the literal 100, bit for bit.  [wl = n as f64] only has to be positive. *)
Theorem rsi_flat_f64_gen n (fs : list F) (c : F) k :
  (1 <= n)%nat -> PrimFloat.ltb fzero (f_ofnat n) = true -> (n + 1 <= k)%nat -> ffin c ->
  cout (@rsi_core F FOps n) (fs ++ repeat c k) = Ok (Some f100).
Proof.
  intros Hn Hw Hk Hc. destruct (rsi_frun n c (fs ++ repeat c k) Hn Hc Hw) as (s & Hr & (_ & _ & Ho)).
  unfold cout. rewrite Hr. cbn [bind clast rsi_core]. rewrite Ho; [reflexivity | |].
  - rewrite app_length, repeat_length. lia.
  - rewrite lastn_flat_tail by lia. apply Forall_repeat_eq.
Qed.

(** * MyRSI at binary64 *)
Definition my_finv (n : nat) (h : list F) (s : @myrsi_st F) : Prop :=
  my_q s = lastn n h /\ (h <> [] -> my_oldest s = hd fzero (lastn (S n) h)).

(** a step never fails, keeps the bookkeeping, and HOLDS the output when the new window and the value
    preceding it all equal a finite [c] *)
Lemma my_fstep n h s v : (1 <= n)%nat -> my_finv n h s ->
  exists s', @myrsi_step F FOps n s v = Ok s' /\ my_finv n (h ++ [v]) s' /\
    (forall c, ffin c -> Forall (eq c) (lastn (S n) (h ++ [v])) -> my_out s' = my_out s).
Proof.
  intros Hn (Hq & Href). unfold myrsi_step.
  destruct (window_bookkeeping n h v (my_q s) (my_oldest s) fzero Hn Hq Href) as (q0 & -> & Hq0).
  cbn [bind]. rewrite Hq0.
  destruct (myrsi_sums (lastn n (h ++ [v])) (hd fzero (lastn (S n) (h ++ [v]))) s0 s0) as [cu cd] eqn:Hs.
  destruct (sneb (sadd cu cd) s0) eqn:E; cbn [sdiv FOps bind].
  - eexists; split; [reflexivity|]. split; [split; cbn [my_q my_oldest]; auto|].
    intros c Hc Hflat. exfalso.
    destruct (flat_window c fzero n (h ++ [v]) (snoc_nonnil h v) Hflat) as [Hhd Hwin].
    rewrite Hhd in Hs. change (@s0 F FOps) with fzero in Hs.
    rewrite (myrsi_sums_flat c _ Hc Hwin) in Hs. inversion Hs; subst cu cd.
    cbn in E. discriminate.
  - eexists; split; [reflexivity|]. split; [split; cbn [my_q my_oldest]; auto|].
    intros; reflexivity.
Qed.

Lemma my_frun n vs : (1 <= n)%nat -> exists s, crun (@myrsi_core F FOps n) vs = Ok s /\ my_finv n vs s.
Proof.
  intros Hn.
  apply (@crun_inv F (@myrsi_core F FOps n) (fun _ => True) (my_finv n)
           {| my_cu := s0; my_cd := s0; my_out := s0; my_q := []; my_lastval := s0; my_oldest := s0 |}).
  - reflexivity.
  - unfold my_finv. cbn [my_q my_oldest]. rewrite lastn_nil. split; [reflexivity | congruence].
  - intros h s v _ _ Hi. destruct (my_fstep n h s v Hn Hi) as (s' & H1 & H2 & _). eauto.
  - apply Forall_forall; trivial.
Qed.

(** one more copy of [c] on a flat window: the answer does not change (bit for bit) *)
Theorem myrsi_flat_f64_step n (fs : list F) (c : F) k : (1 <= n)%nat -> (n <= k)%nat -> ffin c ->
  cout (@myrsi_core F FOps n) (fs ++ repeat c (S k)) = cout (@myrsi_core F FOps n) (fs ++ repeat c k).
Proof.
  intros Hn Hk Hc.
  rewrite repeat_S_snoc, app_assoc. set (h := fs ++ repeat c k).
  assert (Hlen : (n <= length h)%nat) by (unfold h; rewrite app_length, repeat_length; lia).
  destruct (my_frun n h Hn) as (s & Hr & Hi).
  destruct (my_fstep n h s c Hn Hi) as (s' & Hs' & (Hq' & _) & Hold).
  unfold cout. rewrite crun_snoc, Hr. cbn [bind cstep myrsi_core]. rewrite Hs'. cbn [bind clast myrsi_core].
  destruct Hi as (Hq & _). rewrite Hq, Hq', !lastn_length, app_length. cbn [length].
  destruct (Nat.ltb_spec (Nat.min n (length h + 1)) n); [lia|].
  destruct (Nat.ltb_spec (Nat.min n (length h)) n); [lia|].
  rewrite (Hold c Hc); [reflexivity|].
  unfold h. rewrite <- app_assoc, <- repeat_S_snoc.
  rewrite lastn_flat_tail by lia. apply Forall_repeat_eq.
Qed.

(** C16 at binary64, MyRSI, every window length and every prefix: from the moment the window consists
    of copies of a finite [c] ([k = n]: the last change [c - last fs] is still inside), the answer is
    HELD -- after every longer flat tail MyRSI reports, bit for bit, what it reported then *)
Theorem myrsi_flat_f64_gen n (fs : list F) (c : F) k : (1 <= n)%nat -> (n <= k)%nat -> ffin c ->
  cout (@myrsi_core F FOps n) (fs ++ repeat c k) = cout (@myrsi_core F FOps n) (fs ++ repeat c n).
Proof.
  intros Hn Hk Hc. induction Hk as [|k Hk IH]; [reflexivity|].
  rewrite myrsi_flat_f64_step by assumption. exact IH.
Qed.

(** with nothing before the flat stretch the held value is the initial 0 *)
Theorem myrsi_flat_f64_all n (c : F) k : (1 <= n)%nat -> (n <= k)%nat -> ffin c ->
  cout (@myrsi_core F FOps n) (repeat c k) = Ok (Some fzero).
Proof.
  intros Hn Hk Hc.
  assert (Hall : forall j s, crun (@myrsi_core F FOps n) (repeat c j) = Ok s -> my_out s = fzero).
  { induction j as [|j IH]; intros s Hs.
    - cbn in Hs. inversion Hs. reflexivity.
    - rewrite repeat_S_snoc, crun_snoc in Hs. destruct (my_frun n (repeat c j) Hn) as (s1 & Hr & Hi).
      rewrite Hr in Hs. cbn [bind] in Hs.
      destruct (my_fstep n (repeat c j) s1 c Hn Hi) as (s' & Hs' & _ & Hold).
      cbn [cstep myrsi_core] in Hs. rewrite Hs' in Hs. inversion Hs; subst s'.
      rewrite (Hold c Hc); [apply IH; exact Hr|].
      rewrite <- repeat_S_snoc. apply Forall_lastn, Forall_repeat_eq. }
  destruct (my_frun n (repeat c k) Hn) as (s & Hr & (Hq & _)).
  unfold cout. rewrite Hr. cbn [bind clast myrsi_core]. rewrite Hq, lastn_length, repeat_length.
  destruct (Nat.ltb_spec (Nat.min n k) n); [lia|]. rewrite (Hall k s Hr). reflexivity.
Qed.

Print Assumptions rsi_flat_f64_gen.
Print Assumptions myrsi_flat_f64_gen.
Print Assumptions myrsi_flat_f64_all.
Print Assumptions f_ofnat_pos.
