(** C15/C08 for ema, laguerre, laguerre-rsi, gte, lte, drawdown, ln-return, welford-rolling. *)
From Coq Require Import List Arith Lia Reals Lra ZArith.
From SF Require Import Res Scalar View Models Spec Core.
From SF.Proofs Require Import Window RBase SafeBase SafeTac SafeA2.
Import ListNotations.
Open Scope R_scope.

(* ---------------------------------------------------------------- ema *)
Definition ema_I (k : nat) (s : @ema_st R) : Prop := ema_n s = k.

Lemma ema_alpha_safe n alpha : Safe (@ema_core_alpha R ROps n alpha) (fun _ => True) ema_I.
Proof.
  constructor.
  - eexists. split; [reflexivity|]. reflexivity.
  - intros k s v Hi _. unfold ema_I in *. cbn [cstep ema_core_alpha]. unfold ema_step.
    cbn [sadd s1 sofnat ROps]. rewrite sdiv_R_ok by apply one_plus_INR_neq0. cbn [bind].
    destruct (Nat.eqb (S (ema_n s)) 1); eexists; (split; [reflexivity|]); cbn [ema_n]; lia.
  - intros k s _. cbn [clast ema_core_alpha]. destruct (Nat.ltb (ema_n s) n); eauto.
Qed.
Lemma ema_alpha_ready n alpha : ReadyAt (@ema_core_alpha R ROps n alpha) ema_I n.
Proof.
  intros k s Hi. unfold ema_I in Hi. cbn [clast ema_core_alpha]. subst k.
  split; intros Hk; destruct (Nat.ltb_spec (ema_n s) n); try lia; eauto.
Qed.

(** C15 Ema (any [n], any smoothing constant) *)
Theorem safe_ema_alpha n alpha vs :
  exists s o, crun (@ema_core_alpha R ROps n alpha) vs = Ok s /\ clast (@ema_core_alpha R ROps n alpha) s = Ok o.
Proof. apply (safe_run (ema_alpha_safe n alpha)). apply trueD. Qed.
Theorem safe_ema n vs :
  exists s o, crun (@ema_core R ROps n) vs = Ok s /\ clast (@ema_core R ROps n) s = Ok o.
Proof. apply safe_ema_alpha. Qed.
(** C08 Ema *)
Theorem ready_mono_ema n :
  CReadyMono (@ema_core R ROps n) (fun _ => True) (InvOf (@ema_core R ROps n) ema_I).
Proof. exact (ready_at_mono (ema_alpha_safe n _) (@ema_alpha_ready n _)). Qed.
Theorem warmup_ema n vs : (cout (@ema_core R ROps n) vs = Ok None <-> (length vs < n)%nat).
Proof. apply (warmup_none (ema_alpha_safe n _) (@ema_alpha_ready n _)). apply trueD. Qed.

(* ---------------------------------------------------------------- laguerre filter *)
Definition lag_I (k : nat) (s : @lag_st R) : Prop := opt_at1 k (lg_out s).

Lemma lag_out_ok (l : @lag4 R) : exists o, @lag_out R ROps l = Ok o.
Proof.
  destruct l as [[[l0 l1] l2] l3]. unfold lag_out. rewrite sdiv_R_ok by apply s6_neq0. eauto.
Qed.

Lemma laguerre_safe g : Safe (@laguerre_core R ROps g) (fun _ => True) lag_I.
Proof.
  constructor.
  - eexists. split; [reflexivity|]. apply opt_at1_0.
  - intros k s v Hi _. cbn [cstep laguerre_core]. unfold laguerre_step.
    destruct (lag_out_ok (match lg_prev s with None => (v, v, v, v) | Some p => lag_ladder g p v end)) as [o Ho].
    rewrite Ho. cbn [bind]. eexists. split; [reflexivity|]. apply opt_at1_S.
  - intros k s _. cbn. eauto.
Qed.
Lemma laguerre_ready g : ReadyAt (@laguerre_core R ROps g) lag_I 1.
Proof. intros k s Ho. cbn [clast laguerre_core]. apply opt_at1_ready. exact Ho. Qed.

(** C15 LaguerreFilter (any gamma) *)
Theorem safe_laguerre g vs :
  exists s o, crun (@laguerre_core R ROps g) vs = Ok s /\ clast (@laguerre_core R ROps g) s = Ok o.
Proof. apply (safe_run (laguerre_safe g)). apply trueD. Qed.
(** C08 LaguerreFilter *)
Theorem ready_mono_laguerre g :
  CReadyMono (@laguerre_core R ROps g) (fun _ => True) (InvOf (@laguerre_core R ROps g) lag_I).
Proof. exact (ready_at_mono (laguerre_safe g) (@laguerre_ready g)). Qed.
Theorem warmup_laguerre g vs : (cout (@laguerre_core R ROps g) vs = Ok None <-> (length vs < 1)%nat).
Proof. apply (warmup_none (laguerre_safe g) (@laguerre_ready g)). apply trueD. Qed.

(* ---------------------------------------------------------------- laguerre rsi *)
Definition lrsi_I (n : nat) (k : nat) (s : R * @lrsi_st R) : Prop := True.

Lemma lrsi_step_ok g s v : exists s', @lrsi_step R ROps g s v = Ok s' /\
  (lr_value s <> None -> lr_value s' <> None).
Proof.
  unfold lrsi_step.
  destruct (Nat.ltb (if Nat.leb 3 (lr_len s) then lr_len s - 1 else lr_len s) 2)%nat.
  - eexists. split; [reflexivity|]. cbn. auto.
  - destruct (lrsi_ratio (lag_ladder g (lr_prev s) v)) as [cu cd].
    unfold sneb. cbn [seqb sadd s0 ROps]. destruct (Reqb (cu + cd) 0) eqn:E; cbn [negb].
    + cbn [bind]. eexists. split; [reflexivity|]. cbn. auto.
    + apply Reqb_false in E. rewrite sdiv_R_ok by exact E. cbn [bind].
      eexists. split; [reflexivity|]. cbn. intros _. discriminate.
Qed.

Lemma lrsi_new_ok n : exists g, cnew (@lrsi_core R ROps n) = Ok (g, {| lr_len := 0; lr_prev := (0, 0, 0, 0); lr_value := None |}).
Proof.
  cbn [cnew lrsi_core]. cbn [sadd sofnat s1 ROps]. rewrite sdiv_R_ok by apply INR_plus1_neq0.
  cbn [bind]. eexists. reflexivity.
Qed.

Lemma lrsi_safe n : Safe (@lrsi_core R ROps n) (fun _ => True) (lrsi_I n).
Proof.
  constructor.
  - destruct (lrsi_new_ok n) as [g Hg]. eexists. split; [exact Hg|]. exact I.
  - intros k s v _ _. cbn [cstep lrsi_core]. destruct (lrsi_step_ok (fst s) (snd s) v) as [s' [H1 _]].
    rewrite H1. cbn [bind]. eexists. split; [reflexivity|]. exact I.
  - intros k s _. cbn. eauto.
Qed.

(** C15 LaguerreRSI (every n: the constructor divides by n + 1) *)
Theorem safe_lrsi n vs :
  exists s o, crun (@lrsi_core R ROps n) vs = Ok s /\ clast (@lrsi_core R ROps n) s = Ok o.
Proof. apply (safe_run (lrsi_safe n)). apply trueD. Qed.
(** C08 LaguerreRSI: an answer, once present, persists *)
Theorem keeps_ready_lrsi n : KeepsReady (@lrsi_core R ROps n).
Proof.
  intros s v s' x Hl Hs. cbn [clast cstep lrsi_core] in *.
  destruct (lrsi_step_ok (fst s) (snd s) v) as [s1 [H1 H2]]. rewrite H1 in Hs. cbn [bind] in Hs.
  inversion Hs; subst. cbn [snd]. inversion Hl as [Hx].
  destruct (lr_value s1) as [y|]; [eauto|]. exfalso. apply H2; [rewrite Hx; discriminate | reflexivity].
Qed.
Theorem ready_mono_lrsi n :
  CReadyMono (@lrsi_core R ROps n) (fun _ => True) (InvOf (@lrsi_core R ROps n) (lrsi_I n)).
Proof. apply keeps_ready_mono. apply keeps_ready_lrsi. Qed.

(* ---------------------------------------------------------------- gte / lte *)
Definition clip_I (k : nat) (s : option R) : Prop := opt_at1 k s.

Lemma gte_safe clip : Safe (@gte_core R ROps clip) (fun _ => True) clip_I.
Proof.
  constructor.
  - eexists. split; [reflexivity|]. apply opt_at1_0.
  - intros k s v _ _. eexists. split; [reflexivity|]. apply opt_at1_S.
  - intros k s _. cbn. eauto.
Qed.
Lemma lte_safe clip : Safe (@lte_core R ROps clip) (fun _ => True) clip_I.
Proof.
  constructor.
  - eexists. split; [reflexivity|]. apply opt_at1_0.
  - intros k s v _ _. eexists. split; [reflexivity|]. apply opt_at1_S.
  - intros k s _. cbn. eauto.
Qed.
Lemma gte_ready clip : ReadyAt (@gte_core R ROps clip) clip_I 1.
Proof. intros k s Ho. cbn [clast gte_core]. apply opt_at1_ready. exact Ho. Qed.
Lemma lte_ready clip : ReadyAt (@lte_core R ROps clip) clip_I 1.
Proof. intros k s Ho. cbn [clast lte_core]. apply opt_at1_ready. exact Ho. Qed.

(** C15 GTE / LTE *)
Theorem safe_gte clip vs :
  exists s o, crun (@gte_core R ROps clip) vs = Ok s /\ clast (@gte_core R ROps clip) s = Ok o.
Proof. apply (safe_run (gte_safe clip)). apply trueD. Qed.
Theorem safe_lte clip vs :
  exists s o, crun (@lte_core R ROps clip) vs = Ok s /\ clast (@lte_core R ROps clip) s = Ok o.
Proof. apply (safe_run (lte_safe clip)). apply trueD. Qed.
(** C08 GTE / LTE *)
Theorem ready_mono_gte clip :
  CReadyMono (@gte_core R ROps clip) (fun _ => True) (InvOf (@gte_core R ROps clip) clip_I).
Proof. exact (ready_at_mono (gte_safe clip) (@gte_ready clip)). Qed.
Theorem ready_mono_lte clip :
  CReadyMono (@lte_core R ROps clip) (fun _ => True) (InvOf (@lte_core R ROps clip) clip_I).
Proof. exact (ready_at_mono (lte_safe clip) (@lte_ready clip)). Qed.
Theorem warmup_gte clip vs : (cout (@gte_core R ROps clip) vs = Ok None <-> (length vs < 1)%nat).
Proof. apply (warmup_none (gte_safe clip) (@gte_ready clip)). apply trueD. Qed.
Theorem warmup_lte clip vs : (cout (@lte_core R ROps clip) vs = Ok None <-> (length vs < 1)%nat).
Proof. apply (warmup_none (lte_safe clip) (@lte_ready clip)). apply trueD. Qed.

(* ---------------------------------------------------------------- drawdown (positive inputs) *)
Definition pos (x : R) : Prop := 0 < x.
Definition dd_I (k : nat) (s : @dd_st R) : Prop := forall p, dd_peak s = Some p -> 0 < p.

Lemma drawdown_safe : Safe (@drawdown_core R ROps) pos dd_I.
Proof.
  constructor.
  - eexists. split; [reflexivity|]. intros p H. discriminate.
  - intros k s v Hi Hv. unfold pos in Hv. cbn [cstep drawdown_core]. unfold dd_step.
    assert (Hpk : exists pk mn, (match dd_peak s with
                   | None => (v, v)
                   | Some p => if @sgtb R ROps v p then (v, v) else (p, dd_min s)
                   end) = (pk, mn) /\ 0 < pk).
    { destruct (dd_peak s) as [p|] eqn:Ep.
      - destruct (@sgtb R ROps v p); [exists v, v; auto|]. exists p, (dd_min s). split; [reflexivity|]. apply Hi. exact Ep.
      - exists v, v. auto. }
    destruct Hpk as [pk [mn [Hpk Hpos]]]. rewrite Hpk.
    rewrite sdiv_R_ok by lra. cbn [bind]. eexists. split; [reflexivity|].
    intros p Hp. cbn [dd_peak] in Hp. inversion Hp; subst. exact Hpos.
  - intros k s _. cbn. eauto.
Qed.
Lemma drawdown_ready : ReadyAt (@drawdown_core R ROps) dd_I 0.
Proof. intros k s _. cbn [clast drawdown_core]. split; [lia | eauto]. Qed.

(** C15 Drawdown (positive inputs) *)
Theorem safe_drawdown vs : Forall pos vs ->
  exists s o, crun (@drawdown_core R ROps) vs = Ok s /\ clast (@drawdown_core R ROps) s = Ok o.
Proof. apply (safe_run drawdown_safe). Qed.
(** C08 Drawdown: always answers *)
Theorem ready_mono_drawdown :
  CReadyMono (@drawdown_core R ROps) pos (InvOf (@drawdown_core R ROps) dd_I).
Proof. exact (ready_at_mono drawdown_safe drawdown_ready). Qed.
(** the guard is needed: a zero first value makes the peak 0 and the division fails *)
Theorem drawdown_zero_fails : cout (@drawdown_core R ROps) [0] = Err NonFinite.
Proof.
  unfold cout, crun. cbn [cnew drawdown_core bind cfold cstep]. unfold dd_step. cbn [dd_peak].
  cbn [sltb ROps]. destruct (Rltb 0 0); cbn [ssub ROps]; unfold sdiv; cbn [ROps]; unfold Rdiv_res;
    destruct (Req_EM_T 0 0); try contradiction; reflexivity.
Qed.

(* ---------------------------------------------------------------- ln return (positive inputs) *)
Definition lnret_I (k : nat) (s : R * R) : Prop :=
  (k = 0%nat -> s = (0, 0)) /\ (k = 1%nat -> fst s = 0 /\ 0 < snd s) /\ ((2 <= k)%nat -> 0 < fst s /\ 0 < snd s).

Lemma lnret_safe : Safe (@lnret_core R ROps) pos lnret_I.
Proof.
  constructor.
  - eexists. split; [reflexivity|]. split; [reflexivity|]. split; intros; lia.
  - intros k s v [H0 [H1 H2]] Hv. unfold pos in Hv. cbn [cstep lnret_core]. eexists. split; [reflexivity|].
    cbn [fst snd]. split; [lia|]. split.
    + intros Hk. assert (k = 0)%nat by lia. rewrite (H0 H). cbn. auto.
    + intros Hk. destruct (Nat.eq_dec k 1) as [E|E].
      * destruct (H1 E). auto.
      * destruct H2; [lia|]. auto.
  - intros k s [H0 [H1 H2]]. cbn [clast lnret_core]. cbn [seqb s0 ROps].
    destruct (Reqb (fst s) 0) eqn:E; [eauto|]. apply Reqb_false in E.
    assert (Hk : (2 <= k)%nat).
    { destruct k as [|[|k]]; [rewrite H0 in E by reflexivity; cbn in E; lra | destruct H1; [reflexivity|]; lra | lia]. }
    destruct (H2 Hk) as [Hf Hs]. rewrite sdiv_R_ok by lra. cbn [bind]. cbn [sln ROps].
    destruct (Rle_dec (snd s / fst s) 0) as [Hle|Hle].
    + exfalso. pose proof (Rdiv_lt_0_compat _ _ Hs Hf). lra.
    + cbn [bind]. eauto.
Qed.
Lemma lnret_ready : ReadyAt (@lnret_core R ROps) lnret_I 2.
Proof.
  intros k s Hi. destruct (sf_last lnret_safe k s Hi) as [o Ho]. destruct Hi as [H0 [H1 H2]].
  cbn [clast lnret_core] in *. cbn [seqb s0 ROps] in *. split; intros Hk.
  - destruct k as [|[|k]]; [rewrite H0 by reflexivity | destruct H1 as [H1 _]; [reflexivity|]; rewrite H1 | lia];
      cbn [fst]; (destruct (Reqb 0 0) eqn:E; [reflexivity | apply Reqb_false in E; lra]).
  - destruct (H2 Hk) as [Hf Hs]. destruct (Reqb (fst s) 0) eqn:E; [apply Reqb_true in E; lra|].
    rewrite sdiv_R_ok in * by lra. cbn [bind] in *. cbn [sln ROps] in *.
    destruct (Rle_dec (snd s / fst s) 0); cbn [bind] in *; [discriminate | eauto].
Qed.

(** C15 LnReturn (positive inputs) *)
Theorem safe_lnret vs : Forall pos vs ->
  exists s o, crun (@lnret_core R ROps) vs = Ok s /\ clast (@lnret_core R ROps) s = Ok o.
Proof. apply (safe_run lnret_safe). Qed.
(** C08 LnReturn: reports from the 2nd value *)
Theorem ready_mono_lnret :
  CReadyMono (@lnret_core R ROps) pos (InvOf (@lnret_core R ROps) lnret_I).
Proof. exact (ready_at_mono lnret_safe lnret_ready). Qed.
Theorem warmup_lnret vs : Forall pos vs -> (cout (@lnret_core R ROps) vs = Ok None <-> (length vs < 2)%nat).
Proof. apply (warmup_none lnret_safe lnret_ready). Qed.

(* ---------------------------------------------------------------- welford rolling *)
Definition wr_I (k : nat) (s : @wr_st R) : Prop := wr_n s = k /\ 0 <= wr_s s.

Lemma wr_step_ok k s v : wr_I k s -> exists s', @wr_step R ROps s v = Ok s' /\ wr_I (S k) s'.
Proof.
  intros [Hn Hs]. unfold wr_step. cbn [sofnat ssub sadd smul ROps].
  rewrite sdiv_R_ok by apply INR_S_neq0. cbn [bind]. eexists. split; [reflexivity|].
  split; cbn [wr_n wr_s]; [lia|].
  set (d := v - wr_mean s). set (m := INR (S (wr_n s))).
  assert (Hm : 1 <= m) by (apply INR_ge1; lia).
  assert (E : d * (v - (wr_mean s + d / m)) = d * d * (1 - / m)).
  { unfold d. field. lra. }
  rewrite E. pose proof (Rle_0_sqr d) as Hd. unfold Rsqr in Hd.
  assert (0 <= 1 - / m).
  { assert (/ m <= 1). { rewrite <- Rinv_1. apply Rinv_le_contravar; lra. } lra. }
  pose proof (Rmult_le_pos _ _ Hd H). lra.
Qed.

Lemma wr_last_ok k s : wr_I k s ->
  ((k < 1)%nat -> @wr_last R ROps s = Ok None) /\ ((1 <= k)%nat -> exists y, @wr_last R ROps s = Ok (Some y)).
Proof.
  intros [Hn Hs]. unfold wr_last. split; intros Hk.
  - replace (wr_n s) with 0%nat by lia. reflexivity.
  - destruct (Nat.eqb_spec (wr_n s) 0) as [E|E]; [lia|].
    unfold wr_variance. destruct (Nat.ltb_spec 1 (wr_n s)) as [H1|H1].
    + cbn [sofnat ROps]. rewrite sdiv_R_ok by (apply INR_pos_neq; lia). cbn [bind]. cbn [ssqrt ROps].
      destruct (Rlt_dec (wr_s s / INR (wr_n s)) 0) as [Hlt|Hlt]; [|cbn [bind]; eauto].
      exfalso. assert (0 < INR (wr_n s)) by (apply INR_pos'; lia).
      assert (0 <= wr_s s / INR (wr_n s)). { apply Rmult_le_pos; [lra|]. left. apply Rinv_0_lt_compat. lra. }
      lra.
    + cbn [bind]. cbn [ssqrt s0 ROps]. destruct (Rlt_dec 0 0); [lra|]. cbn [bind]. eauto.
Qed.

Lemma wrolling_safe : Safe (@wrolling_core R ROps) (fun _ => True) wr_I.
Proof.
  constructor.
  - eexists. split; [reflexivity|]. split; cbn; [reflexivity | lra].
  - intros k s v Hi _. exact (wr_step_ok k s v Hi).
  - intros k s Hi. cbn [clast wrolling_core]. destruct (wr_last_ok k s Hi) as [H0 H1].
    destruct k; [rewrite H0 by lia; eauto|]. destruct H1 as [y Hy]; [lia|]. eauto.
Qed.
Lemma wrolling_ready : ReadyAt (@wrolling_core R ROps) wr_I 1.
Proof. intros k s Hi. cbn [clast wrolling_core]. exact (wr_last_ok k s Hi). Qed.
Lemma wrolling_mean_safe : Safe (@wrolling_mean_core R ROps) (fun _ => True) wr_I.
Proof.
  constructor.
  - eexists. split; [reflexivity|]. split; cbn; [reflexivity | lra].
  - intros k s v Hi _. exact (wr_step_ok k s v Hi).
  - intros k s Hi. cbn. eauto.
Qed.

Lemma wrolling_mean_ready : ReadyAt (@wrolling_mean_core R ROps) wr_I 0.
Proof. intros k s _. cbn [clast wrolling_mean_core]. split; [lia | eauto]. Qed.

(** C15 WelfordRolling (and its mean getter) *)
Theorem safe_wrolling vs :
  exists s o, crun (@wrolling_core R ROps) vs = Ok s /\ clast (@wrolling_core R ROps) s = Ok o.
Proof. apply (safe_run wrolling_safe). apply trueD. Qed.
Theorem safe_wrolling_mean vs :
  exists s o, crun (@wrolling_mean_core R ROps) vs = Ok s /\ clast (@wrolling_mean_core R ROps) s = Ok o.
Proof. apply (safe_run wrolling_mean_safe). apply trueD. Qed.
(** C08 WelfordRolling: from the 1st value *)
Theorem ready_mono_wrolling :
  CReadyMono (@wrolling_core R ROps) (fun _ => True) (InvOf (@wrolling_core R ROps) wr_I).
Proof. exact (ready_at_mono wrolling_safe wrolling_ready). Qed.
Theorem warmup_wrolling vs : (cout (@wrolling_core R ROps) vs = Ok None <-> (length vs < 1)%nat).
Proof. apply (warmup_none wrolling_safe wrolling_ready). apply trueD. Qed.

Example safe_F_pos_hyps : Forall pos [1; 2; 1/2].
Proof. repeat constructor; unfold pos; lra. Qed.

Print Assumptions safe_ema.
Print Assumptions warmup_ema.
Print Assumptions safe_laguerre.
Print Assumptions warmup_laguerre.
Print Assumptions safe_lrsi.
Print Assumptions ready_mono_lrsi.
Print Assumptions safe_gte.
Print Assumptions safe_lte.
Print Assumptions safe_drawdown.
Print Assumptions safe_lnret.
Print Assumptions warmup_lnret.
Print Assumptions safe_wrolling.
Print Assumptions warmup_wrolling.
