(** Moving averages Sma, Ema, Alma: weighted means, closed forms at [R], and the consequences
    C04 (hull, constants, monotone, affine, kernel), C10 (linearity), C03 (finite memory), C12 (scaling). *)
From Coq Require Import List Arith Lia Reals Lra.
From SF Require Import Res Scalar View Models Spec Core SpecAvg.
From SF.Proofs Require Import Window RBase SmaP.
Import ListNotations.
Open Scope R_scope.

(* ------------------------------------------------------------------------------------------ *)
(** * 1. Weighted means over lists with positive weights *)

Notation Rsum := (@ssum R ROps).
Notation Rdot := (@sdot R ROps).
Notation Rwmean := (@wmean R ROps).

Definition between (lo hi x : R) : Prop := lo <= x <= hi.
(** pointwise combination a*x_i + b*y_i of two histories *)
Definition lincomb (a b : R) (xs ys : list R) : list R :=
  map (fun p => a * fst p + b * snd p) (combine xs ys).
Definition affine (a b : R) (x : R) : R := a * x + b.

Lemma Rdot_nil_l xs : Rdot [] xs = 0. Proof. reflexivity. Qed.
Lemma Rdot_nil_r ws : Rdot ws [] = 0. Proof. destruct ws; reflexivity. Qed.
Lemma Rdot_cons w ws x xs : Rdot (w :: ws) (x :: xs) = w * x + Rdot ws xs.
Proof. unfold sdot. cbn [combine map fst snd]. rewrite ssum_R_cons. reflexivity. Qed.
Lemma combine_app_eq {A B} (l1 l1' : list A) (l2 l2' : list B) : length l1 = length l2 ->
  combine (l1 ++ l1') (l2 ++ l2') = combine l1 l2 ++ combine l1' l2'.
Proof.
  revert l2. induction l1 as [|a l1 IH]; intros [|b l2] H; try discriminate; cbn; [reflexivity|].
  f_equal. apply IH. cbn in H. lia.
Qed.
Lemma Rdot_snoc ws w xs x : length ws = length xs ->
  Rdot (ws ++ [w]) (xs ++ [x]) = Rdot ws xs + w * x.
Proof.
  intros H. unfold sdot. rewrite combine_app_eq by exact H. rewrite map_app. cbn [combine map fst snd].
  rewrite ssum_R_app. reflexivity.
Qed.

Lemma Rsum_nonneg ws : Forall (fun w => 0 < w) ws -> 0 <= Rsum ws.
Proof.
  induction 1 as [|w ws Hw _ IH]; [rewrite ssum_R_nil; lra | rewrite ssum_R_cons; lra].
Qed.
Lemma Rsum_pos ws : Forall (fun w => 0 < w) ws -> ws <> [] -> 0 < Rsum ws.
Proof.
  intros H Hne. destruct H as [|w ws Hw Hws]; [congruence|].
  rewrite ssum_R_cons. pose proof (Rsum_nonneg _ Hws). lra.
Qed.

Lemma Rdot_bounds lo hi ws xs : Forall (fun w => 0 < w) ws -> length ws = length xs ->
  Forall (between lo hi) xs -> lo * Rsum ws <= Rdot ws xs <= hi * Rsum ws.
Proof.
  intros Hw. revert xs. induction Hw as [|w ws Hw _ IH]; intros xs Hl Hx.
  - rewrite Rdot_nil_l, ssum_R_nil. lra.
  - destruct xs as [|x xs]; [discriminate|]. inversion Hx as [|? ? [Hx1 Hx2] Hxs]; subst.
    rewrite Rdot_cons, ssum_R_cons. specialize (IH xs ltac:(cbn in Hl; lia) Hxs). nra.
Qed.

Lemma Rdot_mono ws xs ys : Forall (fun w => 0 < w) ws -> length ws = length xs ->
  Forall2 Rle xs ys -> Rdot ws xs <= Rdot ws ys.
Proof.
  intros Hw Hl H. revert ws Hw Hl. induction H as [|x y xs ys Hxy _ IH]; intros ws Hw Hl.
  - rewrite !Rdot_nil_r. lra.
  - destruct ws as [|w ws]; [discriminate|]. inversion Hw; subst.
    rewrite !Rdot_cons. specialize (IH ws ltac:(assumption) ltac:(cbn in Hl; lia)). nra.
Qed.

Lemma Rdot_lincomb a b ws xs ys : length ws = length xs -> length xs = length ys ->
  Rdot ws (lincomb a b xs ys) = a * Rdot ws xs + b * Rdot ws ys.
Proof.
  revert xs ys. induction ws as [|w ws IH]; intros xs ys H1 H2.
  - rewrite !Rdot_nil_l. lra.
  - destruct xs as [|x xs]; [discriminate|]. destruct ys as [|y ys]; [discriminate|].
    unfold lincomb. cbn [combine map fst snd]. fold (lincomb a b xs ys).
    rewrite !Rdot_cons, IH by (cbn in *; lia). lra.
Qed.

Lemma Rdot_affine a b ws xs : length ws = length xs ->
  Rdot ws (map (affine a b) xs) = a * Rdot ws xs + b * Rsum ws.
Proof.
  revert xs. induction ws as [|w ws IH]; intros xs H.
  - rewrite !Rdot_nil_l, ssum_R_nil. lra.
  - destruct xs as [|x xs]; [discriminate|]. cbn [map].
    rewrite !Rdot_cons, ssum_R_cons, IH by (cbn in *; lia). unfold affine. lra.
Qed.

Lemma Rwmean_div ws xs : Rsum ws <> 0 -> Rwmean ws xs = Rdot ws xs / Rsum ws.
Proof. intros H. unfold wmean. apply sdivd_R. exact H. Qed.

(** (i) a weighted mean with positive weights stays between any bounds of the values *)
Theorem wmean_bounds lo hi ws xs : Forall (fun w => 0 < w) ws -> ws <> [] -> length ws = length xs ->
  Forall (between lo hi) xs -> lo <= Rwmean ws xs <= hi.
Proof.
  intros Hw Hne Hl Hx. pose proof (Rsum_pos _ Hw Hne) as Hp.
  rewrite Rwmean_div by lra. destruct (Rdot_bounds _ _ _ _ Hw Hl Hx) as [H1 H2]. split.
  - apply Rmult_le_reg_r with (Rsum ws); [exact Hp|]. unfold Rdiv. rewrite Rmult_assoc, Rinv_l by lra. lra.
  - apply Rmult_le_reg_r with (Rsum ws); [exact Hp|]. unfold Rdiv. rewrite Rmult_assoc, Rinv_l by lra. lra.
Qed.

(** (iv) it commutes with x -> a*x+b (any a, b) *)
Theorem wmean_affine a b ws xs : Forall (fun w => 0 < w) ws -> ws <> [] -> length ws = length xs ->
  Rwmean ws (map (affine a b) xs) = a * Rwmean ws xs + b.
Proof.
  intros Hw Hne Hl. pose proof (Rsum_pos _ Hw Hne) as Hp.
  rewrite !Rwmean_div by lra. rewrite Rdot_affine by exact Hl. field. lra.
Qed.

(** (ii) it reproduces a constant exactly *)
Theorem wmean_const c ws : Forall (fun w => 0 < w) ws -> ws <> [] ->
  Rwmean ws (repeat c (length ws)) = c.
Proof.
  intros Hw Hne.
  assert (H : c <= Rwmean ws (repeat c (length ws)) <= c).
  { apply wmean_bounds; try assumption; [rewrite repeat_length; reflexivity|].
    apply Forall_forall. intros x Hx. apply repeat_spec in Hx. subst. unfold between. lra. }
  lra.
Qed.

(** (iii) it is monotone in the values, pointwise *)
Theorem wmean_mono ws xs ys : Forall (fun w => 0 < w) ws -> ws <> [] -> length ws = length xs ->
  Forall2 Rle xs ys -> Rwmean ws xs <= Rwmean ws ys.
Proof.
  intros Hw Hne Hl H. pose proof (Rsum_pos _ Hw Hne) as Hp. rewrite !Rwmean_div by lra.
  pose proof (Rdot_mono _ _ _ Hw Hl H). unfold Rdiv. apply Rmult_le_compat_r; [|assumption].
  left. apply Rinv_0_lt_compat. exact Hp.
Qed.

(** (v) it is linear in the values *)
Theorem wmean_lincomb a b ws xs ys : Forall (fun w => 0 < w) ws -> ws <> [] ->
  length ws = length xs -> length xs = length ys ->
  Rwmean ws (lincomb a b xs ys) = a * Rwmean ws xs + b * Rwmean ws ys.
Proof.
  intros Hw Hne H1 H2. pose proof (Rsum_pos _ Hw Hne) as Hp.
  rewrite !Rwmean_div by lra. rewrite Rdot_lincomb by assumption. field. lra.
Qed.

(* ------------------------------------------------------------------------------------------ *)
(** * 3a. Ema: closed form *)

Notation Rema_w := (@ema_weight R ROps).
Notation Rema_val := (@ema_val R ROps).

(** total version of [ema_val] used for the invariant (0 on the empty history, as in [Ema::with_alpha]) *)
Definition ema_valT (w : R) (h : list R) : R := match Rema_val w h with Some e => e | None => 0 end.

Lemma one_plus_INR_neq n : 1 + INR n <> 0.
Proof. pose proof (pos_INR n). lra. Qed.

Lemma ema_weight_R n alpha : Rema_w n alpha = alpha / (1 + INR n).
Proof. unfold ema_weight. apply sdivd_R. apply one_plus_INR_neq. Qed.

Lemma ema_val_snoc w x0 r v :
  Rema_val w ((x0 :: r) ++ [v]) = Some (v * w + ema_valT w (x0 :: r) * (1 - w)).
Proof. unfold ema_valT, ema_val. cbn [app]. rewrite fold_left_app. reflexivity. Qed.

Definition ema_inv (w : R) (h : list R) (s : @ema_st R) : Prop :=
  ema_n s = length h /\ ema_last s = ema_valT w h /\ ema_out s = ema_valT w h.

Lemma ema_step_inv n alpha h s v : ema_inv (Rema_w n alpha) h s ->
  exists s', ema_step n alpha s v = Ok s' /\ ema_inv (Rema_w n alpha) (h ++ [v]) s'.
Proof.
  intros [Hn [Hl Ho]]. unfold ema_step. cbn [s1 sadd sofnat ROps].
  rewrite sdiv_R_ok by apply one_plus_INR_neq. cbn [bind]. rewrite <- ema_weight_R. rewrite Hn.
  destruct h as [|x0 r].
  - cbn [length Nat.eqb]. eexists; split; [reflexivity|]. repeat split.
  - cbn [length Nat.eqb]. eexists; split; [reflexivity|].
    unfold ema_inv. cbn [ema_n ema_last ema_out]. rewrite Hl. unfold ema_valT at 2 4. rewrite ema_val_snoc.
    cbn [smul ssub sadd s1 ROps]. rewrite !app_length. cbn [length]. repeat split. lia.
Qed.

Lemma ema_run n alpha vs :
  exists s, crun (@ema_core_alpha R ROps n alpha) vs = Ok s /\ ema_inv (Rema_w n alpha) vs s.
Proof.
  apply (@crun_inv R (@ema_core_alpha R ROps n alpha) (fun _ => True) (ema_inv (Rema_w n alpha))
          {| ema_last := 0; ema_out := 0; ema_n := 0%nat |}).
  - reflexivity.
  - repeat split.
  - intros h s v _ _ Hi. apply ema_step_inv; assumption.
  - apply Forall_forall; trivial.
Qed.

(** Ema (any alpha, any data — zeros and sign changes included): e_0 = x_0, e_t = x_t*w + e_(t-1)*(1-w),
    w = alpha/(1+N), no answer before N values.  The only guard excludes "window 0 and no value yet". *)
Theorem ema_closed_form n alpha vs : (1 <= n)%nat \/ vs <> [] ->
  cout (@ema_core_alpha R ROps n alpha) vs = Ok (@spec_ema R ROps n alpha vs).
Proof.
  intros Hg. destruct (ema_run n alpha vs) as [s [Hr [Hn [_ Ho]]]].
  unfold cout. rewrite Hr. cbn [bind clast ema_core_alpha]. unfold spec_ema. rewrite Hn.
  destruct (Nat.ltb_spec (length vs) n) as [H|H]; [reflexivity|].
  rewrite Ho. unfold ema_valT. destruct vs as [|x0 r]; [|reflexivity].
  cbn in H. destruct Hg as [Hg|Hg]; [lia | congruence].
Qed.

(** the excluded corner: with window length 0, [last()] before any value answers [Some 0] *)
Lemma ema_zero_window_quirk alpha : cout (@ema_core_alpha R ROps 0 alpha) [] = Ok (Some 0).
Proof. reflexivity. Qed.

Corollary ema_default_closed_form n vs : (1 <= n)%nat \/ vs <> [] ->
  cout (@ema_core R ROps n) vs = Ok (@spec_ema R ROps n 2 vs).
Proof.
  intros H. unfold ema_core. rewrite (ema_closed_form n _ vs H). do 2 f_equal.
  cbn [sofdec ROps]. cbn. lra.
Qed.

(* ------------------------------------------------------------------------------------------ *)
(** * 3b. Alma: closed form *)

Notation Ralma_w := (@alma_weight R ROps).
Notation Ralma_all := (@alma_all_weights R ROps).

(** the Gaussian kernel at [R] *)
Definition gaussR (m s : R) (k : nat) : R := exp (- ((INR k - m) * (INR k - m)) / (2 * s * s)).

Lemma two_R : @sofdec R ROps 2 0 = 2.
Proof. cbn [sofdec ROps]. cbn. lra. Qed.

Lemma gauss_R m s k : s <> 0 -> @gauss R ROps m s k = gaussR m s k.
Proof.
  intros Hs. unfold gauss, gaussR, sexpd, s2. rewrite two_R. cbn [smul ssub sneg sofnat ROps].
  unfold ssq. cbn [smul ROps].
  rewrite sdivd_R; [reflexivity|]. intros H. apply Rmult_integral in H. destruct H as [H|H]; [|lra].
  apply Rmult_integral in H. lra.
Qed.
Lemma gaussR_pos m s k : 0 < gaussR m s k.
Proof. apply exp_pos. Qed.

Lemma alma_s_R n sigma : sigma <> 0 -> @alma_s R ROps n sigma = INR n / sigma.
Proof. intros H. unfold alma_s. apply sdivd_R. exact H. Qed.
Lemma alma_s_neq n sigma : (1 <= n)%nat -> sigma <> 0 -> INR n / sigma <> 0.
Proof.
  intros Hn Hs. unfold Rdiv. apply Rmult_integral_contrapositive. split.
  - apply INR_pos_neq. lia.
  - apply Rinv_neq_0_compat. exact Hs.
Qed.

Lemma alma_weight_R n sigma offset j : (1 <= n)%nat -> sigma <> 0 ->
  Ralma_w n sigma offset j = gaussR (offset * (INR n + 1)) (INR n / sigma) (Nat.min j (n - 1)).
Proof.
  intros Hn Hs. unfold alma_weight. rewrite alma_s_R by exact Hs.
  rewrite gauss_R by (apply alma_s_neq; assumption). reflexivity.
Qed.

Lemma alma_all_length n sigma offset len : length (Ralma_all n sigma offset len) = len.
Proof. unfold alma_all_weights. rewrite map_length, seq_length. reflexivity. Qed.
Lemma alma_all_S n sigma offset len :
  Ralma_all n sigma offset (S len) = Ralma_all n sigma offset len ++ [Ralma_w n sigma offset len].
Proof. unfold alma_all_weights. rewrite seq_S, map_app. reflexivity. Qed.
Lemma alma_all_pos n sigma offset len : (1 <= n)%nat -> sigma <> 0 ->
  Forall (fun w => 0 < w) (Ralma_all n sigma offset len).
Proof.
  intros Hn Hs. apply Forall_forall. intros w Hw. unfold alma_all_weights in Hw.
  apply in_map_iff in Hw. destruct Hw as [j [Hj _]]. subst w.
  rewrite alma_weight_R by assumption. apply gaussR_pos.
Qed.

Lemma Forall_lastn {A} (P : A -> Prop) n (l : list A) : Forall P l -> Forall P (lastn n l).
Proof.
  intros H. apply Forall_forall. intros x Hx. unfold lastn in Hx.
  rewrite <- (firstn_skipn (length l - n) l) in H. apply Forall_app in H. destruct H as [_ H].
  rewrite Forall_forall in H. apply H. exact Hx.
Qed.

(** the window's weights *)
Definition alma_win (n : nat) (sigma offset : R) (len : nat) : list R := lastn n (Ralma_all n sigma offset len).

Lemma alma_win_length n sigma offset len : length (alma_win n sigma offset len) = Nat.min n len.
Proof. unfold alma_win. rewrite lastn_length, alma_all_length. reflexivity. Qed.
Lemma alma_win_pos n sigma offset len : (1 <= n)%nat -> sigma <> 0 ->
  Forall (fun w => 0 < w) (alma_win n sigma offset len).
Proof. intros Hn Hs. apply Forall_lastn. apply alma_all_pos; assumption. Qed.
Lemma alma_win_nonempty n sigma offset len : (1 <= n)%nat -> (1 <= len)%nat -> alma_win n sigma offset len <> [].
Proof.
  intros Hn Hl H. pose proof (alma_win_length n sigma offset len) as E. rewrite H in E. cbn in E. lia.
Qed.

Definition alma_inv (n : nat) (sigma offset : R) (h : list R) (st : R * @alma_st R) : Prop :=
  fst st = INR n / sigma /\
  al_qv (snd st) = lastn n h /\
  al_qw (snd st) = alma_win n sigma offset (length h) /\
  al_wsum (snd st) = Rdot (alma_win n sigma offset (length h)) (lastn n h) /\
  al_cw (snd st) = Rsum (alma_win n sigma offset (length h)) /\
  last_opt (al_qo (snd st)) = @spec_alma R ROps n sigma offset h.

Lemma last_opt_snoc (q : list R) x : last_opt (q ++ [x]) = Some x.
Proof. unfold last_opt. rewrite rev_app_distr. reflexivity. Qed.

Lemma spec_alma_snoc n sigma offset h v :
  @spec_alma R ROps n sigma offset (h ++ [v]) =
  Some (Rwmean (alma_win n sigma offset (length (h ++ [v]))) (lastn n (h ++ [v]))).
Proof. unfold spec_alma. destruct h; reflexivity. Qed.

Lemma alma_step_inv n sigma offset h st v : (1 <= n)%nat -> sigma <> 0 ->
  alma_inv n sigma offset h st ->
  exists st', cstep (@alma_core_custom R ROps n sigma offset) st v = Ok st' /\
              alma_inv n sigma offset (h ++ [v]) st'.
Proof.
  intros Hn Hsig [Hs [Hqv [Hqw [Hws [Hcw _]]]]].
  destruct st as [s0' st]. cbn [fst snd] in *. subst s0'.
  cbn [cstep alma_core_custom fst snd]. unfold alma_step.
  rewrite Hqv, Hqw, Hws, Hcw.
  pose proof (evict_push_lastn n h v Hn) as Hev.
  pose proof (evict_push_lastn n (Ralma_all n sigma offset (length h)) (Ralma_w n sigma offset (length h)) Hn) as Hew.
  rewrite <- alma_all_S in Hew. fold (alma_win n sigma offset (length h)) in Hew.
  fold (alma_win n sigma offset (S (length h))) in Hew.
  rewrite alma_win_length in Hew. rewrite lastn_length in Hev.
  assert (Hlen' : length (h ++ [v]) = S (length h)) by (rewrite app_length; cbn; lia).
  pose proof (alma_win_pos n sigma offset (S (length h)) Hn Hsig) as Hpos.
  pose proof (Rsum_pos _ Hpos (alma_win_nonempty n sigma offset (S (length h)) Hn ltac:(lia))) as Hsum.
  pose proof (alma_s_neq n sigma Hn Hsig) as Hsne.
  assert (Hden : @sofdec R ROps 2 0 * (INR n / sigma) * (INR n / sigma) <> 0).
  { rewrite two_R. intros H. apply Rmult_integral in H. destruct H as [H|H]; [|lra].
    apply Rmult_integral in H. lra. }
  rewrite lastn_length.
  pose proof (alma_win_length n sigma offset (length h)) as Hwl.
  pose proof (lastn_length n h) as Hvl.
  destruct (Nat.leb_spec n (Nat.min n (length h))) as [E|E].
  - (* full window: evict *)
    destruct (lastn n h) as [|ov tv] eqn:Eqv; [cbn in Hvl; lia|].
    destruct (alma_win n sigma offset (length h)) as [|ow tw] eqn:Eqw; [cbn in Hwl; lia|].
    cbn [front bind tl] in *.
    assert (Hcount : length tv = Nat.min (length h) (n - 1)) by (cbn in Hvl; lia).
    assert (Hw : Ralma_w n sigma offset (length h) = gaussR (offset * (INR n + 1)) (INR n / sigma) (length tv)).
    { rewrite alma_weight_R by assumption. rewrite Hcount. reflexivity. }
    cbn [smul ssub sadd sneg sofnat s1 ROps]. unfold ssq. cbn [smul ROps].
    rewrite sdiv_R_ok by exact Hden. cbn [bind sexp ROps].
    rewrite two_R. fold (gaussR (offset * (INR n + 1)) (INR n / sigma) (length tv)). rewrite <- Hw.
    set (w := Ralma_w n sigma offset (length h)) in *.
    assert (Hd : Rdot (tw ++ [w]) (tv ++ [v]) = ow * ov + Rdot tw tv - ow * ov + w * v).
    { rewrite Rdot_snoc by (cbn in Hwl, Hvl; lia). lra. }
    assert (Hc : Rsum (tw ++ [w]) = ow + Rsum tw - ow + w) by (rewrite ssum_R_app; lra).
    rewrite Rdot_cons, ssum_R_cons. rewrite <- Hd, <- Hc. rewrite Hew, Hev.
    rewrite sdiv_R_ok by lra. cbn [bind].
    eexists; split; [reflexivity|]. unfold alma_inv. cbn [fst snd al_qv al_qw al_wsum al_cw al_qo].
    rewrite Hlen', last_opt_snoc, spec_alma_snoc, Hlen'. rewrite Rwmean_div by lra.
    repeat split; reflexivity.
  - (* window not yet full *)
    cbn [bind].
    assert (Hcount : length (lastn n h) = Nat.min (length h) (n - 1)) by lia.
    assert (Hw : Ralma_w n sigma offset (length h) =
                 gaussR (offset * (INR n + 1)) (INR n / sigma) (length (lastn n h))).
    { rewrite alma_weight_R by assumption. rewrite Hcount. reflexivity. }
    cbn [smul ssub sadd sneg sofnat s1 ROps]. unfold ssq. cbn [smul ROps].
    rewrite sdiv_R_ok by exact Hden. cbn [bind sexp ROps].
    rewrite two_R. fold (gaussR (offset * (INR n + 1)) (INR n / sigma) (length (lastn n h))). rewrite <- Hw.
    set (w := Ralma_w n sigma offset (length h)) in *.
    rewrite <- Rdot_snoc by lia. rewrite <- ssum_R_app. rewrite Hew, Hev.
    rewrite sdiv_R_ok by lra. cbn [bind].
    eexists; split; [reflexivity|]. unfold alma_inv. cbn [fst snd al_qv al_qw al_wsum al_cw al_qo].
    rewrite Hlen', last_opt_snoc, spec_alma_snoc, Hlen'. rewrite Rwmean_div by lra.
    repeat split; reflexivity.
Qed.

(** Alma: from the first value on, the answer is the weighted mean of the last N values, each weighted by
    the Gaussian of the queue position it had when it arrived. *)
Theorem alma_closed_form n sigma offset vs : (1 <= n)%nat -> sigma <> 0 ->
  cout (@alma_core_custom R ROps n sigma offset) vs = Ok (@spec_alma R ROps n sigma offset vs).
Proof.
  intros Hn Hsig.
  destruct (@crun_inv R (@alma_core_custom R ROps n sigma offset) (fun _ => True) (alma_inv n sigma offset)
             (INR n / sigma, {| al_wsum := 0; al_cw := 0; al_qv := []; al_qw := []; al_qo := [] |}))
    with (vs := vs) as [st [Hr Hi]].
  - cbn [cnew alma_core_custom sofnat ROps]. rewrite sdiv_R_ok by exact Hsig. reflexivity.
  - unfold alma_inv. cbn [fst snd al_qv al_qw al_wsum al_cw al_qo length].
    unfold alma_win, alma_all_weights. cbn [seq map]. rewrite !lastn_nil. repeat split.
  - intros h s v _ _ Hi. apply alma_step_inv; assumption.
  - apply Forall_forall; trivial.
  - unfold cout. rewrite Hr. cbn [bind clast alma_core_custom].
    destruct Hi as [_ [_ [_ [_ [_ Ho]]]]]. rewrite Ho. reflexivity.
Qed.

Lemma alma_default_params : @sofdec R ROps 6 0 = 6 /\ @sofdec R ROps 85 2 = 85 / 100.
Proof. cbn [sofdec ROps]. cbn. split; lra. Qed.

Corollary alma_default_closed_form n vs : (1 <= n)%nat ->
  cout (@alma_core R ROps n) vs = Ok (@spec_alma R ROps n 6 (85 / 100) vs).
Proof.
  intros Hn. unfold alma_core. destruct alma_default_params as [E1 E2]. rewrite E1, E2.
  apply alma_closed_form; [exact Hn | lra].
Qed.

(* ------------------------------------------------------------------------------------------ *)
(** * Windowed weighted means (the common shape of Sma and Alma) *)

Lemma lastn_map {A B} (f : A -> B) n (l : list A) : lastn n (map f l) = map f (lastn n l).
Proof. unfold lastn. rewrite map_length. apply skipn_map. Qed.
Lemma skipn_repeat_eq {A} (c : A) j k : skipn j (repeat c k) = repeat c (k - j).
Proof.
  revert j. induction k as [|k IH]; intros j; cbn; [apply skipn_nil|].
  destruct j; cbn; [reflexivity | apply IH].
Qed.
Lemma lastn_repeat {A} (c : A) n k : lastn n (repeat c k) = repeat c (Nat.min n k).
Proof. unfold lastn. rewrite repeat_length, skipn_repeat_eq. f_equal. lia. Qed.
Lemma Forall2_skipn {A B} (P : A -> B -> Prop) j xs ys : Forall2 P xs ys -> Forall2 P (skipn j xs) (skipn j ys).
Proof.
  intros H. revert j. induction H as [|x y xs ys Hxy H IH]; intros j; destruct j; cbn; auto.
Qed.
Lemma Forall2_len {A B} (P : A -> B -> Prop) xs ys : Forall2 P xs ys -> length xs = length ys.
Proof. induction 1; cbn; congruence. Qed.
Lemma Forall2_lastn {A B} (P : A -> B -> Prop) n xs ys : Forall2 P xs ys -> Forall2 P (lastn n xs) (lastn n ys).
Proof. intros H. unfold lastn. rewrite <- (Forall2_len _ _ _ H). apply Forall2_skipn. exact H. Qed.
Lemma skipn_combine {A B} j (xs : list A) (ys : list B) :
  skipn j (combine xs ys) = combine (skipn j xs) (skipn j ys).
Proof.
  revert xs ys. induction j as [|j IH]; intros xs ys; [reflexivity|].
  destruct xs as [|x xs]; [reflexivity|]. destruct ys as [|y ys]; cbn; [|apply IH].
  destruct (skipn j xs); reflexivity.
Qed.
Lemma lastn_lincomb a b n xs ys : length xs = length ys ->
  lastn n (lincomb a b xs ys) = lincomb a b (lastn n xs) (lastn n ys).
Proof.
  intros H. unfold lincomb. rewrite lastn_map. f_equal. unfold lastn.
  rewrite combine_length, <- H, Nat.min_id. apply skipn_combine.
Qed.
Lemma lincomb_length a b xs ys : length xs = length ys -> length (lincomb a b xs ys) = length xs.
Proof. intros H. unfold lincomb. rewrite map_length, combine_length. lia. Qed.

Definition opt_le (o1 o2 : option R) : Prop :=
  match o1, o2 with Some a, Some b => a <= b | None, None => True | _, _ => False end.
Definition opt_lin (a b : R) (o1 o2 : option R) : option R :=
  match o1, o2 with Some x, Some y => Some (a * x + b * y) | _, _ => None end.

Section WM.
Variable ready : nat -> bool.
Variable W : nat -> list R.
Variable n : nat.
Definition wm_out (xs : list R) : option R :=
  if ready (length xs) then Some (Rwmean (W (length xs)) (lastn n xs)) else None.
Hypothesis W_ok : forall len, ready len = true ->
  Forall (fun w => 0 < w) (W len) /\ W len <> [] /\ length (W len) = Nat.min n len.

Lemma wm_hull lo hi xs y : Forall (between lo hi) (lastn n xs) -> wm_out xs = Some y -> between lo hi y.
Proof.
  unfold wm_out. intros Hx H. destruct (ready (length xs)) eqn:E; [|discriminate].
  inversion H; subst y. destruct (W_ok _ E) as [Hp [Hne Hl]].
  apply wmean_bounds; try assumption. rewrite lastn_length. exact Hl.
Qed.

Lemma wm_const c k : wm_out (repeat c k) = if ready k then Some c else None.
Proof.
  unfold wm_out. rewrite repeat_length. destruct (ready k) eqn:E; [|reflexivity].
  destruct (W_ok _ E) as [Hp [Hne Hl]]. rewrite lastn_repeat, <- Hl, wmean_const by assumption. reflexivity.
Qed.

Lemma wm_mono xs ys : Forall2 Rle xs ys -> opt_le (wm_out xs) (wm_out ys).
Proof.
  intros H. unfold wm_out. rewrite <- (Forall2_len _ _ _ H).
  destruct (ready (length xs)) eqn:E; cbn; [|trivial].
  destruct (W_ok _ E) as [Hp [Hne Hl]]. apply wmean_mono; try assumption.
  - rewrite lastn_length. exact Hl.
  - apply Forall2_lastn. exact H.
Qed.

Lemma wm_affine a b xs : wm_out (map (affine a b) xs) = option_map (affine a b) (wm_out xs).
Proof.
  unfold wm_out. rewrite map_length. destruct (ready (length xs)) eqn:E; cbn; [|reflexivity].
  destruct (W_ok _ E) as [Hp [Hne Hl]]. rewrite lastn_map, wmean_affine; try assumption; [reflexivity|].
  rewrite lastn_length. exact Hl.
Qed.

Lemma wm_lincomb a b xs ys : length xs = length ys ->
  wm_out (lincomb a b xs ys) = opt_lin a b (wm_out xs) (wm_out ys).
Proof.
  intros H. unfold wm_out. rewrite lincomb_length by exact H. rewrite <- H.
  destruct (ready (length xs)) eqn:E; cbn; [|reflexivity].
  destruct (W_ok _ E) as [Hp [Hne Hl]]. rewrite lastn_lincomb by exact H.
  rewrite wmean_lincomb; try assumption; [reflexivity | |].
  - rewrite lastn_length. exact Hl.
  - rewrite !lastn_length. rewrite H. reflexivity.
Qed.
End WM.

(** Sma and Alma in this shape *)
Definition sma_ready (n len : nat) : bool := negb (Nat.ltb len n).
Definition sma_W (n len : nat) : list R := repeat 1 (Nat.min n len).
Definition alma_ready (len : nat) : bool := negb (Nat.eqb len 0).

Lemma Rsum_repeat c k : Rsum (repeat c k) = INR k * c.
Proof.
  induction k as [|k IH]; [cbn [repeat]; rewrite ssum_R_nil; cbn; lra|].
  cbn [repeat]. rewrite ssum_R_cons, IH, S_INR. lra.
Qed.
Lemma Rdot_ones xs : Rdot (repeat 1 (length xs)) xs = Rsum xs.
Proof.
  induction xs as [|x xs IH]; [reflexivity|]. cbn [length repeat]. rewrite Rdot_cons, ssum_R_cons, IH. lra.
Qed.
Lemma smean_wmean xs : @smean R ROps xs = Rwmean (repeat 1 (length xs)) xs.
Proof.
  unfold smean, wmean. rewrite Rdot_ones, Rsum_repeat. cbn [sofnat ROps]. rewrite Rmult_1_r. reflexivity.
Qed.

Lemma sma_W_ok n : (1 <= n)%nat -> forall len, sma_ready n len = true ->
  Forall (fun w => 0 < w) (sma_W n len) /\ sma_W n len <> [] /\ length (sma_W n len) = Nat.min n len.
Proof.
  intros Hn len Hr. unfold sma_ready in Hr. apply Bool.negb_true_iff in Hr. apply Nat.ltb_ge in Hr.
  unfold sma_W. repeat split.
  - apply Forall_forall. intros x Hx. apply repeat_spec in Hx. lra.
  - replace (Nat.min n len) with (S (n - 1)) by lia. discriminate.
  - apply repeat_length.
Qed.
Lemma spec_sma_wm n xs : @spec_sma R ROps n xs = wm_out (sma_ready n) (sma_W n) n xs.
Proof.
  unfold spec_sma, wm_out, sma_ready, sma_W. destruct (Nat.ltb (length xs) n); cbn; [reflexivity|].
  rewrite smean_wmean, lastn_length. reflexivity.
Qed.

Lemma alma_W_ok n sigma offset : (1 <= n)%nat -> sigma <> 0 -> forall len, alma_ready len = true ->
  Forall (fun w => 0 < w) (alma_win n sigma offset len) /\ alma_win n sigma offset len <> [] /\
  length (alma_win n sigma offset len) = Nat.min n len.
Proof.
  intros Hn Hs len Hr. unfold alma_ready in Hr. apply Bool.negb_true_iff in Hr. apply Nat.eqb_neq in Hr.
  repeat split.
  - apply alma_win_pos; assumption.
  - apply alma_win_nonempty; lia.
  - apply alma_win_length.
Qed.
Lemma spec_alma_wm n sigma offset xs :
  @spec_alma R ROps n sigma offset xs = wm_out alma_ready (alma_win n sigma offset) n xs.
Proof. unfold spec_alma, wm_out, alma_ready. destruct xs; reflexivity. Qed.

(* ------------------------------------------------------------------------------------------ *)
(** * Ema: the recursion directly *)

Notation Rfold w := (fold_left (@ema_rec R ROps w)).

Lemma ema_rec_R w e x : @ema_rec R ROps w e x = x * w + e * (1 - w).
Proof. reflexivity. Qed.

Lemma ema_fold_hull w lo hi r : 0 <= w <= 1 -> forall e, between lo hi e -> Forall (between lo hi) r ->
  between lo hi (Rfold w r e).
Proof.
  intros Hw. induction r as [|x r IH]; intros e He Hr; [exact He|].
  inversion Hr as [|? ? Hx Hr']; subst. cbn [fold_left]. apply IH; [|exact Hr'].
  rewrite ema_rec_R. unfold between in *. nra.
Qed.
Lemma ema_fold_const w c k : Rfold w (repeat c k) c = c.
Proof.
  induction k as [|k IH]; [reflexivity|]. cbn [repeat fold_left]. rewrite ema_rec_R.
  replace (c * w + c * (1 - w)) with c by lra. exact IH.
Qed.
Lemma ema_fold_mono w r r' : 0 <= w <= 1 -> Forall2 Rle r r' -> forall e e', e <= e' ->
  Rfold w r e <= Rfold w r' e'.
Proof.
  intros Hw H. induction H as [|x y r r' Hxy _ IH]; intros e e' He; [exact He|].
  cbn [fold_left]. apply IH. rewrite !ema_rec_R. nra.
Qed.
Lemma ema_fold_affine w a b r : forall e,
  Rfold w (map (affine a b) r) (affine a b e) = affine a b (Rfold w r e).
Proof.
  induction r as [|x r IH]; intros e; [reflexivity|]. cbn [map fold_left].
  rewrite <- IH. f_equal. rewrite !ema_rec_R. unfold affine. lra.
Qed.
Lemma ema_fold_lincomb w a b r r' : length r = length r' -> forall e e',
  Rfold w (lincomb a b r r') (a * e + b * e') = a * Rfold w r e + b * Rfold w r' e'.
Proof.
  revert r'. induction r as [|x r IH]; intros [|y r'] H e e'; try discriminate; [reflexivity|].
  unfold lincomb. cbn [combine map fold_left fst snd]. fold (lincomb a b r r').
  rewrite <- IH by (cbn in H; lia). f_equal. rewrite !ema_rec_R. lra.
Qed.

Lemma ema_w_range n alpha : 0 <= alpha <= 1 + INR n -> 0 <= Rema_w n alpha <= 1.
Proof.
  intros [H1 H2]. rewrite ema_weight_R. pose proof (pos_INR n) as Hp.
  assert (Hd : 0 < 1 + INR n) by lra. split.
  - apply Rmult_le_reg_r with (1 + INR n); [exact Hd|]. unfold Rdiv. rewrite Rmult_assoc, Rinv_l by lra. lra.
  - apply Rmult_le_reg_r with (1 + INR n); [exact Hd|]. unfold Rdiv. rewrite Rmult_assoc, Rinv_l by lra. lra.
Qed.
Lemma ema_default_range n : (1 <= n)%nat -> 0 <= @sofdec R ROps 2 0 <= 1 + INR n.
Proof. intros Hn. rewrite two_R. apply le_INR in Hn. cbn in Hn. lra. Qed.

Lemma spec_ema_hull n alpha lo hi xs y : 0 <= alpha <= 1 + INR n -> Forall (between lo hi) xs ->
  @spec_ema R ROps n alpha xs = Some y -> between lo hi y.
Proof.
  intros Ha Hx. unfold spec_ema. destruct (Nat.ltb (length xs) n); [discriminate|].
  destruct xs as [|x0 r]; cbn [ema_val]; [discriminate|]. intros H; inversion H; subst y.
  inversion Hx; subst. apply ema_fold_hull; try assumption. apply ema_w_range; exact Ha.
Qed.
Lemma spec_ema_const n alpha c k : (1 <= n)%nat ->
  @spec_ema R ROps n alpha (repeat c k) = if Nat.ltb k n then None else Some c.
Proof.
  intros Hn. unfold spec_ema. rewrite repeat_length. destruct (Nat.ltb_spec k n) as [H|H]; [reflexivity|].
  destruct k as [|k]; [lia|]. cbn [repeat ema_val]. rewrite ema_fold_const. reflexivity.
Qed.
Lemma spec_ema_mono n alpha xs ys : 0 <= alpha <= 1 + INR n -> Forall2 Rle xs ys ->
  opt_le (@spec_ema R ROps n alpha xs) (@spec_ema R ROps n alpha ys).
Proof.
  intros Ha H. unfold spec_ema. rewrite <- (Forall2_len _ _ _ H).
  destruct (Nat.ltb (length xs) n); [exact I|].
  destruct H as [|x y r r' Hxy Hr]; cbn [ema_val opt_le]; [exact I|].
  apply ema_fold_mono; try assumption. apply ema_w_range; exact Ha.
Qed.
Lemma spec_ema_affine n alpha a b xs :
  @spec_ema R ROps n alpha (map (affine a b) xs) = option_map (affine a b) (@spec_ema R ROps n alpha xs).
Proof.
  unfold spec_ema. rewrite map_length. destruct (Nat.ltb (length xs) n); [reflexivity|].
  destruct xs as [|x0 r]; cbn [map ema_val option_map]; [reflexivity|]. rewrite ema_fold_affine. reflexivity.
Qed.
Lemma spec_ema_lincomb n alpha a b xs ys : length xs = length ys ->
  @spec_ema R ROps n alpha (lincomb a b xs ys) =
  opt_lin a b (@spec_ema R ROps n alpha xs) (@spec_ema R ROps n alpha ys).
Proof.
  intros H. unfold spec_ema. rewrite lincomb_length by exact H. rewrite <- H.
  destruct (Nat.ltb (length xs) n); [reflexivity|].
  destruct xs as [|x0 r]; destruct ys as [|y0 r']; try discriminate; [reflexivity|].
  unfold lincomb. cbn [combine map ema_val opt_lin fst snd]. fold (lincomb a b r r').
  rewrite ema_fold_lincomb by (cbn in H; lia). reflexivity.
Qed.

(* ------------------------------------------------------------------------------------------ *)
(** * 4. C04 for the three views, at every step ([xs] is the history received so far) *)

Ltac ok_inj H := let E := fresh "E" in injection H as E; try (symmetry in E); try subst.

(** ** Sma *)
(** C04(a) Sma stays in the interval spanned by the last N values *)
Theorem sma_hull n lo hi xs y : (1 <= n)%nat -> Forall (between lo hi) (lastn n xs) ->
  cout (@sma_core R ROps n) xs = Ok (Some y) -> between lo hi y.
Proof.
  intros Hn Hx H. rewrite sma_closed_form in H by exact Hn. injection H as H.
  rewrite spec_sma_wm in H. exact (wm_hull _ _ _ (sma_W_ok n Hn) lo hi xs y Hx H).
Qed.
(** C04(b) Sma reproduces a constant input exactly (from its first answer on) *)
Theorem sma_const n c k : (1 <= n)%nat ->
  cout (@sma_core R ROps n) (repeat c k) = Ok (if Nat.ltb k n then None else Some c).
Proof.
  intros Hn. rewrite sma_closed_form by exact Hn. rewrite spec_sma_wm.
  rewrite (wm_const _ _ _ (sma_W_ok n Hn)). unfold sma_ready. destruct (Nat.ltb k n); reflexivity.
Qed.
(** C04(c) Sma is monotone *)
Theorem sma_mono n xs ys ox oy : (1 <= n)%nat -> Forall2 Rle xs ys ->
  cout (@sma_core R ROps n) xs = Ok ox -> cout (@sma_core R ROps n) ys = Ok oy -> opt_le ox oy.
Proof.
  intros Hn H Hx Hy. rewrite sma_closed_form in Hx, Hy by exact Hn.
  injection Hx as Hx. injection Hy as Hy. subst. rewrite !spec_sma_wm.
  exact (wm_mono _ _ _ (sma_W_ok n Hn) xs ys H).
Qed.
(** C04(d) Sma commutes with x -> a*x+b *)
Theorem sma_affine n a b xs o : (1 <= n)%nat -> cout (@sma_core R ROps n) xs = Ok o ->
  cout (@sma_core R ROps n) (map (affine a b) xs) = Ok (option_map (affine a b) o).
Proof.
  intros Hn Hx. rewrite sma_closed_form in * by exact Hn. injection Hx as Hx. subst.
  rewrite !spec_sma_wm. rewrite (wm_affine _ _ _ (sma_W_ok n Hn)). reflexivity.
Qed.
(** C10 Sma is linear *)
Theorem sma_linear n a b xs ys ox oy : (1 <= n)%nat -> length xs = length ys ->
  cout (@sma_core R ROps n) xs = Ok ox -> cout (@sma_core R ROps n) ys = Ok oy ->
  cout (@sma_core R ROps n) (lincomb a b xs ys) = Ok (opt_lin a b ox oy).
Proof.
  intros Hn Hl Hx Hy. rewrite sma_closed_form in * by exact Hn. injection Hx as Hx. injection Hy as Hy. subst.
  rewrite !spec_sma_wm. rewrite (wm_lincomb _ _ _ (sma_W_ok n Hn)) by exact Hl. reflexivity.
Qed.
(** C03 Sma has memory N: the answer depends on the last N values only *)
Theorem sma_finite_memory n p p' s : (1 <= n)%nat -> (n <= length s)%nat ->
  cout (@sma_core R ROps n) (p ++ s) = cout (@sma_core R ROps n) (p' ++ s).
Proof.
  intros Hn Hs. rewrite !sma_closed_form by exact Hn. unfold spec_sma. rewrite !app_length.
  destruct (Nat.ltb_spec (length p + length s) n); [lia|].
  destruct (Nat.ltb_spec (length p' + length s) n); [lia|].
  rewrite !lastn_app_suffix by exact Hs. reflexivity.
Qed.

(** ** Ema *)
(** C04(a) Ema stays in the interval spanned by all values so far, when 0 <= w = alpha/(N+1) <= 1 *)
Theorem ema_hull n alpha lo hi xs y : (1 <= n)%nat -> 0 <= alpha <= 1 + INR n -> Forall (between lo hi) xs ->
  cout (@ema_core_alpha R ROps n alpha) xs = Ok (Some y) -> between lo hi y.
Proof.
  intros Hn Ha Hx H. rewrite ema_closed_form in H by (left; exact Hn). injection H as H.
  exact (spec_ema_hull n alpha lo hi xs y Ha Hx H).
Qed.
Corollary ema_default_hull n lo hi xs y : (1 <= n)%nat -> Forall (between lo hi) xs ->
  cout (@ema_core R ROps n) xs = Ok (Some y) -> between lo hi y.
Proof. intros Hn. apply ema_hull; [exact Hn | apply ema_default_range; exact Hn]. Qed.
(** C04(b) Ema (any alpha) reproduces a constant input exactly *)
Theorem ema_const n alpha c k : (1 <= n)%nat ->
  cout (@ema_core_alpha R ROps n alpha) (repeat c k) = Ok (if Nat.ltb k n then None else Some c).
Proof. intros Hn. rewrite ema_closed_form by (left; exact Hn). rewrite spec_ema_const by exact Hn. reflexivity. Qed.
(** C04(c) Ema is monotone when 0 <= w <= 1 *)
Theorem ema_mono n alpha xs ys ox oy : (1 <= n)%nat -> 0 <= alpha <= 1 + INR n -> Forall2 Rle xs ys ->
  cout (@ema_core_alpha R ROps n alpha) xs = Ok ox -> cout (@ema_core_alpha R ROps n alpha) ys = Ok oy ->
  opt_le ox oy.
Proof.
  intros Hn Ha H Hx Hy. rewrite ema_closed_form in Hx, Hy by (left; exact Hn).
  injection Hx as Hx. injection Hy as Hy. subst. apply spec_ema_mono; assumption.
Qed.
Corollary ema_default_mono n xs ys ox oy : (1 <= n)%nat -> Forall2 Rle xs ys ->
  cout (@ema_core R ROps n) xs = Ok ox -> cout (@ema_core R ROps n) ys = Ok oy -> opt_le ox oy.
Proof. intros Hn. apply ema_mono; [exact Hn | apply ema_default_range; exact Hn]. Qed.
(** C04(d) Ema (any alpha) commutes with x -> a*x+b *)
Theorem ema_affine n alpha a b xs o : (1 <= n)%nat -> cout (@ema_core_alpha R ROps n alpha) xs = Ok o ->
  cout (@ema_core_alpha R ROps n alpha) (map (affine a b) xs) = Ok (option_map (affine a b) o).
Proof.
  intros Hn Hx. rewrite ema_closed_form in * by (left; exact Hn). injection Hx as Hx. subst.
  rewrite spec_ema_affine. reflexivity.
Qed.
(** C10 Ema (any alpha) is linear *)
Theorem ema_linear n alpha a b xs ys ox oy : (1 <= n)%nat -> length xs = length ys ->
  cout (@ema_core_alpha R ROps n alpha) xs = Ok ox -> cout (@ema_core_alpha R ROps n alpha) ys = Ok oy ->
  cout (@ema_core_alpha R ROps n alpha) (lincomb a b xs ys) = Ok (opt_lin a b ox oy).
Proof.
  intros Hn Hl Hx Hy. rewrite ema_closed_form in * by (left; exact Hn).
  injection Hx as Hx. injection Hy as Hy. subst. rewrite spec_ema_lincomb by exact Hl. reflexivity.
Qed.

(** ** Alma *)
(** C04(a) Alma stays in the interval spanned by the last N values *)
Theorem alma_hull n sigma offset lo hi xs y : (1 <= n)%nat -> sigma <> 0 ->
  Forall (between lo hi) (lastn n xs) ->
  cout (@alma_core_custom R ROps n sigma offset) xs = Ok (Some y) -> between lo hi y.
Proof.
  intros Hn Hs Hx H. rewrite alma_closed_form in H by assumption. injection H as H.
  rewrite spec_alma_wm in H. exact (wm_hull _ _ _ (alma_W_ok n sigma offset Hn Hs) lo hi xs y Hx H).
Qed.
(** C04(b) Alma reproduces a constant input exactly, from the first value *)
Theorem alma_const n sigma offset c k : (1 <= n)%nat -> sigma <> 0 ->
  cout (@alma_core_custom R ROps n sigma offset) (repeat c k) = Ok (if Nat.eqb k 0 then None else Some c).
Proof.
  intros Hn Hs. rewrite alma_closed_form by assumption. rewrite spec_alma_wm.
  rewrite (wm_const _ _ _ (alma_W_ok n sigma offset Hn Hs)). unfold alma_ready. destruct (Nat.eqb k 0); reflexivity.
Qed.
(** C04(c) Alma is monotone *)
Theorem alma_mono n sigma offset xs ys ox oy : (1 <= n)%nat -> sigma <> 0 -> Forall2 Rle xs ys ->
  cout (@alma_core_custom R ROps n sigma offset) xs = Ok ox ->
  cout (@alma_core_custom R ROps n sigma offset) ys = Ok oy -> opt_le ox oy.
Proof.
  intros Hn Hs H Hx Hy. rewrite alma_closed_form in Hx, Hy by assumption.
  injection Hx as Hx. injection Hy as Hy. subst. rewrite !spec_alma_wm.
  exact (wm_mono _ _ _ (alma_W_ok n sigma offset Hn Hs) xs ys H).
Qed.
(** C04(d) Alma commutes with x -> a*x+b *)
Theorem alma_affine n sigma offset a b xs o : (1 <= n)%nat -> sigma <> 0 ->
  cout (@alma_core_custom R ROps n sigma offset) xs = Ok o ->
  cout (@alma_core_custom R ROps n sigma offset) (map (affine a b) xs) = Ok (option_map (affine a b) o).
Proof.
  intros Hn Hs Hx. rewrite alma_closed_form in * by assumption. injection Hx as Hx. subst.
  rewrite !spec_alma_wm. rewrite (wm_affine _ _ _ (alma_W_ok n sigma offset Hn Hs)). reflexivity.
Qed.
(** C10 Alma is linear *)
Theorem alma_linear n sigma offset a b xs ys ox oy : (1 <= n)%nat -> sigma <> 0 -> length xs = length ys ->
  cout (@alma_core_custom R ROps n sigma offset) xs = Ok ox ->
  cout (@alma_core_custom R ROps n sigma offset) ys = Ok oy ->
  cout (@alma_core_custom R ROps n sigma offset) (lincomb a b xs ys) = Ok (opt_lin a b ox oy).
Proof.
  intros Hn Hs Hl Hx Hy. rewrite alma_closed_form in * by assumption.
  injection Hx as Hx. injection Hy as Hy. subst.
  rewrite !spec_alma_wm. rewrite (wm_lincomb _ _ _ (alma_W_ok n sigma offset Hn Hs)) by exact Hl. reflexivity.
Qed.

(* ------------------------------------------------------------------------------------------ *)
(** * 5. The Alma kernel, explicitly *)

Lemma skipn_seq_eq j a k : skipn j (seq a k) = seq (a + j) (k - j).
Proof.
  revert a k. induction j as [|j IH]; intros a k.
  - rewrite Nat.add_0_r, Nat.sub_0_r. reflexivity.
  - destruct k as [|k]; [reflexivity|]. cbn [seq skipn]. rewrite IH. f_equal; lia.
Qed.
Lemma lastn_seq n len : lastn n (seq 0 len) = seq (len - Nat.min n len) (Nat.min n len).
Proof. unfold lastn. rewrite seq_length, skipn_seq_eq. f_equal; lia. Qed.

Lemma alma_win_explicit n sigma offset len :
  alma_win n sigma offset len = map (Ralma_w n sigma offset) (seq (len - Nat.min n len) (Nat.min n len)).
Proof. unfold alma_win, alma_all_weights. rewrite lastn_map, lastn_seq. reflexivity. Qed.

(** C04 (kernel): the answer is (sum_i g_i x_i)/(sum_i g_i) over the last N values, where the weight of the value
    with arrival index j is the Gaussian g(k) = exp(-(k-m)^2/(2 s^2)), m = offset*(N+1), s = N/sigma, taken at
    k = min(j, N-1) (its queue position on arrival); all weights are > 0. *)
Theorem alma_kernel n sigma offset vs : (1 <= n)%nat -> sigma <> 0 -> vs <> [] ->
  let g := fun k : nat => exp (- ((INR k - offset * (INR n + 1)) * (INR k - offset * (INR n + 1)))
                              / (2 * (INR n / sigma) * (INR n / sigma))) in
  let len := length vs in
  let ws := map (fun j => g (Nat.min j (n - 1))) (seq (len - Nat.min n len) (Nat.min n len)) in
  cout (@alma_core_custom R ROps n sigma offset) vs = Ok (Some (Rdot ws (lastn n vs) / Rsum ws)) /\
  Forall (fun w => 0 < w) ws /\ length ws = length (lastn n vs).
Proof.
  intros Hn Hs Hne g len ws.
  assert (Hws : ws = alma_win n sigma offset len).
  { rewrite alma_win_explicit. unfold ws. apply map_ext. intros j.
    rewrite alma_weight_R by assumption. reflexivity. }
  assert (Hpos : Forall (fun w => 0 < w) ws) by (rewrite Hws; apply alma_win_pos; assumption).
  assert (Hlen : (1 <= len)%nat) by (unfold len; destruct vs; [congruence | cbn; lia]).
  repeat split.
  - rewrite alma_closed_form by assumption. unfold spec_alma. destruct vs as [|v0 vs']; [congruence|].
    fold (alma_win n sigma offset (length (v0 :: vs'))). fold len. rewrite <- Hws.
    rewrite Rwmean_div; [reflexivity|].
    pose proof (Rsum_pos ws Hpos) as Hp. rewrite Hws in Hp at 1.
    specialize (Hp (alma_win_nonempty n sigma offset len Hn Hlen)). lra.
  - exact Hpos.
  - rewrite Hws, alma_win_length, lastn_length. reflexivity.
Qed.

(* ------------------------------------------------------------------------------------------ *)
(** * 7. C03 finite memory of Alma *)

Lemma map_seq_shift {A} (f : nat -> A) a k : map f (seq a k) = map (fun i => f (a + i)%nat) (seq 0 k).
Proof.
  revert a. induction k as [|k IH]; intros a; [reflexivity|].
  cbn [seq map]. rewrite Nat.add_0_r. f_equal. rewrite (IH (S a)). rewrite <- seq_shift, map_map.
  apply map_ext. intros i. f_equal. lia.
Qed.

(** the window's weights depend on the number of values received only through min(first arrival index, N-1) *)
Lemma alma_win_start n sigma offset len len' : (n <= len)%nat -> (n <= len')%nat ->
  Nat.min (len - n) (n - 1) = Nat.min (len' - n) (n - 1) ->
  alma_win n sigma offset len = alma_win n sigma offset len'.
Proof.
  intros H1 H2 H. rewrite !alma_win_explicit. rewrite !Nat.min_l by assumption.
  rewrite (map_seq_shift _ (len - n)), (map_seq_shift _ (len' - n)). apply map_ext. intros i.
  unfold alma_weight. f_equal. lia.
Qed.

(** C03 (strongest form): two histories with a common suffix of at least N values give the same answer as soon
    as the first value of the window has the same clipped arrival index min(j, N-1) in both. *)
Theorem alma_finite_memory_gen n sigma offset p p' s : (1 <= n)%nat -> sigma <> 0 -> (n <= length s)%nat ->
  Nat.min (length p + length s - n) (n - 1) = Nat.min (length p' + length s - n) (n - 1) ->
  cout (@alma_core_custom R ROps n sigma offset) (p ++ s) = cout (@alma_core_custom R ROps n sigma offset) (p' ++ s).
Proof.
  intros Hn Hsig Hs Hst. rewrite !alma_closed_form by assumption. rewrite !spec_alma_wm. unfold wm_out.
  rewrite !app_length. unfold alma_ready.
  destruct (Nat.eqb_spec (length p + length s) 0); [lia|].
  destruct (Nat.eqb_spec (length p' + length s) 0); [lia|]. cbn [negb].
  rewrite !lastn_app_suffix by exact Hs.
  rewrite (alma_win_start n sigma offset (length p + length s) (length p' + length s)) by lia. reflexivity.
Qed.
(** C03: Alma has memory 2N-1 (hence also 2N): after a common suffix of 2N-1 values the prefix is forgotten *)
Theorem alma_finite_memory n sigma offset p p' s : (1 <= n)%nat -> sigma <> 0 -> (2 * n - 1 <= length s)%nat ->
  cout (@alma_core_custom R ROps n sigma offset) (p ++ s) = cout (@alma_core_custom R ROps n sigma offset) (p' ++ s).
Proof. intros Hn Hsig Hs. apply alma_finite_memory_gen; try assumption; lia. Qed.
(** ... and N values suffice when the two prefixes have the same length *)
Corollary alma_finite_memory_same_length n sigma offset p p' s : (1 <= n)%nat -> sigma <> 0 ->
  (n <= length s)%nat -> length p = length p' ->
  cout (@alma_core_custom R ROps n sigma offset) (p ++ s) = cout (@alma_core_custom R ROps n sigma offset) (p' ++ s).
Proof. intros Hn Hsig Hs Hp. apply alma_finite_memory_gen; try assumption. rewrite Hp. reflexivity. Qed.

Lemma map_const_repeat {A B} (c : B) (l : list A) : map (fun _ => c) l = repeat c (length l).
Proof. induction l as [|x l IH]; cbn; [reflexivity | rewrite IH; reflexivity]. Qed.
Lemma Rdot_repeat c xs : Rdot (repeat c (length xs)) xs = c * Rsum xs.
Proof.
  induction xs as [|x xs IH]; [rewrite ssum_R_nil; cbn; lra|].
  cbn [length repeat]. rewrite Rdot_cons, ssum_R_cons, IH. lra.
Qed.

(** FINDING.  Because a weight is fixed on arrival and never updated while its value moves through the queue,
    once 2N-1 values have been received every weight in the window equals g(N-1), and Alma coincides with Sma:
    in steady state the Gaussian kernel (offset, sigma) has no effect whatsoever. *)
Theorem alma_steady_is_sma n sigma offset xs : (1 <= n)%nat -> sigma <> 0 -> (2 * n - 1 <= length xs)%nat ->
  cout (@alma_core_custom R ROps n sigma offset) xs = cout (@sma_core R ROps n) xs.
Proof.
  intros Hn Hsig Hl. rewrite alma_closed_form by assumption. rewrite sma_closed_form by exact Hn.
  rewrite spec_alma_wm. unfold wm_out, spec_sma, alma_ready.
  destruct (Nat.eqb_spec (length xs) 0); [lia|]. destruct (Nat.ltb_spec (length xs) n); [lia|]. cbn [negb].
  do 2 f_equal. rewrite alma_win_explicit. rewrite Nat.min_l by lia.
  set (c := Ralma_w n sigma offset (n - 1)).
  assert (Hc : 0 < c) by (unfold c; rewrite alma_weight_R by assumption; apply gaussR_pos).
  rewrite (map_ext_in _ (fun _ => c)).
  2:{ intros j Hj. apply in_seq in Hj. unfold c, alma_weight. f_equal. lia. }
  rewrite map_const_repeat, seq_length.
  assert (Hwl : length (lastn n xs) = n) by (rewrite lastn_length; lia).
  unfold smean. rewrite Hwl. cbn [sofnat ROps]. rewrite sdivd_R by (apply INR_pos_neq; lia).
  replace (repeat c n) with (repeat c (length (lastn n xs))) by (rewrite Hwl; reflexivity).
  rewrite Rwmean_div.
  - rewrite Rdot_repeat, Rsum_repeat, Hwl. field. split; [apply INR_pos_neq; lia | lra].
  - rewrite Rsum_repeat, Hwl. apply Rmult_integral_contrapositive. split; [apply INR_pos_neq; lia | lra].
Qed.

(** 2N-1 is optimal: with N = 2 (default parameters) a common suffix of 2N-2 = 2 values does not determine the answer *)
Theorem alma_memory_2n_minus_2_refuted :
  exists p p' s : list R, length s = (2 * 2 - 2)%nat /\
    cout (@alma_core R ROps 2) (p ++ s) <> cout (@alma_core R ROps 2) (p' ++ s).
Proof.
  exists [], [0], [0; 1]. split; [reflexivity|].
  unfold alma_core. destruct alma_default_params as [E1 E2]. rewrite E1, E2.
  assert (H6 : (6:R) <> 0) by lra.
  rewrite (alma_steady_is_sma 2 6 (85/100) ([0] ++ [0; 1]) ltac:(lia) H6 ltac:(cbn; lia)).
  rewrite sma_closed_form by lia.
  destruct (alma_kernel 2 6 (85/100) ([] ++ [0; 1]) ltac:(lia) H6 ltac:(discriminate)) as [Hk _].
  rewrite Hk. clear Hk. cbn [app length Nat.min Nat.sub seq map].
  unfold spec_sma, smean, lastn. cbn [length Nat.ltb Nat.leb Nat.sub skipn app].
  rewrite !Rdot_cons, Rdot_nil_l, !ssum_R_cons, ssum_R_nil. cbn [sofnat ROps].
  rewrite sdivd_R by (cbn; lra). cbn [INR].
  set (w0 := exp _). set (w1 := exp _).
  assert (H0 : 0 < w0) by apply exp_pos. assert (H1 : 0 < w1) by apply exp_pos.
  assert (Hlt : w0 < w1) by (apply exp_increasing; lra).
  intros H. injection H as H.
  assert (Hd : w0 + (w1 + 0) <> 0) by lra.
  apply (f_equal (fun t => t * (w0 + (w1 + 0)))) in H. unfold Rdiv in H.
  rewrite Rmult_assoc, Rinv_l in H by exact Hd. lra.
Qed.

(* ------------------------------------------------------------------------------------------ *)
(** * 8. C12 scaling (the case b = 0 of C04(d)) *)

Lemma map_scale a xs : map (Rmult a) xs = map (affine a 0) xs.
Proof. apply map_ext. intros x. unfold affine. lra. Qed.
Lemma option_map_scale a o : option_map (affine a 0) o = option_map (Rmult a) o.
Proof. destruct o as [y|]; cbn; [|reflexivity]. unfold affine. f_equal. lra. Qed.

Theorem sma_scale n a xs o : (1 <= n)%nat -> cout (@sma_core R ROps n) xs = Ok o ->
  cout (@sma_core R ROps n) (map (Rmult a) xs) = Ok (option_map (Rmult a) o).
Proof. intros Hn H. rewrite map_scale, <- option_map_scale. apply sma_affine; assumption. Qed.
Theorem ema_scale n alpha a xs o : (1 <= n)%nat -> cout (@ema_core_alpha R ROps n alpha) xs = Ok o ->
  cout (@ema_core_alpha R ROps n alpha) (map (Rmult a) xs) = Ok (option_map (Rmult a) o).
Proof. intros Hn H. rewrite map_scale, <- option_map_scale. apply ema_affine; assumption. Qed.
Theorem alma_scale n sigma offset a xs o : (1 <= n)%nat -> sigma <> 0 ->
  cout (@alma_core_custom R ROps n sigma offset) xs = Ok o ->
  cout (@alma_core_custom R ROps n sigma offset) (map (Rmult a) xs) = Ok (option_map (Rmult a) o).
Proof. intros Hn Hs H. rewrite map_scale, <- option_map_scale. apply alma_affine; assumption. Qed.

(* ------------------------------------------------------------------------------------------ *)
(** * Remarks, examples *)

(** "at every step": [cout c (firstn (S t) xs)] is the answer of the stand-alone view at step [t]
    ([standalone_cout]; [chain_cout] for a chained view), so every theorem above about [cout c h] for an arbitrary
    history [h] is a statement about every step of every run.  E.g. for the hull of Sma: *)
Corollary sma_hull_every_step n lo hi xs outs t y : (1 <= n)%nat ->
  mrun (standalone (@sma_core R ROps n)) xs = Ok outs -> nth_error outs t = Some (Some y) ->
  Forall (between lo hi) (lastn n (firstn (S t) xs)) -> between lo hi y.
Proof.
  intros Hn Hr Ht Hx. pose proof (@standalone_cout R (@sma_core R ROps n) xs outs Hr t (Some y) Ht) as Hc.
  exact (sma_hull n lo hi _ y Hn Hx Hc).
Qed.

(** the range condition 0 <= alpha <= N+1 of [ema_hull]/[ema_mono] cannot be dropped:
    with N = 1, alpha = 4 (w = 2) the history 0,1 gives 2, outside [0,1] *)
Theorem ema_hull_large_alpha_refuted :
  exists n alpha lo hi xs y, (1 <= n)%nat /\ Forall (between lo hi) xs /\
    cout (@ema_core_alpha R ROps n alpha) xs = Ok (Some y) /\ ~ between lo hi y.
Proof.
  exists 1%nat, 4, 0, 1, [0; 1], 2. split; [lia|]. split.
  - repeat constructor; unfold between; lra.
  - split.
    + rewrite ema_closed_form by (left; lia). unfold spec_ema. cbn [length Nat.ltb Nat.leb ema_val fold_left].
      rewrite ema_rec_R, ema_weight_R. cbn [INR]. do 2 f_equal. field.
    + unfold between. lra.
Qed.

(** hypotheses of the main theorems are satisfiable / the theorems at work *)
Example ex_ema_default_w1 : cout (@ema_core R ROps 1) [0; -1; 0; 2] = Ok (Some 2).
Proof.
  rewrite ema_default_closed_form by (left; lia). unfold spec_ema.
  cbn [length Nat.ltb Nat.leb ema_val fold_left]. rewrite !ema_rec_R, ema_weight_R. cbn [INR]. do 2 f_equal. field.
Qed.
Example ex_ema_zero_and_sign_change : cout (@ema_core R ROps 3) [1; 0; -1] = Ok (Some (-1/4)).
Proof.
  rewrite ema_default_closed_form by (left; lia). unfold spec_ema.
  cbn [length Nat.ltb Nat.leb ema_val fold_left]. rewrite !ema_rec_R, ema_weight_R. cbn [INR]. do 2 f_equal. field.
Qed.
Example ex_alma_hull : forall y, cout (@alma_core R ROps 3) [5; 0; 1; 1/2] = Ok (Some y) -> between 0 1 y.
Proof.
  intros y. unfold alma_core. destruct alma_default_params as [E1 E2]. rewrite E1, E2.
  apply alma_hull; [lia | lra |]. unfold lastn. cbn [length Nat.sub skipn].
  repeat constructor; unfold between; lra.
Qed.
Example ex_alma_const : cout (@alma_core R ROps 3) (repeat 7 5) = Ok (Some 7).
Proof.
  unfold alma_core. destruct alma_default_params as [E1 E2]. rewrite E1, E2.
  rewrite alma_const by (try lia; lra). reflexivity.
Qed.
Example ex_alma_steady : cout (@alma_core R ROps 2) [9; 1; 2; 4] = Ok (Some 3).
Proof.
  unfold alma_core. destruct alma_default_params as [E1 E2]. rewrite E1, E2.
  rewrite alma_steady_is_sma by (try (cbn; lia); lra). rewrite sma_closed_form by lia.
  unfold spec_sma, smean, lastn. cbn [length Nat.ltb Nat.leb Nat.sub skipn].
  rewrite !ssum_R_cons, ssum_R_nil. cbn [sofnat ROps]. rewrite sdivd_R by (cbn; lra). cbn [INR]. do 2 f_equal. field.
Qed.
Example ex_mono_hyps : Forall2 Rle [0; 1; -2] [0; 2; -2] /\ 0 <= 2 <= 1 + INR 1.
Proof. split; [repeat constructor; lra | cbn; lra]. Qed.
Example ex_memory_hyps : (1 <= 3)%nat /\ (6:R) <> 0 /\ (2 * 3 - 1 <= length [1; 2; 3; 4; 5])%nat /\
  Nat.min (length [1] + length [1; 2; 3] - 3) (3 - 1) = Nat.min (length [2] + length [1; 2; 3] - 3) (3 - 1).
Proof. repeat split; try (cbn; lia). lra. Qed.

Print Assumptions wmean_bounds.
Print Assumptions wmean_const.
Print Assumptions wmean_mono.
Print Assumptions wmean_affine.
Print Assumptions wmean_lincomb.
Print Assumptions ema_closed_form.
Print Assumptions ema_default_closed_form.
Print Assumptions alma_closed_form.
Print Assumptions alma_default_closed_form.
Print Assumptions alma_kernel.
Print Assumptions sma_hull.
Print Assumptions sma_const.
Print Assumptions sma_mono.
Print Assumptions sma_affine.
Print Assumptions sma_linear.
Print Assumptions sma_finite_memory.
Print Assumptions sma_scale.
Print Assumptions ema_hull.
Print Assumptions ema_default_hull.
Print Assumptions ema_const.
Print Assumptions ema_mono.
Print Assumptions ema_default_mono.
Print Assumptions ema_affine.
Print Assumptions ema_linear.
Print Assumptions ema_scale.
Print Assumptions ema_hull_large_alpha_refuted.
Print Assumptions alma_hull.
Print Assumptions alma_const.
Print Assumptions alma_mono.
Print Assumptions alma_affine.
Print Assumptions alma_linear.
Print Assumptions alma_scale.
Print Assumptions alma_finite_memory_gen.
Print Assumptions alma_finite_memory.
Print Assumptions alma_steady_is_sma.
Print Assumptions alma_memory_2n_minus_2_refuted.

(** the specifications are executable: at [Q] they agree with the model on every prefix of a test history *)
From Coq Require Import QArith.
Definition exQ_h : list Q := [1; -2; 0; 4#3; 5; -6; 7; 0; 0; 3]%Q.
Definition exQ_prefixes (l : list Q) : list (list Q) := map (fun k => firstn k l) (seq 0 (S (length l))).
Example ex_spec_alma_Q :
  map (fun p => cout (@alma_core Q QOps 3) p) (exQ_prefixes exQ_h) =
  map (fun p => Ok (@spec_alma Q QOps 3 (sofdec 6 0) (sofdec 85 2) p)) (exQ_prefixes exQ_h).
Proof. vm_compute. reflexivity. Qed.
Example ex_spec_ema_Q :
  map (fun p => cout (@ema_core Q QOps 3) p) (exQ_prefixes exQ_h) =
  map (fun p => Ok (@spec_ema Q QOps 3 (sofdec 2 0) p)) (exQ_prefixes exQ_h).
Proof. vm_compute. reflexivity. Qed.
