(** C07 (ranges) leftovers: Tanh in (-1, 1); GTE >= clip, LTE <= clip over any inner view;
    Min <= Sma <= Max and Min <= Alma <= Max on the same window. *)
From Coq Require Import List Arith Lia Reals Lra ZArith.
From SF Require Import Res Scalar View Models Spec Core SpecAvg SpecWinA.
From SF.Proofs Require Import Chain Window RBase EhlBase Pure SmaP AvgP WinAP.
Import ListNotations.
Open Scope R_scope.

(** * generic: a successful run of a wrapper implies a successful run of the inner view *)
Lemma mrun_wrap_inner_ok {T} (c : core T) (a : view T) xs outs :
  mrun (wrap c a) xs = Ok outs -> exists la, mrun a xs = Ok la.
Proof.
  unfold mrun. cbn [vnew wrap]. destruct (vnew a) as [sa|e]; cbn [bind]; [|discriminate].
  destruct (cnew c) as [sc|e]; cbn [bind]; [|discriminate]. intros H.
  destruct (mrun_from a sa xs) as [la|e] eqn:E; [eauto|].
  destruct (mrun_from_wrap_err c a sa sc xs E) as [e' He']. rewrite He' in H. discriminate.
Qed.

Lemma mrun_mapview_inner_ok {T} (f : T -> res T) (a : view T) xs outs :
  mrun (mapview f a) xs = Ok outs -> exists la, mrun a xs = Ok la.
Proof.
  unfold mrun. cbn [vnew mapview]. destruct (vnew a) as [sa|e]; cbn [bind]; [|discriminate].
  revert sa outs. induction xs as [|x xs IH]; intros sa outs H; cbn [mrun_from] in *; [eauto|].
  cbn [vupd vlast mapview] in H.
  destruct (vupd a sa x) as [sa'|e]; cbn [bind] in *; [|discriminate].
  destruct (vlast a sa') as [o|e]; cbn [bind] in *; [|discriminate].
  destruct (match o with None => Ok None | Some v => do r <- f v; Ok (Some r) end) as [o'|e];
    cbn [bind] in H; [|discriminate].
  destruct (mrun_from (mapview f a) sa' xs) as [r|e] eqn:E; cbn [bind] in H; [|discriminate].
  destruct (IH sa' r E) as [la Hla]. rewrite Hla. cbn [bind]. eauto.
Qed.

Lemma mrun_length {T} (v : view T) xs outs : mrun v xs = Ok outs -> length outs = length xs.
Proof.
  unfold mrun. destruct (vnew v) as [s|e]; cbn [bind]; [|discriminate]. intros H.
  destruct (mrun_from_steps _ v s xs outs H) as [s' [_ Hl]]. exact Hl.
Qed.

(** every value reported by [mapf f la] is [f] of a value of [la] at the same step *)
Lemma mapf_values {T} (f : T -> res T) la outs : mapf f la = Ok outs ->
  forall t y, nth_error outs t = Some (Some y) ->
  exists v, nth_error la t = Some (Some v) /\ f v = Ok y.
Proof.
  revert outs. induction la as [|o la IH]; intros outs H t y Ht; cbn [mapf] in H.
  - inversion H; subst. destruct t; discriminate.
  - destruct o as [v|]; cbn [bind] in H.
    + destruct (f v) as [r|e] eqn:Ef; cbn [bind] in H; [|discriminate].
      destruct (mapf f la) as [outs'|e]; cbn [bind] in H; [|discriminate].
      inversion H; subst. destruct t; cbn [nth_error] in *.
      * inversion Ht; subst. eauto.
      * apply (IH outs' eq_refl); exact Ht.
    + destruct (mapf f la) as [outs'|e]; cbn [bind] in H; [|discriminate].
      inversion H; subst. destruct t; cbn [nth_error] in *; [discriminate|].
      apply (IH outs' eq_refl); exact Ht.
Qed.

(** * (1) Tanh *)
Lemma tanh_lt1 x : -1 < tanh x < 1.
Proof.
  unfold tanh, sinh, cosh. pose proof (exp_pos x) as Ha. pose proof (exp_pos (- x)) as Hb.
  set (a := exp x) in *. set (b := exp (- x)) in *. clearbody a b.
  replace ((a - b) / 2 / ((a + b) / 2)) with ((a - b) / (a + b)) by (field; lra).
  split.
  - apply (Rmult_lt_reg_r (a + b)); [lra|]. unfold Rdiv. rewrite Rmult_assoc, Rinv_l by lra. lra.
  - apply (Rmult_lt_reg_r (a + b)); [lra|]. unfold Rdiv. rewrite Rmult_assoc, Rinv_l by lra. lra.
Qed.

Lemma tanh_abs_lt1 x : Rabs (tanh x) < 1.
Proof. apply Rabs_def1; apply tanh_lt1. Qed.

(** C07 Tanh: every value reported by [vtanh a] is [tanh] of the inner view's current value and lies
    strictly inside [-1, 1], for every inner view [a] *)
Theorem tanh_range (a : view R) xs outs : mrun (@vtanh R ROps a) xs = Ok outs ->
  forall t y, nth_error outs t = Some (Some y) -> -1 < y < 1.
Proof.
  intros H t y Ht. destruct (mrun_mapview_inner_ok _ a xs outs H) as [la Hla].
  rewrite (tanh_pointwise a xs Hla) in H.
  destruct (mapf_values _ la outs H t y Ht) as [v [_ Hv]]. cbn [stanh ROps] in Hv.
  inversion Hv; subst. apply tanh_lt1.
Qed.

Corollary tanh_range_closed (a : view R) xs outs : mrun (@vtanh R ROps a) xs = Ok outs ->
  forall t y, nth_error outs t = Some (Some y) -> -1 <= y <= 1.
Proof. intros H t y Ht. pose proof (tanh_range a xs outs H t y Ht). lra. Qed.

(** the values are what the spec says: [tanh] of the inner value at the same step *)
Theorem tanh_values (a : view R) xs la outs : mrun a xs = Ok la -> mrun (@vtanh R ROps a) xs = Ok outs ->
  forall t y, nth_error outs t = Some (Some y) -> exists v, nth_error la t = Some (Some v) /\ y = tanh v.
Proof.
  intros Hla H t y Ht. rewrite (tanh_pointwise a xs Hla) in H.
  destruct (mapf_values _ la outs H t y Ht) as [v [Hn Hv]]. cbn [stanh ROps] in Hv. inversion Hv; subst. eauto.
Qed.

(** * (2) GTE / LTE *)
Lemma hold_values {T} (g : T -> T) (P : T -> Prop) : (forall v, P (g v)) ->
  forall la prev, (forall y, prev = Some y -> P y) ->
  forall t y, nth_error (hold g prev la) t = Some (Some y) -> P y.
Proof.
  intros Hg la. induction la as [|o la IH]; intros prev Hp t y Ht; cbn [hold] in Ht.
  - destruct t; discriminate.
  - destruct o as [v|]; destruct t; cbn [nth_error] in Ht.
    + inversion Ht; subst. apply Hg.
    + apply (IH (Some (g v))) with (t := t); [|exact Ht]. intros y' Hy'. inversion Hy'; subst. apply Hg.
    + apply Hp. inversion Ht. reflexivity.
    + apply (IH prev Hp t y Ht).
Qed.

(** C07 GTE: every value reported by [GTE(clip)] over any inner view is >= clip *)
Theorem gte_ge_clip clip (a : view R) xs outs : mrun (wrap (@gte_core R ROps clip) a) xs = Ok outs ->
  forall t y, nth_error outs t = Some (Some y) -> clip <= y.
Proof.
  intros H t y Ht. destruct (mrun_wrap_inner_ok _ a xs outs H) as [la Hla].
  rewrite (gte_pointwise clip a xs Hla) in H. inversion H; subst outs.
  apply (hold_values (fun v => if sgeb v clip then v else clip) (fun y => clip <= y)) with (la := la) (prev := None) (t := t).
  - intros v. unfold sgeb. cbn [sleb ROps]. destruct (Rleb clip v) eqn:E; [apply Rleb_true in E; exact E | lra].
  - intros y' Hy'. discriminate.
  - exact Ht.
Qed.

(** C07 LTE: every value reported by [LTE(clip)] over any inner view is <= clip *)
Theorem lte_le_clip clip (a : view R) xs outs : mrun (wrap (@lte_core R ROps clip) a) xs = Ok outs ->
  forall t y, nth_error outs t = Some (Some y) -> y <= clip.
Proof.
  intros H t y Ht. destruct (mrun_wrap_inner_ok _ a xs outs H) as [la Hla].
  rewrite (lte_pointwise clip a xs Hla) in H. inversion H; subst outs.
  apply (hold_values (fun v => if sleb v clip then v else clip) (fun y => y <= clip)) with (la := la) (prev := None) (t := t).
  - intros v. cbn [sleb ROps]. destruct (Rleb v clip) eqn:E; [apply Rleb_true in E; exact E | lra].
  - intros y' Hy'. discriminate.
  - exact Ht.
Qed.

(** * (3) Min <= Sma <= Max and Min <= Alma <= Max on the same window *)
Lemma window_hull n vs lo hi : (1 <= n)%nat ->
  cout (@min_core R ROps n) vs = Ok (Some lo) -> cout (@max_core R ROps n) vs = Ok (Some hi) ->
  Forall (between lo hi) (lastn n vs).
Proof.
  intros Hn Hlo Hhi. destruct (min_is_minimum n vs lo Hn Hlo) as [_ Blo].
  destruct (max_is_maximum n vs hi Hn Hhi) as [_ Bhi].
  apply Forall_forall. intros x Hx. split; [apply Blo | apply Bhi]; exact Hx.
Qed.

(** C07: whenever Sma(n) answers, Min(n) and Max(n) on the same history answer too and bracket it *)
Theorem min_le_sma_le_max n vs y : (1 <= n)%nat -> cout (@sma_core R ROps n) vs = Ok (Some y) ->
  exists lo hi, cout (@min_core R ROps n) vs = Ok (Some lo) /\ cout (@max_core R ROps n) vs = Ok (Some hi) /\
    lo <= y <= hi.
Proof.
  intros Hn Hy.
  assert (Hne : vs <> []).
  { intros ->. rewrite sma_closed_form in Hy by exact Hn. unfold spec_sma in Hy. cbn [length] in Hy.
    destruct (Nat.ltb_spec 0 n); [discriminate | lia]. }
  destruct (min_max_range n vs Hn Hne) as (lo & hi & Hlo & Hhi & _).
  exists lo, hi. split; [exact Hlo|]. split; [exact Hhi|].
  exact (sma_hull n lo hi vs y Hn (window_hull n vs lo hi Hn Hlo Hhi) Hy).
Qed.

(** C07: the same for Alma with any sigma <> 0 (it answers on every non-empty history) *)
Theorem min_le_alma_custom_le_max n sigma offset vs : (1 <= n)%nat -> sigma <> 0 -> vs <> [] ->
  exists lo y hi, cout (@min_core R ROps n) vs = Ok (Some lo) /\ cout (@max_core R ROps n) vs = Ok (Some hi) /\
    cout (@alma_core_custom R ROps n sigma offset) vs = Ok (Some y) /\ lo <= y <= hi.
Proof.
  intros Hn Hs Hne.
  destruct (min_max_range n vs Hn Hne) as (lo & hi & Hlo & Hhi & _).
  pose proof (alma_closed_form n sigma offset vs Hn Hs) as Hc.
  assert (Hy : exists y, @spec_alma R ROps n sigma offset vs = Some y).
  { unfold spec_alma. destruct vs; [congruence | eauto]. }
  destruct Hy as [y Hy]. rewrite Hy in Hc.
  exists lo, y, hi. repeat split; try assumption;
    apply (alma_hull n sigma offset lo hi vs y Hn Hs (window_hull n vs lo hi Hn Hlo Hhi) Hc).
Qed.

(** the default Alma (sigma = 6, offset = 0.85) *)
Theorem min_le_alma_le_max n vs : (1 <= n)%nat -> vs <> [] ->
  exists lo y hi, cout (@min_core R ROps n) vs = Ok (Some lo) /\ cout (@max_core R ROps n) vs = Ok (Some hi) /\
    cout (@alma_core R ROps n) vs = Ok (Some y) /\ lo <= y <= hi.
Proof.
  intros Hn Hne. unfold alma_core. destruct alma_default_params as [E1 E2]. rewrite E1, E2.
  apply min_le_alma_custom_le_max; [exact Hn | lra | exact Hne].
Qed.

(** the same along a run over any inner view [a]: at every step where Sma reports, Min and Max report
    and bracket it *)
Theorem min_le_sma_le_max_run n (a : view R) xs omin osma omax : (1 <= n)%nat ->
  mrun (wrap (@min_core R ROps n) a) xs = Ok omin ->
  mrun (wrap (@sma_core R ROps n) a) xs = Ok osma ->
  mrun (wrap (@max_core R ROps n) a) xs = Ok omax ->
  forall t y, nth_error osma t = Some (Some y) ->
  exists lo hi, nth_error omin t = Some (Some lo) /\ nth_error omax t = Some (Some hi) /\ lo <= y <= hi.
Proof.
  intros Hn Hmin Hsma Hmax t y Ht.
  destruct (mrun_wrap_inner_ok _ a xs osma Hsma) as [la Hla].
  pose proof (chain_cout _ a xs Hla Hsma t Ht) as Hy.
  destruct (min_le_sma_le_max n _ y Hn Hy) as (lo & hi & Hlo & Hhi & Hb).
  assert (Hlt : (t < length xs)%nat).
  { rewrite <- (mrun_length _ xs osma Hsma). apply nth_error_Some. congruence. }
  destruct (nth_error omin t) as [o1|] eqn:E1;
    [|apply nth_error_None in E1; rewrite (mrun_length _ xs omin Hmin) in E1; lia].
  destruct (nth_error omax t) as [o2|] eqn:E2;
    [|apply nth_error_None in E2; rewrite (mrun_length _ xs omax Hmax) in E2; lia].
  pose proof (chain_cout _ a xs Hla Hmin t E1) as H1. pose proof (chain_cout _ a xs Hla Hmax t E2) as H2.
  rewrite Hlo in H1. rewrite Hhi in H2. inversion H1; inversion H2; subst. exists lo, hi. auto.
Qed.

(** satisfiability of the hypotheses *)
Example tanh_range_hyps : exists outs, mrun (@vtanh R ROps (@echo R)) [1; 2] = Ok outs.
Proof. eexists. rewrite (tanh_pointwise (@echo R) [1; 2] (echo_latest [1; 2])). reflexivity. Qed.
Example gte_ge_clip_hyps : exists outs, mrun (wrap (@gte_core R ROps 0) (@echo R)) [1; -2] = Ok outs.
Proof. eexists. rewrite (gte_pointwise 0 (@echo R) [1; -2] (echo_latest [1; -2])). reflexivity. Qed.
Example lte_le_clip_hyps : exists outs, mrun (wrap (@lte_core R ROps 0) (@echo R)) [1; -2] = Ok outs.
Proof. eexists. rewrite (lte_pointwise 0 (@echo R) [1; -2] (echo_latest [1; -2])). reflexivity. Qed.
Example min_le_sma_le_max_hyps :
  (1 <= 2)%nat /\ cout (@sma_core R ROps 2) [1; 3] = Ok (Some 2).
Proof.
  split; [lia|]. rewrite sma_closed_form by lia. unfold spec_sma, smean. cbn [length Nat.ltb Nat.leb].
  rewrite lastn_all by (cbn; lia). cbn [length]. rewrite sdivd_R by (cbn; lra).
  do 2 f_equal. unfold ssum. cbn. lra.
Qed.
Example min_le_alma_le_max_hyps : (1 <= 2)%nat /\ [1; 3] <> []. Proof. split; [lia | discriminate]. Qed.

Print Assumptions tanh_range.
Print Assumptions gte_ge_clip.
Print Assumptions lte_le_clip.
Print Assumptions min_le_sma_le_max.
Print Assumptions min_le_alma_custom_le_max.
Print Assumptions min_le_alma_le_max.
Print Assumptions min_le_sma_le_max_run.
