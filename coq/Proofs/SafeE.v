(** C15/C08 for the two cores that own a user-supplied moving-average view:
    polarized fractal efficiency ([pfe_core]) and the Ehlers Fisher transform ([eft_core]). *)
From Coq Require Import List Arith Lia Reals Lra ZArith.
From SF Require Import Res Scalar View Models Spec Core.
From SF.Proofs Require Import Window RBase SafeBase SafeTac SafeA.
Import ListNotations.
Open Scope R_scope.

(* ---------------------------------------------------------------- small helpers *)
Lemma usub_ok a b : (b <= a)%nat -> usub a b = Ok (a - b)%nat.
Proof. intros H. unfold usub. destruct (Nat.ltb_spec a b) as [H1|H1]; [lia|reflexivity]. Qed.

Lemma getq_ok {A} (q : list A) i : (i < length q)%nat -> exists x, getq q i = Ok x.
Proof.
  intros H. unfold getq. destruct (nth_error q i) as [x|] eqn:E; [eauto|].
  apply nth_error_None in E. lia.
Qed.
Lemma getq_ok_iff {A} (q : list A) i : (i < length q)%nat <-> exists x, getq q i = Ok x.
Proof.
  split; [apply getq_ok|]. intros [x H]. unfold getq in H.
  destruct (nth_error q i) as [y|] eqn:E; [|discriminate].
  apply nth_error_Some. rewrite E. discriminate.
Qed.

Lemma front_ok {A} (q : list A) : (1 <= length q)%nat -> exists x, front q = Ok x.
Proof. intros H. destruct q as [|x r]; cbn in *; [lia|eauto]. Qed.

Lemma ssqrt_R_ok x : 0 <= x -> @ssqrt R ROps x = Ok (sqrt x).
Proof. intros H. cbn [ssqrt ROps]. destruct (Rlt_dec x 0) as [H1|H1]; [lra|reflexivity]. Qed.

Lemma sln_R_ok x : 0 < x -> @sln R ROps x = Ok (ln x).
Proof. intros H. cbn [sln ROps]. destruct (Rle_dec x 0) as [H1|H1]; [lra|reflexivity]. Qed.

Lemma sqrt_sq1_ge1 d : 1 <= sqrt (d * d + 1).
Proof.
  rewrite <- sqrt_1 at 1. apply sqrt_le_1_alt. pose proof (Rle_0_sqr d) as H. unfold Rsqr in H. lra.
Qed.

(* ---------------------------------------------------------------- pfe *)
Lemma pfe_sum_ok (q : list R) wl : (wl < length q)%nat -> forall cnt i acc, (i + cnt < wl)%nat ->
  exists r, @pfe_sum R ROps q wl cnt i acc = Ok r /\ acc + INR cnt <= r.
Proof.
  intros Hwl cnt. induction cnt as [|c IH]; intros i acc Hi.
  - exists acc. split; [reflexivity|]. cbn [INR]. lra.
  - cbn [pfe_sum]. rewrite (usub_ok wl i) by lia. cbn [bind].
    destruct (getq_ok q (wl - i)) as [v0 Hv0]; [lia|]. rewrite Hv0. cbn [bind].
    rewrite (usub_ok (wl - i) 1) by lia. cbn [bind].
    destruct (getq_ok q (wl - i - 1)) as [v1 Hv1]; [lia|]. rewrite Hv1. cbn [bind].
    cbn [ssq smul sadd ssub s1 ROps].
    pose proof (sqrt_sq1_ge1 (v0 - v1)) as Hge.
    rewrite ssqrt_R_ok by (pose proof (Rle_0_sqr (v0 - v1)) as H; unfold Rsqr in H; lra).
    cbn [bind].
    destruct (IH (S i) (acc + sqrt ((v0 - v1) * (v0 - v1) + 1))) as [r [Hr Hle]]; [lia|].
    exists r. split; [exact Hr|]. rewrite S_INR. lra.
Qed.

(* ---------------------------------------------------------------- eft helpers *)
Lemma evict_len_lt {A} n (q : list A) : (1 <= n)%nat -> (length q <= n)%nat -> (length (evict n q) + 1 <= n)%nat.
Proof.
  intros Hn Hl. unfold evict. destruct (Nat.leb_spec n (length q)) as [H|H]; [|lia].
  destruct q as [|x r]; cbn [tl length] in *; lia.
Qed.
Lemma evict_nonempty {A} n (q : list A) : (2 <= n)%nat -> q <> [] -> evict n q <> [].
Proof.
  intros Hn Hq. unfold evict. destruct (Nat.leb_spec n (length q)) as [H|H]; [|exact Hq].
  destruct q as [|x [|y r]]; cbn [tl length] in *; [lia|lia|discriminate].
Qed.
Lemma max_by_some (q : list R) : (1 <= length q)%nat -> exists h, @max_by R ROps q = Some h.
Proof. intros H. destruct q as [|x r]; cbn [length] in H; [lia|]. cbn [max_by]. eauto. Qed.
Lemma min_by_some (q : list R) : (1 <= length q)%nat -> exists h, @min_by R ROps q = Some h.
Proof. intros H. destruct q as [|x r]; cbn [length] in H; [lia|]. cbn [min_by]. eauto. Qed.

Lemma sofdec_m99_2 : @sofdec R ROps (-99) 2 = -99 / 100.
Proof. cbn [sofdec ROps]. change (10 ^ Z.of_nat 2)%Z with 100%Z. reflexivity. Qed.
Lemma sofdec_99_2 : @sofdec R ROps 99 2 = 99 / 100.
Proof. cbn [sofdec ROps]. change (10 ^ Z.of_nat 2)%Z with 100%Z. reflexivity. Qed.
Lemma sclamp_R lo hi x : lo <= hi -> lo <= @sclamp R ROps x lo hi <= hi.
Proof.
  intros H. unfold sclamp, sgtb. cbn [sltb ROps].
  destruct (Rltb x lo) eqn:E1; [apply Rltb_true in E1 | apply Rltb_false in E1]; [lra|].
  destruct (Rltb hi x) eqn:E2; [apply Rltb_true in E2 | apply Rltb_false in E2]; lra.
Qed.
Lemma sclamp_R_bounds x :
  -99 / 100 <= @sclamp R ROps x (@sofdec R ROps (-99) 2) (@sofdec R ROps 99 2) <= 99 / 100.
Proof. rewrite sofdec_m99_2, sofdec_99_2. apply sclamp_R. lra. Qed.

Section OwnsMA.
Variable ma : view R.
Variable J : vst ma -> Prop.
Hypothesis Hma : VSafe ma (fun _ => True) J.

(** [k] = number of delivered values.  The MA is fed only once the window is full ([n <= k]); from
    then on the stored answer is the MA's answer.  Before that the stored answer is [None]. *)
Definition pfe_I (n k : nat) (s : cst (@pfe_core R ROps n ma)) : Prop :=
  J (fst (fst s)) /\ length (snd (fst s)) = Nat.min n k /\
  ((k < n)%nat -> snd s = None) /\ ((n <= k)%nat -> vlast ma (fst (fst s)) = Ok (snd s)).

(** the step lemma, with the shape of the successor state (used for ready-monotonicity) *)
Lemma pfe_step_ok n k s v : (3 <= n)%nat -> pfe_I n k s ->
  exists s', cstep (@pfe_core R ROps n ma) s v = Ok s' /\ pfe_I n (S k) s' /\
    ((S k < n)%nat -> fst (fst s') = fst (fst s) /\ snd s' = snd s) /\
    ((n <= S k)%nat -> exists p, vupd ma (fst (fst s)) p = Ok (fst (fst s'))).
Proof.
  intros Hn. destruct s as [[m q] out]. unfold pfe_I. cbn [fst snd]. intros [Hj [Hl [Hnone Hsome]]].
  cbn [cstep pfe_core].
  pose proof (@evict_len R n k q v ltac:(lia) Hl) as Hl'.
  set (q' := evict n q ++ [v]) in *. clearbody q'.
  destruct (Nat.leb_spec n (length q')) as [Hf|Hf].
  - assert (Hk : (n <= S k)%nat) by lia.
    assert (Hlen : length q' = n) by lia.
    rewrite (usub_ok n 1) by lia. cbn [bind]. rewrite (usub_ok n 2) by lia. cbn [bind].
    destruct (pfe_sum_ok q' (n - 1) ltac:(lia) (n - 2) 0 (@s0 R ROps)) as [sm [Hsm Hge]]; [lia|].
    rewrite Hsm. cbn [bind].
    assert (Hsm1 : 1 <= sm).
    { pose proof (INR_ge1 (n - 2) ltac:(lia)) as H1. cbn [s0 ROps] in Hge. lra. }
    destruct (front_ok q') as [fr Hfr]; [lia|]. rewrite Hfr. cbn [bind].
    cbn [ssq smul sadd ssub ROps].
    rewrite ssqrt_R_ok.
    2:{ pose proof (Rle_0_sqr (v - fr)) as H1. pose proof (Rle_0_sqr (@sofnat R ROps n)) as H2.
        unfold Rsqr in H1, H2. lra. }
    cbn [bind]. rewrite sdiv_R_ok by lra. cbn [bind].
    destruct (getq_ok q' (n - 2)) as [prev Hprev]; [lia|]. rewrite Hprev. cbn [bind]. cbv zeta.
    match goal with |- context [vupd ma m ?p] =>
      destruct (vs_upd Hma m p Hj I) as [m' [Hu Hj']]; rewrite Hu end.
    cbn [bind].
    destruct (vs_last Hma m' Hj') as [o Ho]. rewrite Ho. cbn [bind].
    exists (m', q', o). split; [reflexivity|]. cbn [fst snd].
    split; [split; [exact Hj'|split; [exact Hl'|split]]|split].
    + intros H. lia.
    + intros _. exact Ho.
    + intros H. lia.
    + intros _. eexists. exact Hu.
  - exists (m, q', out). split; [reflexivity|]. cbn [fst snd].
    split; [split; [exact Hj|split; [exact Hl'|split]]|split].
    + intros _. apply Hnone. lia.
    + intros H. lia.
    + intros _. split; reflexivity.
    + intros H. lia.
Qed.

Lemma pfe_safe n : (3 <= n)%nat -> Safe (@pfe_core R ROps n ma) (fun _ => True) (pfe_I n).
Proof.
  intros Hn. constructor.
  - cbn [cnew pfe_core]. destruct (Nat.leb_spec 3 n) as [H|H]; [|lia]. cbn [assert bind].
    destruct (vs_new Hma) as [m0 [Hm0 Hj0]]. rewrite Hm0. cbn [bind].
    exists (m0, [], None). split; [reflexivity|]. unfold pfe_I. cbn [fst snd length].
    repeat split; [exact Hj0|lia|lia].
  - intros k s v Hi _. destruct (pfe_step_ok n k s v Hn Hi) as [s' [H1 [H2 _]]]. eauto.
  - intros k s _. cbn [clast pfe_core]. eauto.
Qed.

(** C15 Pfe *)
Theorem safe_pfe n vs : (3 <= n)%nat ->
  exists s o, crun (@pfe_core R ROps n ma) vs = Ok s /\ clast (@pfe_core R ROps n ma) s = Ok o.
Proof. intros Hn. apply (safe_run (pfe_safe n Hn)). apply trueD. Qed.

(** no answer before the window is full, whatever the MA does *)
Lemma pfe_warmup n k s : pfe_I n k s -> (k < n)%nat -> clast (@pfe_core R ROps n ma) s = Ok None.
Proof. intros [_ [_ [H _]]] Hk. cbn [clast pfe_core]. rewrite (H Hk). reflexivity. Qed.
Theorem warmup_pfe n vs : (3 <= n)%nat -> (length vs < n)%nat -> cout (@pfe_core R ROps n ma) vs = Ok None.
Proof.
  intros Hn Hl. destruct (safe_run_len (pfe_safe n Hn) (trueD vs)) as [s [Hr Hi]].
  unfold cout. rewrite Hr. cbn [bind]. exact (pfe_warmup n _ s Hi Hl).
Qed.

(** C08 Pfe: the answer is the MA's answer, so the MA must be ready-monotone *)
Theorem ready_mono_pfe n : (3 <= n)%nat -> VReadyMono ma (fun _ => True) J ->
  CReadyMono (@pfe_core R ROps n ma) (fun _ => True) (InvOf (@pfe_core R ROps n ma) (pfe_I n)).
Proof.
  intros Hn HR s v s' x [k Hk] _ Hl Hs.
  destruct (pfe_step_ok n k s v Hn Hk) as [s1 [H1 [H2 [H3 H4]]]].
  rewrite Hs in H1. inversion H1; subst s1. clear H1.
  cbn [clast pfe_core] in *. inversion Hl as [Hout]. clear Hl.
  destruct Hk as [Hj [_ [Hnone Hsome]]].
  assert (Hnk : (n <= k)%nat).
  { destruct (Nat.lt_ge_cases k n) as [H|H]; [|exact H]. rewrite (Hnone H) in Hout. discriminate. }
  destruct (H4 ltac:(lia)) as [p Hp].
  specialize (Hsome Hnk). rewrite Hout in Hsome.
  destruct (HR _ p _ x Hj I Hsome Hp) as [z Hz].
  destruct H2 as [_ [_ [_ H2]]]. rewrite (H2 ltac:(lia)) in Hz. inversion Hz as [Hz']. exists z. rewrite Hz'. reflexivity.
Qed.

Lemma new_rejects_pfe n : (n <= 2)%nat -> @cnew R (@pfe_core R ROps n ma) = Err AssertFailed.
Proof. intros H. cbn [cnew pfe_core]. destruct (Nat.leb_spec 3 n) as [H1|H1]; [lia|reflexivity]. Qed.

(* ---------------------------------------------------------------- eft *)
Definition eft_I (n k : nat) (s : cst (@eft_core R ROps n ma)) : Prop :=
  J (ef_ma s) /\ length (ef_q s) = Nat.min n k /\ (length (ef_qout s) <= n)%nat.

Lemma eft_step_ok n k s v : (2 <= n)%nat -> eft_I n k s ->
  exists s', cstep (@eft_core R ROps n ma) s v = Ok s' /\ eft_I n (S k) s' /\
    (ef_qout s' = evict n (ef_qout s) \/ exists y, ef_qout s' = evict n (ef_qout s) ++ [y]).
Proof.
  intros Hn. destruct s as [m q hi lo qo]. unfold eft_I. cbn [ef_ma ef_q ef_qout]. intros [Hj [Hl Hlo]].
  cbn [cstep eft_core]. unfold eft_step. cbn [ef_ma ef_q ef_high ef_low ef_qout].
  assert (Hqo : (length (evict n qo) + 1 <= n)%nat) by (apply evict_len_lt; [lia|exact Hlo]).
  set (qo' := evict n qo) in *. clearbody qo'.
  destruct (match q with [] => (v, v) | _ :: _ => (hi, lo) end) as [h0 l0].
  set (e := if (n <=? length q)%nat then _ else _).
  assert (He : exists q1 h1 l1, e = Ok (q1, h1, l1) /\ length (q1 ++ [v]) = Nat.min n (S k)).
  { subst e. destruct (Nat.leb_spec n (length q)) as [Hf|Hf].
    - destruct q as [|old q']; [cbn in Hf; lia|]. cbn [pop_front bind]. cbn [length] in Hf, Hl.
      assert (Hq' : (1 <= length q')%nat) by lia.
      destruct (max_by_some q' Hq') as [hh Hhh]. destruct (min_by_some q' Hq') as [ll Hll].
      rewrite Hhh, Hll.
      destruct (sgeb old h0); destruct (sleb old l0); cbn [bind]; do 3 eexists;
        (split; [reflexivity|rewrite app_length; cbn [length]; lia]).
    - do 3 eexists. split; [reflexivity|]. rewrite app_length. cbn [length]. lia. }
  clearbody e. destruct He as [q1 [h1 [l1 [He Hl1]]]]. rewrite He. cbn [bind]. cbv beta iota.
  destruct (if sgtb v h1 then (v, l1) else if sltb v l1 then (h1, v) else (h1, l1)) as [h2 l2].
  destruct (seqb h2 l2) eqn:E.
  - eexists. split; [reflexivity|]. cbn [ef_ma ef_q ef_qout]. split; [split; [exact Hj|split; [exact Hl1|]]|].
    + rewrite app_length. cbn [length]. lia.
    + right. eexists. reflexivity.
  - cbn [seqb ROps] in E. apply Reqb_false in E.
    cbn [ssub ROps]. rewrite sdiv_R_ok by lra. cbn [bind].
    match goal with |- context [vupd ma m ?p] =>
      destruct (vs_upd Hma m p Hj I) as [m' [Hu Hj']]; rewrite Hu end.
    cbn [bind].
    destruct (vs_last Hma m' Hj') as [o Ho]. rewrite Ho. cbn [bind].
    destruct o as [sm|].
    + pose proof (sclamp_R_bounds sm) as Hb.
      set (sm' := sclamp sm (sofdec (-99) 2) (sofdec 99 2)) in *. clearbody sm'.
      destruct (last_opt qo') as [prev|].
      * cbn [s1 sadd ssub ROps]. rewrite sdiv_R_ok by lra. cbn [bind].
        rewrite sln_R_ok by (apply Rdiv_lt_0_compat; lra). cbn [bind].
        eexists. split; [reflexivity|]. cbn [ef_ma ef_q ef_qout].
        split; [split; [exact Hj'|split; [exact Hl1|]]|].
        -- rewrite app_length. cbn [length]. lia.
        -- right. eexists. reflexivity.
      * eexists. split; [reflexivity|]. cbn [ef_ma ef_q ef_qout].
        split; [split; [exact Hj'|split; [exact Hl1|]]|].
        -- rewrite app_length. cbn [length]. lia.
        -- right. eexists. reflexivity.
    + eexists. split; [reflexivity|]. cbn [ef_ma ef_q ef_qout].
      split; [split; [exact Hj'|split; [exact Hl1|]]|].
      * lia.
      * left. reflexivity.
Qed.

Lemma eft_safe n : (2 <= n)%nat -> Safe (@eft_core R ROps n ma) (fun _ => True) (eft_I n).
Proof.
  intros Hn. constructor.
  - cbn [cnew eft_core]. destruct (Nat.leb_spec 2 n) as [H|H]; [|lia]. cbn [assert bind].
    destruct (vs_new Hma) as [m0 [Hm0 Hj0]]. rewrite Hm0. cbn [bind].
    eexists. split; [reflexivity|]. unfold eft_I. cbn [ef_ma ef_q ef_qout length].
    split; [exact Hj0|split; lia].
  - intros k s v Hi _. destruct (eft_step_ok n k s v Hn Hi) as [s' [H1 [H2 _]]]. eauto.
  - intros k s _. cbn [clast eft_core]. eauto.
Qed.

(** C15 Eft *)
Theorem safe_eft n vs : (2 <= n)%nat ->
  exists s o, crun (@eft_core R ROps n ma) vs = Ok s /\ clast (@eft_core R ROps n ma) s = Ok o.
Proof. intros Hn. apply (safe_run (eft_safe n Hn)). apply trueD. Qed.

(** C08 Eft: a non-empty output queue stays non-empty (evicting from a full queue of length [n >= 2]
    leaves at least one element, also when the MA is silent and nothing is pushed).  No assumption
    on the MA's readiness is needed. *)
Theorem ready_mono_eft n : (2 <= n)%nat ->
  CReadyMono (@eft_core R ROps n ma) (fun _ => True) (InvOf (@eft_core R ROps n ma) (eft_I n)).
Proof.
  intros Hn s v s' x [k Hk] _ Hl Hs.
  destruct (eft_step_ok n k s v Hn Hk) as [s1 [H1 [_ H3]]].
  rewrite Hs in H1. inversion H1; subst s1. clear H1.
  cbn [clast eft_core] in *. inversion Hl as [Hout]. clear Hl.
  assert (Hne : ef_qout s <> []).
  { intros H. rewrite H in Hout. discriminate. }
  destruct H3 as [H3|[y H3]]; rewrite H3.
  - destruct (last_opt_nonempty (evict n (ef_qout s))) as [z Hz]; [apply evict_nonempty; assumption|].
    exists z. rewrite Hz. reflexivity.
  - exists y. rewrite last_opt_snoc. reflexivity.
Qed.

Lemma new_rejects_eft n : (n <= 1)%nat -> @cnew R (@eft_core R ROps n ma) = Err AssertFailed.
Proof. intros H. cbn [cnew eft_core]. destruct (Nat.leb_spec 2 n) as [H1|H1]; [lia|reflexivity]. Qed.

End OwnsMA.

(* ---------------------------------------------------------------- the hypotheses are satisfiable *)
(** a concrete safe and ready-monotone moving average: [Sma(3, Echo)] *)
Definition ma3 : view R := wrap (@sma_core R ROps 3) (@echo R).
Definition ma3_J : vst ma3 -> Prop :=
  @wrapInv R (@sma_core R ROps 3) (@echo R) (fun o => forall y : R, o = Some y -> True)
          (InvOf (@sma_core R ROps 3) (sma_I 3)).

Lemma ma3_safe : VSafe ma3 (fun _ => True) ma3_J.
Proof.
  apply (@wrap_safe R (@sma_core R ROps 3) (@echo R) (fun _ => True) _ (fun _ => True) (sma_I 3)).
  - apply (@echo_safe R (fun _ => True)).
  - apply (@echo_out R (fun _ => True)).
  - apply sma_safe. lia.
Qed.
Lemma ma3_ready_mono : VReadyMono ma3 (fun _ => True) ma3_J.
Proof.
  apply (@wrap_ready_mono' R (@sma_core R ROps 3) (@echo R) (fun _ => True) _ (fun _ => True) (sma_I 3)).
  - apply (@echo_safe R (fun _ => True)).
  - apply (@echo_out R (fun _ => True)).
  - apply echo_ready_mono.
  - apply sma_safe. lia.
  - apply ready_mono_sma. lia.
Qed.

Example safe_pfe_ma3 vs :
  exists s o, crun (@pfe_core R ROps 5 ma3) vs = Ok s /\ clast (@pfe_core R ROps 5 ma3) s = Ok o.
Proof. apply (safe_pfe ma3 ma3_J ma3_safe). lia. Qed.
Example ready_mono_pfe_ma3 :
  CReadyMono (@pfe_core R ROps 5 ma3) (fun _ => True) (InvOf (@pfe_core R ROps 5 ma3) (pfe_I ma3 ma3_J 5)).
Proof. apply (ready_mono_pfe ma3 ma3_J ma3_safe); [lia|exact ma3_ready_mono]. Qed.
Example safe_eft_ma3 vs :
  exists s o, crun (@eft_core R ROps 4 ma3) vs = Ok s /\ clast (@eft_core R ROps 4 ma3) s = Ok o.
Proof. apply (safe_eft ma3 ma3_J ma3_safe). lia. Qed.
Example ready_mono_eft_ma3 :
  CReadyMono (@eft_core R ROps 4 ma3) (fun _ => True) (InvOf (@eft_core R ROps 4 ma3) (eft_I ma3 ma3_J 4)).
Proof. apply (ready_mono_eft ma3 ma3_J ma3_safe). lia. Qed.

(* ---------------------------------------------------------------- the MA hypothesis of [ready_mono_pfe] is needed *)
(** a safe but not ready-monotone "moving average": answers on every other update *)
Definition flip : view R := {|
  vst := bool; vnew := Ok false; vupd := fun b _ => Ok (negb b);
  vlast := fun b => Ok (if b then Some 0 else None); vpop := fun _ => 0%nat |}.
Lemma flip_safe : VSafe flip (fun _ => True) (fun _ => True).
Proof. constructor; cbn; eauto. Qed.

(** with that MA, Pfe(3) loses its answer: ready-monotonicity of Pfe is exactly that of its MA *)
Lemma ready_mono_pfe_without_ma_mono_refuted :
  ~ CReadyMono (@pfe_core R ROps 3 flip) (fun _ => True)
      (InvOf (@pfe_core R ROps 3 flip) (pfe_I flip (fun _ => True) 3)).
Proof.
  intros H.
  pose (s := ((true, [0; 0; 0]), Some 0) : cst (@pfe_core R ROps 3 flip)).
  assert (Hi : pfe_I flip (fun _ => True) 3 3 s).
  { unfold pfe_I, s. cbn [fst snd length]. split; [exact I|]. split; [reflexivity|]. split; [lia|]. intros _. reflexivity. }
  destruct (pfe_step_ok flip (fun _ => True) flip_safe 3 3 s 0 (le_n 3) Hi) as [s' [Hs [Hi' [_ H4]]]].
  destruct (H s 0 s' 0 (ex_intro _ 3%nat Hi) I eq_refl Hs) as [y Hy].
  destruct s' as [[m' q'] o']. cbn [fst snd] in *.
  destruct (H4 (le_S _ _ (le_n 3))) as [p Hp]. cbn [vupd flip negb] in Hp. inversion Hp as [Hm]. subst m'.
  destruct Hi' as [_ [_ [_ Hv]]]. specialize (Hv (le_S _ _ (le_n 3))).
  cbn [vlast flip] in Hv. cbn [clast pfe_core snd] in Hy. inversion Hy as [Hy']. inversion Hv as [Hv']. congruence.
Qed.

Print Assumptions safe_pfe.
Print Assumptions ready_mono_pfe.
Print Assumptions warmup_pfe.
Print Assumptions safe_eft.
Print Assumptions ready_mono_eft.
Print Assumptions safe_pfe_ma3.
Print Assumptions ready_mono_pfe_ma3.
Print Assumptions ready_mono_pfe_without_ma_mono_refuted.
