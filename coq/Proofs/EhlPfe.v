(** PolarizedFractalEfficiency (polarized_fractal_efficiency.rs): C11 closed form at [R] for an
    arbitrary moving-average view, the exact criterion for |p| <= 1, and the refutation of the
    claimed range [-1, 1]. *)
From Coq Require Import List Arith Lia Reals Lra ZArith.
From SF Require Import Res Scalar View Models Spec Core SpecEhl.
From SF.Proofs Require Import Chain Window RBase EhlBase Pure.
Import ListNotations.
Open Scope R_scope.

(** * scalar helpers at R *)
Lemma ssqrt_R_ok x : 0 <= x -> @ssqrt R ROps x = Ok (sqrt x).
Proof. intros H. cbn. destruct (Rlt_dec x 0) as [Hl|Hl]; [lra | reflexivity]. Qed.
Lemma ssqrtd_R x : 0 <= x -> @ssqrtd R ROps x = sqrt x.
Proof. intros H. unfold ssqrtd, totd. rewrite ssqrt_R_ok by exact H. reflexivity. Qed.
Lemma ssq_R x : @ssq R ROps x = x * x.
Proof. reflexivity. Qed.
Lemma sq_ge0 x : 0 <= x * x.
Proof. pose proof (Rle_0_sqr x) as H. unfold Rsqr in H. exact H. Qed.
Lemma sqrt_sq1_ge1 d : 1 <= sqrt (d * d + 1).
Proof.
  pose proof (sq_ge0 d) as Hd.
  rewrite <- sqrt_1 at 1. apply sqrt_le_1_alt. lra.
Qed.

(** * list helpers *)
Lemma getq_nth {A} (q : list A) i d : (i < length q)%nat -> getq q i = Ok (nth i q d).
Proof.
  intros H. unfold getq. destruct (nth_error q i) as [x|] eqn:E.
  - rewrite (nth_error_nth q i d E). reflexivity.
  - apply nth_error_None in E. lia.
Qed.
Lemma front_nth {A} (q : list A) d : (0 < length q)%nat -> front q = Ok (nth 0 q d).
Proof. destruct q; cbn; [lia | reflexivity]. Qed.

Lemma lastn_snoc_nth_last {A} n (vs : list A) v d : (1 <= n)%nat -> (n <= length vs + 1)%nat ->
  nth (n - 1) (lastn n (vs ++ [v])) d = v.
Proof.
  intros Hn Hl. rewrite <- (evict_push_lastn n vs v Hn).
  set (X := if Nat.leb n (length (lastn n vs)) then tl (lastn n vs) else lastn n vs).
  assert (HX : length X = (n - 1)%nat).
  { subst X. pose proof (lastn_length n vs) as HL.
    destruct (Nat.leb_spec n (length (lastn n vs))) as [H|H].
    - destruct (lastn n vs); cbn in *; lia.
    - lia. }
  rewrite app_nth2 by lia. rewrite HX, Nat.sub_diag. reflexivity.
Qed.

Lemma ssum_ge_len {B} (g : B -> R) (l : list B) : (forall x, 1 <= g x) ->
  INR (length l) <= @ssum R ROps (map g l).
Proof.
  intros Hg. induction l as [|x l IH]; [cbn [map length INR]; rewrite ssum_R_nil; lra|].
  cbn [map]. rewrite ssum_R_cons. change (length (x :: l)) with (S (length l)). rewrite S_INR.
  specialize (Hg x). lra.
Qed.

(** * the denominator *)
Lemma pfe_den_ge n (w : list R) : INR (n - 2) <= @pfe_den R ROps n w.
Proof.
  unfold pfe_den.
  pose proof (@ssum_ge_len nat
     (fun i => @ssqrtd R ROps (@ssq R ROps (nth (n - 1 - i) w 0 - nth (n - 2 - i) w 0) + 1)) (seq 0 (n - 2))) as H.
  rewrite seq_length in H. apply H. intros i.
  rewrite ssq_R. rewrite ssqrtd_R by (pose proof (sq_ge0 (nth (n - 1 - i) w 0 - nth (n - 2 - i) w 0)); lra).
  apply sqrt_sq1_ge1.
Qed.

Lemma pfe_den_pos n (w : list R) : (3 <= n)%nat -> 0 < @pfe_den R ROps n w.
Proof.
  intros Hn. pose proof (pfe_den_ge n w) as H.
  assert (1 <= INR (n - 2)) by (change 1 with (INR 1); apply le_INR; lia). lra.
Qed.

Lemma pfe_sum_R (q : list R) wl cnt i acc : (i + cnt <= wl)%nat -> (wl < length q)%nat ->
  @pfe_sum R ROps q wl cnt i acc
  = Ok (acc + @ssum R ROps (map (fun j => sqrt ((nth (wl - j) q 0 - nth (wl - j - 1) q 0)
                                               * (nth (wl - j) q 0 - nth (wl - j - 1) q 0) + 1))
                                (seq i cnt))).
Proof.
  revert i acc. induction cnt as [|c IH]; intros i acc Hi Hw.
  - cbn [pfe_sum seq map]. rewrite ssum_R_nil. f_equal. lra.
  - cbn [pfe_sum]. unfold usub.
    destruct (Nat.ltb_spec wl i) as [H|_]; [lia|]. cbn [bind].
    rewrite (getq_nth q (wl - i) 0) by lia. cbn [bind].
    destruct (Nat.ltb_spec (wl - i) 1) as [H|_]; [lia|]. cbn [bind].
    rewrite (getq_nth q (wl - i - 1) 0) by lia. cbn [bind].
    rewrite ssq_R. cbn [ssub sadd s1 ROps].
    rewrite ssqrt_R_ok by (pose proof (sq_ge0 (nth (wl - i) q 0 - nth (wl - i - 1) q 0)); lra).
    cbn [bind]. rewrite IH by lia. cbn [seq map]. rewrite ssum_R_cons. f_equal. lra.
Qed.

Lemma pfe_den_R n (w : list R) :
  @pfe_den R ROps n w
  = @ssum R ROps (map (fun j => sqrt ((nth (n - 1 - j) w 0 - nth (n - 1 - j - 1) w 0)
                                      * (nth (n - 1 - j) w 0 - nth (n - 1 - j - 1) w 0) + 1))
                      (seq 0 (n - 2))).
Proof.
  unfold pfe_den. f_equal. apply map_ext. intros j.
  replace (n - 2 - j)%nat with (n - 1 - j - 1)%nat by lia.
  rewrite ssq_R. cbn [ssub sadd s1 s0 ROps].
  rewrite ssqrtd_R by (pose proof (sq_ge0 (nth (n - 1 - j) w 0 - nth (n - 1 - j - 1) w 0)); lra).
  reflexivity.
Qed.

Lemma pfe_sum_den n (q : list R) : (3 <= n)%nat -> length q = n ->
  @pfe_sum R ROps q (n - 1) (n - 2) 0 0 = Ok (@pfe_den R ROps n q).
Proof.
  intros Hn Hq. rewrite pfe_sum_R by lia. rewrite pfe_den_R. f_equal. lra.
Qed.

Lemma pfe_num_R n (w : list R) :
  @pfe_num R ROps n w = sqrt ((nth (n - 1) w 0 - nth 0 w 0) * (nth (n - 1) w 0 - nth 0 w 0) + INR n * INR n).
Proof.
  unfold pfe_num. rewrite !ssq_R. cbn [ssub sadd sofnat s0 ROps].
  apply ssqrtd_R. pose proof (sq_ge0 (nth (n - 1) w 0 - nth 0 w 0)). pose proof (sq_ge0 (INR n)). lra.
Qed.

(** * inputs of the moving average, one history step at a time *)
Definition pfe_new (n : nat) (p : list R) : list R :=
  match @pfe_p R ROps n p with Some y => [y] | None => [] end.

Lemma pfe_inputs_snoc n vs v :
  @pfe_inputs R ROps n (vs ++ [v]) = @pfe_inputs R ROps n vs ++ pfe_new n (vs ++ [v]).
Proof.
  unfold pfe_inputs, pfe_new. rewrite prefixes_snoc, map_app, ovals_app. cbn [map ovals].
  destruct (pfe_p n (vs ++ [v])); reflexivity.
Qed.

Lemma spec_pfe_snoc (mas : list (option R)) o : @spec_pfe R (mas ++ [o]) = o.
Proof. unfold spec_pfe. rewrite rev_app_distr. reflexivity. Qed.

(** * the invariant *)
Definition pfe_inv (n : nat) (ma : view R) (m0 : vst ma) (vs : list R) (mas : list (option R))
  (s : cst (@pfe_core R ROps n ma)) : Prop :=
  let '(m, q, out) := s in
  q = lastn n vs /\ steps ma m0 (@pfe_inputs R ROps n vs) = Ok m /\ out = @spec_pfe R mas.


Lemma pfe_p_R n (p : list R) : (3 <= n)%nat -> (n <= length p)%nat ->
  let w := lastn n p in
  @pfe_p R ROps n p =
  Some (if Rltb (nth (n - 1) w 0) (nth (n - 2) w 0)
        then - (@pfe_num R ROps n w / @pfe_den R ROps n w) else @pfe_num R ROps n w / @pfe_den R ROps n w).
Proof.
  intros Hn Hl w. unfold pfe_p. destruct (Nat.ltb_spec (length p) n) as [H|_]; [lia|].
  fold w. rewrite sdivd_R by (pose proof (pfe_den_pos n w Hn); lra). reflexivity.
Qed.

Lemma pfe_run_inv n (ma : view R) m0 : (3 <= n)%nat -> vnew ma = Ok m0 ->
  forall vs mas, mrun_from ma m0 (@pfe_inputs R ROps n vs) = Ok mas ->
  exists s, crun (@pfe_core R ROps n ma) vs = Ok s /\ pfe_inv n ma m0 vs mas s.
Proof.
  intros Hn Hm0 vs. induction vs as [|v vs IH] using rev_ind; intros mas Hrun.
  - cbn in Hrun. inversion Hrun; subst mas. exists (m0, [], None). split.
    + unfold crun. cbn [cnew pfe_core]. destruct (Nat.leb_spec 3 n) as [_|H]; [|lia].
      cbn [assert bind]. rewrite Hm0. reflexivity.
    + cbn. repeat split; reflexivity.
  - rewrite pfe_inputs_snoc in Hrun. rewrite crun_snoc.
    pose proof (evict_push_lastn n vs v ltac:(lia)) as Hev.
    assert (Hlen : length (lastn n (vs ++ [v])) = Nat.min n (length vs + 1)).
    { rewrite lastn_length, app_length. reflexivity. }
    destruct (Nat.ltb_spec (length (vs ++ [v])) n) as [Hlt|Hge].
    + (* not enough values yet *)
      assert (Hnew : pfe_new n (vs ++ [v]) = []).
      { unfold pfe_new, pfe_p. destruct (Nat.ltb_spec (length (vs ++ [v])) n); [reflexivity | lia]. }
      rewrite Hnew, app_nil_r in Hrun.
      destruct (IH mas Hrun) as [[[m q] out] [Hc [Hq [Hs Ho]]]].
      rewrite Hc. cbn [bind cstep pfe_core]. rewrite Hq. rewrite evict_eq, Hev.
      rewrite app_length in Hlt. cbn [length] in Hlt.
      destruct (Nat.leb_spec n (length (lastn n (vs ++ [v])))) as [H|_]; [lia|].
      eexists; split; [reflexivity|]. cbn. rewrite pfe_inputs_snoc, Hnew, app_nil_r. auto.
    + rewrite app_length in Hge. cbn [length] in Hge.
      pose proof (pfe_p_R n (vs ++ [v]) Hn ltac:(rewrite app_length; cbn [length]; lia)) as Hp.
      cbn zeta in Hp.
      assert (Hnew : pfe_new n (vs ++ [v]) =
                [if Rltb (nth (n - 1) (lastn n (vs ++ [v])) 0) (nth (n - 2) (lastn n (vs ++ [v])) 0)
                 then - (@pfe_num R ROps n (lastn n (vs ++ [v])) / @pfe_den R ROps n (lastn n (vs ++ [v])))
                 else @pfe_num R ROps n (lastn n (vs ++ [v])) / @pfe_den R ROps n (lastn n (vs ++ [v]))]).
      { unfold pfe_new. rewrite Hp. reflexivity. }
      rewrite Hnew in Hrun.
      destruct (mrun_from_snoc_inv R ma m0 _ _ _ Hrun) as (outs' & m1 & m2 & o & Hr1 & Hs1 & Hu & Hl & Hmas).
      destruct (IH outs' Hr1) as [[[m q] out] [Hc [Hq [Hs Ho]]]].
      rewrite Hs1 in Hs. inversion Hs; subst m. clear Hs.
      rewrite Hc. cbn [bind cstep pfe_core]. rewrite Hq. rewrite evict_eq, Hev.
      set (w := lastn n (vs ++ [v])) in *.
      assert (Hw : length w = n) by lia.
      destruct (Nat.leb_spec n (length w)) as [_|H]; [|lia].
      unfold usub. destruct (Nat.ltb_spec n 1) as [H|_]; [lia|].
      destruct (Nat.ltb_spec n 2) as [H|_]; [lia|]. cbn [bind].
      change (@s0 R ROps) with 0.       rewrite (pfe_sum_den n w Hn Hw). cbn [bind].
      rewrite (front_nth w 0) by lia. cbn [bind].
      rewrite !ssq_R. cbn [ssub sadd sofnat ROps].
      assert (Hv : nth (n - 1) w 0 = v) by (apply lastn_snoc_nth_last; lia).
      rewrite ssqrt_R_ok by (pose proof (sq_ge0 (v - nth 0 w 0)); pose proof (sq_ge0 (INR n)); lra).
      cbn [bind]. pose proof (pfe_den_pos n w Hn) as Hden.
      change (@sdiv R ROps) with Rdiv_res. rewrite Rdiv_res_ok by lra. cbn [bind].
      rewrite (getq_nth w (n - 2) 0) by lia. cbn [bind].
      rewrite Hv in Hu. rewrite pfe_num_R, Hv in Hu. cbn [sltb sneg ROps].
      rewrite Hu. cbn [bind]. rewrite Hl. cbn [bind].
      eexists; split; [reflexivity|]. cbn. repeat split.
      * rewrite pfe_inputs_snoc, Hnew, steps_app, Hs1. cbn [bind steps].
        rewrite Hv, pfe_num_R, Hv, Hu. reflexivity.
      * subst mas. rewrite spec_pfe_snoc. reflexivity.
Qed.

(** * C11: the closed form *)
Theorem pfe_closed_form : forall n (ma : view R) vs mas, (3 <= n)%nat ->
  mrun ma (@pfe_inputs R ROps n vs) = Ok mas ->
  cout (@pfe_core R ROps n ma) vs = Ok (@spec_pfe R mas).
Proof.
  intros n ma vs mas Hn Hrun. unfold mrun in Hrun.
  destruct (vnew ma) as [m0|e] eqn:Hm0; cbn [bind] in Hrun; [|discriminate].
  destruct (pfe_run_inv n ma m0 Hn Hm0 vs mas Hrun) as [[[m q] out] [Hc [Hq [Hs Ho]]]].
  unfold cout. rewrite Hc. cbn. rewrite Ho. reflexivity.
Qed.

(** * C07: when is |p| <= 1 *)
Lemma pfe_num_ge0 n (w : list R) : 0 <= @pfe_num R ROps n w.
Proof. rewrite pfe_num_R. apply sqrt_pos. Qed.

Theorem pfe_abs_le_one_iff : forall n (p : list R), (3 <= n)%nat -> (n <= length p)%nat ->
  exists y, @pfe_p R ROps n p = Some y /\
    (Rabs y <= 1 <-> @pfe_num R ROps n (lastn n p) <= @pfe_den R ROps n (lastn n p)).
Proof.
  intros n p Hn Hl. pose proof (pfe_p_R n p Hn Hl) as Hp. cbn zeta in Hp.
  eexists; split; [exact Hp|].
  set (w := lastn n p). pose proof (pfe_den_pos n w Hn) as Hd. pose proof (pfe_num_ge0 n w) as Hnum.
  set (num := @pfe_num R ROps n w) in *. set (den := @pfe_den R ROps n w) in *. clearbody num den.
  assert (Hq : 0 <= num / den) by (apply Rmult_le_pos; [lra | left; apply Rinv_0_lt_compat; lra]).
  assert (Habs : Rabs (if Rltb (nth (n - 1) w 0) (nth (n - 2) w 0) then - (num / den) else num / den) = num / den).
  { destruct (Rltb _ _); [rewrite Rabs_Ropp|]; apply Rabs_pos_eq; exact Hq. }
  rewrite Habs. split; intros H.
  - apply (Rmult_le_compat_r den) in H; [|lra]. unfold Rdiv in H. rewrite Rmult_assoc, Rinv_l in H by lra. lra.
  - apply (Rmult_le_reg_r den); [lra|]. unfold Rdiv. rewrite Rmult_assoc, Rinv_l by lra. lra.
Qed.

(** * C07 refuted: the output is not confined to [-1, 1] *)
Lemma nth_repeat_lt {A} (c d : A) k m : (k < m)%nat -> nth k (repeat c m) d = c.
Proof.
  revert k; induction m as [|m IH]; intros k H; [lia|]. destruct k; cbn; [reflexivity|]. apply IH. lia.
Qed.

Lemma pfe_inputs_short n (l : list R) : (length l < n)%nat -> @pfe_inputs R ROps n l = [].
Proof.
  induction l as [|x l IH] using rev_ind; intros H; [reflexivity|].
  rewrite app_length in H. cbn [length] in H. rewrite pfe_inputs_snoc, IH by lia.
  unfold pfe_new, pfe_p. rewrite app_length. cbn [length].
  destruct (Nat.ltb_spec (length l + 1) n); [reflexivity | lia].
Qed.

Lemma ssum_R_const {B} (l : list B) : @ssum R ROps (map (fun _ => 1) l) = INR (length l).
Proof.
  induction l as [|x l IH]; [reflexivity|]. cbn [map]. rewrite ssum_R_cons, IH.
  change (length (x :: l)) with (S (length l)). rewrite S_INR. lra.
Qed.

Lemma pfe_p_const n c : (3 <= n)%nat -> @pfe_p R ROps n (repeat c n) = Some (INR n / INR (n - 2)).
Proof.
  intros Hn. pose proof (pfe_p_R n (repeat c n) Hn ltac:(rewrite repeat_length; lia)) as Hp.
  cbn zeta in Hp. rewrite Hp. rewrite lastn_all by (rewrite repeat_length; lia).
  rewrite pfe_num_R, pfe_den_R.
  rewrite !nth_repeat_lt by lia.
  assert (Hlt : Rltb c c = false) by (apply Rltb_false; lra). rewrite Hlt.
  assert (Hnum : sqrt ((c - c) * (c - c) + INR n * INR n) = INR n).
  { replace ((c - c) * (c - c) + INR n * INR n) with (Rsqr (INR n)) by (unfold Rsqr; ring).
    apply sqrt_Rsqr. apply pos_INR. }
  rewrite Hnum.
  assert (Hden : map (fun j => sqrt ((nth (n - 1 - j) (repeat c n) 0 - nth (n - 1 - j - 1) (repeat c n) 0) *
                                      (nth (n - 1 - j) (repeat c n) 0 - nth (n - 1 - j - 1) (repeat c n) 0) + 1))
                     (seq 0 (n - 2)) = map (fun _ => 1) (seq 0 (n - 2))).
  { apply map_ext. intros j. rewrite !nth_repeat_lt by lia.
    replace ((c - c) * (c - c) + 1) with 1 by ring. apply sqrt_1. }
  rewrite Hden, ssum_R_const, seq_length. reflexivity.
Qed.

Lemma pfe_inputs_const n c : (3 <= n)%nat -> @pfe_inputs R ROps n (repeat c n) = [INR n / INR (n - 2)].
Proof.
  intros Hn. destruct n as [|k]; [lia|].
  assert (Hr : repeat c (S k) = repeat c k ++ [c]).
  { clear. induction k as [|k IH]; [reflexivity|]. cbn [repeat] in *. rewrite IH at 1. reflexivity. }
  rewrite Hr at 1. rewrite pfe_inputs_snoc. rewrite pfe_inputs_short by (rewrite repeat_length; lia).
  rewrite <- Hr. unfold pfe_new. rewrite pfe_p_const by lia. reflexivity.
Qed.

(** general form: a constant history of length [n] yields [n / (n - 2) > 1] *)
Theorem pfe_const_value : forall n c, (3 <= n)%nat ->
  cout (@pfe_core R ROps n (@echo R)) (repeat c n) = Ok (Some (INR n / INR (n - 2))) /\
  1 < INR n / INR (n - 2).
Proof.
  intros n c Hn. split.
  - rewrite (pfe_closed_form n (@echo R) (repeat c n) [Some (INR n / INR (n - 2))] Hn).
    + reflexivity.
    + rewrite pfe_inputs_const by exact Hn. exact (echo_latest [INR n / INR (n - 2)]).
  - assert (H2 : 0 < INR (n - 2)) by (apply lt_0_INR; lia).
    apply (Rmult_lt_reg_r (INR (n - 2))); [exact H2|].
    unfold Rdiv. rewrite Rmult_assoc, Rinv_l by lra. rewrite Rmult_1_l, Rmult_1_r.
    apply lt_INR. lia.
Qed.

Theorem pfe_range_refuted :
  exists vs y, cout (@pfe_core R ROps 16 (@echo R)) vs = Ok (Some y) /\ 1 < y.
Proof.
  exists (repeat 1 16), (INR 16 / INR (16 - 2)). apply pfe_const_value. lia.
Qed.

Example pfe_range_refuted_value :
  cout (@pfe_core R ROps 16 (@echo R)) (repeat 1 16) = Ok (Some (8 / 7)).
Proof.
  destruct (pfe_const_value 16 1 ltac:(lia)) as [H _]. rewrite H. do 2 f_equal.
  replace (INR 16) with 16 by (cbn; lra). replace (INR (16 - 2)) with 14 by (cbn; lra). lra.
Qed.

Example pfe_n3_value c : cout (@pfe_core R ROps 3 (@echo R)) [c; c; c] = Ok (Some 3).
Proof.
  destruct (pfe_const_value 3 c ltac:(lia)) as [H _]. cbn [repeat] in H. rewrite H. do 2 f_equal.
  cbn. lra.
Qed.

(** the hypotheses of [pfe_closed_form] are satisfiable *)
Example pfe_closed_form_hyps :
  (3 <= 3)%nat /\ exists mas, mrun (@echo R) (@pfe_inputs R ROps 3 [1; 2; 4]) = Ok mas.
Proof. split; [lia|]. eexists. apply echo_latest. Qed.
Example pfe_abs_le_one_iff_hyps : (3 <= 3)%nat /\ (3 <= length [1; 2; 4])%nat.
Proof. cbn. lia. Qed.

Print Assumptions pfe_closed_form.
Print Assumptions pfe_den_pos.
Print Assumptions pfe_abs_le_one_iff.
Print Assumptions pfe_const_value.
Print Assumptions pfe_range_refuted.
