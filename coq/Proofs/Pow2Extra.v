(** C12, floating-point half, two more scale-free views that are not in the list of C12 but satisfy it too:
    NoiseEliminationTechnology (only the signs of rounded differences are used) and CorrelationTrendIndicator
    (sums of squares scale by sc^2, the square root of the product of the two variances by sc). *)
From Coq Require Import List Arith Lia Reals Lra ZArith Bool.
From SF Require Import Res Scalar View Models Core.
From SF.Proofs Require Import Pow2Base.
Import ListNotations.
Open Scope R_scope.

Section Views.
Variable rnd : R -> R.
Variable cnat : nat -> R.
Variable cdec : Z -> nat -> R.
Variable sc : R.
Hypothesis rnd_sc : forall x, rnd (sc * x) = sc * rnd x.
Hypothesis sc_pos : 0 < sc.

Notation PO := (RndOps rnd cnat cdec).
Notation scl := (scl sc).
Notation sco := (sco sc).

Ltac sc_rw := sc_rw_with rnd sc rnd_sc sc_pos.
Ltac crush := crush_with rnd sc rnd_sc sc_pos.

(** ** NET *)
Lemma net_sign_sc num d : @net_sign R PO num (sc * d) = @net_sign R PO num d.
Proof. unfold net_sign. crush. Qed.

Lemma net_inner_sc x older : forall num,
  fold_left (fun acc o : R => @net_sign R PO acc (@ssub R PO (sc * x) o)) (scl older) num
  = fold_left (fun acc o : R => @net_sign R PO acc (@ssub R PO x o)) older num.
Proof.
  induction older as [|o older IH]; intros num; [reflexivity|].
  cbn [Pow2Base.scl map fold_left]. fold (scl older). rewrite IH. f_equal.
  opsimp. sc_rw. apply net_sign_sc.
Qed.

Lemma net_loop_sc rest : forall older num,
  @net_loop R PO (scl older) (scl rest) num = @net_loop R PO older rest num.
Proof.
  induction rest as [|x rest IH]; intros older num; [reflexivity|].
  cbn [Pow2Base.scl map net_loop]. fold (scl rest). rewrite net_inner_sc, (scl_single sc), <- scl_app. apply IH.
Qed.

Definition lo_f (st : list R * option R) : list R * option R := (scl (fst st), snd st).

Lemma net_step_sc n st v : @net_step R PO n (lo_f st) (sc * v) = rmap lo_f (@net_step R PO n st v).
Proof.
  destruct st as [q o]. unfold net_step, lo_f. cbn [fst snd]. sc_rw.
  destruct (Nat.ltb (length (evict n q ++ [v])) 2); [reflexivity|].
  change (@nil R) with (scl []) at 1. rewrite net_loop_sc.
  destruct (@sdiv R PO _ _); reflexivity.
Qed.

(** NET is bit-identical on the scaled history *)
Theorem net_scale_free n vs :
  cout (@net_core R PO n) (map (Rmult sc) vs) = cout (@net_core R PO n) vs.
Proof.
  rewrite <- (rmap_id (cout (@net_core R PO n) vs)).
  apply (cout_sim (@net_core R PO n) sc lo_f (fun o => o)).
  - reflexivity.
  - apply net_step_sc.
  - intros st. reflexivity.
Qed.

(** ** CTI *)
Definition sums_f (a : @cti_sums R) : @cti_sums R :=
  {| c_sx := sc * c_sx a; c_sy := c_sy a; c_sxx := sc * (sc * c_sxx a); c_sxy := sc * c_sxy a; c_syy := c_syy a |}.

Lemma cti_loop_sc q : forall i a, @cti_loop R PO (scl q) i (sums_f a) = sums_f (@cti_loop R PO q i a).
Proof.
  induction q as [|v q IH]; intros i a; [reflexivity|].
  cbn [Pow2Base.scl map cti_loop]. fold (scl q). rewrite <- IH. f_equal.
  destruct a as [sx sy sxx sxy syy]. unfold sums_f, ssq. cbn [c_sx c_sy c_sxx c_sxy c_syy]. crush.
Qed.

Lemma cti_last_sc n q : @cti_last R PO n (scl q) = @cti_last R PO n q.
Proof.
  unfold cti_last. cbv zeta.
  set (z := {| c_sx := @s0 R PO; c_sy := s0; c_sxx := s0; c_sxy := s0; c_syy := s0 |}).
  assert (Z : z = sums_f z).
  { unfold z, sums_f. cbn [c_sx c_sy c_sxx c_sxy c_syy]. opsimp. rewrite !sc_0. reflexivity. }
  assert (E : @cti_loop R PO (scl q) 0 z = sums_f (@cti_loop R PO q 0 z)) by (rewrite Z at 1; apply cti_loop_sc).
  rewrite E. clearbody z.
  destruct (@cti_loop R PO q 0 z) as [sx sy sxx sxy syy]. unfold sums_f, ssq. cbn [c_sx c_sy c_sxx c_sxy c_syy]. crush.
Qed.

(** CTI is bit-identical on the scaled history *)
Theorem cti_scale_free n vs :
  cout (@cti_core R PO n) (map (Rmult sc) vs) = cout (@cti_core R PO n) vs.
Proof.
  rewrite <- (rmap_id (cout (@cti_core R PO n) vs)).
  apply (cout_sim (@cti_core R PO n) sc (fun q : list R => scl q) (fun o => o)).
  - reflexivity.
  - intros q v. cbn [cstep cti_core]. unfold cti_step. crush.
  - intros q. rewrite rmap_id. apply cti_last_sc.
Qed.

End Views.
