(** C07 at f64 ("the documented ranges hold up to a few ulps of the bound itself, never by more"): for MyRSI,
    Rsi, HLNormalizer and NET the range holds EXACTLY at binary64 -- 0 ulps -- because rounding to nearest is
    monotone and the bounds (-1, 0, 1, 2, 100) are binary64 numbers.  Everything is proved at the primitive-float
    instance [FOps] from the IEEE semantics of the operations (Flocq's bridge), for every history.

    Main theorems (hypothesis [all_finite_out ffinite core fs = true] of SpecFRange.v: the INPUTS are finite and the
    ANSWER is finite; nothing is asked of the state or of intermediate results):
      [myrsi_range_f64]  MyRSI(n), any n:          answer in [-1, 1]
      [rsi_range_f64]    Rsi(n), 1 <= n < 2^53:    answer in [0, 100]
      [hln_range_f64]    HLNormalizer(n), any n:   answer in [-1, 1]
      [net_range_f64]    NET(n), n < 2^26:         answer in [-1, 1]
    Stronger forms (proved in Proofs/FRange{My,Rsi,Hln,Net}.v):
      [myrsi_range_f64_nan], [rsi_range_f64_nan]: finite inputs; the answer is NaN or in range (it can be NaN only
         when a sum over the window overflowed: [myrsi_nan_ex], [rsi_nan_ex]);
      [hln_range_f64_fin]: finite inputs, finite answer (+infinity is possible: [hln_inf_ex]);
      [net_range_f64_any]: NO hypothesis on the stream at all -- the answer is always finite and in range.
    Core arithmetic lemmas over floats: [ratio_range_f64] (below), [rsi_tail], [hln_ratio_range], [net_answer];
    operations with overflow: [add_spec], [sub_spec], [div_spec] (Proofs/FRangeBase.v). *)
From Coq Require Import List Arith Lia Reals Lra ZArith QArith Floats Bool.
From SF Require Import Res Scalar View Models Core Spec FloatOps SpecBridge SpecFRange.
From SF.Proofs Require Import FltErr FltBridge Flt2P Flt2B64 Flt2Prim BridgeOps BridgeSim
  FRangeBase FRangeMy FRangeRsi FRangeHln FRangeNet.
Import ListNotations.

Local Notation F := PrimFloat.float.

(** * The four theorems, in one place *)
Theorem C07_f64_exact_ranges :
  (forall n fs v, all_finite_out ffinite (@myrsi_core F FOps n) fs = true ->
     cout (@myrsi_core F FOps n) fs = Ok (Some v) -> PrimFloat.leb (-1) v && PrimFloat.leb v 1 = true) /\
  (forall n fs v, (1 <= n)%nat -> (Z.of_nat n < 2 ^ 53)%Z -> all_finite_out ffinite (@rsi_core F FOps n) fs = true ->
     cout (@rsi_core F FOps n) fs = Ok (Some v) -> PrimFloat.leb 0 v && PrimFloat.leb v 100 = true) /\
  (forall n fs v, all_finite_out ffinite (@hln_core F FOps n) fs = true ->
     cout (@hln_core F FOps n) fs = Ok (Some v) -> PrimFloat.leb (-1) v && PrimFloat.leb v 1 = true) /\
  (forall n fs v, (Z.of_nat n < 2 ^ 26)%Z -> all_finite_out ffinite (@net_core F FOps n) fs = true ->
     cout (@net_core F FOps n) fs = Ok (Some v) -> PrimFloat.leb (-1) v && PrimFloat.leb v 1 = true).
Proof.
  split; [exact myrsi_range_f64|]. split; [exact rsi_range_f64|]. split; [exact hln_range_f64 | exact net_range_f64].
Qed.

(** the conclusions are the executable range predicates of SpecFRange.v at [FOps] *)
Lemma myrsi_rangeb_f64 v : @myrsi_rangeb F FOps v = PrimFloat.leb (-1) v && PrimFloat.leb v 1.
Proof. reflexivity. Qed.
Lemma rsi_rangeb_f64 v : @rsi_rangeb F FOps v = PrimFloat.leb 0 v && PrimFloat.leb v 100.
Proof. reflexivity. Qed.
Lemma hln_rangeb_f64 v : @hln_rangeb F FOps v = PrimFloat.leb (-1) v && PrimFloat.leb v 1.
Proof. reflexivity. Qed.
Lemma net_rangeb_f64 v : @net_rangeb F FOps v = PrimFloat.leb (-1) v && PrimFloat.leb v 1.
Proof. reflexivity. Qed.

(** * The core arithmetic lemma of MyRSI, stated on floats only: for finite a, b >= 0 with a + b != 0 the computed
      (a - b) / (a + b) is in [-1, 1] -- also when a + b overflows *)
Theorem ratio_range_f64 (a b : F) : ffinite a = true -> ffinite b = true ->
  PrimFloat.leb 0 a = true -> PrimFloat.leb 0 b = true -> PrimFloat.eqb (a + b) 0 = false ->
  PrimFloat.leb (-1) ((a - b) / (a + b)) && PrimFloat.leb ((a - b) / (a + b)) 1 = true.
Proof.
  intros Fa Fb Ha Hb Hne.
  assert (Pa : (0 <= f2r a)%R).
  { change (PrimFloat.leb PrimFloat.zero a = true) in Ha.
    rewrite (prim_leb_real _ _ (proj1 prim_zero_fin) Fa), (proj2 prim_zero_fin) in Ha. apply Rleb_true. exact Ha. }
  assert (Pb : (0 <= f2r b)%R).
  { change (PrimFloat.leb PrimFloat.zero b = true) in Hb.
    rewrite (prim_leb_real _ _ (proj1 prim_zero_fin) Fb), (proj2 prim_zero_fin) in Hb. apply Rleb_true. exact Hb. }
  destruct (my_ratio_fin a b Fa Pa Fb Pb Hne) as [Fo Ho].
  apply (range_real (-1)%float PrimFloat.one); try apply f2r_m1; try apply prim_one_fin; [exact Fo|].
  rewrite (proj2 f2r_m1), (proj2 prim_one_fin). exact Ho.
Qed.

(** * [all_finite_out] is implied by the run checker [all_finite_run] of SpecBridge.v (whatever state predicate
      is used, provided it forces the inputs to be finite): the theorems above need LESS than that checker *)
Lemma all_finite_run_out {A} (finb : A -> bool) (c : core A) (sfin : cst c -> bool) fs :
  (forall s v s', cstep c s v = Ok s' -> sfin s' = true -> finb v = true) ->
  all_finite_run finb c sfin fs = true -> all_finite_out finb c fs = true.
Proof.
  intros Hstep H. unfold all_finite_out. apply andb_true_iff. split.
  - apply forallb_forall. intros x Hx.
    pose proof (all_finite_run_inputs A finb c sfin Hstep fs H) as Hall.
    exact (proj1 (Forall_forall _ _) Hall x Hx).
  - destruct (all_finite_run_cout finb c sfin fs H) as (s & o & _ & _ & Ec & Ho). rewrite Ec. exact Ho.
Qed.

(** * The hypotheses and conclusions are executable at Q as well (there every value is "finite") *)
Example spec_at_Q :
  @all_finite_out Q (fun _ => true) (@myrsi_core Q QOps 3) [1; 3; 2; 5; 4]%Q = true /\
  match cout (@myrsi_core Q QOps 3) [1; 3; 2; 5; 4]%Q with Ok (Some v) => @myrsi_rangeb Q QOps v | _ => false end = true /\
  match cout (@rsi_core Q QOps 3) [1; 3; 2; 5; 4]%Q with Ok (Some v) => @rsi_rangeb Q QOps v | _ => false end = true /\
  match cout (@hln_core Q QOps 3) [1; 3; 2; 5; 4]%Q with Ok (Some v) => @hln_rangeb Q QOps v | _ => false end = true /\
  match cout (@net_core Q QOps 3) [1; 3; 2; 5; 4]%Q with Ok (Some v) => @net_rangeb Q QOps v | _ => false end = true.
Proof. vm_compute. repeat split. Qed.

Local Set Warnings "-inexact-float".
Example ratio_range_f64_ex :   (* hypotheses satisfiable; here a + b overflows and the quotient is +0 *)
  ffinite 0x1.8p1023%float = true /\ ffinite 0x1p1023%float = true /\
  PrimFloat.leb 0 0x1.8p1023 = true /\ PrimFloat.leb 0 0x1p1023 = true /\
  PrimFloat.eqb (0x1.8p1023 + 0x1p1023) 0 = false /\
  ((0x1.8p1023 + 0x1p1023 = PrimFloat.infinity) /\ (0x1.8p1023 - 0x1p1023) / (0x1.8p1023 + 0x1p1023) = 0)%float.
Proof. vm_compute. repeat split. Qed.

Print Assumptions C07_f64_exact_ranges.
Print Assumptions myrsi_range_f64_nan.
Print Assumptions rsi_range_f64_nan.
Print Assumptions hln_range_f64_fin.
Print Assumptions net_range_f64_any.
Print Assumptions ratio_range_f64.
