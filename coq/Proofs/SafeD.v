(** C15/C08 for super_smoother, roofing_filter, trend_flex, re_flex, cyber_cycle. *)
From Coq Require Import List Arith Lia Reals Lra ZArith.
From SF Require Import Res Scalar View Models Spec Core.
From SF.Proofs Require Import Window RBase SafeBase SafeTac.
Import ListNotations.
Open Scope R_scope.

(* ---------------------------------------------------------------- ss *)
Lemma ss_coefs_ok n : (1 <= n)%nat -> exists k, @ss_coefs R ROps n = Ok k.
Proof.
  intros Hn. unfold ss_coefs.
  rewrite sdiv_R_ok by (apply INR_pos_neq; lia). cbn [bind].
  change (@sexp R ROps) with (fun x : R => Ok (exp x)). cbn beta. cbn [bind].
  rewrite sdiv_R_ok by (apply INR_pos_neq; lia). cbn [bind].
  change (@scos R ROps) with (fun x : R => Ok (cos x)). cbn beta. cbn [bind].
  eexists. reflexivity.
Qed.

Lemma ss_step_ok (c : @ss_coef R) (s : @ss_st R) v :
  exists s', @ss_step R ROps c s v = Ok s' /\ ss_i s' = S (ss_i s).
Proof.
  unfold ss_step. rewrite sdiv_R_ok by exact s2_neq0. cbn [bind].
  eexists. split; [reflexivity|]. reflexivity.
Qed.

Definition ss_I (n k : nat) (s : @ss_coef R * @ss_st R) : Prop := ss_i (snd s) = k.

Lemma ss_safe n : (1 <= n)%nat -> Safe (@ss_core R ROps n) (fun _ => True) (ss_I n).
Proof.
  intros Hn. constructor.
  - destruct (ss_coefs_ok n Hn) as [c Hc]. cbn [cnew ss_core]. rewrite Hc. cbn [bind].
    eexists. split; [reflexivity|]. reflexivity.
  - intros k s v Hi _. unfold ss_I in *. cbn [cstep ss_core].
    destruct (ss_step_ok (fst s) (snd s) v) as [s' [Hs Hk]]. rewrite Hs. cbn [bind].
    eexists. split; [reflexivity|]. cbn [snd]. lia.
  - intros k s Hi. cbn [clast ss_core]. unfold ss_lastf.
    destruct (Nat.ltb (ss_i (snd s)) n); eauto.
Qed.

Lemma ss_ready n : (1 <= n)%nat -> ReadyAt (@ss_core R ROps n) (ss_I n) n.
Proof.
  intros Hn k s Hi. unfold ss_I in Hi. cbn [clast ss_core]. unfold ss_lastf. split; intros Hk.
  - destruct (Nat.ltb_spec (ss_i (snd s)) n) as [H|H]; [reflexivity|lia].
  - destruct (Nat.ltb_spec (ss_i (snd s)) n) as [H|H]; [lia|]. eauto.
Qed.

(** C15 SuperSmoother *)
Theorem safe_ss n vs : (1 <= n)%nat ->
  exists s o, crun (@ss_core R ROps n) vs = Ok s /\ clast (@ss_core R ROps n) s = Ok o.
Proof. intros Hn. apply (safe_run (ss_safe n Hn)). apply trueD. Qed.
(** C08 SuperSmoother *)
Theorem ready_mono_ss n : (1 <= n)%nat ->
  CReadyMono (@ss_core R ROps n) (fun _ => True) (InvOf (@ss_core R ROps n) (ss_I n)).
Proof. intros Hn. exact (ready_at_mono (ss_safe n Hn) (ss_ready n Hn)). Qed.
Theorem warmup_ss n vs : (1 <= n)%nat ->
  (cout (@ss_core R ROps n) vs = Ok None <-> (length vs < n)%nat).
Proof. intros Hn. apply (warmup_none (ss_safe n Hn) (ss_ready n Hn)). apply trueD. Qed.

(* ---------------------------------------------------------------- roofing *)
Lemma sofdec_44422_4 : @sofdec R ROps 44422 4 = 44422 / 10000.
Proof. cbn. lra. Qed.

Lemma rf_cos_neq0 n : (2 <= n)%nat -> cos (@sofdec R ROps 44422 4 / INR n) <> 0.
Proof.
  intros Hn. rewrite sofdec_44422_4.
  destruct (Nat.eq_dec n 2) as [E|E].
  - subst n. replace (INR 2) with 2 by (cbn; lra).
    assert (H : cos (44422 / 10000 / 2) < 0).
    { pose proof PI_4. pose proof PI2_3_2. apply cos_lt_0; lra. }
    lra.
  - assert (H3 : 3 <= INR n).
    { replace 3 with (INR 3) by (cbn; lra). apply le_INR. lia. }
    set (x := INR n) in *. clearbody x.
    assert (Hth : 0 < 44422 / 10000 / x) by (apply Rdiv_lt_0_compat; lra).
    assert (Hle : 44422 / 10000 / x <= 14808 / 10000).
    { apply (Rmult_le_reg_r x); [lra|]. unfold Rdiv at 1. rewrite Rmult_assoc, Rinv_l by lra. nra. }
    assert (Hpi : 14808 / 10000 < PI / 2) by (pose proof PI2_3_2; lra).
    assert (Hc : 0 < cos (44422 / 10000 / x)) by (apply cos_gt_0; lra).
    lra.
Qed.

Lemma rf_alpha_ok n : (2 <= n)%nat -> exists al, @rf_alpha R ROps n = Ok al.
Proof.
  intros Hn. unfold rf_alpha.
  rewrite sdiv_R_ok by (apply INR_pos_neq; lia). cbn [bind].
  change (@scos R ROps) with (fun x : R => Ok (cos x)). cbn beta. cbn [bind].
  change (@ssin R ROps) with (fun x : R => Ok (sin x)). cbn beta. cbn [bind].
  rewrite sdiv_R_ok by (apply rf_cos_neq0; exact Hn). eauto.
Qed.

Definition roofing_I (n m k : nat) (s : R * @ss_coef R * @rf_st R) : Prop :=
  rf_i (snd s) = k /\ ss_i (rf_ss (snd s)) = (k - (n + 1))%nat.

Lemma rf_step_ok n al (c : @ss_coef R) (st : @rf_st R) v :
  exists st', @rf_step R ROps n al c st v = Ok st' /\ rf_i st' = S (rf_i st) /\
    ss_i (rf_ss st') = if Nat.ltb n (rf_i st) then S (ss_i (rf_ss st)) else ss_i (rf_ss st).
Proof.
  unfold rf_step. rewrite sdiv_R_ok by exact s2_neq0. cbn [bind].
  destruct (Nat.ltb n (rf_i st)).
  - match goal with |- context [@ss_step R ROps c (rf_ss st) ?hp] =>
      destruct (ss_step_ok c (rf_ss st) hp) as [s' [Hs Hk]]; rewrite Hs end.
    cbn [bind]. eexists. split; [reflexivity|]. cbn [rf_i rf_ss]. auto.
  - cbn [bind]. eexists. split; [reflexivity|]. cbn [rf_i rf_ss]. auto.
Qed.

Lemma roofing_safe n m : (2 <= n)%nat -> (1 <= m)%nat ->
  Safe (@roofing_core R ROps n m) (fun _ => True) (roofing_I n m).
Proof.
  intros Hn Hm. constructor.
  - cbn [cnew roofing_core].
    destruct (Nat.leb_spec 2 n) as [_|H]; [|lia]. cbn [assert bind].
    destruct (rf_alpha_ok n Hn) as [al Hal]. rewrite Hal. cbn [bind].
    destruct (ss_coefs_ok m Hm) as [c Hc]. rewrite Hc. cbn [bind].
    eexists. split; [reflexivity|]. split; reflexivity.
  - intros k s v [Hi Hj] _. destruct s as [[al c] st]. cbn [snd] in Hi, Hj. cbn [cstep roofing_core].
    destruct (rf_step_ok n al c st v) as [st' [Hs [Hk Hss]]]. rewrite Hs. cbn [bind].
    eexists. split; [reflexivity|]. unfold roofing_I. cbn [snd]. split; [lia|].
    rewrite Hss. destruct (Nat.ltb_spec n (rf_i st)); lia.
  - intros k s Hi. cbn [clast roofing_core]. unfold ss_lastf.
    destruct (Nat.ltb (ss_i (rf_ss (snd s))) m); eauto.
Qed.

Lemma roofing_ready n m : (2 <= n)%nat -> (1 <= m)%nat ->
  ReadyAt (@roofing_core R ROps n m) (roofing_I n m) (n + m + 1).
Proof.
  intros Hn Hm k s [Hi Hj]. cbn [clast roofing_core]. unfold ss_lastf. split; intros Hk.
  - destruct (Nat.ltb_spec (ss_i (rf_ss (snd s))) m) as [H|H]; [reflexivity|lia].
  - destruct (Nat.ltb_spec (ss_i (rf_ss (snd s))) m) as [H|H]; [lia|]. eauto.
Qed.

(** C15 RoofingFilter *)
Theorem safe_roofing n m vs : (2 <= n)%nat -> (1 <= m)%nat ->
  exists s o, crun (@roofing_core R ROps n m) vs = Ok s /\ clast (@roofing_core R ROps n m) s = Ok o.
Proof. intros Hn Hm. apply (safe_run (roofing_safe n m Hn Hm)). apply trueD. Qed.
(** C08 RoofingFilter *)
Theorem ready_mono_roofing n m : (2 <= n)%nat -> (1 <= m)%nat ->
  CReadyMono (@roofing_core R ROps n m) (fun _ => True) (InvOf (@roofing_core R ROps n m) (roofing_I n m)).
Proof. intros Hn Hm. exact (ready_at_mono (roofing_safe n m Hn Hm) (roofing_ready n m Hn Hm)). Qed.
Theorem warmup_roofing n m vs : (2 <= n)%nat -> (1 <= m)%nat ->
  (cout (@roofing_core R ROps n m) vs = Ok None <-> (length vs < n + m + 1)%nat).
Proof. intros Hn Hm. apply (warmup_none (roofing_safe n m Hn Hm) (roofing_ready n m Hn Hm)). apply trueD. Qed.
Lemma new_rejects_roofing n m : (n <= 1)%nat -> @cnew R (@roofing_core R ROps n m) = Err AssertFailed.
Proof.
  intros Hn. cbn [cnew roofing_core]. destruct (Nat.leb_spec 2 n) as [H|H]; [lia|]. reflexivity.
Qed.

(* ---------------------------------------------------------------- trendflex / reflex *)
Lemma flex_coefs_ok n : (1 <= n)%nat -> exists c1 b1 c3, @flex_coefs R ROps n = Ok (c1, b1, c3).
Proof.
  intros Hn. unfold flex_coefs.
  rewrite sdiv_R_ok by (apply INR_pos_neq; lia). cbn [bind].
  change (@sexp R ROps) with (fun x : R => Ok (exp x)). cbn beta. cbn [bind].
  rewrite sdiv_R_ok by (apply INR_pos_neq; lia). cbn [bind].
  change (@scos R ROps) with (fun x : R => Ok (cos x)). cbn beta. cbn [bind].
  do 3 eexists. reflexivity.
Qed.

Lemma flex_filt_ok c1 b1 c3 (q : list R) v lv : exists f, @flex_filt R ROps c1 b1 c3 q v lv = Ok f.
Proof.
  unfold flex_filt. rewrite sdiv_R_ok by exact s2_neq0. cbn [bind].
  destruct (rev q) as [|f1 [|f2 r]]; eauto.
Qed.

Lemma flex_norm_ok (s : @flex_st R) q v d b : exists s', @flex_norm R ROps s q v d b = Ok s' /\
  (b = false -> exists y, fx_out s' = Some y) /\
  (forall x, fx_out s = Some x -> exists y, fx_out s' = Some y).
Proof.
  unfold flex_norm. cbv zeta.
  match goal with |- context [@sgtb R ROps ?m _] => generalize m end. intros ms0.
  unfold sgtb. cbn [sltb s0 ROps].
  destruct (Rltb 0 ms0) eqn:E; [apply Rltb_true in E | apply Rltb_false in E].
  - cbn [ssqrt ROps]. destruct (Rlt_dec ms0 0) as [H|_]; [lra|]. cbn [bind].
    rewrite sdiv_R_ok by (pose proof (sqrt_lt_R0 ms0 E); lra). cbn [bind].
    eexists. split; [reflexivity|]. cbn [fx_out]. split; eauto.
  - eexists. split; [reflexivity|]. cbn [fx_out]. split.
    + intros ->. eauto.
    + intros x Hx. destruct b; eauto.
Qed.

Lemma trendflex_step_ok n (s : @flex_st R) v : (1 <= n)%nat ->
  exists s', @trendflex_step R ROps n s v = Ok s' /\ exists y, fx_out s' = Some y.
Proof.
  intros Hn. unfold trendflex_step. cbv zeta.
  destruct (flex_coefs_ok n Hn) as [c1 [b1 [c3 Hc]]]. rewrite Hc. cbn [bind].
  match goal with |- context [@flex_filt R ROps c1 b1 c3 ?q v ?lv] =>
    destruct (flex_filt_ok c1 b1 c3 q v lv) as [f Hf]; rewrite Hf end. cbn [bind].
  rewrite sdiv_R_ok by (apply INR_pos_neq; lia). cbn [bind].
  match goal with |- context [@flex_norm R ROps s ?q v ?d false] =>
    destruct (flex_norm_ok s q v d false) as [s' [Hs [Ho _]]] end.
  exists s'. split; [exact Hs|]. apply Ho. reflexivity.
Qed.

Lemma reflex_step_ok n (s : @flex_st R) v : (1 <= n)%nat ->
  exists s', @reflex_step R ROps n s v = Ok s' /\
    (forall x, fx_out s = Some x -> exists y, fx_out s' = Some y).
Proof.
  intros Hn. unfold reflex_step. cbv zeta.
  destruct (flex_coefs_ok n Hn) as [c1 [b1 [c3 Hc]]]. rewrite Hc. cbn [bind].
  match goal with |- context [@flex_filt R ROps c1 b1 c3 ?q v ?lv] =>
    destruct (flex_filt_ok c1 b1 c3 q v lv) as [f Hf]; rewrite Hf end. cbn [bind].
  assert (Hfr : exists fr, front (evict n (fx_q s) ++ [f]) = Ok fr).
  { destruct (evict n (fx_q s)); cbn [app front]; eauto. }
  destruct Hfr as [fr Hfr]. rewrite Hfr. cbn [bind].
  rewrite sdiv_R_ok by (apply INR_pos_neq; lia). cbn [bind].
  rewrite sdiv_R_ok by (apply INR_pos_neq; lia). cbn [bind].
  match goal with |- context [@flex_norm R ROps s ?q v ?d true] =>
    destruct (flex_norm_ok s q v d true) as [s' [Hs [_ Ho]]] end.
  exists s'. split; [exact Hs|exact Ho].
Qed.

Definition trendflex_I (n k : nat) (s : @flex_st R) : Prop :=
  match k with 0%nat => fx_out s = None | _ => exists y, fx_out s = Some y end.

Lemma trendflex_safe n : (1 <= n)%nat -> Safe (@trendflex_core R ROps n) (fun _ => True) (trendflex_I n).
Proof.
  intros Hn. constructor.
  - eexists. split; [reflexivity|]. reflexivity.
  - intros k s v _ _. cbn [cstep trendflex_core].
    destruct (trendflex_step_ok n s v Hn) as [s' [Hs Ho]]. exists s'. split; [exact Hs|exact Ho].
  - intros k s _. cbn [clast trendflex_core]. eauto.
Qed.

Lemma trendflex_ready n : (1 <= n)%nat -> ReadyAt (@trendflex_core R ROps n) (trendflex_I n) 1.
Proof.
  intros Hn k s Hi. cbn [clast trendflex_core]. split; intros Hk.
  - destruct k; [|lia]. cbn in Hi. rewrite Hi. reflexivity.
  - destruct k; [lia|]. cbn in Hi. destruct Hi as [y Hy]. rewrite Hy. eauto.
Qed.

(** C15 TrendFlex *)
Theorem safe_trendflex n vs : (1 <= n)%nat ->
  exists s o, crun (@trendflex_core R ROps n) vs = Ok s /\ clast (@trendflex_core R ROps n) s = Ok o.
Proof. intros Hn. apply (safe_run (trendflex_safe n Hn)). apply trueD. Qed.
(** C08 TrendFlex *)
Theorem ready_mono_trendflex n : (1 <= n)%nat ->
  CReadyMono (@trendflex_core R ROps n) (fun _ => True) (InvOf (@trendflex_core R ROps n) (trendflex_I n)).
Proof. intros Hn. exact (ready_at_mono (trendflex_safe n Hn) (trendflex_ready n Hn)). Qed.
Theorem warmup_trendflex n vs : (1 <= n)%nat ->
  (cout (@trendflex_core R ROps n) vs = Ok None <-> (length vs < 1)%nat).
Proof. intros Hn. apply (warmup_none (trendflex_safe n Hn) (trendflex_ready n Hn)). apply trueD. Qed.

Definition reflex_I (n k : nat) (s : @flex_st R) : Prop := True.

Lemma reflex_safe n : (1 <= n)%nat -> Safe (@reflex_core R ROps n) (fun _ => True) (reflex_I n).
Proof.
  intros Hn. constructor.
  - eexists. split; [reflexivity|]. exact Logic.I.
  - intros k s v _ _. cbn [cstep reflex_core].
    destruct (reflex_step_ok n s v Hn) as [s' [Hs _]]. exists s'. split; [exact Hs|exact Logic.I].
  - intros k s _. cbn [clast reflex_core]. eauto.
Qed.

Lemma reflex_keeps_ready n : (1 <= n)%nat -> KeepsReady (@reflex_core R ROps n).
Proof.
  intros Hn s v s' x Hl Hs. cbn [clast reflex_core cstep] in *. inversion Hl as [Hx].
  destruct (reflex_step_ok n s v Hn) as [s1 [Hs1 Ho]]. rewrite Hs in Hs1. inversion Hs1; subst s1.
  destruct (Ho x Hx) as [y Hy]. exists y. rewrite Hy. reflexivity.
Qed.

(** C15 ReFlex *)
Theorem safe_reflex n vs : (1 <= n)%nat ->
  exists s o, crun (@reflex_core R ROps n) vs = Ok s /\ clast (@reflex_core R ROps n) s = Ok o.
Proof. intros Hn. apply (safe_run (reflex_safe n Hn)). apply trueD. Qed.
(** C08 ReFlex *)
Theorem ready_mono_reflex n : (1 <= n)%nat ->
  CReadyMono (@reflex_core R ROps n) (fun _ => True) (InvOf (@reflex_core R ROps n) (reflex_I n)).
Proof. intros Hn. apply keeps_ready_mono. exact (reflex_keeps_ready n Hn). Qed.

(* ---------------------------------------------------------------- cyber *)
Lemma getq_ok {A} (q : list A) i : (i < length q)%nat -> exists x, getq q i = Ok x.
Proof.
  intros H. unfold getq. destruct (nth_error q i) as [x|] eqn:E; [eauto|].
  apply nth_error_None in E. lia.
Qed.
Lemma usub_ok a b : (b <= a)%nat -> usub a b = Ok (a - b)%nat.
Proof. intros H. unfold usub. destruct (Nat.ltb_spec a b); [lia|reflexivity]. Qed.

Lemma cc_smooth_ok (vals : list R) i : (i < length vals)%nat -> exists y, @cc_smooth R ROps vals i = Ok y.
Proof.
  intros H. unfold cc_smooth. destruct (Nat.ltb_spec i 3) as [H3|H3]; [eauto|].
  destruct (getq_ok vals i H) as [a Ha]. rewrite Ha. cbn [bind].
  destruct (getq_ok vals (i - 1)) as [b Hb]; [lia|]. rewrite Hb. cbn [bind].
  destruct (getq_ok vals (i - 2)) as [c Hc]; [lia|]. rewrite Hc. cbn [bind].
  destruct (getq_ok vals (i - 3)) as [d Hd]; [lia|]. rewrite Hd. cbn [bind].
  rewrite sdiv_R_ok by exact s6_neq0. eauto.
Qed.

Lemma cc_step_ok n alpha (s : @cc_st R) v k : (3 <= n)%nat ->
  length (cc_vals s) = Nat.min n k -> length (cc_out s) = Nat.min n k ->
  exists s', @cc_step R ROps n alpha s v = Ok s' /\
    length (cc_vals s') = Nat.min n (S k) /\ length (cc_out s') = Nat.min n (S k) /\
    exists y, last_opt (cc_out s') = Some y.
Proof.
  intros Hn Hv Ho. unfold cc_step.
  assert (Hp : exists vals out,
    (if Nat.leb n (length (cc_vals s)) then (tl (cc_vals s), tl (cc_out s)) else (cc_vals s, cc_out s))
      = (vals, out) /\ length vals = Nat.min (n - 1) k /\ length out = Nat.min (n - 1) k).
  { destruct (Nat.leb_spec n (length (cc_vals s))) as [Hf|Hf].
    - exists (tl (cc_vals s)), (tl (cc_out s)). split; [reflexivity|].
      destruct (cc_vals s) as [|a va]; [cbn in *; lia|]. destruct (cc_out s) as [|b ou]; [cbn in *; lia|].
      cbn [tl length] in *. lia.
    - exists (cc_vals s), (cc_out s). split; [reflexivity|]. lia. }
  destruct Hp as [vals [out [Hp [Hlv Hlo]]]]. rewrite Hp. cbv zeta.
  assert (Hl : length (vals ++ [v]) = Nat.min n (S k)) by (rewrite app_length; cbn [length]; lia).
  destruct (Nat.ltb_spec (length (vals ++ [v])) n) as [Hlt|Hge].
  - eexists. split; [reflexivity|]. cbn [cc_vals cc_out]. split; [exact Hl|]. split.
    + rewrite app_length. cbn [length]. lia.
    + eexists. apply last_opt_snoc.
  - assert (Hln : length (vals ++ [v]) = n) by lia. rewrite Hln.
    assert (Hon : length out = (n - 1)%nat) by lia.
    rewrite (usub_ok n 1) by lia. cbn [bind].
    destruct (Nat.ltb_spec (n - 1) n) as [_|H]; [|lia]. cbn [bind].
    destruct (cc_smooth_ok (vals ++ [v]) (n - 1)) as [sm0 H0]; [lia|]. rewrite H0. cbn [bind].
    rewrite (usub_ok (n - 1) 1) by lia. cbn [bind].
    destruct (cc_smooth_ok (vals ++ [v]) (n - 1 - 1)) as [sm1 H1]; [lia|]. rewrite H1. cbn [bind].
    rewrite (usub_ok (n - 1) 2) by lia. cbn [bind].
    destruct (cc_smooth_ok (vals ++ [v]) (n - 1 - 2)) as [sm2 H2]; [lia|]. rewrite H2. cbn [bind].
    destruct (getq_ok out (n - 1 - 1)) as [o1 Ho1]; [lia|]. rewrite Ho1. cbn [bind].
    destruct (getq_ok out (n - 1 - 2)) as [o2 Ho2]; [lia|]. rewrite Ho2. cbn [bind].
    eexists. split; [reflexivity|]. cbn [cc_vals cc_out]. split; [lia|]. split.
    + rewrite app_length. cbn [length]. lia.
    + eexists. apply last_opt_snoc.
Qed.

Definition cyber_I (n k : nat) (s : R * @cc_st R) : Prop :=
  length (cc_vals (snd s)) = Nat.min n k /\ length (cc_out (snd s)) = Nat.min n k.

Lemma cyber_safe n : (3 <= n)%nat -> Safe (@cyber_core R ROps n) (fun _ => True) (cyber_I n).
Proof.
  intros Hn. constructor.
  - cbn [cnew cyber_core]. destruct (Nat.leb_spec 3 n) as [_|H]; [|lia]. cbn [assert bind].
    rewrite sdiv_R_ok by (change (INR n + 1 <> 0); apply INR_plus1_neq0). cbn [bind].
    eexists. split; [reflexivity|]. unfold cyber_I. cbn. lia.
  - intros k s v [Hv Ho] _. cbn [cstep cyber_core].
    destruct (cc_step_ok n (fst s) (snd s) v k Hn Hv Ho) as [s' [Hs [H1 [H2 _]]]]. rewrite Hs. cbn [bind].
    eexists. split; [reflexivity|]. split; assumption.
  - intros k s _. cbn [clast cyber_core]. eauto.
Qed.

Lemma cyber_ready n : (3 <= n)%nat -> ReadyAt (@cyber_core R ROps n) (cyber_I n) 1.
Proof.
  intros Hn k s [Hv Ho]. cbn [clast cyber_core]. split; intros Hk.
  - destruct (cc_out (snd s)) as [|a r]; [reflexivity|]. cbn [length] in Ho. lia.
  - destruct (last_opt_nonempty (cc_out (snd s))) as [y Hy].
    + intros E. rewrite E in Ho. cbn [length] in Ho. lia.
    + rewrite Hy. eauto.
Qed.

(** C15 CyberCycle *)
Theorem safe_cyber n vs : (3 <= n)%nat ->
  exists s o, crun (@cyber_core R ROps n) vs = Ok s /\ clast (@cyber_core R ROps n) s = Ok o.
Proof. intros Hn. apply (safe_run (cyber_safe n Hn)). apply trueD. Qed.
(** C08 CyberCycle *)
Theorem ready_mono_cyber n : (3 <= n)%nat ->
  CReadyMono (@cyber_core R ROps n) (fun _ => True) (InvOf (@cyber_core R ROps n) (cyber_I n)).
Proof. intros Hn. exact (ready_at_mono (cyber_safe n Hn) (cyber_ready n Hn)). Qed.
Theorem warmup_cyber n vs : (3 <= n)%nat ->
  (cout (@cyber_core R ROps n) vs = Ok None <-> (length vs < 1)%nat).
Proof. intros Hn. apply (warmup_none (cyber_safe n Hn) (cyber_ready n Hn)). apply trueD. Qed.
Lemma new_rejects_cyber n : (n <= 2)%nat -> @cnew R (@cyber_core R ROps n) = Err AssertFailed.
Proof.
  intros Hn. cbn [cnew cyber_core]. destruct (Nat.leb_spec 3 n) as [H|H]; [lia|]. reflexivity.
Qed.

(* ---------------------------------------------------------------- reflex has no warm-up threshold *)
(** On the all-zero history reflex never becomes ready ([ms0] stays 0), so no statement of the form
    [cout vs = Ok None <-> length vs < n0] holds for it. *)
Definition rx_zero (s : @flex_st R) : Prop :=
  fx_lastval s = 0 /\ fx_lastm s = 0 /\ Forall (eq 0) (fx_q s) /\ fx_out s = None.

Lemma flex_filt_zero c1 b1 c3 (q : list R) lv : lv = 0 -> Forall (eq 0) q ->
  @flex_filt R ROps c1 b1 c3 q 0 lv = Ok 0.
Proof.
  intros -> Hq. unfold flex_filt. rewrite sdiv_R_ok by exact s2_neq0. cbn [bind].
  apply Forall_rev in Hq. rewrite sofdec_2_0.
  destruct (rev q) as [|f1 [|f2 r]].
  - f_equal. cbn [sadd smul ROps]. lra.
  - inversion Hq; subst. f_equal. cbn [sadd smul ROps]. lra.
  - inversion Hq as [|? ? ? Hq']; subst. inversion Hq'; subst. f_equal. cbn [sadd smul ROps]. lra.
Qed.

Lemma reflex_sum_zero (l : list R) : forall i, Forall (eq 0) l -> @reflex_sum R ROps l i 0 0 0 = 0.
Proof.
  induction l as [|f r IH]; intros i Hl; cbn [reflex_sum]; [reflexivity|].
  inversion Hl; subst.
  replace (@sadd R ROps 0 (@ssub R ROps (@sadd R ROps 0 (@smul R ROps (@sofnat R ROps i) 0)) 0)) with 0
    by (cbn [sadd ssub smul ROps]; lra).
  apply IH. assumption.
Qed.

Lemma evict_zero n (q : list R) : Forall (eq 0) q -> Forall (eq 0) (evict n q).
Proof.
  intros H. unfold evict. destruct (Nat.leb n (length q)); [|exact H].
  destruct q; [exact H|]. inversion H; assumption.
Qed.

Lemma reflex_step_zero n (s : @flex_st R) : (1 <= n)%nat -> rx_zero s ->
  exists s', @reflex_step R ROps n s 0 = Ok s' /\ rx_zero s'.
Proof.
  intros Hn [Hlv [Hlm [Hq Ho]]]. unfold reflex_step. cbv zeta.
  destruct (flex_coefs_ok n Hn) as [c1 [b1 [c3 Hc]]]. rewrite Hc. cbn [bind].
  rewrite flex_filt_zero; [| destruct (fx_q s); auto | apply evict_zero; exact Hq ]. cbn [bind].
  assert (Hq' : Forall (eq 0) (evict n (fx_q s) ++ [0])).
  { apply Forall_app. split; [apply evict_zero; exact Hq | constructor; [reflexivity|constructor]]. }
  assert (Hfr : front (evict n (fx_q s) ++ [0]) = Ok 0).
  { destruct (evict n (fx_q s) ++ [0]) as [|a r] eqn:E.
    - destruct (evict n (fx_q s)); discriminate.
    - inversion Hq'; subst. reflexivity. }
  rewrite Hfr. cbn [bind].
  rewrite sdiv_R_ok by (apply INR_pos_neq; lia). cbn [bind].
  change (@sofnat R ROps n) with (INR n).
  replace (@ssub R ROps 0 0 / INR n) with 0 by (cbn [ssub ROps]; unfold Rdiv; lra).
  change (@s0 R ROps) with 0.
  rewrite reflex_sum_zero by (apply Forall_rev; exact Hq').
  rewrite sdiv_R_ok by (apply INR_pos_neq; lia). cbn [bind].
  replace (0 / INR n) with 0 by (unfold Rdiv; lra).
  unfold flex_norm. cbv zeta. rewrite Hlm.
  replace (@sadd R ROps (@smul R ROps (@sofdec R ROps 4 2) (@ssq R ROps 0)) (@smul R ROps (@sofdec R ROps 96 2) 0))
    with 0 by (unfold ssq; cbn [sadd smul ROps]; lra).
  unfold sgtb. cbn [sltb s0 ROps].
  destruct (Rltb 0 0) eqn:E; [apply Rltb_true in E; lra|].
  eexists. split; [reflexivity|]. unfold rx_zero. cbn [fx_lastval fx_lastm fx_q fx_out]. auto.
Qed.

Lemma reflex_zeros n t : (1 <= n)%nat -> cout (@reflex_core R ROps n) (repeat 0 t) = Ok None.
Proof.
  intros Hn.
  destruct (@crun_inv R (@reflex_core R ROps n) (fun v => v = 0) (fun _ s => rx_zero s) (@flex_new R ROps))
    with (vs := repeat 0 t) as [s [Hr Hz]].
  - reflexivity.
  - unfold rx_zero. cbn. auto.
  - intros h s v _ -> Hz. cbn [cstep reflex_core]. apply reflex_step_zero; assumption.
  - apply Forall_forall. intros x Hx. apply repeat_spec in Hx. exact Hx.
  - unfold cout. rewrite Hr. cbn [bind clast reflex_core]. destruct Hz as [_ [_ [_ Ho]]]. rewrite Ho. reflexivity.
Qed.

(** the threshold form of warm-up is false for ReFlex, whatever the threshold *)
Theorem warmup_reflex_refuted n n0 : (1 <= n)%nat ->
  ~ (forall vs, cout (@reflex_core R ROps n) vs = Ok None <-> (length vs < n0)%nat).
Proof.
  intros Hn H. destruct (H (repeat 0 n0)) as [H1 _].
  specialize (H1 (reflex_zeros n n0 Hn)). rewrite repeat_length in H1. lia.
Qed.
(** what does hold: nothing before the first value, and (C08) once ready always ready *)
Theorem warmup_reflex_nil n : cout (@reflex_core R ROps n) [] = Ok None.
Proof. reflexivity. Qed.

(* ---------------------------------------------------------------- the guards are satisfiable *)
Example ex_safe_ss : exists s o, crun (@ss_core R ROps 1) [1; 2] = Ok s /\ clast (@ss_core R ROps 1) s = Ok o.
Proof. apply safe_ss. lia. Qed.
Example ex_safe_roofing : exists s o,
  crun (@roofing_core R ROps 2 1) [1; 2] = Ok s /\ clast (@roofing_core R ROps 2 1) s = Ok o.
Proof. apply safe_roofing; lia. Qed.
Example ex_warmup_roofing : cout (@roofing_core R ROps 2 1) [1; 2; 3] = Ok None.
Proof. apply warmup_roofing; cbn; lia. Qed.
Example ex_safe_trendflex : exists s o,
  crun (@trendflex_core R ROps 1) [1; 2] = Ok s /\ clast (@trendflex_core R ROps 1) s = Ok o.
Proof. apply safe_trendflex. lia. Qed.
Example ex_safe_reflex : exists s o,
  crun (@reflex_core R ROps 1) [1; 2] = Ok s /\ clast (@reflex_core R ROps 1) s = Ok o.
Proof. apply safe_reflex. lia. Qed.
Example ex_safe_cyber : exists s o,
  crun (@cyber_core R ROps 3) [1; 2; 3; 4] = Ok s /\ clast (@cyber_core R ROps 3) s = Ok o.
Proof. apply safe_cyber. lia. Qed.

Print Assumptions safe_ss.
Print Assumptions warmup_ss.
Print Assumptions ready_mono_ss.
Print Assumptions safe_roofing.
Print Assumptions warmup_roofing.
Print Assumptions ready_mono_roofing.
Print Assumptions safe_trendflex.
Print Assumptions warmup_trendflex.
Print Assumptions ready_mono_trendflex.
Print Assumptions safe_reflex.
Print Assumptions ready_mono_reflex.
Print Assumptions warmup_reflex_refuted.
Print Assumptions safe_cyber.
Print Assumptions warmup_cyber.
Print Assumptions ready_mono_cyber.
