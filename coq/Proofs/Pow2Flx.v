(** C12, floating-point half: the hypothesis (H1) "rounding commutes with scaling by sc" of Pow2Base/Pow2Lin/
    Pow2Free/Pow2Sqrt/Pow2Lin2/Pow2Free2 holds for Flocq's FLX format (precision [prec], UNBOUNDED exponent range), any radix [beta],
    any rounding-to-integer function, and sc = beta^k for any k : Z -- in particular radix 2, round to nearest
    even, prec = 53, sc = 2^k.

    IEEE binary64 is the format FLT with emin = -1074, prec = 53 (see FltErr.v: [b64_exp = FLT_exp (-1074) 53]),
    plus overflow.  FLX with prec = 53 is its idealisation WITHOUT underflow and overflow: the two roundings
    coincide on every real x with 2^-1022 <= |x| (Flocq: [round_FLT_FLX]), and on 0.  So the [*_pow2_flx]
    theorems below describe binary64 runs in which no intermediate result (of the original and of the scaled
    run) is subnormal or overflows.  In the subnormal range scaling by 2^k does NOT commute with rounding
    (the scaled-down run loses bits), so no such theorem holds for FLT unconditionally. *)
From Coq Require Import List Arith Lia Reals Lra ZArith Bool.
From SF Require Import Res Scalar View Models Core.
From SF.Proofs Require Import FltErr Pow2Base.
From Flocq Require Import Core.
Import ListNotations.
Open Scope R_scope.

Section FLX.
Variable beta : radix.
Variable prec : Z.
Variable rndz : R -> Z.          (* rounding to an integer: ZnearestE, Zfloor, ... *)
Context {valid_rndz : Valid_rnd rndz}.   (* only used for round 0 = 0 *)

Lemma cexp_FLX_mult_bpow x k : x <> 0 ->
  cexp beta (FLX_exp prec) (bpow beta k * x) = (cexp beta (FLX_exp prec) x + k)%Z.
Proof.
  intros Hx. unfold cexp, FLX_exp. rewrite Rmult_comm, mag_mult_bpow by exact Hx. lia.
Qed.

(** (H1) for FLX: round (beta^k * x) = beta^k * round x, for every real x *)
Theorem round_FLX_mult_bpow k x :
  round beta (FLX_exp prec) rndz (bpow beta k * x) = bpow beta k * round beta (FLX_exp prec) rndz x.
Proof.
  destruct (Req_dec x 0) as [->|Hx].
  - rewrite Rmult_0_r, round_0 by exact valid_rndz. ring.
  - unfold round, scaled_mantissa. rewrite cexp_FLX_mult_bpow by exact Hx.
    set (e := cexp beta (FLX_exp prec) x).
    assert (Hm : bpow beta k * x * bpow beta (- (e + k)) = x * bpow beta (- e)).
    { replace (- (e + k))%Z with (- e + - k)%Z by lia. rewrite bpow_plus.
      replace (bpow beta k * x * (bpow beta (- e) * bpow beta (- k)))
        with (x * bpow beta (- e) * (bpow beta k * bpow beta (- k))) by ring.
      rewrite <- bpow_plus, Z.add_opp_diag_r. cbn [bpow]. ring. }
    rewrite Hm. unfold F2R. cbn [Fnum Fexp]. rewrite bpow_plus. ring.
Qed.
End FLX.

(* ------------------------------------------------------------------------------------------ *)
(** * The radix-2, round-to-nearest-even instance *)

(** rounding to precision [prec] in radix 2, ties to even, unbounded exponents *)
Definition flx_rnd (prec : Z) (x : R) : R := round radix2 (FLX_exp prec) ZnearestE x.

(** the scalar instance: every operation rounded; constants are the ROUNDED exact constants
    (T::from(usize), decimal literals), as in the implementation *)
Definition FlxOps (prec : Z) : Ops R :=
  RndOps (flx_rnd prec) (fun n => flx_rnd prec (INR n)) (fun m k => flx_rnd prec (IZR m / IZR (10 ^ Z.of_nat k))).

(** (H1) and (H2) for sc = 2^k *)
Lemma flx_rnd_pow2 prec k x : flx_rnd prec (bpow radix2 k * x) = bpow radix2 k * flx_rnd prec x.
Proof. unfold flx_rnd. apply round_FLX_mult_bpow. apply valid_rnd_N. Qed.
Lemma pow2_pos k : 0 < bpow radix2 k.
Proof. apply bpow_gt_0. Qed.

(** binary64 (FltErr.v: FLT, emin = -1074, prec = 53) rounds like FLX 53 on 0 and outside the subnormal range *)
Lemma b64_round_flx x : bpow radix2 (-1022) <= Rabs x -> b64_round x = flx_rnd 53 x.
Proof. intros Hx. unfold b64_round, b64_exp, flx_rnd. apply round_FLT_FLX. exact Hx. Qed.
Lemma b64_round_flx_0 : b64_round 0 = flx_rnd 53 0.
Proof. unfold b64_round, flx_rnd. rewrite !round_0 by apply valid_rnd_N. reflexivity. Qed.

(** ... and (H1) FAILS for binary64 itself in the subnormal range: halving the least subnormal *)
Theorem b64_round_not_pow2_invariant :
  b64_round (bpow radix2 (-1) * bpow radix2 (-1074)) <> bpow radix2 (-1) * b64_round (bpow radix2 (-1074)).
Proof.
  assert (Hv : Valid_exp b64_exp) by (apply FLT_exp_valid; exact b64_prec_gt_0).
  assert (Hf : b64_round (bpow radix2 (-1074)) = bpow radix2 (-1074)).
  { unfold b64_round. apply round_generic; [apply valid_rnd_N|]. apply generic_format_bpow. unfold b64_exp, FLT_exp. lia. }
  rewrite Hf, <- bpow_plus. change (-1 + -1074)%Z with (-1075)%Z. intros H.
  assert (Hg : generic_format radix2 b64_exp (bpow radix2 (-1075))).
  { rewrite <- H. unfold b64_round. apply generic_format_round; [exact Hv | apply valid_rnd_N]. }
  apply (generic_format_bpow_inv' radix2 b64_exp) in Hg. unfold b64_exp, FLT_exp in Hg. lia.
Qed.

