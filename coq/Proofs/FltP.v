(** Kernel-checked facts about the binary64 arithmetic of the model (the model at [FOps], which
    reproduces the Rust code at [f64] bit for bit -- see FloatExec.v and Proofs/FltCases.v).

    Rsi / MyRSI (D14, repaired in the code): the flat-window clause of C16 ("after a volatile stretch
    followed by >= N+1 identical values each view reports the exact flat-window answer") now HOLDS at
    f64 bit for bit, for every window length and every stream ([rsi_flat_f64], [myrsi_flat_f64]; proofs
    in Proofs/FltFlat.v from the IEEE semantics, not by computation).  The refutations of the old code
    (negative / infinite Rsi, MyRSI outside [-1,1]) are gone with it.

    Vsct / Vst: refutations of the floating-point clause of C16 and of the ulps clause of C07 ("the
    bounds hold up to a few ulps"), each with a concrete stream, proved by [vm_compute] over primitive
    floats.  For every witness the exact model ([QOps]) is run on the very same real numbers
    ([map q_of_f xs]) to exhibit the exact answer next to the f64 one, and a [_stuck] theorem shows that
    the wrong answer never goes away: it is reported after EVERY longer flat tail as well (the state is
    a fixed point of the update). *)
From Coq Require Import List Arith Lia ZArith QArith Floats Bool.
From SF Require Import Res Scalar View Models Core Spec FloatOps SpecFlt.
From SF.Proofs Require Import FltFlat.
Import ListNotations.
Local Set Warnings "-inexact-float".
Local Open Scope float_scope.

(** * A state that is a fixed point of the update under [x] stays: generic in the scalar *)
Section Fix.
Variable T : Type.

Lemma repeat_snoc (x : T) k : repeat x (S k) = repeat x k ++ [x].
Proof. induction k as [|k IH]; cbn; [reflexivity|]. cbn in IH. rewrite <- IH. reflexivity. Qed.

Lemma crun_fixpoint (c : core T) pre x s :
  crun c pre = Ok s -> cstep c s x = Ok s -> forall j, crun c (pre ++ repeat x j) = Ok s.
Proof.
  intros H0 Hs j. induction j as [|j IH].
  - cbn. rewrite app_nil_r. exact H0.
  - rewrite repeat_snoc, app_assoc, crun_snoc, IH. cbn. exact Hs.
Qed.

(** once the state after [pre ++ k0 copies of x] is a fixed point, the answer after any longer tail
    is the same *)
Lemma cout_fixpoint (c : core T) pre x k0 s o :
  crun c (pre ++ repeat x k0) = Ok s -> cstep c s x = Ok s -> clast c s = Ok o ->
  forall k, (k0 <= k)%nat -> cout c (pre ++ repeat x k) = Ok o.
Proof.
  intros H0 Hs Ho k Hk. replace k with (k0 + (k - k0))%nat by lia.
  rewrite repeat_app, app_assoc. unfold cout.
  rewrite (crun_fixpoint c (pre ++ repeat x k0) x s H0 Hs). cbn. exact Ho.
Qed.
End Fix.

(** finishing tactic: exhibit the fixed-point state by computation *)
Ltac stuck k0 :=
  intros k Hk;
  eapply (@cout_fixpoint _ _ _ _ k0);
  [ vm_compute; reflexivity | vm_compute; reflexivity | vm_compute; reflexivity | exact Hk ].

(* ------------------------------------------------------------------------------------------ Rsi *)

(** D14 (repaired in the code).  The old code kept running averages of the gains and losses, adding the
    newest change and subtracting the one that left the window; after a 1e6 spike a rounding residue
    stayed in them for ever: Rsi(3) on the stream below answered -0.00104... (exact: 100) after every flat
    tail, Rsi(2) on [rsi_inf_pre] followed by -308.6 answered -infinity, MyRSI(3) on [my_pre] followed
    by 5.1 answered 2.9999... (exact: the held value 1).  The sums are now recomputed from the window on
    every update, so nothing of a value survives once it has left the window.  What follows is proved for
    ALL streams from the IEEE semantics of the primitive operations (Proofs/FltFlat.v), not by running
    a stream. *)
Definition rsi_pre : list float := [1e6; 8.13; 3.461; 5.401; 3.311].
Definition rsi_c : float := 8.
Definition rsi_inf_pre : list float := [55.3; 527.4; 878.3; 105.7].
Definition rsi_inf_c : float := -308.6.

(** C16 (flat-window clause) holds of Rsi at f64, bit for bit: for every window length [n] (as a [usize]
    below 2^63), every prefix [fs] WHATSOEVER (finite or not) and every finite [c], after at least [n+1]
    copies of [c] the answer is the literal 100 *)
Theorem rsi_flat_f64 n (fs : list float) (c : float) k :
  (1 <= n)%nat -> (Z.of_nat n < 2 ^ 63)%Z -> (n + 1 <= k)%nat -> PrimFloat.is_finite c = true ->
  cout (@rsi_core float FOps n) (fs ++ repeat c k) = Ok (Some (f_ofdec 100 0)).
Proof.
  intros Hn Hb Hk Hc. apply rsi_flat_f64_gen; try assumption. apply f_ofnat_pos; assumption.
Qed.

(** the streams on which the old code answered -0.00104... and -infinity: now exactly 100, for every
    flat tail (instances of the theorem) *)
Example rsi_flat_f64_ex : forall k, (3 + 1 <= k)%nat ->
  cout (@rsi_core float FOps 3) (rsi_pre ++ repeat rsi_c k) = Ok (Some 100).
Proof. intros k Hk. apply (rsi_flat_f64 3 rsi_pre rsi_c k); [lia | reflexivity | exact Hk | reflexivity]. Qed.
Example rsi_flat_f64_ex2 : forall k, (2 + 1 <= k)%nat ->
  cout (@rsi_core float FOps 2) (rsi_inf_pre ++ repeat rsi_inf_c k) = Ok (Some 100).
Proof. intros k Hk. apply (rsi_flat_f64 2 rsi_inf_pre rsi_inf_c k); [lia | reflexivity | exact Hk | reflexivity]. Qed.
(** ... also after a prefix containing an infinity and a NaN *)
Example rsi_flat_f64_ex3 :
  cout (@rsi_core float FOps 2) ([1; infinity; nan; 2] ++ repeat 0.1 3) = Ok (Some 100).
Proof. apply (rsi_flat_f64 2 _ 0.1 3); [lia | reflexivity | lia | reflexivity]. Qed.

Theorem rsi_flat_exact : forall k, (3 + 1 <= k)%nat ->
  cout (@rsi_core Q QOps 3) (map q_of_f rsi_pre ++ repeat (q_of_f rsi_c) k) = Ok (Some (100 # 1)%Q).
Proof. stuck 4%nat. Qed.

(* ---------------------------------------------------------------------------------------- MyRSI *)

Definition my_pre : list float := [8.918; 1e6; 1.6; 2.4; 1.8].
Definition my_c : float := 5.1.

(** C16 holds of MyRSI at f64, bit for bit: for every window length, every prefix whatsoever and every
    finite [c], from the moment the window consists of copies of [c] the answer is HELD: after every
    longer flat tail MyRSI reports exactly what it reported after [n] copies (when the last change
    [c - last fs] was still inside the window) -- as in exact arithmetic *)
Theorem myrsi_flat_f64 n (fs : list float) (c : float) k :
  (1 <= n)%nat -> (n <= k)%nat -> PrimFloat.is_finite c = true ->
  cout (@myrsi_core float FOps n) (fs ++ repeat c k) = cout (@myrsi_core float FOps n) (fs ++ repeat c n).
Proof. apply myrsi_flat_f64_gen. Qed.
(** with nothing before the flat stretch the held value is the initial 0 *)
Theorem myrsi_flat_f64_all n (c : float) k :
  (1 <= n)%nat -> (n <= k)%nat -> PrimFloat.is_finite c = true ->
  cout (@myrsi_core float FOps n) (repeat c k) = Ok (Some 0).
Proof. apply FltFlat.myrsi_flat_f64_all. Qed.

(** the streams on which the old code answered 2.9999... (exact: 1) and +1 (exact: -1): now the exact
    held value, for every flat tail *)
Example myrsi_flat_f64_ex : forall k, (3 <= k)%nat ->
  cout (@myrsi_core float FOps 3) (my_pre ++ repeat my_c k) = Ok (Some 1).
Proof. intros k Hk. rewrite (myrsi_flat_f64 3 my_pre my_c k); [vm_compute; reflexivity | lia | exact Hk | reflexivity]. Qed.
Example myrsi_flat_f64_ex2 : forall k, (3 <= k)%nat ->
  cout (@myrsi_core float FOps 3) ([2.5; 6.068; 6.81; 1e6] ++ repeat 8.04 k) = Ok (Some (-1)).
Proof. intros k Hk. rewrite (myrsi_flat_f64 3 _ 8.04 k); [vm_compute; reflexivity | lia | exact Hk | reflexivity]. Qed.

Theorem myrsi_flat_exact : forall k, (3 + 1 <= k)%nat ->
  cout (@myrsi_core Q QOps 3) (map q_of_f my_pre ++ repeat (q_of_f my_c) k) = Ok (Some (1 # 1)%Q).
Proof. stuck 4%nat. Qed.

(* ------------------------------------------------------------------------------------------ CTI *)

(** D17 (repaired in the code).  The old code reported a raw quotient which rounding could push outside
    [-1, 1]: CTI(2) on 872.06, 872.061 gave 1.00034..., CTI(3) on 978.4, 978.41, 978.42 gave 1.0000024...
    ([n*sxx - sx^2] cancels catastrophically).  The output is now clamped ([out.max(-1).min(1)]), so at
    binary64 -- whatever the rounding did to the quotient, even if it is an infinity or NaN -- every value
    CTI reports lies in [-1, 1] (in particular it is never NaN: IEEE [max(NaN, -1) = -1]). *)
Lemma clamp_float_range (o : float) :
  let v := @smin float FOps (@smax float FOps o (@sneg float FOps (@s1 float FOps))) (@s1 float FOps) in
  PrimFloat.leb (-1) v && PrimFloat.leb v 1 = true.
Proof.
  unfold smin, smax, sgeb. cbn [sleb sneg s1 FOps].
  change (PrimFloat.opp PrimFloat.one) with (-1)%float. change PrimFloat.one with 1%float.
  destruct (PrimFloat.leb (-1) o) eqn:E1.
  - destruct (PrimFloat.leb o 1) eqn:E2; cbv zeta.
    + rewrite E1, E2. reflexivity.
    + vm_compute. reflexivity.
  - vm_compute. reflexivity.
Qed.

Lemma cti_last_range_f64 n q v : @cti_last float FOps n q = Ok (Some v) ->
  PrimFloat.leb (-1) v && PrimFloat.leb v 1 = true.
Proof.
  unfold cti_last. cbv zeta.
  generalize (@cti_loop float FOps q 0 {| c_sx := s0; c_sy := s0; c_sxx := s0; c_sxy := s0; c_syy := s0 |}).
  intros a. destruct (_ && _).
  - cbn [ssqrt sdiv FOps bind]. intros H. inversion H. apply clamp_float_range.
  - intros H. inversion H. vm_compute. reflexivity.
Qed.

(** C07 at f64: every value CorrelationTrendIndicator reports at binary64 is in [-1, 1] *)
Theorem cti_range_f64 n (fs : list float) (v : float) :
  cout (@cti_core float FOps n) fs = Ok (Some v) -> PrimFloat.leb (-1) v && PrimFloat.leb v 1 = true.
Proof.
  unfold cout. destruct (crun (@cti_core float FOps n) fs) as [s|e]; cbn [bind]; [|discriminate].
  cbn [clast cti_core]. apply cti_last_range_f64.
Qed.

(** the two streams on which the old code left the range: now exactly 1 *)
Example cti_range_f64_ex :
  cout (@cti_core float FOps 2) [872.06; 872.061] = Ok (Some 1) /\
  cout (@cti_core float FOps 3) [978.4; 978.41; 978.42] = Ok (Some 1).
Proof. vm_compute. split; reflexivity. Qed.

(* --------------------------------------------------------------------------- Vsct, Vst (Welford) *)

(** WelfordOnline's running mean keeps a residue after the value 1000 has left the window: on the
    flat window 8.1, 8.1, 8.1 the mean is 8.100000000000016 and the deviation 1.36e-14 instead of 0.
    Vsct(3) = (x - mean)/sd then reports -1.1767 (exact: 0) -- beyond its bound (N-1)/sqrt(N) =
    1.1547 by 2% -- and Vst(3) = x/sd reports 5.96e14 (exact: the value itself, 8.1).  Both for ever. *)
Definition w_pre : list float := [1000].
Definition w_c : float := 8.1.
Definition vsct_bad : float := -1.176696810829104.
Definition vst_bad : float := 596179273362525.5.

(** C07: |Vsct| <= (N-1)/sqrt(N), i.e. N * v^2 <= (N-1)^2, fails at f64 by far more than ulps
    (1.17 > 2/sqrt 3 because 3 * 1.17^2 = 4.1067 > 4) *)
Theorem vsct_bound_f64_refuted :
  exists (xs : list float) (v : float),
    sall_absleb 1000 xs = true /\
    cout (@vsct_core float FOps 3) xs = Ok (Some v) /\
    PrimFloat.ltb 1.17 (abs v) = true /\ PrimFloat.ltb ((3 - 1) * (3 - 1) * 1.02) (3 * (v * v)) = true.
Proof.
  exists (w_pre ++ repeat w_c 4), vsct_bad. vm_compute. repeat split.
Qed.

(** C16: Vsct on a flat window (exact: 0; scale: the bound of the indicator) *)
Theorem vsct_flat_f64_refuted :
  exists (xs : list float) (v : float),
    flat_tailb (3 + 1) xs = true /\ sall_absleb 1000 xs = true /\
    cout (@vsct_core Q QOps 3) (map q_of_f xs) = Ok (Some 0%Q) /\
    cout (@vsct_core float FOps 3) xs = Ok (Some v) /\ sfarb v 0 1 = true.
Proof.
  exists (w_pre ++ repeat w_c 4), vsct_bad. vm_compute. repeat split.
Qed.
Theorem vsct_flat_f64_stuck : forall k, (3 <= k)%nat ->
  cout (@vsct_core float FOps 3) (w_pre ++ repeat w_c k) = Ok (Some vsct_bad).
Proof. stuck 3%nat. Qed.
Theorem vsct_flat_exact : forall k, (3 <= k)%nat ->
  cout (@vsct_core Q QOps 3) (map q_of_f w_pre ++ repeat (q_of_f w_c) k) = Ok (Some 0%Q).
Proof. stuck 3%nat. Qed.

(** C16: Vst on a flat window (exact: the value itself) -- off by 14 orders of magnitude *)
Theorem vst_flat_f64_refuted :
  exists (xs : list float) (v : float),
    flat_tailb (3 + 1) xs = true /\ sall_absleb 1000 xs = true /\
    cout (@vst_core Q QOps 3) (map q_of_f xs) = Ok (Some (q_of_f w_c)) /\     (* exact: 8.1 *)
    cout (@vst_core float FOps 3) xs = Ok (Some v) /\
    sfarb v w_c 1e14 = true /\ c16_flat_ok w_c 1000 v = false.
Proof.
  exists (w_pre ++ repeat w_c 4), vst_bad. vm_compute. repeat split.
Qed.
Theorem vst_flat_f64_stuck : forall k, (3 <= k)%nat ->
  cout (@vst_core float FOps 3) (w_pre ++ repeat w_c k) = Ok (Some vst_bad).
Proof. stuck 3%nat. Qed.
Theorem vst_flat_exact : forall k, (3 <= k)%nat ->
  cout (@vst_core Q QOps 3) (map q_of_f w_pre ++ repeat (q_of_f w_c) k) = Ok (Some (q_of_f w_c)).
Proof. stuck 3%nat. Qed.

(* ------------------------------------------------------------- positive controls (not refuted) *)

(** on the Rsi stream the other views do report the exact flat answer at f64 to within C16's
    tolerance (single executions, not theorems about all streams): Sma reports 8.0000000000049667 *)
Definition flat_ok_on (c : core float) (exact scale : float) (xs : list float) : bool :=
  match cout c xs with Ok (Some v) => c16_flat_ok exact scale v | _ => false end.
Definition ctl_xs : list float := rsi_pre ++ repeat rsi_c 4.
Example controls_flat_f64_ok :
  flat_ok_on (@sma_core float FOps 3) 8 1e6 ctl_xs = true /\
  flat_ok_on (@cumulative_core float FOps 3) 24 1e6 ctl_xs = true /\
  flat_ok_on (@hln_core float FOps 3) 0 2 ctl_xs = true /\
  flat_ok_on (@roc_core float FOps 3) 0 100 ctl_xs = true /\
  flat_ok_on (@cti_core float FOps 3) 0 2 ctl_xs = true /\
  flat_ok_on (@net_core float FOps 3) 0 2 ctl_xs = true /\
  flat_ok_on (@welford_core float FOps 3) 0 1e6 ctl_xs = true /\
  flat_ok_on (@cyber_core float FOps 3) 0 1e6 ctl_xs = true.
Proof. vm_compute. repeat split. Qed.

Print Assumptions rsi_flat_f64.
Print Assumptions rsi_flat_exact.
Print Assumptions myrsi_flat_f64.
Print Assumptions myrsi_flat_f64_all.
Print Assumptions myrsi_flat_exact.
Print Assumptions cti_range_f64.
Print Assumptions vsct_bound_f64_refuted.
Print Assumptions vsct_flat_f64_refuted.
Print Assumptions vsct_flat_f64_stuck.
Print Assumptions vsct_flat_exact.
Print Assumptions vst_flat_f64_refuted.
Print Assumptions vst_flat_f64_stuck.
Print Assumptions vst_flat_exact.
