(** Rsi (rsi.rs) and MyRSI (my_rsi.rs): closed forms (C05), range (C07), monotone windows, negation,
    finite memory (C03), scale invariance (C12), flat window (C16), all at [R]. *)
From Coq Require Import List Arith Lia Reals Lra ZArith.
From SF Require Import Res Scalar View Models Spec Core SpecRsi.
From SF.Proofs Require Import Window RBase.
Import ListNotations.
Open Scope R_scope.

Local Notation cf := (@changes_from R ROps).
Local Notation chg := (@changes R ROps).
Local Notation gof := (@gain_of R ROps).
Local Notation lof := (@loss_of R ROps).
Local Notation wG := (@win_gain R ROps).
Local Notation wL := (@win_loss R ROps).

(** * Lists *)
Lemma last_cons_def {A} (x : A) l a : last (x :: l) a = last l x.
Proof.
  revert x a; induction l as [|y l IH]; intros x a; [reflexivity|].
  change (last (x :: y :: l) a) with (last (y :: l) a). rewrite (IH y a), (IH y x). reflexivity.
Qed.
Lemma last_default {A} (l : list A) a b : l <> [] -> last l a = last l b.
Proof. destruct l as [|x l]; [congruence|]. intros _. rewrite !last_cons_def. reflexivity. Qed.
Lemma hd_default {A} (l : list A) a b : l <> [] -> hd a l = hd b l.
Proof. destruct l; [congruence | reflexivity]. Qed.
Lemma last_snoc {A} (l : list A) x a : last (l ++ [x]) a = x.
Proof. apply last_last. Qed.

Lemma lastn_S_snoc {A} n (h : list A) v : lastn (S n) (h ++ [v]) = lastn n h ++ [v].
Proof.
  unfold lastn. rewrite app_length. cbn [length].
  replace (length h + 1 - S n)%nat with (length h - n)%nat by lia.
  rewrite skipn_app. replace (length h - n - length h)%nat with 0%nat by lia. reflexivity.
Qed.
Lemma lastn_nonnil {A} n (h : list A) : (1 <= n)%nat -> h <> [] -> lastn n h <> [].
Proof.
  intros Hn Hh E. pose proof (lastn_length n h) as L. rewrite E in L. cbn in L.
  destruct h; [congruence | cbn in L; lia].
Qed.
(** a history longer than [n] splits into a prefix, the value before the window, and the window *)
Lemma split_window {A} n (h : list A) : (n < length h)%nat ->
  exists p y w, h = p ++ y :: w /\ length w = n.
Proof.
  intros H. pose proof (firstn_skipn (length h - S n) h) as E.
  pose proof (skipn_length (length h - S n) h) as L.
  destruct (skipn (length h - S n) h) as [|y w]; cbn in L; [lia|].
  exists (firstn (length h - S n) h), y, w. split; [symmetry; exact E | lia].
Qed.

(** * Changes *)
Lemma cf_app a p w : cf a (p ++ w) = cf a p ++ cf (last p a) w.
Proof.
  revert a; induction p as [|x p IH]; intros a; [reflexivity|].
  cbn [app changes_from]. rewrite IH, last_cons_def. reflexivity.
Qed.
Lemma cf_length a l : length (cf a l) = length l.
Proof. revert a; induction l as [|x l IH]; intros a; cbn; [reflexivity | rewrite IH; reflexivity]. Qed.
Lemma chg_length h : length (chg h) = length h.
Proof. destruct h as [|x r]; cbn; [reflexivity | rewrite cf_length; reflexivity]. Qed.
Lemma chg_eq_cf h : chg h = cf (hd 0 h) h.
Proof. destruct h as [|x r]; cbn; [reflexivity|]. f_equal. lra. Qed.

(** the change carried by a new value *)
Lemma chg_snoc h v : chg (h ++ [v]) = chg h ++ [v - last h v].
Proof.
  destruct h as [|x r].
  - cbn. f_equal. lra.
  - cbn [app changes]. rewrite cf_app, last_cons_def. reflexivity.
Qed.

(** the [n] most recent changes are those of the [n] most recent values, starting from the value
    before them (or from the first value itself while nothing precedes the window) *)
Lemma win_changes n h : lastn n (chg h) = cf (hd 0 (lastn (S n) h)) (lastn n h).
Proof.
  destruct (le_lt_dec (length h) n) as [H|H].
  - rewrite (lastn_all n (chg h)) by (rewrite chg_length; exact H).
    rewrite (lastn_all (S n) h) by lia. rewrite (lastn_all n h) by exact H. apply chg_eq_cf.
  - destruct (split_window n h H) as (p & y & w & E & Lw). subst h.
    rewrite (lastn_app_suffix (S n) p (y :: w)) by (cbn; lia).
    rewrite (lastn_all (S n) (y :: w)) by (cbn; lia). cbn [hd].
    replace (p ++ y :: w) with ((p ++ [y]) ++ w) by (rewrite <- app_assoc; reflexivity).
    rewrite (lastn_app_suffix n (p ++ [y]) w) by lia. rewrite (lastn_all n w) by lia.
    rewrite chg_eq_cf, cf_app, last_snoc.
    rewrite lastn_app_suffix by (rewrite cf_length; lia).
    apply lastn_all. rewrite cf_length. lia.
Qed.

(** * Gains and losses *)
Lemma gl_cases d : (0 < d /\ gof d = d /\ lof d = 0) \/ (d <= 0 /\ gof d = 0 /\ lof d = - d).
Proof.
  unfold gain_of, loss_of, sgtb. cbn [sltb s0 sabs ROps].
  destruct (Rltb 0 d) eqn:E.
  - left. apply Rltb_true in E. auto.
  - right. apply Rltb_false in E. rewrite Rabs_left1 by exact E. auto.
Qed.
Lemma gof_nonneg d : 0 <= gof d.
Proof. destruct (gl_cases d) as [(?&->&_)|(?&->&_)]; lra. Qed.
Lemma lof_nonneg d : 0 <= lof d.
Proof. destruct (gl_cases d) as [(?&_&->)|(?&_&->)]; lra. Qed.

Lemma smap_app (f : R -> R) l d : @ssum R ROps (map f (l ++ [d])) = @ssum R ROps (map f l) + f d.
Proof. rewrite map_app. cbn [map]. apply ssum_R_app. Qed.
Lemma smap_cons (f : R -> R) l d : @ssum R ROps (map f (d :: l)) = f d + @ssum R ROps (map f l).
Proof. cbn [map]. apply ssum_R_cons. Qed.
Lemma smap_nonneg (f : R -> R) l : (forall d, 0 <= f d) -> 0 <= @ssum R ROps (map f l).
Proof.
  intros Hf. induction l as [|d l IH]; [cbn; lra|]. rewrite smap_cons. pose proof (Hf d). lra.
Qed.
Lemma smap_zero (f : R -> R) l : Forall (fun d => f d = 0) l -> @ssum R ROps (map f l) = 0.
Proof.
  induction 1 as [|d l Hd _ IH]; [reflexivity|]. rewrite smap_cons, Hd, IH. lra.
Qed.
Lemma smap_pos (f : R -> R) l : (forall d, 0 <= f d) -> Exists (fun d => 0 < f d) l ->
  0 < @ssum R ROps (map f l).
Proof.
  intros Hf. induction 1 as [d l Hd | d l _ IH]; rewrite smap_cons.
  - pose proof (smap_nonneg f l Hf). lra.
  - pose proof (Hf d). lra.
Qed.

Lemma wG_nonneg n h : 0 <= wG n h.
Proof. apply smap_nonneg, gof_nonneg. Qed.
Lemma wL_nonneg n h : 0 <= wL n h.
Proof. apply smap_nonneg, lof_nonneg. Qed.

(** one step of any windowed sum of a function of the changes: drop the change of the evicted value,
    add the change of the new one *)
Lemma wsum_step (f : R -> R) n h v : (1 <= n)%nat ->
  @ssum R ROps (map f (lastn n (chg (h ++ [v])))) =
  (if Nat.leb n (length h)
   then @ssum R ROps (map f (lastn n (chg h))) - f (hd 0 (lastn n h) - hd 0 (lastn (S n) h))
   else @ssum R ROps (map f (lastn n (chg h)))) + f (v - last h v).
Proof.
  intros Hn. rewrite chg_snoc.
  rewrite <- (evict_push_lastn n (chg h) (v - last h v) Hn).
  rewrite lastn_length, chg_length, smap_app. f_equal.
  destruct (Nat.leb_spec n (length h)) as [H|H].
  - replace (Nat.min n (length h)) with n by lia. rewrite Nat.leb_refl.
    rewrite win_changes. destruct (lastn_hd_tl n h H Hn) as [x Hx]. rewrite Hx.
    cbn [changes_from tl hd]. rewrite smap_cons. cbn [ssub ROps]. lra.
  - replace (Nat.min n (length h)) with (length h) by lia.
    destruct (Nat.leb_spec n (length h)); [lia | reflexivity].
Qed.
Lemma wG_step n h v : (1 <= n)%nat ->
  wG n (h ++ [v]) = (if Nat.leb n (length h) then wG n h - gof (hd 0 (lastn n h) - hd 0 (lastn (S n) h))
                     else wG n h) + gof (v - last h v).
Proof. apply wsum_step. Qed.
Lemma wL_step n h v : (1 <= n)%nat ->
  wL n (h ++ [v]) = (if Nat.leb n (length h) then wL n h - lof (hd 0 (lastn n h) - hd 0 (lastn (S n) h))
                     else wL n h) + lof (v - last h v).
Proof. apply wsum_step. Qed.
(** * Rsi: invariant and closed form *)
Lemma hundred_R : @hundred R ROps = 100.
Proof. unfold hundred. cbn. lra. Qed.

(** the sums are recomputed from the window on every update: the fold adds, change by change,
    [gain_of d / wl] to the gains and [loss_of d / wl] to the losses *)
Lemma rsi_sums_acc wl q : wl <> 0 -> forall prev g l,
  @rsi_sums R ROps wl q prev g l
  = Ok (g + @gains R ROps (cf prev q) / wl, l + @losses R ROps (cf prev q) / wl).
Proof.
  intros Hw. induction q as [|v r IH]; intros prev g l.
  - cbn [rsi_sums changes_from]. unfold gains, losses. cbn [map]. unfold ssum. cbn [fold_left s0 ROps].
    f_equal. f_equal; unfold Rdiv; lra.
  - cbn [rsi_sums changes_from]. unfold gains, losses. rewrite !smap_cons.
    unfold sgtb. cbn [sltb s0 sabs ssub sadd ROps].
    destruct (gl_cases (v - prev)) as [(H & -> & ->)|(H & -> & ->)];
      destruct (Rltb 0 (v - prev)) eqn:E;
      try (apply Rltb_true in E); try (apply Rltb_false in E); try lra;
      rewrite sdiv_R_ok by exact Hw; cbn [bind]; rewrite IH; unfold gains, losses; cbn [sadd ROps];
      f_equal; f_equal; try (rewrite Rabs_left1 by exact H); field; exact Hw.
Qed.
(** ... so that, started from the value preceding the window, they are exactly [G/n] and [L/n] *)
Lemma rsi_sums_window n h : (1 <= n)%nat ->
  @rsi_sums R ROps (INR n) (lastn n h) (hd 0 (lastn (S n) h)) 0 0 = Ok (wG n h / INR n, wL n h / INR n).
Proof.
  intros Hn. assert (Hn0 : INR n <> 0) by (apply INR_pos_neq; lia).
  rewrite rsi_sums_acc by exact Hn0. rewrite <- win_changes.
  unfold win_gain, win_loss. f_equal. f_equal; lra.
Qed.

(** the output block of [rsi_step] on averages [G/n], [L/n] *)
Lemma rsi_out_block (G L wl : R) : 0 <= G -> 0 <= L -> 0 < wl ->
  (if seqb (L / wl) s0 then Ok (sofdec 100 0)
   else do rs <- sdiv (G / wl) (L / wl);
        do d <- sdiv (sofdec 100 0) (sadd s1 rs); Ok (ssub (sofdec 100 0) d))
  = Ok (if seqb L s0 then @hundred R ROps else sdivd (smul hundred G) (sadd G L)).
Proof.
  intros HG HL Hw. fold (@hundred R ROps). rewrite hundred_R.
  cbn [seqb s0 s1 sadd ssub smul ROps].
  destruct (Reqb L 0) eqn:E.
  - apply Reqb_true in E. subst L. replace (0 / wl) with 0 by (unfold Rdiv; lra).
    destruct (Reqb 0 0) eqn:E0; [reflexivity|]. apply Reqb_false in E0. lra.
  - apply Reqb_false in E. assert (HLw : L / wl <> 0).
    { intros H0. apply E. apply (Rmult_eq_reg_r (/ wl)); [|apply Rinv_neq_0_compat; lra].
      unfold Rdiv in H0. lra. }
    destruct (Reqb (L / wl) 0) eqn:E1; [apply Reqb_true in E1; contradiction|].
    rewrite sdiv_R_ok by exact HLw. cbn [bind].
    assert (Hrs : G / wl / (L / wl) = G / L) by (field; lra). rewrite Hrs.
    assert (0 <= G / L) by (apply Rmult_le_pos; [lra | left; apply Rinv_0_lt_compat; lra]).
    rewrite sdiv_R_ok by lra. cbn [bind]. rewrite sdivd_R by lra. f_equal. field. lra.
Qed.

(** what the queue bookkeeping of both views does: after the step the queue is the new window and the
    reference value is the value preceding it (the first value of the stream while nothing precedes) *)
Lemma window_bookkeeping {A} n (h : list A) v (q : list A) (oref d : A) : (1 <= n)%nat ->
  q = lastn n h -> (h <> [] -> oref = hd d (lastn (S n) h)) ->
  exists q0,
    (if Nat.leb n (length q)
     then do '(old, q') <- pop_front q; Ok (old, q')
     else Ok (match q with [] => v | _ :: _ => oref end, q))
    = Ok (hd d (lastn (S n) (h ++ [v])), q0) /\ q0 ++ [v] = lastn n (h ++ [v]).
Proof.
  intros Hn Hq Href.
  pose proof (evict_push_lastn n h v Hn) as Hev. pose proof (lastn_S_snoc n h v) as HS.
  rewrite Hq. rewrite lastn_length in *.
  destruct (Nat.leb_spec n (Nat.min n (length h))) as [E|E].
  - assert (Elen : (n <= length h)%nat) by lia.
    destruct (lastn_hd_tl n h Elen Hn) as [old Hold]. rewrite Hold in *.
    cbn [pop_front bind tl hd app] in *.
    exists (tl (lastn n h)). split; [|exact Hev]. rewrite HS. reflexivity.
  - assert (Elen : (length h < n)%nat) by lia.
    exists (lastn n h). split; [|exact Hev]. f_equal. f_equal.
    rewrite HS. rewrite (lastn_all n h) by lia.
    destruct h as [|x r]; [reflexivity|].
    assert (Hne : x :: r <> []) by discriminate. rewrite (Href Hne).
    rewrite (lastn_all (S n) (x :: r)) by lia. reflexivity.
Qed.

(** the state after history [h]: the queue is the window, [old_ref] the value preceding it, the output the
    specification (the gain / loss fields hold the last computed sums and are never read) *)
Definition rsi_inv (n : nat) (h : list R) (s : @rsi_st R) : Prop :=
  rsi_q s = lastn n h /\
  (h <> [] -> rsi_oldref s = hd 0 (lastn (S n) h) /\ rsi_lastval s = last h 0) /\
  ((n <= length h)%nat -> rsi_gain s = wG n h / INR n /\ rsi_loss s = wL n h / INR n) /\
  rsi_out s = @spec_rsi R ROps n h.

Lemma rsi_step_inv n h s v : (1 <= n)%nat -> rsi_inv n h s ->
  exists s', rsi_step n s v = Ok s' /\ rsi_inv n (h ++ [v]) s'.
Proof.
  intros Hn (Hq & Href & _ & Ho).
  assert (Hnpos : 0 < INR n) by (apply lt_0_INR; lia).
  unfold rsi_step.
  destruct (window_bookkeeping n h v (rsi_q s) (rsi_oldref s) 0 Hn Hq (fun H => proj1 (Href H)))
    as (q0 & -> & Hq0).
  cbn [bind]. cbv zeta. rewrite Hq0, lastn_length, app_length. cbn [length].
  pose proof (wG_nonneg n (h ++ [v])) as HG0. pose proof (wL_nonneg n (h ++ [v])) as HL0.
  destruct (Nat.ltb_spec (Nat.min n (length h + 1)) n) as [H|H].
  - eexists; split; [reflexivity|].
    repeat split; cbn [rsi_q rsi_oldref rsi_lastval rsi_gain rsi_loss rsi_out].
    + rewrite last_snoc. reflexivity.
    + rewrite app_length in *. cbn [length] in *. lia.
    + rewrite app_length in *. cbn [length] in *. lia.
    + rewrite Ho. unfold spec_rsi. rewrite app_length. cbn [length].
      destruct (Nat.ltb_spec (length h) n); destruct (Nat.ltb_spec (length h + 1) n); try lia; reflexivity.
  - cbn [sofnat s0 ROps]. rewrite rsi_sums_window by exact Hn. cbn [bind].
    rewrite rsi_out_block by assumption. cbn [bind].
    eexists; split; [reflexivity|].
    repeat split; cbn [rsi_q rsi_oldref rsi_lastval rsi_gain rsi_loss rsi_out].
    + rewrite last_snoc. reflexivity.
    + unfold spec_rsi, rsi_value. rewrite app_length. cbn [length].
      destruct (Nat.ltb_spec (length h + 1) n); [lia | reflexivity].
Qed.

Definition rsi_init : @rsi_st R :=
  {| rsi_gain := 0; rsi_loss := 0; rsi_oldref := 0; rsi_lastval := 0; rsi_q := []; rsi_out := None |}.

Lemma rsi_run n vs : (1 <= n)%nat -> exists s, crun (@rsi_core R ROps n) vs = Ok s /\ rsi_inv n vs s.
Proof.
  intros Hn.
  apply (@crun_inv R (@rsi_core R ROps n) (fun _ => True) (rsi_inv n) rsi_init).
  - reflexivity.
  - unfold rsi_inv, rsi_init, spec_rsi. cbn [rsi_q rsi_gain rsi_loss rsi_out rsi_oldref rsi_lastval].
    rewrite !lastn_nil. cbn [length].
    destruct (Nat.ltb_spec 0 n); [|lia].
    repeat split; try congruence; lia.
  - intros h s v _ _ Hi. apply rsi_step_inv; assumption.
  - apply Forall_forall; trivial.
Qed.

(** C05 (Rsi): after any history the model answers [spec_rsi], and never fails. *)
Theorem rsi_closed_form n vs : (1 <= n)%nat ->
  cout (@rsi_core R ROps n) vs = Ok (@spec_rsi R ROps n vs).
Proof.
  intros Hn. destruct (rsi_run n vs Hn) as (s & Hr & (_ & _ & _ & Ho)).
  unfold cout. rewrite Hr. cbn [bind clast rsi_core]. rewrite Ho. reflexivity.
Qed.
(** * MyRSI: invariant and closed form *)
Local Notation mval := (@myrsi_value R ROps).
Local Notation mupd := (@myrsi_upd R ROps).

(** the hold recursion, one value at a time *)
Lemma mval_nil n : mval n [] = 0.
Proof. reflexivity. Qed.
Lemma mval_snoc n h v : mval n (h ++ [v]) = mupd n (h ++ [v]) (mval n h).
Proof.
  unfold myrsi_value. rewrite rev_unit. cbn [myrsi_hold_rev rev]. rewrite rev_involutive. reflexivity.
Qed.
Lemma mupd_R n h prev :
  mupd n h prev = if Req_EM_T (wG n h + wL n h) 0 then prev else (wG n h - wL n h) / (wG n h + wL n h).
Proof.
  unfold myrsi_upd, sneb. cbn [seqb sadd ssub s0 ROps]. unfold Reqb.
  destruct (Req_EM_T (wG n h + wL n h) 0) as [E|E]; cbn [negb]; [reflexivity|].
  apply sdivd_R. exact E.
Qed.

(** 'closes up' / 'closes down', recomputed from the window on every update *)
Lemma myrsi_sums_acc q : forall prev cu cd,
  @myrsi_sums R ROps q prev cu cd = (cu + @gains R ROps (cf prev q), cd + @losses R ROps (cf prev q)).
Proof.
  induction q as [|v r IH]; intros prev cu cd.
  - cbn [myrsi_sums changes_from]. unfold gains, losses. cbn [map]. unfold ssum. cbn [fold_left s0 ROps].
    f_equal; lra.
  - cbn [myrsi_sums changes_from]. unfold gains, losses. rewrite !smap_cons.
    unfold sgtb. cbn [sltb ssub sadd ROps].
    destruct (gl_cases (v - prev)) as [(H & -> & ->)|(H & -> & ->)];
      destruct (Rltb prev v) eqn:E;
      try (apply Rltb_true in E); try (apply Rltb_false in E); try lra;
      rewrite IH; unfold gains, losses; f_equal; lra.
Qed.
Lemma myrsi_sums_window n h :
  @myrsi_sums R ROps (lastn n h) (hd 0 (lastn (S n) h)) 0 0 = (wG n h, wL n h).
Proof.
  rewrite myrsi_sums_acc, <- win_changes. unfold win_gain, win_loss. f_equal; lra.
Qed.

Lemma my_out_block n h prev :
  (if sneb (sadd (wG n h) (wL n h)) s0 then sdiv (ssub (wG n h) (wL n h)) (sadd (wG n h) (wL n h))
   else Ok prev) = Ok (mupd n h prev).
Proof.
  rewrite mupd_R. unfold sneb. cbn [seqb sadd ssub s0 ROps]. unfold Reqb.
  destruct (Req_EM_T (wG n h + wL n h) 0) as [E|E]; cbn [negb]; [reflexivity|].
  apply sdiv_R_ok. exact E.
Qed.

Definition my_inv (n : nat) (h : list R) (s : @myrsi_st R) : Prop :=
  my_q s = lastn n h /\
  (h <> [] -> my_oldest s = hd 0 (lastn (S n) h) /\ my_lastval s = last h 0) /\
  my_cu s = wG n h /\ my_cd s = wL n h /\ my_out s = mval n h.

Lemma my_step_inv n h s v : (1 <= n)%nat -> my_inv n h s ->
  exists s', myrsi_step n s v = Ok s' /\ my_inv n (h ++ [v]) s'.
Proof.
  intros Hn (Hq & Href & _ & _ & Ho).
  unfold myrsi_step.
  destruct (window_bookkeeping n h v (my_q s) (my_oldest s) 0 Hn Hq (fun H => proj1 (Href H)))
    as (q0 & -> & Hq0).
  cbn [bind]. rewrite Hq0. cbn [s0 ROps]. rewrite myrsi_sums_window.
  rewrite my_out_block. cbn [bind].
  eexists; split; [reflexivity|].
  repeat split; cbn [my_q my_oldest my_lastval my_cu my_cd my_out].
  - rewrite last_snoc. reflexivity.
  - rewrite mval_snoc, Ho. reflexivity.
Qed.

Definition my_init : @myrsi_st R :=
  {| my_cu := 0; my_cd := 0; my_out := 0; my_q := []; my_lastval := 0; my_oldest := 0 |}.

Lemma my_run n vs : (1 <= n)%nat -> exists s, crun (@myrsi_core R ROps n) vs = Ok s /\ my_inv n vs s.
Proof.
  intros Hn.
  apply (@crun_inv R (@myrsi_core R ROps n) (fun _ => True) (my_inv n) my_init).
  - reflexivity.
  - unfold my_inv, my_init, win_gain, win_loss. cbn [my_q my_oldest my_lastval my_cu my_cd my_out].
    rewrite !lastn_nil. cbn [changes]. rewrite lastn_nil. cbn. repeat split; congruence.
  - intros h s v _ _ Hi. apply my_step_inv; assumption.
  - apply Forall_forall; trivial.
Qed.

(** C05 (MyRSI): after any history the model answers [spec_myrsi], and never fails. *)
Theorem myrsi_closed_form n vs : (1 <= n)%nat ->
  cout (@myrsi_core R ROps n) vs = Ok (@spec_myrsi R ROps n vs).
Proof.
  intros Hn. destruct (my_run n vs Hn) as (s & Hr & (Hq & _ & _ & _ & Ho)).
  unfold cout. rewrite Hr. cbn [bind clast myrsi_core]. rewrite Hq, Ho, lastn_length.
  unfold spec_myrsi.
  destruct (Nat.ltb_spec (Nat.min n (length vs)) n); destruct (Nat.ltb_spec (length vs) n);
    try lia; reflexivity.
Qed.

(** * The specifications in plain real arithmetic *)
Local Notation rval := (@rsi_value R ROps).

Lemma rval_R n h :
  rval n h = if Req_EM_T (wL n h) 0 then 100 else 100 * wG n h / (wG n h + wL n h).
Proof.
  unfold rsi_value. rewrite hundred_R. cbn [seqb sadd smul s0 ROps]. unfold Reqb.
  destruct (Req_EM_T (wL n h) 0) as [E|E]; [reflexivity|].
  pose proof (wG_nonneg n h). pose proof (wL_nonneg n h). apply sdivd_R. lra.
Qed.

(** what the two views answer, in terms of G and L of the current window *)
Theorem rsi_answer n h : (1 <= n)%nat -> (n <= length h)%nat ->
  cout (@rsi_core R ROps n) h =
  Ok (Some (if Req_EM_T (wL n h) 0 then 100 else 100 * wG n h / (wG n h + wL n h))).
Proof.
  intros Hn Hl. rewrite rsi_closed_form by exact Hn. unfold spec_rsi.
  destruct (Nat.ltb_spec (length h) n); [lia|]. rewrite rval_R. reflexivity.
Qed.
Theorem rsi_warmup n h : (1 <= n)%nat -> (length h < n)%nat -> cout (@rsi_core R ROps n) h = Ok None.
Proof.
  intros Hn Hl. rewrite rsi_closed_form by exact Hn. unfold spec_rsi.
  destruct (Nat.ltb_spec (length h) n); [reflexivity | lia].
Qed.
Theorem myrsi_warmup n h : (1 <= n)%nat -> (length h < n)%nat -> cout (@myrsi_core R ROps n) h = Ok None.
Proof.
  intros Hn Hl. rewrite myrsi_closed_form by exact Hn. unfold spec_myrsi.
  destruct (Nat.ltb_spec (length h) n); [reflexivity | lia].
Qed.
Lemma myrsi_some n h : (1 <= n)%nat -> (n <= length h)%nat ->
  cout (@myrsi_core R ROps n) h = Ok (Some (mval n h)).
Proof.
  intros Hn Hl. rewrite myrsi_closed_form by exact Hn. unfold spec_myrsi.
  destruct (Nat.ltb_spec (length h) n); [lia | reflexivity].
Qed.
(** MyRSI after one more value: [(G-L)/(G+L)] of the new window, or the held value [myrsi_value n h]
    (what it answered before, 0 initially) when the new window is flat *)
Theorem myrsi_answer n h v : (1 <= n)%nat -> (n <= length h + 1)%nat ->
  cout (@myrsi_core R ROps n) (h ++ [v]) =
  Ok (Some (if Req_EM_T (wG n (h ++ [v]) + wL n (h ++ [v])) 0 then mval n h
            else (wG n (h ++ [v]) - wL n (h ++ [v])) / (wG n (h ++ [v]) + wL n (h ++ [v])))).
Proof.
  intros Hn Hl. rewrite myrsi_some; [|exact Hn | rewrite app_length; cbn; lia].
  rewrite mval_snoc, mupd_R. reflexivity.
Qed.

(** * C07: ranges *)
Lemma rval_range n h : 0 <= rval n h <= 100.
Proof.
  rewrite rval_R. pose proof (wG_nonneg n h) as HG. pose proof (wL_nonneg n h) as HL.
  destruct (Req_EM_T (wL n h) 0) as [E|E]; [lra|].
  assert (Hp : 0 < wG n h + wL n h) by lra.
  split.
  - apply Rmult_le_pos; [lra | left; apply Rinv_0_lt_compat; exact Hp].
  - apply (Rmult_le_reg_r (wG n h + wL n h)); [exact Hp|].
    unfold Rdiv. rewrite Rmult_assoc, Rinv_l by lra. lra.
Qed.
Lemma ratio_range G L : 0 <= G -> 0 <= L -> G + L <> 0 -> -1 <= (G - L) / (G + L) <= 1.
Proof.
  intros HG HL Hne. assert (Hp : 0 < G + L) by lra. split.
  - apply (Rmult_le_reg_r (G + L)); [exact Hp|].
    unfold Rdiv. rewrite Rmult_assoc, Rinv_l by lra. lra.
  - apply (Rmult_le_reg_r (G + L)); [exact Hp|].
    unfold Rdiv. rewrite Rmult_assoc, Rinv_l by lra. lra.
Qed.
Lemma mval_range n h : -1 <= mval n h <= 1.
Proof.
  induction h as [|v h IH] using rev_ind; [rewrite mval_nil; lra|].
  rewrite mval_snoc, mupd_R. destruct (Req_EM_T _ 0) as [E|E]; [exact IH|].
  apply ratio_range; [apply wG_nonneg | apply wL_nonneg | exact E].
Qed.

(** C07 (Rsi): every answer is in [0,100] *)
Theorem rsi_range n vs y : (1 <= n)%nat ->
  cout (@rsi_core R ROps n) vs = Ok (Some y) -> 0 <= y <= 100.
Proof.
  intros Hn. rewrite rsi_closed_form by exact Hn. unfold spec_rsi.
  destruct (Nat.ltb (length vs) n); [discriminate|]. intros H. inversion H; subst. apply rval_range.
Qed.
(** C07 (MyRSI): every answer is in [-1,1] *)
Theorem myrsi_range n vs y : (1 <= n)%nat ->
  cout (@myrsi_core R ROps n) vs = Ok (Some y) -> -1 <= y <= 1.
Proof.
  intros Hn. rewrite myrsi_closed_form by exact Hn. unfold spec_myrsi.
  destruct (Nat.ltb (length vs) n); [discriminate|]. intros H. inversion H; subst. apply mval_range.
Qed.

(** C07 over a whole run of the stand-alone views: every answer of every step is in range *)
Theorem rsi_range_run n xs outs : (1 <= n)%nat ->
  mrun (standalone (@rsi_core R ROps n)) xs = Ok outs ->
  forall t y, nth_error outs t = Some (Some y) -> 0 <= y <= 100.
Proof.
  intros Hn Hr t y Ht. apply (rsi_range n (firstn (S t) xs) y Hn).
  exact (@standalone_cout R (@rsi_core R ROps n) xs outs Hr t (Some y) Ht).
Qed.
Theorem myrsi_range_run n xs outs : (1 <= n)%nat ->
  mrun (standalone (@myrsi_core R ROps n)) xs = Ok outs ->
  forall t y, nth_error outs t = Some (Some y) -> -1 <= y <= 1.
Proof.
  intros Hn Hr t y Ht. apply (myrsi_range n (firstn (S t) xs) y Hn).
  exact (@standalone_cout R (@myrsi_core R ROps n) xs outs Hr t (Some y) Ht).
Qed.

(** * The window: the last [n+1] values determine the [n] changes *)
Lemma lastn_lastn_le {A} n m (l : list A) : (n <= m)%nat -> lastn n (lastn m l) = lastn n l.
Proof.
  intros H. destruct (le_lt_dec (length l) m) as [Hl|Hl].
  - rewrite (lastn_all m l) by exact Hl. reflexivity.
  - rewrite <- (firstn_skipn (length l - m) l) at 2. fold (lastn m l).
    symmetry. apply lastn_app_suffix. rewrite lastn_length. lia.
Qed.
Lemma win_suffix n h : lastn n (chg h) = lastn n (chg (lastn (S n) h)).
Proof.
  rewrite (win_changes n h), (win_changes n (lastn (S n) h)).
  rewrite lastn_lastn, lastn_lastn_le by lia. reflexivity.
Qed.
Lemma wG_suffix n h : wG n h = wG n (lastn (S n) h).
Proof. unfold win_gain. rewrite win_suffix. reflexivity. Qed.
Lemma wL_suffix n h : wL n h = wL n (lastn (S n) h).
Proof. unfold win_loss. rewrite win_suffix. reflexivity. Qed.

(** with more than [n] values: the window's changes start from the value just before the window *)
Lemma win_full n h : (n < length h)%nat ->
  exists y, lastn (S n) h = y :: lastn n h /\ lastn n (chg h) = cf y (lastn n h) /\
            length (lastn n h) = n.
Proof.
  intros H. destruct (split_window n h H) as (p & y & w & E & Lw). exists y.
  assert (E1 : lastn (S n) h = y :: w).
  { subst h. rewrite lastn_app_suffix by (cbn; lia). apply lastn_all. cbn; lia. }
  assert (E2 : lastn n h = w).
  { subst h. replace (p ++ y :: w) with ((p ++ [y]) ++ w) by (rewrite <- app_assoc; reflexivity).
    rewrite lastn_app_suffix by lia. apply lastn_all. lia. }
  rewrite win_changes, E1, E2. cbn [hd]. auto.
Qed.

(** * Monotone and flat windows *)
Fixpoint chain (P : R -> R -> Prop) (a : R) (l : list R) : Prop :=
  match l with [] => True | x :: r => P a x /\ chain P x r end.
(** consecutive values related by [P] *)
Definition consecutive (P : R -> R -> Prop) (l : list R) : Prop :=
  match l with [] => True | x :: r => chain P x r end.
Definition strictly_rising := consecutive Rlt.
Definition strictly_falling := consecutive Rgt.
Definition nondecreasing := consecutive Rle.
Definition all_equal := consecutive (@eq R).

Lemma chain_cf (P : R -> R -> Prop) (Q : R -> Prop) a l :
  (forall x y, P x y -> Q (y - x)) -> chain P a l -> Forall Q (cf a l).
Proof.
  intros HPQ. revert a; induction l as [|x l IH]; intros a; cbn [chain changes_from]; [constructor|].
  intros [H1 H2]. constructor; [apply HPQ; exact H1 | apply IH; exact H2].
Qed.

(** ties contribute to neither sum *)
Lemma tie_contributes_zero : gof 0 = 0 /\ lof 0 = 0.
Proof. destruct (gl_cases 0) as [(H&_)|(_&->&->)]; lra. Qed.

Lemma lof_zero d : 0 <= d -> lof d = 0.
Proof. intros H. destruct (gl_cases d) as [(_&_&->)|(H'&_&->)]; lra. Qed.
Lemma gof_zero d : d <= 0 -> gof d = 0.
Proof. intros H. destruct (gl_cases d) as [(H'&_&_)|(_&->&_)]; lra. Qed.
Lemma gof_pos d : 0 < d -> 0 < gof d.
Proof. intros H. destruct (gl_cases d) as [(_&->&_)|(H'&_&_)]; lra. Qed.
Lemma lof_pos d : d < 0 -> 0 < lof d.
Proof. intros H. destruct (gl_cases d) as [(H'&_&_)|(_&_&->)]; lra. Qed.

Lemma Forall_Exists_ne {A} (P : A -> Prop) l : l <> [] -> Forall P l -> Exists P l.
Proof. destruct l; [congruence|]. intros _ H. inversion H; subst. constructor; assumption. Qed.

Lemma G_L_of_window n h (Q : R -> Prop) (P : R -> R -> Prop) :
  (1 <= n)%nat -> (n < length h)%nat -> (forall x y, P x y -> Q (y - x)) ->
  consecutive P (lastn (S n) h) ->
  Forall Q (lastn n (chg h)) /\ lastn n (chg h) <> [].
Proof.
  intros Hn Hl HPQ Hc. destruct (win_full n h Hl) as (y & E1 & E2 & E3).
  rewrite E1 in Hc. cbn [consecutive] in Hc. rewrite E2. split.
  - apply (chain_cf P Q); assumption.
  - intros E. apply (f_equal (@length R)) in E. rewrite cf_length, E3 in E. cbn in E. lia.
Qed.

(** a strictly rising window: L = 0 < G *)
Lemma rising_G_L n h : (1 <= n)%nat -> (n < length h)%nat -> strictly_rising (lastn (S n) h) ->
  0 < wG n h /\ wL n h = 0.
Proof.
  intros Hn Hl Hr.
  destruct (G_L_of_window n h (fun d => 0 < d) Rlt Hn Hl) as [HF Hne]; [intros; lra | exact Hr |].
  split.
  - apply smap_pos; [apply gof_nonneg|]. apply Forall_Exists_ne; [exact Hne|].
    revert HF. apply Forall_impl. intros d. apply gof_pos.
  - apply smap_zero. revert HF. apply Forall_impl. intros d Hd. apply lof_zero. lra.
Qed.
Lemma falling_G_L n h : (1 <= n)%nat -> (n < length h)%nat -> strictly_falling (lastn (S n) h) ->
  wG n h = 0 /\ 0 < wL n h.
Proof.
  intros Hn Hl Hr.
  destruct (G_L_of_window n h (fun d => d < 0) Rgt Hn Hl) as [HF Hne]; [intros; lra | exact Hr |].
  split.
  - apply smap_zero. revert HF. apply Forall_impl. intros d Hd. apply gof_zero. lra.
  - apply smap_pos; [apply lof_nonneg|]. apply Forall_Exists_ne; [exact Hne|].
    revert HF. apply Forall_impl. intros d. apply lof_pos.
Qed.
Lemma flat_G_L n h : (1 <= n)%nat -> (n < length h)%nat -> all_equal (lastn (S n) h) ->
  wG n h = 0 /\ wL n h = 0.
Proof.
  intros Hn Hl Hr.
  destruct (G_L_of_window n h (fun d => d = 0) (@eq R) Hn Hl) as [HF Hne]; [intros; lra | exact Hr |].
  split; apply smap_zero; revert HF; apply Forall_impl; intros d ->; apply tie_contributes_zero.
Qed.
Lemma nondecreasing_L n h : (1 <= n)%nat -> (n < length h)%nat -> nondecreasing (lastn (S n) h) ->
  wL n h = 0.
Proof.
  intros Hn Hl Hr.
  destruct (G_L_of_window n h (fun d => 0 <= d) Rle Hn Hl) as [HF Hne]; [intros; lra | exact Hr |].
  apply smap_zero. revert HF. apply Forall_impl. intros d Hd. apply lof_zero. exact Hd.
Qed.

Lemma length_pos_snoc {A} (h : list A) : (0 < length h)%nat -> exists h' v, h = h' ++ [v].
Proof.
  intros H. destruct (exists_last (l:=h)) as (h' & v & E); [destruct h; cbn in H; [lia | discriminate]|].
  eauto.
Qed.

(** C05: a strictly rising window (the last n+1 values) gives 100 / +1 *)
Theorem rsi_rising n h : (1 <= n)%nat -> (n < length h)%nat -> strictly_rising (lastn (S n) h) ->
  cout (@rsi_core R ROps n) h = Ok (Some 100).
Proof.
  intros Hn Hl Hr. destruct (rising_G_L n h Hn Hl Hr) as [HG HL].
  rewrite rsi_answer by (try exact Hn; lia). destruct (Req_EM_T (wL n h) 0); [reflexivity | contradiction].
Qed.
(** more generally a window without a fall gives 100 *)
Theorem rsi_nondecreasing n h : (1 <= n)%nat -> (n < length h)%nat -> nondecreasing (lastn (S n) h) ->
  cout (@rsi_core R ROps n) h = Ok (Some 100).
Proof.
  intros Hn Hl Hr. pose proof (nondecreasing_L n h Hn Hl Hr) as HL.
  rewrite rsi_answer by (try exact Hn; lia). destruct (Req_EM_T (wL n h) 0); [reflexivity | contradiction].
Qed.
Theorem myrsi_rising n h : (1 <= n)%nat -> (n < length h)%nat -> strictly_rising (lastn (S n) h) ->
  cout (@myrsi_core R ROps n) h = Ok (Some 1).
Proof.
  intros Hn Hl Hr. destruct (rising_G_L n h Hn Hl Hr) as [HG HL].
  destruct (length_pos_snoc h) as (h' & v & ->); [lia|].
  rewrite app_length in Hl. cbn in Hl.
  rewrite myrsi_answer by (try exact Hn; lia). rewrite HL.
  destruct (Req_EM_T _ 0) as [E|E]; [lra|]. do 2 f_equal. field. lra.
Qed.
(** C05: a strictly falling window gives 0 / -1 *)
Theorem rsi_falling n h : (1 <= n)%nat -> (n < length h)%nat -> strictly_falling (lastn (S n) h) ->
  cout (@rsi_core R ROps n) h = Ok (Some 0).
Proof.
  intros Hn Hl Hr. destruct (falling_G_L n h Hn Hl Hr) as [HG HL].
  rewrite rsi_answer by (try exact Hn; lia). rewrite HG.
  destruct (Req_EM_T (wL n h) 0); [lra|]. do 2 f_equal. field. lra.
Qed.
Theorem myrsi_falling n h : (1 <= n)%nat -> (n < length h)%nat -> strictly_falling (lastn (S n) h) ->
  cout (@myrsi_core R ROps n) h = Ok (Some (-1)).
Proof.
  intros Hn Hl Hr. destruct (falling_G_L n h Hn Hl Hr) as [HG HL].
  destruct (length_pos_snoc h) as (h' & v & ->); [lia|].
  rewrite app_length in Hl. cbn in Hl.
  rewrite myrsi_answer by (try exact Hn; lia). rewrite HG.
  destruct (Req_EM_T _ 0) as [E|E]; [lra|]. do 2 f_equal. field. lra.
Qed.

(** C16 (exact half): the last n+1 values identical: Rsi = 100, MyRSI keeps its previous output *)
Theorem rsi_flat n h : (1 <= n)%nat -> (n < length h)%nat -> all_equal (lastn (S n) h) ->
  cout (@rsi_core R ROps n) h = Ok (Some 100).
Proof.
  intros Hn Hl Hr. destruct (flat_G_L n h Hn Hl Hr) as [HG HL].
  rewrite rsi_answer by (try exact Hn; lia). destruct (Req_EM_T (wL n h) 0); [reflexivity | contradiction].
Qed.
Theorem myrsi_flat n h v : (1 <= n)%nat -> (n <= length h)%nat -> all_equal (lastn (S n) (h ++ [v])) ->
  cout (@myrsi_core R ROps n) (h ++ [v]) = cout (@myrsi_core R ROps n) h.
Proof.
  intros Hn Hl Hr.
  destruct (flat_G_L n (h ++ [v]) Hn) as [HG HL]; [rewrite app_length; cbn; lia | exact Hr |].
  rewrite myrsi_answer by (try exact Hn; lia). rewrite HG, HL.
  destruct (Req_EM_T _ 0) as [E|E]; [|lra]. rewrite myrsi_some by assumption. reflexivity.
Qed.

(** * Transformations of the input: negation and positive scaling *)
Lemma lastn_map {A B} (f : A -> B) n l : lastn n (map f l) = map f (lastn n l).
Proof. unfold lastn. rewrite map_length, skipn_map. reflexivity. Qed.

Lemma cf_map (f : R -> R) (Hf : forall x y, f x - f y = f (x - y)) a l :
  cf (f a) (map f l) = map f (cf a l).
Proof.
  revert a; induction l as [|x l IH]; intros a; cbn [map changes_from]; [reflexivity|].
  rewrite IH. cbn [ssub ROps]. rewrite Hf. reflexivity.
Qed.
Lemma chg_map (f : R -> R) (Hf : forall x y, f x - f y = f (x - y)) h : chg (map f h) = map f (chg h).
Proof.
  destruct h as [|x r]; [reflexivity|]. cbn [map changes]. rewrite cf_map by exact Hf.
  f_equal. cbn [s0 ROps]. pose proof (Hf x x) as H. replace (x - x) with 0 in H by lra. lra.
Qed.
Lemma wsum_map (g g' f : R -> R) (Hf : forall x y, f x - f y = f (x - y)) n h :
  (forall d, g (f d) = g' d) ->
  @ssum R ROps (map g (lastn n (chg (map f h)))) = @ssum R ROps (map g' (lastn n (chg h))).
Proof.
  intros Hg. rewrite chg_map by exact Hf. rewrite lastn_map, map_map. f_equal. apply map_ext. exact Hg.
Qed.

Lemma opp_lin x y : - x - - y = - (x - y). Proof. lra. Qed.
Lemma mul_lin a x y : a * x - a * y = a * (x - y). Proof. lra. Qed.

Lemma gof_opp d : gof (- d) = lof d.
Proof.
  destruct (gl_cases d) as [(H&_&->)|(H&_&->)]; destruct (gl_cases (- d)) as [(H'&->&_)|(H'&->&_)]; lra.
Qed.
Lemma lof_opp d : lof (- d) = gof d.
Proof.
  destruct (gl_cases d) as [(H&->&_)|(H&->&_)]; destruct (gl_cases (- d)) as [(H'&_&->)|(H'&_&->)]; lra.
Qed.
(** negating the input swaps G and L *)
Lemma wG_opp n h : wG n (map Ropp h) = wL n h.
Proof. apply (wsum_map gof lof Ropp opp_lin). exact gof_opp. Qed.
Lemma wL_opp n h : wL n (map Ropp h) = wG n h.
Proof. apply (wsum_map lof gof Ropp opp_lin). exact lof_opp. Qed.

Lemma smap_scale (g : R -> R) a l :
  @ssum R ROps (map (fun d => a * g d) l) = a * @ssum R ROps (map g l).
Proof.
  induction l as [|d l IH]; [cbn; lra|].
  rewrite (smap_cons (fun d => a * g d)), (smap_cons g), IH. lra.
Qed.
Lemma gof_scale a d : 0 < a -> gof (a * d) = a * gof d.
Proof.
  intros Ha.
  destruct (gl_cases d) as [(H&->&_)|(H&->&_)]; destruct (gl_cases (a * d)) as [(H'&->&_)|(H'&->&_)];
    try lra.
  - pose proof (Rmult_lt_0_compat a d Ha H). lra.
  - assert (a * d <= 0) by (rewrite <- (Rmult_0_r a); apply Rmult_le_compat_l; lra). lra.
Qed.
Lemma lof_scale a d : 0 < a -> lof (a * d) = a * lof d.
Proof.
  intros Ha.
  destruct (gl_cases d) as [(H&_&->)|(H&_&->)]; destruct (gl_cases (a * d)) as [(H'&_&->)|(H'&_&->)];
    try lra.
  - pose proof (Rmult_lt_0_compat a d Ha H). lra.
  - assert (a * d <= 0) by (rewrite <- (Rmult_0_r a); apply Rmult_le_compat_l; lra). lra.
Qed.
(** scaling the input by [a > 0] scales G and L *)
Lemma wG_scale n a h : 0 < a -> wG n (map (Rmult a) h) = a * wG n h.
Proof.
  intros Ha. unfold win_gain, gains.
  rewrite (wsum_map gof (fun d => a * gof d) (Rmult a) (mul_lin a)) by (intros; apply gof_scale; exact Ha).
  apply smap_scale.
Qed.
Lemma wL_scale n a h : 0 < a -> wL n (map (Rmult a) h) = a * wL n h.
Proof.
  intros Ha. unfold win_loss, losses.
  rewrite (wsum_map lof (fun d => a * lof d) (Rmult a) (mul_lin a)) by (intros; apply lof_scale; exact Ha).
  apply smap_scale.
Qed.

Lemma mval_opp n h : mval n (map Ropp h) = - mval n h.
Proof.
  induction h as [|v h IH] using rev_ind; [cbn [map]; rewrite mval_nil; lra|].
  rewrite map_app. cbn [map]. rewrite !mval_snoc, !mupd_R, IH.
  change (map Ropp h ++ [- v]) with (map Ropp h ++ map Ropp [v]). rewrite <- map_app.
  rewrite wG_opp, wL_opp.
  destruct (Req_EM_T (wL n (h ++ [v]) + wG n (h ++ [v])) 0) as [E|E];
    destruct (Req_EM_T (wG n (h ++ [v]) + wL n (h ++ [v])) 0) as [E'|E']; try lra.
  field. lra.
Qed.
Lemma mval_scale n a h : 0 < a -> mval n (map (Rmult a) h) = mval n h.
Proof.
  intros Ha. induction h as [|v h IH] using rev_ind; [reflexivity|].
  rewrite map_app. cbn [map]. rewrite !mval_snoc, !mupd_R, IH.
  change (map (Rmult a) h ++ [a * v]) with (map (Rmult a) h ++ map (Rmult a) [v]). rewrite <- map_app.
  rewrite wG_scale, wL_scale by exact Ha.
  pose proof (wG_nonneg n (h ++ [v])). pose proof (wL_nonneg n (h ++ [v])).
  set (G := wG n (h ++ [v])) in *. set (L := wL n (h ++ [v])) in *. clearbody G L.
  destruct (Req_EM_T (a * G + a * L) 0) as [E|E]; destruct (Req_EM_T (G + L) 0) as [E'|E'].
  - reflexivity.
  - exfalso. apply E'. apply (Rmult_eq_reg_l a); lra.
  - exfalso. apply E. replace (a * G + a * L) with (a * (G + L)) by lra. rewrite E'. lra.
  - field. split; [exact E' | lra].
Qed.

(** C05: negating the input maps Rsi to 100 - Rsi whenever the window is not flat *)
Theorem rsi_negation n h y : (1 <= n)%nat -> wG n h + wL n h <> 0 ->
  cout (@rsi_core R ROps n) h = Ok (Some y) ->
  cout (@rsi_core R ROps n) (map Ropp h) = Ok (Some (100 - y)).
Proof.
  intros Hn Hne. rewrite !rsi_closed_form by exact Hn. unfold spec_rsi. rewrite map_length.
  destruct (Nat.ltb (length h) n); [discriminate|]. intros H. inversion H; subst y. clear H.
  do 2 f_equal. rewrite !rval_R, wG_opp, wL_opp.
  pose proof (wG_nonneg n h). pose proof (wL_nonneg n h).
  destruct (Req_EM_T (wG n h) 0) as [E|E]; destruct (Req_EM_T (wL n h) 0) as [E'|E'].
  - lra.
  - rewrite E. field. lra.
  - rewrite E'. field. lra.
  - field. lra.
Qed.
(** ... and the guard is needed: on a flat window both answer 100 *)
Theorem rsi_negation_flat n h : (1 <= n)%nat -> (n <= length h)%nat -> wG n h + wL n h = 0 ->
  cout (@rsi_core R ROps n) h = Ok (Some 100) /\ cout (@rsi_core R ROps n) (map Ropp h) = Ok (Some 100).
Proof.
  intros Hn Hl H0. pose proof (wG_nonneg n h). pose proof (wL_nonneg n h).
  rewrite !rsi_answer by (try exact Hn; rewrite ?map_length; lia). rewrite wG_opp, wL_opp.
  destruct (Req_EM_T (wG n h) 0); destruct (Req_EM_T (wL n h) 0); try lra. auto.
Qed.
(** C05: negating the input maps MyRSI to -MyRSI (held values included, so no guard is needed) *)
Theorem myrsi_negation n h : (1 <= n)%nat ->
  cout (@myrsi_core R ROps n) (map Ropp h) = Ok (option_map Ropp (@spec_myrsi R ROps n h)).
Proof.
  intros Hn. rewrite myrsi_closed_form by exact Hn. unfold spec_myrsi. rewrite map_length.
  destruct (Nat.ltb (length h) n); [reflexivity|]. cbn [option_map]. rewrite mval_opp. reflexivity.
Qed.
Corollary myrsi_negation_some n h y : (1 <= n)%nat ->
  cout (@myrsi_core R ROps n) h = Ok (Some y) ->
  cout (@myrsi_core R ROps n) (map Ropp h) = Ok (Some (- y)).
Proof.
  intros Hn H. rewrite myrsi_negation by exact Hn. rewrite myrsi_closed_form in H by exact Hn.
  inversion H as [H']. rewrite H'. reflexivity.
Qed.

(** C12: both views are unchanged under x -> a*x, a > 0 *)
Theorem rsi_scale_invariant n a h : (1 <= n)%nat -> 0 < a ->
  cout (@rsi_core R ROps n) (map (Rmult a) h) = cout (@rsi_core R ROps n) h.
Proof.
  intros Hn Ha. rewrite !rsi_closed_form by exact Hn. unfold spec_rsi. rewrite map_length.
  destruct (Nat.ltb (length h) n); [reflexivity|]. do 2 f_equal.
  rewrite !rval_R, wG_scale, wL_scale by exact Ha.
  pose proof (wG_nonneg n h). pose proof (wL_nonneg n h).
  set (G := wG n h) in *. set (L := wL n h) in *. clearbody G L.
  destruct (Req_EM_T (a * L) 0) as [E|E]; destruct (Req_EM_T L 0) as [E'|E'].
  - reflexivity.
  - exfalso. apply E'. apply (Rmult_eq_reg_l a); lra.
  - exfalso. apply E. rewrite E'. lra.
  - field. split; [lra|]. assert (0 < a * (G + L)) by (apply Rmult_lt_0_compat; lra). lra.
Qed.
Theorem myrsi_scale_invariant n a h : (1 <= n)%nat -> 0 < a ->
  cout (@myrsi_core R ROps n) (map (Rmult a) h) = cout (@myrsi_core R ROps n) h.
Proof.
  intros Hn Ha. rewrite !myrsi_closed_form by exact Hn. unfold spec_myrsi. rewrite map_length.
  destruct (Nat.ltb (length h) n); [reflexivity|]. rewrite mval_scale by exact Ha. reflexivity.
Qed.

(** * C03: finite memory, K = n+1 *)
Lemma wG_app_suffix n p s : (S n <= length s)%nat -> wG n (p ++ s) = wG n s.
Proof. intros H. rewrite (wG_suffix n (p ++ s)), (wG_suffix n s), lastn_app_suffix by exact H. reflexivity. Qed.
Lemma wL_app_suffix n p s : (S n <= length s)%nat -> wL n (p ++ s) = wL n s.
Proof. intros H. rewrite (wL_suffix n (p ++ s)), (wL_suffix n s), lastn_app_suffix by exact H. reflexivity. Qed.

(** C03 (Rsi): the answer is a function of the last n+1 values *)
Theorem rsi_finite_memory n p s : (1 <= n)%nat -> (S n <= length s)%nat ->
  cout (@rsi_core R ROps n) (p ++ s) = cout (@rsi_core R ROps n) s.
Proof.
  intros Hn Hs. rewrite !rsi_answer by (try exact Hn; rewrite ?app_length; lia).
  rewrite wG_app_suffix, wL_app_suffix by exact Hs. reflexivity.
Qed.
Corollary rsi_finite_memory2 n p p' s : (1 <= n)%nat -> (S n <= length s)%nat ->
  cout (@rsi_core R ROps n) (p ++ s) = cout (@rsi_core R ROps n) (p' ++ s).
Proof. intros Hn Hs. rewrite !rsi_finite_memory by assumption. reflexivity. Qed.

(** C03 (MyRSI): a function of the last n+1 values when the final window is not flat ... *)
Theorem myrsi_finite_memory n p s : (1 <= n)%nat -> (S n <= length s)%nat ->
  wG n s + wL n s <> 0 ->
  cout (@myrsi_core R ROps n) (p ++ s) = Ok (Some ((wG n s - wL n s) / (wG n s + wL n s))).
Proof.
  intros Hn Hs Hne. destruct (length_pos_snoc s) as (s' & v & E); [lia|].
  assert (Hl : length s = (length s' + 1)%nat) by (rewrite E, app_length; reflexivity).
  rewrite E, app_assoc.
  rewrite myrsi_answer by (try exact Hn; rewrite app_length; lia).
  rewrite <- app_assoc, <- E. rewrite wG_app_suffix, wL_app_suffix by exact Hs.
  destruct (Req_EM_T _ 0); [contradiction | reflexivity].
Qed.
Corollary myrsi_finite_memory2 n p p' s : (1 <= n)%nat -> (S n <= length s)%nat ->
  wG n s + wL n s <> 0 ->
  cout (@myrsi_core R ROps n) (p ++ s) = cout (@myrsi_core R ROps n) (p' ++ s).
Proof. intros Hn Hs Hne. rewrite !myrsi_finite_memory by assumption. reflexivity. Qed.
(** ... and otherwise the previous answer is repeated *)
Theorem myrsi_hold n h v : (1 <= n)%nat -> (n <= length h)%nat ->
  wG n (h ++ [v]) + wL n (h ++ [v]) = 0 ->
  cout (@myrsi_core R ROps n) (h ++ [v]) = cout (@myrsi_core R ROps n) h.
Proof.
  intros Hn Hl H0. rewrite myrsi_answer by (try exact Hn; lia).
  destruct (Req_EM_T _ 0); [|contradiction]. rewrite myrsi_some by assumption. reflexivity.
Qed.

(** so MyRSI has no finite memory: after a jump followed by any number of repeated values it still
    answers the sign of the jump *)
Lemma Forall_lastn {A} (P : A -> Prop) n l : Forall P l -> Forall P (lastn n l).
Proof.
  intros H. unfold lastn. rewrite <- (firstn_skipn (length l - n) l) in H.
  apply Forall_app in H. apply H.
Qed.
Lemma cf_repeat b m : Forall (fun d => d = 0) (cf b (repeat b m)).
Proof.
  induction m as [|m IH]; cbn [repeat changes_from]; constructor; [cbn [ssub ROps]; lra | exact IH].
Qed.
Lemma chg_jump_nonneg a b m : a <= b -> Forall (fun d => 0 <= d) (chg (a :: repeat b m)).
Proof.
  intros H. cbn [changes]. constructor; [cbn; lra|].
  destruct m as [|m]; cbn [repeat changes_from]; constructor; [cbn [ssub ROps]; lra|].
  generalize (cf_repeat b m). apply Forall_impl. intros d ->. lra.
Qed.
Lemma wL_zero_of_nonneg n h : Forall (fun d => 0 <= d) (chg h) -> wL n h = 0.
Proof.
  intros H. apply smap_zero. generalize (Forall_lastn _ n _ H). apply Forall_impl.
  intros d. apply lof_zero.
Qed.
Lemma wG_snoc_ge n h v : (1 <= n)%nat -> gof (v - last h v) <= wG n (h ++ [v]).
Proof.
  intros Hn. unfold win_gain, gains. rewrite chg_snoc.
  rewrite <- (evict_push_lastn n (chg h) (v - last h v) Hn), smap_app.
  match goal with |- _ <= ?s + _ => assert (0 <= s) by (apply smap_nonneg, gof_nonneg) end. lra.
Qed.
Lemma mval_after_jump_up n a b k : (1 <= n)%nat -> a < b -> mval n (a :: repeat b (S k)) = 1.
Proof.
  intros Hn Hab. induction k as [|k IH].
  - change (a :: repeat b 1) with ([a] ++ [b]). rewrite mval_snoc, mupd_R.
    assert (HL : wL n ([a] ++ [b]) = 0).
    { apply wL_zero_of_nonneg. change ([a] ++ [b]) with (a :: repeat b 1). apply chg_jump_nonneg. lra. }
    rewrite HL.
    pose proof (wG_snoc_ge n [a] b Hn) as HG. cbn [last] in HG.
    pose proof (gof_pos (b - a)). destruct (Req_EM_T _ 0); [lra | field; lra].
  - replace (a :: repeat b (S (S k))) with ((a :: repeat b (S k)) ++ [b])
      by (rewrite <- app_comm_cons, <- (repeat_cons (S k) b); reflexivity).
    rewrite mval_snoc, mupd_R, IH.
    rewrite wL_zero_of_nonneg.
    + destruct (Req_EM_T _ 0); [reflexivity | field; lra].
    + rewrite <- app_comm_cons, <- repeat_cons. apply (chg_jump_nonneg a b (S (S k))). lra.
Qed.
Lemma map_repeat' {A B} (f : A -> B) x m : map f (repeat x m) = repeat (f x) m.
Proof. induction m as [|m IH]; cbn; [reflexivity | rewrite IH; reflexivity]. Qed.
Lemma mval_after_jump_down n a b k : (1 <= n)%nat -> b < a -> mval n (a :: repeat b (S k)) = -1.
Proof.
  intros Hn Hab. pose proof (mval_opp n (a :: repeat b (S k))) as H.
  cbn [map] in H. rewrite map_repeat' in H. rewrite mval_after_jump_up in H by (try exact Hn; lra). lra.
Qed.

(** C03 fails for MyRSI without the guard, for every memory length K *)
Theorem myrsi_no_finite_memory n K : (1 <= n)%nat -> (n <= K)%nat ->
  exists p p' s, length s = K /\
    cout (@myrsi_core R ROps n) (p ++ s) = Ok (Some 1) /\
    cout (@myrsi_core R ROps n) (p' ++ s) = Ok (Some (-1)).
Proof.
  intros Hn HK. exists [4], [6], (repeat 5 K). rewrite repeat_length. split; [reflexivity|].
  destruct K as [|k]; [lia|]. cbn [app].
  rewrite !myrsi_some by (try exact Hn; cbn [length]; rewrite repeat_length; lia).
  rewrite mval_after_jump_up, mval_after_jump_down by (try exact Hn; lra). auto.
Qed.

(** * Examples: the hypotheses of the main theorems are satisfiable *)
Example ex_rising_hyp : (1 <= 2)%nat /\ (2 < length [1; 2; 4])%nat /\ strictly_rising (lastn 3 [1; 2; 4]).
Proof. repeat split; cbn; try lia; lra. Qed.
Example ex_falling_hyp : (1 <= 2)%nat /\ (2 < length [4; 2; 1])%nat /\ strictly_falling (lastn 3 [4; 2; 1]).
Proof. repeat split; cbn; try lia; lra. Qed.
Example ex_flat_hyp : (1 <= 2)%nat /\ (2 <= length [5; 5])%nat /\ all_equal (lastn 3 ([5; 5] ++ [5])).
Proof. repeat split; cbn; lia. Qed.
Example ex_rsi_rising : cout (@rsi_core R ROps 2) [1; 2; 4] = Ok (Some 100).
Proof. apply rsi_rising; apply ex_rising_hyp. Qed.
Example ex_myrsi_rising : cout (@myrsi_core R ROps 2) [1; 2; 4] = Ok (Some 1).
Proof. apply myrsi_rising; apply ex_rising_hyp. Qed.
Example ex_rsi_falling : cout (@rsi_core R ROps 2) [4; 2; 1] = Ok (Some 0).
Proof. apply rsi_falling; apply ex_falling_hyp. Qed.
Example ex_myrsi_falling : cout (@myrsi_core R ROps 2) [4; 2; 1] = Ok (Some (-1)).
Proof. apply myrsi_falling; apply ex_falling_hyp. Qed.
(** a window that is not flat (guard of [rsi_negation], [myrsi_finite_memory]) *)
Example ex_nonflat : (S 2 <= length [1; 2; 4])%nat /\ wG 2 [1; 2; 4] + wL 2 [1; 2; 4] <> 0.
Proof.
  split; [cbn; lia|].
  destruct (rising_G_L 2 [1; 2; 4]) as [HG HL]; try apply ex_rising_hyp. lra.
Qed.
Example ex_rsi_negation : cout (@rsi_core R ROps 2) (map Ropp [1; 2; 4]) = Ok (Some (100 - 100)).
Proof. apply rsi_negation; [lia | apply ex_nonflat | apply ex_rsi_rising]. Qed.
(** a flat window (guard of [myrsi_hold], [rsi_negation_flat]) *)
Example ex_flat_window : (2 <= length [5; 5])%nat /\ wG 2 ([5; 5] ++ [5]) + wL 2 ([5; 5] ++ [5]) = 0.
Proof.
  split; [cbn; lia|].
  destruct (flat_G_L 2 ([5; 5] ++ [5])) as [HG HL]; [lia | cbn; lia | apply ex_flat_hyp | lra].
Qed.
Example ex_scale_hyp : 0 < 2. Proof. lra. Qed.
(** an answer exists (hypothesis of the range theorems) *)
Example ex_range_hyp : exists y, cout (@rsi_core R ROps 2) [1; 2; 4] = Ok (Some y) /\
                                 cout (@myrsi_core R ROps 2) [4; 2; 1] = Ok (Some (- y / 100)).
Proof. exists 100. split; [apply ex_rsi_rising|]. rewrite ex_myrsi_falling. do 2 f_equal. lra. Qed.
Example ex_no_memory_hyp : (1 <= 2)%nat /\ (2 <= 7)%nat. Proof. lia. Qed.

From Coq Require Import QArith.
Open Scope R_scope.
(** the specifications are executable: model and specification agree at [Q] on a sample history *)
Example ex_exec_rsi :
  let h := [3; 5; 4; 4; 7; 6; 6; 6; 2; 9]%Q in
  map (fun t => cout (@rsi_core Q QOps 3) (firstn t h)) (seq 0 11)
  = map (fun t => Ok (@spec_rsi Q QOps 3 (firstn t h))) (seq 0 11).
Proof. vm_compute. reflexivity. Qed.
Example ex_exec_myrsi :
  let h := [3; 3; 3; 3; 5; 4; 4; 4; 4; 7; 6; 2; 9]%Q in
  map (fun t => cout (@myrsi_core Q QOps 3) (firstn t h)) (seq 0 14)
  = map (fun t => Ok (@spec_myrsi Q QOps 3 (firstn t h))) (seq 0 14).
Proof. vm_compute. reflexivity. Qed.

Print Assumptions rsi_closed_form.
Print Assumptions myrsi_closed_form.
Print Assumptions rsi_answer.
Print Assumptions myrsi_answer.
Print Assumptions rsi_range.
Print Assumptions myrsi_range.
Print Assumptions rsi_range_run.
Print Assumptions myrsi_range_run.
Print Assumptions rsi_rising.
Print Assumptions rsi_nondecreasing.
Print Assumptions myrsi_rising.
Print Assumptions rsi_falling.
Print Assumptions myrsi_falling.
Print Assumptions tie_contributes_zero.
Print Assumptions rsi_negation.
Print Assumptions rsi_negation_flat.
Print Assumptions myrsi_negation.
Print Assumptions myrsi_negation_some.
Print Assumptions rsi_finite_memory.
Print Assumptions rsi_finite_memory2.
Print Assumptions myrsi_finite_memory.
Print Assumptions myrsi_finite_memory2.
Print Assumptions myrsi_hold.
Print Assumptions myrsi_no_finite_memory.
Print Assumptions rsi_scale_invariant.
Print Assumptions myrsi_scale_invariant.
Print Assumptions rsi_flat.
Print Assumptions myrsi_flat.
