(** Sma (sma.rs): the incremental state is the window and its sum; C02 closed form at [R]. *)
From Coq Require Import List Arith Lia Reals Lra.
From SF Require Import Res Scalar View Models Spec Core.
From SF.Proofs Require Import Window RBase.
Import ListNotations.
Open Scope R_scope.

Definition sma_inv (n : nat) (h : list R) (s : @sma_st R) : Prop :=
  sma_q s = lastn n h /\ sma_sum s = @ssum R ROps (lastn n h).

Lemma sma_step_inv n h s v : (1 <= n)%nat -> sma_inv n h s ->
  exists s', sma_step n s v = Ok s' /\ sma_inv n (h ++ [v]) s'.
Proof.
  intros Hn [Hq Hs]. unfold sma_step. rewrite Hq.
  pose proof (evict_push_lastn n h v Hn) as Hev.
  destruct (Nat.leb n (length (lastn n h))) eqn:E.
  - apply Nat.leb_le in E. rewrite lastn_length in E.
    destruct (lastn_hd_tl n h) as [x Hx]; [lia | lia |].
    rewrite Hx in *. cbn [pop_front bind tl] in *.
    eexists; split; [reflexivity|]. split; cbn [sma_q sma_sum].
    + exact Hev.
    + rewrite <- Hev, Hs. rewrite ssum_R_app, ssum_R_cons. cbn. lra.
  - cbn [bind]. eexists; split; [reflexivity|]. split; cbn [sma_q sma_sum].
    + exact Hev.
    + rewrite <- Hev, Hs, ssum_R_app. reflexivity.
Qed.

Theorem sma_closed_form n vs : (1 <= n)%nat ->
  cout (@sma_core R ROps n) vs = Ok (@spec_sma R ROps n vs).
Proof.
  intros Hn.
  destruct (@crun_inv R (@sma_core R ROps n) (fun _ => True) (sma_inv n) {| sma_q := []; sma_sum := 0 |}) with (vs:=vs) as [s [Hr [Hq Hs]]].
  - reflexivity.
  - split; reflexivity.
  - intros h s v _ _ Hi. apply sma_step_inv; assumption.
  - apply Forall_forall; trivial.
  - unfold cout. rewrite Hr. cbn [bind clast sma_core]. unfold sma_last, spec_sma. rewrite Hq, lastn_length.
    destruct (Nat.ltb_spec (length vs) n) as [H|H].
    + replace (Nat.min n (length vs)) with (length vs) by lia.
      destruct (Nat.ltb_spec (length vs) n); [reflexivity | lia].
    + replace (Nat.min n (length vs)) with n by lia. rewrite Nat.ltb_irrefl.
      rewrite sdiv_R_ok by (apply INR_pos_neq; lia). cbn [bind].
      unfold smean. rewrite lastn_length. replace (Nat.min n (length vs)) with n by lia.
      rewrite sdivd_R by (apply INR_pos_neq; lia). rewrite Hs. reflexivity.
Qed.
