(** C15/C08 for cumulative, min, max, roc. *)
From Coq Require Import List Arith Lia Reals Lra ZArith.
From SF Require Import Res Scalar View Models Spec Core.
From SF.Proofs Require Import Window RBase SafeBase SafeTac.
Import ListNotations.
Open Scope R_scope.

(** an optional answer that is absent before the first value and present afterwards *)
Definition opt_at1 {A} (k : nat) (o : option A) : Prop := (k = 0%nat -> o = None) /\ ((1 <= k)%nat -> o <> None).
Lemma opt_at1_0 {A} : @opt_at1 A 0 None.
Proof. split; [reflexivity | lia]. Qed.
Lemma opt_at1_S {A} k (x : A) : opt_at1 (S k) (Some x).
Proof. split; [lia | discriminate]. Qed.
Lemma opt_at1_ready {A} k (o : option A) : opt_at1 k o ->
  ((k < 1)%nat -> Ok o = @Ok (option A) None) /\ ((1 <= k)%nat -> exists y, Ok o = @Ok (option A) (Some y)).
Proof.
  intros [H0 H1]. split; intros Hk.
  - rewrite H0 by lia. reflexivity.
  - destruct o as [y|]; [eauto | exfalso; apply (H1 Hk); reflexivity].
Qed.

(* ---------------------------------------------------------------- cumulative *)
Definition cum_I (n k : nat) (s : @cum_st R) : Prop :=
  length (cum_q s) = Nat.min n k /\ opt_at1 k (cum_out s).

Lemma cum_safe n : (1 <= n)%nat -> Safe (@cumulative_core R ROps n) (fun _ => True) (cum_I n).
Proof.
  intros Hn. constructor.
  - eexists. split; [reflexivity|]. split; [cbn; lia | apply opt_at1_0].
  - intros k s v [Hi Ho] _. cbn [cstep cumulative_core]. unfold cum_step.
    destruct (Nat.leb_spec n (length (cum_q s))) as [Hf|Hf].
    + destruct (full_nonempty n (cum_q s) Hn Hf) as [x [r Hq]]. rewrite Hq. cbn [pop_front bind].
      eexists. split; [reflexivity|]. split; cbn [cum_q cum_out]; [|apply opt_at1_S].
      rewrite Hq in Hi, Hf. rewrite app_length. cbn in *. lia.
    + cbn [bind]. eexists. split; [reflexivity|]. split; cbn [cum_q cum_out]; [|apply opt_at1_S].
      apply len_push_notfull; assumption.
  - intros k s _. cbn. eauto.
Qed.
Lemma cum_ready n : ReadyAt (@cumulative_core R ROps n) (cum_I n) 1.
Proof. intros k s [_ Ho]. cbn [clast cumulative_core]. apply opt_at1_ready. exact Ho. Qed.

(** C15 Cumulative *)
Theorem safe_cumulative n vs : (1 <= n)%nat ->
  exists s o, crun (@cumulative_core R ROps n) vs = Ok s /\ clast (@cumulative_core R ROps n) s = Ok o.
Proof. intros Hn. apply (safe_run (cum_safe n Hn)). apply trueD. Qed.
(** C08 Cumulative *)
Theorem ready_mono_cumulative n : (1 <= n)%nat ->
  CReadyMono (@cumulative_core R ROps n) (fun _ => True) (InvOf (@cumulative_core R ROps n) (cum_I n)).
Proof. intros Hn. exact (ready_at_mono (cum_safe n Hn) (@cum_ready n)). Qed.
Theorem warmup_cumulative n vs : (1 <= n)%nat ->
  (cout (@cumulative_core R ROps n) vs = Ok None <-> (length vs < 1)%nat).
Proof. intros Hn. apply (warmup_none (cum_safe n Hn) (@cum_ready n)). apply trueD. Qed.

(* ---------------------------------------------------------------- min / max *)
Definition ext_I (n k : nat) (s : @ext_st R) : Prop :=
  length (ext_q s) = Nat.min n k /\ opt_at1 k (ext_opt s).

Lemma ext_new_ok n : (1 <= n)%nat -> @ext_new R n = Ok {| ext_q := []; ext_opt := None |}.
Proof. intros Hn. unfold ext_new. destruct n; [lia|]. reflexivity. Qed.

Lemma min_safe n : (1 <= n)%nat -> Safe (@min_core R ROps n) (fun _ => True) (ext_I n).
Proof.
  intros Hn. constructor.
  - eexists. split; [apply ext_new_ok; exact Hn|]. split; [cbn; lia | apply opt_at1_0].
  - intros k s v [Hi Ho] _. cbn [cstep min_core]. unfold min_step.
    destruct (Nat.leb_spec n (length (ext_q s))) as [Hf|Hf].
    + destruct (full_nonempty n (ext_q s) Hn Hf) as [x [r Hq]]. rewrite Hq. cbn [pop_front bind].
      destruct (ext_opt s) as [m|] eqn:Em.
      * cbn [bind]. eexists. split; [reflexivity|]. split; cbn [ext_q ext_opt]; [|apply opt_at1_S].
        rewrite Hq in Hi, Hf. rewrite app_length. cbn in *. lia.
      * exfalso. destruct Ho as [_ Ho]. apply Ho; [|reflexivity]. rewrite Hq in Hf, Hi. cbn in Hf, Hi. lia.
    + cbn [bind]. eexists. split; [reflexivity|]. split; cbn [ext_q ext_opt]; [|apply opt_at1_S].
      apply len_push_notfull; assumption.
  - intros k s _. cbn. eauto.
Qed.
Lemma max_safe n : (1 <= n)%nat -> Safe (@max_core R ROps n) (fun _ => True) (ext_I n).
Proof.
  intros Hn. constructor.
  - eexists. split; [apply ext_new_ok; exact Hn|]. split; [cbn; lia | apply opt_at1_0].
  - intros k s v [Hi Ho] _. cbn [cstep max_core]. unfold max_step.
    destruct (Nat.leb_spec n (length (ext_q s))) as [Hf|Hf].
    + destruct (full_nonempty n (ext_q s) Hn Hf) as [x [r Hq]]. rewrite Hq. cbn [pop_front bind].
      destruct (ext_opt s) as [m|] eqn:Em.
      * cbn [bind]. eexists. split; [reflexivity|]. split; cbn [ext_q ext_opt]; [|apply opt_at1_S].
        rewrite Hq in Hi, Hf. rewrite app_length. cbn in *. lia.
      * exfalso. destruct Ho as [_ Ho]. apply Ho; [|reflexivity]. rewrite Hq in Hf, Hi. cbn in Hf, Hi. lia.
    + cbn [bind]. eexists. split; [reflexivity|]. split; cbn [ext_q ext_opt]; [|apply opt_at1_S].
      apply len_push_notfull; assumption.
  - intros k s _. cbn. eauto.
Qed.
Lemma min_ready n : ReadyAt (@min_core R ROps n) (ext_I n) 1.
Proof. intros k s [_ Ho]. cbn [clast min_core]. apply opt_at1_ready. exact Ho. Qed.
Lemma max_ready n : ReadyAt (@max_core R ROps n) (ext_I n) 1.
Proof. intros k s [_ Ho]. cbn [clast max_core]. apply opt_at1_ready. exact Ho. Qed.

(** C15 Min / Max *)
Theorem safe_min n vs : (1 <= n)%nat ->
  exists s o, crun (@min_core R ROps n) vs = Ok s /\ clast (@min_core R ROps n) s = Ok o.
Proof. intros Hn. apply (safe_run (min_safe n Hn)). apply trueD. Qed.
Theorem safe_max n vs : (1 <= n)%nat ->
  exists s o, crun (@max_core R ROps n) vs = Ok s /\ clast (@max_core R ROps n) s = Ok o.
Proof. intros Hn. apply (safe_run (max_safe n Hn)). apply trueD. Qed.
(** C08 Min / Max *)
Theorem ready_mono_min n : (1 <= n)%nat ->
  CReadyMono (@min_core R ROps n) (fun _ => True) (InvOf (@min_core R ROps n) (ext_I n)).
Proof. intros Hn. exact (ready_at_mono (min_safe n Hn) (@min_ready n)). Qed.
Theorem ready_mono_max n : (1 <= n)%nat ->
  CReadyMono (@max_core R ROps n) (fun _ => True) (InvOf (@max_core R ROps n) (ext_I n)).
Proof. intros Hn. exact (ready_at_mono (max_safe n Hn) (@max_ready n)). Qed.
Theorem warmup_min n vs : (1 <= n)%nat ->
  (cout (@min_core R ROps n) vs = Ok None <-> (length vs < 1)%nat).
Proof. intros Hn. apply (warmup_none (min_safe n Hn) (@min_ready n)). apply trueD. Qed.
Theorem warmup_max n vs : (1 <= n)%nat ->
  (cout (@max_core R ROps n) vs = Ok None <-> (length vs < 1)%nat).
Proof. intros Hn. apply (warmup_none (max_safe n Hn) (@max_ready n)). apply trueD. Qed.
(** the constructor rejects a zero window *)
Theorem new_rejects_min : cnew (@min_core R ROps 0) = Err AssertFailed.
Proof. reflexivity. Qed.
Theorem new_rejects_max : cnew (@max_core R ROps 0) = Err AssertFailed.
Proof. reflexivity. Qed.

(* ---------------------------------------------------------------- roc *)
Definition roc_I (n k : nat) (s : @roc_st R) : Prop := length (roc_q s) = Nat.min n k.

Lemma roc_tail_ok (oldest : option R) (q : list R) (v : R) (out : option R) :
  exists s', (match oldest with
   | None => Ok {| roc_oldest := oldest; roc_q := q; roc_out := out |}
   | Some o =>
      if @seqb R ROps o (@s0 R ROps) then Ok {| roc_oldest := oldest; roc_q := q; roc_out := out |}
      else do r <- @sdiv R ROps (@ssub R ROps v o) o;
           Ok {| roc_oldest := oldest; roc_q := q; roc_out := Some (@smul R ROps r (@sofdec R ROps 100 0)) |}
   end) = Ok s' /\ roc_q s' = q /\ (out <> None -> roc_out s' <> None).
Proof.
  destruct oldest as [o|]; [|eexists; split; [reflexivity|]; split; [reflexivity|]; cbn; auto].
  cbn [seqb ROps s0]. destruct (Reqb o 0) eqn:E.
  - eexists; split; [reflexivity|]; split; [reflexivity|]; cbn; auto.
  - apply Reqb_false in E. rewrite sdiv_R_ok by exact E. cbn [bind].
    eexists; split; [reflexivity|]; split; [reflexivity|]. cbn. intros _. discriminate.
Qed.

Lemma roc_step_ok n k s v : (1 <= n)%nat -> roc_I n k s ->
  exists s', @roc_step R ROps n s v = Ok s' /\ roc_I n (S k) s' /\ (roc_out s <> None -> roc_out s' <> None).
Proof.
  intros Hn Hi. unfold roc_I in *. unfold roc_step.
  destruct (Nat.leb_spec n (length (roc_q s))) as [Hf|Hf].
  - destruct (full_nonempty n (roc_q s) Hn Hf) as [x [r Hq]]. rewrite Hq. cbn [front bind tl].
    destruct (roc_tail_ok (Some x) (r ++ [v]) v (roc_out s)) as [s' [H1 [H2 H3]]].
    exists s'. split; [exact H1|]. split; [|exact H3]. rewrite H2.
    rewrite Hq in Hi, Hf. rewrite app_length. cbn in *. lia.
  - cbn [bind].
    destruct (roc_tail_ok (match roc_q s with [] => Some v | _ => roc_oldest s end) (roc_q s ++ [v]) v (roc_out s)) as [s' [H1 [H2 H3]]].
    exists s'. split; [exact H1|]. split; [|exact H3]. rewrite H2. apply len_push_notfull; assumption.
Qed.

Lemma roc_safe n : (1 <= n)%nat -> Safe (@roc_core R ROps n) (fun _ => True) (roc_I n).
Proof.
  intros Hn. constructor.
  - eexists. split; [reflexivity|]. unfold roc_I. cbn. lia.
  - intros k s v Hi _. destruct (roc_step_ok n k s v Hn Hi) as [s' [H1 [H2 _]]]. exists s'. auto.
  - intros k s _. cbn. eauto.
Qed.

(** C15 Roc *)
Theorem safe_roc n vs : (1 <= n)%nat ->
  exists s o, crun (@roc_core R ROps n) vs = Ok s /\ clast (@roc_core R ROps n) s = Ok o.
Proof. intros Hn. apply (safe_run (roc_safe n Hn)). apply trueD. Qed.
(** C08 Roc: once an answer exists it persists (there is no fixed warm-up: the base value must be non-zero) *)
Theorem ready_mono_roc n : (1 <= n)%nat ->
  CReadyMono (@roc_core R ROps n) (fun _ => True) (InvOf (@roc_core R ROps n) (roc_I n)).
Proof.
  intros Hn s v s' x [k Hk] _ Hl Hs. cbn [clast roc_core] in *.
  destruct (roc_step_ok n k s v Hn Hk) as [s1 [H1 [_ H3]]]. cbn [cstep roc_core] in Hs. rewrite Hs in H1.
  inversion H1; subst. inversion Hl as [Hx]. destruct (roc_out s1) as [y|]; [eauto|].
  exfalso. apply H3; [rewrite Hx; discriminate | reflexivity].
Qed.

Example safe_A2_hyps : (1 <= 1)%nat. Proof. lia. Qed.

Print Assumptions safe_cumulative.
Print Assumptions warmup_cumulative.
Print Assumptions safe_min.
Print Assumptions safe_max.
Print Assumptions warmup_min.
Print Assumptions safe_roc.
Print Assumptions ready_mono_roc.
