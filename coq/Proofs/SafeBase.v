(** C15 / C08 generic machinery: a core is *safe* when it has a state invariant (indexed by the number
    of values delivered so far) that holds initially, is preserved by every step on the input domain,
    and under which [last] succeeds.  Readiness thresholds, ready-monotonicity, and the lift through
    [wrap].  Generic in the scalar. *)
From Coq Require Import List Arith Lia.
From SF Require Import Res Scalar View Core.
Import ListNotations.
Set Implicit Arguments.

Section SafeGeneric.
Variable T : Type.

(** [I k s]: [s] is a legal state after [k] delivered values *)
Record Safe (c : core T) (D : T -> Prop) (I : nat -> cst c -> Prop) : Prop := mkSafe {
  sf_new : exists s0, cnew c = Ok s0 /\ I 0 s0;
  sf_step : forall k s v, I k s -> D v -> exists s', cstep c s v = Ok s' /\ I (S k) s';
  sf_last : forall k s, I k s -> exists o, clast c s = Ok o }.

(** the history-free invariant of the task statement *)
Definition InvOf (c : core T) (I : nat -> cst c -> Prop) (s : cst c) : Prop := exists k, I k s.

Section OneCore.
Variables (c : core T) (D : T -> Prop) (I : nat -> cst c -> Prop).
Hypothesis HS : Safe c D I.

(** (a) *)
Lemma inv_init : forall s0, cnew c = Ok s0 -> InvOf c I s0.
Proof.
  intros s0 H. destruct (sf_new HS) as [s1 [H1 H2]]. rewrite H in H1. inversion H1; subst. exists 0. exact H2.
Qed.
Lemma new_ok : exists s0, cnew c = Ok s0 /\ InvOf c I s0.
Proof. destruct (sf_new HS) as [s1 [H1 H2]]. exists s1. split; [exact H1 | exists 0; exact H2]. Qed.
(** (b) *)
Lemma inv_step : forall s v, InvOf c I s -> D v -> exists s', cstep c s v = Ok s' /\ InvOf c I s'.
Proof.
  intros s v [k Hk] Hv. destruct (sf_step HS k s v Hk Hv) as [s' [H1 H2]]. exists s'. split; [exact H1 | exists (S k); exact H2].
Qed.
(** (c) *)
Lemma inv_last : forall s, InvOf c I s -> exists o, clast c s = Ok o.
Proof. intros s [k Hk]. exact (sf_last HS k s Hk). Qed.

Lemma safe_run_len : forall vs, Forall D vs -> exists s, crun c vs = Ok s /\ I (length vs) s.
Proof.
  destruct (sf_new HS) as [s0 [Hn H0]].
  intros vs HD.
  destruct (@crun_inv T c D (fun h s => I (length h) s) s0 Hn H0) with (vs := vs) as [s [Hr Hi]].
  - intros h s v _ Hv Hi. destruct (sf_step HS _ s v Hi Hv) as [s' [H1 H2]]. exists s'. split; [exact H1|].
    rewrite app_length. cbn. replace (length h + 1) with (S (length h)) by lia. exact H2.
  - exact HD.
  - exists s. auto.
Qed.

(** C15 for the core: any sequence of updates on the domain, then [last], completes without error *)
Theorem safe_run : forall vs, Forall D vs -> exists s o, crun c vs = Ok s /\ clast c s = Ok o.
Proof.
  intros vs HD. destruct (safe_run_len HD) as [s [Hr Hi]]. destruct (sf_last HS _ s Hi) as [o Ho].
  exists s, o. auto.
Qed.
Corollary safe_cout : forall vs, Forall D vs -> exists o, cout c vs = Ok o.
Proof.
  intros vs HD. destruct (safe_run HD) as [s [o [Hr Ho]]]. exists o. unfold cout. rewrite Hr. cbn. exact Ho.
Qed.
(** every prefix: the whole interleaving of update/last is error free *)
Corollary safe_prefixes : forall vs t, Forall D vs -> exists o, cout c (firstn t vs) = Ok o.
Proof.
  intros vs t HD. apply safe_cout. apply Forall_forall. intros x Hx.
  rewrite Forall_forall in HD. apply HD. rewrite <- (firstn_skipn t vs). apply in_or_app. left. exact Hx.
Qed.

(** readiness at a threshold: nothing before [n0] delivered values, a value from the [n0]-th on *)
Definition ReadyAt (n0 : nat) : Prop :=
  forall k s, I k s ->
    (k < n0 -> clast c s = Ok None) /\ (n0 <= k -> exists y, clast c s = Ok (Some y)).

(** C08 ready-monotone for the core *)
Definition CReadyMono (Inv : cst c -> Prop) : Prop :=
  forall s v s' x, Inv s -> D v -> clast c s = Ok (Some x) -> cstep c s v = Ok s' ->
    exists y, clast c s' = Ok (Some y).

Lemma ready_at_mono n0 : ReadyAt n0 -> CReadyMono (InvOf c I).
Proof.
  intros HR s v s' x [k Hk] Hv Hl Hs.
  destruct (HR k s Hk) as [Hlt _].
  assert (Hk0 : n0 <= k).
  { destruct (Nat.lt_ge_cases k n0) as [H|H]; [|exact H]. rewrite (Hlt H) in Hl. discriminate. }
  destruct (sf_step HS k s v Hk Hv) as [s1 [H1 H2]]. rewrite Hs in H1. inversion H1; subst.
  destruct (HR (S k) s1 H2) as [_ Hge]. apply Hge. lia.
Qed.

Lemma warmup_none n0 : ReadyAt n0 -> forall vs, Forall D vs ->
  (cout c vs = Ok None <-> length vs < n0).
Proof.
  intros HR vs HD. destruct (safe_run_len HD) as [s [Hr Hi]]. unfold cout. rewrite Hr. cbn [bind].
  destruct (HR _ s Hi) as [Hlt Hge]. split.
  - intros H. destruct (Nat.lt_ge_cases (length vs) n0) as [H1|H1]; [exact H1|].
    destruct (Hge H1) as [y Hy]. rewrite Hy in H. discriminate.
  - exact Hlt.
Qed.
Lemma warmup_some n0 : ReadyAt n0 -> forall vs, Forall D vs -> n0 <= length vs ->
  exists y, cout c vs = Ok (Some y).
Proof.
  intros HR vs HD Hl. destruct (safe_run_len HD) as [s [Hr Hi]]. unfold cout. rewrite Hr. cbn [bind].
  destruct (HR _ s Hi) as [_ Hge]. auto.
Qed.
End OneCore.

(** a core whose answer, once present, survives any successful step (no invariant needed) *)
Definition KeepsReady (c : core T) : Prop :=
  forall s v s' x, clast c s = Ok (Some x) -> cstep c s v = Ok s' -> exists y, clast c s' = Ok (Some y).
Lemma keeps_ready_mono c D Inv : KeepsReady c -> @CReadyMono c D Inv.
Proof. intros H s v s' x _ _ Hl Hs. exact (H s v s' x Hl Hs). Qed.

(** * Views *)
Record VSafe (a : view T) (D : T -> Prop) (J : vst a -> Prop) : Prop := mkVSafe {
  vs_new : exists s0, vnew a = Ok s0 /\ J s0;
  vs_upd : forall s x, J s -> D x -> exists s', vupd a s x = Ok s' /\ J s';
  vs_last : forall s, J s -> exists o, vlast a s = Ok o }.

(** every value the view reports satisfies [P] *)
Definition VOut (a : view T) (J : vst a -> Prop) (P : T -> Prop) : Prop :=
  forall s y, J s -> vlast a s = Ok (Some y) -> P y.

Definition VReadyMono (a : view T) (D : T -> Prop) (J : vst a -> Prop) : Prop :=
  forall s x s' y, J s -> D x -> vlast a s = Ok (Some y) -> vupd a s x = Ok s' ->
    exists z, vlast a s' = Ok (Some z).

Lemma echo_safe (D : T -> Prop) : VSafe (@echo T) D (fun o => forall y, o = Some y -> D y).
Proof.
  constructor.
  - exists None. split; [reflexivity|]. intros y H; discriminate.
  - intros s x _ Hx. exists (Some x). split; [reflexivity|]. intros y H. inversion H; subst. exact Hx.
  - intros s _. exists s. reflexivity.
Qed.
Lemma echo_out (D : T -> Prop) : VOut (@echo T) (fun o => forall y, o = Some y -> D y) D.
Proof. intros s y H Hl. cbn in Hl. inversion Hl; subst. apply H. reflexivity. Qed.
Lemma echo_ready_mono (D : T -> Prop) J : VReadyMono (@echo T) D J.
Proof. intros s x s' y _ _ _ H. cbn in H. inversion H; subst. exists x. reflexivity. Qed.

Definition wrapInv (c : core T) (a : view T) (J : vst a -> Prop) (Inv : cst c -> Prop)
  (s : vst (wrap c a)) : Prop := J (fst s) /\ Inv (snd s).
Arguments wrapInv c a J Inv s : clear implicits.

(** safety lifts through [wrap] when the inner view's outputs lie in the core's domain *)
Theorem wrap_safe (c : core T) (a : view T) D J Dc I :
  VSafe a D J -> VOut a J Dc -> Safe c Dc I -> VSafe (wrap c a) D (wrapInv c a J (InvOf c I)).
Proof.
  intros Ha Ho Hc. constructor.
  - destruct (vs_new Ha) as [sa [Hsa Hja]]. destruct (new_ok Hc) as [sc [Hsc Hic]].
    exists (sa, sc). cbn. rewrite Hsa, Hsc. cbn. split; [reflexivity|]. split; assumption.
  - intros [sa sc] x [Hj Hi] Hx. cbn in Hj, Hi. cbn [vupd wrap fst snd].
    destruct (vs_upd Ha sa x Hj Hx) as [sa' [Hu Hj']]. rewrite Hu. cbn [bind].
    destruct (vs_last Ha sa' Hj') as [o Hl]. rewrite Hl. cbn [bind].
    destruct o as [v|].
    + destruct (@inv_step c Dc I Hc sc v Hi (Ho sa' v Hj' Hl)) as [sc' [Hs Hi']]. rewrite Hs. cbn [bind].
      exists (sa', sc'). split; [reflexivity|]. split; assumption.
    + exists (sa', sc). split; [reflexivity|]. split; assumption.
  - intros [sa sc] [Hj Hi]. cbn in Hi. cbn [vlast wrap snd]. exact (@inv_last c Dc I Hc sc Hi).
Qed.

(** the wrapper's outputs are the core's outputs *)
Lemma wrap_out (c : core T) (a : view T) J (Inv : cst c -> Prop) (P : T -> Prop) :
  (forall s y, Inv s -> clast c s = Ok (Some y) -> P y) -> VOut (wrap c a) (wrapInv c a J Inv) P.
Proof. intros H [sa sc] y [_ Hi] Hl. cbn in *. exact (H sc y Hi Hl). Qed.

(** "starved" wrapper: when the inner view delivers nothing, the core state and the answer are unchanged *)
Lemma wrap_starved (c : core T) (a : view T) (s s' : vst (wrap c a)) x sa' :
  vupd a (fst s) x = Ok sa' -> vlast a sa' = Ok None -> vupd (wrap c a) s x = Ok s' ->
  s' = (sa', snd s) /\ vlast (wrap c a) s' = vlast (wrap c a) s.
Proof.
  intros Hu Hl H. cbn [vupd wrap] in H. rewrite Hu in H. cbn [bind] in H. rewrite Hl in H. cbn [bind] in H.
  inversion H; subst. split; reflexivity.
Qed.
(** ... for as long as the inner view stays silent *)
Lemma wrap_starved_steps (c : core T) (a : view T) xs : forall (s s' : vst (wrap c a)),
  steps (wrap c a) s xs = Ok s' ->
  (forall t sa, t <= length xs -> 1 <= t -> steps a (fst s) (firstn t xs) = Ok sa -> vlast a sa = Ok None) ->
  snd s' = snd s.
Proof.
  induction xs as [|x xs IH]; intros s s' H Hs; cbn in H.
  - inversion H; subst. reflexivity.
  - destruct (vupd a (fst s) x) as [sa'|e] eqn:Eu; cbn in H; [|discriminate].
    assert (Hn : vlast a sa' = Ok None).
    { apply (Hs 1 sa'); [cbn; lia | lia |]. cbn. rewrite Eu. reflexivity. }
    rewrite Hn in H. cbn in H.
    rewrite (IH (sa', snd s) s' H); [reflexivity|].
    intros t sa Ht H1 Hst. cbn [fst] in Hst. apply (Hs (S t) sa); [cbn; lia | lia |].
    cbn. rewrite Eu. cbn. exact Hst.
Qed.

(** ready-monotonicity lifts through [wrap] (the inner view need not even be ready-monotone: when it
    is silent the wrapper is starved and keeps its answer) *)
Theorem wrap_ready_mono (c : core T) (a : view T) (D : T -> Prop) (J : vst a -> Prop) (Dc : T -> Prop) (Inv : cst c -> Prop) :
  (forall s x s', J s -> D x -> vupd a s x = Ok s' -> J s') -> VOut a J Dc ->
  @CReadyMono c Dc Inv -> VReadyMono (wrap c a) D (wrapInv c a J Inv).
Proof.
  intros Hj Ho Hc [sa sc] x s' y [HJ HI] Hx Hl Hu. cbn in HJ, HI, Hl.
  cbn [vupd wrap fst snd] in Hu.
  destruct (vupd a sa x) as [sa'|e] eqn:Eu; cbn [bind] in Hu; [|discriminate].
  destruct (vlast a sa') as [o|e] eqn:El; cbn [bind] in Hu; [|discriminate].
  destruct o as [v|].
  - destruct (cstep c sc v) as [sc'|e] eqn:Es; cbn [bind] in Hu; [|discriminate]. inversion Hu; subst.
    cbn [vlast wrap snd]. apply (Hc sc v sc' y HI); [|exact Hl|exact Es].
    apply (Ho sa' v); [|exact El]. exact (Hj sa x sa' HJ Hx Eu).
  - inversion Hu; subst. cbn [vlast wrap snd]. exists y. exact Hl.
Qed.
(** the version asked for: with the inner view ready-monotone as well *)
Corollary wrap_ready_mono' (c : core T) (a : view T) D J Dc I :
  VSafe a D J -> VOut a J Dc -> VReadyMono a D J -> Safe c Dc I -> @CReadyMono c Dc (InvOf c I) ->
  VReadyMono (wrap c a) D (wrapInv c a J (InvOf c I)).
Proof.
  intros Ha Ho _ _ Hc. apply wrap_ready_mono with (Dc := Dc); [|exact Ho|exact Hc].
  intros s x s' Hs Hx Hu. destruct (vs_upd Ha s x Hs Hx) as [s1 [H1 H2]]. rewrite Hu in H1. inversion H1; subst. exact H2.
Qed.

(** a safe view runs without error on its domain *)
Lemma vsafe_mrun_from (a : view T) D J : VSafe a D J -> forall xs s, J s -> Forall D xs ->
  exists outs, mrun_from a s xs = Ok outs.
Proof.
  intros Ha xs. induction xs as [|x xs IH]; intros s Hj HD; cbn; [eauto|].
  inversion HD; subst.
  destruct (vs_upd Ha s x Hj H1) as [s' [Hu Hj']]. rewrite Hu. cbn.
  destruct (vs_last Ha s' Hj') as [o Hl]. rewrite Hl. cbn.
  destruct (IH s' Hj' H2) as [outs Ho]. rewrite Ho. cbn. eauto.
Qed.
Theorem vsafe_mrun (a : view T) D J : VSafe a D J -> forall xs, Forall D xs -> exists outs, mrun a xs = Ok outs.
Proof.
  intros Ha xs HD. destruct (vs_new Ha) as [s0 [Hn Hj]]. unfold mrun. rewrite Hn. cbn.
  exact (@vsafe_mrun_from a D J Ha xs s0 Hj HD).
Qed.

End SafeGeneric.
