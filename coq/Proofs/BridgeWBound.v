(** Task 5 of BridgeW: the executable finiteness checker of the Sma bridge is IMPLIED by a magnitude bound on the
    inputs: [sma_all_finite_of_bound], and with it the drift bound for EVERY finite f64 stream bounded by M with no
    executable hypothesis: [sma_prim_drift_bounded]. *)
From Coq Require Import List Arith Lia Reals Lra ZArith Floats Bool.
From SF Require Import Res Scalar View Models Spec Core FloatOps SpecBridge.
From SF.Proofs Require Import Window RBase SmaP WinAP FltErr FltBridge Flt2P Flt2B64 Flt2Prim BridgeOps BridgeSim BridgeP
  BridgeWOps.
From Flocq Require Import Core BinarySingleNaN.
Import ListNotations.
Open Scope R_scope.
Local Notation float := PrimFloat.float.

(** * The checker, one more input *)
Section ChkSnoc.
Variable A : Type.
Variable finb : A -> bool.
Variable cA : core A.
Variable sfin : cst cA -> bool.

Lemma cfold_chk_snoc vs v : forall s0 s s', cfold_chk finb cA sfin s0 vs = true -> cfold cA s0 vs = Ok s ->
  cstep cA s v = Ok s' -> st_ok finb cA sfin s' = true -> cfold_chk finb cA sfin s0 (vs ++ [v]) = true.
Proof.
  induction vs as [|w vs IH]; intros s0 s s' Hc E Es Hs'.
  - cbn [cfold] in E. inversion E; subst s0. cbn [app cfold_chk]. rewrite Es, Hs'. reflexivity.
  - cbn [app cfold_chk cfold] in *. destruct (cstep cA s0 w) as [s1|e]; [|discriminate]. cbn [bind] in E.
    apply andb_true_iff in Hc. destruct Hc as [H1 H2]. rewrite H1. cbn [andb]. exact (IH s1 s s' H2 E Es Hs').
Qed.

Lemma all_finite_run_snoc vs v s s' : all_finite_run finb cA sfin vs = true -> crun cA vs = Ok s ->
  cstep cA s v = Ok s' -> st_ok finb cA sfin s' = true -> all_finite_run finb cA sfin (vs ++ [v]) = true.
Proof.
  unfold all_finite_run, crun. destruct (cnew cA) as [s0|e]; [|discriminate]. cbn [bind]. intros H E Es Hs'.
  apply andb_true_iff in H. destruct H as [H1 H2]. rewrite H1. cbn [andb]. exact (cfold_chk_snoc vs v s0 s s' H2 E Es Hs').
Qed.
End ChkSnoc.

Definition BIG1023 : R := bpow radix2 1023.
Lemma BIG1023_format : b64_format BIG1023.
Proof. apply generic_format_bpow. unfold b64_exp, FLT_exp. cbn. lia. Qed.
Lemma BIG1023_lt : BIG1023 < bpow radix2 1024.
Proof. apply bpow_lt. lia. Qed.

Lemma pow1u_mono k l : (k <= l)%nat -> (1 + b64_u) ^ k <= (1 + b64_u) ^ l.
Proof. intros H. apply Rle_pow; [pose proof b64_u_nonneg; lra | exact H]. Qed.

(** Sma: window 1 <= n < 2^53, finite inputs of magnitude at most M, (1+u)^(2t) n M + M <= 2^1023 (t = stream length):
    the f64 run never overflows -- the checker of [sma_bridge] succeeds *)
Theorem sma_all_finite_of_bound n M fs : (1 <= n)%nat -> (Z.of_nat n < 2 ^ 53)%Z -> 0 <= M ->
  Forall (fun x => ffinite x = true /\ Rabs (f2r x) <= M) fs ->
  (1 + b64_u) ^ (2 * length fs) * (INR n * M) + M <= bpow radix2 1023 ->
  all_finite_sma ffinite n fs = true.
Proof.
  intros Hn Hn53 HM. induction fs as [|v vs IH] using rev_ind; intros HD HB.
  - unfold all_finite_sma, all_finite_run. cbn [cnew sma_core cfold_chk]. unfold st_ok, sma_sfin.
    cbn [sma_q sma_sum forallb clast sma_core]. unfold sma_last. cbn [sma_q length].
    destruct (Nat.ltb_spec 0 n) as [_|H]; [|lia]. cbn [s0 FOps]. rewrite (proj1 prim_zero_fin). reflexivity.
  - apply Forall_app in HD. destruct HD as [HD Hv]. apply Forall_inv in Hv. destruct Hv as [Fv Mv].
    rewrite app_length in HB. cbn [length] in HB.
    pose proof b64_u_nonneg as Hu.
    assert (HnM : 0 <= INR n * M) by (apply Rmult_le_pos; [apply pos_INR | exact HM]).
    assert (HBvs : (1 + b64_u) ^ (2 * length vs) * (INR n * M) + M <= bpow radix2 1023).
    { pose proof (pow1u_mono (2 * length vs) (2 * (length vs + 1)) ltac:(lia)) as Hp. nra. }
    specialize (IH HD HBvs).
    assert (Hb : Forall (fun x => Rabs (f2r x) <= M) vs).
    { revert HD. apply Forall_impl. intros x [_ H]; exact H. }
    destruct (sma_sum_prim_drift n M vs Hn HM Hb IH) as [s [Er [Hq HE]]].
    destruct (all_finite_run_cout ffinite (@sma_core float FOps n) (sma_sfin ffinite) vs IH) as [s2 [o [Er2 [Hs _]]]].
    rewrite Er in Er2. inversion Er2; subst s2; clear Er2.
    destruct (sma_bridge_run n vs IH) as [s3 [Er3 Eb]]. rewrite Er in Er3. inversion Er3; subst s3; clear Er3.
    unfold sma_sfin in Hs. apply andb_true_iff in Hs. destruct Hs as [Fq Fsum].
    (* the rounded-real run on one more value, and its bound *)
    assert (Hb' : Forall (fun x => Rabs (f2r x) <= M) (vs ++ [v])).
    { apply Forall_app. split; [exact Hb | constructor; [exact Mv | constructor]]. }
    destruct (sma_sum_drift_b64 n M (map f2r (vs ++ [v])) Hn HM (f2r_Din M _ Hb')) as [t' [Et' [Hq' HE']]].
    change (crun (@sma_core R B64Ops n) (map f2r (vs ++ [v])) = Ok t') in Et'.
    rewrite map_app in Et'. cbn [map] in Et'. rewrite crun_snoc, Eb in Et'. cbn [bind cstep sma_core] in Et'.
    rewrite map_length, app_length in HE'. cbn [length] in HE'.
    assert (HW : forall l, Forall (fun x => Rabs x <= M) l -> Rabs (@ssum R ROps (lastn n l)) <= INR n * M).
    { intros l Hl. pose proof (ssum_abs_le M (lastn n l) (Forall_lastn _ n l Hl)) as H.
      rewrite lastn_length in H. eapply Rle_trans; [exact H|]. apply Rmult_le_compat_r; [exact HM|].
      apply le_INR. lia. }
    assert (HbR : forall l, Forall (fun x => Rabs (f2r x) <= M) l -> Forall (fun x => Rabs x <= M) (map f2r l)).
    { intros l Hl. apply Forall_forall. intros y Hy. apply in_map_iff in Hy. destruct Hy as [x [<- Hx]].
      rewrite Forall_forall in Hl. exact (Hl x Hx). }
    assert (Hsum' : Rabs (sma_sum t') <= BIG1023).
    { pose proof (HW _ (HbR _ Hb')) as H1. unfold BIG1023.
      assert (Rabs (sma_sum t') <= Rabs (sma_sum t' - @ssum R ROps (lastn n (map f2r (vs ++ [v])))) + Rabs (@ssum R ROps (lastn n (map f2r (vs ++ [v]))))).
      { eapply Rle_trans; [|apply Rabs_triang]. right. f_equal. ring. }
      nra. }
    assert (Hsum : Rabs (f2r (sma_sum s)) <= (1 + b64_u) ^ (2 * length vs) * (INR n * M)).
    { pose proof (HW _ (HbR _ Hb)) as H1.
      assert (Rabs (f2r (sma_sum s)) <= Rabs (f2r (sma_sum s) - @ssum R ROps (lastn n (map f2r vs))) + Rabs (@ssum R ROps (lastn n (map f2r vs)))).
      { eapply Rle_trans; [|apply Rabs_triang]. right. f_equal. ring. }
      lra. }
    assert (Hlen : length (sma_q s) = Nat.min n (length vs)).
    { rewrite <- (map_length f2r (sma_q s)), Hq, lastn_length, map_length. reflexivity. }
    assert (HqM : Forall (fun x => Rabs x <= M) (map f2r (sma_q s))).
    { rewrite Hq. apply Forall_lastn. exact (HbR _ Hb). }
    (* the f64 step *)
    unfold sma_step in Et'. cbn [sma_map sma_q sma_sum] in Et'. rewrite map_length in Et'.
    assert (Hstep : exists s', @sma_step float FOps n s v = Ok s' /\ sma_sfin ffinite s' = true /\
                               (length (sma_q s') <= n)%nat /\ (1 <= length (sma_q s'))%nat).
    { unfold sma_step. destruct (Nat.leb n (length (sma_q s))) eqn:El.
      - destruct (sma_q s) as [|old q'] eqn:Eq; [apply Nat.leb_le in El; cbn in El; lia|].
        cbn [pop_front bind map] in *. inversion Et'; subst t'; clear Et'. cbn [sma_sum] in Hsum'.
        cbn [forallb] in Fq. apply andb_true_iff in Fq. destruct Fq as [Fold Fq'].
        apply Forall_inv in HqM.
        assert (Hsub : Rabs (b64_sub (f2r (sma_sum s)) (f2r old)) <= BIG1023).
        { unfold b64_sub. apply b64_round_abs_le; [exact BIG1023_format|].
          eapply Rle_trans; [apply Rabs_triang|]. rewrite Rabs_Ropp. unfold BIG1023. lra. }
        destruct (prim_sub_b64 (sma_sum s) old Fsum Fold ltac:(pose proof BIG1023_lt; lra)) as [Es Fs].
        cbn [ssub sadd FOps B64Ops FlOps2] in *.
        rewrite <- Es in Hsum'.
        destruct (prim_add_b64 _ v Fs Fv ltac:(pose proof BIG1023_lt; lra)) as [Ea Fa].
        eexists; split; [reflexivity|]. unfold sma_sfin. cbn [sma_q sma_sum]. rewrite Fa, forallb_app, Fq'. cbn [forallb].
        rewrite Fv. split; [reflexivity|]. rewrite app_length. cbn [length] in *. lia.
      - cbn [bind] in *. inversion Et'; subst t'; clear Et'. cbn [sma_sum] in Hsum'.
        cbn [sadd FOps B64Ops FlOps2] in *.
        destruct (prim_add_b64 _ v Fsum Fv ltac:(pose proof BIG1023_lt; lra)) as [Ea Fa].
        eexists; split; [reflexivity|]. unfold sma_sfin. cbn [sma_q sma_sum]. rewrite Fa, forallb_app, Fq. cbn [forallb].
        rewrite Fv. split; [reflexivity|]. rewrite app_length. cbn [length]. apply Nat.leb_gt in El. lia. }
    destruct Hstep as [s' [Es' [Hs' [Hl1 Hl2]]]].
    apply (all_finite_run_snoc float ffinite (@sma_core float FOps n) (sma_sfin ffinite) vs v s s' IH Er Es').
    unfold st_ok. rewrite Hs'. cbn [andb clast sma_core]. unfold sma_last.
    destruct (Nat.ltb (length (sma_q s')) n); [reflexivity|].
    cbn [sdiv FOps bind ofin].
    destruct (f_ofnat_exact (length (sma_q s')) ltac:(lia)) as [Fn En].
    unfold sma_sfin in Hs'. apply andb_true_iff in Hs'. destruct Hs' as [_ Fsum'].
    apply prim_div_ge1_fin; [exact Fsum' | exact Fn|]. cbn [sofnat FOps]. rewrite En, Rabs_right by (apply Rle_ge, pos_INR).
    change 1 with (INR 1). apply le_INR. exact Hl2.
Qed.

(** for streams shorter than 2^51 the growth factor (1+u)^(2t) is at most 2: a condition on n M alone *)
Lemma pow1u_le2 t : (Z.of_nat t < 2 ^ 51)%Z -> (1 + b64_u) ^ (2 * t) <= 2.
Proof.
  intros Ht. pose proof b64_u_nonneg as Hu.
  assert (Hk : INR (2 * t) * b64_u <= / 2).
  { rewrite mult_INR. change (INR 2) with 2. rewrite INR_IZR_INZ.
    assert (H : IZR (Z.of_nat t) <= IZR (2 ^ 51 - 1)) by (apply IZR_le; lia).
    change (2 ^ 51 - 1)%Z with 2251799813685247%Z in H. rewrite b64_u_val.
    assert (H0 : 0 <= IZR (Z.of_nat t)) by (apply IZR_le; lia). lra. }
  assert (H0 : 0 <= INR (2 * t) * b64_u) by (apply Rmult_le_pos; [apply pos_INR | exact Hu]).
  pose proof (pow_gamma b64_u (2 * t) Hu ltac:(lra)) as H.
  assert (INR (2 * t) * b64_u / (1 - INR (2 * t) * b64_u) <= 1).
  { apply Rmult_le_reg_r with (1 - INR (2 * t) * b64_u); [lra|].
    unfold Rdiv. rewrite Rmult_assoc, Rinv_l by lra. lra. }
  lra.
Qed.

Corollary sma_all_finite_of_bound_simple n M fs : (1 <= n)%nat -> (Z.of_nat n < 2 ^ 53)%Z -> 0 <= M ->
  Forall (fun x => ffinite x = true /\ Rabs (f2r x) <= M) fs ->
  (Z.of_nat (length fs) < 2 ^ 51)%Z -> 3 * (INR n * M) <= bpow radix2 1023 ->
  all_finite_sma ffinite n fs = true.
Proof.
  intros Hn Hn53 HM HD Ht HB. apply (sma_all_finite_of_bound n M fs Hn Hn53 HM HD).
  pose proof (pow1u_le2 (length fs) Ht) as Hp. pose proof (pow1u_ge1 b64_u b64_u_nonneg (2 * length fs)) as Hp1.
  assert (H1 : 1 <= INR n) by (change 1 with (INR 1); apply le_INR; exact Hn).
  assert (HnM : 0 <= INR n * M) by (apply Rmult_le_pos; lra).
  assert (HMn : M <= INR n * M) by nra.
  assert (HP : (1 + b64_u) ^ (2 * length fs) * (INR n * M) <= 2 * (INR n * M)) by (apply Rmult_le_compat_r; assumption).
  lra.
Qed.

(** Sma at f64 with NO executable hypothesis: window 1 <= n < 2^53, t >= n finite inputs (t < 2^51) of magnitude at
    most M with 3 n M <= 2^1023:  |f64 answer - exact window mean| <= ((1+u)^(2t+1) - 1) M + eta *)
Theorem sma_prim_drift_bounded n M fs : (1 <= n)%nat -> (Z.of_nat n < 2 ^ 53)%Z -> (n <= length fs)%nat ->
  (Z.of_nat (length fs) < 2 ^ 51)%Z -> 0 <= M ->
  Forall (fun x => ffinite x = true /\ Rabs (f2r x) <= M) fs -> 3 * (INR n * M) <= bpow radix2 1023 ->
  exists o_f o_ex,
    cout (@sma_core float FOps n) fs = Ok (Some o_f) /\ ffinite o_f = true /\
    cout (@sma_core R ROps n) (map f2r fs) = Ok (Some o_ex) /\
    Rabs (f2r o_f - o_ex) <= ((1 + b64_u) ^ (2 * length fs + 1) - 1) * M + b64_eta.
Proof.
  intros Hn Hn53 Hl Ht HM HD HB.
  apply (sma_prim_drift n M fs Hn Hn53 Hl HM).
  - revert HD. apply Forall_impl. intros x [_ H]; exact H.
  - exact (sma_all_finite_of_bound_simple n M fs Hn Hn53 HM HD Ht HB).
Qed.

(** and the bridge itself, for every bounded stream *)
Theorem sma_bridge_bounded n M fs : (1 <= n)%nat -> (Z.of_nat n < 2 ^ 53)%Z -> 0 <= M ->
  Forall (fun x => ffinite x = true /\ Rabs (f2r x) <= M) fs ->
  (Z.of_nat (length fs) < 2 ^ 51)%Z -> 3 * (INR n * M) <= bpow radix2 1023 ->
  res_map (option_map f2r) (cout (@sma_core float FOps n) fs) = cout (@sma_core R B64Ops n) (map f2r fs).
Proof.
  intros Hn Hn53 HM HD Ht HB. apply (sma_bridge n fs Hn53).
  exact (sma_all_finite_of_bound_simple n M fs Hn Hn53 HM HD Ht HB).
Qed.

(** the magnitude condition is not vacuous and cannot be dropped: BridgeP.[bridge_needs_finiteness] and
    [overflow_rejected] have two inputs of magnitude 1e308 > 2^1023 / 6 *)
Example sma_bounded_ex : exists o_f o_ex,
  cout (@sma_core float FOps 3) stream10 = Ok (Some o_f) /\ ffinite o_f = true /\
  cout (@sma_core R ROps 3) (map f2r stream10) = Ok (Some o_ex) /\
  Rabs (f2r o_f - o_ex) <= ((1 + b64_u) ^ 21 - 1) * 128 + b64_eta.
Proof.
  apply (sma_prim_drift_bounded 3 128 stream10); [lia | reflexivity | cbn; lia | reflexivity | lra | |].
  - pose proof stream10_bounded as Hb. pose proof stream10_fin64 as Hf.
    rewrite Forall_forall in *. intros x Hx. split; [exact (Hf x Hx) | exact (Hb x Hx)].
  - replace (INR 3) with 3 by (cbn; lra).
    apply Rle_trans with (bpow radix2 11); [cbn; lra | apply bpow_le; lia].
Qed.

(** * Cumulative *)
Lemma cumulative_bridge_run n fs : all_finite_cumulative ffinite n fs = true ->
  exists s, crun (@cumulative_core float FOps n) fs = Ok s /\
            crun (@cumulative_core R B64Ops n) (map f2r fs) = Ok (cum_map float f2r s).
Proof.
  intros Hc.
  destruct (@core_bridge_run float f2r ffinite (@cumulative_core float FOps n) (@cumulative_core R B64Ops n)
              (cum_sfin ffinite) (cum_rel float f2r) (length fs)) with (fs := fs) as [s [t [E1 [E2 [Hr _]]]]].
  - intros s E. cbn [cnew cumulative_core] in *. inversion E; subst s. eexists; split; reflexivity.
  - intros k s t v s' _ Hr _ E Hs'. exact (cum_step_sim float FOps B64Ops f2r ffinite nat53 prim_arith_sim n k s t v s' Hr E Hs').
  - lia.
  - exact Hc.
  - exists s. unfold cum_rel in Hr. subst t. split; assumption.
Qed.

Theorem cumulative_all_finite_of_bound n M fs : (1 <= n)%nat -> 0 <= M ->
  Forall (fun x => ffinite x = true /\ Rabs (f2r x) <= M) fs ->
  (1 + b64_u) ^ (2 * length fs) * (INR n * M) + M <= bpow radix2 1023 ->
  all_finite_cumulative ffinite n fs = true.
Proof.
  intros Hn HM.
  enough (H : Forall (fun x => ffinite x = true /\ Rabs (f2r x) <= M) fs ->
              (1 + b64_u) ^ (2 * length fs) * (INR n * M) + M <= bpow radix2 1023 ->
              all_finite_cumulative ffinite n fs = true /\
              forall s, crun (@cumulative_core float FOps n) fs = Ok s -> Forall (fun x => Rabs (f2r x) <= M) (cum_q s)).
  { intros HD HB. exact (proj1 (H HD HB)). }
  induction fs as [|v vs IH] using rev_ind; intros HD HB.
  - split; [reflexivity|]. intros s E. cbn in E. inversion E; subst s. constructor.
  - apply Forall_app in HD. destruct HD as [HD Hv]. apply Forall_inv in Hv. destruct Hv as [Fv Mv].
    rewrite app_length in HB. cbn [length] in HB.
    pose proof b64_u_nonneg as Hu.
    assert (HnM : 0 <= INR n * M) by (apply Rmult_le_pos; [apply pos_INR | exact HM]).
    assert (HBvs : (1 + b64_u) ^ (2 * length vs) * (INR n * M) + M <= bpow radix2 1023).
    { pose proof (pow1u_mono (2 * length vs) (2 * (length vs + 1)) ltac:(lia)) as Hp. nra. }
    destruct (IH HD HBvs) as [IHc IHq]. clear IH.
    assert (Hb : Forall (fun x => Rabs (f2r x) <= M) vs).
    { revert HD. apply Forall_impl. intros x [_ H]; exact H. }
    destruct (all_finite_run_cout ffinite (@cumulative_core float FOps n) (cum_sfin ffinite) vs IHc) as [s [o [Er [Hs [Eo Fo]]]]].
    destruct (cumulative_bridge_run n vs IHc) as [s3 [Er3 Eb]]. rewrite Er in Er3. inversion Er3; subst s3; clear Er3.
    specialize (IHq s Er).
    unfold cum_sfin in Hs. apply andb_true_iff in Hs. destruct Hs as [Fq Fout].
    unfold cout in Eo. rewrite Er in Eo. cbn [bind clast cumulative_core] in Eo. inversion Eo; subst o; clear Eo.
    assert (HW : forall l, Forall (fun x => Rabs x <= M) l -> Rabs (@ssum R ROps (lastn n l)) <= INR n * M).
    { intros l Hl. pose proof (ssum_abs_le M (lastn n l) (Forall_lastn _ n l Hl)) as H.
      rewrite lastn_length in H. eapply Rle_trans; [exact H|]. apply Rmult_le_compat_r; [exact HM|].
      apply le_INR. lia. }
    assert (HbR : forall l, Forall (fun x => Rabs (f2r x) <= M) l -> Forall (fun x => Rabs x <= M) (map f2r l)).
    { intros l Hl. apply Forall_forall. intros y Hy. apply in_map_iff in Hy. destruct Hy as [x [<- Hx]].
      rewrite Forall_forall in Hl. exact (Hl x Hx). }
    set (outv := match cum_out s with None => @s0 float FOps | Some o => o end).
    assert (Foutv : ffinite outv = true).
    { unfold outv. destruct (cum_out s); [exact Fout | exact (proj1 prim_zero_fin)]. }
    assert (Houtv : Rabs (f2r outv) <= (1 + b64_u) ^ (2 * length vs) * (INR n * M)).
    { destruct vs as [|w ws] using rev_ind.
      - cbn in Er. inversion Er; subst s. unfold outv. cbn [cum_out s0 FOps]. rewrite (proj2 prim_zero_fin), Rabs_R0. cbn. lra.
      - clear IHws.
        destruct (cumulative_prim_drift n M (ws ++ [w]) Hn ltac:(destruct ws; discriminate) HM Hb IHc)
          as [o_f [o_ex [Eo [_ [Ex HE]]]]].
        unfold cout in Eo. rewrite Er in Eo. cbn [bind clast cumulative_core] in Eo. inversion Eo as [Eo'].
        unfold outv. rewrite Eo'.
        rewrite (cumulative_closed_form n (map f2r (ws ++ [w])) Hn) in Ex. unfold spec_cumulative in Ex.
        destruct (map f2r (ws ++ [w])) eqn:Em; [destruct ws; discriminate|]. inversion Ex; subst o_ex. rewrite <- Em in *.
        pose proof (HW _ (HbR _ Hb)) as H1.
        assert (Rabs (f2r o_f) <= Rabs (f2r o_f - @ssum R ROps (lastn n (map f2r (ws ++ [w])))) + Rabs (@ssum R ROps (lastn n (map f2r (ws ++ [w]))))).
        { eapply Rle_trans; [|apply Rabs_triang]. right. f_equal. ring. }
        lra. }
    (* the rounded-real run on one more value, and its bound *)
    assert (Hb' : Forall (fun x => Rabs (f2r x) <= M) (vs ++ [v])).
    { apply Forall_app. split; [exact Hb | constructor; [exact Mv | constructor]]. }
    destruct (cumulative_drift_b64 n M (map f2r (vs ++ [v])) Hn HM ltac:(destruct vs; discriminate) (f2r_Din M _ Hb'))
      as [o' [Eo' HE']].
    change (cout (@cumulative_core R B64Ops n) (map f2r (vs ++ [v])) = Ok (Some o')) in Eo'.
    unfold cout in Eo'. rewrite map_app in Eo'. cbn [map] in Eo'. rewrite crun_snoc, Eb in Eo'. cbn [bind cstep cumulative_core] in Eo'.
    rewrite map_length, app_length in HE'. cbn [length] in HE'.
    assert (Ho' : Rabs o' <= BIG1023).
    { pose proof (HW _ (HbR _ Hb')) as H1. unfold BIG1023.
      assert (Rabs o' <= Rabs (o' - @ssum R ROps (lastn n (map f2r (vs ++ [v])))) + Rabs (@ssum R ROps (lastn n (map f2r (vs ++ [v]))))).
      { eapply Rle_trans; [|apply Rabs_triang]. right. f_equal. ring. }
      nra. }
    unfold cum_step in Eo'. cbv zeta in Eo'. cbn [cum_map cum_q cum_out] in Eo'. rewrite map_length in Eo'.
    assert (Eoutv : match option_map f2r (cum_out s) with None => @s0 R B64Ops | Some o => o end = f2r outv).
    { unfold outv. destruct (cum_out s); [reflexivity | symmetry; exact (proj2 prim_zero_fin)]. }
    rewrite Eoutv in Eo'.
    assert (Hstep : exists s', @cum_step float FOps n s v = Ok s' /\ cum_sfin ffinite s' = true /\
                               Forall (fun x => Rabs (f2r x) <= M) (cum_q s')).
    { unfold cum_step. cbv zeta. fold outv. destruct (Nat.leb n (length (cum_q s))) eqn:El.
      - destruct (cum_q s) as [|old q'] eqn:Eq; [apply Nat.leb_le in El; cbn in El; lia|].
        cbn [pop_front bind map] in *.
        cbn [forallb] in Fq. apply andb_true_iff in Fq. destruct Fq as [Fold Fq'].
        pose proof (Forall_inv IHq) as Mold. apply Forall_inv_tail in IHq.
        assert (Hsub : Rabs (b64_sub (f2r outv) (f2r old)) <= BIG1023).
        { unfold b64_sub. apply b64_round_abs_le; [exact BIG1023_format|].
          eapply Rle_trans; [apply Rabs_triang|]. rewrite Rabs_Ropp. unfold BIG1023. lra. }
        destruct (prim_sub_b64 outv old Foutv Fold ltac:(pose proof BIG1023_lt; lra)) as [Es Fs].
        cbn [ssub sadd FOps B64Ops FlOps2] in *. inversion Eo' as [Eo'']. rewrite <- Es in Eo''.
        destruct (prim_add_b64 _ v Fs Fv ltac:(rewrite Eo''; pose proof BIG1023_lt; lra)) as [Ea Fa].
        eexists; split; [reflexivity|]. unfold cum_sfin. cbn [cum_q cum_out ofin]. rewrite Fa, forallb_app, Fq'. cbn [forallb].
        rewrite Fv. split; [reflexivity|]. apply Forall_app. split; [exact IHq | constructor; [exact Mv | constructor]].
      - cbn [bind] in *. cbn [sadd FOps B64Ops FlOps2] in *. inversion Eo' as [Eo''].
        destruct (prim_add_b64 _ v Foutv Fv ltac:(rewrite Eo''; pose proof BIG1023_lt; lra)) as [Ea Fa].
        eexists; split; [reflexivity|]. unfold cum_sfin. cbn [cum_q cum_out ofin]. rewrite Fa, forallb_app, Fq. cbn [forallb].
        rewrite Fv. split; [reflexivity|]. apply Forall_app. split; [exact IHq | constructor; [exact Mv | constructor]]. }
    destruct Hstep as [s' [Es' [Hs' Hq']]]. split.
    + apply (all_finite_run_snoc float ffinite (@cumulative_core float FOps n) (cum_sfin ffinite) vs v s s' IHc Er Es').
      unfold st_ok. rewrite Hs'. cbn [andb clast cumulative_core].
      unfold cum_sfin in Hs'. apply andb_true_iff in Hs'. tauto.
    + intros s2 E2. rewrite crun_snoc, Er in E2. cbn [bind cstep cumulative_core] in E2. rewrite Es' in E2.
      inversion E2; subst s2. exact Hq'.
Qed.

(** Cumulative at f64 with no executable hypothesis: t < 2^51 finite inputs of magnitude at most M, 3 n M <= 2^1023 *)
Theorem cumulative_prim_drift_bounded n M fs : (1 <= n)%nat -> fs <> [] -> (Z.of_nat (length fs) < 2 ^ 51)%Z -> 0 <= M ->
  Forall (fun x => ffinite x = true /\ Rabs (f2r x) <= M) fs -> 3 * (INR n * M) <= bpow radix2 1023 ->
  exists o_f o_ex,
    cout (@cumulative_core float FOps n) fs = Ok (Some o_f) /\ ffinite o_f = true /\
    cout (@cumulative_core R ROps n) (map f2r fs) = Ok (Some o_ex) /\
    Rabs (f2r o_f - o_ex) <= ((1 + b64_u) ^ (2 * length fs) - 1) * (INR n * M).
Proof.
  intros Hn Hne Ht HM HD HB.
  apply (cumulative_prim_drift n M fs Hn Hne HM).
  - revert HD. apply Forall_impl. intros x [_ H]; exact H.
  - apply (cumulative_all_finite_of_bound n M fs Hn HM HD).
    pose proof (pow1u_le2 (length fs) Ht) as Hp.
    assert (H1 : 1 <= INR n) by (change 1 with (INR 1); apply le_INR; exact Hn).
    assert (HnM : 0 <= INR n * M) by (apply Rmult_le_pos; lra).
    assert (HMn : M <= INR n * M) by nra.
    assert (HP : (1 + b64_u) ^ (2 * length fs) * (INR n * M) <= 2 * (INR n * M)) by (apply Rmult_le_compat_r; assumption).
    lra.
Qed.

Print Assumptions sma_all_finite_of_bound.
Print Assumptions sma_prim_drift_bounded.
Print Assumptions sma_bridge_bounded.
Print Assumptions cumulative_all_finite_of_bound.
Print Assumptions cumulative_prim_drift_bounded.
