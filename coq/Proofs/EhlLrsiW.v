(** W3 witness for LaguerreRSI: "the influence of old inputs fades" is false on a constant tail.
    Executed at the exact-rational instance [QOps] (window length N = 16, gamma = 2/17). *)
From Coq Require Import List Arith Lia ZArith QArith Bool.
From SF Require Import Res Scalar View Models Spec Core SpecEhl.
Import ListNotations.
Local Open Scope Q_scope.

(** the answer of LaguerreRSI(16) after the prefix [p] and [k] tail values 5 *)
Definition lrsi_on (p : list Q) (k : nat) : res (option Q) :=
  cout (@lrsi_core Q QOps 16) (p ++ repeat 5 k).
(** one pass over the prefix followed by 60 tail values: the outputs of all steps *)
Definition lrsi_run (p : list Q) : res (list (option Q)) :=
  mrun (standalone (@lrsi_core Q QOps 16)) (p ++ repeat 5 60%nat).

Lemma firstn_repeat {A} (c : A) m k : (k <= m)%nat -> firstn k (repeat c m) = repeat c k.
Proof.
  revert m; induction k as [|k IH]; intros m H; [reflexivity|].
  destruct m as [|m]; [lia|]. cbn [repeat firstn]. f_equal. apply IH. lia.
Qed.

(** the one-pass outputs are the [cout] answers *)
Lemma lrsi_on_nth p outs k t o : lrsi_run p = Ok outs -> (k <= 60)%nat -> S t = (length p + k)%nat ->
  nth_error outs t = Some o -> lrsi_on p k = Ok o.
Proof.
  intros Hr Hk Ht Hn. unfold lrsi_on.
  replace (p ++ repeat 5 k) with (firstn (S t) (p ++ repeat 5 60%nat)).
  - exact (@standalone_cout Q (@lrsi_core Q QOps 16) (p ++ repeat 5 60%nat) outs Hr t o Hn).
  - rewrite Ht, firstn_app_2, firstn_repeat by exact Hk. reflexivity.
Qed.

(** stream A: 10,11,12,13,14 then the constant 5; stream B: 2,1 then the constant 5;
    stream B5: B's prefix padded to the length of A's prefix. *)
Definition pA : list Q := [10; 11; 12; 13; 14].
Definition pB : list Q := [2; 1].
Definition pB5 : list Q := [2; 1; 3; 2; 1].
Definition lrsiA := lrsi_on pA.
Definition lrsiB := lrsi_on pB.
Definition lrsiB5 := lrsi_on pB5.

Definition outs_of (r : res (list (option Q))) : list (option Q) := match r with Ok l => l | Err _ => [] end.
Definition outsA : list (option Q) := Eval vm_compute in outs_of (lrsi_run pA).
Definition outsB : list (option Q) := Eval vm_compute in outs_of (lrsi_run pB).
Definition outsB5 : list (option Q) := Eval vm_compute in outs_of (lrsi_run pB5).
Lemma outsA_ok : lrsi_run pA = Ok outsA. Proof. vm_compute. reflexivity. Qed.
Lemma outsB_ok : lrsi_run pB = Ok outsB. Proof. vm_compute. reflexivity. Qed.
Lemma outsB5_ok : lrsi_run pB5 = Ok outsB5. Proof. vm_compute. reflexivity. Qed.

(** output after [k] tail values, read from the one-pass lists ([lp] = length of the prefix) *)
Definition at_tail (outs : list (option Q)) (lp k : nat) : option (option Q) := nth_error outs (lp + k - 1).

Definition is_val (r : option (option Q)) (q : Q) : bool :=
  match r with Some (Some y) => Qeq_bool y q | _ => false end.
(** both are values and the values are different rationals *)
Definition differ (a b : option (option Q)) : bool :=
  match a, b with Some (Some x), Some (Some y) => negb (Qeq_bool x y) | _, _ => false end.

(** (i) at every one of the 60 tail steps the two outputs are different;
    (ii) from the third tail step on A answers exactly 0 and B exactly 1
    (k0 = 3 is the smallest such: see the transient values below). *)
Definition lrsi_fading_check (oa ob : list (option Q)) (la lb : nat) : bool :=
  forallb (fun k => differ (at_tail oa la k) (at_tail ob lb k)) (seq 1 60) &&
  forallb (fun k => is_val (at_tail oa la k) 0 && is_val (at_tail ob lb k) 1) (seq 3 58).

Lemma lrsi_fading_check_true : lrsi_fading_check outsA outsB 5 2 = true.
Proof. vm_compute. reflexivity. Qed.
Lemma lrsi_fading_check5_true : lrsi_fading_check outsA outsB5 5 5 = true.
Proof. vm_compute. reflexivity. Qed.

Lemma differ_spec a b : differ a b = true ->
  exists x y, a = Some (Some x) /\ b = Some (Some y) /\ ~ x == y.
Proof.
  destruct a as [[x|]|]; try discriminate. destruct b as [[y|]|]; try discriminate.
  cbn. intros H. exists x, y. repeat split. intros E. apply Qeq_bool_iff in E. rewrite E in H. discriminate.
Qed.
Lemma is_val_spec r q : is_val r q = true -> exists y, r = Some (Some y) /\ y == q.
Proof.
  destruct r as [[y|]|]; try discriminate. cbn. intros H. exists y. split; [reflexivity|].
  apply Qeq_bool_iff; assumption.
Qed.

Lemma lrsi_fading_generic p q oa ob :
  lrsi_run p = Ok oa -> lrsi_run q = Ok ob -> (1 <= length p)%nat -> (1 <= length q)%nat ->
  lrsi_fading_check oa ob (length p) (length q) = true ->
  (forall k, (1 <= k <= 60)%nat ->
     exists x y, lrsi_on p k = Ok (Some x) /\ lrsi_on q k = Ok (Some y) /\ ~ x == y) /\
  (forall k, (3 <= k <= 60)%nat ->
     exists x y, lrsi_on p k = Ok (Some x) /\ lrsi_on q k = Ok (Some y) /\ x == 0 /\ y == 1).
Proof.
  intros Ha Hb Hp Hq H. unfold lrsi_fading_check in H.
  apply andb_true_iff in H. destruct H as [H1 H2].
  rewrite forallb_forall in H1, H2. split.
  - intros k Hk. assert (Hin : In k (seq 1 60)) by (apply in_seq; lia).
    destruct (differ_spec _ _ (H1 k Hin)) as (x & y & Hx & Hy & Hne). exists x, y.
    split; [|split; [|exact Hne]].
    + apply (@lrsi_on_nth p oa k (length p + k - 1)%nat _ Ha); [lia | lia | exact Hx].
    + apply (@lrsi_on_nth q ob k (length q + k - 1)%nat _ Hb); [lia | lia | exact Hy].
  - intros k Hk. assert (Hin : In k (seq 3 58)) by (apply in_seq; lia).
    specialize (H2 k Hin). apply andb_true_iff in H2. destruct H2 as [Hx Hy].
    destruct (is_val_spec _ _ Hx) as [x [Hx' Hx0]]. destruct (is_val_spec _ _ Hy) as [y [Hy' Hy1]].
    exists x, y. split; [|split; [|split; assumption]].
    + apply (@lrsi_on_nth p oa k (length p + k - 1)%nat _ Ha); [lia | lia | exact Hx'].
    + apply (@lrsi_on_nth q ob k (length q + k - 1)%nat _ Hb); [lia | lia | exact Hy'].
Qed.

(** the transient: the last prefix step (k = 0) and tail steps 1 and 2 *)
Lemma lrsi_fading_transient :
  lrsiA 0 = Ok (Some 1) /\ lrsiB 0 = Ok None /\
  lrsiA 1 = Ok (Some (12968310 # 25243007)) /\ lrsiB 1 = Ok (Some (293 # 327)) /\
  lrsiA 2 = Ok (Some (119692141 # 362727796)) /\ lrsiB 2 = Ok (Some (5865 # 6989)) /\
  lrsiB5 0 = Ok (Some (85670 # 116593)) /\
  lrsiB5 1 = Ok (Some (6319919 # 8490666)) /\ lrsiB5 2 = Ok (Some (105081930 # 149791211)).
Proof. vm_compute. repeat split; reflexivity. Qed.

(** Two streams with the same constant tail whose LaguerreRSI(16) outputs stay apart over the 60 tail
    steps examined, at distance exactly 1 from the third tail step on; tail steps 1 and 2 are a
    transient with values strictly inside (0,1) on both sides. *)
Theorem lrsi_fading_refuted :
  (forall k, (1 <= k <= 60)%nat ->
     exists x y, lrsiA k = Ok (Some x) /\ lrsiB k = Ok (Some y) /\ ~ x == y) /\
  (forall k, (3 <= k <= 60)%nat ->
     exists x y, lrsiA k = Ok (Some x) /\ lrsiB k = Ok (Some y) /\ x == 0 /\ y == 1) /\
  (exists x y, lrsiA 2 = Ok (Some x) /\ lrsiB 2 = Ok (Some y) /\ 0 < x /\ y < 1).
Proof.
  destruct (@lrsi_fading_generic pA pB outsA outsB outsA_ok outsB_ok) as [H1 H2];
    [cbn; lia | cbn; lia | exact lrsi_fading_check_true |].
  split; [exact H1 | split; [exact H2|]].
  destruct lrsi_fading_transient as (_ & _ & _ & _ & HA & HB & _).
  eexists; eexists. split; [exact HA|]. split; [exact HB|]. split; reflexivity.
Qed.

(** the same with prefixes of equal length *)
Theorem lrsi_fading_refuted5 :
  (forall k, (1 <= k <= 60)%nat ->
     exists x y, lrsiA k = Ok (Some x) /\ lrsiB5 k = Ok (Some y) /\ ~ x == y) /\
  (forall k, (3 <= k <= 60)%nat ->
     exists x y, lrsiA k = Ok (Some x) /\ lrsiB5 k = Ok (Some y) /\ x == 0 /\ y == 1) /\
  (exists x y, lrsiA 2 = Ok (Some x) /\ lrsiB5 2 = Ok (Some y) /\ 0 < x /\ y < 1).
Proof.
  destruct (@lrsi_fading_generic pA pB5 outsA outsB5 outsA_ok outsB5_ok) as [H1 H2];
    [cbn; lia | cbn; lia | exact lrsi_fading_check5_true |].
  split; [exact H1 | split; [exact H2|]].
  destruct lrsi_fading_transient as (_ & _ & _ & _ & HA & _ & _ & _ & HB).
  eexists; eexists. split; [exact HA|]. split; [exact HB|]. split; reflexivity.
Qed.

Print Assumptions lrsi_fading_refuted.
Print Assumptions lrsi_fading_refuted5.
