(** C06 (and the C03 / C16 parts) for CorrelationTrendIndicator, NoiseEliminationTechnology and
    CenterOfGravity, at the [R] instance. *)
From Coq Require Import List Arith Lia Reals Lra Bool Sorted.
From SF Require Import Res Scalar View Models Spec Core SpecCorr.
From SF.Proofs Require Import Window RBase.
Import ListNotations.
Open Scope R_scope.

(** * General helpers *)
Notation sm f l := (@ssum R ROps (map f l)).

Lemma sm_cons {A} (f : A -> R) p l : sm f (p :: l) = f p + sm f l.
Proof. cbn [map]. apply ssum_R_cons. Qed.
Lemma sm_nil {A} (f : A -> R) : sm f [] = 0.
Proof. reflexivity. Qed.
Lemma sm_app {A} (f : A -> R) l1 l2 : sm f (l1 ++ l2) = sm f l1 + sm f l2.
Proof. induction l1 as [|p l1 IH]; [rewrite sm_nil; cbn [app]; lra|]. cbn [app]. rewrite !sm_cons, IH. lra. Qed.
Lemma sm_ext {A} (f g : A -> R) l : (forall x, In x l -> f x = g x) -> sm f l = sm g l.
Proof.
  induction l as [|p l IH]; intros H; [reflexivity|]. rewrite !sm_cons, IH, (H p); [reflexivity| left; reflexivity|].
  intros x Hx. apply H. right. exact Hx.
Qed.
Lemma ssum_id (l : list R) : @ssum R ROps l = sm (fun x => x) l.
Proof. rewrite map_id. reflexivity. Qed.

Lemma lastn_map {A B} (f : A -> B) n l : lastn n (map f l) = map f (lastn n l).
Proof. unfold lastn. rewrite map_length. apply skipn_map. Qed.

Lemma S_INR' n : INR (S n) = INR n + 1. Proof. apply S_INR. Qed.

(** * Pearson correlation at [R] *)
Definition St (l : list (R * R)) := sm (fun p => fst p) l.
Definition Sv (l : list (R * R)) := sm (fun p => snd p) l.
Definition Stt (l : list (R * R)) := sm (fun p => fst p * fst p) l.
Definition Svv (l : list (R * R)) := sm (fun p => snd p * snd p) l.
Definition Stv (l : list (R * R)) := sm (fun p => fst p * snd p) l.
Definition cov l := INR (length l) * Stv l - St l * Sv l.
Definition vart l := INR (length l) * Stt l - St l * St l.
Definition varv l := INR (length l) * Svv l - Sv l * Sv l.

Lemma pearson_R l : @pearson R ROps l =
  if Rlt_dec 0 (vart l) then if Rlt_dec 0 (varv l) then cov l / sqrt (vart l * varv l) else 0 else 0.
Proof.
  unfold pearson. cbn [sltb ROps s0 smul ssub sofnat]. fold (St l) (Sv l) (Stt l) (Svv l) (Stv l).
  fold (vart l) (varv l) (cov l). unfold Rltb.
  destruct (Rlt_dec 0 (vart l)) as [Ht|Ht]; [|reflexivity].
  destruct (Rlt_dec 0 (varv l)) as [Hv|Hv]; [|reflexivity]. cbn [andb].
  assert (Hp : 0 < vart l * varv l) by (apply Rmult_lt_0_compat; assumption).
  unfold ssqrtd. cbn [ssqrt ROps]. destruct (Rlt_dec (vart l * varv l) 0) as [H|H]; [lra|].
  apply sdivd_R. apply Rgt_not_eq. apply sqrt_lt_R0. exact Hp.
Qed.

Definition timedR (i : nat) (w : list R) : list (R * R) := combine (map INR (seq i (length w))) w.
Lemma timed_R w : @timed R ROps w = timedR 0 w. Proof. reflexivity. Qed.
Lemma timedR_cons i x w : timedR i (x :: w) = (INR i, x) :: timedR (S i) w.
Proof. reflexivity. Qed.
Lemma timedR_length i w : length (timedR i w) = length w.
Proof. unfold timedR. rewrite combine_length, map_length, seq_length. lia. Qed.

(** * CTI: closed form *)
Lemma cti_loop_sums q i a :
  @cti_loop R ROps q i a =
  let l := timedR i q in
  {| c_sx := c_sx a + Sv l; c_sy := c_sy a + St l; c_sxx := c_sxx a + Svv l;
     c_sxy := c_sxy a + Stv l; c_syy := c_syy a + Stt l |}.
Proof.
  revert i a. induction q as [|v q IH]; intros i a.
  - destruct a; cbn. f_equal; lra.
  - cbn [cti_loop]. rewrite IH. cbv zeta. rewrite timedR_cons. cbn [c_sx c_sy c_sxx c_sxy c_syy].
    unfold Sv, St, Svv, Stv, Stt. rewrite !sm_cons. cbn [fst snd sadd smul ssq sofnat ROps].
    f_equal; lra.
Qed.

(** * Covariance as a sum over pairs (Lagrange / Chebyshev identity), Cauchy-Schwarz *)
Section Cov.
Context {A : Type}.
Definition covg (f g : A -> R) (l : list A) := INR (length l) * sm (fun p => f p * g p) l - sm f l * sm g l.
Definition crossg (f g : A -> R) (p : A) (l : list A) := sm (fun q => (f q - f p) * (g q - g p)) l.
Fixpoint Pg (f g : A -> R) (l : list A) : R :=
  match l with [] => 0 | p :: r => crossg f g p r + Pg f g r end.

Lemma sm_nonneg (f : A -> R) l : (forall x, In x l -> 0 <= f x) -> 0 <= sm f l.
Proof.
  induction l as [|p l IH]; intros H; [rewrite sm_nil; lra|]. rewrite sm_cons.
  pose proof (H p (or_introl eq_refl)). assert (0 <= sm f l) by (apply IH; intros x Hx; apply H; right; exact Hx). lra.
Qed.
Lemma sm_pos (f : A -> R) l : l <> [] -> (forall x, In x l -> 0 < f x) -> 0 < sm f l.
Proof.
  intros Hne H. destruct l as [|p l]; [contradiction|]. rewrite sm_cons.
  pose proof (H p (or_introl eq_refl)).
  assert (0 <= sm f l) by (apply sm_nonneg; intros x Hx; apply Rlt_le, H; right; exact Hx). lra.
Qed.
Lemma sm_lin (f g : A -> R) a l : sm (fun p => a * f p + g p) l = a * sm f l + sm g l.
Proof. induction l as [|p l IH]; [rewrite !sm_nil; lra|]. rewrite !sm_cons, IH. lra. Qed.
Lemma sm_const (c : R) (l : list A) : sm (fun _ => c) l = INR (length l) * c.
Proof. induction l as [|p l IH]; [rewrite sm_nil; cbn; lra|]. rewrite sm_cons, IH. cbn [length]. rewrite S_INR. lra. Qed.

Lemma crossg_expand f g p l :
  crossg f g p l = sm (fun q => f q * g q) l - f p * sm g l - g p * sm f l + INR (length l) * (f p * g p).
Proof.
  unfold crossg. induction l as [|q l IH]; [rewrite !sm_nil; cbn; lra|].
  rewrite !sm_cons, IH. cbn [length]. rewrite S_INR. ring.
Qed.

(** N * sum f g - sum f * sum g = sum over pairs i<j of (f_j - f_i)(g_j - g_i) *)
Lemma lagrange f g l : covg f g l = Pg f g l.
Proof.
  unfold covg. induction l as [|p l IH]; [cbn; lra|].
  cbn [Pg length]. rewrite <- IH, crossg_expand, !sm_cons, S_INR. ring.
Qed.

Lemma Pg_sq_nonneg f l : 0 <= Pg f f l.
Proof.
  induction l as [|p l IH]; cbn [Pg]; [lra|].
  assert (0 <= crossg f f p l) by (apply sm_nonneg; intros x _; apply Rle_0_sqr). lra.
Qed.
Lemma covg_sq_nonneg f l : 0 <= covg f f l.
Proof. rewrite lagrange. apply Pg_sq_nonneg. Qed.

Lemma covg_lin_r f g a b l : covg f (fun p => a * g p + b) l = a * covg f g l.
Proof.
  unfold covg. rewrite (sm_ext (fun p => f p * (a * g p + b)) (fun p => a * (f p * g p) + b * f p)) by (intros; ring).
  rewrite sm_lin. rewrite (sm_lin g (fun _ => b) a), sm_const.
  rewrite (sm_ext (fun p => b * f p) (fun p => b * f p + 0)) by (intros; ring).
  rewrite (sm_lin f (fun _ => 0) b), sm_const. ring.
Qed.
Lemma covg_sym f g l : covg f g l = covg g f l.
Proof. unfold covg. rewrite (sm_ext (fun p => f p * g p) (fun p => g p * f p)) by (intros; ring). ring. Qed.
Lemma covg_aff2 g a b l : covg (fun p => a * g p + b) (fun p => a * g p + b) l = a * a * covg g g l.
Proof. rewrite covg_lin_r, covg_sym, covg_lin_r. ring. Qed.

Lemma covg_quad f g t l :
  covg (fun p => t * f p + g p) (fun p => t * f p + g p) l = t * t * covg f f l + 2 * t * covg f g l + covg g g l.
Proof.
  unfold covg.
  rewrite (sm_ext (fun p => (t * f p + g p) * (t * f p + g p))
                  (fun p => (t * t) * (f p * f p) + ((2 * t) * (f p * g p) + g p * g p))) by (intros; ring).
  rewrite sm_lin, (sm_lin (fun p => f p * g p) (fun p => g p * g p)), sm_lin. ring.
Qed.

(** Cauchy-Schwarz for the covariance form *)
Lemma covg_cs f g l : covg f g l * covg f g l <= covg f f l * covg g g l.
Proof.
  set (a := covg f f l). set (b := covg f g l). set (c := covg g g l).
  assert (Hq : forall t, 0 <= t * t * a + 2 * t * b + c).
  { intros t. unfold a, b, c. rewrite <- covg_quad. apply covg_sq_nonneg. }
  assert (Ha : 0 <= a) by apply covg_sq_nonneg.
  clearbody a b c. destruct (Req_dec a 0) as [Ha0|Ha0].
  - subst a. destruct (Req_dec b 0) as [Hb0|Hb0]; [subst b; lra|].
    exfalso. specialize (Hq (- (c + 1) / (2 * b))).
    assert (E : 2 * (- (c + 1) / (2 * b)) * b = - (c + 1)) by (field; exact Hb0). lra.
  - assert (Hap : 0 < a) by lra. specialize (Hq (- b / a)).
    assert (E : a * (- b / a * (- b / a) * a + 2 * (- b / a) * b + c) = a * c - b * b) by (field; exact Ha0).
    assert (0 <= a * (- b / a * (- b / a) * a + 2 * (- b / a) * b + c)) by (apply Rmult_le_pos; lra). lra.
Qed.
End Cov.

Lemma cov_covg l : cov l = covg (fun p => fst p) (fun p => snd p) l. Proof. reflexivity. Qed.
Lemma vart_covg l : vart l = covg (fun p => fst p) (fun p => fst p) l. Proof. reflexivity. Qed.
Lemma varv_covg l : varv l = covg (fun p => snd p) (fun p => snd p) l. Proof. reflexivity. Qed.

Lemma vart_nonneg l : 0 <= vart l. Proof. rewrite vart_covg. apply covg_sq_nonneg. Qed.
Lemma varv_nonneg l : 0 <= varv l. Proof. rewrite varv_covg. apply covg_sq_nonneg. Qed.
Lemma cov_cs l : cov l * cov l <= vart l * varv l.
Proof. rewrite cov_covg, vart_covg, varv_covg. apply covg_cs. Qed.

(** the Pearson correlation lies in [-1, 1] *)
Lemma pearson_range l : -1 <= @pearson R ROps l <= 1.
Proof.
  rewrite pearson_R. destruct (Rlt_dec 0 (vart l)) as [Ht|Ht]; [|lra].
  destruct (Rlt_dec 0 (varv l)) as [Hv|Hv]; [|lra].
  assert (Hp : 0 < vart l * varv l) by (apply Rmult_lt_0_compat; assumption).
  pose proof (sqrt_lt_R0 _ Hp) as Hs. pose proof (sqrt_sqrt (vart l * varv l) (Rlt_le _ _ Hp)) as Hss.
  pose proof (cov_cs l) as Hcs. set (s := sqrt (vart l * varv l)) in *. set (c := cov l) in *.
  rewrite <- Hss in Hcs. clearbody s c.
  assert (- s <= c <= s) by (split; nra).
  assert (E : c / s * s = c) by (field; lra). set (x := c / s) in *. clearbody x.
  split; nra.
Qed.

(** * CTI: closed form (needs the range fact to remove the clamp [out.max(-1).min(1)]) *)
Lemma clamp_id_R x : -1 <= x <= 1 -> @smin R ROps (@smax R ROps x (@sneg R ROps (@s1 R ROps))) (@s1 R ROps) = x.
Proof.
  intros [H1 H2]. unfold smin, smax, sgeb. cbn [sleb sneg s1 ROps]. unfold Rleb.
  destruct (Rle_dec (- (1)) x) as [_|F]; [|lra]. destruct (Rle_dec x 1) as [_|F]; [reflexivity | lra].
Qed.

(** the model counts the values PRESENT: for every queue this is the Pearson correlation of its values with
    their time index *)
Lemma cti_last_R n q : @cti_last R ROps n q = Ok (Some (@pearson R ROps (@timed R ROps q))).
Proof.
  unfold cti_last. rewrite cti_loop_sums. cbv zeta. cbn [c_sx c_sy c_sxx c_sxy c_syy].
  rewrite timed_R. pose proof (pearson_range (timedR 0 q)) as Hr. rewrite pearson_R in *.
  pose proof (timedR_length 0 q) as Hl. set (l := timedR 0 q) in *.
  cbn [s0 sofnat smul ssub sadd ssq sgtb sltb ROps]. unfold ssq. cbn [smul ROps].
  replace (INR (length q) * (0 + Svv l) - (0 + Sv l) * (0 + Sv l)) with (varv l) by (unfold varv; rewrite Hl; ring).
  replace (INR (length q) * (0 + Stt l) - (0 + St l) * (0 + St l)) with (vart l) by (unfold vart; rewrite Hl; ring).
  replace (INR (length q) * (0 + Stv l) - (0 + Sv l) * (0 + St l)) with (cov l) by (unfold cov; rewrite Hl; ring).
  unfold Rltb. destruct (Rlt_dec 0 (varv l)) as [Hv|Hv]; destruct (Rlt_dec 0 (vart l)) as [Ht|Ht]; cbn [andb]; try reflexivity.
  assert (Hp : 0 < vart l * varv l) by (apply Rmult_lt_0_compat; assumption).
  cbn [ssqrt ROps]. destruct (Rlt_dec (varv l * vart l) 0) as [H|H]; [lra|]. cbn [bind].
  rewrite sdiv_R_ok by (apply Rgt_not_eq, sqrt_lt_R0; lra). cbn [bind].
  rewrite (Rmult_comm (varv l)). rewrite clamp_id_R by exact Hr. reflexivity.
Qed.

Lemma cti_state n vs : (1 <= n)%nat -> crun (@cti_core R ROps n) vs = Ok (lastn n vs).
Proof.
  intros Hn.
  destruct (@crun_inv R (@cti_core R ROps n) (fun _ => True) (fun h s => s = lastn n h) []) with (vs:=vs) as [s [Hr Hs]].
  - reflexivity.
  - reflexivity.
  - intros h s v _ _ Hi. subst s. cbn [cstep cti_core]. unfold cti_step.
    pose proof (evict_push_lastn n h v Hn) as Hev.
    destruct (Nat.leb n (length (lastn n h))) eqn:E.
    + apply Nat.leb_le in E. rewrite lastn_length in E.
      destruct (lastn_hd_tl n h) as [x Hx]; [lia | lia |].
      rewrite Hx in *. cbn [pop_front bind tl] in *. eexists; split; [reflexivity|]. exact Hev.
    + cbn [bind]. eexists; split; [reflexivity|]. exact Hev.
  - apply Forall_forall; trivial.
  - rewrite Hr, Hs. reflexivity.
Qed.

(** CTI is the Pearson correlation of the windowed values with their time index -- for EVERY history
    (before the window is full: of the values present) *)
Theorem cti_closed_form n vs : (1 <= n)%nat ->
  cout (@cti_core R ROps n) vs = Ok (@spec_cti R ROps n vs).
Proof.
  intros Hn. unfold cout. rewrite cti_state by assumption. cbn [bind clast cti_core].
  rewrite cti_last_R. reflexivity.
Qed.


(** * Affine maps of the values *)
Lemma sm_map {A B} (f : B -> R) (h : A -> B) l : sm f (map h l) = sm (fun x => f (h x)) l.
Proof. rewrite map_map. reflexivity. Qed.
Lemma covg_map {A B} (f g : B -> R) (h : A -> B) l : covg f g (map h l) = covg (fun x => f (h x)) (fun x => g (h x)) l.
Proof. unfold covg. rewrite map_length, !map_map. reflexivity. Qed.

Definition vmap (h : R -> R) (l : list (R * R)) := map (fun p => (fst p, h (snd p))) l.

Lemma timedR_map i h w : timedR i (map h w) = vmap h (timedR i w).
Proof.
  revert i. induction w as [|x w IH]; intros i; [reflexivity|].
  cbn [map]. rewrite !timedR_cons, IH. reflexivity.
Qed.

Lemma vart_vmap h l : vart (vmap h l) = vart l.
Proof. unfold vmap. rewrite !vart_covg, covg_map. reflexivity. Qed.
Lemma cov_aff a b l : cov (vmap (fun x => a * x + b) l) = a * cov l.
Proof.
  unfold vmap. rewrite !cov_covg, covg_map.
  exact (covg_lin_r (fun p => fst p) (fun p => snd p) a b l).
Qed.
Lemma varv_aff a b l : varv (vmap (fun x => a * x + b) l) = a * a * varv l.
Proof.
  unfold vmap. rewrite !varv_covg, covg_map.
  exact (covg_aff2 (fun p => snd p) a b l).
Qed.

(** Pearson correlation under v -> a v + b: multiplied by the sign of a *)
Lemma pearson_affine a b l : a <> 0 ->
  @pearson R ROps (vmap (fun x => a * x + b) l) = a / Rabs a * @pearson R ROps l.
Proof.
  intros Ha. rewrite !pearson_R, vart_vmap, cov_aff, varv_aff.
  assert (Haa : 0 < a * a) by nra.
  assert (Hab : Rabs a <> 0) by (apply Rabs_no_R0; exact Ha).
  destruct (Rlt_dec 0 (vart l)) as [Ht|Ht]; [|lra].
  destruct (Rlt_dec 0 (varv l)) as [Hv|Hv]; destruct (Rlt_dec 0 (a * a * varv l)) as [Hv'|Hv']; try lra; try nra.
  assert (Hp : 0 < vart l * varv l) by (apply Rmult_lt_0_compat; assumption).
  replace (vart l * (a * a * varv l)) with (Rabs a * Rabs a * (vart l * varv l))
    by (unfold Rabs; destruct (Rcase_abs a); ring).
  rewrite sqrt_mult_alt by (apply Rle_0_sqr). rewrite sqrt_square by apply Rabs_pos.
  field. split; [apply Rgt_not_eq, sqrt_lt_R0; exact Hp | exact Hab].
Qed.

(** * Monotone windows: sign of the covariance with time *)
Lemma timedR_in i w q : In q (timedR i w) -> INR i <= fst q /\ In (snd q) w.
Proof.
  revert i. induction w as [|x w IH]; intros i H; [contradiction|].
  rewrite timedR_cons in H. destruct H as [H|H].
  - subst q. cbn. split; [lra | left; reflexivity].
  - destruct (IH _ H) as [H1 H2]. rewrite S_INR in H1. split; [lra | right; exact H2].
Qed.

Lemma timedR_nonnil i w : w <> [] -> timedR i w <> [].
Proof. destruct w; [contradiction|]. rewrite timedR_cons. discriminate. Qed.

Lemma cov_timed_nonneg i w : StronglySorted Rlt w -> 0 <= cov (timedR i w).
Proof.
  rewrite cov_covg, lagrange. revert i. induction w as [|x w IH]; intros i Hs; [cbn; lra|].
  rewrite timedR_cons. cbn [Pg]. inversion Hs as [|? ? Hs' Hall]; subst.
  assert (0 <= crossg (fun p => fst p) (fun p => snd p) (INR i, x) (timedR (S i) w)).
  { apply sm_nonneg. intros q Hq. destruct (timedR_in _ _ _ Hq) as [H1 H2]. rewrite S_INR in H1.
    rewrite Forall_forall in Hall. specialize (Hall _ H2). cbn [fst snd]. apply Rmult_le_pos; lra. }
  specialize (IH (S i) Hs'). lra.
Qed.

Lemma cov_timed_pos i w : StronglySorted Rlt w -> (2 <= length w)%nat -> 0 < cov (timedR i w).
Proof.
  intros Hs Hl. destruct w as [|x w]; [cbn in Hl; lia|].
  rewrite cov_covg, lagrange, timedR_cons. cbn [Pg]. inversion Hs as [|? ? Hs' Hall]; subst.
  assert (0 < crossg (fun p => fst p) (fun p => snd p) (INR i, x) (timedR (S i) w)).
  { apply sm_pos.
    - apply timedR_nonnil. destruct w; [cbn in Hl; lia | discriminate].
    - intros q Hq. destruct (timedR_in _ _ _ Hq) as [H1 H2]. rewrite S_INR in H1.
      rewrite Forall_forall in Hall. specialize (Hall _ H2). cbn [fst snd]. apply Rmult_lt_0_compat; lra. }
  pose proof (cov_timed_nonneg (S i) w Hs') as H0. rewrite cov_covg, lagrange in H0. lra.
Qed.

(** the time index always has positive variance once there are two values *)
Lemma vart_timed_pos i w : (2 <= length w)%nat -> 0 < vart (timedR i w).
Proof.
  intros Hl. destruct w as [|x [|y w]]; [cbn in Hl; lia | cbn in Hl; lia |].
  rewrite vart_covg, lagrange, !timedR_cons. cbn [Pg]. unfold crossg at 1. rewrite sm_cons. cbn [fst].
  assert (0 <= sm (fun q => (fst q - INR i) * (fst q - INR i)) (timedR (S (S i)) w))
    by (apply sm_nonneg; intros q _; apply Rle_0_sqr).
  assert (0 <= crossg (fun p => fst p) (fun p => fst p) (INR (S i), y) (timedR (S (S i)) w))
    by (apply sm_nonneg; intros q _; apply Rle_0_sqr).
  pose proof (Pg_sq_nonneg (fun p : R * R => fst p) (timedR (S (S i)) w)).
  assert (E : INR (S i) - INR i = 1) by (rewrite S_INR; lra). rewrite E. lra.
Qed.

Lemma varv_timed_pos i w : StronglySorted Rlt w -> (2 <= length w)%nat -> 0 < varv (timedR i w).
Proof.
  intros Hs Hl. destruct w as [|x [|y w]]; [cbn in Hl; lia | cbn in Hl; lia |].
  inversion Hs as [|? ? Hs' Hall]; subst. apply Forall_inv in Hall.
  rewrite varv_covg, lagrange, !timedR_cons. cbn [Pg]. unfold crossg at 1. rewrite sm_cons. cbn [snd].
  assert (0 <= sm (fun q => (snd q - x) * (snd q - x)) (timedR (S (S i)) w))
    by (apply sm_nonneg; intros q _; apply Rle_0_sqr).
  assert (0 <= crossg (fun p => snd p) (fun p => snd p) (INR (S i), y) (timedR (S (S i)) w))
    by (apply sm_nonneg; intros q _; apply Rle_0_sqr).
  pose proof (Pg_sq_nonneg (fun p : R * R => snd p) (timedR (S (S i)) w)).
  assert (0 < (y - x) * (y - x)) by nra. lra.
Qed.

Lemma sign_pos a : 0 < a -> a / Rabs a = 1.
Proof. intros H. rewrite Rabs_right by lra. field. lra. Qed.
Lemma sign_neg a : a < 0 -> a / Rabs a = -1.
Proof. intros H. rewrite Rabs_left by lra. field. lra. Qed.

(** * CTI: main theorems *)

(** the output for every history (full window or not): the Pearson correlation of the values present in the
    window with their time index *)
Lemma cti_out n vs : (1 <= n)%nat ->
  cout (@cti_core R ROps n) vs = Ok (Some (@pearson R ROps (timedR 0 (lastn n vs)))).
Proof. intros Hn. rewrite cti_closed_form by exact Hn. reflexivity. Qed.
Lemma cti_out_full n vs : (1 <= n)%nat -> (n <= length vs)%nat ->
  cout (@cti_core R ROps n) vs = Ok (Some (@pearson R ROps (timedR 0 (lastn n vs)))).
Proof. intros Hn _. apply cti_out. exact Hn. Qed.

(** before the window is full CTI is the Pearson correlation of the values present (this replaces the former
    [cti_warmup_refuted]: the model used to take the window length as the count) *)
Theorem cti_warmup_is_pearson n vs : (1 <= n)%nat -> (length vs < n)%nat ->
  cout (@cti_core R ROps n) vs = Ok (Some (@pearson R ROps (@timed R ROps vs))).
Proof.
  intros Hn Hl. rewrite cti_closed_form by exact Hn. unfold spec_cti.
  rewrite lastn_all by lia. reflexivity.
Qed.

(** (c) CTI lies in [-1, 1] (Cauchy-Schwarz) -- for every history, not only full windows *)
Theorem cti_range n vs : (1 <= n)%nat ->
  exists x, cout (@cti_core R ROps n) vs = Ok (Some x) /\ -1 <= x <= 1.
Proof. intros Hn. eexists. split; [apply cti_out; exact Hn | apply pearson_range]. Qed.

(** for every history the output changes by the sign of a under x -> a x + b, a <> 0 *)
Lemma cti_out_affine n a b vs : (1 <= n)%nat -> a <> 0 ->
  cout (@cti_core R ROps n) (map (fun v => a * v + b) vs) =
  Ok (Some (a / Rabs a * @pearson R ROps (timedR 0 (lastn n vs)))).
Proof. intros Hn Ha. rewrite cti_out, lastn_map, timedR_map, pearson_affine by assumption. reflexivity. Qed.

(** scaling the input by a <> 0 multiplies the output by the sign of a -- for every history *)
Theorem cti_scale n a vs : (1 <= n)%nat -> a <> 0 ->
  exists x, cout (@cti_core R ROps n) vs = Ok (Some x) /\
            cout (@cti_core R ROps n) (map (fun v => a * v) vs) = Ok (Some (a / Rabs a * x)).
Proof.
  intros Hn Ha. eexists. split; [apply cti_out; exact Hn|].
  rewrite (map_ext (fun v => a * v) (fun v => a * v + 0)) by (intros; ring).
  apply cti_out_affine; assumption.
Qed.

(** (d) negating the input negates the output -- for every history *)
Theorem cti_neg n vs : (1 <= n)%nat ->
  exists x, cout (@cti_core R ROps n) vs = Ok (Some x) /\
            cout (@cti_core R ROps n) (map Ropp vs) = Ok (Some (- x)).
Proof.
  intros Hn. destruct (cti_scale n (-1) vs Hn) as [x [H1 H2]]; [lra|]. exists x. split; [exact H1|].
  rewrite (map_ext Ropp (fun v => -1 * v)) by (intros; ring). rewrite H2, sign_neg by lra.
  do 2 f_equal. ring.
Qed.

(** (e) the output is invariant under x -> a x + b, a > 0 (and changes sign for a < 0) -- for every history
    (the former guard [n <= length vs] is no longer needed: the count is the number of values present) *)
Theorem cti_affine_inv n a b vs : (1 <= n)%nat -> 0 < a ->
  cout (@cti_core R ROps n) (map (fun v => a * v + b) vs) = cout (@cti_core R ROps n) vs.
Proof.
  intros Hn Ha. rewrite cti_out_affine, cti_out, sign_pos by (try lra; assumption). do 2 f_equal. ring.
Qed.
Theorem cti_affine_inv_neg n a b vs : (1 <= n)%nat -> a < 0 ->
  exists x, cout (@cti_core R ROps n) vs = Ok (Some x) /\
            cout (@cti_core R ROps n) (map (fun v => a * v + b) vs) = Ok (Some (- x)).
Proof.
  intros Hn Ha. eexists. split; [apply cti_out; assumption|].
  rewrite cti_out_affine, sign_neg by (try lra; assumption). do 2 f_equal. ring.
Qed.

(** (b) a strictly increasing window (of at least two values; it need not be full) gives a positive output, a
    strictly decreasing one a negative output *)
Lemma pearson_incr_pos w : Sorted Rlt w -> (2 <= length w)%nat -> 0 < @pearson R ROps (timedR 0 w).
Proof.
  intros Hs Hl. apply Sorted_StronglySorted in Hs; [|exact Rlt_trans].
  rewrite pearson_R. pose proof (vart_timed_pos 0 w Hl) as Ht. pose proof (varv_timed_pos 0 w Hs Hl) as Hv.
  pose proof (cov_timed_pos 0 w Hs Hl) as Hc.
  destruct (Rlt_dec 0 (vart (timedR 0 w))) as [_|F]; [|contradiction].
  destruct (Rlt_dec 0 (varv (timedR 0 w))) as [_|F]; [|contradiction].
  apply Rdiv_lt_0_compat; [exact Hc|]. apply sqrt_lt_R0, Rmult_lt_0_compat; assumption.
Qed.

Lemma Sorted_opp w : Sorted Rgt w -> Sorted Rlt (map Ropp w).
Proof.
  induction 1 as [|x w Hs IH Hd]; cbn [map]; constructor; [exact IH|].
  destruct Hd as [|y w' Hxy]; cbn [map]; constructor. unfold Rgt in Hxy. lra.
Qed.

Theorem cti_pos n vs : (2 <= n)%nat -> (2 <= length vs)%nat -> Sorted Rlt (lastn n vs) ->
  exists x, cout (@cti_core R ROps n) vs = Ok (Some x) /\ 0 < x.
Proof.
  intros Hn Hl Hs. eexists. split; [apply cti_out; lia|].
  apply pearson_incr_pos; [exact Hs | rewrite lastn_length; lia].
Qed.
Theorem cti_neg_decr n vs : (2 <= n)%nat -> (2 <= length vs)%nat -> Sorted Rgt (lastn n vs) ->
  exists x, cout (@cti_core R ROps n) vs = Ok (Some x) /\ x < 0.
Proof.
  intros Hn Hl Hs. destruct (cti_neg n vs) as [x [H1 H2]]; [lia|]. exists x. split; [exact H1|].
  destruct (cti_pos n (map Ropp vs)) as [y [H3 H4]]; [exact Hn | rewrite map_length; exact Hl | |].
  - rewrite lastn_map. apply Sorted_opp. exact Hs.
  - rewrite H2 in H3. inversion H3. lra.
Qed.

(** (a) a window that is affine in the time index gives exactly +1 (slope > 0) or -1 (slope < 0) *)
Lemma timed_idx_diag i k q : In q (timedR i (map INR (seq i k))) -> snd q = fst q.
Proof.
  revert i. induction k as [|k IH]; intros i H; [contradiction|].
  cbn [seq map] in H. rewrite timedR_cons in H. destruct H as [H|H]; [subst q; reflexivity|].
  apply (IH (S i)). exact H.
Qed.

Lemma pearson_idx n : (2 <= n)%nat -> @pearson R ROps (timedR 0 (map INR (seq 0 n))) = 1.
Proof.
  intros Hn. set (l := timedR 0 (map INR (seq 0 n))).
  assert (Hd : forall q, In q l -> snd q = fst q) by (intros q; apply timed_idx_diag).
  assert (Hv : 0 < vart l) by (apply vart_timed_pos; rewrite map_length, seq_length; exact Hn).
  assert (E1 : Sv l = St l) by (apply sm_ext; exact Hd).
  assert (E2 : Svv l = Stt l) by (apply sm_ext; intros q Hq; rewrite (Hd q Hq); reflexivity).
  assert (E3 : Stv l = Stt l) by (apply sm_ext; intros q Hq; rewrite (Hd q Hq); reflexivity).
  assert (Ec : cov l = vart l) by (unfold cov, vart; rewrite E1, E3; reflexivity).
  assert (Ev : varv l = vart l) by (unfold varv, vart; rewrite E1, E2; reflexivity).
  rewrite pearson_R, Ev, Ec. destruct (Rlt_dec 0 (vart l)) as [_|F]; [|contradiction].
  rewrite sqrt_square by lra. field. lra.
Qed.

Lemma affine_window_eq c d n :
  map (fun i => c + d * INR i) (seq 0 n) = map (fun x => d * x + c) (map INR (seq 0 n)).
Proof. rewrite map_map. apply map_ext. intros; ring. Qed.

Theorem cti_affine n c d vs : (2 <= n)%nat ->
  lastn n vs = map (fun i => c + d * INR i) (seq 0 n) ->
  (0 < d -> cout (@cti_core R ROps n) vs = Ok (Some 1)) /\
  (d < 0 -> cout (@cti_core R ROps n) vs = Ok (Some (-1))).
Proof.
  intros Hn Hw.
  assert (Hl : (n <= length vs)%nat).
  { pose proof (lastn_length n vs) as H. rewrite Hw, map_length, seq_length in H. lia. }
  rewrite cti_out_full by (try lia; exact Hl). rewrite Hw, affine_window_eq, timedR_map.
  split; intros Hd; rewrite pearson_affine, pearson_idx by (try lra; exact Hn).
  - rewrite sign_pos by exact Hd. do 2 f_equal. ring.
  - rewrite sign_neg by exact Hd. do 2 f_equal. ring.
Qed.

(** WORDING CHECK: "CTI is +1 on any strictly increasing window" is false: on the strictly increasing full
    window 1,2,4,8 (n = 4) the output is 46 / sqrt 2300 = 0.959.. < 1 *)
Theorem cti_monotone_refuted :
  exists n vs, (3 <= n)%nat /\ (n <= length vs)%nat /\ Sorted Rlt (lastn n vs) /\
    exists x, cout (@cti_core R ROps n) vs = Ok (Some x) /\ x < 1 /\ x <> 1.
Proof.
  exists 4%nat, [1; 2; 4; 8]. split; [lia|]. split; [cbn; lia|]. split.
  { unfold lastn. cbn [length Nat.sub skipn]. repeat constructor; lra. }
  eexists. split; [apply cti_out; cbn; lia|].
  unfold lastn. cbn [length Nat.sub skipn]. rewrite pearson_R.
  set (l := timedR 0 [1; 2; 4; 8]).
  assert (Ht : vart l = 20).
  { unfold vart, St, Stt, l. rewrite !timedR_cons. change (timedR 4 []) with (@nil (R * R)).
    rewrite !sm_cons, !sm_nil. cbn [fst snd length INR]. lra. }
  assert (Hv : varv l = 115).
  { unfold varv, Sv, Svv, l. rewrite !timedR_cons. change (timedR 4 []) with (@nil (R * R)).
    rewrite !sm_cons, !sm_nil. cbn [fst snd length INR]. lra. }
  assert (Hc : cov l = 46).
  { unfold cov, St, Sv, Stv, l. rewrite !timedR_cons. change (timedR 4 []) with (@nil (R * R)).
    rewrite !sm_cons, !sm_nil. cbn [fst snd length INR]. lra. }
  rewrite Ht, Hv, Hc. destruct (Rlt_dec 0 20) as [_|F]; [|lra]. destruct (Rlt_dec 0 115) as [_|F]; [|lra].
  assert (Hs : sqrt (20 * 115) * sqrt (20 * 115) = 20 * 115) by (apply sqrt_sqrt; lra).
  assert (Hs0 : 0 < sqrt (20 * 115)) by (apply sqrt_lt_R0; lra).
  set (s := sqrt (20 * 115)) in *. assert (E : 46 / s * s = 46) by (field; lra).
  set (x := 46 / s) in *. clearbody x s.
  assert (x < 1) by nra. split; lra.
Qed.

(** C16 (exact half): identical values in the window give exactly 0 -- for every history *)
Lemma const_map c (w : list R) : Forall (fun x => x = c) w -> map (fun x => 0 * x + c) w = w.
Proof. induction 1 as [|x w Hx _ IH]; [reflexivity|]. cbn [map]. rewrite IH, Hx. f_equal. ring. Qed.

Theorem cti_const n c vs : (1 <= n)%nat -> Forall (fun x => x = c) (lastn n vs) ->
  cout (@cti_core R ROps n) vs = Ok (Some 0).
Proof.
  intros Hn Hc. rewrite cti_out by assumption. rewrite <- (const_map c _ Hc), timedR_map, pearson_R.
  rewrite varv_aff. destruct (Rlt_dec 0 (vart _)); [|reflexivity].
  destruct (Rlt_dec 0 (0 * 0 * varv _)) as [F|_]; [lra | reflexivity].
Qed.

(** C03: finite memory K = n (the guard [n <= length s] is essential: the output depends on the last n values) *)
Theorem cti_finite_memory n p p' s : (1 <= n)%nat -> (n <= length s)%nat ->
  cout (@cti_core R ROps n) (p ++ s) = cout (@cti_core R ROps n) (p' ++ s).
Proof.
  intros Hn Hl. rewrite !cti_out by exact Hn.
  rewrite !lastn_app_suffix by exact Hl. reflexivity.
Qed.

(** * NET: Kendall's tau against time *)
Definition sgnR (d : R) : R := @ssgn R ROps d.
Definition ps (l : list R) : R := @pairs_sign R ROps l.

Lemma sgnR_pos d : 0 < d -> sgnR d = 1.
Proof. intros H. unfold sgnR, ssgn. cbn [sltb s0 s1 ROps]. unfold Rltb. destruct (Rlt_dec 0 d); [reflexivity | contradiction]. Qed.
Lemma sgnR_neg d : d < 0 -> sgnR d = -1.
Proof.
  intros H. unfold sgnR, ssgn. cbn [sltb s0 s1 sneg ROps]. unfold Rltb.
  destruct (Rlt_dec 0 d); [lra|]. destruct (Rlt_dec d 0); [lra | contradiction].
Qed.
Lemma sgnR_zero : sgnR 0 = 0.
Proof.
  unfold sgnR, ssgn. cbn [sltb s0 s1 sneg ROps]. unfold Rltb. destruct (Rlt_dec 0 0); [lra | reflexivity].
Qed.
Lemma sgnR_cases d : (0 < d /\ sgnR d = 1) \/ (d = 0 /\ sgnR d = 0) \/ (d < 0 /\ sgnR d = -1).
Proof.
  destruct (Rtotal_order d 0) as [H|[H|H]].
  - right; right. split; [exact H | apply sgnR_neg; exact H].
  - right; left. subst d. split; [reflexivity | apply sgnR_zero].
  - left. split; [exact H | apply sgnR_pos; exact H].
Qed.
Lemma sgnR_opp d : sgnR (- d) = - sgnR d.
Proof.
  destruct (sgnR_cases d) as [[H E]|[[H E]|[H E]]]; rewrite E.
  - apply sgnR_neg. lra.
  - subst d. rewrite Ropp_0, sgnR_zero. lra.
  - rewrite sgnR_pos by lra. lra.
Qed.
Lemma sgnR_range d : -1 <= sgnR d <= 1.
Proof. destruct (sgnR_cases d) as [[H E]|[[H E]|[H E]]]; rewrite E; lra. Qed.

Lemma ps_cons x r : ps (x :: r) = sm (fun y => sgnR (y - x)) r + ps r.
Proof. reflexivity. Qed.
Lemma ps_nil : ps [] = 0. Proof. reflexivity. Qed.

(** pairs enumerated the other way round: each new value against all older ones *)
Lemma ps_snoc l x : ps (l ++ [x]) = ps l + sm (fun o => sgnR (x - o)) l.
Proof.
  induction l as [|y l IH]; [cbn [app]; rewrite ps_cons, ps_nil, !sm_nil; lra|].
  cbn [app]. rewrite !ps_cons, IH, sm_app, !sm_cons, sm_nil. lra.
Qed.

Lemma net_sign_R num d : @net_sign R ROps num d = num + sgnR d.
Proof.
  unfold net_sign, sgtb. cbn [sltb s0 s1 sadd ssub ROps]. unfold Rltb.
  destruct (Rlt_dec 0 d) as [H|H]; [rewrite sgnR_pos by exact H; reflexivity|].
  destruct (Rlt_dec d 0) as [H'|H']; [rewrite sgnR_neg by exact H'; reflexivity|].
  replace d with 0 by lra. rewrite sgnR_zero. lra.
Qed.

Lemma net_inner_R x older num :
  fold_left (fun acc o => @net_sign R ROps acc (@ssub R ROps x o)) older num = num + sm (fun o => sgnR (x - o)) older.
Proof.
  revert num. induction older as [|o older IH]; intros num; [rewrite sm_nil; cbn; lra|].
  cbn [fold_left]. rewrite IH, net_sign_R, sm_cons. cbn [ssub ROps]. lra.
Qed.

Lemma net_loop_R older rest num : @net_loop R ROps older rest num = num + ps (older ++ rest) - ps older.
Proof.
  revert older num. induction rest as [|x rest IH]; intros older num; [cbn [net_loop]; rewrite app_nil_r; lra|].
  cbn [net_loop]. rewrite IH, net_inner_R, <- app_assoc, ps_snoc. cbn [app]. lra.
Qed.

Lemma sofdec_half : @sofdec R ROps 5 1 = 1 / 2.
Proof. cbn [sofdec ROps]. replace (10 ^ Z.of_nat 1)%Z with 10%Z by reflexivity. lra. Qed.

(** value of the NET output on a window of k >= 2 values *)
Definition netv (w : list R) : R := ps w / (INR (length w) * (INR (length w) - 1) / 2).

Lemma INR_ge2 k : (2 <= k)%nat -> 2 <= INR k.
Proof. intros H. apply le_INR in H. cbn in H. lra. Qed.
Lemma pairs_pos k : (2 <= k)%nat -> 0 < INR k * (INR k - 1) / 2.
Proof.
  intros H. assert (2 <= INR k) by (apply le_INR in H; cbn in H; lra). nra.
Qed.

Lemma spec_net_R n h : @spec_net R ROps n h =
  if Nat.ltb (length (lastn n h)) 2 then None else Some (netv (lastn n h)).
Proof.
  unfold spec_net. destruct (Nat.ltb_spec (length (lastn n h)) 2) as [H|H]; [reflexivity|].
  f_equal. cbn [sofnat smul ssub s1 ROps]. rewrite (sdivd_R _ (INR 2)) by (cbn; lra).
  pose proof (pairs_pos _ H). replace (INR 2) with 2 by (cbn; lra).
  rewrite sdivd_R by lra. reflexivity.
Qed.

Definition net_inv (n : nat) (h : list R) (s : list R * option R) : Prop :=
  fst s = lastn n h /\ snd s = @spec_net R ROps n h.

Lemma net_step_inv n h s v : (1 <= n)%nat -> net_inv n h s ->
  exists s', @net_step R ROps n s v = Ok s' /\ net_inv n (h ++ [v]) s'.
Proof.
  intros Hn [Hq Ho]. unfold net_step. rewrite Hq. unfold evict.
  rewrite (evict_push_lastn n h v Hn). cbv zeta.
  assert (Hlen : (length (lastn n h) <= length (lastn n (h ++ [v])))%nat).
  { rewrite !lastn_length, app_length. cbn. lia. }
  destruct (Nat.ltb_spec (length (lastn n (h ++ [v]))) 2) as [H|H].
  - eexists; split; [reflexivity|]. split; cbn [fst snd]; [reflexivity|].
    rewrite Ho, !spec_net_R.
    destruct (Nat.ltb_spec (length (lastn n h)) 2); [|lia].
    destruct (Nat.ltb_spec (length (lastn n (h ++ [v]))) 2); [reflexivity | lia].
  - rewrite net_loop_R, sofdec_half. cbn [s0 s1 sofnat smul ssub app ROps].
    pose proof (pairs_pos _ H) as Hp.
    rewrite sdiv_R_ok by lra. cbn [bind]. eexists; split; [reflexivity|]. split; cbn [fst snd]; [reflexivity|].
    rewrite spec_net_R. destruct (Nat.ltb_spec (length (lastn n (h ++ [v]))) 2); [lia|].
    f_equal. unfold netv. rewrite ps_nil. field. assert (2 <= INR (length (lastn n (h ++ [v])))) by (apply le_INR in H; cbn in H; lra). split; lra.
Qed.

Lemma net_state n vs : (1 <= n)%nat ->
  exists s, crun (@net_core R ROps n) vs = Ok s /\ net_inv n vs s.
Proof.
  intros Hn.
  apply (@crun_inv R (@net_core R ROps n) (fun _ => True) (net_inv n) ([], None)).
  - reflexivity.
  - split; [rewrite lastn_nil; reflexivity|]. cbn [snd]. rewrite spec_net_R, lastn_nil. reflexivity.
  - intros h s v _ _ Hi. apply net_step_inv; assumption.
  - apply Forall_forall; trivial.
Qed.

(** NET is Kendall's tau of the values in the window against time; None before the window holds 2 values
    (in particular always None when n = 1) *)
Theorem net_closed_form n vs : (1 <= n)%nat ->
  cout (@net_core R ROps n) vs = Ok (@spec_net R ROps n vs).
Proof.
  intros Hn. destruct (net_state n vs Hn) as [s [Hr [_ Ho]]].
  unfold cout. rewrite Hr. cbn [bind clast net_core]. rewrite Ho. reflexivity.
Qed.

Lemma net_out n vs : (1 <= n)%nat -> (2 <= length (lastn n vs))%nat ->
  cout (@net_core R ROps n) vs = Ok (Some (netv (lastn n vs))).
Proof.
  intros Hn Hl. rewrite net_closed_form, spec_net_R by exact Hn.
  destruct (Nat.ltb_spec (length (lastn n vs)) 2); [lia | reflexivity].
Qed.
Lemma net_out_none n vs : (1 <= n)%nat -> (length (lastn n vs) < 2)%nat ->
  cout (@net_core R ROps n) vs = Ok None.
Proof.
  intros Hn Hl. rewrite net_closed_form, spec_net_R by exact Hn.
  destruct (Nat.ltb_spec (length (lastn n vs)) 2); [reflexivity | lia].
Qed.

Lemma sm_bound {A} (f : A -> R) l : (forall x, In x l -> -1 <= f x <= 1) -> - INR (length l) <= sm f l <= INR (length l).
Proof.
  induction l as [|p l IH]; intros H; [rewrite sm_nil; cbn; lra|].
  rewrite sm_cons. cbn [length]. rewrite S_INR. pose proof (H p (or_introl eq_refl)).
  assert (- INR (length l) <= sm f l <= INR (length l)) by (apply IH; intros x Hx; apply H; right; exact Hx). lra.
Qed.

Lemma ps_bound l : - (INR (length l) * (INR (length l) - 1) / 2) <= ps l <= INR (length l) * (INR (length l) - 1) / 2.
Proof.
  induction l as [|x l IH]; [rewrite ps_nil; cbn; lra|].
  rewrite ps_cons. cbn [length]. rewrite S_INR.
  pose proof (sm_bound (fun y => sgnR (y - x)) l (fun y _ => sgnR_range (y - x))). lra.
Qed.

Lemma netv_range w : (2 <= length w)%nat -> -1 <= netv w <= 1.
Proof.
  intros H. unfold netv. pose proof (pairs_pos _ H) as Hp. pose proof (ps_bound w) as Hb.
  set (d := INR (length w) * (INR (length w) - 1) / 2) in *. set (c := ps w) in *.
  assert (E : c / d * d = c) by (field; lra). set (x := c / d) in *. clearbody x c d. split; nra.
Qed.

(** NET lies in [-1, 1] *)
Theorem net_range n vs x : (1 <= n)%nat -> cout (@net_core R ROps n) vs = Ok (Some x) -> -1 <= x <= 1.
Proof.
  intros Hn H. rewrite net_closed_form, spec_net_R in H by exact Hn.
  destruct (Nat.ltb_spec (length (lastn n vs)) 2) as [Hl|Hl]; [discriminate|].
  inversion H; subst. apply netv_range. exact Hl.
Qed.

(** NET is +1 on a strictly increasing window (of k >= 2 values), -1 on a strictly decreasing one *)
Lemma ps_incr l : StronglySorted Rlt l -> ps l = INR (length l) * (INR (length l) - 1) / 2.
Proof.
  induction 1 as [|x l Hs IH Hall]; [rewrite ps_nil; cbn; lra|].
  rewrite ps_cons, IH. cbn [length]. rewrite S_INR.
  rewrite (sm_ext (fun y => sgnR (y - x)) (fun _ => 1)).
  - rewrite sm_const. lra.
  - intros y Hy. rewrite Forall_forall in Hall. specialize (Hall y Hy). apply sgnR_pos. lra.
Qed.

Lemma ps_opp l : ps (map Ropp l) = - ps l.
Proof.
  induction l as [|x l IH]; [cbn [map]; rewrite ps_nil; lra|].
  cbn [map]. rewrite !ps_cons, IH, sm_map.
  rewrite (sm_ext (fun y => sgnR (- y - - x)) (fun y => -1 * sgnR (y - x) + 0)).
  - rewrite sm_lin, sm_const. lra.
  - intros y _. replace (- y - - x) with (- (y - x)) by ring. rewrite sgnR_opp. ring.
Qed.
Lemma netv_opp w : (2 <= length w)%nat -> netv (map Ropp w) = - netv w.
Proof.
  intros H. unfold netv. rewrite ps_opp, map_length. pose proof (INR_ge2 _ H). field. split; lra.
Qed.

Lemma netv_incr w : StronglySorted Rlt w -> (2 <= length w)%nat -> netv w = 1.
Proof. intros Hs H. unfold netv. rewrite ps_incr by exact Hs. pose proof (INR_ge2 _ H). field. split; lra. Qed.

Theorem net_monotone n vs : (1 <= n)%nat -> (2 <= length (lastn n vs))%nat ->
  (Sorted Rlt (lastn n vs) -> cout (@net_core R ROps n) vs = Ok (Some 1)) /\
  (Sorted Rgt (lastn n vs) -> cout (@net_core R ROps n) vs = Ok (Some (-1))).
Proof.
  intros Hn Hl. rewrite net_out by assumption. split; intros Hs.
  - rewrite netv_incr; [reflexivity | | exact Hl]. apply Sorted_StronglySorted; [exact Rlt_trans | exact Hs].
  - do 2 f_equal. apply Sorted_opp in Hs. apply Sorted_StronglySorted in Hs; [|exact Rlt_trans].
    pose proof (netv_incr _ Hs) as E. rewrite map_length in E. specialize (E Hl).
    rewrite netv_opp in E by exact Hl. lra.
Qed.

(** negating the input negates the output *)
Theorem net_neg n vs : (1 <= n)%nat ->
  exists o, cout (@net_core R ROps n) vs = Ok o /\
            cout (@net_core R ROps n) (map Ropp vs) = Ok (option_map Ropp o).
Proof.
  intros Hn. eexists. split; [apply net_closed_form; exact Hn|].
  rewrite net_closed_form, !spec_net_R, lastn_map, map_length by exact Hn.
  destruct (Nat.ltb_spec (length (lastn n vs)) 2) as [H|H]; [reflexivity|].
  cbn [option_map]. rewrite netv_opp by exact H. reflexivity.
Qed.

(** NET depends only on the order of the values: equal pairwise order relations give equal outputs *)
Lemma sm_sgn_ext x x' r r' : length r = length r' ->
  (forall j, (j < length r)%nat -> sgnR (nth j r 0 - x) = sgnR (nth j r' 0 - x')) ->
  sm (fun y => sgnR (y - x)) r = sm (fun y => sgnR (y - x')) r'.
Proof.
  revert r'. induction r as [|y r IH]; intros [|y' r'] Hl H; try discriminate; [reflexivity|].
  rewrite !sm_cons. rewrite (IH r').
  - pose proof (H 0%nat ltac:(cbn; lia)) as H0. cbn [nth] in H0. rewrite H0. reflexivity.
  - cbn in Hl. lia.
  - intros j Hj. apply (H (S j)). cbn. lia.
Qed.

Lemma ps_order_only w w' : length w = length w' ->
  (forall i j, (i < j < length w)%nat -> sgnR (nth j w 0 - nth i w 0) = sgnR (nth j w' 0 - nth i w' 0)) ->
  ps w = ps w'.
Proof.
  revert w'. induction w as [|x w IH]; intros [|x' w'] Hl H; try discriminate; [reflexivity|].
  rewrite !ps_cons. rewrite (IH w').
  - rewrite (sm_sgn_ext x x' w w'); [reflexivity | cbn in Hl; lia |].
    intros j Hj. apply (H 0%nat (S j)). cbn. lia.
  - cbn in Hl. lia.
  - intros i j Hij. apply (H (S i) (S j)). cbn. lia.
Qed.

Theorem net_order_only n vs vs' : (1 <= n)%nat ->
  length (lastn n vs) = length (lastn n vs') ->
  (forall i j, (i < j < length (lastn n vs))%nat ->
     sgnR (nth j (lastn n vs) 0 - nth i (lastn n vs) 0) = sgnR (nth j (lastn n vs') 0 - nth i (lastn n vs') 0)) ->
  cout (@net_core R ROps n) vs = cout (@net_core R ROps n) vs'.
Proof.
  intros Hn Hl H. rewrite !net_closed_form, !spec_net_R by exact Hn. rewrite <- Hl.
  destruct (Nat.ltb_spec (length (lastn n vs)) 2); [reflexivity|].
  unfold netv. rewrite <- Hl, (ps_order_only _ _ Hl H). reflexivity.
Qed.

(** corollary: invariance under any strictly increasing map of the values (e.g. a x + b with a > 0) *)
Lemma sgnR_incr f x y : (forall a b, a < b -> f a < f b) -> sgnR (f y - f x) = sgnR (y - x).
Proof.
  intros Hf. destruct (Rtotal_order x y) as [H|[H|H]].
  - rewrite !sgnR_pos; [reflexivity | lra | specialize (Hf _ _ H); lra].
  - subst y. rewrite !Rminus_eq_0. reflexivity.
  - rewrite !sgnR_neg; [reflexivity | lra | specialize (Hf _ _ H); lra].
Qed.

Theorem net_incr_map n f vs : (1 <= n)%nat -> (forall a b, a < b -> f a < f b) ->
  cout (@net_core R ROps n) (map f vs) = cout (@net_core R ROps n) vs.
Proof.
  intros Hn Hf. apply net_order_only; [exact Hn | rewrite lastn_map, map_length; reflexivity |].
  intros i j Hij. rewrite lastn_map in *. rewrite map_length in Hij.
  rewrite !(nth_indep (map f (lastn n vs)) 0 (f 0)) by (rewrite map_length; lia).
  rewrite !map_nth. apply sgnR_incr. exact Hf.
Qed.
Corollary net_affine_inv n a b vs : (1 <= n)%nat -> 0 < a ->
  cout (@net_core R ROps n) (map (fun v => a * v + b) vs) = cout (@net_core R ROps n) vs.
Proof. intros Hn Ha. apply net_incr_map; [exact Hn|]. intros x y Hxy. nra. Qed.

(** C16 (exact half): identical values in the window give exactly 0 *)
Lemma ps_const c l : Forall (fun x => x = c) l -> ps l = 0.
Proof.
  induction 1 as [|x l Hx Hall IH]; [apply ps_nil|]. rewrite ps_cons, IH.
  rewrite (sm_ext (fun y => sgnR (y - x)) (fun _ => 0)); [rewrite sm_const; lra|].
  intros y Hy. rewrite Forall_forall in Hall. rewrite (Hall y Hy), Hx, Rminus_eq_0. apply sgnR_zero.
Qed.
Theorem net_const n c vs : (1 <= n)%nat -> (2 <= length (lastn n vs))%nat ->
  Forall (fun x => x = c) (lastn n vs) -> cout (@net_core R ROps n) vs = Ok (Some 0).
Proof.
  intros Hn Hl Hc. rewrite net_out by assumption. unfold netv. rewrite (ps_const c) by exact Hc.
  do 2 f_equal. pose proof (INR_ge2 _ Hl). field. split; lra.
Qed.

(** C03: finite memory K = n *)
Theorem net_finite_memory n p p' s : (1 <= n)%nat -> (n <= length s)%nat ->
  cout (@net_core R ROps n) (p ++ s) = cout (@net_core R ROps n) (p' ++ s).
Proof.
  intros Hn Hl. rewrite !net_closed_form, !spec_net_R by exact Hn.
  rewrite !lastn_app_suffix by exact Hl. reflexivity.
Qed.

(** * CoG *)
Definition cn (l : list R) : R := @cog_num R ROps l.
Definition dn (l : list R) : R := @ssum R ROps l.
Lemma cn_cons v r : cn (v :: r) = INR (S (length r)) * v + cn r. Proof. reflexivity. Qed.
Lemma cn_nil : cn [] = 0. Proof. reflexivity. Qed.
Lemma dn_cons v r : dn (v :: r) = v + dn r. Proof. apply ssum_R_cons. Qed.
Lemma dn_nil : dn [] = 0. Proof. reflexivity. Qed.

Lemma cog_sums_R q num den : @cog_sums R ROps q (length q) num den = (num + cn q, den + dn q).
Proof.
  revert num den. induction q as [|v q IH]; intros num den.
  - cbn [cog_sums]. rewrite cn_nil, dn_nil. f_equal; lra.
  - cbn [cog_sums length]. replace (S (length q) - 1)%nat with (length q) by lia.
    rewrite IH, cn_cons, dn_cons. cbn [sadd smul sofnat ROps]. f_equal; lra.
Qed.

Definition cogv (w : list R) : R :=
  if Req_EM_T (dn w) 0 then 0 else (INR (length w) + 1) / 2 - cn w / dn w.

Lemma spec_cog_R n h : @spec_cog R ROps n h =
  match lastn n h with [] => None | _ => Some (cogv (lastn n h)) end.
Proof.
  unfold spec_cog. destruct (lastn n h) as [|x w] eqn:E; [reflexivity|]. f_equal.
  unfold cogv. fold (dn (x :: w)) (cn (x :: w)). cbn [seqb s0 s1 sofnat sadd ssub ROps]. unfold Reqb.
  destruct (Req_EM_T (dn (x :: w)) 0) as [H|H]; [reflexivity|].
  rewrite (sdivd_R _ (INR 2)) by (cbn; lra). rewrite sdivd_R by exact H.
  replace (INR 2) with 2 by (cbn; lra). reflexivity.
Qed.

Lemma sofdec_two : @sofdec R ROps 2 0 = 2.
Proof. cbn [sofdec ROps]. replace (10 ^ Z.of_nat 0)%Z with 1%Z by reflexivity. lra. Qed.

Definition cog_inv (n : nat) (h : list R) (s : list R * option R) : Prop :=
  fst s = lastn n h /\ snd s = @spec_cog R ROps n h.

Lemma cog_step_inv n h s v : (1 <= n)%nat -> cog_inv n h s ->
  exists s', @cog_step R ROps n s v = Ok s' /\ cog_inv n (h ++ [v]) s'.
Proof.
  intros Hn [Hq Ho]. unfold cog_step. rewrite Hq. unfold evict.
  rewrite (evict_push_lastn n h v Hn). cbv zeta. rewrite cog_sums_R.
  set (w := lastn n (h ++ [v])).
  assert (Hw : w <> []).
  { intros E. pose proof (lastn_length n (h ++ [v])) as Hl. fold w in Hl. rewrite E, app_length in Hl. cbn in Hl. lia. }
  assert (Hs : @spec_cog R ROps n (h ++ [v]) = Some (cogv w)).
  { rewrite spec_cog_R. fold w. destruct w; [contradiction | reflexivity]. }
  unfold sneb. cbn [seqb s0 s1 sadd sneg sofnat ROps]. unfold Reqb. rewrite sofdec_two.
  unfold cogv in Hs. replace (0 + dn w) with (dn w) by lra.
  destruct (Req_EM_T (dn w) 0) as [H|H]; cbn [negb].
  - eexists; split; [reflexivity|]. split; cbn [fst snd]; [reflexivity | symmetry; exact Hs].
  - rewrite !sdiv_R_ok by lra. cbn [bind]. eexists; split; [reflexivity|]. split; cbn [fst snd]; [reflexivity|].
    rewrite Hs. f_equal. field. exact H.
Qed.

(** CoG = (k+1)/2 - sum_k k x_(t-k+1) / sum_k x_(t-k+1) over the k values in the window (0 when the
    denominator is 0), for every non-empty history *)
Theorem cog_closed_form n vs : (1 <= n)%nat ->
  cout (@cog_core R ROps n) vs = Ok (@spec_cog R ROps n vs).
Proof.
  intros Hn.
  destruct (@crun_inv R (@cog_core R ROps n) (fun _ => True) (cog_inv n) ([], None)) with (vs:=vs) as [s [Hr [_ Ho]]].
  - reflexivity.
  - split; [rewrite lastn_nil; reflexivity|]. cbn [snd]. rewrite spec_cog_R, lastn_nil. reflexivity.
  - intros h s v _ _ Hi. apply cog_step_inv; assumption.
  - apply Forall_forall; trivial.
  - unfold cout. rewrite Hr. cbn [bind clast cog_core]. rewrite Ho. reflexivity.
Qed.

Lemma lastn_nonnil {A} n (vs : list A) : (1 <= n)%nat -> vs <> [] -> lastn n vs <> [].
Proof.
  intros Hn Hv E. pose proof (lastn_length n vs) as Hl. rewrite E in Hl. cbn in Hl.
  destruct vs; [contradiction | cbn in Hl; lia].
Qed.

Lemma cog_out n vs : (1 <= n)%nat -> vs <> [] ->
  cout (@cog_core R ROps n) vs = Ok (Some (cogv (lastn n vs))).
Proof.
  intros Hn Hv. rewrite cog_closed_form, spec_cog_R by exact Hn.
  pose proof (lastn_nonnil n vs Hn Hv). destruct (lastn n vs); [contradiction | reflexivity].
Qed.

(** a constant non-zero window gives 0 *)
Lemma const_sums c l : Forall (fun x => x = c) l ->
  dn l = INR (length l) * c /\ cn l = c * (INR (length l) * (INR (length l) + 1) / 2).
Proof.
  induction 1 as [|x l Hx _ [IH1 IH2]]; [rewrite dn_nil, cn_nil; cbn; lra|].
  rewrite dn_cons, cn_cons, IH1, IH2, Hx. cbn [length]. rewrite !S_INR. lra.
Qed.

Theorem cog_const n c vs : (1 <= n)%nat -> vs <> [] -> c <> 0 ->
  Forall (fun x => x = c) (lastn n vs) -> cout (@cog_core R ROps n) vs = Ok (Some 0).
Proof.
  intros Hn Hv Hc Hall. rewrite cog_out by assumption. do 2 f_equal.
  destruct (const_sums c _ Hall) as [E1 E2]. unfold cogv. rewrite E1, E2.
  pose proof (lastn_nonnil n vs Hn Hv) as Hne.
  assert (Hk : 0 < INR (length (lastn n vs))) by (apply lt_0_INR; destruct (lastn n vs); [contradiction | cbn; lia]).
  destruct (Req_EM_T _ 0) as [_|_]; [reflexivity|]. field. split; lra.
Qed.

(** scale invariance *)
Lemma scale_sums a l : dn (map (fun v => a * v) l) = a * dn l /\ cn (map (fun v => a * v) l) = a * cn l.
Proof.
  induction l as [|x l [IH1 IH2]]; [cbn [map]; rewrite dn_nil, cn_nil; lra|].
  cbn [map]. rewrite !dn_cons, !cn_cons, IH1, IH2, map_length. lra.
Qed.

Lemma cogv_scale a w : a <> 0 -> cogv (map (fun v => a * v) w) = cogv w.
Proof.
  intros Ha. unfold cogv. destruct (scale_sums a w) as [E1 E2]. rewrite E1, E2, map_length.
  destruct (Req_EM_T (a * dn w) 0) as [H|H]; destruct (Req_EM_T (dn w) 0) as [H'|H']; try reflexivity.
  - exfalso. apply Rmult_integral in H. tauto.
  - exfalso. rewrite H' in H. lra.
  - field. split; assumption.
Qed.

Theorem cog_scale n a vs : (1 <= n)%nat -> a <> 0 ->
  cout (@cog_core R ROps n) (map (fun v => a * v) vs) = cout (@cog_core R ROps n) vs.
Proof.
  intros Hn Ha. rewrite !cog_closed_form, !spec_cog_R, lastn_map by exact Hn.
  destruct (lastn n vs) as [|x w]; [reflexivity|]. cbn [map]. do 2 f_equal.
  exact (cogv_scale a (x :: w) Ha).
Qed.

(** for positive inputs |CoG| <= (k-1)/2 with k values present, hence <= (n-1)/2 *)
Lemma pos_sums l : Forall (fun x => 0 < x) l -> 0 <= dn l /\ dn l <= cn l <= INR (length l) * dn l.
Proof.
  induction 1 as [|x l Hx _ [IH0 IH]]; [rewrite dn_nil, cn_nil; cbn; lra|].
  rewrite dn_cons, cn_cons. cbn [length]. rewrite !S_INR. pose proof (pos_INR (length l)). nra.
Qed.

Lemma cogv_range w : w <> [] -> Forall (fun x => 0 < x) w ->
  - ((INR (length w) - 1) / 2) <= cogv w <= (INR (length w) - 1) / 2.
Proof.
  intros Hne Hp. destruct (pos_sums w Hp) as [H0 [H1 H2]]. unfold cogv.
  assert (Hk : 1 <= INR (length w)) by (destruct w; [contradiction | cbn [length]; rewrite S_INR; pose proof (pos_INR (length w)); lra]).
  destruct (Req_EM_T (dn w) 0) as [H|H]; [lra|].
  assert (Hd : 0 < dn w) by lra.
  assert (E : cn w / dn w * dn w = cn w) by (field; exact H).
  set (m := cn w / dn w) in *. set (k := INR (length w)) in *. set (d := dn w) in *. set (c := cn w) in *.
  clearbody m k d c. assert (1 <= m <= k) by (split; nra). lra.
Qed.

Theorem cog_range n vs x : (1 <= n)%nat -> Forall (fun v => 0 < v) (lastn n vs) ->
  cout (@cog_core R ROps n) vs = Ok (Some x) ->
  Rabs x <= (INR (length (lastn n vs)) - 1) / 2 /\ Rabs x <= (INR n - 1) / 2.
Proof.
  intros Hn Hp H. rewrite cog_closed_form, spec_cog_R in H by exact Hn.
  destruct (lastn n vs) as [|y w] eqn:E; [discriminate|]. rewrite <- E in *. inversion H; subst x.
  assert (Hne : lastn n vs <> []) by (rewrite E; discriminate).
  pose proof (cogv_range _ Hne Hp) as Hr.
  assert (Hk : INR (length (lastn n vs)) <= INR n) by (apply le_INR; rewrite lastn_length; lia).
  split; apply Rabs_le; lra.
Qed.

(** C03: finite memory K = n *)
Theorem cog_finite_memory n p p' s : (1 <= n)%nat -> (n <= length s)%nat ->
  cout (@cog_core R ROps n) (p ++ s) = cout (@cog_core R ROps n) (p' ++ s).
Proof.
  intros Hn Hl. rewrite !cog_closed_form, !spec_cog_R by exact Hn.
  rewrite !lastn_app_suffix by exact Hl. reflexivity.
Qed.

(** * Examples: the hypotheses of the main theorems are satisfiable; model = spec at the Q instance *)
Ltac win := unfold lastn; cbn [length Nat.sub skipn].

Example cti_closed_form_ex : cout (@cti_core R ROps 3) [5; 1; 2; 4] = Ok (@spec_cti R ROps 3 [5; 1; 2; 4]).
Proof. apply cti_closed_form; lia. Qed.
Example cti_closed_form_warmup_ex : cout (@cti_core R ROps 3) [5; 1] = Ok (@spec_cti R ROps 3 [5; 1]).
Proof. apply cti_closed_form; lia. Qed.
Example cti_warmup_is_pearson_ex :
  cout (@cti_core R ROps 3) [1; 2] = Ok (Some (@pearson R ROps (@timed R ROps [1; 2]))).
Proof. apply cti_warmup_is_pearson; cbn; lia. Qed.
Example cti_range_ex : exists x, cout (@cti_core R ROps 3) [5; 1] = Ok (Some x) /\ -1 <= x <= 1.
Proof. apply cti_range; lia. Qed.
Example cti_scale_ex : exists x, cout (@cti_core R ROps 3) [5; 1] = Ok (Some x) /\
  cout (@cti_core R ROps 3) (map (fun v => -2 * v) [5; 1]) = Ok (Some (-2 / Rabs (-2) * x)).
Proof. apply cti_scale; [lia | lra]. Qed.
Example cti_neg_ex : exists x, cout (@cti_core R ROps 3) [5; 1; 2; 4] = Ok (Some x) /\
  cout (@cti_core R ROps 3) (map Ropp [5; 1; 2; 4]) = Ok (Some (- x)).
Proof. apply cti_neg; lia. Qed.
Example cti_affine_inv_ex :
  cout (@cti_core R ROps 3) (map (fun v => 2 * v + 7) [5; 1; 2; 4]) = cout (@cti_core R ROps 3) [5; 1; 2; 4].
Proof. apply cti_affine_inv; [lia | lra]. Qed.
Example cti_affine_inv_warmup_ex :
  cout (@cti_core R ROps 3) (map (fun v => 2 * v + 7) [5; 1]) = cout (@cti_core R ROps 3) [5; 1].
Proof. apply cti_affine_inv; [lia | lra]. Qed.
Example cti_pos_ex : exists x, cout (@cti_core R ROps 3) [5; 1; 2; 4] = Ok (Some x) /\ 0 < x.
Proof. apply cti_pos; [lia | cbn; lia | win; repeat constructor; lra]. Qed.
Example cti_neg_decr_ex : exists x, cout (@cti_core R ROps 3) [5; 4; 2; 1] = Ok (Some x) /\ x < 0.
Proof. apply cti_neg_decr; [lia | cbn; lia | win; repeat constructor; unfold Rgt; lra]. Qed.
Example cti_affine_ex : cout (@cti_core R ROps 3) [0; 1; 3; 5] = Ok (Some 1).
Proof.
  apply (cti_affine 3 1 2); [lia | | lra]. win. cbn [seq map INR].
  replace (1 + 2 * 0) with 1 by lra. replace (1 + 2 * 1) with 3 by lra. replace (1 + 2 * (1 + 1)) with 5 by lra.
  reflexivity.
Qed.
Example cti_const_ex : cout (@cti_core R ROps 3) [1; 7; 7; 7] = Ok (Some 0).
Proof. apply (cti_const 3 7); [lia | win; repeat constructor]. Qed.
Example cti_finite_memory_ex :
  cout (@cti_core R ROps 3) ([1] ++ [4; 5; 6]) = cout (@cti_core R ROps 3) ([2; 3] ++ [4; 5; 6]).
Proof. apply cti_finite_memory; cbn; lia. Qed.

Example net_closed_form_ex : cout (@net_core R ROps 3) [1; 3; 2; 5] = Ok (@spec_net R ROps 3 [1; 3; 2; 5]).
Proof. apply net_closed_form; lia. Qed.
Example net_n1_none vs : cout (@net_core R ROps 1) vs = Ok None.
Proof. apply net_out_none; [lia|]. rewrite lastn_length. lia. Qed.
Example net_range_ex : exists x, cout (@net_core R ROps 3) [1; 3; 2; 5] = Ok (Some x) /\ -1 <= x <= 1.
Proof.
  eexists. split; [apply net_out; [lia | cbn; lia]|].
  apply (net_range 3 [1; 3; 2; 5]); [lia | apply net_out; [lia | cbn; lia]].
Qed.
Example net_monotone_ex : cout (@net_core R ROps 3) [9; 1; 2; 4] = Ok (Some 1).
Proof. apply net_monotone; [lia | cbn; lia | win; repeat constructor; lra]. Qed.
Example net_monotone_ex2 : cout (@net_core R ROps 3) [0; 4; 2; 1] = Ok (Some (-1)).
Proof. apply net_monotone; [lia | cbn; lia | win; repeat constructor; unfold Rgt; lra]. Qed.
Example net_incr_map_ex vs : cout (@net_core R ROps 3) (map exp vs) = cout (@net_core R ROps 3) vs.
Proof. apply net_incr_map; [lia | exact exp_increasing]. Qed.
Example net_const_ex : cout (@net_core R ROps 2) [1; 7; 7] = Ok (Some 0).
Proof. apply (net_const 2 7); [lia | cbn; lia | win; repeat constructor]. Qed.
Example net_finite_memory_ex :
  cout (@net_core R ROps 3) ([1] ++ [4; 5; 6]) = cout (@net_core R ROps 3) ([2; 3] ++ [4; 5; 6]).
Proof. apply net_finite_memory; cbn; lia. Qed.

Example cog_closed_form_ex : cout (@cog_core R ROps 3) [1; 3; 2; 5] = Ok (@spec_cog R ROps 3 [1; 3; 2; 5]).
Proof. apply cog_closed_form; lia. Qed.
Example cog_const_ex : cout (@cog_core R ROps 3) [1; 7; 7; 7] = Ok (Some 0).
Proof. apply (cog_const 3 7); [lia | discriminate | lra | win; repeat constructor]. Qed.
Example cog_scale_ex : cout (@cog_core R ROps 3) (map (fun v => -3 * v) [1; 3; 2; 5]) = cout (@cog_core R ROps 3) [1; 3; 2; 5].
Proof. apply cog_scale; [lia | lra]. Qed.
Example cog_range_ex : exists x, cout (@cog_core R ROps 3) [1; 3; 2; 5] = Ok (Some x) /\ Rabs x <= (INR 3 - 1) / 2.
Proof.
  eexists. split; [apply cog_out; [lia | discriminate]|].
  apply (cog_range 3 [1; 3; 2; 5]); [lia | win; repeat constructor; lra | apply cog_out; [lia | discriminate]].
Qed.
Example cog_finite_memory_ex :
  cout (@cog_core R ROps 3) ([1] ++ [4; 5; 6]) = cout (@cog_core R ROps 3) ([2; 3] ++ [4; 5; 6]).
Proof. apply cog_finite_memory; cbn; lia. Qed.

(** the specifications are executable: model = spec at the exact-rational instance on sample histories *)
From Coq Require Import ZArith QArith.
Definition qs (l : list Z) : list Q := map inject_Z l.
Example cti_q : cout (@cti_core Q QOps 4) (qs [1; 2; 4; 8]%Z) = Ok (@spec_cti Q QOps 4 (qs [1; 2; 4; 8]%Z)).
Proof. vm_compute. reflexivity. Qed.
Example cti_q2 : cout (@cti_core Q QOps 3) (qs [3; 1; 2; 4; 9]%Z) = Ok (@spec_cti Q QOps 3 (qs [3; 1; 2; 4; 9]%Z)).
Proof. vm_compute. reflexivity. Qed.
(** before the window is full (3 values, n = 4): the Pearson correlation of the values present *)
Example cti_q_warmup : cout (@cti_core Q QOps 4) (qs [1; 3; 2]%Z) = Ok (@spec_cti Q QOps 4 (qs [1; 3; 2]%Z)).
Proof. vm_compute. reflexivity. Qed.
Example net_q : cout (@net_core Q QOps 4) (qs [3; 1; 2; 2; 9]%Z) = Ok (@spec_net Q QOps 4 (qs [3; 1; 2; 2; 9]%Z))
  /\ @spec_net Q QOps 4 (qs [3; 1; 2; 2; 9]%Z) = Some (5 # 6).
Proof. vm_compute. split; reflexivity. Qed.
Example net_q1 : cout (@net_core Q QOps 4) (qs [3]%Z) = Ok (@spec_net Q QOps 4 (qs [3]%Z)).
Proof. vm_compute. reflexivity. Qed.
Example cog_q : cout (@cog_core Q QOps 3) (qs [3; 1; 2; 2; 9]%Z) = Ok (@spec_cog Q QOps 3 (qs [3; 1; 2; 2; 9]%Z))
  /\ @spec_cog Q QOps 3 (qs [3; 1; 2; 2; 9]%Z) = Some (7 # 13).
Proof. vm_compute. split; reflexivity. Qed.
Example cog_q0 : cout (@cog_core Q QOps 3) (qs [3; -3]%Z) = Ok (@spec_cog Q QOps 3 (qs [3; -3]%Z)).
Proof. vm_compute. reflexivity. Qed.

Print Assumptions cti_closed_form.
Print Assumptions cti_warmup_is_pearson.
Print Assumptions cti_monotone_refuted.
Print Assumptions cti_affine.
Print Assumptions cti_pos.
Print Assumptions cti_neg_decr.
Print Assumptions cti_range.
Print Assumptions cti_neg.
Print Assumptions cti_scale.
Print Assumptions cti_affine_inv.
Print Assumptions cti_affine_inv_neg.
Print Assumptions cti_const.
Print Assumptions cti_finite_memory.
Print Assumptions net_closed_form.
Print Assumptions net_monotone.
Print Assumptions net_range.
Print Assumptions net_neg.
Print Assumptions net_order_only.
Print Assumptions net_incr_map.
Print Assumptions net_affine_inv.
Print Assumptions net_const.
Print Assumptions net_finite_memory.
Print Assumptions cog_closed_form.
Print Assumptions cog_const.
Print Assumptions cog_scale.
Print Assumptions cog_range.
Print Assumptions cog_finite_memory.
