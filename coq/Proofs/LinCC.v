(** CyberCycle (cyber_cycle.rs): C11 closed form (n >= 6), the general form computed for n >= 3. *)
From Coq Require Import List Arith Lia ZArith Reals Lra.
From SF Require Import Res Scalar View Models Spec Core SpecLin.
From SF.Proofs Require Import Window RBase LinBase.
Import ListNotations.
Open Scope R_scope.
Local Existing Instance ROps.

Lemma ccb_smooth_R (h : list R) t j :
  ccb_smooth h t j = (lagx h t j + 2 * lagx h t (j + 1) + 2 * lagx h t (j + 2) + lagx h t (j + 3)) / 6.
Proof. unfold ccb_smooth. rewrite l_two_R, l_six_R, sdivd_six. reflexivity. Qed.

Lemma ccb_eq_R al sm0 sm1 sm2 c1 c2 :
  ccb_eq al sm0 sm1 sm2 c1 c2 =
  (1 - al / 2) * (1 - al / 2) * (sm0 - 2 * sm1 + sm2) + 2 * (1 - al) * c1 - (1 - al) * (1 - al) * c2.
Proof. unfold ccb_eq. rewrite l_two_R, sdivd_two. reflexivity. Qed.

Lemma ccb_alpha_R n : @ccb_alpha R ROps n = 2 / (INR n + 1).
Proof.
  unfold ccb_alpha. rewrite l_two_R. cbn [sofnat sadd s1 ROps]. apply sdivd_R.
  pose proof (pos_INR n). lra.
Qed.

Definition sm_causal (sm : list R -> nat -> nat -> R) : Prop :=
  forall h v t j, (t < length h)%nat -> sm (h ++ [v]) t j = sm h t j.

Lemma ccb_smooth_causal : sm_causal ccb_smooth.
Proof. intros h v t j H. unfold ccb_smooth. rewrite !lagx_app by exact H. reflexivity. Qed.
Lemma ccb_gsmooth_causal n : sm_causal (ccb_gsmooth n).
Proof. intros h v t j H. unfold ccb_gsmooth. rewrite ccb_smooth_causal by exact H. reflexivity. Qed.

Section Upto.
Variable sm : list R -> nat -> nat -> R.
Variable n : nat.
Variable al : R.

Lemma ccb_upto_S (h : list R) t :
  ccb_upto sm n al h (S t) =
  ((if Nat.ltb (S t) n then 0
    else ccb_eq al (sm h t 0%nat) (sm h t 1%nat) (sm h t 2%nat)
           (fst (ccb_upto sm n al h t)) (snd (ccb_upto sm n al h t))),
   fst (ccb_upto sm n al h t)).
Proof. reflexivity. Qed.

Lemma ccb_upto_app (h : list R) v k : sm_causal sm -> (k <= length h)%nat ->
  ccb_upto sm n al (h ++ [v]) k = ccb_upto sm n al h k.
Proof.
  intros Hc. induction k as [|t IH]; intros H; [reflexivity|].
  rewrite !ccb_upto_S, IH by lia. rewrite !Hc by lia. reflexivity.
Qed.

(** the stream of outputs *)
Definition cc_outs (h : list R) : list R :=
  map (fun k => fst (ccb_upto sm n al h k)) (seq 1 (length h)).

Lemma cc_outs_length h : length (cc_outs h) = length h.
Proof. unfold cc_outs. rewrite map_length, seq_length. reflexivity. Qed.

Lemma cc_outs_snoc h v : sm_causal sm ->
  cc_outs (h ++ [v]) = cc_outs h ++ [fst (ccb_upto sm n al (h ++ [v]) (S (length h)))].
Proof.
  intros Hc. unfold cc_outs. rewrite app_length. cbn [length].
  replace (length h + 1)%nat with (S (length h)) by lia. rewrite seq_S, map_app. cbn [map].
  f_equal. apply map_ext_in. intros k Hk. apply in_seq in Hk. rewrite ccb_upto_app by (assumption || lia).
  reflexivity.
Qed.

Lemma cc_outs_nth h k : (1 <= k <= length h)%nat ->
  nth_error (cc_outs h) (k - 1) = Some (fst (ccb_upto sm n al h k)).
Proof.
  intros H. unfold cc_outs. rewrite nth_error_map.
  rewrite (nth_error_Some_nth (seq 1 (length h)) (k - 1) 0%nat) by (rewrite seq_length; lia).
  rewrite seq_nth by lia. cbn [option_map]. do 3 f_equal. lia.
Qed.
End Upto.

(** * the step *)

Lemma lastn_pred_snoc {A} n (l : list A) x : (1 <= n)%nat -> lastn (n - 1) l ++ [x] = lastn n (l ++ [x]).
Proof. intros Hn. rewrite <- (evict_lastn n l Hn). apply evict_push_lastn. exact Hn. Qed.

Lemma evict_pair n (h o : list R) : (1 <= n)%nat -> length o = length h ->
  (if Nat.leb n (length (lastn n h)) then (tl (lastn n h), tl (lastn n o)) else (lastn n h, lastn n o))
  = (lastn (n - 1) h, lastn (n - 1) o).
Proof.
  intros Hn Hl. rewrite <- (evict_lastn n h Hn), <- (evict_lastn n o Hn).
  rewrite !lastn_length, Hl. destruct (Nat.leb n (Nat.min n (length h))); reflexivity.
Qed.

(** smooth at window position [i] of the full window = guarded smooth at lag [n-1-i] *)
Lemma cc_smooth_window n (h : list R) i : (n <= length h)%nat -> (i < n)%nat ->
  cc_smooth (lastn n h) i = Ok (ccb_gsmooth n h (length h - 1) (n - 1 - i)).
Proof.
  intros Hl Hi. unfold cc_smooth, ccb_gsmooth. replace (n - 1 - (n - 1 - i))%nat with i by lia.
  destruct (Nat.ltb_spec i 3) as [H3|H3]; [reflexivity|].
  unfold getq. rewrite !nth_error_lastn by exact Hl.
  rewrite !(fun k => nth_error_Some_nth h k 0) by lia. cbn [bind].
  rewrite two_R, six_R, sdiv_six, ccb_smooth_R. rewrite !lagx_ge by lia.
  do 2 f_equal. cbn [sadd smul ROps]. repeat (f_equal; try lia).
Qed.

Definition cc_inv (n : nat) (al : R) (h : list R) (s : @cc_st R) : Prop :=
  cc_vals s = lastn n h /\ cc_out s = lastn n (cc_outs (ccb_gsmooth n) n al h).

Lemma cc_step_inv n al h s v : (3 <= n)%nat -> cc_inv n al h s ->
  exists s', cc_step n al s v = Ok s' /\ cc_inv n al (h ++ [v]) s'.
Proof.
  intros Hn [Hv Ho]. pose proof (ccb_gsmooth_causal n) as Hc.
  set (O := cc_outs (ccb_gsmooth n) n al h) in *.
  assert (HOl : length O = length h) by apply cc_outs_length.
  unfold cc_step. rewrite Hv, Ho. rewrite (evict_pair n h O) by (lia || assumption).
  rewrite (lastn_pred_snoc n h v) by lia.
  unfold cc_inv. rewrite cc_outs_snoc by exact Hc. fold O.
  rewrite <- (lastn_pred_snoc n O) by lia.
  rewrite lastn_length, app_length. cbn [length].
  rewrite ccb_upto_S.
  destruct (Nat.ltb_spec (Nat.min n (length h + 1)) n) as [Hs|Hs].
  - eexists; split; [reflexivity|]. cbn [cc_vals cc_out]. split; [reflexivity|].
    destruct (Nat.ltb_spec (S (length h)) n); [reflexivity | lia].
  - assert (HL : (n <= length (h ++ [v]))%nat) by (rewrite app_length; cbn [length]; lia).
    replace (Nat.min n (length h + 1)) with n by lia.
    unfold usub. destruct (Nat.ltb_spec n 1); [lia|]. cbn [bind].
    destruct (Nat.ltb_spec (n - 1) n); [|lia]. cbn [bind].
    rewrite (cc_smooth_window n (h ++ [v]) (n - 1)) by (assumption || lia). cbn [bind].
    destruct (Nat.ltb_spec (n - 1) 1); [lia|]. cbn [bind].
    rewrite (cc_smooth_window n (h ++ [v]) (n - 1 - 1)) by (assumption || lia). cbn [bind].
    destruct (Nat.ltb_spec (n - 1) 2); [lia|]. cbn [bind].
    rewrite (cc_smooth_window n (h ++ [v]) (n - 1 - 2)) by (assumption || lia). cbn [bind].
    unfold getq. rewrite !nth_error_lastn by lia.
    replace (length O - (n - 1) + (n - 1 - 1))%nat with (length h - 1)%nat by lia.
    replace (length O - (n - 1) + (n - 1 - 2))%nat with (length h - 1 - 1)%nat by lia.
    unfold O. rewrite cc_outs_nth by lia. cbn [bind].
    rewrite cc_outs_nth by lia. cbn [bind].
    eexists; split; [reflexivity|]. cbn [cc_vals cc_out]. split; [reflexivity|].
    do 2 f_equal.
    destruct (Nat.ltb_spec (S (length h)) n); [lia|].
    rewrite ccb_upto_app by (assumption || lia).
    replace (length (h ++ [v]) - 1)%nat with (length h) by (rewrite app_length; cbn [length]; lia).
    replace (n - 1 - (n - 1))%nat with 0%nat by lia.
    replace (n - 1 - (n - 1 - 1))%nat with 1%nat by lia.
    replace (n - 1 - (n - 1 - 2))%nat with 2%nat by lia.
    assert (E : fst (ccb_upto (ccb_gsmooth n) n al h (length h - 1))
                = snd (ccb_upto (ccb_gsmooth n) n al h (length h))).
    { destruct (length h) as [|t] eqn:El; [lia|]. rewrite ccb_upto_S. cbn [snd].
      replace (S t - 1)%nat with t by lia. reflexivity. }
    rewrite E, ccb_eq_R, two_R, half_R. unfold ssq. cbn [sadd ssub smul s1 ROps fst]. field.
Qed.

(** what the implementation computes for every n >= 3 *)
Theorem cyber_closed_form_gen n vs : (3 <= n)%nat ->
  cout (@cyber_core R ROps n) vs = Ok (@spec_cyber_gen R ROps n vs).
Proof.
  intros Hn. set (al := @ccb_alpha R ROps n).
  destruct (@crun_inv R (@cyber_core R ROps n) (fun _ => True)
              (fun h s => fst s = al /\ cc_inv n al h (snd s)) (al, {| cc_vals := []; cc_out := [] |}))
    with (vs := vs) as [s [Hr [Ha [Hv Ho]]]].
  - cbn [cnew cyber_core]. destruct (Nat.leb_spec 3 n); [|lia]. cbn [assert bind].
    rewrite sdiv_R_ok by (cbn [sofnat sadd s1 ROps]; pose proof (pos_INR n); lra).
    cbn [bind]. unfold al. rewrite ccb_alpha_R, two_R. reflexivity.
  - split; [reflexivity|]. unfold cc_inv, cc_outs. cbn [cc_vals cc_out snd length seq map].
    rewrite lastn_nil. split; reflexivity.
  - intros h [a s] v _ _ [Ha Hi]. cbn [fst snd] in *. subst a.
    destruct (@cc_step_inv n al h s v Hn Hi) as [s' [Hs' Hi']].
    cbn [cstep cyber_core fst snd]. rewrite Hs'. cbn [bind]. eexists; split; [reflexivity|].
    split; [reflexivity | exact Hi'].
  - apply Forall_forall; trivial.
  - unfold cout. rewrite Hr. cbn [bind clast cyber_core]. rewrite Ho. f_equal.
    unfold spec_cyber_gen, ccb_out. fold al.
    destruct vs as [|x vs'] using rev_ind; [reflexivity|]. clear IHvs'.
    rewrite cc_outs_snoc by apply ccb_gsmooth_causal.
    rewrite <- lastn_pred_snoc by lia. rewrite last_opt_snoc.
    destruct (vs' ++ [x]) eqn:E; [destruct vs'; discriminate|]. rewrite <- E.
    rewrite app_length. cbn [length]. replace (length vs' + 1)%nat with (S (length vs')) by lia.
    reflexivity.
Qed.

Lemma ccb_upto_ext sm1 sm2 n al (h : list R) k :
  (forall t j, (j <= 2)%nat -> sm1 h t j = sm2 h t j) ->
  ccb_upto sm1 n al h k = ccb_upto sm2 n al h k.
Proof.
  intros He. induction k as [|t IH]; [reflexivity|].
  rewrite !ccb_upto_S, IH, !He by lia. reflexivity.
Qed.

Lemma ccb_gsmooth_6 n (h : list R) t j : (6 <= n)%nat -> (j <= 2)%nat ->
  ccb_gsmooth n h t j = ccb_smooth h t j.
Proof. intros Hn Hj. unfold ccb_gsmooth. destruct (Nat.ltb_spec (n - 1 - j) 3); [lia | reflexivity]. Qed.

Lemma spec_cyber_gen_6 n (h : list R) : (6 <= n)%nat -> spec_cyber_gen n h = spec_cyber n h.
Proof.
  intros Hn. unfold spec_cyber_gen, spec_cyber, ccb_out. destruct h as [|x h]; [reflexivity|].
  rewrite (@ccb_upto_ext (ccb_gsmooth n) ccb_smooth); [reflexivity|].
  intros t j Hj. apply ccb_gsmooth_6; assumption.
Qed.

(** C11 (CyberCycle, n >= 6): 0 for the first n-1 steps, then the paper's difference equation on
    smooth_t = (x_t + 2x_{t-1} + 2x_{t-2} + x_{t-3})/6 with alpha = 2/(n+1) *)
Theorem cyber_closed_form n vs : (6 <= n)%nat ->
  cout (@cyber_core R ROps n) vs = Ok (@spec_cyber R ROps n vs).
Proof. intros Hn. rewrite cyber_closed_form_gen by lia. rewrite spec_cyber_gen_6 by exact Hn. reflexivity. Qed.
