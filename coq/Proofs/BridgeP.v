(** THE BRIDGE: the model run at the primitive binary64 instance [FOps] (the instance tied bit-for-bit to the
    Rust code at f64) IS the model run at the rounded-real instance [B64Ops] (where the drift bounds are
    proved) on the real values of the inputs, as long as the f64 run produces no infinity / NaN -- an
    executable condition ([all_finite_*] of SpecBridge.v, discharged by [vm_compute] on a concrete stream).

    1. [prim_arith_sim]: FOps is simulated by B64Ops through [f2r] (every arithmetic member but sqrt and
       inexact decimal literals).
    2. [sma_bridge], [cumulative_bridge], [ema_bridge], [wr_mean_bridge].
    3. [sma_prim_drift], [sma_sum_prim_drift], [cumulative_prim_drift], [ema_prim_drift], [wr_mean_prim_drift]:
       the drift theorems restated about the primitive-float run.
    4. concrete 10-value f64 streams. *)
From Coq Require Import List Arith Lia Reals Lra ZArith Floats Bool.
From SF Require Import Res Scalar View Models Spec Core FloatOps SpecBridge.
From SF.Proofs Require Import Window RBase SmaP WinAP FltErr FltBridge Flt2P Flt2B64 Flt2Prim BridgeOps BridgeSim.
From Flocq Require Import Core BinarySingleNaN.
Import ListNotations.
Open Scope R_scope.
Local Set Warnings "-inexact-float".

(** the naturals that [T::from(usize)] represents exactly at f64 (sufficient condition) *)
Definition nat53 (k : nat) : Prop := (Z.of_nat k < 2 ^ 53)%Z.

(** * 1. ArithSim at the primitive floats *)
Theorem prim_arith_sim : arith_sim FOps B64Ops f2r ffinite nat53.
Proof.
  constructor.
  - exact prim_zero_fin.
  - exact prim_one_fin.
  - exact prim_add_fin.
  - exact prim_sub_fin.
  - exact prim_mul_fin.
  - intros x y q Hy E Hq. cbn [sdiv FOps] in E. inversion E; subst q; clear E.
    destruct (prim_div_fin x y Hy Hq) as [Hx [Hy0 Ed]]. split; [exact Hx|].
    cbn [sdiv B64Ops FlOps2]. destruct (Req_EM_T (f2r y) 0) as [Hz|_]; [contradiction|]. rewrite Ed. reflexivity.
  - exact prim_opp_fin.
  - exact prim_abs_fin.
  - exact prim_ltb_real.
  - exact prim_leb_real.
  - exact prim_eqb_real.
  - exact f_ofnat_exact.
Qed.

(** what is NOT simulated: a decimal literal that is not a binary64 number is ROUNDED at [FOps] but kept
    EXACT by [B64Ops] (and by [FlOps], [FlOps2]): e.g. 0.1 *)
Theorem sofdec_not_simulated : f2r (@sofdec PrimFloat.float FOps 1 1) <> @sofdec R B64Ops 1 1.
Proof.
  cbn [sofdec FOps B64Ops FlOps2]. rewrite f2r_SF.
  replace (Prim2SF (f_ofdec 1 1)) with (S754_finite false 7205759403792794 (-56)) by (vm_compute; reflexivity).
  unfold SF2R, F2R. cbn. lra.
Qed.

(** * 2. The bridge for the four views *)

(** Sma: f64 run = binary64-rounded-real run, when the window is below 2^53 and the f64 run stays finite *)
Theorem sma_bridge n fs : (Z.of_nat n < 2 ^ 53)%Z -> all_finite_sma ffinite n fs = true ->
  res_map (option_map f2r) (cout (@sma_core PrimFloat.float FOps n) fs) = cout (@sma_core R B64Ops n) (map f2r fs).
Proof.
  intros Hn Hc. apply (sma_bridge_gen prim_arith_sim); [|exact Hc]. intros j Hj. unfold nat53. lia.
Qed.

(** Cumulative: no side condition but the finiteness of the f64 run *)
Theorem cumulative_bridge n fs : all_finite_cumulative ffinite n fs = true ->
  res_map (option_map f2r) (cout (@cumulative_core PrimFloat.float FOps n) fs) = cout (@cumulative_core R B64Ops n) (map f2r fs).
Proof. intros Hc. apply (cumulative_bridge_gen prim_arith_sim). exact Hc. Qed.

(** Ema (default alpha = 2) *)
Theorem ema_bridge n fs : (Z.of_nat n < 2 ^ 53)%Z -> all_finite_ema ffinite n fs = true ->
  res_map (option_map f2r) (cout (@ema_core PrimFloat.float FOps n) fs) = cout (@ema_core R B64Ops n) (map f2r fs).
Proof.
  intros Hn Hc. unfold ema_core.
  replace (@sofdec R B64Ops 2 0) with (f2r (@sofdec PrimFloat.float FOps 2 0)).
  - apply (ema_alpha_bridge_gen prim_arith_sim); [exact Hn | exact Hc].
  - cbn [sofdec FOps]. rewrite (proj2 prim_two_fin). cbn [sofdec B64Ops FlOps2]. cbn. lra.
Qed.

(** WelfordRolling mean: streams shorter than 2^53 *)
Theorem wr_mean_bridge fs : (Z.of_nat (length fs) < 2 ^ 53)%Z -> all_finite_wr_mean ffinite fs = true ->
  res_map (option_map f2r) (cout (@wrolling_mean_core PrimFloat.float FOps) fs) = cout (@wrolling_mean_core R B64Ops) (map f2r fs).
Proof.
  intros Hn Hc. apply (wr_mean_bridge_gen prim_arith_sim); [|exact Hc]. intros j Hj. unfold nat53. lia.
Qed.

(** the checker already implies that the inputs are finite: no [Forall fin64 fs] hypothesis is needed above *)
Theorem sma_inputs_fin64 n fs : all_finite_sma ffinite n fs = true -> Forall fin64 fs.
Proof. exact (sma_inputs_finite ffinite n fs). Qed.
Theorem cumulative_inputs_fin64 n fs : all_finite_cumulative ffinite n fs = true -> Forall fin64 fs.
Proof. exact (cumulative_inputs_finite ffinite n fs). Qed.
Theorem ema_inputs_fin64 n fs : all_finite_ema ffinite n fs = true -> Forall fin64 fs.
Proof. exact (ema_inputs_finite prim_arith_sim n (@sofdec PrimFloat.float FOps 2 0) fs). Qed.

(** the state of Sma (queue and running sum) *)
Theorem sma_bridge_run n fs : all_finite_sma ffinite n fs = true ->
  exists s, crun (@sma_core PrimFloat.float FOps n) fs = Ok s /\
            crun (@sma_core R B64Ops n) (map f2r fs) = Ok (sma_map f2r s).
Proof. intros Hc. exact (sma_bridge_run_gen prim_arith_sim n fs Hc). Qed.

(** * 3. The drift theorems, about the primitive-float run *)

(** Sma and Cumulative use no multiplication: [FlOps b64_add b64_sub b64_div] (FltErr.v) and [B64Ops] give the same core *)
Lemma sma_core_FlOps_B64 n : @sma_core R (FlOps b64_add b64_sub b64_div) n = @sma_core R B64Ops n.
Proof. reflexivity. Qed.
Lemma cumulative_core_FlOps_B64 n : @cumulative_core R (FlOps b64_add b64_sub b64_div) n = @cumulative_core R B64Ops n.
Proof. reflexivity. Qed.

Lemma f2r_Din M fs : Forall (fun x => Rabs (f2r x) <= M) fs ->
  Forall (fun x => b64_format x /\ Rabs x <= M) (map f2r fs).
Proof.
  intros H. apply Forall_forall. intros y Hy. apply in_map_iff in Hy. destruct Hy as [x [<- Hx]].
  split; [apply f2r_format|]. rewrite Forall_forall in H. apply H. exact Hx.
Qed.

(** [FltErr.sma_out_drift] asks a pure relative error of the division, which binary64 does not give when the
    quotient is subnormal; with the absolute underflow term eta = 2^-1075 instead: the OUTPUT of Sma in binary64 *)
Theorem sma_out_drift_b64 n M vs : (1 <= n)%nat -> (n <= length vs)%nat -> 0 <= M ->
  Forall (fun x => b64_format x /\ Rabs x <= M) vs ->
  exists o, cout (@sma_core R B64Ops n) vs = Ok (Some o) /\
            Rabs (o - @ssum R ROps (lastn n vs) / INR n) <= ((1 + b64_u) ^ (2 * length vs + 1) - 1) * M + b64_eta.
Proof.
  intros Hn Hl HM Hvs.
  destruct (sma_sum_drift_b64 n M vs Hn HM Hvs) as [s [Hr [Hq HE]]].
  change (crun (@sma_core R B64Ops n) vs = Ok s) in Hr.
  unfold cout. rewrite Hr. cbn [bind clast sma_core]. unfold sma_last. rewrite Hq, lastn_length.
  replace (Nat.min n (length vs)) with n by lia. rewrite Nat.ltb_irrefl.
  assert (Hn0 : INR n <> 0) by (apply INR_pos_neq; lia).
  cbn [sdiv sofnat B64Ops FlOps2]. destruct (Req_EM_T (INR n) 0) as [Hz|_]; [contradiction|]. cbn [bind].
  eexists; split; [reflexivity|].
  unfold b64_div. destruct (b64_round_err (sma_sum s / INR n)) as [d [e [Hd [He Ed]]]]. rewrite Ed.
  set (W := @ssum R ROps (lastn n vs)) in *. set (Sm := sma_sum s) in *.
  set (P := (1 + b64_u) ^ (2 * length vs)) in *.
  pose proof b64_u_nonneg as Hu.
  assert (HP : 1 <= P) by (apply pow_R1_Rle; lra).
  assert (HnP : 0 < INR n) by (apply lt_0_INR; lia).
  replace ((1 + b64_u) ^ (2 * length vs + 1)) with (P * (1 + b64_u)) by (rewrite pow_add; cbn; unfold P; ring).
  replace (Sm / INR n * (1 + d) + e - W / INR n)
    with (((Sm - W) / INR n * (1 + d) + W / INR n * ((1 + d) - 1) + 0 * d) + e) by (field; exact Hn0).
  destruct (one_plus_d_bounds d b64_u Hu Hd) as [Hc Hc1].
  assert (HW : Rabs W <= INR n * M).
  { unfold W. assert (Habs : Forall (fun x => Rabs x <= M) (lastn n vs)).
    { apply Forall_lastn. revert Hvs. apply Forall_impl. intros x [_ Hx]; exact Hx. }
    pose proof (ssum_abs_le M (lastn n vs) Habs) as H.
    rewrite lastn_length in H. replace (Nat.min n (length vs)) with n in H by lia. exact H. }
  assert (HWn : Rabs (W / INR n) <= M).
  { unfold Rdiv. rewrite Rabs_mult, Rabs_inv, (Rabs_right (INR n)) by lra.
    apply Rmult_le_reg_r with (INR n); [exact HnP|]. rewrite Rmult_assoc, Rinv_l by exact Hn0. lra. }
  assert (HEn : Rabs ((Sm - W) / INR n) <= (P - 1) * M).
  { unfold Rdiv. rewrite Rabs_mult, Rabs_inv, (Rabs_right (INR n)) by lra.
    apply Rmult_le_reg_r with (INR n); [exact HnP|]. rewrite Rmult_assoc, Rinv_l by exact Hn0. lra. }
  eapply Rle_trans; [apply Rabs_triang|]. apply Rplus_le_compat; [|exact He].
  apply step_bound with (u := b64_u) (M := 0); try assumption; try lra.
  rewrite Rabs_R0. lra.
Qed.

(** Sma at f64: window 1 <= n < 2^53, at least n inputs of magnitude at most M, f64 run finite:
    |f64 answer - exact window mean| <= ((1+u)^(2t+1) - 1) M + eta,  t = number of updates *)
Theorem sma_prim_drift n M fs : (1 <= n)%nat -> (Z.of_nat n < 2 ^ 53)%Z -> (n <= length fs)%nat -> 0 <= M ->
  Forall (fun x => Rabs (f2r x) <= M) fs -> all_finite_sma ffinite n fs = true ->
  exists o_f o_ex,
    cout (@sma_core PrimFloat.float FOps n) fs = Ok (Some o_f) /\ ffinite o_f = true /\
    cout (@sma_core R ROps n) (map f2r fs) = Ok (Some o_ex) /\
    Rabs (f2r o_f - o_ex) <= ((1 + b64_u) ^ (2 * length fs + 1) - 1) * M + b64_eta.
Proof.
  intros Hn Hn53 Hl HM Hb Hc.
  pose proof (sma_bridge n fs Hn53 Hc) as Hbr.
  destruct (sma_out_drift_b64 n M (map f2r fs) Hn ltac:(rewrite map_length; exact Hl) HM (f2r_Din M fs Hb))
    as [o [Ho HE]].
  rewrite map_length in HE.
  destruct (all_finite_run_cout ffinite (@sma_core PrimFloat.float FOps n) (sma_sfin ffinite) fs Hc)
    as [s [of [_ [_ [Eo Hof]]]]].
  rewrite Eo, Ho in Hbr. cbn [res_map] in Hbr. inversion Hbr as [Hbr']. destruct of as [o_f|]; [|discriminate].
  cbn [option_map] in Hbr'. inversion Hbr' as [Eo_f]. subst o. cbn [ofin] in Hof.
  exists o_f, (@ssum R ROps (lastn n (map f2r fs)) / INR n). split; [exact Eo|]. split; [exact Hof|]. split.
  - rewrite (sma_closed_form n (map f2r fs) Hn). unfold spec_sma. rewrite map_length.
    destruct (Nat.ltb_spec (length fs) n) as [H|H]; [lia|]. unfold smean. rewrite lastn_length, map_length.
    replace (Nat.min n (length fs)) with n by lia. rewrite sdivd_R by (apply INR_pos_neq; lia). reflexivity.
  - exact HE.
Qed.

(** the running sum held by Sma at f64 *)
Theorem sma_sum_prim_drift n M fs : (1 <= n)%nat -> 0 <= M ->
  Forall (fun x => Rabs (f2r x) <= M) fs -> all_finite_sma ffinite n fs = true ->
  exists s, crun (@sma_core PrimFloat.float FOps n) fs = Ok s /\ map f2r (sma_q s) = lastn n (map f2r fs) /\
    Rabs (f2r (sma_sum s) - @ssum R ROps (lastn n (map f2r fs))) <= ((1 + b64_u) ^ (2 * length fs) - 1) * (INR n * M).
Proof.
  intros Hn HM Hb Hc.
  destruct (sma_bridge_run n fs Hc) as [s [E1 E2]].
  destruct (sma_sum_drift_b64 n M (map f2r fs) Hn HM (f2r_Din M fs Hb)) as [t [Hr [Hq HE]]].
  change (crun (@sma_core R B64Ops n) (map f2r fs) = Ok t) in Hr. rewrite E2 in Hr. inversion Hr; subst t. rewrite map_length in HE.
  exists s. split; [exact E1|]. split; [exact Hq | exact HE].
Qed.

(** Cumulative at f64: |f64 answer - exact window sum| <= ((1+u)^(2t) - 1) n M *)
Theorem cumulative_prim_drift n M fs : (1 <= n)%nat -> fs <> [] -> 0 <= M ->
  Forall (fun x => Rabs (f2r x) <= M) fs -> all_finite_cumulative ffinite n fs = true ->
  exists o_f o_ex,
    cout (@cumulative_core PrimFloat.float FOps n) fs = Ok (Some o_f) /\ ffinite o_f = true /\
    cout (@cumulative_core R ROps n) (map f2r fs) = Ok (Some o_ex) /\
    Rabs (f2r o_f - o_ex) <= ((1 + b64_u) ^ (2 * length fs) - 1) * (INR n * M).
Proof.
  intros Hn Hne HM Hb Hc.
  pose proof (cumulative_bridge n fs Hc) as Hbr.
  assert (Hne' : map f2r fs <> []) by (destruct fs; [congruence | discriminate]).
  destruct (cumulative_drift_b64 n M (map f2r fs) Hn HM Hne' (f2r_Din M fs Hb)) as [o [Ho HE]].
  change (cout (@cumulative_core R B64Ops n) (map f2r fs) = Ok (Some o)) in Ho. rewrite map_length in HE.
  destruct (all_finite_run_cout ffinite (@cumulative_core PrimFloat.float FOps n) (cum_sfin ffinite) fs Hc)
    as [s [of [_ [_ [Eo Hof]]]]].
  rewrite Eo, Ho in Hbr. cbn [res_map] in Hbr. inversion Hbr as [Hbr']. destruct of as [o_f|]; [|discriminate].
  cbn [option_map] in Hbr'. inversion Hbr' as [Eo_f]. subst o. cbn [ofin] in Hof.
  exists o_f, (@ssum R ROps (lastn n (map f2r fs))). split; [exact Eo|]. split; [exact Hof|]. split.
  - rewrite (cumulative_closed_form n (map f2r fs) Hn). unfold spec_cumulative.
    destruct (map f2r fs); [congruence | reflexivity].
  - exact HE.
Qed.

(** Ema at f64: window 1 <= n < 2^48, at least n inputs of magnitude at most M, f64 run finite:
    |f64 answer - exact Ema| <= (12 u M + 3 eta)(n+1)/2 for every stream length *)
Theorem ema_prim_drift n M fs : (1 <= n)%nat -> (Z.of_nat n < 2 ^ 48)%Z -> (n <= length fs)%nat -> 0 <= M ->
  Forall (fun x => Rabs (f2r x) <= M) fs -> all_finite_ema ffinite n fs = true ->
  exists o_f o_ex,
    cout (@ema_core PrimFloat.float FOps n) fs = Ok (Some o_f) /\ ffinite o_f = true /\
    cout (@ema_core R ROps n) (map f2r fs) = Ok (Some o_ex) /\
    Rabs (f2r o_f - o_ex) <= (12 * b64_u * M + 3 * b64_eta) * ((1 + INR n) / 2).
Proof.
  intros Hn Hn48 Hl HM Hb Hc.
  assert (Hn53 : (Z.of_nat n < 2 ^ 53)%Z).
  { eapply Z.lt_trans; [exact Hn48|]. reflexivity. }
  pose proof (ema_bridge n fs Hn53 Hc) as Hbr.
  destruct (ema_drift_b64 n M (map f2r fs) Hn Hn48 ltac:(rewrite map_length; exact Hl) HM (f2r_Din M fs Hb))
    as [o [o_ex [Ho [Hex HE]]]].
  destruct (all_finite_run_cout ffinite (@ema_core PrimFloat.float FOps n) (ema_sfin ffinite n s2) fs Hc)
    as [s [of [_ [_ [Eo Hof]]]]].
  rewrite Eo, Ho in Hbr. cbn [res_map] in Hbr. inversion Hbr as [Hbr']. destruct of as [o_f|]; [|discriminate].
  cbn [option_map] in Hbr'. inversion Hbr' as [Eo_f]. subst o. cbn [ofin] in Hof.
  exists o_f, o_ex. split; [exact Eo|]. split; [exact Hof|]. split; [exact Hex | exact HE].
Qed.

(** WelfordRolling mean at f64: 1 <= t = number of updates < 2^50, f64 mean finite throughout:
    |f64 mean - exact mean| <= (t + 10) u M + t (1+u) eta *)
Theorem wr_mean_prim_drift M fs : fs <> [] -> (Z.of_nat (length fs) < 2 ^ 50)%Z -> 0 <= M ->
  Forall (fun x => Rabs (f2r x) <= M) fs -> all_finite_wr_mean ffinite fs = true ->
  exists m_f m_ex,
    cout (@wrolling_mean_core PrimFloat.float FOps) fs = Ok (Some m_f) /\ ffinite m_f = true /\
    cout (@wrolling_mean_core R ROps) (map f2r fs) = Ok (Some m_ex) /\
    Rabs (f2r m_f - m_ex) <= (INR (length fs) + 10) * b64_u * M + INR (length fs) * (1 + b64_u) * b64_eta.
Proof.
  intros Hne Ht HM Hb Hc.
  assert (Ht53 : (Z.of_nat (length fs) < 2 ^ 53)%Z).
  { eapply Z.lt_trans; [exact Ht|]. reflexivity. }
  pose proof (wr_mean_bridge fs Ht53 Hc) as Hbr.
  assert (Hne' : map f2r fs <> []) by (destruct fs; [congruence | discriminate]).
  destruct (wr_mean_drift_b64 M (map f2r fs) Hne' ltac:(rewrite map_length; exact Ht) HM (f2r_Din M fs Hb))
    as [o [o_ex [Ho [Hex HE]]]].
  rewrite map_length in HE.
  destruct (all_finite_run_cout ffinite (@wrolling_mean_core PrimFloat.float FOps) (wr_mean_sfin ffinite) fs Hc)
    as [s [of [_ [_ [Eo Hof]]]]].
  rewrite Eo, Ho in Hbr. cbn [res_map] in Hbr. inversion Hbr as [Hbr']. destruct of as [o_f|]; [|discriminate].
  cbn [option_map] in Hbr'. inversion Hbr' as [Eo_f]. subst o. cbn [ofin] in Hof.
  exists o_f, o_ex. split; [exact Eo|]. split; [exact Hof|]. split; [exact Hex | exact HE].
Qed.

(** * 4. Concrete streams: every hypothesis above is discharged by computation *)

(** an executable bound on the inputs: |x| <= m as floats gives |f2r x| <= f2r m *)
Lemma f2r_abs_le x m : ffinite x = true -> ffinite m = true ->
  PrimFloat.leb (PrimFloat.abs x) m = true -> Rabs (f2r x) <= f2r m.
Proof.
  intros Fx Fm H. destruct (prim_abs_fin x) as [Fa Ea].
  rewrite (prim_leb_real _ _ ltac:(rewrite Fa; exact Fx) Fm) in H. apply Rleb_true in H. rewrite Ea in H. exact H.
Qed.
Definition bounded_by (m : PrimFloat.float) (fs : list PrimFloat.float) : bool :=
  ffinite m && forallb (fun x => ffinite x && PrimFloat.leb (PrimFloat.abs x) m) fs.
Lemma bounded_by_ok m fs : bounded_by m fs = true -> Forall (fun x => Rabs (f2r x) <= f2r m) fs.
Proof.
  unfold bounded_by. intros H. apply andb_true_iff in H. destruct H as [Fm H].
  apply Forall_forall. intros x Hx. rewrite forallb_forall in H. specialize (H x Hx).
  apply andb_true_iff in H. destruct H as [Fx Hl]. apply f2r_abs_le; assumption.
Qed.
Lemma f2r_128 : f2r 128%float = 128.
Proof.
  rewrite f2r_SF. replace (Prim2SF 128%float) with (S754_finite false 4503599627370496 (-45)) by (vm_compute; reflexivity).
  unfold SF2R, F2R. cbn. lra.
Qed.

Definition stream10 : list PrimFloat.float :=
  [1.5; -0.25; 0.1; 3; 2.75; -7.125; 100.5; 0.001; 64; -12.5]%float.

Example stream10_fin64 : Forall fin64 stream10.
Proof. repeat constructor. Qed.
Example stream10_bounded : Forall (fun x => Rabs (f2r x) <= 128) stream10.
Proof. rewrite <- f2r_128. apply bounded_by_ok. vm_compute. reflexivity. Qed.

(** Sma(3): the checker succeeds, so the f64 run is the rounded-real run ... *)
Example sma3_all_finite : all_finite_sma ffinite 3 stream10 = true.
Proof. vm_compute. reflexivity. Qed.
Example sma3_bridge_ex :
  res_map (option_map f2r) (cout (@sma_core PrimFloat.float FOps 3) stream10)
  = cout (@sma_core R B64Ops 3) (map f2r stream10).
Proof. apply sma_bridge; [reflexivity | exact sma3_all_finite]. Qed.
(** ... and is within the drift bound of the exact mean of the last three values *)
Example sma3_prim_drift_ex : exists o_f o_ex,
  cout (@sma_core PrimFloat.float FOps 3) stream10 = Ok (Some o_f) /\ ffinite o_f = true /\
  cout (@sma_core R ROps 3) (map f2r stream10) = Ok (Some o_ex) /\
  Rabs (f2r o_f - o_ex) <= ((1 + b64_u) ^ 21 - 1) * 128 + b64_eta.
Proof.
  apply (sma_prim_drift 3 128 stream10); [lia | reflexivity | cbn; lia | lra | exact stream10_bounded | exact sma3_all_finite].
Qed.
Example sma3_run_ex : cout (@sma_core PrimFloat.float FOps 3) stream10 = Ok (Some 17.167000000000002%float).
Proof. vm_compute. reflexivity. Qed.

(** Ema(3) *)
Example ema3_all_finite : all_finite_ema ffinite 3 stream10 = true.
Proof. vm_compute. reflexivity. Qed.
Example ema3_bridge_ex :
  res_map (option_map f2r) (cout (@ema_core PrimFloat.float FOps 3) stream10)
  = cout (@ema_core R B64Ops 3) (map f2r stream10).
Proof. apply ema_bridge; [reflexivity | exact ema3_all_finite]. Qed.
Example ema3_prim_drift_ex : exists o_f o_ex,
  cout (@ema_core PrimFloat.float FOps 3) stream10 = Ok (Some o_f) /\ ffinite o_f = true /\
  cout (@ema_core R ROps 3) (map f2r stream10) = Ok (Some o_ex) /\
  Rabs (f2r o_f - o_ex) <= (12 * b64_u * 128 + 3 * b64_eta) * ((1 + INR 3) / 2).
Proof.
  apply (ema_prim_drift 3 128 stream10); [lia | reflexivity | cbn; lia | lra | exact stream10_bounded | exact ema3_all_finite].
Qed.

(** Cumulative(3) and the WelfordRolling mean on the same stream *)
Example cum3_all_finite : all_finite_cumulative ffinite 3 stream10 = true.
Proof. vm_compute. reflexivity. Qed.
Example wr_all_finite : all_finite_wr_mean ffinite stream10 = true.
Proof. vm_compute. reflexivity. Qed.
Example cum3_prim_drift_ex : exists o_f o_ex,
  cout (@cumulative_core PrimFloat.float FOps 3) stream10 = Ok (Some o_f) /\ ffinite o_f = true /\
  cout (@cumulative_core R ROps 3) (map f2r stream10) = Ok (Some o_ex) /\
  Rabs (f2r o_f - o_ex) <= ((1 + b64_u) ^ 20 - 1) * (INR 3 * 128).
Proof.
  apply (cumulative_prim_drift 3 128 stream10); [lia | discriminate | lra | exact stream10_bounded | exact cum3_all_finite].
Qed.
Example wr_mean_prim_drift_ex : exists m_f m_ex,
  cout (@wrolling_mean_core PrimFloat.float FOps) stream10 = Ok (Some m_f) /\ ffinite m_f = true /\
  cout (@wrolling_mean_core R ROps) (map f2r stream10) = Ok (Some m_ex) /\
  Rabs (f2r m_f - m_ex) <= (INR 10 + 10) * b64_u * 128 + INR 10 * (1 + b64_u) * b64_eta.
Proof.
  apply (wr_mean_prim_drift 128 stream10); [discriminate | reflexivity | lra | exact stream10_bounded | exact wr_all_finite].
Qed.

(** the checker rejects a run that overflows (1e308 + 1e308 = +inf at f64), and a NaN input *)
Example overflow_rejected : all_finite_cumulative ffinite 2 [1e308; 1e308]%float = false
                            /\ all_finite_sma ffinite 2 [1e308; 1e308]%float = false
                            /\ all_finite_ema ffinite 2 [1; nan]%float = false
                            /\ all_finite_wr_mean ffinite [1; infinity]%float = false.
Proof. vm_compute. repeat split. Qed.
(** WelfordRolling: the sum of squares overflows (1e200^2) but the MEAN stays finite: the mean bridge applies *)
Example wr_mean_only : all_finite_wr_mean ffinite [1e200; -1e200; 3]%float = true.
Proof. vm_compute. reflexivity. Qed.

(** the finiteness hypothesis cannot be dropped: 1e308 + 1e308 overflows at f64 (the answer is +inf, whose real
    value is 0 by convention) while the rounded-real model, which has no overflow, answers about 2e308 *)
Theorem bridge_needs_finiteness :
  res_map (option_map f2r) (cout (@cumulative_core PrimFloat.float FOps 2) [1e308; 1e308]%float)
  <> cout (@cumulative_core R B64Ops 2) (map f2r [1e308; 1e308]%float).
Proof.
  replace (cout (@cumulative_core PrimFloat.float FOps 2) [1e308; 1e308]%float) with (Ok (Some infinity))
    by (vm_compute; reflexivity).
  cbn [res_map option_map map].
  assert (E0 : f2r infinity = 0) by (rewrite f2r_SF; reflexivity). rewrite E0.
  set (x := f2r 1e308%float).
  assert (Hx : 0 < x).
  { unfold x. rewrite f2r_SF.
    replace (Prim2SF 1e308%float) with (S754_finite false 5010420900022432 971) by (vm_compute; reflexivity).
    unfold SF2R. cbn [cond_Zopp]. apply F2R_gt_0. reflexivity. }
  assert (Fx : b64_format x) by apply f2r_format.
  unfold cout, crun. cbn [cnew cumulative_core cfold cstep clast cum_step cum_q cum_out length Nat.leb bind app].
  cbn [s0 sadd B64Ops FlOps2].
  intros H. inversion H as [H1]. clear H.
  assert (E1 : b64_add 0 x = x).
  { unfold b64_add, b64_round. rewrite Rplus_0_l. apply round_generic; [apply valid_rnd_N | exact Fx]. }
  rewrite E1 in H1.
  assert (Hle : x <= b64_add x x).
  { unfold b64_add, b64_round. rewrite <- (round_generic radix2 b64_exp ZnearestE x Fx) at 1.
    apply round_le; [apply FLT_exp_valid; exact b64_prec_gt_0 | apply valid_rnd_N | lra]. }
  lra.
Qed.

(** the checkers are generic in the scalar: at the exact rationals (every value "finite") they only say that the run does not err *)
Example checkers_at_Q :
  @all_finite_sma QArith_base.Q (fun _ => true) QOps 3 [QArith_base.Qmake 1 2; QArith_base.Qmake 3 1; QArith_base.Qmake 5 7; QArith_base.Qmake 2 1] = true
  /\ @all_finite_ema QArith_base.Q (fun _ => true) QOps 3 [QArith_base.Qmake 1 2; QArith_base.Qmake 3 1] = true
  /\ @all_finite_sma QArith_base.Q (fun _ => true) QOps 0 [QArith_base.Qmake 1 2] = false.
Proof. vm_compute. repeat split. Qed.

Print Assumptions prim_arith_sim.
Print Assumptions sma_inputs_fin64.
Print Assumptions ema_inputs_fin64.
Print Assumptions bridge_needs_finiteness.
Print Assumptions sofdec_not_simulated.
Print Assumptions sma_bridge.
Print Assumptions cumulative_bridge.
Print Assumptions ema_bridge.
Print Assumptions wr_mean_bridge.
Print Assumptions sma_bridge_run.
Print Assumptions sma_out_drift_b64.
Print Assumptions sma_prim_drift.
Print Assumptions sma_sum_prim_drift.
Print Assumptions cumulative_prim_drift.
Print Assumptions ema_prim_drift.
Print Assumptions wr_mean_prim_drift.
