(** C12, floating-point half, part 1: value-like views (Sma, Cumulative, Ema, Min, Max) at the rounded
    instance [RndOps rnd cnat cdec]: under (H1) rnd (sc * x) = sc * rnd x and (H2) 0 < sc, the run on the history
    scaled by sc is, state by state, the original run with every value-carrying field multiplied by sc
    ([*_f] : the state transformer; [*_step_sc] : it commutes with the step), hence the answer is the scaled
    answer -- [Ok None] stays [Ok None] and an error stays the same error. *)
From Coq Require Import List Arith Lia Reals Lra ZArith Bool.
From SF Require Import Res Scalar View Models Core.
From SF.Proofs Require Import Pow2Base.
Import ListNotations.
Open Scope R_scope.

Section Views.
Variable rnd : R -> R.
Variable cnat : nat -> R.
Variable cdec : Z -> nat -> R.
Variable sc : R.
Hypothesis rnd_sc : forall x, rnd (sc * x) = sc * rnd x.
Hypothesis sc_pos : 0 < sc.

Notation PO := (RndOps rnd cnat cdec).
Notation scl := (scl sc).
Notation sco := (sco sc).

Ltac sc_rw := sc_rw_with rnd sc rnd_sc sc_pos.
Ltac crush := crush_with rnd sc rnd_sc sc_pos.

(** ** Sma *)
Definition sma_f (st : @sma_st R) : @sma_st R := {| sma_q := scl (sma_q st); sma_sum := sc * sma_sum st |}.

Lemma sma_step_sc n st v : @sma_step R PO n (sma_f st) (sc * v) = rmap sma_f (@sma_step R PO n st v).
Proof.
  destruct st as [q sum]. unfold sma_step, sma_f. cbn [sma_q sma_sum]. crush.
Qed.

Lemma sma_last_sc n st : @sma_last R PO n (sma_f st) = rmap sco (@sma_last R PO n st).
Proof.
  destruct st as [q sum]. unfold sma_last, sma_f. cbn [sma_q sma_sum]. crush.
Qed.

(** Sma scales: the answer on the scaled history is the scaled answer (errors included) *)
Theorem sma_scales n vs :
  cout (@sma_core R PO n) (map (Rmult sc) vs) = rmap sco (cout (@sma_core R PO n) vs).
Proof.
  apply (cout_sim (@sma_core R PO n) sc sma_f sco).
  - cbn. unfold sma_f. cbn [sma_q sma_sum]. rewrite sc_0. reflexivity.
  - apply sma_step_sc.
  - apply sma_last_sc.
Qed.

(** ** Cumulative *)
Definition cum_f (st : @cum_st R) : @cum_st R := {| cum_q := scl (cum_q st); cum_out := sco (cum_out st) |}.

Lemma cum_step_sc n st v : @cum_step R PO n (cum_f st) (sc * v) = rmap cum_f (@cum_step R PO n st v).
Proof.
  destruct st as [q [o|]]; unfold cum_step, cum_f; cbn [cum_q cum_out]; crush.
Qed.

(** Cumulative scales *)
Theorem cumulative_scales n vs :
  cout (@cumulative_core R PO n) (map (Rmult sc) vs) = rmap sco (cout (@cumulative_core R PO n) vs).
Proof.
  apply (cout_sim (@cumulative_core R PO n) sc cum_f sco).
  - reflexivity.
  - apply cum_step_sc.
  - intros st. reflexivity.
Qed.

(** ** Ema *)
Definition ema_f (st : @ema_st R) : @ema_st R :=
  {| ema_last := sc * ema_last st; ema_out := sc * ema_out st; ema_n := ema_n st |}.

Lemma ema_step_sc n alpha st v :
  @ema_step R PO n alpha (ema_f st) (sc * v) = rmap ema_f (@ema_step R PO n alpha st v).
Proof.
  destruct st as [l o k]. unfold ema_step, ema_f. cbn [ema_last ema_out ema_n]. crush.
Qed.

(** Ema (any alpha) scales *)
Theorem ema_alpha_scales n alpha vs :
  cout (@ema_core_alpha R PO n alpha) (map (Rmult sc) vs) = rmap sco (cout (@ema_core_alpha R PO n alpha) vs).
Proof.
  apply (cout_sim (@ema_core_alpha R PO n alpha) sc ema_f sco).
  - cbn. unfold ema_f. cbn [ema_last ema_out ema_n]. rewrite sc_0. reflexivity.
  - apply ema_step_sc.
  - intros [l o k]. cbn [clast ema_core_alpha ema_f ema_n ema_out]. destruct (Nat.ltb k n); reflexivity.
Qed.

Theorem ema_scales n vs :
  cout (@ema_core R PO n) (map (Rmult sc) vs) = rmap sco (cout (@ema_core R PO n) vs).
Proof. apply ema_alpha_scales. Qed.

(** ** Min / Max (no arithmetic: only comparisons and copies) *)
Lemma fold_min_sc r : forall x,
  fold_left (fun m y : R => if @sgtb R PO m y then y else m) (scl r) (sc * x)
  = sc * fold_left (fun m y : R => if @sgtb R PO m y then y else m) r x.
Proof.
  induction r as [|y r IH]; intros x; [reflexivity|].
  cbn [Pow2Base.scl map fold_left]. fold (scl r). opsimp. sc_rw. destruct (Rltb y x); apply IH.
Qed.
Lemma fold_max_sc r : forall x,
  fold_left (fun m y : R => if @sgtb R PO m y then m else y) (scl r) (sc * x)
  = sc * fold_left (fun m y : R => if @sgtb R PO m y then m else y) r x.
Proof.
  induction r as [|y r IH]; intros x; [reflexivity|].
  cbn [Pow2Base.scl map fold_left]. fold (scl r). opsimp. sc_rw. destruct (Rltb y x); apply IH.
Qed.
Lemma min_by_sc q : @min_by R PO (scl q) = sco (@min_by R PO q).
Proof. destruct q as [|x r]; [reflexivity|]. unfold min_by. cbn [Pow2Base.scl map]. fold (scl r). rewrite fold_min_sc. reflexivity. Qed.
Lemma max_by_sc q : @max_by R PO (scl q) = sco (@max_by R PO q).
Proof. destruct q as [|x r]; [reflexivity|]. unfold max_by. cbn [Pow2Base.scl map]. fold (scl r). rewrite fold_max_sc. reflexivity. Qed.

Definition ext_f (st : @ext_st R) : @ext_st R := {| ext_q := scl (ext_q st); ext_opt := sco (ext_opt st) |}.

Lemma min_step_sc n st v : @min_step R PO n (ext_f st) (sc * v) = rmap ext_f (@min_step R PO n st v).
Proof.
  destruct st as [q [o|]]; unfold min_step, ext_f; cbn [ext_q ext_opt]; crush;
    rewrite ?min_by_sc; try destruct (@min_by R PO _); cbn [ext_q ext_opt]; crush.
Qed.
Lemma max_step_sc n st v : @max_step R PO n (ext_f st) (sc * v) = rmap ext_f (@max_step R PO n st v).
Proof.
  destruct st as [q [o|]]; unfold max_step, ext_f; cbn [ext_q ext_opt]; crush;
    rewrite ?max_by_sc; try destruct (@max_by R PO _); cbn [ext_q ext_opt]; crush.
Qed.

(** Min, Max scale *)
Theorem min_scales n vs :
  cout (@min_core R PO n) (map (Rmult sc) vs) = rmap sco (cout (@min_core R PO n) vs).
Proof.
  apply (cout_sim (@min_core R PO n) sc ext_f sco).
  - cbn [cnew min_core]. unfold ext_new. destruct (assert (Nat.ltb 0 n)); reflexivity.
  - apply min_step_sc.
  - intros st. reflexivity.
Qed.
Theorem max_scales n vs :
  cout (@max_core R PO n) (map (Rmult sc) vs) = rmap sco (cout (@max_core R PO n) vs).
Proof.
  apply (cout_sim (@max_core R PO n) sc ext_f sco).
  - cbn [cnew max_core]. unfold ext_new. destruct (assert (Nat.ltb 0 n)); reflexivity.
  - apply max_step_sc.
  - intros st. reflexivity.
Qed.


End Views.
