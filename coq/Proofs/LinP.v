(** Linear recursive filters (SuperSmoother, RoofingFilter, LaguerreFilter, CyberCycle):
    summary of the main theorems (C11 closed forms, C10 linearity / DC behaviour, C12 scaling),
    satisfiability examples and assumptions.  The proofs are in Lin{Base,SS,Lag,CC,Linear,DC,CCSmall,Conv}.v. *)
From Coq Require Import List Arith Lia ZArith Reals Lra.
From SF Require Import Res Scalar View Models Spec Core SpecLin.
From SF.Proofs Require Export LinBase LinSS LinLag LinCC LinLinear LinDC LinCCSmall LinConv.
Import ListNotations.
Open Scope R_scope.

(** instances showing that the hypotheses of every main theorem are satisfiable *)
Example ss_closed_form_ex :
  cout (@ss_core R ROps 3) [1; 2; 3; 4] = Ok (@spec_ss R ROps 3 [1; 2; 3; 4]).
Proof. apply ss_closed_form. lia. Qed.
Example roofing_closed_form_ex :
  cout (@roofing_core R ROps 2 1) [1; 2; 3; 4; 5] = Ok (@spec_roofing R ROps 2 1 [1; 2; 3; 4; 5]).
Proof. apply roofing_closed_form; lia. Qed.
Example laguerre_closed_form_ex :
  cout (@laguerre_core R ROps (4 / 5)) [1; 2; 3] = Ok (@spec_laguerre R ROps (4 / 5) [1; 2; 3]).
Proof. apply laguerre_closed_form. Qed.
Example cyber_closed_form_ex :
  cout (@cyber_core R ROps 6) [1; 2; 3; 4; 5; 6; 7] = Ok (@spec_cyber R ROps 6 [1; 2; 3; 4; 5; 6; 7]).
Proof. apply cyber_closed_form. lia. Qed.
Example cyber_closed_form_gen_ex :
  cout (@cyber_core R ROps 4) [1; 2; 3; 4; 5] = Ok (@spec_cyber_gen R ROps 4 [1; 2; 3; 4; 5]).
Proof. apply cyber_closed_form_gen. lia. Qed.
Example ss_linear_ex : core_linear (@ss_core R ROps 1) /\ core_scales (@ss_core R ROps 1).
Proof. split; [apply ss_linear | apply ss_scales]; lia. Qed.
Example roofing_linear_ex : core_linear (@roofing_core R ROps 2 1) /\ core_scales (@roofing_core R ROps 2 1).
Proof. split; [apply roofing_linear | apply roofing_scales]; lia. Qed.
Example laguerre_linear_ex : core_linear (@laguerre_core R ROps 0) /\ core_scales (@laguerre_core R ROps 0).
Proof. split; [apply laguerre_linear | apply laguerre_scales]. Qed.
Example cyber_linear_ex : core_linear (@cyber_core R ROps 3) /\ core_scales (@cyber_core R ROps 3).
Proof. split; [apply cyber_linear | apply cyber_scales]; lia. Qed.
Example core_linear_ex_lengths : length [1; 2] = length [3; 4]. Proof. reflexivity. Qed.
Example laguerre_dc_ex : cout (@laguerre_core R ROps (1 / 2)) [7; 7; 7] = Ok (Some 7).
Proof. exact (laguerre_dc (1 / 2) 7 2). Qed.
Example cyber_dc_zero_ex : cout (@cyber_core R ROps 6) (repeat 5 9) = Ok (Some 0).
Proof. apply (cyber_dc_zero 6 5 8). lia. Qed.
Example cyber_small_n_dc_refuted_ex :
  ~ tends_to_0 (fun t => cout (@cyber_core R ROps 4) (repeat 1 t)).
Proof. apply cyber_small_n_dc_refuted; [left; reflexivity | lra]. Qed.
Example hp_dc_repeat_ex al : (2 <= 2 < 3)%nat /\
  fst (@hpb_upto R ROps al (repeat 1 3) 3) =
  2 * (1 - al) * fst (@hpb_upto R ROps al (repeat 1 3) 2)
  - (1 - al) * (1 - al) * snd (@hpb_upto R ROps al (repeat 1 3) 2).
Proof. split; [lia|]. apply hp_dc_repeat. lia. Qed.

Example ss_dc_converges_ex : exists T0, forall t, (T0 <= t)%nat ->
  exists o, cout (@ss_core R ROps 10) (repeat 3 t) = Ok (Some o) /\ Rabs (o - 3) < / 1000.
Proof. apply ss_dc_converges; [lia | lra]. Qed.
Example cyber_dc_decays_ex : exists M, forall m, (M <= m)%nat ->
  exists o, cout (@cyber_core R ROps 6) ([1; -2; 7] ++ repeat 3 m) = Ok (Some o) /\ Rabs o < / 1000.
Proof. apply cyber_dc_decays; [lia | lra]. Qed.

Print Assumptions ss_closed_form.
Print Assumptions roofing_closed_form.
Print Assumptions cos_theta_neq.
Print Assumptions laguerre_closed_form.
Print Assumptions cyber_closed_form.
Print Assumptions cyber_closed_form_gen.
Print Assumptions ss_linear.
Print Assumptions roofing_linear.
Print Assumptions laguerre_linear.
Print Assumptions cyber_linear.
Print Assumptions ss_scales.
Print Assumptions roofing_scales.
Print Assumptions laguerre_scales.
Print Assumptions cyber_scales.
Print Assumptions laguerre_dc.
Print Assumptions ss_dc_gain.
Print Assumptions ss_dc_fixed_point.
Print Assumptions hp_dc_forcing.
Print Assumptions hp_dc_homogeneous.
Print Assumptions cyber_dc_forcing.
Print Assumptions cyber_dc_homogeneous.
Print Assumptions cyber_dc_zero.
Print Assumptions cyber_dc_fixed_state.
Print Assumptions cyber_small_n_dc_refuted.
Print Assumptions cyber4_first_output.
Print Assumptions cyber5_first_output.
Print Assumptions cyber3_identically_zero.
Print Assumptions ss_dc_converges.
Print Assumptions cyber_dc_decays.
