(** BridgeE, part 3: WelfordRolling at f64 with NO executable hypothesis, at the level of the STATE (mean, sum of squares).
    [all_finite_wr_state]: the state checker (the checker [all_finite_wr] of SpecBridgeW.v also asks a finite [last()],
    the square root of the variance taken WITHOUT a sign guard: that needs the f64 sum of squares to be non-negative along
    the run, which is not proved here).  [wr_all_finite_of_bound], [wr_s_prim_drift_bounded], [wr_var_prim_drift_bounded]. *)
From Coq Require Import List Arith Lia Reals Lra ZArith Floats Bool.
From SF Require Import Res Scalar View Models Spec Core FloatOps SpecBridge SpecBridgeW SpecRoll SpecWelf.
From SF.Proofs Require Import Window RBase SmaP WinAP RollP WelfP FltErr FltBridge Flt2P Flt2B64 Flt2Prim
  BridgeOps BridgeSim BridgeP WdriftArith WdriftP WdriftB64 WdriftVar WdriftVarB64 FAccBase BridgeWOps BridgeWSim BridgeWP
  BridgeWBound BridgeEWelf.
From Flocq Require Import Core BinarySingleNaN.
Import ListNotations.
Open Scope R_scope.
Local Notation float := PrimFloat.float.

(** the state checker: mean and sum of squares finite after every prefix (no condition on [last()]) *)
Definition all_finite_wr_state (fs : list float) : bool :=
  all_finite_run ffinite (@wrolling_mean_core float FOps) (wr_sfin ffinite) fs.

Lemma crun_wrolling_mean_core {T} {OT : Ops T} vs : crun (@wrolling_mean_core T OT) vs = crun (@wrolling_core T OT) vs.
Proof. apply (@crun_build_ext T (@wr_st T)). reflexivity. Qed.

(** [all_finite_wr] implies the state checker *)
Lemma wr_chk_to_state fs : all_finite_wr ffinite fs = true -> all_finite_wr_state fs = true.
Proof.
  unfold all_finite_wr, all_finite_wr_state, all_finite_run. cbn [cnew wrolling_core wrolling_mean_core].
  assert (Hst : forall s, st_ok ffinite (@wrolling_core float FOps) (wr_sfin ffinite) s = true ->
                          st_ok ffinite (@wrolling_mean_core float FOps) (wr_sfin ffinite) s = true).
  { intros s H. unfold st_ok in *. apply andb_true_iff in H. destruct H as [H _]. rewrite H.
    cbn [clast wrolling_mean_core ofin andb]. unfold wr_sfin in H. apply andb_true_iff in H. tauto. }
  intros H. apply andb_true_iff in H. destruct H as [H1 H2]. apply andb_true_iff. split; [exact (Hst _ H1)|].
  clear H1. revert H2. generalize (@wr_new float FOps). induction fs as [|v vs IH]; intros s H; [reflexivity|].
  cbn [cfold_chk cstep wrolling_core wrolling_mean_core] in *.
  destruct (@wr_step float FOps s v) as [s1|e]; [|discriminate].
  apply andb_true_iff in H. destruct H as [H1 H2]. apply andb_true_iff. split; [exact (Hst _ H1) | exact (IH s1 H2)].
Qed.

(** the state across the bridge, from the state checker *)
Theorem wr_state_bridge_run fs : (Z.of_nat (length fs) < 2 ^ 53)%Z -> all_finite_wr_state fs = true ->
  exists s, crun (@wrolling_core float FOps) fs = Ok s /\
            crun (@wrolling_core R B64Ops3) (map f2r fs) = Ok (wr_map f2r s) /\
            wr_sfin ffinite s = true /\ wr_n s = length fs.
Proof.
  intros Hn Hc.
  destruct (@core_bridge_run float f2r ffinite (@wrolling_mean_core float FOps) (@wrolling_mean_core R B64Ops3)
              (wr_sfin ffinite) (wr_relf float f2r) (length fs)) with (fs := fs) as [s [t [E1 [E2 [[Hr Hk] Hs]]]]].
  - intros s E. cbn [cnew wrolling_mean_core] in *. inversion E; subst s. eexists; split; [reflexivity|].
    split; [|reflexivity]. unfold wr_map, wr_new. cbn [wr_mean wr_s wr_n s0 FOps B64Ops3]. rewrite (proj2 prim_zero_fin). reflexivity.
  - intros k s t v s' Hk Hr _ E Hs'.
    apply (wr_step_simf float FOps B64Ops3 f2r ffinite nat53 prim_arith_sim3 k s t v s'); try assumption. unfold nat53. lia.
  - lia.
  - exact Hc.
  - exists s. subst t. rewrite <- !crun_wrolling_mean_core. auto.
Qed.

(** * 1. One update at f64 *)
Lemma prim_wr_step (s : @wr_st float) x A Q M : ffinite (wr_mean s) = true -> ffinite (wr_s s) = true -> ffinite x = true ->
  (Z.of_nat (S (wr_n s)) < 2 ^ 53)%Z ->
  Rabs (f2r (wr_mean s)) <= A -> Rabs (f2r x) <= M -> Rabs (f2r (wr_s s)) <= Q ->
  mag_D M A < LIM -> mag_Dd M A < LIM -> mag_A' M A < LIM -> mag_T M A < LIM -> mag_P M A < LIM -> mag_Q' M A Q < LIM ->
  exists s', @wr_step float FOps s x = Ok s' /\ wr_sfin ffinite s' = true.
Proof.
  intros Fm Fq Fx Hc Hm Hx Hq LD LDd LA LT LP LQ.
  destruct (f_ofnat_exact (S (wr_n s)) Hc) as [Fn En].
  assert (HN : 1 <= INR (S (wr_n s))) by (change 1 with (INR 1); apply le_INR; lia).
  unfold wr_step. cbv zeta. cbn [ssub sadd smul sdiv sofnat FOps bind].
  set (mean := wr_mean s) in *. set (m2 := wr_s s) in *.
  pose proof (mag_delta (f2r mean) (f2r x) M A Hm Hx) as B1.
  destruct (prim_sub_b64 x mean Fx Fm ltac:(unfold LIM in *; lra)) as [E1 F1].
  pose proof (mag_d (f2r mean) (f2r x) (INR (S (wr_n s))) M A Hm Hx HN) as B2.
  destruct (prim_div_b64 (PrimFloat.sub x mean) (f_ofnat (S (wr_n s))) F1 Fn) as [E2 F2].
  { rewrite En. lra. }
  { rewrite E1, En. unfold LIM in *. lra. }
  rewrite E1, En in E2.
  pose proof (mag_mean_add (f2r mean) (f2r x) (INR (S (wr_n s))) M A Hm Hx HN) as B3.
  destruct (prim_add_b64 mean _ Fm F2) as [E3 F3].
  { rewrite E2. unfold LIM in *. lra. }
  rewrite E2 in E3. rewrite <- E3 in B3.
  pose proof (mag_t (f2r x) M A Hx _ B3) as B4.
  destruct (prim_sub_b64 x _ Fx F3 ltac:(unfold LIM in *; lra)) as [E4 F4].
  pose proof (mag_p (f2r mean) (f2r x) M A Hm Hx _ B3) as B5.
  destruct (prim_mul_b64 _ _ F1 F4) as [E5 F5].
  { rewrite E1, E4. unfold LIM in *. lra. }
  rewrite E1, E4 in E5.
  pose proof (mag_q_add (f2r mean) (f2r m2) (f2r x) M A Q Hm Hx Hq _ B3) as B6.
  destruct (prim_add_b64 m2 _ Fq F5) as [E6 F6].
  { rewrite E5. unfold LIM in *. lra. }
  eexists. split; [reflexivity|]. unfold wr_sfin. cbn [wr_mean wr_s]. rewrite F3, F6. reflexivity.
Qed.

(** * 2. The numeric side conditions, from (4 t + 32) M^2 <= 2^1023 *)
Definition wr_A0 (M : R) : R := 3 / 2 * M.
Definition wr_Q0 (t M : R) : R := (3 * t + 12) * (M * M) + M / 4.

Lemma wr_lim t M : 0 <= t -> 0 <= M -> b64_eta <= M / 8 -> (4 * t + 32) * (M * M) <= bpow radix2 1023 ->
  mag_D M (wr_A0 M) < LIM /\ mag_Dd M (wr_A0 M) < LIM /\ mag_A' M (wr_A0 M) < LIM /\ mag_T M (wr_A0 M) < LIM /\
  mag_P M (wr_A0 M) < LIM /\ mag_Q' M (wr_A0 M) (wr_Q0 t M) < LIM.
Proof.
  intros Ht HM He HB. pose proof b64_eta_nonneg as He0.
  rewrite LIM_2. set (B := bpow radix2 1023) in *.
  assert (HB0 : 0 < B) by apply bpow_gt_0.
  assert (HX : 0 <= M * M) by (apply Rmult_le_pos; assumption).
  assert (HtX : 0 <= t * (M * M)) by (apply Rmult_le_pos; assumption).
  assert (HM32 : 32 * M <= B).
  { assert (HB32 : 32 <= B).
    { unfold B. apply Rle_trans with (bpow radix2 5); [cbn; lra | apply bpow_le; lia]. }
    destruct (Rle_dec M 1) as [H1|H1]; [lra|]. assert (M <= M * M) by nra. lra. }
  assert (D0 : 0 <= mag_D M (wr_A0 M) <= 27 / 10 * M) by (unfold mag_D, wr_A0; lra).
  assert (Dd0 : 0 <= mag_Dd M (wr_A0 M) <= 29 / 10 * M) by (unfold mag_Dd; lra).
  assert (A1 : 0 <= mag_A' M (wr_A0 M) <= 46 / 10 * M) by (unfold mag_A', wr_A0 in *; lra).
  assert (T0 : 0 <= mag_T M (wr_A0 M) <= 58 / 10 * M) by (unfold mag_T; lra).
  assert (DT0 : 0 <= mag_D M (wr_A0 M) * mag_T M (wr_A0 M) <= 1566 / 100 * (M * M)).
  { split; [apply Rmult_le_pos; lra|].
    replace (1566 / 100 * (M * M)) with ((27 / 10 * M) * (58 / 10 * M)) by field. apply Rmult_le_compat; lra. }
  assert (P0 : 0 <= mag_P M (wr_A0 M) <= 1582 / 100 * (M * M) + M / 8) by (unfold mag_P; lra).
  assert (Q1 : mag_Q' M (wr_A0 M) (wr_Q0 t M)
               <= 101 / 100 * ((3 * t + 12) * (M * M) + M / 4 + 1582 / 100 * (M * M) + M / 8) + M / 8).
  { unfold mag_Q', wr_Q0. lra. }
  repeat split; lra.
Qed.

(** * 3. The binary64-rounded state of WelfordRolling on a bounded stream: a-priori bounds *)
Lemma wr_state_b64 M vs : (Z.of_nat (length vs) < 2 ^ 50)%Z -> 0 <= M -> INR (length vs) * b64_eta <= M / 8 ->
  Forall (fun x => b64_format x /\ Rabs x <= M) vs ->
  exists s, crun (@wrolling_core R B64Ops) vs = Ok s /\
            Rabs (wr_mean s) <= wr_A0 M /\ Rabs (wr_s s) <= wr_Q0 (INR (length vs)) M.
Proof.
  intros Ht HM He Hvs.
  pose proof (INR_lt_pow _ _ Ht) as Hb. change (2 ^ 50)%Z with 1125899906842624%Z in Hb.
  assert (Ht53 : (Z.of_nat (length vs) < 2 ^ 53)%Z) by (eapply Z.lt_trans; [exact Ht | reflexivity]).
  assert (Hsm : (INR (length vs) + 16) * b64_u <= 1 / 4) by (rewrite b64_u_val; lra).
  destruct (wr2_run b64_u b64_eta b64_add b64_sub b64_mul b64_div b64_format b64_u_nonneg b64_eta_nonneg
              b64_format_0 b64_add_ok b64_sub_ok b64_mul_ok b64_div_ok M HM (length vs) (b64_nat_F (length vs) Ht53) Hsm He vs Hvs)
    as [s [Hr [[_ Hi] Hi2]]].
  change (crun (@wrolling_core R B64Ops) vs = Ok s) in Hr.
  exists s. split; [exact Hr|].
  destruct (Hi (le_n _)) as [_ Em]. destruct (Hi2 (le_n _)) as [_ Es].
  assert (HWa : Forall (fun x => Rabs x <= M) vs).
  { revert Hvs. apply Forall_impl. intros x [_ H]; exact H. }
  pose proof (Rmean_bound b64_format M HM vs Hvs) as Hmu.
  set (t := INR (length vs)) in *. assert (Ht0 : 0 <= t) by apply pos_INR.
  pose proof b64_eta_nonneg as He0. pose proof b64_u_nonneg as Hu0.
  assert (Htu : t * b64_u <= / 8) by (rewrite b64_u_val; lra).
  assert (HX : 0 <= M * M) by (apply Rmult_le_pos; assumption).
  split.
  - unfold wr_A0. replace (wr_mean s) with (Rmean vs + (wr_mean s - Rmean vs)) by ring.
    eapply Rle_trans; [apply Rabs_triang|].
    unfold wr_alpha, wr_P, wr_g3 in Em.
    pose proof (cube_small64 b64_u Hu0 ltac:(rewrite b64_u_val; lra)) as Hc.
    assert (Hc0 : 0 <= (1 + b64_u) ^ 3 - 1).
    { pose proof (pow1u_ge1 b64_u Hu0 3). lra. }
    assert (H1 : 3 * M * ((1 + b64_u) ^ 3 - 1) <= 3 * M * (49 / 16 * b64_u)) by (apply Rmult_le_compat_l; lra).
    assert (H2 : t * (M * b64_u + b64_eta * (1 + b64_u)) = M * (t * b64_u) + (t * b64_eta) * (1 + b64_u)) by ring.
    assert (H3 : M * (t * b64_u) <= M * / 8) by (apply Rmult_le_compat_l; lra).
    assert (H4 : (t * b64_eta) * (1 + b64_u) <= M / 8 * (101 / 100)).
    { apply Rmult_le_compat; try lra. apply Rmult_le_pos; lra. rewrite b64_u_val. lra. }
    assert (H5 : M * b64_u <= M * / 100) by (apply Rmult_le_compat_l; [lra | rewrite b64_u_val; lra]).
    lra.
  - pose proof (rsqdev_mean_le M vs HWa) as [HS0 HS1]. fold t in HS1.
    set (S' := rsqdev (rmean vs) vs) in *.
    unfold wr_sB in Es. fold t in Es.
    assert (E1 : (4 * t + 90) * t * (b64_u * (M * M)) + (5 * t * M + 2) * t * b64_eta
                 = (4 * t + 90) * (M * M) * (t * b64_u) + (5 * t * M + 2) * (t * b64_eta)) by ring.
    rewrite E1 in Es.
    assert (A2 : (4 * t + 90) * (M * M) * (t * b64_u) <= (4 * t + 90) * (M * M) * (/ 8)).
    { apply Rmult_le_compat_l; [apply Rmult_le_pos; lra | lra]. }
    assert (A3 : (5 * t * M + 2) * (t * b64_eta) <= (5 * t * M + 2) * (M / 8)).
    { apply Rmult_le_compat_l; [|lra]. assert (0 <= t * M) by (apply Rmult_le_pos; lra). lra. }
    unfold wr_Q0. replace (wr_s s) with (S' + (wr_s s - S')) by ring.
    eapply Rle_trans; [apply Rabs_triang|]. rewrite (Rabs_right S') by lra. lra.
Qed.

(** * 4. The state checker is implied by a magnitude bound *)
Lemma eta8_prefix t t' M : (t <= t')%nat -> INR t' * b64_eta <= M / 8 -> INR t * b64_eta <= M / 8.
Proof. intros H He. apply le_INR in H. pose proof b64_eta_nonneg. pose proof (pos_INR t). nra. Qed.

(** WelfordRolling: t < 2^50 finite inputs of magnitude at most M, t 2^-1075 <= M / 8 and (4 t + 32) M^2 <= 2^1023:
    the f64 state (mean, sum of squares) never overflows *)
Theorem wr_all_finite_of_bound M fs : (Z.of_nat (length fs) < 2 ^ 50)%Z -> 0 <= M ->
  INR (length fs) * b64_eta <= M / 8 ->
  Forall (fun x => ffinite x = true /\ Rabs (f2r x) <= M) fs ->
  (4 * INR (length fs) + 32) * (M * M) <= bpow radix2 1023 ->
  all_finite_wr_state fs = true.
Proof.
  intros Ht HM He HD HB. revert Ht He HD HB.
  assert (HX : 0 <= M * M) by (apply Rmult_le_pos; assumption).
  induction fs as [|v vs IH] using rev_ind; intros Ht He HD HB.
  - unfold all_finite_wr_state, all_finite_run. cbn [cnew wrolling_mean_core cfold_chk]. unfold st_ok, wr_sfin, wr_new.
    cbn [wr_mean wr_s clast wrolling_mean_core ofin s0 FOps]. rewrite (proj1 prim_zero_fin). reflexivity.
  - apply Forall_app in HD. destruct HD as [HD Hv]. apply Forall_inv in Hv. destruct Hv as [Fv Mv].
    rewrite app_length in Ht, He, HB. cbn [length] in Ht, He, HB.
    assert (Ht' : (Z.of_nat (length vs) < 2 ^ 50)%Z) by lia.
    assert (He' : INR (length vs) * b64_eta <= M / 8) by (apply (eta8_prefix _ (length vs + 1)); [lia | exact He]).
    assert (HB' : (4 * INR (length vs) + 32) * (M * M) <= bpow radix2 1023).
    { rewrite plus_INR in HB. change (INR 1) with 1 in HB. pose proof (pos_INR (length vs)). nra. }
    specialize (IH Ht' He' HD HB').
    assert (He1 : b64_eta <= M / 8).
    { pose proof (eta8_prefix 1 (length vs + 1) M ltac:(lia) He) as H. cbn [INR] in H. lra. }
    assert (Hb : Forall (fun x => Rabs (f2r x) <= M) vs).
    { revert HD. apply Forall_impl. intros x [_ H]; exact H. }
    assert (Ht53 : (Z.of_nat (length vs) < 2 ^ 53)%Z) by (eapply Z.lt_trans; [exact Ht' | reflexivity]).
    destruct (wr_state_bridge_run vs Ht53 IH) as [s [Er [Eb [Hs Hk]]]].
    destruct (wr_state_b64 M (map f2r vs) ltac:(rewrite map_length; exact Ht') HM
                ltac:(rewrite map_length; exact He') (f2r_Din M vs Hb)) as [t [Et [Hmean Hm2]]].
    rewrite crun_wrolling_B3, Eb in Et. inversion Et; subst t; clear Et. cbn [wr_map wr_mean wr_s] in Hmean, Hm2.
    rewrite map_length in Hm2.
    unfold wr_sfin in Hs. apply andb_true_iff in Hs. destruct Hs as [Fmean Fs].
    destruct (wr_lim (INR (length vs)) M (pos_INR _) HM He1 HB') as [L1 [L2 [L3 [L4 [L5 L6]]]]].
    destruct (prim_wr_step s v (wr_A0 M) (wr_Q0 (INR (length vs)) M) M Fmean Fs Fv ltac:(rewrite Hk; lia)
                Hmean Mv Hm2 L1 L2 L3 L4 L5 L6) as [s' [Es' Hs']].
    apply (all_finite_run_snoc float ffinite (@wrolling_mean_core float FOps) (wr_sfin ffinite) vs v s s' IH).
    + rewrite crun_wrolling_mean_core. exact Er.
    + exact Es'.
    + unfold st_ok. rewrite Hs'. cbn [clast wrolling_mean_core ofin andb].
      unfold wr_sfin in Hs'. apply andb_true_iff in Hs'. tauto.
Qed.

(** * 5. The drift theorems of BridgeWP.v from the state checker, then with no executable hypothesis *)
Theorem wr_s_prim_drift_state M fs : (Z.of_nat (length fs) < 2 ^ 50)%Z -> 0 <= M ->
  INR (length fs) * b64_eta <= M / 8 ->
  Forall (fun x => Rabs (f2r x) <= M) fs -> all_finite_wr_state fs = true ->
  exists s_f s_ex,
    crun (@wrolling_core float FOps) fs = Ok s_f /\ ffinite (wr_s s_f) = true /\
    crun (@wrolling_core R ROps) (map f2r fs) = Ok s_ex /\
    wr_s s_ex = @spec_rdev R ROps (map f2r fs) /\
    Rabs (f2r (wr_s s_f) - wr_s s_ex)
    <= (4 * INR (length fs) + 90) * INR (length fs) * (b64_u * (M * M))
       + (5 * INR (length fs) * M + 2) * INR (length fs) * b64_eta.
Proof.
  intros Ht HM He Hb Hc.
  assert (Ht53 : (Z.of_nat (length fs) < 2 ^ 53)%Z).
  { eapply Z.lt_trans; [exact Ht|]. reflexivity. }
  destruct (wr_state_bridge_run fs Ht53 Hc) as [s [E1 [E2 [Hs _]]]].
  destruct (wr_s_drift_b64 M (map f2r fs) ltac:(rewrite map_length; exact Ht) HM
              ltac:(rewrite map_length; exact He) (f2r_Din M fs Hb)) as [s_fl [s_ex [Hr [Hex [Hsp HE]]]]].
  rewrite crun_wrolling_B3, E2 in Hr. inversion Hr; subst s_fl. cbn [wr_map wr_s] in HE. rewrite map_length in HE.
  exists s, s_ex. split; [exact E1|]. split.
  { unfold wr_sfin in Hs. apply andb_true_iff in Hs. tauto. }
  split; [exact Hex|]. split; [exact Hsp | exact HE].
Qed.

Theorem wr_var_prim_drift_state M fs : (2 <= length fs)%nat -> (Z.of_nat (length fs) < 2 ^ 50)%Z -> 0 <= M ->
  INR (length fs) * b64_eta <= M / 8 ->
  Forall (fun x => Rabs (f2r x) <= M) fs -> all_finite_wr_state fs = true ->
  exists s_f v_f s_ex,
    crun (@wrolling_core float FOps) fs = Ok s_f /\
    @wr_variance float FOps s_f = Ok v_f /\ ffinite v_f = true /\
    crun (@wrolling_core R ROps) (map f2r fs) = Ok s_ex /\
    @wr_variance R ROps s_ex = Ok (@spec_rvar R ROps (map f2r fs)) /\
    Rabs (f2r v_f - @spec_rvar R ROps (map f2r fs))
    <= ((4 * INR (length fs) + 90) * (b64_u * (M * M)) + (5 * INR (length fs) * M + 2) * b64_eta) * (1 + b64_u)
       + b64_u * (M * M) + b64_eta.
Proof.
  intros Hl Ht HM He Hb Hc.
  assert (Ht53 : (Z.of_nat (length fs) < 2 ^ 53)%Z).
  { eapply Z.lt_trans; [exact Ht|]. reflexivity. }
  destruct (wr_state_bridge_run fs Ht53 Hc) as [s [E1 [E2 [Hs Hn]]]].
  destruct (wr_var_drift_b64 M (map f2r fs) ltac:(rewrite map_length; exact Hl) ltac:(rewrite map_length; exact Ht) HM
              ltac:(rewrite map_length; exact He) (f2r_Din M fs Hb)) as [s_fl [s_ex [v_fl [Hr [Hex [Hv [Hvx HE]]]]]]].
  rewrite crun_wrolling_B3, E2 in Hr. inversion Hr; subst s_fl. rewrite map_length in HE.
  unfold wr_sfin in Hs. apply andb_true_iff in Hs. destruct Hs as [_ Fs].
  destruct (f_ofnat_exact (length fs) Ht53) as [Fn En].
  set (v_f := PrimFloat.div (wr_s s) (f_ofnat (length fs))).
  assert (Ev : @wr_variance float FOps s = Ok v_f).
  { unfold wr_variance. rewrite Hn. destruct (Nat.ltb_spec 1 (length fs)) as [_|H]; [reflexivity | lia]. }
  assert (Fv : ffinite v_f = true).
  { apply prim_div_ge1_fin; [exact Fs | exact Fn|]. rewrite En, Rabs_right by (apply Rle_ge, pos_INR).
    change 1 with (INR 1). apply le_INR. lia. }
  assert (Ev' : @wr_variance R B64Ops3 (wr_map f2r s) = Ok (f2r v_f)).
  { assert (HN : (1 <= length fs)%nat -> nat53 (length fs)) by (intros _; exact Ht53).
    destruct (wr_variance_sim prim_arith_sim3 (length fs) s v_f HN Hn Ev Fv) as [[_ H]|[_ H]]; exact H. }
  change (@wr_variance R B64Ops (wr_map f2r s)) with (@wr_variance R B64Ops3 (wr_map f2r s)) in Hv.
  rewrite Ev' in Hv. inversion Hv; subst v_fl.
  exists s, v_f, s_ex. repeat split; assumption.
Qed.

Lemma Forall_snd_abs M (fs : list float) : Forall (fun x => ffinite x = true /\ Rabs (f2r x) <= M) fs ->
  Forall (fun x => Rabs (f2r x) <= M) fs.
Proof. apply Forall_impl. intros x [_ H]; exact H. Qed.

(** the sum of squares of WelfordRolling at f64, no executable hypothesis *)
Theorem wr_s_prim_drift_bounded M fs : (Z.of_nat (length fs) < 2 ^ 50)%Z -> 0 <= M ->
  INR (length fs) * b64_eta <= M / 8 ->
  Forall (fun x => ffinite x = true /\ Rabs (f2r x) <= M) fs ->
  (4 * INR (length fs) + 32) * (M * M) <= bpow radix2 1023 ->
  exists s_f s_ex,
    crun (@wrolling_core float FOps) fs = Ok s_f /\ ffinite (wr_s s_f) = true /\
    crun (@wrolling_core R ROps) (map f2r fs) = Ok s_ex /\
    wr_s s_ex = @spec_rdev R ROps (map f2r fs) /\
    Rabs (f2r (wr_s s_f) - wr_s s_ex)
    <= (4 * INR (length fs) + 90) * INR (length fs) * (b64_u * (M * M))
       + (5 * INR (length fs) * M + 2) * INR (length fs) * b64_eta.
Proof.
  intros Ht HM He HD HB.
  exact (wr_s_prim_drift_state M fs Ht HM He (Forall_snd_abs M fs HD) (wr_all_finite_of_bound M fs Ht HM He HD HB)).
Qed.

(** [variance()] of WelfordRolling at f64, no executable hypothesis: linear drift, finite answer *)
Theorem wr_var_prim_drift_bounded M fs : (2 <= length fs)%nat -> (Z.of_nat (length fs) < 2 ^ 50)%Z -> 0 <= M ->
  INR (length fs) * b64_eta <= M / 8 ->
  Forall (fun x => ffinite x = true /\ Rabs (f2r x) <= M) fs ->
  (4 * INR (length fs) + 32) * (M * M) <= bpow radix2 1023 ->
  exists s_f v_f s_ex,
    crun (@wrolling_core float FOps) fs = Ok s_f /\
    @wr_variance float FOps s_f = Ok v_f /\ ffinite v_f = true /\
    crun (@wrolling_core R ROps) (map f2r fs) = Ok s_ex /\
    @wr_variance R ROps s_ex = Ok (@spec_rvar R ROps (map f2r fs)) /\
    Rabs (f2r v_f - @spec_rvar R ROps (map f2r fs))
    <= ((4 * INR (length fs) + 90) * (b64_u * (M * M)) + (5 * INR (length fs) * M + 2) * b64_eta) * (1 + b64_u)
       + b64_u * (M * M) + b64_eta.
Proof.
  intros Hl Ht HM He HD HB.
  exact (wr_var_prim_drift_state M fs Hl Ht HM He (Forall_snd_abs M fs HD) (wr_all_finite_of_bound M fs Ht HM He HD HB)).
Qed.

(** hypotheses are satisfiable *)
Example wr_bounded_ex : exists s_f v_f s_ex,
  crun (@wrolling_core float FOps) stream12 = Ok s_f /\
  @wr_variance float FOps s_f = Ok v_f /\ ffinite v_f = true /\
  crun (@wrolling_core R ROps) (map f2r stream12) = Ok s_ex /\
  @wr_variance R ROps s_ex = Ok (@spec_rvar R ROps (map f2r stream12)) /\
  Rabs (f2r v_f - @spec_rvar R ROps (map f2r stream12))
  <= ((4 * INR 12 + 90) * (b64_u * (128 * 128)) + (5 * INR 12 * 128 + 2) * b64_eta) * (1 + b64_u)
     + b64_u * (128 * 128) + b64_eta.
Proof.
  apply (wr_var_prim_drift_bounded 128 stream12); [cbn; lia | reflexivity | lra | | exact stream12_fin_bounded |].
  - pose proof b64_eta_tiny. replace (INR (length stream12)) with 12 by (cbn; lra). lra.
  - replace (INR (length stream12)) with 12 by (cbn; lra).
    apply Rle_trans with (bpow radix2 21); [cbn; lra | apply bpow_le; lia].
Qed.

Print Assumptions wr_all_finite_of_bound.
Print Assumptions wr_s_prim_drift_bounded.
Print Assumptions wr_var_prim_drift_bounded.
