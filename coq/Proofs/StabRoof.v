(** C09 for RoofingFilter (n >= 2, m >= 1): a high-pass with the double real pole r = 1 - alpha1,
    |r| < 1 (r is negative for n = 2), followed by a SuperSmoother(m).
    - [roofing_pole_lt1]: |1 - alpha1| < 1;
    - the homogeneous high-pass solution explicitly: y_k = r^k y_0 + k r^(k-1) (y_1 - r y_0);
    - BIBO with explicit gain;
    - [roofing_dc_decays]: after any prefix, a constant tail drives the output to 0 (C10), hence
      (c = 0, linearity) fading memory in the epsilon form. *)
From Coq Require Import List Arith Lia ZArith Reals Lra.
From SF Require Import Res Scalar View Models Spec Core SpecLin SpecStab.
From SF.Proofs Require Import Window RBase LinBase LinSS LinLinear LinDC LinConv StabBase StabSS.
Import ListNotations.
Open Scope R_scope.
Local Existing Instance ROps.

(** * the pole *)
Lemma hpb_alpha_R n : (2 <= n)%nat ->
  @hpb_alpha R ROps n = (cos (ssb_theta n) + sin (ssb_theta n) - 1) / cos (ssb_theta n).
Proof.
  intros Hn. unfold hpb_alpha. cbv zeta. unfold scosd, ssind. cbn [scos ssin ROps].
  rewrite sdivd_R by (apply cos_theta_neq; exact Hn). reflexivity.
Qed.

Lemma stab_hp_pole_R n : @stab_hp_pole R ROps n = 1 - hpb_alpha n.
Proof. reflexivity. Qed.

Lemma roofing_pole_formula n : (2 <= n)%nat ->
  1 - @hpb_alpha R ROps n = (1 - sin (ssb_theta n)) / cos (ssb_theta n).
Proof. intros Hn. rewrite hpb_alpha_R by exact Hn. field. apply cos_theta_neq. exact Hn. Qed.

(** for n >= 3 the pole is in [0,1) *)
Lemma roofing_pole_nonneg n : (3 <= n)%nat -> 0 <= 1 - @hpb_alpha R ROps n < 1.
Proof.
  intros Hn. rewrite roofing_pole_formula by lia. rewrite ssb_theta_R by lia.
  destruct (theta_bounds n Hn) as [H0 H1]. pose proof PI2_3_2 as P32.
  set (th := 44422 / 10000 / INR n) in *. clearbody th.
  assert (Hc : 0 < cos th) by (apply cos_gt_0; lra).
  assert (Hs : 0 < sin th) by (apply sin_gt_0; lra).
  pose proof (SIN_bound th) as [_ Hs1]. pose proof (sin2_cos2 th) as H2. unfold Rsqr in H2.
  set (s := sin th) in *. set (c := cos th) in *. clearbody s c.
  assert (Hsc : 1 < s + c).
  { assert (Hpos : 0 < s * c) by (apply Rmult_lt_0_compat; assumption).
    destruct (Rlt_le_dec 1 (s + c)) as [H|H]; [exact H|]. exfalso. nra. }
  split.
  - apply Rle_mult_inv_pos; lra.
  - apply (Rmult_lt_reg_r c); [exact Hc|]. replace ((1 - s) / c * c) with (1 - s) by (field; lra). lra.
Qed.

(** for n = 2 the pole is in (-1,0] *)
Lemma roofing_pole_n2 : -1 < 1 - @hpb_alpha R ROps 2 <= 0.
Proof.
  rewrite roofing_pole_formula by lia. rewrite ssb_theta_R by lia.
  replace (INR 2) with 2 by (cbn; lra).
  pose proof PI_4 as P4. pose proof PI2_3_2 as P32.
  set (th := 44422 / 10000 / 2). assert (Hth : PI / 2 < th < PI) by (unfold th; lra). clearbody th.
  assert (Hc : cos th < 0) by (apply cos_lt_0; lra).
  assert (Hs : 0 < sin th) by (apply sin_gt_0; lra).
  pose proof (SIN_bound th) as [_ Hs1]. pose proof (sin2_cos2 th) as H2. unfold Rsqr in H2.
  set (s := sin th) in *. set (c := cos th) in *. clearbody s c.
  assert (Hsc : 1 < s - c).
  { assert (Hpos : 0 < s * (- c)) by (apply Rmult_lt_0_compat; lra).
    destruct (Rlt_le_dec 1 (s - c)) as [H|H]; [exact H|]. exfalso. nra. }
  assert (E : (1 - s) / c = - ((1 - s) / (- c))) by (field; lra). rewrite E.
  assert (Hq : 0 <= (1 - s) / (- c) < 1).
  { split; [apply Rle_mult_inv_pos; lra|].
    apply (Rmult_lt_reg_r (- c)); [lra|]. replace ((1 - s) / - c * - c) with (1 - s) by (field; lra). lra. }
  lra.
Qed.

(** C09 (RoofingFilter): the high-pass double pole is inside the unit circle for every n >= 2 *)
Theorem roofing_pole_lt1 n : (2 <= n)%nat -> Rabs (1 - @hpb_alpha R ROps n) < 1.
Proof.
  intros Hn. destruct (Nat.eq_dec n 2) as [E|E].
  - subst n. pose proof roofing_pole_n2. apply Rabs_def1; lra.
  - pose proof (roofing_pole_nonneg n ltac:(lia)). apply Rabs_def1; lra.
Qed.

(** * the homogeneous double-pole recursion, explicitly (any real r) *)
Lemma double_pole_explicit (y : nat -> R) r :
  (forall m, y (S (S m)) = 2 * r * y (S m) - r * r * y m) ->
  forall m, y m = r ^ m * y 0%nat + INR m * r ^ (m - 1) * (y 1%nat - r * y 0%nat).
Proof.
  intros Hrec.
  assert (H : forall m, y m = r ^ m * y 0%nat + INR m * r ^ (m - 1) * (y 1%nat - r * y 0%nat) /\
                        y (S m) = r ^ S m * y 0%nat + INR (S m) * r ^ (S m - 1) * (y 1%nat - r * y 0%nat)).
  { induction m as [|m [IH1 IH2]].
    - cbn [pow Nat.sub INR]. split; ring.
    - split; [exact IH2|]. rewrite Hrec, IH2, IH1.
      replace (S (S m) - 1)%nat with (S m) by lia. replace (S m - 1)%nat with m by lia.
      destruct m as [|m].
      + cbn [pow Nat.sub INR]. ring.
      + replace (S m - 1)%nat with m by lia. rewrite !S_INR. cbn [pow]. ring. }
  intros m. apply H.
Qed.

Lemma double_pole_bound (y : nat -> R) r : Rabs r <= 1 ->
  (forall m, y (S (S m)) = 2 * r * y (S m) - r * r * y m) ->
  forall m, Rabs (y m) <= (Rabs (y 0%nat) + INR m * Rabs (y 1%nat - r * y 0%nat)) * Rabs r ^ (m - 1).
Proof.
  intros Hr Hrec m. rewrite (double_pole_explicit y r Hrec m).
  set (z0 := y 1%nat - r * y 0%nat). pose proof (Rabs_pos r) as Hr0.
  eapply Rle_trans; [apply Rabs_triang|]. rewrite !Rabs_mult, <- !RPow_abs, (Rabs_pos_eq (INR m)) by apply pos_INR.
  pose proof (Rabs_pos (y 0%nat)) as Hy. pose proof (Rabs_pos z0) as Hz. pose proof (pos_INR m) as Hm.
  assert (Hp : Rabs r ^ m <= Rabs r ^ (m - 1)) by (apply pow_anti; [lra | lia]).
  assert (Hp0 : 0 <= Rabs r ^ (m - 1)) by (apply pow_le; lra).
  assert (Rabs r ^ m * Rabs (y 0%nat) <= Rabs r ^ (m - 1) * Rabs (y 0%nat)) by (apply Rmult_le_compat_r; lra).
  nra.
Qed.

(** (A + k B) q^(k-1) -> 0 *)
Lemma double_pole_zero (y : nat -> R) r : Rabs r < 1 ->
  (forall m, y (S (S m)) = 2 * r * y (S m) - r * r * y m) ->
  forall eps, 0 < eps -> exists M, forall m, (M <= m)%nat -> Rabs (y m) < eps.
Proof.
  intros Hr Hrec eps He.
  assert (Hq : 0 <= Rabs r < 1) by (split; [apply Rabs_pos | exact Hr]).
  destruct (@poly_geo_zero_pred (Rabs r) (Rabs (y 0%nat)) (Rabs (y 1%nat - r * y 0%nat))
              Hq (Rabs_pos _) (Rabs_pos _) eps He) as [M HM].
  exists M. intros m Hm. eapply Rle_lt_trans; [apply (@double_pole_bound y r); [lra | exact Hrec]|]. apply HM. exact Hm.
Qed.

(** * causality of the high-pass in the appended part *)
Lemma hpb_upto_app_gen al (h w : list R) k : (k <= length h)%nat -> hpb_upto al (h ++ w) k = hpb_upto al h k.
Proof.
  intros Hk. induction w as [|v w IH] using rev_ind; [rewrite app_nil_r; reflexivity|].
  rewrite app_assoc, hpb_upto_app by (rewrite app_length; lia). exact IH.
Qed.

Lemma ssb_upto_app_gen c1 b1 c3 (h w : list R) k : (k <= length h)%nat ->
  ssb_upto c1 b1 c3 (h ++ w) k = ssb_upto c1 b1 c3 h k.
Proof.
  intros Hk. induction w as [|v w IH] using rev_ind; [rewrite app_nil_r; reflexivity|].
  rewrite app_assoc, ssb_upto_app by (rewrite app_length; lia). exact IH.
Qed.

Lemma hpb_snd_S al (h : list R) t : snd (hpb_upto al h (S t)) = fst (hpb_upto al h t).
Proof. reflexivity. Qed.

(** * BIBO of the high-pass *)
Section HPBibo.
Variables (al U : R) (h : list R).
Let r := 1 - al.
Let rho := Rabs r.
Let F := (1 - al / 2) * (1 - al / 2) * (4 * U).
Hypothesis Hrho : rho < 1.
Hypothesis HU : 0 <= U.
Hypothesis Hb : bounded U h.

Lemma hp_forcing_bound t :
  Rabs ((1 - al / 2) * (1 - al / 2) * (lagx h t 0 - 2 * lagx h t 1 + lagx h t 2)) <= F.
Proof.
  pose proof (bounded_lagx U h t 0 HU Hb) as H0. pose proof (bounded_lagx U h t 1 HU Hb) as H1.
  pose proof (bounded_lagx U h t 2 HU Hb) as H2.
  rewrite Rabs_mult. rewrite (Rabs_pos_eq ((1 - al / 2) * (1 - al / 2)))
    by (pose proof (Rle_0_sqr (1 - al / 2)) as X; unfold Rsqr in X; exact X).
  unfold F. apply Rmult_le_compat_l; [pose proof (Rle_0_sqr (1 - al / 2)) as X; unfold Rsqr in X; exact X|].
  apply Rabs_le_between in H0. apply Rabs_le_between in H1. apply Rabs_le_between in H2.
  apply Rabs_le. lra.
Qed.

Lemma hp_state_bound k :
  let p := hpb_upto al h k in
  Rabs (fst p - r * snd p) <= F / (1 - rho) /\ Rabs (fst p) <= F / (1 - rho) / (1 - rho)
  /\ Rabs (snd p) <= F / (1 - rho) / (1 - rho).
Proof.
  assert (HF : 0 <= F).
  { unfold F. apply Rmult_le_pos; [pose proof (Rle_0_sqr (1 - al / 2)) as X; unfold Rsqr in X; exact X | lra]. }
  assert (Hr0 : 0 <= rho) by apply Rabs_pos.
  set (Fz := F / (1 - rho)). set (Fy := Fz / (1 - rho)).
  assert (HFz : 0 <= Fz) by (apply Rle_mult_inv_pos; lra).
  assert (HFy : 0 <= Fy) by (apply Rle_mult_inv_pos; lra).
  assert (Ez : F = Fz * (1 - rho)) by (unfold Fz; field; lra).
  assert (Ey : Fz = Fy * (1 - rho)) by (unfold Fy; field; lra).
  induction k as [|k IH]; cbv zeta in *.
  - cbn [hpb_upto fst snd]. change (@s0 R ROps) with 0. rewrite Rmult_0_r, Rminus_0_r, Rabs_R0. lra.
  - destruct IH as (Iz & I1 & I0). rewrite hpb_upto_S. cbn [fst snd]. rewrite hpb_eq_R.
    set (y1 := fst (hpb_upto al h k)) in *. set (y0 := snd (hpb_upto al h k)) in *.
    pose proof (hp_forcing_bound k) as Hf.
    set (f := (1 - al / 2) * (1 - al / 2) * (lagx h k 0 - 2 * lagx h k 1 + lagx h k 2)) in *.
    fold r. clearbody f y1 y0.
    assert (Hz : Rabs (f + 2 * r * y1 - r * r * y0 - r * y1) <= Fz).
    { replace (f + 2 * r * y1 - r * r * y0 - r * y1) with (f + r * (y1 - r * y0)) by ring.
      eapply Rle_trans; [apply Rabs_triang|]. rewrite Rabs_mult. fold rho.
      assert (rho * Rabs (y1 - r * y0) <= rho * Fz) by (apply Rmult_le_compat_l; lra). lra. }
    split; [exact Hz|]. split; [|exact I1].
    replace (f + 2 * r * y1 - r * r * y0) with (r * y1 + (f + 2 * r * y1 - r * r * y0 - r * y1)) by ring.
    eapply Rle_trans; [apply Rabs_triang|]. rewrite Rabs_mult. fold rho.
    assert (rho * Rabs y1 <= rho * Fy) by (apply Rmult_le_compat_l; lra). fold Fz Fy in I1 |- *. lra.
Qed.
End HPBibo.

(** gain of the high-pass: 4 (1 - alpha1/2)^2 / (1 - |r|)^2 *)
Definition hp_gain (n : nat) : R :=
  let al := @hpb_alpha R ROps n in
  4 * ((1 - al / 2) * (1 - al / 2)) / ((1 - Rabs (1 - al)) * (1 - Rabs (1 - al))).

Lemma hp_bibo n U (h : list R) t : (2 <= n)%nat -> 0 <= U -> bounded U h ->
  Rabs (hpb_at (hpb_alpha n) h t) <= hp_gain n * U.
Proof.
  intros Hn HU Hb. pose proof (roofing_pole_lt1 n Hn) as Hr.
  destruct (@hp_state_bound (hpb_alpha n) U h Hr HU Hb (S t)) as (_ & H & _). unfold hpb_at.
  eapply Rle_trans; [exact H|]. unfold hp_gain. cbv zeta. apply Req_le. field. lra.
Qed.

Definition roofing_gain (n m : nat) : R := ss_gain m * hp_gain n.

Lemma hp_gain_nonneg n : (2 <= n)%nat -> 0 <= hp_gain n.
Proof.
  intros Hn. pose proof (roofing_pole_lt1 n Hn) as Hr. unfold hp_gain. cbv zeta.
  apply Rle_mult_inv_pos.
  - pose proof (Rle_0_sqr (1 - hpb_alpha n / 2)) as X. unfold Rsqr in X. lra.
  - apply Rmult_lt_0_compat; lra.
Qed.

Lemma roofing_out_some n m (h : list R) o : (2 <= n)%nat -> (1 <= m)%nat ->
  cout (@roofing_core R ROps n m) h = Ok (Some o) ->
  let fed := rfb_fed n (hpb_alpha n) h in
  (m <= length fed)%nat /\ o = fst (ssb_upto (ssb_c1 m) (ssb_b1 m) (ssb_c3 m) fed (length fed)).
Proof.
  intros Hn Hm. rewrite roofing_closed_form by assumption. unfold spec_roofing, spec_ss, ssb_out. cbv zeta.
  destruct (Nat.ltb_spec (length (rfb_fed n (hpb_alpha n) h)) m) as [Hlt|Hge]; [discriminate|].
  intros Ho. injection Ho as Ho. split; [assumption | symmetry; exact Ho].
Qed.

(** C09 (RoofingFilter): BIBO with gain K_ss(m) * 4 (1 - alpha1/2)^2 / (1 - |1 - alpha1|)^2 *)
Theorem roofing_bibo n m : (2 <= n)%nat -> (1 <= m)%nat -> bibo (@roofing_core R ROps n m) (roofing_gain n m).
Proof.
  intros Hn Hm U vs Hb o Ho. destruct (roofing_out_some n m vs o Hn Hm Ho) as [Hl E]. cbv zeta in *.
  destruct vs as [|x vs'].
  { rewrite rfb_fed_short in Hl by (cbn; lia). cbn in Hl. lia. }
  pose proof (bounded_nonneg U x vs' Hb) as HU. set (h := x :: vs') in *.
  assert (Hfed : bounded (hp_gain n * U) (rfb_fed n (hpb_alpha n) h)).
  { unfold rfb_fed, bounded. apply Forall_forall. intros y Hy. apply in_map_iff in Hy.
    destruct Hy as [t [Et _]]. subst y. apply hp_bibo; assumption. }
  assert (HU' : 0 <= hp_gain n * U) by (apply Rmult_le_pos; [apply hp_gain_nonneg; exact Hn | exact HU]).
  pose proof (ss_first_of_norm m Hm _ _ (ss_norm_bound m Hm (hp_gain n * U) _ HU' Hfed
                (length (rfb_fed n (hpb_alpha n) h)))) as H.
  rewrite <- E in H. eapply Rle_trans; [exact H|]. unfold roofing_gain, ss_gain.
  pose proof (ss_a_range m Hm). pose proof (ss_S_pos m Hm). apply Req_le. field. lra.
Qed.

(** * a constant tail after any prefix *)
Section Tail.
Variables (n m : nat) (p : list R) (c : R).
Hypothesis Hn : (2 <= n)%nat.
Hypothesis Hm : (1 <= m)%nat.
Let al := @hpb_alpha R ROps n.
Let r := 1 - al.
Let L := length p.

(** hp_t, computed with a tail just long enough; it does not depend on the tail length *)
Definition hpY (t : nat) : R := hpb_at al (p ++ repeat c (S t)) t.

Lemma hpb_upto_tail k k' j : (j <= L + k)%nat -> (k <= k')%nat ->
  hpb_upto al (p ++ repeat c k') j = hpb_upto al (p ++ repeat c k) j.
Proof.
  intros Hj Hk. replace k' with (k + (k' - k))%nat by lia. rewrite repeat_app, app_assoc.
  apply hpb_upto_app_gen. rewrite app_length, repeat_length. exact Hj.
Qed.

Lemma hpY_eq k t : (S t <= L + k)%nat -> hpb_at al (p ++ repeat c k) t = hpY t.
Proof.
  intros H. unfold hpY, hpb_at. destruct (Nat.le_ge_cases k (S t)) as [Hk|Hk].
  - symmetry. rewrite (hpb_upto_tail k (S t) (S t)) by lia. reflexivity.
  - rewrite (hpb_upto_tail (S t) k (S t)) by lia. reflexivity.
Qed.

Lemma lagx_in_tail k t j : (L + j <= t)%nat -> (t < L + k)%nat -> lagx (p ++ repeat c k) t j = c.
Proof.
  intros H1 H2. rewrite lagx_ge by lia. rewrite app_nth2 by (fold L; lia). apply nth_repeat_lt. fold L. lia.
Qed.

(** from the third tail value on, hp follows the homogeneous recursion *)
Lemma hpY_rec t : (L + 2 <= S (S t))%nat -> hpY (S (S t)) = 2 * r * hpY (S t) - r * r * hpY t.
Proof.
  intros Ht. set (k := S (S (S t))). rewrite <- !(hpY_eq k) by (unfold k; lia). unfold hpb_at.
  rewrite (@hp_dc_homogeneous al (p ++ repeat c k) (S (S t)) c)
    by (intros j Hj; apply lagx_in_tail; unfold k; lia).
  rewrite hpb_snd_S. reflexivity.
Qed.

(** C09 (RoofingFilter high-pass): explicit decay on a constant tail,
    |hp_{L+j}| <= (|hp_L| + j |hp_{L+1} - r hp_L|) |r|^(j-1)   (L the prefix length) *)
Theorem hp_tail_explicit j :
  Rabs (hpY (L + j)) <= (Rabs (hpY L) + INR j * Rabs (hpY (L + 1) - r * hpY L)) * Rabs r ^ (j - 1).
Proof.
  pose proof (roofing_pole_lt1 n Hn) as Hr. fold al r in Hr.
  pose proof (@double_pole_bound (fun i => hpY (L + i)) r ltac:(lra)) as H. cbv beta in H.
  rewrite Nat.add_0_r in H. apply H. intros i.
  replace (L + S (S i))%nat with (S (S (L + i))) by lia. replace (L + S i)%nat with (S (L + i)) by lia.
  apply hpY_rec. lia.
Qed.

Lemma hpY_zero : forall eps, 0 < eps -> exists M, forall t, (M <= t)%nat -> Rabs (hpY t) < eps.
Proof.
  intros eps He. pose proof (roofing_pole_lt1 n Hn) as Hr. fold al r in Hr.
  destruct (@double_pole_zero (fun i => hpY (L + i)) r Hr) with (eps := eps) as [M HM]; [|exact He|].
  - intros i. replace (L + S (S i))%nat with (S (S (L + i))) by lia. replace (L + S i)%nat with (S (L + i)) by lia.
    apply hpY_rec. lia.
  - exists (L + M)%nat. intros t Ht. replace t with (L + (t - L))%nat by lia. apply HM. lia.
Qed.

(** what the inner smoother has received *)
Definition fedG (T : nat) : list R := map hpY (seq (S n) T).

Lemma fedG_length T : length (fedG T) = T.
Proof. unfold fedG. rewrite map_length, seq_length. reflexivity. Qed.

Lemma fedG_S T : fedG (S T) = fedG T ++ [hpY (S n + T)].
Proof. unfold fedG. rewrite seq_S, map_app. reflexivity. Qed.

Lemma fedG_nth T i : (i < T)%nat -> nth i (fedG T) 0 = hpY (S n + i).
Proof.
  intros H. unfold fedG. rewrite (nth_indep _ 0 (hpY 0)) by (rewrite map_length, seq_length; exact H).
  rewrite map_nth, seq_nth by exact H. reflexivity.
Qed.

Lemma rfb_fed_tail k : rfb_fed n al (p ++ repeat c k) = fedG (L + k - S n).
Proof.
  unfold rfb_fed, fedG. rewrite app_length, repeat_length. fold L.
  apply map_ext_in. intros t Ht. apply in_seq in Ht. apply hpY_eq. lia.
Qed.

Let c1 := @ssb_c1 R ROps m.
Let b1 := @ssb_b1 R ROps m.
Let c3 := @ssb_c3 R ROps m.

Definition ssSt (t : nat) : R * R := ssb_upto c1 b1 c3 (fedG t) t.

Lemma ssb_upto_fedG T t : (t <= T)%nat -> ssb_upto c1 b1 c3 (fedG T) t = ssb_upto c1 b1 c3 (fedG t) t.
Proof.
  intros H. induction T as [|T IH].
  - replace t with 0%nat by lia. reflexivity.
  - destruct (Nat.eq_dec t (S T)) as [E|E]; [subst; reflexivity|].
    rewrite fedG_S, ssb_upto_app by (rewrite fedG_length; lia). apply IH. lia.
Qed.

Definition ssW (t : nat) : R := Rabs (c1 * (lagx (fedG (S t)) t 0 + lagx (fedG (S t)) t 1) / 2).

Lemma ssSt_step t : ssN m (ssSt (S t)) <= ssb_a1 m * ssN m (ssSt t) + ssW t.
Proof.
  unfold ssSt, ssW. pose proof (ssN_step m Hm (fedG (S t)) t) as H. cbv zeta in H. fold c1 b1 c3 in H.
  rewrite (ssb_upto_fedG (S t) t) in H by lia. exact H.
Qed.

Lemma ssW_zero : forall eps, 0 < eps -> exists M, forall t, (M <= t)%nat -> ssW t < eps.
Proof.
  intros eps He. pose proof (Rabs_pos c1) as Hc.
  destruct (hpY_zero (eps / (Rabs c1 + 1))) as [M HM]; [apply Rdiv_lt_0_compat; lra|].
  exists (S M). intros t Ht. unfold ssW.
  rewrite lagx_0, (lagx_ge _ t 1) by lia. rewrite !fedG_nth by lia.
  pose proof (HM (S n + t)%nat ltac:(lia)) as H0. pose proof (HM (S n + (t - 1))%nat ltac:(lia)) as H1.
  set (e := eps / (Rabs c1 + 1)) in *. assert (Ee : eps = e * (Rabs c1 + 1)) by (unfold e; field; lra).
  assert (He0 : 0 < e) by (unfold e; apply Rdiv_lt_0_compat; lra).
  unfold Rdiv. rewrite Rmult_assoc, Rabs_mult.
  assert (Hs : Rabs ((hpY (S n + t) + hpY (S n + (t - 1))) * / 2) < e).
  { apply Rabs_def2 in H0. apply Rabs_def2 in H1. apply Rabs_def1; lra. }
  clearbody e. pose proof (Rabs_pos ((hpY (S n + t) + hpY (S n + (t - 1))) * / 2)). nra.
Qed.

Lemma ssSt_zero : forall eps, 0 < eps -> exists M, forall t, (M <= t)%nat -> ssN m (ssSt t) < eps.
Proof.
  apply (@driven_decay (fun t => ssN m (ssSt t)) ssW (ssb_a1 m)).
  - pose proof (ss_a_range m Hm). lra.
  - intros t. apply ssN_nonneg.
  - apply ssSt_step.
  - apply ssW_zero.
Qed.

(** C10/C09 (RoofingFilter): after any prefix, a constant tail drives the output to 0 *)
Theorem roofing_dc_decays : forall eps, 0 < eps -> exists M, forall k, (M <= k)%nat ->
  exists o, cout (@roofing_core R ROps n m) (p ++ repeat c k) = Ok (Some o) /\ Rabs o < eps.
Proof.
  intros eps He. pose proof (ss_S_pos m Hm) as HS.
  destruct (ssSt_zero (eps * Rabs (sin (ssb_theta m)))) as [M HM]; [apply Rmult_lt_0_compat; assumption|].
  exists (M + m + S n)%nat. intros k Hk.
  rewrite roofing_closed_form by assumption. unfold spec_roofing, spec_ss, ssb_out. cbv zeta.
  fold al. rewrite rfb_fed_tail, fedG_length.
  destruct (Nat.ltb_spec (L + k - S n) m) as [Hlt|Hge]; [lia|]. eexists; split; [reflexivity|].
  fold c1 b1 c3. fold (ssSt (L + k - S n)).
  pose proof (HM (L + k - S n)%nat ltac:(lia)) as H.
  pose proof (ssN_first m (ssSt (L + k - S n))) as H1.
  set (o := fst (ssSt (L + k - S n))) in *. clearbody o.
  apply (Rmult_lt_reg_l (Rabs (sin (ssb_theta m)))); [exact HS|]. lra.
Qed.
End Tail.

(** C09 (RoofingFilter): the zero-input response decays; fading memory (epsilon form) *)
Theorem roofing_zero_input_decays n m : (2 <= n)%nat -> (1 <= m)%nat ->
  zero_input_decays (@roofing_core R ROps n m).
Proof.
  intros Hn Hm d eps He. destruct (roofing_dc_decays n m d 0 Hn Hm eps He) as [M HM].
  exists M. intros k Hk o Ho. destruct (HM k Hk) as [o' [Ho' Hb]]. rewrite Ho in Ho'.
  injection Ho' as E. subst o'. exact Hb.
Qed.

Theorem roofing_fading_eps n m : (2 <= n)%nat -> (1 <= m)%nat -> fading_eps (@roofing_core R ROps n m).
Proof.
  intros Hn Hm. apply fading_eps_of_zero_input; [apply roofing_linear | apply roofing_zero_input_decays]; assumption.
Qed.

(** the envelope of SpecStab.v at [R] *)
Lemma spow_R q k : @spow R ROps q k = q ^ k.
Proof. induction k as [|k IH]; [reflexivity|]. cbn [spow pow]. rewrite IH. reflexivity. Qed.
Lemma stab_dp_env_R q a b k : @stab_dp_env R ROps q a b k = (a + INR k * b) * q ^ (k - 1).
Proof. unfold stab_dp_env. rewrite spow_R. reflexivity. Qed.
