(** C15/C08 for cog, cti, net, myrsi, alma, rsi. *)
From Coq Require Import List Arith Lia Reals Lra ZArith Bool.
From SF Require Import Res Scalar View Models Spec Core.
From SF.Proofs Require Import Window RBase SafeBase SafeTac.
Import ListNotations.
Open Scope R_scope.

(** model booleans at the R instance *)
Lemma sgtb_R a b : @sgtb R ROps a b = Rltb b a. Proof. reflexivity. Qed.
Lemma sltb_R a b : @sltb R ROps a b = Rltb a b. Proof. reflexivity. Qed.
Lemma sneb_R a b : @sneb R ROps a b = negb (Reqb a b). Proof. reflexivity. Qed.
Lemma seqb_R a b : @seqb R ROps a b = Reqb a b. Proof. reflexivity. Qed.
Lemma s0_R : @s0 R ROps = 0. Proof. reflexivity. Qed.
Lemma s1_R : @s1 R ROps = 1. Proof. reflexivity. Qed.

(* ---------------------------------------------------------------- cog *)
Definition cog_I (n k : nat) (s : list R * option R) : Prop :=
  (k = 0%nat -> snd s = None) /\ ((1 <= k)%nat -> snd s <> None).

Lemma cog_step_some n s v : exists q y, @cog_step R ROps n s v = Ok (q, Some y).
Proof.
  unfold cog_step. cbv zeta.
  destruct (cog_sums (evict n (fst s) ++ [v]) (length (evict n (fst s) ++ [v])) s0 s0) as [num den] eqn:E.
  rewrite sneb_R. destruct (Reqb den s0) eqn:Ed; cbn [negb].
  - eauto.
  - apply Reqb_false in Ed. rewrite s0_R in Ed. rewrite sdiv_R_ok by exact Ed. cbn [bind].
    rewrite sdiv_R_ok by apply s2_neq0. cbn [bind]. eauto.
Qed.

Lemma cog_safe n : Safe (@cog_core R ROps n) (fun _ => True) (cog_I n).
Proof.
  constructor.
  - eexists. split; [reflexivity|]. unfold cog_I. cbn [snd]. split; [reflexivity|lia].
  - intros k s v _ _. cbn [cstep cog_core]. destruct (cog_step_some n s v) as [q [y Hy]]. rewrite Hy.
    eexists. split; [reflexivity|]. unfold cog_I. cbn [snd]. split; [lia|discriminate].
  - intros k s _. cbn [clast cog_core]. eauto.
Qed.

Lemma cog_ready n : ReadyAt (@cog_core R ROps n) (cog_I n) 1.
Proof.
  intros k s [H0 H1]. cbn [clast cog_core]. split; intros Hk.
  - rewrite H0 by lia. reflexivity.
  - destruct (snd s) as [y|] eqn:E; [eauto|]. exfalso. apply (H1 Hk). reflexivity.
Qed.

(** C15 Cog (every window length, including 0) *)
Theorem safe_cog n vs :
  exists s o, crun (@cog_core R ROps n) vs = Ok s /\ clast (@cog_core R ROps n) s = Ok o.
Proof. apply (safe_run (cog_safe n)). apply trueD. Qed.
(** C08 Cog *)
Theorem ready_mono_cog n :
  CReadyMono (@cog_core R ROps n) (fun _ => True) (InvOf (@cog_core R ROps n) (cog_I n)).
Proof. exact (ready_at_mono (cog_safe n) (cog_ready n)). Qed.
Theorem warmup_cog n vs :
  (cout (@cog_core R ROps n) vs = Ok None <-> (length vs < 1)%nat).
Proof. apply (warmup_none (cog_safe n) (cog_ready n)). apply trueD. Qed.

(* ---------------------------------------------------------------- cti *)
Definition cti_I (n k : nat) (q : list R) : Prop := length q = Nat.min n k.

Lemma cti_last_some n q : exists y, @cti_last R ROps n q = Ok (Some y).
Proof.
  unfold cti_last. cbv zeta.
  generalize (@cti_loop R ROps q 0 {| c_sx := s0; c_sy := s0; c_sxx := s0; c_sxy := s0; c_syy := s0 |}).
  intros a. rewrite !sgtb_R.
  set (vx := ssub (smul (sofnat (length q)) (c_sxx a)) (ssq (c_sx a))).
  set (vy := ssub (smul (sofnat (length q)) (c_syy a)) (ssq (c_sy a))).
  clearbody vx vy.
  destruct (Rltb s0 vx) eqn:Ex; cbn [andb]; [|eauto].
  destruct (Rltb s0 vy) eqn:Ey; [|eauto].
  apply Rltb_true in Ex. apply Rltb_true in Ey. rewrite s0_R in Ex, Ey.
  assert (Hp : 0 < vx * vy) by (apply Rmult_lt_0_compat; assumption).
  change (@smul R ROps vx vy) with (vx * vy).
  change (@ssqrt R ROps (vx * vy)) with (if Rlt_dec (vx * vy) 0 then @Err R Domain else Ok (sqrt (vx * vy))).
  destruct (Rlt_dec (vx * vy) 0) as [Hlt|_]; [lra|]. cbn [bind].
  rewrite sdiv_R_ok.
  - cbn [bind]. eauto.
  - pose proof (sqrt_lt_R0 _ Hp). lra.
Qed.

Lemma cti_safe n : (1 <= n)%nat -> Safe (@cti_core R ROps n) (fun _ => True) (cti_I n).
Proof.
  intros Hn. constructor.
  - eexists. split; [reflexivity|]. unfold cti_I. cbn. lia.
  - intros k q v Hi _. unfold cti_I in *. cbn [cstep cti_core]. unfold cti_step.
    destruct (Nat.leb_spec n (length q)) as [Hf|Hf].
    + destruct (full_nonempty n q Hn Hf) as [x [r Hq]]. rewrite Hq. cbn [pop_front bind].
      eexists. split; [reflexivity|]. rewrite Hq in Hi, Hf. rewrite app_length. cbn in *. lia.
    + cbn [bind]. eexists. split; [reflexivity|]. apply len_push_notfull; assumption.
  - intros k q _. cbn [clast cti_core]. destruct (cti_last_some n q) as [y Hy]. eauto.
Qed.

Lemma cti_ready n : ReadyAt (@cti_core R ROps n) (cti_I n) 0.
Proof.
  intros k q _. cbn [clast cti_core]. split; intros Hk; [lia|]. apply cti_last_some.
Qed.

(** C15 Cti *)
Theorem safe_cti n vs : (1 <= n)%nat ->
  exists s o, crun (@cti_core R ROps n) vs = Ok s /\ clast (@cti_core R ROps n) s = Ok o.
Proof. intros Hn. apply (safe_run (cti_safe n Hn)). apply trueD. Qed.
(** C08 Cti *)
Theorem ready_mono_cti n : (1 <= n)%nat ->
  CReadyMono (@cti_core R ROps n) (fun _ => True) (InvOf (@cti_core R ROps n) (cti_I n)).
Proof. intros Hn. exact (ready_at_mono (cti_safe n Hn) (cti_ready n)). Qed.
Theorem warmup_cti n vs : (1 <= n)%nat ->
  (cout (@cti_core R ROps n) vs = Ok None <-> (length vs < 0)%nat).
Proof. intros Hn. apply (warmup_none (cti_safe n Hn) (cti_ready n)). apply trueD. Qed.
(** n = 0 is a genuine panic of the model ([pop_front] on the empty queue) *)
Lemma safe_cti_0_refuted : exists e, crun (@cti_core R ROps 0) [0] = Err e.
Proof. eexists. reflexivity. Qed.

(* ---------------------------------------------------------------- net *)
(** the window bookkeeping holds for every [n]; the readiness part only makes sense for [2 <= n]
    (for [n < 2] the queue never holds two values and the answer stays [None]) *)
Definition net_I (n k : nat) (s : list R * option R) : Prop :=
  (length (fst s) <= k)%nat /\ ((k < 2)%nat -> snd s = None) /\
  ((2 <= n)%nat -> length (fst s) = Nat.min n k /\ ((2 <= k)%nat -> snd s <> None)) /\
  ((n < 2)%nat -> (length (fst s) <= 1)%nat /\ snd s = None).

Lemma INR_ge2 m : (2 <= m)%nat -> 2 <= INR m.
Proof. intros H. pose proof (le_INR 2 m H) as H2. assert (E : INR 2 = 2) by (cbn; lra). lra. Qed.

Lemma net_denom_neq0 m : (2 <= m)%nat -> @sofdec R ROps 5 1 * INR m * (INR m - 1) <> 0.
Proof.
  intros H. rewrite sofdec_5_1. pose proof (INR_ge2 m H) as H2.
  assert (0 < INR m * (INR m - 1)) by nra. lra.
Qed.

Lemma evict_len_le n (q : list R) : (length (evict n q) <= length q)%nat.
Proof. unfold evict. destruct (n <=? length q)%nat; [destruct q; cbn; lia | lia]. Qed.
Lemma evict_len_small n (q : list R) : (n < 2)%nat -> (length q <= 1)%nat -> length (evict n q) = 0%nat.
Proof.
  intros Hn Hq. unfold evict. destruct (Nat.leb_spec n (length q)) as [H|H].
  - destruct q as [|x [|y r]]; cbn in *; lia.
  - lia.
Qed.

Lemma net_step_ok n s v :
  exists o, @net_step R ROps n s v = Ok (evict n (fst s) ++ [v], o) /\
    ((length (evict n (fst s) ++ [v]) < 2)%nat -> o = snd s) /\
    ((2 <= length (evict n (fst s) ++ [v]))%nat -> o <> None).
Proof.
  unfold net_step. cbv zeta. set (q := evict n (fst s) ++ [v]).
  destruct (Nat.ltb_spec (length q) 2) as [H|H].
  - exists (snd s). split; [reflexivity|]. split; [reflexivity|lia].
  - change (@smul R ROps (@smul R ROps (sofdec 5 1) (sofnat (length q))) (@ssub R ROps (sofnat (length q)) s1))
      with (@sofdec R ROps 5 1 * INR (length q) * (INR (length q) - 1)).
    rewrite sdiv_R_ok by (apply net_denom_neq0; exact H). cbn [bind].
    eexists. split; [reflexivity|]. split; [lia|discriminate].
Qed.

Lemma net_safe n : Safe (@net_core R ROps n) (fun _ => True) (net_I n).
Proof.
  constructor.
  - eexists. split; [reflexivity|]. unfold net_I. cbn [fst snd length].
    split; [lia|]. split; [reflexivity|]. split; [intros _; split; [lia|lia] | intros _; split; [lia|reflexivity]].
  - intros k s v [Hle [Hlt [Hge Hsm]]] _. cbn [cstep net_core].
    destruct (net_step_ok n s v) as [o [Hs [Ho1 Ho2]]]. rewrite Hs.
    eexists. split; [reflexivity|]. unfold net_I. cbn [fst snd].
    pose proof (evict_len_le n (fst s)) as He.
    assert (Hl : length (evict n (fst s) ++ [v]) = S (length (evict n (fst s)))) by (rewrite app_length; cbn; lia).
    split; [lia|]. split; [|split].
    + intros Hk. rewrite Ho1 by lia. apply Hlt. lia.
    + intros Hn. destruct (Hge Hn) as [Hq Hs2].
      assert (Hq' : length (evict n (fst s) ++ [v]) = Nat.min n (S k)) by (apply evict_len; [lia|exact Hq]).
      split; [exact Hq'|]. intros Hk. apply Ho2. lia.
    + intros Hn. destruct (Hsm Hn) as [Hq Hs2].
      pose proof (evict_len_small n (fst s) Hn Hq) as H0. split; [lia|].
      rewrite Ho1 by lia. exact Hs2.
  - intros k s _. cbn [clast net_core]. eauto.
Qed.

Lemma net_ready n : (2 <= n)%nat -> ReadyAt (@net_core R ROps n) (net_I n) 2.
Proof.
  intros Hn k s [Hle [Hlt [Hge _]]]. cbn [clast net_core]. split; intros Hk.
  - rewrite Hlt by lia. reflexivity.
  - destruct (Hge Hn) as [_ Hs]. destruct (snd s) as [y|] eqn:E; [eauto|]. exfalso. apply (Hs Hk). reflexivity.
Qed.

Lemma net_keeps_ready n : KeepsReady (@net_core R ROps n).
Proof.
  intros s v s' x Hl Hs. cbn [clast net_core] in *. cbn [cstep net_core] in Hs.
  destruct (net_step_ok n s v) as [o [Hs' [Ho1 Ho2]]]. rewrite Hs' in Hs. inversion Hs; subst s'. cbn [snd].
  inversion Hl as [Hx].
  destruct (Nat.lt_ge_cases (length (evict n (fst s) ++ [v])) 2) as [H|H].
  - rewrite (Ho1 H), Hx. eauto.
  - destruct o as [y|]; [eauto|]. exfalso. apply (Ho2 H). reflexivity.
Qed.

(** C15 Net (every window length) *)
Theorem safe_net n vs :
  exists s o, crun (@net_core R ROps n) vs = Ok s /\ clast (@net_core R ROps n) s = Ok o.
Proof. apply (safe_run (net_safe n)). apply trueD. Qed.
(** C08 Net (every window length, any state) *)
Theorem ready_mono_net n :
  CReadyMono (@net_core R ROps n) (fun _ => True) (InvOf (@net_core R ROps n) (net_I n)).
Proof. apply keeps_ready_mono. apply net_keeps_ready. Qed.
Theorem warmup_net n vs : (2 <= n)%nat ->
  (cout (@net_core R ROps n) vs = Ok None <-> (length vs < 2)%nat).
Proof. intros Hn. apply (warmup_none (net_safe n) (net_ready n Hn)). apply trueD. Qed.
(** for [n < 2] Net never answers *)
Theorem warmup_net_small n vs : (n < 2)%nat -> cout (@net_core R ROps n) vs = Ok None.
Proof.
  intros Hn. destruct (safe_run_len (net_safe n) (trueD vs)) as [s [Hr [_ [_ [_ Hs]]]]].
  unfold cout. rewrite Hr. cbn [bind clast net_core]. destruct (Hs Hn) as [_ H]. rewrite H. reflexivity.
Qed.

(* ---------------------------------------------------------------- myrsi *)
Definition myrsi_I (n k : nat) (s : @myrsi_st R) : Prop := length (my_q s) = Nat.min n k.

Lemma myrsi_out_ok (cu cd o : R) : exists out,
  (if @sneb R ROps (@sadd R ROps cu cd) s0 then @sdiv R ROps (@ssub R ROps cu cd) (@sadd R ROps cu cd) else Ok o) = Ok out.
Proof.
  rewrite sneb_R. destruct (Reqb (sadd cu cd) s0) eqn:E; cbn [negb]; [eauto|].
  apply Reqb_false in E. rewrite sdiv_R_ok by exact E. eauto.
Qed.

Ltac myrsi_fin :=
  match goal with
  | |- context [if sneb (sadd ?a ?b) s0 then _ else Ok ?o] =>
      let out := fresh "out" in let Ho := fresh "Ho" in
      destruct (myrsi_out_ok a b o) as [out Ho]; rewrite Ho; cbn [bind];
      eexists; split; [reflexivity|]; cbn [my_q]
  end.

Lemma myrsi_step_ok n k s v : (1 <= n)%nat -> length (my_q s) = Nat.min n k ->
  exists s', @myrsi_step R ROps n s v = Ok s' /\ length (my_q s') = Nat.min n (S k).
Proof.
  intros Hn Hi. unfold myrsi_step.
  set (oldest := match my_q s with [] => v | _ :: _ => my_oldest s end). clearbody oldest.
  destruct (Nat.leb_spec n (length (my_q s))) as [Hf|Hf].
  - destruct (full_nonempty n (my_q s) Hn Hf) as [x [r Hq]]. rewrite Hq. cbn [pop_front bind].
    rewrite Hq in Hi, Hf.
    destruct (myrsi_sums (r ++ [v]) x s0 s0) as [cu cd]. myrsi_fin.
    rewrite app_length; cbn [length] in *; lia.
  - cbn [bind]. destruct (myrsi_sums (my_q s ++ [v]) oldest s0 s0) as [cu cd]. myrsi_fin.
    apply len_push_notfull; assumption.
Qed.

Lemma myrsi_safe n : (1 <= n)%nat -> Safe (@myrsi_core R ROps n) (fun _ => True) (myrsi_I n).
Proof.
  intros Hn. constructor.
  - eexists. split; [reflexivity|]. unfold myrsi_I. cbn. lia.
  - intros k s v Hi _. unfold myrsi_I in *. cbn [cstep myrsi_core]. exact (myrsi_step_ok n k s v Hn Hi).
  - intros k s _. cbn [clast myrsi_core]. destruct (length (my_q s) <? n)%nat; eauto.
Qed.

Lemma myrsi_ready n : (1 <= n)%nat -> ReadyAt (@myrsi_core R ROps n) (myrsi_I n) n.
Proof.
  intros Hn k s Hi. unfold myrsi_I in Hi. cbn [clast myrsi_core]. split; intros Hk.
  - destruct (Nat.ltb_spec (length (my_q s)) n) as [H|H]; [reflexivity|lia].
  - destruct (Nat.ltb_spec (length (my_q s)) n) as [H|H]; [lia|eauto].
Qed.

(** C15 MyRsi *)
Theorem safe_myrsi n vs : (1 <= n)%nat ->
  exists s o, crun (@myrsi_core R ROps n) vs = Ok s /\ clast (@myrsi_core R ROps n) s = Ok o.
Proof. intros Hn. apply (safe_run (myrsi_safe n Hn)). apply trueD. Qed.
(** C08 MyRsi *)
Theorem ready_mono_myrsi n : (1 <= n)%nat ->
  CReadyMono (@myrsi_core R ROps n) (fun _ => True) (InvOf (@myrsi_core R ROps n) (myrsi_I n)).
Proof. intros Hn. exact (ready_at_mono (myrsi_safe n Hn) (myrsi_ready n Hn)). Qed.
Theorem warmup_myrsi n vs : (1 <= n)%nat ->
  (cout (@myrsi_core R ROps n) vs = Ok None <-> (length vs < n)%nat).
Proof. intros Hn. apply (warmup_none (myrsi_safe n Hn) (myrsi_ready n Hn)). apply trueD. Qed.
Lemma safe_myrsi_0_refuted : exists e, crun (@myrsi_core R ROps 0) [0] = Err e.
Proof. eexists. reflexivity. Qed.

(* ---------------------------------------------------------------- alma *)
Fixpoint rsum (l : list R) : R := match l with [] => 0 | x :: t => x + rsum t end.
Lemma rsum_app l x : rsum (l ++ [x]) = rsum l + x.
Proof. induction l as [|y l IH]; cbn [rsum app]; [lra | rewrite IH; lra]. Qed.
Lemma rsum_pos_nonneg l : Forall (fun w => 0 < w) l -> 0 <= rsum l.
Proof. induction 1 as [|y l Hy _ IH]; cbn [rsum]; lra. Qed.

Definition alma_I (n k : nat) (st : R * @alma_st R) : Prop :=
  fst st = INR n / 6 /\
  length (al_qv (snd st)) = Nat.min n k /\ length (al_qw (snd st)) = Nat.min n k /\
  length (al_qo (snd st)) = Nat.min n k /\
  Forall (fun w => 0 < w) (al_qw (snd st)) /\ al_cw (snd st) = rsum (al_qw (snd st)).

Lemma alma_den_neq0 s : s <> 0 -> @sofdec R ROps 2 0 * s * s <> 0.
Proof.
  intros Hs H. rewrite sofdec_2_0 in H. assert (H0 : s * s = 0) by lra.
  destruct (Rmult_integral _ _ H0); contradiction.
Qed.

Ltac alma_fin Hcw Hprw :=
  rewrite sdiv_R_ok by (apply alma_den_neq0; assumption); cbn [bind];
  let ee := fresh "ee" in let Hexp := fresh "Hexp" in let Hnn := fresh "Hnn" in
  match goal with |- context [sexp ?e] => set (ee := e); change (sexp ee) with (Ok (exp ee)) end;
  cbn [bind]; pose proof (exp_pos ee) as Hexp; pose proof (rsum_pos_nonneg _ Hprw) as Hnn;
  match goal with |- context [sdiv ?a (sadd ?c (exp ee))] =>
    change (sadd c (exp ee)) with (c + exp ee);
    rewrite (sdiv_R_ok a) by (change (@ssub R ROps) with Rminus; rewrite ?Hcw; lra)
  end;
  cbn [bind]; eexists; split; [reflexivity|]; cbn [al_qv al_qw al_qo al_cw];
  repeat split;
  [ rewrite app_length; cbn [length]; lia
  | rewrite app_length; cbn [length]; lia
  | rewrite app_length; cbn [length]; lia
  | apply Forall_app; split; [assumption | constructor; [exact Hexp | constructor]]
  | rewrite rsum_app; change (@ssub R ROps) with Rminus; rewrite ?Hcw; reflexivity
  | let Hnil := fresh "Hnil" in
    intros Hnil; apply app_eq_nil in Hnil; destruct Hnil as [_ Hnil]; discriminate ].

Lemma alma_step_ok n k m s st v : (1 <= n)%nat -> s <> 0 ->
  length (al_qv st) = Nat.min n k -> length (al_qw st) = Nat.min n k -> length (al_qo st) = Nat.min n k ->
  Forall (fun w => 0 < w) (al_qw st) -> al_cw st = rsum (al_qw st) ->
  exists st', @alma_step R ROps n m s st v = Ok st' /\
    length (al_qv st') = Nat.min n (S k) /\ length (al_qw st') = Nat.min n (S k) /\
    length (al_qo st') = Nat.min n (S k) /\
    Forall (fun w => 0 < w) (al_qw st') /\ al_cw st' = rsum (al_qw st') /\
    al_qo st' <> [].
Proof.
  intros Hn Hs Hv Hw Ho Hp Hc. unfold alma_step.
  destruct (Nat.leb_spec n (length (al_qv st))) as [Hf|Hf].
  - destruct (full_nonempty n (al_qv st) Hn Hf) as [x [r Hq]].
    destruct (full_nonempty n (al_qw st) Hn ltac:(lia)) as [w [rw Hqw]].
    rewrite Hq, Hqw. cbn [front bind tl].
    inversion Hp as [|w' rw' Hw0 Hprw Heq]; [congruence|]. rewrite Hqw in Heq. inversion Heq; subst w' rw'.
    assert (Hcw : al_cw st - w = rsum rw) by (rewrite Hc, Hqw; cbn [rsum]; lra).
    rewrite Hq in Hv, Hf. rewrite Hqw in Hw. cbn [length] in Hv, Hw, Hf.
    assert (Hlo : length (tl (al_qo st)) = length rw) by (destruct (al_qo st); cbn [length tl] in *; lia).
    alma_fin Hcw Hprw.
  - cbn [bind]. assert (Hlo : length (al_qo st) = length (al_qw st)) by lia.
    alma_fin Hc Hp.
Qed.

Lemma alma_safe n : (1 <= n)%nat -> Safe (@alma_core R ROps n) (fun _ => True) (alma_I n).
Proof.
  intros Hn. constructor.
  - unfold alma_core, alma_core_custom. cbn [cnew].
    rewrite sdiv_R_ok by apply s6_neq0. cbn [bind]. rewrite sofdec_6_0.
    eexists. split; [reflexivity|]. unfold alma_I. cbn [fst snd al_qv al_qw al_qo al_cw length rsum].
    repeat split; try lia. constructor.
  - intros k st v [Hs [Hv [Hw [Ho [Hp Hc]]]]] _. unfold alma_core, alma_core_custom. cbn [cstep].
    assert (Hs0 : fst st <> 0).
    { rewrite Hs. pose proof (INR_pos' n Hn). intros H0. unfold Rdiv in H0.
      apply Rmult_integral in H0. destruct H0; lra. }
    destruct (alma_step_ok n k (smul (sofdec 85 2) (sadd (sofnat n) s1)) (fst st) (snd st) v Hn Hs0 Hv Hw Ho Hp Hc)
      as [st' [Hst [Hv' [Hw' [Ho' [Hp' [Hc' _]]]]]]].
    rewrite Hst. cbn [bind]. eexists. split; [reflexivity|]. unfold alma_I. cbn [fst snd].
    repeat split; assumption.
  - intros k st _. unfold alma_core, alma_core_custom. cbn [clast]. eauto.
Qed.

Lemma alma_ready n : (1 <= n)%nat -> ReadyAt (@alma_core R ROps n) (alma_I n) 1.
Proof.
  intros Hn k st [Hs [Hv [Hw [Ho [Hp Hc]]]]]. unfold alma_core, alma_core_custom. cbn [clast]. split; intros Hk.
  - destruct (al_qo (snd st)) as [|x r]; [reflexivity|]. cbn [length] in Ho. lia.
  - destruct (@last_opt_nonempty R (al_qo (snd st))) as [y Hy].
    + intros Hnil. rewrite Hnil in Ho. cbn [length] in Ho. lia.
    + rewrite Hy. eauto.
Qed.

(** C15 Alma *)
Theorem safe_alma n vs : (1 <= n)%nat ->
  exists s o, crun (@alma_core R ROps n) vs = Ok s /\ clast (@alma_core R ROps n) s = Ok o.
Proof. intros Hn. apply (safe_run (alma_safe n Hn)). apply trueD. Qed.
(** C08 Alma *)
Theorem ready_mono_alma n : (1 <= n)%nat ->
  CReadyMono (@alma_core R ROps n) (fun _ => True) (InvOf (@alma_core R ROps n) (alma_I n)).
Proof. intros Hn. exact (ready_at_mono (alma_safe n Hn) (alma_ready n Hn)). Qed.
Theorem warmup_alma n vs : (1 <= n)%nat ->
  (cout (@alma_core R ROps n) vs = Ok None <-> (length vs < 1)%nat).
Proof. intros Hn. apply (warmup_none (alma_safe n Hn) (alma_ready n Hn)). apply trueD. Qed.
(** n = 0: the constructor succeeds (s = 0/6 = 0) but the first update evicts from the empty queue
    ([front] on [[]]: UnwrapNone) *)
Lemma safe_alma_0_refuted : exists e, crun (@alma_core R ROps 0) [0] = Err e.
Proof.
  unfold crun, alma_core, alma_core_custom. cbn [cnew cstep].
  rewrite sdiv_R_ok by apply s6_neq0. cbn [bind cfold cstep fst snd].
  unfold alma_step. cbn [Nat.leb length al_qv al_qw al_qo front bind].
  eexists. reflexivity.
Qed.

(* ---------------------------------------------------------------- rsi *)
(** per-change contributions to the (Wilder-free, plain window) average gain / loss *)
Definition gpart (w c : R) : R := if Rltb 0 c then c / w else 0.
Definition lpart (w c : R) : R := if Rltb 0 c then 0 else Rabs c / w.
(** sums over the successive differences of the queue [q], the first one taken against [r] *)
Fixpoint rsiG (w r : R) (q : list R) : R :=
  match q with [] => 0 | x :: t => gpart w (x - r) + rsiG w x t end.
Fixpoint rsiL (w r : R) (q : list R) : R :=
  match q with [] => 0 | x :: t => lpart w (x - r) + rsiL w x t end.

Lemma gpart_nonneg w c : 0 < w -> 0 <= gpart w c.
Proof.
  intros Hw. unfold gpart. destruct (Rltb 0 c) eqn:E; [|lra]. apply Rltb_true in E.
  unfold Rdiv. apply Rmult_le_pos; [lra|]. left. apply Rinv_0_lt_compat. exact Hw.
Qed.
Lemma lpart_nonneg w c : 0 < w -> 0 <= lpart w c.
Proof.
  intros Hw. unfold lpart. destruct (Rltb 0 c) eqn:E; [lra|].
  unfold Rdiv. apply Rmult_le_pos; [apply Rabs_pos|]. left. apply Rinv_0_lt_compat. exact Hw.
Qed.
Lemma rsiG_nonneg w r q : 0 < w -> 0 <= rsiG w r q.
Proof.
  intros Hw. revert r. induction q as [|x t IH]; intros r; cbn [rsiG]; [lra|].
  pose proof (gpart_nonneg w (x - r) Hw). pose proof (IH x). lra.
Qed.
Lemma rsiL_nonneg w r q : 0 < w -> 0 <= rsiL w r q.
Proof.
  intros Hw. revert r. induction q as [|x t IH]; intros r; cbn [rsiL]; [lra|].
  pose proof (lpart_nonneg w (x - r) Hw). pose proof (IH x). lra.
Qed.
(** the fold of [rsi_step] over the window computes these sums: it only ever divides by [w] *)
Lemma rsi_sums_ok w q : w <> 0 -> forall prev g l,
  @rsi_sums R ROps w q prev g l = Ok (g + rsiG w prev q, l + rsiL w prev q).
Proof.
  intros Hw. induction q as [|x t IH]; intros prev g l.
  - cbn [rsi_sums rsiG rsiL]. f_equal. f_equal; lra.
  - cbn [rsi_sums rsiG rsiL]. rewrite sgtb_R, s0_R. change (@ssub R ROps x prev) with (x - prev).
    unfold gpart, lpart.
    destruct (Rltb 0 (x - prev)); rewrite sdiv_R_ok by exact Hw; cbn [bind]; rewrite IH;
      f_equal; f_equal; change (@sadd R ROps) with Rplus; change (@sabs R ROps) with Rabs; lra.
Qed.

Definition rsi_I (n k : nat) (s : @rsi_st R) : Prop :=
  length (rsi_q s) = Nat.min n k /\
  ((k < n)%nat -> rsi_out s = None) /\ ((n <= k)%nat -> rsi_out s <> None).

(** the ratio block: [loss <> 0], and [1 + gain/loss <> 0] because [gain >= 0], [loss >= 0] *)
Lemma rsi_out_ok (gain loss : R) : 0 <= gain -> 0 <= loss -> exists out,
  (if @seqb R ROps loss s0 then Ok (@sofdec R ROps 100 0)
   else do rs <- @sdiv R ROps gain loss; do d <- @sdiv R ROps (sofdec 100 0) (@sadd R ROps s1 rs);
        Ok (@ssub R ROps (sofdec 100 0) d)) = Ok out.
Proof.
  intros Hg Hl. rewrite seqb_R. destruct (Reqb loss s0) eqn:E; [eauto|].
  apply Reqb_false in E. rewrite s0_R in E. rewrite sdiv_R_ok by exact E. cbn [bind].
  rewrite sdiv_R_ok; [cbn [bind]; eauto|].
  change (1 + gain / loss <> 0).
  assert (0 <= gain / loss).
  { unfold Rdiv. apply Rmult_le_pos; [exact Hg|]. left. apply Rinv_0_lt_compat. lra. }
  lra.
Qed.

Lemma rsi_tail n k (s : @rsi_st R) v oref q : (1 <= n)%nat ->
  length (q ++ [v]) = Nat.min n (S k) ->
  ((k < n)%nat -> rsi_out s = None) ->
  exists s' : @rsi_st R,
    (if (length (q ++ [v]) <? n)%nat
     then Ok {| rsi_gain := rsi_gain s; rsi_loss := rsi_loss s; rsi_oldref := oref; rsi_lastval := v;
                rsi_q := q ++ [v]; rsi_out := rsi_out s |}
     else
      do x0 <- @rsi_sums R ROps (INR n) (q ++ [v]) oref s0 s0;
      let (gain0, loss0) := x0 in
      do out <-
        (if @seqb R ROps loss0 s0 then Ok (@sofdec R ROps 100 0)
         else do rs <- @sdiv R ROps gain0 loss0;
              do d <- @sdiv R ROps (sofdec 100 0) (@sadd R ROps s1 rs); Ok (@ssub R ROps (sofdec 100 0) d));
      Ok {| rsi_gain := gain0; rsi_loss := loss0; rsi_oldref := oref; rsi_lastval := v;
            rsi_q := q ++ [v]; rsi_out := Some out |}) = Ok s' /\ rsi_I n (S k) s'.
Proof.
  intros Hn Hlen Ho1.
  pose proof (INR_pos' n Hn) as Hw. assert (Hw0 : INR n <> 0) by lra.
  destruct (Nat.ltb_spec (length (q ++ [v])) n) as [H|H].
  - eexists. split; [reflexivity|]. unfold rsi_I. cbn [rsi_q rsi_out].
    repeat split; try assumption; [intros Hk; apply Ho1; lia | intros Hk; lia].
  - rewrite (rsi_sums_ok (INR n) (q ++ [v]) Hw0). cbn [bind]. rewrite s0_R.
    destruct (rsi_out_ok (0 + rsiG (INR n) oref (q ++ [v])) (0 + rsiL (INR n) oref (q ++ [v]))) as [out Hout].
    + pose proof (rsiG_nonneg (INR n) oref (q ++ [v]) Hw). lra.
    + pose proof (rsiL_nonneg (INR n) oref (q ++ [v]) Hw). lra.
    + rewrite s0_R in Hout. rewrite Hout. cbn [bind]. eexists. split; [reflexivity|]. unfold rsi_I.
      cbn [rsi_q rsi_out].
      repeat split; try assumption; [intros Hk; lia | discriminate].
Qed.

Lemma rsi_step_ok n k s v : (1 <= n)%nat -> rsi_I n k s ->
  exists s', @rsi_step R ROps n s v = Ok s' /\ rsi_I n (S k) s'.
Proof.
  intros Hn [Hl [Ho1 Ho2]]. unfold rsi_step. cbv zeta.
  change (@sofnat R ROps n) with (INR n).
  set (oldref := match rsi_q s with [] => v | _ :: _ => rsi_oldref s end). clearbody oldref.
  destruct (Nat.leb_spec n (length (rsi_q s))) as [Hf|Hf].
  - destruct (full_nonempty n (rsi_q s) Hn Hf) as [old [t Hq]]. rewrite Hq in *. cbn [pop_front bind].
    apply rsi_tail; try assumption.
    rewrite app_length. cbn [length] in *. lia.
  - cbn [bind]. apply rsi_tail; try assumption.
    apply len_push_notfull; assumption.
Qed.

Lemma rsi_safe n : (1 <= n)%nat -> Safe (@rsi_core R ROps n) (fun _ => True) (rsi_I n).
Proof.
  intros Hn. constructor.
  - eexists. split; [reflexivity|]. unfold rsi_I.
    cbn [rsi_q rsi_out length].
    repeat split; try reflexivity; [lia | intros Hk; lia].
  - intros k s v Hi _. cbn [cstep rsi_core]. exact (rsi_step_ok n k s v Hn Hi).
  - intros k s _. cbn [clast rsi_core]. eauto.
Qed.

Lemma rsi_ready n : (1 <= n)%nat -> ReadyAt (@rsi_core R ROps n) (rsi_I n) n.
Proof.
  intros Hn k s [_ [Ho1 Ho2]]. cbn [clast rsi_core]. split; intros Hk.
  - rewrite (Ho1 Hk). reflexivity.
  - destruct (rsi_out s) as [y|] eqn:E; [eauto|]. exfalso. apply (Ho2 Hk). reflexivity.
Qed.

(** C15 Rsi *)
Theorem safe_rsi n vs : (1 <= n)%nat ->
  exists s o, crun (@rsi_core R ROps n) vs = Ok s /\ clast (@rsi_core R ROps n) s = Ok o.
Proof. intros Hn. apply (safe_run (rsi_safe n Hn)). apply trueD. Qed.
(** C08 Rsi *)
Theorem ready_mono_rsi n : (1 <= n)%nat ->
  CReadyMono (@rsi_core R ROps n) (fun _ => True) (InvOf (@rsi_core R ROps n) (rsi_I n)).
Proof. intros Hn. exact (ready_at_mono (rsi_safe n Hn) (rsi_ready n Hn)). Qed.
Theorem warmup_rsi n vs : (1 <= n)%nat ->
  (cout (@rsi_core R ROps n) vs = Ok None <-> (length vs < n)%nat).
Proof. intros Hn. apply (warmup_none (rsi_safe n Hn) (rsi_ready n Hn)). apply trueD. Qed.
Lemma safe_rsi_0_refuted : exists e, crun (@rsi_core R ROps 0) [0] = Err e.
Proof. eexists. reflexivity. Qed.

(** the hypotheses are satisfiable *)
Example safe_cti_ex : exists s o, crun (@cti_core R ROps 3) [1; 2; 3; 4] = Ok s /\ clast (@cti_core R ROps 3) s = Ok o.
Proof. apply safe_cti. lia. Qed.
Example warmup_net_ex : cout (@net_core R ROps 3) [1] = Ok None.
Proof. apply warmup_net; cbn; lia. Qed.
Example warmup_myrsi_ex : cout (@myrsi_core R ROps 3) [1; 2] = Ok None.
Proof. apply warmup_myrsi; cbn; lia. Qed.
Example safe_alma_ex : exists s o, crun (@alma_core R ROps 9) [1; 2] = Ok s /\ clast (@alma_core R ROps 9) s = Ok o.
Proof. apply safe_alma. lia. Qed.
Example warmup_rsi_ex : cout (@rsi_core R ROps 3) [1; 2] = Ok None.
Proof. apply warmup_rsi; cbn; lia. Qed.

Print Assumptions safe_cog.
Print Assumptions warmup_cog.
Print Assumptions ready_mono_cog.
Print Assumptions safe_cti.
Print Assumptions warmup_cti.
Print Assumptions ready_mono_cti.
Print Assumptions safe_net.
Print Assumptions warmup_net.
Print Assumptions warmup_net_small.
Print Assumptions ready_mono_net.
Print Assumptions safe_myrsi.
Print Assumptions warmup_myrsi.
Print Assumptions ready_mono_myrsi.
Print Assumptions safe_alma.
Print Assumptions warmup_alma.
Print Assumptions ready_mono_alma.
Print Assumptions safe_rsi.
Print Assumptions warmup_rsi.
Print Assumptions ready_mono_rsi.
