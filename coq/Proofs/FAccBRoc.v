(** C16 / C02 at f64 for Roc (roc.rs): answer = ((x - base) / base) * 100, held while base = 0.
    On finite inputs the float run keeps EXACTLY the queue and the base of the exact run on the real values (they are
    stored inputs), takes the hold branch (base = 0) at exactly the same steps, is ready exactly when the exact run is,
    and a FINITE answer is within  (301/100) u |r| + 102 * 2^-1075  of the exact answer r (three rounded operations: a subtraction, a division,
    a multiplication), u = 2^-53 -- for every stream length.  The finiteness of the answer is the no-overflow condition. *)
From Coq Require Import List Arith Lia Reals Lra ZArith Floats Bool.
From SF Require Import Res Scalar View Models Core Spec FloatOps SpecWinA SpecFAccB.
From SF.Proofs Require Import Window RBase FltErr FltBridge Flt2P Flt2B64 Flt2Prim BridgeOps FRangeBase FAccBase WinAP FAccBComb.
From Flocq Require Import Core BinarySingleNaN.
Import ListNotations.
Open Scope R_scope.

Local Notation F := PrimFloat.float.
Local Notation fzero := PrimFloat.zero.
Local Notation fin := (fun x : F => ffinite x = true).
Local Notation u53 := (/ 9007199254740992).

(** * The answer: three roundings *)
Definition roc_err (v : F) (r : R) : Prop :=
  Rabs (f2r v - r) <= 301 / 100 * u53 * Rabs r + 102 * b64_eta.

Lemma roc_answer_acc x o : ffinite o = true ->
  let m := PrimFloat.mul (PrimFloat.div (PrimFloat.sub x o) o) (f_ofdec 100 0) in
  ffinite m = true ->
  ffinite x = true /\ f2r o <> 0 /\ roc_err m ((f2r x - f2r o) / f2r o * (100 / 1)).
Proof.
  intros Fo. cbv zeta. intros Fm.
  pose proof b64_u_val as Hu. pose proof b64_eta_nonneg as He0.
  destruct (prim_mul_fin _ _ Fm) as (Fq & _ & Em). rewrite (proj2 f2r_100) in Em.
  destruct (prim_div_fin _ o Fo Fq) as (Fd & Ho & Eq).
  destruct (prim_sub_fin x o Fd) as (Fx & _ & Ed).
  split; [exact Fx|]. split; [exact Ho|].
  destruct (rnd_sub_rel (f2r x) (f2r o) (f2r_format _) (f2r_format _)) as (e1 & He1 & R1).
  unfold b64_sub in Ed. rewrite R1 in Ed.
  destruct (b64_round_err (f2r (PrimFloat.sub x o) / f2r o)) as (e2 & ee2 & He2 & Hee2 & R2).
  unfold b64_div in Eq. rewrite R2, Ed in Eq.
  destruct (b64_round_err (f2r (PrimFloat.div (PrimFloat.sub x o) o) * 100)) as (e3 & ee3 & He3 & Hee3 & R3).
  unfold b64_mul in Em. rewrite R3, Eq in Em.
  unfold roc_err. rewrite Em. set (a := f2r x - f2r o). set (b := f2r o) in *.
  set (r := a / b * (100 / 1)).
  replace (((a * (1 + e1) / b * (1 + e2) + ee2) * 100 * (1 + e3) + ee3) - r)
    with (r * ((1 + e1) * (1 + e2) * (1 + e3) - 1) + (ee2 * (100 * (1 + e3)) + ee3))
    by (unfold r; field; exact Ho).
  rewrite Hu in He1, He2, He3.
  assert (Hu0 : 0 <= u53) by lra.
  pose proof (three_d_bound e1 e2 e3 u53 Hu0 He1 He2 He3) as H3.
  assert (Hc : (1 + u53) ^ 3 - 1 <= 301 / 100 * u53) by nra.
  eapply Rle_trans; [apply Rabs_triang|]. apply Rplus_le_compat.
  - rewrite Rabs_mult, (Rmult_comm (301 / 100 * u53)).
    apply Rmult_le_compat_l; [apply Rabs_pos | lra].
  - eapply Rle_trans; [apply Rabs_triang|].
    assert (H100 : Rabs (100 * (1 + e3)) <= 101).
    { apply Rabs_le_inv' in He3. apply Rabs_le'. lra. }
    pose proof (Rabs_mul_le ee2 (100 * (1 + e3)) b64_eta 101 Hee2 H100). lra.
Qed.

(** * Simulation: the stored values are exact, the held answer is accurate when finite *)
Definition out_rel (of : option F) (or : option R) : Prop :=
  match of, or with
  | None, None => True
  | Some v, Some r => ffinite v = true -> roc_err v r
  | _, _ => False
  end.

Definition roc_rel (sf : @roc_st F) (sr : @roc_st R) : Prop :=
  roc_oldest sr = option_map f2r (roc_oldest sf) /\ roc_q sr = map f2r (roc_q sf) /\
  Forall fin (roc_q sf) /\ (forall o, roc_oldest sf = Some o -> ffinite o = true) /\
  out_rel (roc_out sf) (roc_out sr).

(** the base used by the step that receives [v] in state [s], and whether that step HOLDS the answer *)
Definition roc_base_st {T} (n : nat) (s : @roc_st T) (v : T) : option T :=
  if Nat.leb n (length (roc_q s)) then hd_error (roc_q s)
  else match roc_q s with [] => Some v | _ => roc_oldest s end.
Definition roc_held {T} {OT : Ops T} (n : nat) (s : @roc_st T) (v : T) : bool :=
  match roc_base_st n s v with None => true | Some o => seqb o s0 end.

Lemma roc_step_base {T} {OT : Ops T} n (s : @roc_st T) v s' : roc_step n s v = Ok s' ->
  roc_oldest s' = roc_base_st n s v /\
  roc_q s' = (if Nat.leb n (length (roc_q s)) then tl (roc_q s) else roc_q s) ++ [v] /\
  match roc_base_st n s v with
  | None => roc_out s' = roc_out s
  | Some o => if seqb o s0 then roc_out s' = roc_out s
              else exists r, sdiv (ssub v o) o = Ok r /\ roc_out s' = Some (smul r (sofdec 100 0))
  end.
Proof.
  unfold roc_step, roc_base_st. destruct (Nat.leb n (length (roc_q s))).
  - destruct (roc_q s) as [|old q]; cbn [front bind tl hd_error]; [discriminate|].
    destruct (seqb old s0).
    + intros H; inversion H; subst s'; cbn. auto.
    + destruct (sdiv (ssub v old) old) as [r|e]; cbn [bind]; [|discriminate].
      intros H; inversion H; subst s'; cbn. repeat split; eauto.
  - cbn [bind]. destruct (match roc_q s with [] => Some v | _ :: _ => roc_oldest s end) as [o|].
    + destruct (seqb o s0).
      * intros H; inversion H; subst s'; cbn. auto.
      * destruct (sdiv (ssub v o) o) as [r|e]; cbn [bind]; [|discriminate].
        intros H; inversion H; subst s'; cbn. repeat split; eauto.
    + intros H; inversion H; subst s'; cbn. auto.
Qed.

(** held steps leave the answer untouched (every scalar) *)
Lemma roc_held_keeps {T} {OT : Ops T} n (s : @roc_st T) v s' :
  roc_step n s v = Ok s' -> roc_held n s v = true -> roc_out s' = roc_out s.
Proof.
  intros Hs Hh. destruct (roc_step_base n s v s' Hs) as (_ & _ & H). unfold roc_held in Hh.
  destruct (roc_base_st n s v) as [o|]; [|exact H]. rewrite Hh in H. exact H.
Qed.

Lemma roc_base_sim n sf sr v : ffinite v = true -> roc_rel sf sr ->
  roc_base_st n sr (f2r v) = option_map f2r (roc_base_st n sf v) /\
  (forall o, roc_base_st n sf v = Some o -> ffinite o = true).
Proof.
  intros Fv (Ho & Hq & Fq & Fo & _). unfold roc_base_st. rewrite Hq, map_length.
  destruct (Nat.leb n (length (roc_q sf))).
  - destruct (roc_q sf) as [|a q]; cbn; [split; [reflexivity | discriminate]|].
    split; [reflexivity|]. intros o H; inversion H; subst. exact (Forall_inv Fq).
  - destruct (roc_q sf) as [|a q]; cbn [map option_map].
    + split; [reflexivity|]. intros o H; inversion H; subst; exact Fv.
    + split; [exact Ho | exact Fo].
Qed.

(** the hold branch is taken at exactly the same steps *)
Lemma roc_held_sim n sf sr v : ffinite v = true -> roc_rel sf sr ->
  @roc_held R ROps n sr (f2r v) = @roc_held F FOps n sf v.
Proof.
  intros Fv HR. destruct (roc_base_sim n sf sr v Fv HR) as [E Hf]. unfold roc_held. rewrite E.
  destruct (roc_base_st n sf v) as [o|]; cbn [option_map]; [|reflexivity].
  cbn [seqb s0 FOps ROps]. rewrite (prim_eqb_real o fzero (Hf o eq_refl) (proj1 prim_zero_fin)).
  rewrite (proj2 prim_zero_fin). reflexivity.
Qed.

Lemma roc_step_sim n sf sr v sf' : ffinite v = true -> roc_rel sf sr -> @roc_step F FOps n sf v = Ok sf' ->
  exists sr', @roc_step R ROps n sr (f2r v) = Ok sr' /\ roc_rel sf' sr'.
Proof.
  intros Fv HR Hs. pose proof HR as (Ho & Hq & Fq & Fo & Hout).
  destruct (roc_base_sim n sf sr v Fv HR) as [EB FB].
  destruct (roc_step_base n sf v sf' Hs) as (Eo' & Eq' & Hcase).
  (* the exact step succeeds *)
  assert (HqF : Forall fin (roc_q sf')).
  { rewrite Eq'. apply Forall_app. split; [|constructor; [exact Fv | constructor]].
    destruct (Nat.leb n (length (roc_q sf))); [|exact Fq]. destruct (roc_q sf); [constructor | exact (Forall_inv_tail Fq)]. }
  assert (Hpre : exists sr', @roc_step R ROps n sr (f2r v) = Ok sr').
  { revert Hs. unfold roc_step. rewrite Hq, map_length. destruct (Nat.leb n (length (roc_q sf))).
    - destruct (roc_q sf) as [|old q]; cbn [front bind map tl]; [discriminate|]. intros _.
      destruct (@seqb R ROps (f2r old) s0) eqn:Eb; [eauto|].
      cbn [seqb s0 ROps] in Eb. apply Reqb_false in Eb. cbn [sdiv ssub ROps]. rewrite Rdiv_res_ok by exact Eb. cbn [bind]. eauto.
    - cbn [bind]. intros _. rewrite Ho.
      destruct (match map f2r (roc_q sf) with [] => Some (f2r v) | _ :: _ => option_map f2r (roc_oldest sf) end) as [o|]; [|eauto].
      destruct (@seqb R ROps o s0) eqn:Eb; [eauto|].
      cbn [seqb s0 ROps] in Eb. apply Reqb_false in Eb. cbn [sdiv ssub ROps]. rewrite Rdiv_res_ok by exact Eb. cbn [bind]. eauto. }
  destruct Hpre as [sr' Hsr]. exists sr'. split; [exact Hsr|].
  destruct (roc_step_base n sr (f2r v) sr' Hsr) as (Ro' & Rq' & Rcase).
  unfold roc_rel. rewrite Ro', Eo', EB. split; [reflexivity|]. split.
  { rewrite Rq', Eq', Hq, map_length, map_app. cbn [map]. destruct (Nat.leb n (length (roc_q sf))); [|reflexivity].
    destruct (roc_q sf); reflexivity. }
  split; [exact HqF|]. split; [exact FB|].
  rewrite EB in Rcase. destruct (roc_base_st n sf v) as [o|] eqn:Eb; cbn [option_map] in Rcase.
  - pose proof (FB o eq_refl) as Fo1.
    assert (Ez : @seqb R ROps (f2r o) s0 = @seqb F FOps o s0).
    { cbn [seqb s0 FOps ROps]. rewrite (prim_eqb_real o fzero Fo1 (proj1 prim_zero_fin)), (proj2 prim_zero_fin). reflexivity. }
    rewrite Ez in Rcase. destruct (@seqb F FOps o s0).
    + rewrite Hcase, Rcase. exact Hout.
    + destruct Hcase as (rf & Ef & ->). destruct Rcase as (rr & Er & ->).
      cbn [sdiv ssub smul sofdec FOps] in Ef. inversion Ef; subst rf.
      assert (Ho0 : f2r o <> 0 \/ f2r o = 0) by (destruct (Req_dec (f2r o) 0); auto).
      cbn [sdiv ssub ROps] in Er. unfold Rdiv_res in Er. destruct (Req_EM_T (f2r o) 0) as [E0|E0]; [discriminate|].
      inversion Er; subst rr. cbn [out_rel smul sofdec FOps ROps]. intros Fm.
      change (10 ^ Z.of_nat 0)%Z with 1%Z.
      exact (proj2 (proj2 (roc_answer_acc v o Fo1 Fm))).
  - rewrite Hcase, Rcase. exact Hout.
Qed.

(** after any finite history: the exact run succeeds and its state is the image of the float state (queue and base
    value for value), with the same readiness *)
Theorem roc_state_exact n fs sf : Forall fin fs -> crun (@roc_core F FOps n) fs = Ok sf ->
  exists sr, crun (@roc_core R ROps n) (map f2r fs) = Ok sr /\ roc_rel sf sr.
Proof.
  intros Hf Hr.
  apply (@crun_sim F R (@roc_core F FOps n) (@roc_core R ROps n) f2r fin roc_rel
           {| roc_oldest := None; roc_q := []; roc_out := None |} {| roc_oldest := None; roc_q := []; roc_out := None |})
    with (vs := fs); try reflexivity; try assumption.
  - unfold roc_rel. cbn. repeat split; [constructor | discriminate].
  - intros sa sb v sa' Fv HR Hs. exact (roc_step_sim n sa sb v sa' Fv HR Hs).
Qed.

(** C16 / C02 at f64, Roc: finite inputs, a finite answer: the exact run answers too, within
    (301/100) * 2^-53 * |r| + 102 * 2^-1075 -- for every stream length. *)
Theorem roc_f64_accuracy n (fs : list F) (v : F) : Forall fin fs ->
  cout (@roc_core F FOps n) fs = Ok (Some v) -> ffinite v = true ->
  exists r, cout (@roc_core R ROps n) (map f2r fs) = Ok (Some r) /\
            Rabs (f2r v - r) <= 301 / 100 * / 9007199254740992 * Rabs r + 102 * b64_eta.
Proof.
  intros Hf Hc Fv. unfold cout in Hc |- *.
  destruct (crun (@roc_core F FOps n) fs) as [sf|e] eqn:Er; [|discriminate]. cbn [bind clast roc_core] in Hc.
  destruct (roc_state_exact n fs sf Hf Er) as (sr & ER & (_ & _ & _ & _ & Hout)).
  rewrite ER. cbn [bind clast roc_core]. inversion Hc as [Hv]. rewrite Hv in Hout.
  destruct (roc_out sr) as [r|]; cbn [out_rel] in Hout; [|contradiction].
  exists r. split; [reflexivity | exact (Hout Fv)].
Qed.

(** readiness agrees (Some/None), whether the answer is finite or not; and when the float run has no error neither
    has the exact run *)
Theorem roc_f64_readiness n (fs : list F) o : Forall fin fs ->
  cout (@roc_core F FOps n) fs = Ok o ->
  exists o', cout (@roc_core R ROps n) (map f2r fs) = Ok o' /\ (o = None <-> o' = None).
Proof.
  intros Hf Hc. unfold cout in Hc |- *.
  destruct (crun (@roc_core F FOps n) fs) as [sf|e] eqn:Er; [|discriminate]. cbn [bind clast roc_core] in Hc.
  destruct (roc_state_exact n fs sf Hf Er) as (sr & ER & (_ & _ & _ & _ & Hout)).
  rewrite ER. cbn [bind clast roc_core]. inversion Hc; subst o. eexists. split; [reflexivity|].
  destruct (roc_out sf), (roc_out sr); cbn [out_rel] in Hout; try contradiction; split; intros; try reflexivity; discriminate.
Qed.

(** the hold branch (base = 0) is taken at exactly the same steps: for the step receiving [v] after the finite history
    [fs], model level ... *)
Theorem roc_f64_hold_agrees n (fs : list F) sf v : Forall fin fs -> ffinite v = true ->
  crun (@roc_core F FOps n) fs = Ok sf ->
  exists sr, crun (@roc_core R ROps n) (map f2r fs) = Ok sr /\
             @roc_held R ROps n sr (f2r v) = @roc_held F FOps n sf v.
Proof.
  intros Hf Fv Hr. destruct (roc_state_exact n fs sf Hf Hr) as (sr & ER & HR).
  exists sr. split; [exact ER | exact (roc_held_sim n sf sr v Fv HR)].
Qed.
(** ... and specification level: the base values x_(t-n) (x_0 during warm-up) correspond, and are 0 together *)
Theorem roc_f64_hold_spec n (fs : list F) v : Forall fin fs -> ffinite v = true ->
  @roc_base R n (map f2r fs) (f2r v) = f2r (@roc_base F n fs v) /\
  @roc_base_is0 R ROps n (map f2r fs) (f2r v) = @roc_base_is0 F FOps n fs v.
Proof.
  intros Hf Fv.
  assert (E : @roc_base R n (map f2r fs) (f2r v) = f2r (@roc_base F n fs v)).
  { unfold roc_base. rewrite map_length. destruct (Nat.leb n (length fs)).
    - apply (map_nth f2r).
    - destruct fs; reflexivity. }
  split; [exact E|]. unfold roc_base_is0. rewrite E. cbn [seqb s0 FOps ROps].
  assert (Fb : ffinite (@roc_base F n fs v) = true).
  { unfold roc_base. destruct (Nat.leb n (length fs)).
    - destruct (nth_in_or_default (length fs - n) fs v) as [H|H]; [|rewrite H; exact Fv].
      rewrite Forall_forall in Hf. exact (Hf _ H).
    - destruct fs as [|a l]; [exact Fv | exact (Forall_inv Hf)]. }
  rewrite (prim_eqb_real _ fzero Fb (proj1 prim_zero_fin)), (proj2 prim_zero_fin). reflexivity.
Qed.

(** * A magnitude regime in which the answer is always finite: every input is 0 or has 2^-500 <= |x| <= 2^500 *)
Definition roc_dom (x : F) : Prop :=
  ffinite x = true /\ (f2r x = 0 \/ bpow radix2 (-500) <= Rabs (f2r x) <= bpow radix2 500).

Lemma roc_answer_fin x o : roc_dom x -> roc_dom o -> f2r o <> 0 ->
  ffinite (PrimFloat.mul (PrimFloat.div (PrimFloat.sub x o) o) (f_ofdec 100 0)) = true.
Proof.
  intros [Fx Hx] [Fo Ho] Ho0.
  pose proof (bpow_gt_0 radix2 500) as B500. pose proof (bpow_gt_0 radix2 (-500)) as Bm500.
  assert (Hxa : Rabs (f2r x) <= bpow radix2 500) by (destruct Hx as [->|[_ H]]; [rewrite Rabs_R0; lra | exact H]).
  assert (Hoa : bpow radix2 (-500) <= Rabs (f2r o) <= bpow radix2 500) by (destruct Ho as [H|H]; [contradiction | exact H]).
  assert (Hd : Rabs (f2r x - f2r o) <= bpow radix2 501).
  { change 501%Z with (1 + 500)%Z. rewrite bpow_plus. change (bpow radix2 1) with 2.
    unfold Rminus. eapply Rle_trans; [apply Rabs_triang|]. rewrite Rabs_Ropp. lra. }
  destruct (prim_sub_b64 x o Fx Fo) as [Ed Fd].
  { eapply Rle_lt_trans; [apply (round_abs_le 501); [lia | lia | exact Hd] | apply bpow_lt; lia]. }
  assert (Hd' : Rabs (f2r (PrimFloat.sub x o)) <= bpow radix2 501) by (rewrite Ed; apply (round_abs_le 501); [lia | lia | exact Hd]).
  set (d := PrimFloat.sub x o) in *.
  assert (Hq : Rabs (f2r d / f2r o) <= bpow radix2 1001).
  { unfold Rdiv. rewrite Rabs_mult, Rabs_inv. change 1001%Z with (501 + 500)%Z. rewrite bpow_plus.
    apply Rmult_le_compat; [apply Rabs_pos | apply Rlt_le, Rinv_0_lt_compat; lra | exact Hd'|].
    replace (bpow radix2 500) with (/ bpow radix2 (-500)) by (rewrite <- bpow_opp; reflexivity).
    apply Rinv_le_contravar; lra. }
  destruct (prim_div_b64 d o Fd Fo Ho0) as [Eq Fq].
  { eapply Rle_lt_trans; [apply (round_abs_le 1001); [lia | lia | exact Hq] | apply bpow_lt; lia]. }
  assert (Hq' : Rabs (f2r (PrimFloat.div d o)) <= bpow radix2 1001) by (rewrite Eq; apply (round_abs_le 1001); [lia | lia | exact Hq]).
  set (q := PrimFloat.div d o) in *. destruct f2r_100 as [F100 E100].
  apply mul_spec_fin; [exact Fq | exact F100|]. rewrite E100.
  eapply Rle_lt_trans; [apply (round_abs_le 1008); [lia | lia |] | apply bpow_lt; lia].
  rewrite Rabs_mult, (Rabs_pos_eq 100) by lra. change 1008%Z with (1001 + 7)%Z. rewrite bpow_plus.
  change (bpow radix2 7) with 128. pose proof (Rabs_pos (f2r q)). nra.
Qed.

Definition roc_fin_inv (s : @roc_st F) : Prop :=
  Forall roc_dom (roc_q s) /\ (forall o, roc_oldest s = Some o -> roc_dom o) /\
  (forall v, roc_out s = Some v -> ffinite v = true).

Lemma roc_fin_step n s v s' : roc_dom v -> roc_fin_inv s -> @roc_step F FOps n s v = Ok s' -> roc_fin_inv s'.
Proof.
  intros Dv (Hq & Ho & Hout) Hs. destruct (roc_step_base n s v s' Hs) as (Eo & Eq & Hcase).
  assert (HB : forall o, roc_base_st n s v = Some o -> roc_dom o).
  { unfold roc_base_st. destruct (Nat.leb n (length (roc_q s))).
    - destruct (roc_q s) as [|a q]; cbn; [discriminate|]. intros o H; inversion H; subst. exact (Forall_inv Hq).
    - destruct (roc_q s) as [|a q]; [intros o H; inversion H; subst; exact Dv | exact Ho]. }
  split; [|split].
  - rewrite Eq. apply Forall_app. split; [|constructor; [exact Dv | constructor]].
    destruct (Nat.leb n (length (roc_q s))); [|exact Hq]. destruct (roc_q s); [constructor | exact (Forall_inv_tail Hq)].
  - rewrite Eo. exact HB.
  - destruct (roc_base_st n s v) as [o|] eqn:Eb; [|rewrite Hcase; exact Hout].
    pose proof (HB o eq_refl) as Do. destruct (@seqb F FOps o s0) eqn:Ez; [rewrite Hcase; exact Hout|].
    destruct Hcase as (r & Er & ->). cbn [sdiv ssub FOps] in Er. inversion Er; subst r.
    intros v' H; inversion H; subst v'. cbn [smul sofdec FOps]. apply roc_answer_fin; [exact Dv | exact Do|].
    cbn [seqb s0 FOps] in Ez.
    intro E0. apply (eqb_real_false o fzero (proj1 Do) (proj1 prim_zero_fin) Ez). rewrite (proj2 prim_zero_fin). exact E0.
Qed.

(** in that regime every answer is finite ... *)
Theorem roc_f64_finite n (fs : list F) (v : F) : Forall roc_dom fs ->
  cout (@roc_core F FOps n) fs = Ok (Some v) -> ffinite v = true.
Proof.
  intros Hf Hc. unfold cout in Hc.
  destruct (crun (@roc_core F FOps n) fs) as [s|e] eqn:Er; [|discriminate]. cbn [bind clast roc_core] in Hc.
  assert (Hi : roc_fin_inv s).
  { apply (@crun_pres F (@roc_core F FOps n) roc_dom roc_fin_inv {| roc_oldest := None; roc_q := []; roc_out := None |})
      with (vs := fs); try reflexivity; try assumption.
    - split; [constructor|]. split; discriminate.
    - intros s1 x s1' Dx Hi1 Hs. exact (roc_fin_step n s1 x s1' Dx Hi1 Hs). }
  inversion Hc as [Hv]. exact (proj2 (proj2 Hi) v Hv).
Qed.

(** ... hence accurate, with no condition on the float result *)
Corollary roc_f64_accuracy_regime n (fs : list F) (v : F) : Forall roc_dom fs ->
  cout (@roc_core F FOps n) fs = Ok (Some v) ->
  ffinite v = true /\
  exists r, cout (@roc_core R ROps n) (map f2r fs) = Ok (Some r) /\
            Rabs (f2r v - r) <= 301 / 100 * / 9007199254740992 * Rabs r + 102 * b64_eta.
Proof.
  intros Hf Hc. pose proof (roc_f64_finite n fs v Hf Hc) as Fv. split; [exact Fv|].
  apply roc_f64_accuracy; [|exact Hc | exact Fv]. eapply Forall_impl; [|exact Hf]. intros a [H _]. exact H.
Qed.

(** * Example: a non-trivial stream (one held step: base 0) *)
Local Set Warnings "-inexact-float".
Example roc_f64_accuracy_ex :
  forallb ffinite [0; 8.13; 3.461; 5.401; 3.311; 0.1; 7.5]%float = true /\
  cout (@roc_core F FOps 3) [0; 8.13; 3.461; 5.401; 3.311; 0.1; 7.5]%float = Ok (Some 38.863173486391418%float) /\
  ffinite 38.863173486391418%float = true /\
  cout (@roc_core F FOps 3) [0; 8.13; 3.461]%float = Ok None.
Proof. repeat split; vm_compute; reflexivity. Qed.

(** the regime of [roc_f64_finite], checked on the same stream with the executable comparisons *)
Example roc_f64_regime_ex :
  forallb (fun x => ffinite x && (PrimFloat.eqb x 0 || (PrimFloat.leb 0x1p-500 (PrimFloat.abs x) && PrimFloat.leb (PrimFloat.abs x) 0x1p500)))
    [0; 8.13; 3.461; 5.401; 3.311; 0.1; 7.5]%float = true.
Proof. vm_compute. reflexivity. Qed.

Print Assumptions roc_state_exact.
Print Assumptions roc_f64_accuracy.
Print Assumptions roc_f64_readiness.
Print Assumptions roc_f64_hold_agrees.
Print Assumptions roc_f64_hold_spec.
Print Assumptions roc_f64_finite.
Print Assumptions roc_f64_accuracy_regime.
