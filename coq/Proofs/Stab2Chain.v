(** C09: BIBO for chains of the linear recursive views (Ema, LaguerreFilter, SuperSmoother, RoofingFilter,
    CyberCycle): the gain of a chain is the product of the gains of its members. *)
From Coq Require Import List Arith Lia ZArith Reals Lra.
From SF Require Import Res Scalar View Models Spec Core.
From SF.Proofs Require Import Chain StabBase StabEma StabLag StabSS StabRoof StabCC StabComp.
Import ListNotations.
Open Scope R_scope.

(** the linear recursive views, their guards and their BIBO gains *)
Inductive lin_view : Type :=
| LEma (n : nat) | LLaguerre (g : R) | LSuperSmoother (n : nat) | LRoofing (n m : nat) | LCyberCycle (n : nat).

Definition lin_core (v : lin_view) : core R :=
  match v with
  | LEma n => @ema_core R ROps n
  | LLaguerre g => @laguerre_core R ROps g
  | LSuperSmoother n => @ss_core R ROps n
  | LRoofing n m => @roofing_core R ROps n m
  | LCyberCycle n => @cyber_core R ROps n
  end.

Definition lin_ok (v : lin_view) : Prop :=
  match v with
  | LEma n => (1 <= n)%nat
  | LLaguerre g => 0 <= g < 1
  | LSuperSmoother n => (1 <= n)%nat
  | LRoofing n m => (2 <= n)%nat /\ (1 <= m)%nat
  | LCyberCycle n => (3 <= n)%nat
  end.

Definition lin_gain (v : lin_view) : R :=
  match v with
  | LEma n => 1
  | LLaguerre g => lag_gain g
  | LSuperSmoother n => ss_gain n
  | LRoofing n m => roofing_gain n m
  | LCyberCycle n => INR n * INR n
  end.

Lemma lin_bibo v : lin_ok v -> bibo (lin_core v) (lin_gain v).
Proof.
  destruct v as [n|g|n|n m|n]; cbn [lin_ok lin_core lin_gain]; intros H.
  - apply ema_bibo; exact H.
  - apply laguerre_bibo; exact H.
  - apply ss_bibo; exact H.
  - apply roofing_bibo; apply H.
  - apply cyber_bibo; exact H.
Qed.

(** C09: a two-level chain  w(v(x))  of linear recursive views has gain  K_w * K_v *)
Theorem bibo_chain v w : lin_ok v -> lin_ok w ->
  view_gain (wrap (lin_core w) (standalone (lin_core v))) (lin_gain w * lin_gain v).
Proof.
  intros Hv Hw. apply bibo_compose; [apply lin_bibo; exact Hw | apply bibo_standalone, lin_bibo; exact Hv].
Qed.

(** chains of any depth, outermost member first *)
Fixpoint chain_view (l : list lin_view) : view R :=
  match l with [] => @echo R | w :: r => wrap (lin_core w) (chain_view r) end.
Fixpoint chain_gain (l : list lin_view) : R :=
  match l with [] => 1 | w :: r => lin_gain w * chain_gain r end.

Theorem bibo_chain_list l : Forall lin_ok l -> view_gain (chain_view l) (chain_gain l).
Proof.
  induction l as [|w r IH]; intros H; cbn [chain_view chain_gain].
  - apply echo_gain.
  - inversion H; subst. apply bibo_compose; [apply lin_bibo; assumption | apply IH; assumption].
Qed.

(** in terms of outputs: every output of the two-level chain on a stream bounded by U is at most K_w K_v U *)
Corollary bibo_chain_outputs v w U xs outs y : lin_ok v -> lin_ok w -> bounded U xs ->
  mrun (wrap (lin_core w) (standalone (lin_core v))) xs = Ok outs -> In (Some y) outs ->
  Rabs y <= lin_gain w * lin_gain v * U.
Proof.
  intros Hv Hw Hb Hr Hy. pose proof (bibo_chain v w Hv Hw U xs outs Hb Hr) as H.
  unfold bounded in H. rewrite Forall_forall in H. apply H. apply in_somes. exact Hy.
Qed.

Example bibo_chain_ex :
  view_gain (wrap (@cyber_core R ROps 5) (standalone (@roofing_core R ROps 48 10))) (INR 5 * INR 5 * roofing_gain 48 10).
Proof. apply (bibo_chain (LRoofing 48 10) (LCyberCycle 5)); cbn [lin_ok]; lia. Qed.

Example bibo_chain_list_ex :
  view_gain (chain_view [LEma 3; LLaguerre (4 / 5); LSuperSmoother 7]) (1 * (lag_gain (4 / 5) * (ss_gain 7 * 1))).
Proof.
  apply (bibo_chain_list [LEma 3; LLaguerre (4 / 5); LSuperSmoother 7]).
  repeat constructor; cbn [lin_ok]; try lia; lra.
Qed.
