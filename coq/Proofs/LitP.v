(** The literal models of ModelsLit.v (every Rust buffer kept as a list, every index computed) are
    observationally equal to the abstract cores of Models.v: same answers AND same errors on every
    history, same population.  Generic in the scalar [T]; the generic theorems are closed under the
    global context.  No law of [Ops T] is used for LaguerreFilter and LaguerreRSI; for CyberCycle the
    equality of ERRORS needs "division by the literal 6 never fails" ([div6_total], true at R, Q and
    binary64; shown necessary by [cyber_lit_equiv_generic_refuted]); without it the literal model
    refines the abstract one ([cyber_lit_refines]).
    Consequently every theorem about [laguerre_core], [lrsi_core], [cyber_core] transfers to the
    literal reading of the Rust. *)
From Coq Require Import List Arith Lia Bool ZArith.
From SF Require Import Res Scalar View Models Core ModelsLit.
From SF.Proofs Require Import Chain.
Import ListNotations.

(* ------------------------------------------------------------------ simulations between cores *)
Section Sim.
Context {T : Type}.

(** [m1] refines [m2] up to [R]; an error of [m1] is the same error of [m2], or one allowed by [P] *)
Definition lrel {A B} (R : A -> B -> Prop) (P : err -> Prop) (m1 : res A) (m2 : res B) : Prop :=
  match m1 with
  | Ok a => exists b, m2 = Ok b /\ R a b
  | Err e => m2 = Err e \/ P e
  end.

(** a (lax) simulation of core [c1] by core [c2] *)
Record lsim (c1 c2 : core T) (R : cst c1 -> cst c2 -> Prop) (P : err -> Prop) : Prop := {
  ls_new : lrel R P (cnew c1) (cnew c2);
  ls_step : forall a b v, R a b -> lrel R P (cstep c1 a v) (cstep c2 b v);
  ls_last : forall a b, R a b -> clast c1 a = clast c2 b }.

(** an exact simulation: no extra error allowed *)
Definition noerr : err -> Prop := fun _ => False.
Definition sim (c1 c2 : core T) (R : cst c1 -> cst c2 -> Prop) : Prop := lsim c1 c2 R noerr.

(** observational equality of two cores: the same answer (value, [None] or error) on every history *)
Definition core_equiv (c1 c2 : core T) : Prop := forall vs, cout c1 vs = cout c2 vs.

Lemma lsim_cfold c1 c2 R P : lsim c1 c2 R P ->
  forall vs a b, R a b -> lrel R P (cfold c1 a vs) (cfold c2 b vs).
Proof.
  intros HS. induction vs as [|v vs IH]; intros a b Hab; cbn.
  - exists b. auto.
  - pose proof (ls_step _ _ _ _ HS a b v Hab) as Hst. unfold lrel in Hst.
    destruct (cstep c1 a v) as [a'|e]; cbn.
    + destruct Hst as [b' [Hb' Hr]]. rewrite Hb'. cbn. apply IH. exact Hr.
    + destruct Hst as [Hb'|Hp]; [rewrite Hb'; cbn; left; reflexivity | right; exact Hp].
Qed.

Lemma lsim_crun c1 c2 R P : lsim c1 c2 R P -> forall vs, lrel R P (crun c1 vs) (crun c2 vs).
Proof.
  intros HS vs. unfold crun. pose proof (ls_new _ _ _ _ HS) as Hn. unfold lrel in Hn.
  destruct (cnew c1) as [a|e]; cbn.
  - destruct Hn as [b [Hb Hr]]. rewrite Hb. cbn. apply (lsim_cfold _ _ _ _ HS). exact Hr.
  - destruct Hn as [Hb|Hp]; [rewrite Hb; cbn; left; reflexivity | right; exact Hp].
Qed.

(** under a lax simulation: an answer of [c1] is the answer of [c2]; an error of [c1] is the same
    error of [c2] or one of the allowed errors *)
Theorem lsim_cout c1 c2 R P : lsim c1 c2 R P ->
  forall vs, match cout c1 vs with
             | Ok o => cout c2 vs = Ok o
             | Err e => cout c2 vs = Err e \/ P e
             end.
Proof.
  intros HS vs. unfold cout. pose proof (lsim_crun _ _ _ _ HS vs) as Hr. unfold lrel in Hr.
  destruct (crun c1 vs) as [a|e]; cbn.
  - destruct Hr as [b [Hb Hab]]. rewrite Hb. cbn. rewrite <- (ls_last _ _ _ _ HS a b Hab).
    destruct (clast c1 a); [reflexivity | left; reflexivity].
  - destruct Hr as [Hb|Hp]; [rewrite Hb; cbn; left; reflexivity | right; exact Hp].
Qed.

(** an exact simulation gives observational equality *)
Theorem sim_core_equiv c1 c2 R : sim c1 c2 R -> core_equiv c1 c2.
Proof.
  intros HS vs. pose proof (lsim_cout _ _ _ _ HS vs) as H.
  destruct (cout c1 vs) as [o|e]; [symmetry; exact H|].
  destruct H as [H|[]]. symmetry; exact H.
Qed.

(** ... and related final states *)
Theorem sim_crun c1 c2 R : sim c1 c2 R ->
  forall vs sl sa, crun c1 vs = Ok sl -> crun c2 vs = Ok sa -> R sl sa.
Proof.
  intros HS vs sl sa H1 H2. pose proof (lsim_crun _ _ _ _ HS vs) as Hr. rewrite H1 in Hr.
  destruct Hr as [b [Hb Hab]]. rewrite H2 in Hb. inversion Hb; subst. exact Hab.
Qed.

Theorem sim_cpop c1 c2 R : sim c1 c2 R -> (forall a b, R a b -> cpop c1 a = cpop c2 b) ->
  forall vs sl sa, crun c1 vs = Ok sl -> crun c2 vs = Ok sa -> cpop c1 sl = cpop c2 sa.
Proof. intros HS Hp vs sl sa H1 H2. apply Hp. exact (sim_crun _ _ _ HS vs sl sa H1 H2). Qed.

(** * Transfer *)

Lemma core_equiv_sym c1 c2 : core_equiv c1 c2 -> core_equiv c2 c1.
Proof. intros H vs. symmetry. apply H. Qed.
Lemma core_equiv_trans c1 c2 c3 : core_equiv c1 c2 -> core_equiv c2 c3 -> core_equiv c1 c3.
Proof. intros H1 H2 vs. rewrite H1. apply H2. Qed.

(** any property of the answers of [c2] (closed forms [cout c2 vs = Ok (spec vs)], bounds, absence of
    errors, ...) holds of [c1] *)
Theorem core_equiv_transfer c1 c2 (Q : list T -> res (option T) -> Prop) :
  core_equiv c1 c2 -> (forall vs, Q vs (cout c2 vs)) -> forall vs, Q vs (cout c1 vs).
Proof. intros He H vs. rewrite He. apply H. Qed.

Corollary core_equiv_transfer_on c1 c2 (D : list T -> Prop) (spec : list T -> option T) :
  core_equiv c1 c2 -> (forall vs, D vs -> cout c2 vs = Ok (spec vs)) ->
  forall vs, D vs -> cout c1 vs = Ok (spec vs).
Proof. intros He H vs Hd. rewrite He. apply H. exact Hd. Qed.

(** chain level ([Core.chain_cout]): the [t]-th output of [wrap c1 a] is the answer of the
    equivalent core [c2] on the inner view's outputs so far *)
Corollary core_equiv_chain_cout c1 c2 (a : view T) xs la outs :
  core_equiv c1 c2 -> mrun a xs = Ok la -> mrun (wrap c1 a) xs = Ok outs ->
  forall t o, nth_error outs t = Some o -> cout c2 (somes (firstn (S t) la)) = Ok o.
Proof. intros He Ha Hw t o Ht. rewrite <- He. exact (chain_cout c1 a xs Ha Hw t Ht). Qed.

(** view level: over ANY inner view the two wrappers produce the same run (values and first error) *)
Lemma sim_mrun_from_wrap c1 c2 R (a : view T) : sim c1 c2 R ->
  forall xs sa s1 s2, R s1 s2 -> mrun_from (wrap c1 a) (sa, s1) xs = mrun_from (wrap c2 a) (sa, s2) xs.
Proof.
  intros HS. induction xs as [|x xs IH]; intros sa s1 s2 Hr; cbn; [reflexivity|].
  destruct (vupd a sa x) as [sa'|e]; cbn; [|reflexivity].
  destruct (vlast a sa') as [[v|]|e]; cbn; [| |reflexivity].
  - pose proof (ls_step _ _ _ _ HS s1 s2 v Hr) as Hst. unfold lrel in Hst.
    destruct (cstep c1 s1 v) as [s1'|e]; cbn.
    + destruct Hst as [s2' [Hs2 Hr']]. rewrite Hs2. cbn. rewrite (ls_last _ _ _ _ HS _ _ Hr').
      rewrite (IH sa' s1' s2' Hr'). reflexivity.
    + destruct Hst as [Hs2|[]]. rewrite Hs2. reflexivity.
  - rewrite (ls_last _ _ _ _ HS _ _ Hr). rewrite (IH sa' s1 s2 Hr). reflexivity.
Qed.

Theorem sim_mrun_wrap c1 c2 R (a : view T) : sim c1 c2 R ->
  forall xs, mrun (wrap c1 a) xs = mrun (wrap c2 a) xs.
Proof.
  intros HS xs. unfold mrun. cbn. destruct (vnew a) as [sa|e]; cbn; [|reflexivity].
  pose proof (ls_new _ _ _ _ HS) as Hn. unfold lrel in Hn.
  destruct (cnew c1) as [s1|e]; cbn.
  - destruct Hn as [s2 [Hs2 Hr]]. rewrite Hs2. cbn. apply (sim_mrun_from_wrap _ _ _ a HS). exact Hr.
  - destruct Hn as [Hs2|[]]. rewrite Hs2. reflexivity.
Qed.

(** ... and hold the same population after any sequence of updates *)
Lemma sim_steps_wrap c1 c2 R (a : view T) : sim c1 c2 R ->
  forall xs sa s1 s2, R s1 s2 ->
  lrel (fun p q => fst p = fst q /\ R (snd p) (snd q)) noerr
       (steps (wrap c1 a) (sa, s1) xs) (steps (wrap c2 a) (sa, s2) xs).
Proof.
  intros HS. induction xs as [|x xs IH]; intros sa s1 s2 Hr; cbn.
  - exists (sa, s2). auto.
  - destruct (vupd a sa x) as [sa'|e]; cbn; [|left; reflexivity].
    destruct (vlast a sa') as [[v|]|e]; cbn; [| |left; reflexivity].
    + pose proof (ls_step _ _ _ _ HS s1 s2 v Hr) as Hst. unfold lrel in Hst.
      destruct (cstep c1 s1 v) as [s1'|e]; cbn.
      * destruct Hst as [s2' [Hs2 Hr']]. rewrite Hs2. cbn. apply IH. exact Hr'.
      * destruct Hst as [Hs2|[]]. rewrite Hs2. cbn. left; reflexivity.
    + apply IH. exact Hr.
Qed.

Theorem sim_vpop_wrap c1 c2 R (a : view T) : sim c1 c2 R ->
  (forall s1 s2, R s1 s2 -> cpop c1 s1 = cpop c2 s2) ->
  forall xs p q, state_after (wrap c1 a) xs = Ok p -> state_after (wrap c2 a) xs = Ok q ->
  vpop (wrap c1 a) p = vpop (wrap c2 a) q.
Proof.
  intros HS Hp xs p q H1 H2. unfold state_after in *. cbn in H1, H2.
  destruct (vnew a) as [sa|e]; cbn in *; [|discriminate].
  pose proof (ls_new _ _ _ _ HS) as Hn. unfold lrel in Hn.
  destruct (cnew c1) as [s1|e]; cbn in *; [|discriminate].
  destruct Hn as [s2 [Hs2 Hr]]. rewrite Hs2 in H2. cbn in H2.
  pose proof (sim_steps_wrap _ _ _ a HS xs sa s1 s2 Hr) as Hst. unfold lrel in Hst.
  change (steps (wrap c1 a) (sa, s1) xs = Ok p) in H1. rewrite H1 in Hst.
  destruct Hst as [q' [Hq' [Hf Hs]]].
  change (steps (wrap c2 a) (sa, s2) xs = Ok q) in H2. rewrite H2 in Hq'. inversion Hq'; subst q'.
  rewrite Hf. rewrite (Hp _ _ Hs). reflexivity.
Qed.

End Sim.

(* ------------------------------------------------------------------ the three views *)
Section Lit.
Context {T : Type} {OT : Ops T}.

(** * small facts on the monadic primitives *)
Lemma usub_ok a b : b <= a -> usub a b = Ok (a - b).
Proof. intros H. unfold usub. destruct (Nat.ltb a b) eqn:E; [apply Nat.ltb_lt in E; lia | reflexivity]. Qed.

Lemma getq_lt {A} (q : list A) i : i < length q -> exists x, getq q i = Ok x /\ nth_error q i = Some x.
Proof.
  intros H. unfold getq. destruct (nth_error q i) as [x|] eqn:E; [eauto|].
  apply nth_error_None in E. lia.
Qed.

Lemma getq_nth {A} (q : list A) i x : nth_error q i = Some x -> getq q i = Ok x.
Proof. intros H. unfold getq. rewrite H. reflexivity. Qed.

(* ---------------------------------------------------------------- LaguerreFilter *)

(** literal state vs abstract state: either nothing was received, or all five vectors hold
    [lg_len] (1 or 2) entries whose last ones are [lg_prev] and [lg_out] *)
Definition lag_rel (sl : @lagl_st T) (sa : @lag_st T) : Prop :=
  match lg_prev sa with
  | None => ll_l0s sl = [] /\ ll_l1s sl = [] /\ ll_l2s sl = [] /\ ll_l3s sl = [] /\ ll_filts sl = []
            /\ lg_out sa = None /\ lg_len sa = 0
  | Some (p0, p1, p2, p3) =>
      exists q0 q1 q2 q3 qf o k,
        ll_l0s sl = q0 ++ [p0] /\ ll_l1s sl = q1 ++ [p1] /\ ll_l2s sl = q2 ++ [p2] /\
        ll_l3s sl = q3 ++ [p3] /\ ll_filts sl = qf ++ [o] /\ lg_out sa = Some o /\
        length q0 = k /\ length q1 = k /\ length q2 = k /\ length q3 = k /\ length qf = k /\
        lg_len sa = S k /\ k <= 1
  end.

Ltac len1 q H := destruct q as [|? [|? ?]]; cbn in H; try discriminate H; try lia.

Lemma lag_step_sim g a b v : lag_rel a b ->
  lrel lag_rel noerr (laguerre_step_lit g a v) (laguerre_step g b v).
Proof.
  destruct a as [l0s l1s l2s l3s filts], b as [prev out len]. unfold lag_rel. cbn [lg_prev lg_out lg_len
    ll_l0s ll_l1s ll_l2s ll_l3s ll_filts].
  destruct prev as [[[[p0 p1] p2] p3]|].
  - intros (q0 & q1 & q2 & q3 & qf & o & k & -> & -> & -> & -> & -> & -> & H0 & H1 & H2 & H3 & Hf & -> & Hk).
    unfold laguerre_step_lit, laguerre_step, lag_ladder, lag_out, lrel.
    cbn [lg_prev lg_out lg_len ll_l0s ll_l1s ll_l2s ll_l3s ll_filts].
    destruct k as [|[|k]]; [| |lia].
    + destruct q0; [|discriminate]. destruct q1; [|discriminate]. destruct q2; [|discriminate].
      destruct q3; [|discriminate]. destruct qf; [|discriminate].
      cbn. match goal with |- context [sdiv ?x ?y] => destruct (sdiv x y) as [r|e] eqn:Ed end; cbn.
      * eexists. split; [reflexivity|]. cbn.
        exists [p0], [p1], [p2], [p3], [o], r, 1. cbn. repeat split; lia.
      * left; reflexivity.
    + destruct q0 as [|x0 [|? ?]]; try discriminate. destruct q1 as [|x1 [|? ?]]; try discriminate.
      destruct q2 as [|x2 [|? ?]]; try discriminate. destruct q3 as [|x3 [|? ?]]; try discriminate.
      destruct qf as [|xf [|? ?]]; try discriminate.
      cbn. match goal with |- context [sdiv ?x ?y] => destruct (sdiv x y) as [r|e] eqn:Ed end; cbn.
      * eexists. split; [reflexivity|]. cbn.
        exists [p0], [p1], [p2], [p3], [o], r, 1. cbn. repeat split; lia.
      * left; reflexivity.
  - intros (-> & -> & -> & -> & -> & -> & ->).
    unfold laguerre_step_lit, laguerre_step, lag_out, lrel.
    cbn. match goal with |- context [sdiv ?x ?y] => destruct (sdiv x y) as [r|e] eqn:Ed end; cbn.
    + eexists. split; [reflexivity|]. cbn.
      exists [], [], [], [], [], r, 0. cbn. repeat split; lia.
    + left; reflexivity.
Qed.

Lemma lag_last_sim a b : lag_rel a b -> Ok (last_opt (ll_filts a)) = Ok (lg_out b).
Proof.
  destruct a as [l0s l1s l2s l3s filts], b as [prev out len]. unfold lag_rel. cbn [lg_prev lg_out lg_len
    ll_l0s ll_l1s ll_l2s ll_l3s ll_filts].
  destruct prev as [[[[p0 p1] p2] p3]|].
  - intros (q0 & q1 & q2 & q3 & qf & o & k & _ & _ & _ & _ & -> & -> & _).
    unfold last_opt. rewrite rev_unit. reflexivity.
  - intros (_ & _ & _ & _ & -> & -> & _). reflexivity.
Qed.

(** the literal LaguerreFilter is simulated exactly by the abstract one *)
Theorem laguerre_lit_sim g : sim (laguerre_core_lit g) (laguerre_core g) lag_rel.
Proof.
  constructor.
  - cbn. eexists. split; [reflexivity|]. unfold lag_rel. cbn. repeat split.
  - intros a b v Hr. exact (lag_step_sim g a b v Hr).
  - intros a b Hr. exact (lag_last_sim a b Hr).
Qed.

(** MAIN: same answers and same errors on every history *)
Theorem laguerre_lit_equiv g : core_equiv (laguerre_core_lit g) (laguerre_core g).
Proof. exact (sim_core_equiv _ _ _ (laguerre_lit_sim g)). Qed.

Lemma lag_rel_pop g a b : lag_rel a b -> cpop (laguerre_core_lit g) a = cpop (laguerre_core g) b.
Proof.
  destruct a as [l0s l1s l2s l3s filts], b as [prev out len]. unfold lag_rel. cbn [lg_prev lg_out lg_len
    ll_l0s ll_l1s ll_l2s ll_l3s ll_filts cpop laguerre_core_lit laguerre_core].
  destruct prev as [[[[p0 p1] p2] p3]|].
  - intros (q0 & q1 & q2 & q3 & qf & o & k & -> & -> & -> & -> & -> & _ & H0 & H1 & H2 & H3 & Hf & -> & _).
    rewrite !app_length. cbn [length]. lia.
  - intros (-> & -> & -> & -> & -> & _ & ->). reflexivity.
Qed.

(** MAIN: the populations agree exactly (5 * min(2, #updates)) *)
Theorem laguerre_lit_pop g vs sl sa :
  crun (laguerre_core_lit g) vs = Ok sl -> crun (laguerre_core g) vs = Ok sa ->
  cpop (laguerre_core_lit g) sl = cpop (laguerre_core g) sa.
Proof. exact (sim_cpop _ _ _ (laguerre_lit_sim g) (lag_rel_pop g) vs sl sa). Qed.

(* ---------------------------------------------------------------- LaguerreRSI *)

(** all four queues hold [lr_len] (at most 3) entries; when non-empty their last entries are [lr_prev] *)
Definition lrsi_rel (sl : @lrsil_st T) (sa : T * @lrsi_st T) : Prop :=
  rl_gamma sl = fst sa /\ rl_value sl = lr_value (snd sa) /\
  ((rl_l0s sl = [] /\ rl_l1s sl = [] /\ rl_l2s sl = [] /\ rl_l3s sl = [] /\ lr_len (snd sa) = 0) \/
   (exists q0 q1 q2 q3 k p0 p1 p2 p3,
      lr_prev (snd sa) = (p0, p1, p2, p3) /\
      rl_l0s sl = q0 ++ [p0] /\ rl_l1s sl = q1 ++ [p1] /\ rl_l2s sl = q2 ++ [p2] /\ rl_l3s sl = q3 ++ [p3] /\
      length q0 = k /\ length q1 = k /\ length q2 = k /\ length q3 = k /\
      lr_len (snd sa) = S k /\ k <= 2)).

(** the computing branch, on queues with exactly two entries (after the optional [pop_front]) *)
Lemma lrsi_step_two g wl value x0 x1 x2 x3 p0 p1 p2 p3 len v :
  len = 2 \/ len = 3 ->
  forall l0 l1 l2 l3,
  (len = 2 -> l0 = [x0; p0] /\ l1 = [x1; p1] /\ l2 = [x2; p2] /\ l3 = [x3; p3]) ->
  (len = 3 -> exists y0 y1 y2 y3, l0 = [y0; x0; p0] /\ l1 = [y1; x1; p1] /\ l2 = [y2; x2; p2] /\ l3 = [y3; x3; p3]) ->
  lrel lrsi_rel noerr
    (lrsi_step_lit {| rl_value := value; rl_gamma := g; rl_l0s := l0; rl_l1s := l1; rl_l2s := l2;
                      rl_l3s := l3; rl_window_len := wl |} v)
    (do s' <- lrsi_step g {| lr_len := len; lr_prev := (p0, p1, p2, p3); lr_value := value |} v; Ok (g, s')).
Proof.
  intros Hlen l0 l1 l2 l3 H2 H3.
  assert (Hgoal : forall A B (m : res (T * T)) (f1 : T * T -> res A) (f2 : T * T -> res B) R,
            (forall p, m = Ok p -> lrel R noerr (f1 p) (f2 p)) ->
            lrel R noerr (bind m f1) (match m with Ok p => f2 p | Err e => Err e end)).
  { intros A B m f1 f2 R H. destruct m as [p|e]; cbn; [apply H; reflexivity | left; reflexivity]. }
  destruct Hlen as [-> | ->].
  - destruct (H2 eq_refl) as (-> & -> & -> & ->). clear H2 H3.
    unfold lrsi_step_lit, lrsi_step, lrsi_ratio, lag_ladder, lrel, pop_front_discard, get_opt, opt_geb.
    cbn.
    repeat match goal with |- context [if sgeb ?a ?b then _ else _] => destruct (sgeb a b) end; cbn;
    match goal with |- context [sneb ?a ?b] => destruct (sneb a b) end; cbn;
    try match goal with |- context [sdiv ?a ?b] => destruct (sdiv a b) end; cbn;
    try (left; reflexivity);
    (eexists; split; [reflexivity|]; unfold lrsi_rel; cbn; split; [reflexivity|]; split; [reflexivity|];
     right; do 4 (eexists [_; _]); exists 2; do 4 eexists; cbn; repeat split; lia).
  - destruct (H3 eq_refl) as (y0 & y1 & y2 & y3 & -> & -> & -> & ->). clear H2 H3.
    unfold lrsi_step_lit, lrsi_step, lrsi_ratio, lag_ladder, lrel, pop_front_discard, get_opt, opt_geb.
    cbn.
    repeat match goal with |- context [if sgeb ?a ?b then _ else _] => destruct (sgeb a b) end; cbn;
    match goal with |- context [sneb ?a ?b] => destruct (sneb a b) end; cbn;
    try match goal with |- context [sdiv ?a ?b] => destruct (sdiv a b) end; cbn;
    try (left; reflexivity);
    (eexists; split; [reflexivity|]; unfold lrsi_rel; cbn; split; [reflexivity|]; split; [reflexivity|];
     right; do 4 (eexists [_; _]); exists 2; do 4 eexists; cbn; repeat split; lia).
Qed.

Lemma lrsi_step_sim n a b v : lrsi_rel a b ->
  lrel lrsi_rel noerr (cstep (lrsi_core_lit n) a v) (cstep (lrsi_core n) b v).
Proof.
  destruct a as [value g l0s l1s l2s l3s wl], b as [g' [len prev value']].
  unfold lrsi_rel. cbn [rl_value rl_gamma rl_l0s rl_l1s rl_l2s rl_l3s rl_window_len fst snd lr_len lr_prev lr_value].
  intros (<- & <- & Hq). cbn [cstep lrsi_core_lit lrsi_core fst snd].
  destruct Hq as [(-> & -> & -> & -> & ->) | (q0 & q1 & q2 & q3 & k & p0 & p1 & p2 & p3 & -> & -> & -> & -> & -> & H0 & H1 & H2 & H3 & -> & Hk)].
  - unfold lrsi_step_lit, lrsi_step, lrel. cbn.
    eexists. split; [reflexivity|]. unfold lrsi_rel. cbn. split; [reflexivity|]. split; [reflexivity|].
    right. exists [], [], [], [], 0, s0, s0, s0, s0. cbn. repeat split; lia.
  - destruct k as [|[|[|k]]]; [| | |lia].
    + destruct q0; [|discriminate]. destruct q1; [|discriminate]. destruct q2; [|discriminate].
      destruct q3; [|discriminate].
      unfold lrsi_step_lit, lrsi_step, lrel. cbn.
      eexists. split; [reflexivity|]. unfold lrsi_rel. cbn. split; [reflexivity|]. split; [reflexivity|].
      right. exists [p0], [p1], [p2], [p3], 1, s0, s0, s0, s0. cbn. repeat split; lia.
    + destruct q0 as [|x0 [|? ?]]; try discriminate. destruct q1 as [|x1 [|? ?]]; try discriminate.
      destruct q2 as [|x2 [|? ?]]; try discriminate. destruct q3 as [|x3 [|? ?]]; try discriminate.
      apply (lrsi_step_two g wl value x0 x1 x2 x3 p0 p1 p2 p3 2 v (or_introl eq_refl)).
      * intros _. cbn. repeat split.
      * intros H; discriminate H.
    + destruct q0 as [|y0 [|x0 [|? ?]]]; try discriminate. destruct q1 as [|y1 [|x1 [|? ?]]]; try discriminate.
      destruct q2 as [|y2 [|x2 [|? ?]]]; try discriminate. destruct q3 as [|y3 [|x3 [|? ?]]]; try discriminate.
      apply (lrsi_step_two g wl value x0 x1 x2 x3 p0 p1 p2 p3 3 v (or_intror eq_refl)).
      * intros H; discriminate H.
      * intros _. exists y0, y1, y2, y3. cbn. repeat split.
Qed.

(** the literal LaguerreRSI is simulated exactly by the abstract one *)
Theorem lrsi_lit_sim n : sim (lrsi_core_lit n) (lrsi_core n) lrsi_rel.
Proof.
  constructor.
  - cbn [cnew lrsi_core_lit lrsi_core]. unfold lrel.
    destruct (sdiv (sofdec 2 0) (sadd (sofnat n) s1)) as [g|e]; cbn.
    + eexists. split; [reflexivity|]. unfold lrsi_rel. cbn. split; [reflexivity|]. split; [reflexivity|].
      left. repeat split.
    + left; reflexivity.
  - intros a b v Hr. exact (lrsi_step_sim n a b v Hr).
  - intros a b (_ & Hv & _). cbn. rewrite Hv. reflexivity.
Qed.

(** MAIN: same answers and same errors on every history *)
Theorem lrsi_lit_equiv n : core_equiv (lrsi_core_lit n) (lrsi_core n).
Proof. exact (sim_core_equiv _ _ _ (lrsi_lit_sim n)). Qed.

Lemma lrsi_rel_pop n a b : lrsi_rel a b -> cpop (lrsi_core_lit n) a = cpop (lrsi_core n) b.
Proof.
  destruct a as [value g l0s l1s l2s l3s wl], b as [g' [len prev value']].
  unfold lrsi_rel. cbn [rl_value rl_gamma rl_l0s rl_l1s rl_l2s rl_l3s rl_window_len fst snd lr_len lr_prev lr_value
    cpop lrsi_core_lit lrsi_core].
  intros (_ & _ & [(-> & -> & -> & -> & ->) | (q0 & q1 & q2 & q3 & k & p0 & p1 & p2 & p3 & _ & -> & -> & -> & -> & H0 & H1 & H2 & H3 & -> & _)]).
  - reflexivity.
  - rewrite !app_length. cbn [length]. lia.
Qed.

(** MAIN: the populations agree exactly *)
Theorem lrsi_lit_pop n vs sl sa :
  crun (lrsi_core_lit n) vs = Ok sl -> crun (lrsi_core n) vs = Ok sa ->
  cpop (lrsi_core_lit n) sl = cpop (lrsi_core n) sa.
Proof. exact (sim_cpop _ _ _ (lrsi_lit_sim n) (lrsi_rel_pop n) vs sl sa). Qed.

(* ---------------------------------------------------------------- CyberCycle *)

Lemma upd_nth_length (q : list T) i x : length (upd_nth q i x) = length q.
Proof. revert i. induction q as [|y q IH]; intros [|i]; cbn; try reflexivity. rewrite IH. reflexivity. Qed.

Lemma upd_nth_same (q : list T) i x : i < length q -> nth_error (upd_nth q i x) i = Some x.
Proof.
  revert i. induction q as [|y q IH]; intros [|i] H; cbn in *; try lia; [reflexivity|].
  apply IH. lia.
Qed.

Lemma upd_nth_other (q : list T) i j x : j <> i -> nth_error (upd_nth q i x) j = nth_error q j.
Proof.
  revert i j. induction q as [|y q IH]; intros [|i] [|j] H; cbn; try reflexivity; try congruence.
  apply IH. congruence.
Qed.

(** what the loop leaves in [smooth] *)
Lemma cc_loop_ok vals idx : forall sm sm',
  cc_loop vals idx sm = Ok sm' -> NoDup idx -> (forall i, In i idx -> i < length sm) ->
  length sm' = length sm /\
  (forall j, ~ In j idx -> nth_error sm' j = nth_error sm j) /\
  (forall i, In i idx -> exists x, cc_smooth_rhs vals i = Ok x /\ nth_error sm' i = Some x).
Proof.
  induction idx as [|i r IH]; intros sm sm' H Hnd Hlt; cbn in H.
  - inversion H; subst. split; [reflexivity|]. split; [reflexivity|]. intros i [].
  - destruct (cc_smooth_rhs vals i) as [x|e] eqn:Ex; cbn in H; [|discriminate].
    inversion Hnd as [|? ? Hni Hnd']; subst.
    destruct (IH _ _ H Hnd') as (Hl & Hout & Hin).
    { intros i' Hi'. rewrite upd_nth_length. apply Hlt. right. exact Hi'. }
    rewrite upd_nth_length in Hl. split; [exact Hl|]. split.
    + intros j Hj. rewrite Hout by (intros Hc; apply Hj; right; exact Hc).
      apply upd_nth_other. intros ->. apply Hj. left. reflexivity.
    + intros i' [<- | Hi'].
      * exists x. split; [exact Ex|]. rewrite (Hout i Hni). apply upd_nth_same. apply Hlt. left. reflexivity.
      * apply Hin. exact Hi'.
Qed.

(** the loop fails only where one right-hand side fails *)
Lemma cc_loop_err vals idx : forall sm e,
  cc_loop vals idx sm = Err e -> exists i, In i idx /\ cc_smooth_rhs vals i = Err e.
Proof.
  induction idx as [|i r IH]; intros sm e H; cbn in H; [discriminate|].
  destruct (cc_smooth_rhs vals i) as [x|e'] eqn:Ex; cbn in H.
  - destruct (IH _ _ H) as [i' [Hi' He]]. exists i'. split; [right; exact Hi' | exact He].
  - inversion H; subst. exists i. split; [left; reflexivity | exact Ex].
Qed.

(** on an index the loop visits, the literal right-hand side is the abstract [cc_smooth], and both
    are one division by six *)
Lemma cc_smooth_rhs_eq (vals : list T) i : 3 <= i < length vals ->
  cc_smooth_rhs vals i = cc_smooth vals i /\
  exists y, cc_smooth_rhs vals i = sdiv y (sofdec 6 0).
Proof.
  intros [H3 Hl]. unfold cc_smooth_rhs, cc_smooth.
  destruct (Nat.ltb i 3) eqn:E; [apply Nat.ltb_lt in E; lia|].
  rewrite (usub_ok i 1), (usub_ok i 2), (usub_ok i 3) by lia.
  destruct (getq_lt vals i Hl) as [a [-> _]]. cbn [bind].
  destruct (getq_lt vals (i - 1) ltac:(lia)) as [b [-> _]]. cbn [bind].
  destruct (getq_lt vals (i - 2) ltac:(lia)) as [c [-> _]]. cbn [bind].
  destruct (getq_lt vals (i - 3) ltac:(lia)) as [d [-> _]]. cbn [bind].
  split; [reflexivity|]. eexists. reflexivity.
Qed.

Lemma cc_loop_indices_full (sm : list T) n : length sm = n -> 3 <= n ->
  cc_loop_indices sm n = seq 3 (n - 3).
Proof.
  intros Hl H3. unfold cc_loop_indices. rewrite Hl.
  rewrite <- (seq_length n 0) at 1. rewrite firstn_all.
  destruct n as [|[|[|m]]]; try lia. replace (S (S (S m)) - 3) with m by lia. reflexivity.
Qed.

(** the only error the literal CyberCycle can add to the abstract one: a failing division by six
    (of a [smooth] entry that the abstract model does not compute, or computes in another order) *)
Definition div6_err (e : err) : Prop := exists y : T, sdiv y (sofdec 6 0) = Err e.

Definition cc_rel (n : nat) (sl : @ccl_st T) (sa : T * @cc_st T) : Prop :=
  cl_window_len sl = n /\ 3 <= n /\ cl_alpha sl = fst sa /\
  cl_vals sl = cc_vals (snd sa) /\ cl_out sl = cc_out (snd sa) /\
  length (cl_smooth sl) = n /\ (forall i, i < 3 -> nth_error (cl_smooth sl) i = Some s0) /\
  length (cl_vals sl) <= n /\ length (cl_out sl) = length (cl_vals sl).

Lemma cc_step_sim n a b v : cc_rel n a b ->
  lrel (cc_rel n) div6_err (cstep (cyber_core_lit n) a v) (cstep (cyber_core n) b v).
Proof.
  destruct a as [wl al vals out sm], b as [al' [vals' out']]. unfold cc_rel.
  cbn [cl_window_len cl_alpha cl_vals cl_out cl_smooth fst snd cc_vals cc_out].
  intros (-> & Hn & <- & <- & <- & Hsm & Hz & Hlv & Hlo).
  cbn [cstep cyber_core_lit cyber_core fst snd]. unfold cc_step_lit, cc_step, pop_front_discard.
  cbn [cl_window_len cl_alpha cl_vals cl_out cl_smooth cc_vals cc_out].
  assert (HX : exists V O, (if Nat.leb n (length vals) then (tl vals, tl out) else (vals, out)) = (V, O)
                           /\ length O = length V /\ length V < n).
  { destruct (Nat.leb n (length vals)) eqn:E.
    - apply Nat.leb_le in E. exists (tl vals), (tl out). split; [reflexivity|].
      destruct vals as [|x vals]; cbn in *; [lia|]. destruct out as [|y out]; cbn in *; [lia|]. lia.
    - apply Nat.leb_gt in E. exists vals, out. auto. }
  destruct HX as (V & O & -> & HlO & HlV).
  assert (HlV' : length (V ++ [v]) = S (length V)) by (rewrite app_length; cbn; lia).
  set (V' := V ++ [v]) in *.
  destruct (Nat.ltb (length V') n) eqn:E2.
  - apply Nat.ltb_lt in E2. unfold lrel. eexists. split; [reflexivity|]. unfold cc_rel.
    cbn [cl_window_len cl_alpha cl_vals cl_out cl_smooth fst snd cc_vals cc_out].
    repeat split; try assumption; try lia. rewrite app_length; cbn; lia.
  - apply Nat.ltb_ge in E2. assert (HV'n : length V' = n) by lia.
    rewrite (usub_ok (length V') 1) by lia. cbn [bind]. rewrite HV'n.
    rewrite (cc_loop_indices_full sm n Hsm Hn).
    assert (Hlast : Nat.ltb (n - 1) n = true) by (apply Nat.ltb_lt; lia). rewrite Hlast. cbn [bind].
    rewrite !(usub_ok (n - 1) 1), !(usub_ok (n - 1) 2) by lia. cbn [bind].
    destruct (cc_loop V' (seq 3 (n - 3)) sm) as [sm'|e] eqn:EL; cbn [bind].
    + destruct (cc_loop_ok V' (seq 3 (n - 3)) sm sm' EL (seq_NoDup _ _)) as (Hl' & Hout & Hin).
      { intros i Hi. apply in_seq in Hi. lia. }
      assert (Hsm' : forall i, i < n -> exists x, cc_smooth V' i = Ok x /\ getq sm' i = Ok x).
      { intros i Hi. destruct (Nat.lt_ge_cases i 3) as [Hi3|Hi3].
        - exists s0. split.
          + unfold cc_smooth. apply Nat.ltb_lt in Hi3. rewrite Hi3. reflexivity.
          + apply getq_nth. rewrite Hout; [apply Hz; exact Hi3|]. intros Hc. apply in_seq in Hc. lia.
        - destruct (Hin i) as [x [Hx Hnx]]; [apply in_seq; lia|].
          exists x. split; [|apply getq_nth; exact Hnx].
          destruct (cc_smooth_rhs_eq V' i ltac:(lia)) as [<- _]. exact Hx. }
      destruct (Hsm' (n - 1) ltac:(lia)) as [x0 [-> ->]].
      destruct (Hsm' (n - 1 - 1) ltac:(lia)) as [x1 [-> ->]].
      destruct (Hsm' (n - 1 - 2) ltac:(lia)) as [x2 [-> ->]]. cbn [bind].
      unfold lrel.
      destruct (getq O (n - 1 - 1)) as [o1|e]; cbn [bind]; [|left; reflexivity].
      destruct (getq O (n - 1 - 2)) as [o2|e]; cbn [bind]; [|left; reflexivity].
      eexists. split; [reflexivity|]. unfold cc_rel.
      cbn [cl_window_len cl_alpha cl_vals cl_out cl_smooth fst snd cc_vals cc_out].
      repeat split; try assumption; try lia.
      * intros i Hi. rewrite Hout; [apply Hz; exact Hi|]. intros Hc. apply in_seq in Hc. lia.
      * rewrite app_length; cbn; lia.
    + unfold lrel. right. destruct (cc_loop_err V' _ sm e EL) as [i [Hi He]].
      apply in_seq in Hi. destruct (cc_smooth_rhs_eq V' i ltac:(lia)) as [_ [y Hy]].
      exists y. rewrite <- Hy. exact He.
Qed.

Lemma cc_new_sim n : lrel (cc_rel n) noerr (cnew (cyber_core_lit n)) (cnew (cyber_core n)).
Proof.
  cbn [cnew cyber_core_lit cyber_core]. unfold lrel, assert.
  destruct (Nat.leb 3 n) eqn:E3; cbn [bind]; [|left; reflexivity]. apply Nat.leb_le in E3.
  destruct (sdiv (sofdec 2 0) (sadd (sofnat n) s1)) as [al|e]; cbn [bind]; [|left; reflexivity].
  eexists. split; [reflexivity|]. unfold cc_rel.
  cbn [cl_window_len cl_alpha cl_vals cl_out cl_smooth fst snd cc_vals cc_out length].
  repeat split; try lia.
  - apply repeat_length.
  - intros i Hi. destruct n as [|[|[|m]]]; try lia. destruct i as [|[|[|i]]]; try lia; reflexivity.
Qed.

Lemma cc_last_sim n a b : cc_rel n a b -> clast (cyber_core_lit n) a = clast (cyber_core n) b.
Proof. intros (_ & _ & _ & _ & Ho & _). cbn. rewrite Ho. reflexivity. Qed.

(** with no assumption on the scalar: the literal CyberCycle refines the abstract one; it can only
    add failures of a division by six *)
Theorem cyber_lit_lsim n : lsim (cyber_core_lit n) (cyber_core n) (cc_rel n) div6_err.
Proof.
  constructor.
  - pose proof (cc_new_sim n) as H. unfold lrel in *. destruct (cnew (cyber_core_lit n)); [exact H|].
    destruct H as [H|[]]. left; exact H.
  - intros a b v Hr. exact (cc_step_sim n a b v Hr).
  - intros a b Hr. exact (cc_last_sim n a b Hr).
Qed.

(** MAIN (unconditional): an answer of the literal model is the answer of the abstract model; an
    error of the literal model is the same error of the abstract model or a failed division by 6 *)
Theorem cyber_lit_refines n vs :
  match cout (cyber_core_lit n) vs with
  | Ok o => cout (cyber_core n) vs = Ok o
  | Err e => cout (cyber_core n) vs = Err e \/ div6_err e
  end.
Proof. exact (lsim_cout _ _ _ _ (cyber_lit_lsim n) vs). Qed.

(** division by the literal 6 never fails (true at [R], [Q] and binary64) *)
Definition div6_total : Prop := forall y : T, exists z, sdiv y (sofdec 6 0) = Ok z.

Theorem cyber_lit_sim n : div6_total -> sim (cyber_core_lit n) (cyber_core n) (cc_rel n).
Proof.
  intros H6. constructor.
  - exact (cc_new_sim n).
  - intros a b v Hr. pose proof (cc_step_sim n a b v Hr) as H. unfold lrel in *.
    destruct (cstep (cyber_core_lit n) a v) as [a'|e]; [exact H|].
    destruct H as [H|[y Hy]]; [left; exact H|]. destruct (H6 y) as [z Hz]. congruence.
  - intros a b Hr. exact (cc_last_sim n a b Hr).
Qed.

(** MAIN: same answers and same errors on every history, when division by 6 is total *)
Theorem cyber_lit_equiv n : div6_total -> core_equiv (cyber_core_lit n) (cyber_core n).
Proof. intros H6. exact (sim_core_equiv _ _ _ (cyber_lit_sim n H6)). Qed.

Lemma cc_rel_pop n a b : cc_rel n a b -> cpop (cyber_core_lit n) a = cpop (cyber_core n) b.
Proof.
  intros (_ & _ & _ & Hv & Ho & Hs & _). cbn. rewrite Hv, Ho, Hs. reflexivity.
Qed.

(** MAIN: the populations agree exactly (no assumption: related states whenever both runs succeed) *)
Theorem cyber_lit_pop n vs sl sa :
  crun (cyber_core_lit n) vs = Ok sl -> crun (cyber_core n) vs = Ok sa ->
  cpop (cyber_core_lit n) sl = cpop (cyber_core n) sa.
Proof.
  intros H1 H2. pose proof (lsim_crun _ _ _ _ (cyber_lit_lsim n) vs) as Hr. rewrite H1 in Hr.
  destruct Hr as [b [Hb Hab]]. rewrite H2 in Hb. inversion Hb; subst. apply cc_rel_pop. exact Hab.
Qed.

(** * chain-level corollaries: the literal wrappers over ANY inner view run exactly like the abstract ones *)
Corollary laguerre_lit_mrun g (a : view T) xs :
  mrun (wrap (laguerre_core_lit g) a) xs = mrun (wrap (laguerre_core g) a) xs.
Proof. exact (sim_mrun_wrap _ _ _ a (laguerre_lit_sim g) xs). Qed.
Corollary lrsi_lit_mrun n (a : view T) xs :
  mrun (wrap (lrsi_core_lit n) a) xs = mrun (wrap (lrsi_core n) a) xs.
Proof. exact (sim_mrun_wrap _ _ _ a (lrsi_lit_sim n) xs). Qed.
Corollary cyber_lit_mrun n (a : view T) xs : div6_total ->
  mrun (wrap (cyber_core_lit n) a) xs = mrun (wrap (cyber_core n) a) xs.
Proof. intros H6. exact (sim_mrun_wrap _ _ _ a (cyber_lit_sim n H6) xs). Qed.

End Lit.

(* ------------------------------------------------------------------ instances of [div6_total] *)
From Coq Require Import QArith Reals Lra.
From SF Require Import FloatOps.
Local Close Scope Q_scope.

Lemma div6_total_Q : @div6_total Q QOps.
Proof.
  intros y. exists (Qred (y / @sofdec Q QOps 6 0)).
  change (@sdiv Q QOps y (@sofdec Q QOps 6 0)) with (Qdiv_res y (@sofdec Q QOps 6 0)).
  unfold Qdiv_res.
  assert (E : Qeq_bool (@sofdec Q QOps 6 0) 0 = false) by (vm_compute; reflexivity).
  rewrite E. reflexivity.
Qed.

Lemma div6_total_R : @div6_total R ROps.
Proof.
  intros y. exists (y / @sofdec R ROps 6 0)%R.
  change (@sdiv R ROps y (@sofdec R ROps 6 0)) with (Rdiv_res y (@sofdec R ROps 6 0)).
  apply Rdiv_res_ok. cbn [sofdec ROps].
  replace (10 ^ Z.of_nat 0)%Z with 1%Z by reflexivity. lra.
Qed.

(** binary64 ([FloatOps.FOps]): IEEE division returns inf/NaN, never an error *)
Lemma div6_total_F : @div6_total PrimFloat.float FOps.
Proof. intros y. eexists. reflexivity. Qed.

(** the literal CyberCycle at the instances used in this development *)
Corollary cyber_lit_equiv_Q n : core_equiv (@cyber_core_lit Q QOps n) (@cyber_core Q QOps n).
Proof. exact (cyber_lit_equiv n div6_total_Q). Qed.
Corollary cyber_lit_equiv_R n : core_equiv (@cyber_core_lit R ROps n) (@cyber_core R ROps n).
Proof. exact (cyber_lit_equiv n div6_total_R). Qed.
Corollary cyber_lit_equiv_F n : core_equiv (@cyber_core_lit _ FOps n) (@cyber_core _ FOps n).
Proof. exact (cyber_lit_equiv n div6_total_F). Qed.

(** how a theorem about an abstract core transfers: e.g. any closed form / bound proved at [R] for
    [cyber_core] is a theorem about the literal model *)
Corollary cyber_lit_transfer_R n (Q : list R -> res (option R) -> Prop) :
  (forall vs, Q vs (cout (@cyber_core R ROps n) vs)) -> forall vs, Q vs (cout (@cyber_core_lit R ROps n) vs).
Proof. exact (core_equiv_transfer _ _ Q (cyber_lit_equiv_R n)). Qed.
Corollary laguerre_lit_transfer_R g (Q : list R -> res (option R) -> Prop) :
  (forall vs, Q vs (cout (@laguerre_core R ROps g) vs)) -> forall vs, Q vs (cout (@laguerre_core_lit R ROps g) vs).
Proof. exact (core_equiv_transfer _ _ Q (laguerre_lit_equiv g)). Qed.
Corollary lrsi_lit_transfer_R n (Q : list R -> res (option R) -> Prop) :
  (forall vs, Q vs (cout (@lrsi_core R ROps n) vs)) -> forall vs, Q vs (cout (@lrsi_core_lit R ROps n) vs).
Proof. exact (core_equiv_transfer _ _ Q (lrsi_lit_equiv n)). Qed.

(** The hypothesis [div6_total] cannot be dropped from [cyber_lit_equiv]: the literal loop divides by
    six at EVERY index 3..N-1, the abstract model only at the three indices it reads (N-1, N-2, N-3, in
    that order).  With a scalar whose division fails on the numerator 6, window 7 and the history
    1,1,1,1,0,0,0 (smooth[3] has numerator 6; smooth[4..6] have 5, 3, 1) the literal model fails and
    the abstract one answers. *)
Definition QOps_div6 : Ops Q := {|
  s0 := @s0 Q QOps; s1 := @s1 Q QOps; sadd := @sadd Q QOps; ssub := @ssub Q QOps; smul := @smul Q QOps;
  sneg := @sneg Q QOps; sabs := @sabs Q QOps;
  sdiv := fun a b => if Qeq_bool a 6 then Err NonFinite else Qdiv_res a b;
  sltb := @sltb Q QOps; sleb := @sleb Q QOps; seqb := @seqb Q QOps;
  sofnat := @sofnat Q QOps; sofdec := @sofdec Q QOps;
  ssqrt := @ssqrt Q QOps; sexp := @sexp Q QOps; sln := @sln Q QOps; scos := @scos Q QOps;
  ssin := @ssin Q QOps; stanh := @stanh Q QOps; slog2 := @slog2 Q QOps |}.

Theorem cyber_lit_equiv_generic_refuted :
  exists (OT' : Ops Q) (n : nat) (vs : list Q) (o : Q),
    cout (@cyber_core_lit Q OT' n) vs = Err NonFinite /\ cout (@cyber_core Q OT' n) vs = Ok (Some o).
Proof.
  exists QOps_div6, 7%nat, [1; 1; 1; 1; 0; 0; 0]%Q. eexists. split; vm_compute; reflexivity.
Qed.

(* ------------------------------------------------------------------ examples at Q *)
Definition ex_hist : list Q := [3; 1; 4; 1; 5; 9; 2; 6; 5; 3; 5; 8]%Q.

(** answers after every prefix of the 12-step history (13 answers, starting with the empty one) *)
Definition answers (c : core Q) (vs : list Q) : list (res (option Q)) :=
  map (fun k => cout c (firstn k vs)) (seq 0 (S (length vs))).
Definition pops (c : core Q) (vs : list Q) : list (option nat) :=
  map (fun k => match crun c (firstn k vs) with Ok s => Some (cpop c s) | Err _ => None end)
      (seq 0 (S (length vs))).

Example laguerre_lit_ex :
  answers (@laguerre_core_lit Q QOps (1#2)%Q) ex_hist = answers (@laguerre_core Q QOps (1#2)%Q) ex_hist
  /\ pops (@laguerre_core_lit Q QOps (1#2)%Q) ex_hist = pops (@laguerre_core Q QOps (1#2)%Q) ex_hist
  /\ (exists q, cout (@laguerre_core_lit Q QOps (1#2)%Q) ex_hist = Ok (Some q)).
Proof. split; [vm_compute; reflexivity|]. split; [vm_compute; reflexivity|]. eexists. vm_compute. reflexivity. Qed.

Example lrsi_lit_ex :
  answers (@lrsi_core_lit Q QOps 5%nat) ex_hist = answers (@lrsi_core Q QOps 5%nat) ex_hist
  /\ pops (@lrsi_core_lit Q QOps 5%nat) ex_hist = pops (@lrsi_core Q QOps 5%nat) ex_hist
  /\ (exists q, cout (@lrsi_core_lit Q QOps 5%nat) ex_hist = Ok (Some q)).
Proof. split; [vm_compute; reflexivity|]. split; [vm_compute; reflexivity|]. eexists. vm_compute. reflexivity. Qed.

Example cyber_lit_ex :
  answers (@cyber_core_lit Q QOps 6%nat) ex_hist = answers (@cyber_core Q QOps 6%nat) ex_hist
  /\ pops (@cyber_core_lit Q QOps 6%nat) ex_hist = pops (@cyber_core Q QOps 6%nat) ex_hist
  /\ (exists q, cout (@cyber_core_lit Q QOps 6%nat) ex_hist = Ok (Some q)).
Proof. split; [vm_compute; reflexivity|]. split; [vm_compute; reflexivity|]. eexists. vm_compute. reflexivity. Qed.

(** the constructor errors coincide too: [CyberCycle::new(_, 2)] panics in both *)
Example cyber_lit_ex_assert :
  cout (@cyber_core_lit Q QOps 2%nat) ex_hist = Err AssertFailed /\ cout (@cyber_core Q QOps 2%nat) ex_hist = Err AssertFailed.
Proof. split; vm_compute; reflexivity. Qed.

(** the hypothesis of the conditional theorem is satisfiable *)
Example div6_total_ex : @div6_total Q QOps /\ @div6_total R ROps.
Proof. split; [exact div6_total_Q | exact div6_total_R]. Qed.

Print Assumptions laguerre_lit_equiv.
Print Assumptions laguerre_lit_pop.
Print Assumptions laguerre_lit_mrun.
Print Assumptions lrsi_lit_equiv.
Print Assumptions lrsi_lit_pop.
Print Assumptions lrsi_lit_mrun.
Print Assumptions cyber_lit_refines.
Print Assumptions cyber_lit_equiv.
Print Assumptions cyber_lit_pop.
Print Assumptions cyber_lit_mrun.
Print Assumptions cyber_lit_equiv_Q.
Print Assumptions cyber_lit_equiv_R.
Print Assumptions cyber_lit_equiv_F.
Print Assumptions cyber_lit_equiv_generic_refuted.
Print Assumptions core_equiv_transfer.
Print Assumptions core_equiv_chain_cout.
Print Assumptions sim_vpop_wrap.
