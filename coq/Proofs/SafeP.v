(** C15 ("no panic") and C08 (readiness) — top file.

    Layout:  SafeBase (generic: [Safe], [InvOf], (a)-(c), [safe_run], [ReadyAt], [CReadyMono], [VSafe],
             [wrap_safe], [wrap_starved], [wrap_ready_mono], [vsafe_mrun]);
             SafeA  sma;  SafeA2 cumulative min max roc;  SafeB welford(+mean,var) vst vsct hln entropy;
             SafeC  cog cti net myrsi alma rsi;  SafeD ss roofing trendflex reflex cyber;
             SafeE  pfe eft over a safe MA view;  SafeF ema laguerre lrsi gte lte drawdown lnret wrolling;
             SafeV  constant / binary combinators / tanh;  SafeAll every descriptor ([good_denote],
             [no_panic], [readiness_never_reverts]).
    This file: the (a)-(c) form of the task statement, the link to the warm-up lengths of SpecSafe.v,
    window-0 counterexamples, and the assumption audit. *)
From Coq Require Import List Arith Lia Reals Lra ZArith.
From SF Require Import Res Scalar View Models Spec Core SpecSafe.
From SF.Proofs Require Import Window RBase.
From SF.Proofs Require Export SafeBase SafeTac SafeA SafeA2 SafeB SafeC SafeD SafeE SafeF SafeV SafeAll.
Import ListNotations.
Open Scope R_scope.

(** * The task's (a), (b), (c) and [safe_c], derived once for every core that has a [Safe] record *)
Theorem safe_abc (c : core R) (D : R -> Prop) (I : nat -> cst c -> Prop) : Safe c D I ->
  (forall s0, cnew c = Ok s0 -> InvOf c I s0) /\
  (forall s v, InvOf c I s -> D v -> exists s', cstep c s v = Ok s' /\ InvOf c I s') /\
  (forall s, InvOf c I s -> exists o, clast c s = Ok o) /\
  (forall vs, Forall D vs -> exists s o, crun c vs = Ok s /\ clast c s = Ok o).
Proof.
  intros H. split; [exact (inv_init H)|]. split; [exact (@inv_step R c D I H)|].
  split; [exact (@inv_last R c D I H)|]. exact (@safe_run R c D I H).
Qed.
(** e.g. for Rsi *)
Example safe_abc_rsi := fun n (Hn : (1 <= n)%nat) => safe_abc _ _ _ (rsi_safe n Hn).

(** * Warm-up lengths in terms of the specification functions of SpecSafe.v *)
Lemma spec_ready_false n0 (vs : list R) : @spec_ready R n0 vs = false <-> (length vs < n0)%nat.
Proof. unfold spec_ready. destruct (Nat.leb_spec n0 (length vs)); split; intros; try lia; try discriminate; reflexivity. Qed.

Ltac by_warmup W := rewrite spec_ready_false; apply W; assumption.

(** C08 warm-up: Sma, Ema, SuperSmoother, Rsi, MyRSI report nothing for fewer than N values and report from the N-th on *)
Theorem warmup_spec_sma n vs : (1 <= n)%nat ->
  (cout (@sma_core R ROps n) vs = Ok None <-> @spec_ready R (wu_window n) vs = false).
Proof. intros. by_warmup warmup_sma. Qed.
Theorem warmup_spec_ema n vs :
  (cout (@ema_core R ROps n) vs = Ok None <-> @spec_ready R (wu_window n) vs = false).
Proof. rewrite spec_ready_false. apply warmup_ema. Qed.
Theorem warmup_spec_ss n vs : (1 <= n)%nat ->
  (cout (@ss_core R ROps n) vs = Ok None <-> @spec_ready R (wu_window n) vs = false).
Proof. intros. by_warmup warmup_ss. Qed.
Theorem warmup_spec_rsi n vs : (1 <= n)%nat ->
  (cout (@rsi_core R ROps n) vs = Ok None <-> @spec_ready R (wu_window n) vs = false).
Proof. intros. by_warmup warmup_rsi. Qed.
Theorem warmup_spec_myrsi n vs : (1 <= n)%nat ->
  (cout (@myrsi_core R ROps n) vs = Ok None <-> @spec_ready R (wu_window n) vs = false).
Proof. intros. by_warmup warmup_myrsi. Qed.
(** RoofingFilter(N,M) reports from value N+M+1 *)
Theorem warmup_spec_roofing n m vs : (2 <= n)%nat -> (1 <= m)%nat ->
  (cout (@roofing_core R ROps n m) vs = Ok None <-> @spec_ready R (wu_roofing n m) vs = false).
Proof. intros. by_warmup warmup_roofing. Qed.
(** LnReturn from the 2nd value (positive inputs) *)
Theorem warmup_spec_lnret vs : Forall pos vs ->
  (cout (@lnret_core R ROps) vs = Ok None <-> @spec_ready R wu_lnret vs = false).
Proof. intros. by_warmup warmup_lnret. Qed.
(** WelfordOnline, Vst, Vsct: exactly from value N-1 (so: no earlier than N-1, no later than N) *)
Theorem warmup_spec_welford n vs : (1 <= n)%nat ->
  (cout (@welford_core R ROps n) vs = Ok None <-> @spec_ready R (wu_welford n) vs = false).
Proof. intros. by_warmup warmup_welford. Qed.
Theorem warmup_spec_vst n vs : (1 <= n)%nat ->
  (cout (@vst_core R ROps n) vs = Ok None <-> @spec_ready R (wu_welford n) vs = false).
Proof. intros. by_warmup warmup_vst. Qed.
Theorem warmup_spec_vsct n vs : (1 <= n)%nat ->
  (cout (@vsct_core R ROps n) vs = Ok None <-> @spec_ready R (wu_welford n) vs = false).
Proof. intros. by_warmup warmup_vsct. Qed.
(** Min, Max, Cumulative, Alma, CenterOfGravity, BinaryEntropy, GTE, LTE, LaguerreFilter: from the 1st value *)
Theorem warmup_spec_first n clip g vs : (1 <= n)%nat ->
  (cout (@min_core R ROps n) vs = Ok None <-> @spec_ready R wu_first vs = false) /\
  (cout (@max_core R ROps n) vs = Ok None <-> @spec_ready R wu_first vs = false) /\
  (cout (@cumulative_core R ROps n) vs = Ok None <-> @spec_ready R wu_first vs = false) /\
  (cout (@alma_core R ROps n) vs = Ok None <-> @spec_ready R wu_first vs = false) /\
  (cout (@cog_core R ROps n) vs = Ok None <-> @spec_ready R wu_first vs = false) /\
  (cout (@entropy_core R ROps n) vs = Ok None <-> @spec_ready R wu_first vs = false) /\
  (cout (@gte_core R ROps clip) vs = Ok None <-> @spec_ready R wu_first vs = false) /\
  (cout (@lte_core R ROps clip) vs = Ok None <-> @spec_ready R wu_first vs = false) /\
  (cout (@laguerre_core R ROps g) vs = Ok None <-> @spec_ready R wu_first vs = false).
Proof.
  intros Hn. rewrite spec_ready_false. unfold wu_first.
  repeat split; intros H;
    first [ apply (warmup_min n vs Hn); exact H | apply (warmup_max n vs Hn); exact H
          | apply (warmup_cumulative n vs Hn); exact H | apply (warmup_alma n vs Hn); exact H
          | apply (warmup_cog n vs); exact H | apply (warmup_entropy n vs Hn); exact H
          | apply (warmup_gte clip vs); exact H | apply (warmup_lte clip vs); exact H
          | apply (warmup_laguerre g vs); exact H ].
Qed.
(** Echo reports from the 1st value; Tanh reports exactly when its child does (see [tanh_pointwise] in Pure.v) *)
Theorem warmup_echo (xs : list R) outs : mrun (@echo R) xs = Ok outs -> outs = map Some xs.
Proof.
  unfold mrun. cbn. intros H. rewrite (Chain.mrun_from_echo None xs) in H. inversion H. reflexivity.
Qed.

(** * Warm-up counted in *delivered* values: in a chain [W(A)], the wrapper [W] (threshold [n0]) reports
    nothing at step [t] iff its inner view has delivered fewer than [n0] values so far *)
Theorem chain_warmup (c : core R) (D : R -> Prop) (I : nat -> cst c -> Prop) n0 (a : view R) xs la outs :
  Safe c D I -> ReadyAt c I n0 -> mrun a xs = Ok la -> Forall D (somes la) ->
  mrun (wrap c a) xs = Ok outs ->
  forall t o, nth_error outs t = Some o -> (o = None <-> (length (somes (firstn (S t) la)) < n0)%nat).
Proof.
  intros Hs Hr Ha HD Hw t o Ht.
  pose proof (@chain_cout R c a xs la outs Ha Hw t o Ht) as Hc.
  assert (HD' : Forall D (somes (firstn (S t) la))).
  { rewrite <- (firstn_skipn (S t) la), somes_app in HD. apply Forall_app in HD. exact (proj1 HD). }
  pose proof (@warmup_none R c D I Hs n0 Hr _ HD') as Hw0. rewrite Hc in Hw0.
  split; intros H.
  - apply Hw0. rewrite H. reflexivity.
  - apply Hw0 in H. inversion H. reflexivity.
Qed.
(** stand-alone (over Echo): at step [t] exactly [t+1] values have been delivered *)
Corollary standalone_warmup (c : core R) (D : R -> Prop) (I : nat -> cst c -> Prop) n0 xs outs :
  Safe c D I -> ReadyAt c I n0 -> Forall D xs -> mrun (standalone c) xs = Ok outs ->
  forall t o, nth_error outs t = Some o -> (o = None <-> (length (firstn (S t) xs) < n0)%nat).
Proof.
  intros Hs Hr HD Hw t o Ht.
  assert (Ha : mrun (@echo R) xs = Ok (map Some xs)) by (unfold mrun; cbn; apply Chain.mrun_from_echo).
  assert (HD' : Forall D (somes (map Some xs))) by (rewrite somes_map_Some; exact HD).
  pose proof (@chain_warmup c D I n0 (@echo R) xs (map Some xs) outs Hs Hr Ha HD' Hw t o Ht) as H.
  rewrite firstn_map, somes_map_Some in H. exact H.
Qed.
(** e.g. Sma(Ema(Echo)) : the Sma part of the chain answers at step t iff Ema has delivered >= n values *)
Example chain_warmup_sma n a xs la outs (Hn : (1 <= n)%nat) :=
  @chain_warmup _ _ _ n a xs la outs (sma_safe n Hn) (sma_ready n Hn).

(** * Window 0: constructors that accept it although the view then fails (outside C15's N >= 1) *)
Theorem sma_window0_fails : cout (@sma_core R ROps 0) [] = Err NonFinite.
Proof.
  unfold cout, crun. cbn [cnew sma_core bind cfold clast]. unfold sma_last. cbn [sma_q sma_sum length Nat.ltb Nat.leb].
  cbn [sdiv sofnat ROps INR]. unfold Rdiv_res. destruct (Req_EM_T 0 0); [reflexivity | contradiction].
Qed.
Theorem cumulative_window0_fails v : cout (@cumulative_core R ROps 0) [v] = Err UnwrapNone.
Proof. reflexivity. Qed.
Theorem roc_window0_fails v : cout (@roc_core R ROps 0) [v] = Err UnwrapNone.
Proof. reflexivity. Qed.

(** * The constructors that reject short windows *)
Theorem new_rejects :
  cnew (@min_core R ROps 0) = Err AssertFailed /\ cnew (@max_core R ROps 0) = Err AssertFailed /\
  cnew (@welford_core R ROps 0) = Err AssertFailed /\
  (forall n, (n <= 2)%nat -> cnew (@cyber_core R ROps n) = Err AssertFailed) /\
  (forall n ma, (n <= 2)%nat -> cnew (@pfe_core R ROps n ma) = Err AssertFailed) /\
  (forall n ma, (n <= 1)%nat -> cnew (@eft_core R ROps n ma) = Err AssertFailed) /\
  (forall n m, (n <= 1)%nat -> cnew (@roofing_core R ROps n m) = Err AssertFailed).
Proof.
  split; [exact new_rejects_min|]. split; [exact new_rejects_max|]. split; [exact new_rejects_welford|].
  split; [exact new_rejects_cyber|]. split; [intros n ma; exact (new_rejects_pfe ma n)|].
  split; [intros n ma; exact (new_rejects_eft ma n)|]. exact new_rejects_roofing.
Qed.

(** * Hypotheses are satisfiable *)
Example no_panic_example xs :
  exists outs, mrun (@denote R ROps
     (DEft 5 (DAdd (DSma 3 (DRsi 2 DEcho)) (DRoofing 2 1 (DCyber 3 DEcho))) (DEma 4 (DPfe 3 DEcho (DSs 1 DEcho))))) xs = Ok outs.
Proof. apply (no_panic _ anyR xs okd_example). apply Forall_forall. intros; exact I. Qed.
Example no_panic_example_pos : exists outs,
  mrun (@denote R ROps (DDiv (DLnReturn DEcho) DEcho)) [1; 2; 1/2] = Ok outs.
Proof. apply (no_panic _ pos _ okd_example_div). apply safe_F_pos_hyps. Qed.

Print Assumptions safe_abc.
Print Assumptions chain_warmup.
Print Assumptions standalone_warmup.
Print Assumptions good_denote.
Print Assumptions no_panic.
Print Assumptions readiness_never_reverts.
Print Assumptions wrap_safe.
Print Assumptions wrap_starved.
Print Assumptions wrap_ready_mono.
Print Assumptions warmup_spec_first.
Print Assumptions warmup_spec_roofing.
Print Assumptions warmup_spec_rsi.
Print Assumptions warmup_spec_welford.
Print Assumptions warmup_spec_lnret.
Print Assumptions new_rejects.
Print Assumptions safe_pfe.
Print Assumptions safe_eft.
Print Assumptions ready_mono_pfe.
Print Assumptions ready_mono_eft.

(** the specification functions run at Q *)
From Coq Require QArith.
Example spec_ready_Q :
  @spec_ready QArith_base.Q 3 [QArith_base.Qmake 1 1; QArith_base.Qmake 2 1] = false /\
  @spec_all_pos QArith_base.Q QOps [QArith_base.Qmake 1 2; QArith_base.Qmake 0 1] = false.
Proof. split; vm_compute; reflexivity. Qed.
