(** Gap closure: index of the main theorems (C03 PFE finite memory; C07 Tanh / GTE / LTE / Min-Sma-Max
    ranges; C08 starved wrapper, whole-history Rsi / MyRSI; C13 variance by moments).
    The proofs are in [GapA] (part A), [GapB] (part B), [GapC] (parts C and D). *)
From Coq Require Import List Reals.
From SF Require Import Res Scalar View Models Spec Core SpecGap.
From SF.Proofs Require Export GapA GapB GapC.

(** A *)
Check pfe_closed_form_full.
Check pfe_finite_memory_gen.
Check sma_view_finite_memory.
Check pfe_sma_finite_memory.
Check pfe_memory_bound_tight.
(** B *)
Check tanh_range.
Check gte_ge_clip.
Check lte_le_clip.
Check min_le_sma_le_max.
Check min_le_alma_custom_le_max.
Check min_le_alma_le_max.
Check min_le_sma_le_max_run.
(** C *)
Check @starved_constant.
Check @starved_constant_run.
Check rsi_rising_whole.
Check myrsi_rising_whole.
Check rsi_falling_whole.
Check myrsi_falling_whole.
Check whole_n1_values.
(** D *)
Check spec_rvar_is_moments.
Check wrolling_std_is_sqrt_var.

Print Assumptions pfe_finite_memory_gen.
Print Assumptions pfe_sma_finite_memory.
Print Assumptions tanh_range.
Print Assumptions gte_ge_clip.
Print Assumptions lte_le_clip.
Print Assumptions min_le_sma_le_max.
Print Assumptions min_le_alma_le_max.
Print Assumptions starved_constant.
Print Assumptions rsi_rising_whole.
Print Assumptions myrsi_rising_whole.
Print Assumptions rsi_falling_whole.
Print Assumptions myrsi_falling_whole.
Print Assumptions wrolling_std_is_sqrt_var.
