(** Lifting closed forms from stand-alone cores to arbitrary chains: if a core's answer after every
    history is given by a specification, then inside ANY chain (any inner view, catalogue member or
    not) its answer at step [t] is that specification applied to the values the inner view has
    delivered so far.  Generic in the scalar; axiom-free. *)
From Coq Require Import List Arith Lia.
From SF Require Import Res Scalar View Core.
From SF.Proofs Require Import Chain.
Import ListNotations.

Section ChainSpec.
Context {T : Type}.

Lemma mrun_from_length (v : view T) s xs l : mrun_from v s xs = Ok l -> length l = length xs.
Proof.
  revert s l. induction xs as [|x xs IH]; intros s l H; cbn in H.
  - inversion H; subst. reflexivity.
  - destruct (vupd v s x) as [s'|e]; cbn in H; [|discriminate].
    destruct (vlast v s') as [o|e]; cbn in H; [|discriminate].
    destruct (mrun_from v s' xs) as [r|e] eqn:Er; cbn in H; [|discriminate].
    inversion H; subst. cbn. f_equal. eapply IH. exact Er.
Qed.

(** [core_spec c P spec]: on every history satisfying the guard [P], core [c] answers [spec] *)
Definition core_spec (c : core T) (P : list T -> Prop) (spec : list T -> option T) : Prop :=
  forall vs, P vs -> cout c vs = Ok (spec vs).

Theorem chain_closed_form (c : core T) (P : list T -> Prop) (spec : list T -> option T) :
  core_spec c P spec ->
  forall (a : view T) xs la outs, mrun a xs = Ok la -> mrun (wrap c a) xs = Ok outs ->
  forall t o, nth_error outs t = Some o -> P (somes (firstn (S t) la)) ->
  o = spec (somes (firstn (S t) la)).
Proof.
  intros Hs a xs la outs Ha Hw t o Ht HP.
  pose proof (@chain_cout T c a xs la outs Ha Hw t o Ht) as Hc.
  rewrite (Hs _ HP) in Hc. inversion Hc. reflexivity.
Qed.

(** stand-alone use is the special case of the inner view [Echo] *)
Theorem standalone_closed_form (c : core T) (P : list T -> Prop) (spec : list T -> option T) :
  core_spec c P spec ->
  forall xs outs, mrun (standalone c) xs = Ok outs ->
  forall t o, nth_error outs t = Some o -> P (firstn (S t) xs) -> o = spec (firstn (S t) xs).
Proof.
  intros Hs xs outs Hw t o Ht HP.
  pose proof (@standalone_cout T c xs outs Hw t o Ht) as Hc.
  rewrite (Hs _ HP) in Hc. inversion Hc. reflexivity.
Qed.

(** two-level chains compose: the outer wrapper sees the specification of the inner one *)
Theorem chain2_closed_form (c1 c2 : core T) P1 spec1 P2 spec2 :
  core_spec c1 P1 spec1 -> core_spec c2 P2 spec2 ->
  forall xs l1 outs, mrun (standalone c1) xs = Ok l1 -> mrun (wrap c2 (standalone c1)) xs = Ok outs ->
  (forall t, t < length xs -> P1 (firstn (S t) xs)) ->
  forall t o, nth_error outs t = Some o -> P2 (somes (firstn (S t) l1)) ->
  o = spec2 (somes (firstn (S t) l1)) /\
  forall k o1, nth_error l1 k = Some o1 -> o1 = spec1 (firstn (S k) xs).
Proof.
  intros H1 H2 xs l1 outs Hl Hw HP1 t o Ht HP2. split.
  - eapply chain_closed_form; eassumption.
  - intros k o1 Hk. eapply standalone_closed_form; try eassumption.
    apply HP1. assert (Hlen : length l1 = length xs).
    { clear - Hl. unfold mrun in Hl. destruct (vnew (standalone c1)) as [s|e]; cbn [bind] in Hl; [|discriminate].
      eapply mrun_from_length; exact Hl. }
    rewrite <- Hlen. apply nth_error_Some. rewrite Hk. discriminate.
Qed.

End ChainSpec.
Print Assumptions chain_closed_form.
Print Assumptions chain2_closed_form.
