(** C09 for LaguerreFilter (0 <= gamma < 1): a low-pass section followed by three all-pass sections.
    BIBO: each all-pass section has gain k = (1+g)/(1-g); the output gain is (1 + 2k + 2k^2 + k^3)/6.
    Fading: the zero-input response after k steps is at most  k^3 V (2k+1)^3 g^(k-3). *)
From Coq Require Import List Arith Lia ZArith Reals Lra.
From SF Require Import Res Scalar View Models Spec Core SpecLin SpecStab.
From SF.Proofs Require Import Window RBase LinBase LinLag LinLinear LinDC StabBase.
Import ListNotations.
Open Scope R_scope.
Local Existing Instance ROps.

Definition lag_k (g : R) : R := (1 + g) / (1 - g).
Definition lag_gain (g : R) : R := (1 + 2 * lag_k g + 2 * (lag_k g * lag_k g) + lag_k g * lag_k g * lag_k g) / 6.

Lemma stab_lag_k_R g : g <> 1 -> @stab_lag_k R ROps g = lag_k g.
Proof. intros H. unfold stab_lag_k, lag_k. cbn [sadd ssub s1 ROps]. apply sdivd_R. lra. Qed.
Lemma stab_lag_gain_R g : g <> 1 -> @stab_lag_gain R ROps g = lag_gain g.
Proof.
  intros H. unfold stab_lag_gain, lag_gain. cbv zeta. rewrite stab_lag_k_R by exact H.
  rewrite l_two_R, l_six_R, sdivd_six. reflexivity.
Qed.

Lemma lag_k_ge1 g : 0 <= g < 1 -> 1 <= lag_k g /\ lag_k g * (1 - g) = 1 + g.
Proof.
  intros Hg. unfold lag_k. split; [|field; lra].
  apply (Rmult_le_reg_r (1 - g)); [lra|]. replace ((1 + g) / (1 - g) * (1 - g)) with (1 + g) by (field; lra). lra.
Qed.

(** * the ladder as a fold over the history *)
Lemma lagb_at_fold g x0 r :
  lagb_at g (x0 :: r) (length r) = fold_left (lag_ladder g) r (x0, x0, x0, x0).
Proof.
  induction r as [|v r IH] using rev_ind; [reflexivity|].
  rewrite app_length. cbn [length]. replace (length r + 1)%nat with (S (length r)) by lia.
  rewrite lagb_at_S. change (x0 :: r ++ [v]) with ((x0 :: r) ++ [v]).
  rewrite lagb_at_app by (cbn [length]; lia). rewrite IH.
  rewrite app_nth2 by (cbn [length]; lia). cbn [length]. rewrite Nat.sub_diag. cbn [nth].
  rewrite fold_left_app. reflexivity.
Qed.

Lemma laguerre_out_fold g x0 r o : cout (@laguerre_core R ROps g) (x0 :: r) = Ok (Some o) ->
  o = lagb_out (fold_left (lag_ladder g) r (x0, x0, x0, x0)).
Proof.
  rewrite laguerre_closed_form. unfold spec_laguerre. cbn [length]. rewrite lagb_at_fold.
  intros H. injection H as H. symmetry. exact H.
Qed.

Lemma lag_ladder_R g p0 p1 p2 p3 v :
  lag_ladder g (p0, p1, p2, p3) v =
  let l0 := (1 - g) * v + g * p0 in
  let l1 := - g * l0 + p0 + g * p1 in
  let l2 := - g * l1 + p1 + g * p2 in
  let l3 := - g * l2 + p2 + g * p3 in (l0, l1, l2, l3).
Proof. reflexivity. Qed.

(** * BIBO *)
(** one all-pass section y = -g u1 + u0 + g y' keeps the bound k B on y when |u| <= B *)
Lemma allpass_bound g B u1 u0 y : 0 <= g < 1 -> Rabs u1 <= B -> Rabs u0 <= B -> Rabs y <= lag_k g * B ->
  Rabs (- g * u1 + u0 + g * y) <= lag_k g * B.
Proof.
  intros Hg H1 H0 Hy. destruct (lag_k_ge1 g Hg) as [Hk1 Hk].
  apply Rabs_le_between in H1. apply Rabs_le_between in H0. apply Rabs_le_between in Hy.
  set (k := lag_k g) in *. clearbody k.
  assert (E : k * B = g * B + B + g * (k * B)) by nra.
  assert (A1 : - (g * B) <= g * u1 <= g * B) by (split; nra).
  assert (A2 : - (g * (k * B)) <= g * y <= g * (k * B)) by (split; nra).
  apply Rabs_le. lra.
Qed.

Definition lag_bd (g U : R) (l : @lag4 R) : Prop :=
  let '(l0, l1, l2, l3) := l in
  Rabs l0 <= U /\ Rabs l1 <= lag_k g * U /\ Rabs l2 <= lag_k g * (lag_k g * U)
  /\ Rabs l3 <= lag_k g * (lag_k g * (lag_k g * U)).

Lemma lag_bd_step g U l v : 0 <= g < 1 -> Rabs v <= U -> lag_bd g U l -> lag_bd g U (lag_ladder g l v).
Proof.
  intros Hg Hv. destruct l as [[[p0 p1] p2] p3]. intros (B0 & B1 & B2 & B3).
  rewrite lag_ladder_R. cbv zeta. unfold lag_bd.
  assert (C0 : Rabs ((1 - g) * v + g * p0) <= U).
  { apply Rabs_le_between in Hv. apply Rabs_le_between in B0. apply Rabs_le. split; nra. }
  assert (C1 : Rabs (- g * ((1 - g) * v + g * p0) + p0 + g * p1) <= lag_k g * U)
    by (apply allpass_bound; assumption).
  assert (C2 : Rabs (- g * (- g * ((1 - g) * v + g * p0) + p0 + g * p1) + p1 + g * p2) <= lag_k g * (lag_k g * U))
    by (apply allpass_bound; assumption).
  repeat split; try assumption. apply allpass_bound; assumption.
Qed.

Lemma lag_bd_init g U x : 0 <= g < 1 -> Rabs x <= U -> lag_bd g U (x, x, x, x).
Proof.
  intros Hg Hx. destruct (lag_k_ge1 g Hg) as [Hk _]. pose proof (Rabs_pos x) as Hp.
  set (k := lag_k g) in *. unfold lag_bd. fold k. clearbody k.
  assert (U <= k * U) by nra. assert (k * U <= k * (k * U)) by nra.
  assert (k * (k * U) <= k * (k * (k * U))) by nra. repeat split; lra.
Qed.

Lemma lag_bd_fold g U r : 0 <= g < 1 -> bounded U r -> forall l, lag_bd g U l ->
  lag_bd g U (fold_left (lag_ladder g) r l).
Proof.
  intros Hg Hr. induction Hr as [|v r Hv _ IH]; intros l Hl; [exact Hl|].
  cbn [fold_left]. apply IH. apply lag_bd_step; assumption.
Qed.

Lemma lag_bd_out g U l : 0 <= g < 1 -> lag_bd g U l -> Rabs (lagb_out l) <= lag_gain g * U.
Proof.
  intros Hg. destruct l as [[[l0 l1] l2] l3]. intros (B0 & B1 & B2 & B3). rewrite lagb_out_R.
  unfold lag_gain. set (k := lag_k g) in *. clearbody k.
  apply Rabs_le_between in B0. apply Rabs_le_between in B1. apply Rabs_le_between in B2.
  apply Rabs_le_between in B3. apply Rabs_le. lra.
Qed.

(** C09 (LaguerreFilter): BIBO with gain (1 + 2k + 2k^2 + k^3)/6, k = (1+g)/(1-g) *)
Theorem laguerre_bibo g : 0 <= g < 1 -> bibo (@laguerre_core R ROps g) (lag_gain g).
Proof.
  intros Hg U vs Hb o Ho. destruct vs as [|x0 r].
  - rewrite laguerre_closed_form in Ho. discriminate.
  - rewrite (laguerre_out_fold g x0 r o Ho). inversion Hb; subst.
    apply lag_bd_out; [exact Hg|]. apply lag_bd_fold; try assumption. apply lag_bd_init; assumption.
Qed.

(** * zero-input response *)
(** the envelope A (2k+1)^j g^(k-j) passes through an all-pass section with j+1 for j *)
Lemma allpass_cascade g A j (u y : nat -> R) : 0 <= g < 1 -> 0 <= A ->
  (forall k, Rabs (u k) <= A * (2 * INR k + 1) ^ j * g ^ (k - j)) ->
  Rabs (y 0%nat) <= A ->
  (forall k, y (S k) = - g * u (S k) + u k + g * y k) ->
  forall k, Rabs (y k) <= A * (2 * INR k + 1) ^ S j * g ^ (k - S j).
Proof.
  intros Hg HA Hu Hy0 Hrec. induction k as [|k IH].
  - cbn [Nat.sub INR]. replace (2 * 0 + 1) with 1 by ring. rewrite pow1. cbn [pow]. lra.
  - rewrite Hrec. pose proof (Hu (S k)) as U1. pose proof (Hu k) as U0.
    rewrite S_INR in *. set (m := 2 * INR k + 1) in *.
    replace (2 * (INR k + 1) + 1) with (m + 2) in * by (unfold m; ring).
    assert (Hm : 1 <= m) by (unfold m; pose proof (pos_INR k); lra). clearbody m.
    replace (S k - S j)%nat with (k - j)%nat by lia.
    set (G := g ^ (k - j)) in *.
    assert (HG : 0 <= G) by (apply pow_le; lra).
    assert (G1 : g * g ^ (S k - j) <= G).
    { pose proof (@pow_anti g (k - j) (S k - j) ltac:(lra) ltac:(lia)) as H1.
      pose proof (pow_le g (S k - j) ltac:(lra)) as H2. fold G in H1. nra. }
    assert (G2 : g * g ^ (k - S j) <= G).
    { replace (k - S j)%nat with (k - j - 1)%nat by lia. apply pow_pred_le. lra. }
    assert (G2p : 0 <= g ^ (k - S j)) by (apply pow_le; lra).
    assert (G1p : 0 <= g ^ (S k - j)) by (apply pow_le; lra).
    set (X := (m + 2) ^ j) in *. set (Y := m ^ j) in *.
    assert (HY : 0 <= Y) by (apply pow_le; lra).
    assert (HXY : Y <= X) by (apply pow_incr; lra).
    replace (m ^ S j) with (m * Y) in IH by (unfold Y; cbn [pow]; ring).
    replace ((m + 2) ^ S j) with ((m + 2) * X) by (unfold X; cbn [pow]; ring).
    clearbody X Y G.
    set (e1 := g ^ (S k - j)) in *. set (e2 := g ^ (k - S j)) in *. clearbody e1 e2.
    assert (T1 : g * Rabs (u (S k)) <= A * X * G).
    { assert (g * Rabs (u (S k)) <= g * (A * X * e1)) by (apply Rmult_le_compat_l; lra).
      assert (0 <= A * X) by (apply Rmult_le_pos; lra).
      assert (A * X * (g * e1) <= A * X * G) by (apply Rmult_le_compat_l; lra). lra. }
    assert (T3 : g * Rabs (y k) <= A * (m * Y) * G).
    { assert (g * Rabs (y k) <= g * (A * (m * Y) * e2)) by (apply Rmult_le_compat_l; lra).
      assert (0 <= A * (m * Y)) by (apply Rmult_le_pos; [lra | apply Rmult_le_pos; lra]).
      assert (A * (m * Y) * (g * e2) <= A * (m * Y) * G) by (apply Rmult_le_compat_l; lra). lra. }
    assert (T : Rabs (- g * u (S k) + u k + g * y k) <= g * Rabs (u (S k)) + Rabs (u k) + g * Rabs (y k)).
    { eapply Rle_trans; [apply Rabs_triang|]. eapply Rle_trans; [apply Rplus_le_compat_r, Rabs_triang|].
      rewrite !Rabs_mult, Rabs_Ropp, (Rabs_pos_eq g) by lra. lra. }
    assert (HAG : 0 <= A * G) by (apply Rmult_le_pos; lra).
    assert (Hsum : A * G * (X + Y + m * Y) <= A * G * ((m + 2) * X)).
    { apply Rmult_le_compat_l; [exact HAG|]. nra. }
    lra.
Qed.

(** projections *)
Definition P0 (l : @lag4 R) : R := let '(a, _, _, _) := l in a.
Definition P1 (l : @lag4 R) : R := let '(_, a, _, _) := l in a.
Definition P2 (l : @lag4 R) : R := let '(_, _, a, _) := l in a.
Definition P3 (l : @lag4 R) : R := let '(_, _, _, a) := l in a.

(** the state after [k] zero inputs *)
Definition lagZ (g : R) (st : @lag4 R) (k : nat) : @lag4 R := fold_left (lag_ladder g) (repeat 0 k) st.

Lemma lagZ_S g st k : lagZ g st (S k) = lag_ladder g (lagZ g st k) 0.
Proof. unfold lagZ. rewrite repeat_snoc, fold_left_app. reflexivity. Qed.

Lemma lagZ_rec g st k :
  P0 (lagZ g st (S k)) = g * P0 (lagZ g st k) /\
  P1 (lagZ g st (S k)) = - g * P0 (lagZ g st (S k)) + P0 (lagZ g st k) + g * P1 (lagZ g st k) /\
  P2 (lagZ g st (S k)) = - g * P1 (lagZ g st (S k)) + P1 (lagZ g st k) + g * P2 (lagZ g st k) /\
  P3 (lagZ g st (S k)) = - g * P2 (lagZ g st (S k)) + P2 (lagZ g st k) + g * P3 (lagZ g st k).
Proof.
  rewrite lagZ_S. destruct (lagZ g st k) as [[[q0 q1] q2] q3]. rewrite lag_ladder_R. cbv zeta.
  cbn [P0 P1 P2 P3]. repeat split; ring.
Qed.

Lemma lagZ_bounds g A st : 0 <= g < 1 -> 0 <= A ->
  Rabs (P0 st) <= A -> Rabs (P1 st) <= A -> Rabs (P2 st) <= A -> Rabs (P3 st) <= A ->
  forall k, Rabs (lagb_out (lagZ g st k)) <= A * (2 * INR k + 1) ^ 3 * g ^ (k - 3).
Proof.
  intros Hg HA H0 H1 H2 H3.
  assert (B0 : forall k, Rabs (P0 (lagZ g st k)) <= A * (2 * INR k + 1) ^ 0 * g ^ (k - 0)).
  { induction k as [|k IH]; [cbn [pow Nat.sub]; unfold lagZ; cbn [repeat fold_left]; lra|].
    destruct (lagZ_rec g st k) as [E _]. rewrite E, Rabs_mult, (Rabs_pos_eq g) by lra.
    rewrite !Nat.sub_0_r in *. cbn [pow] in *. nra. }
  assert (B1 := @allpass_cascade g A 0 (fun k => P0 (lagZ g st k)) (fun k => P1 (lagZ g st k)) Hg HA B0 H1
                 (fun k => proj1 (proj2 (lagZ_rec g st k)))).
  assert (B2 := @allpass_cascade g A 1 (fun k => P1 (lagZ g st k)) (fun k => P2 (lagZ g st k)) Hg HA B1 H2
                 (fun k => proj1 (proj2 (proj2 (lagZ_rec g st k))))).
  assert (B3 := @allpass_cascade g A 2 (fun k => P2 (lagZ g st k)) (fun k => P3 (lagZ g st k)) Hg HA B2 H3
                 (fun k => proj2 (proj2 (proj2 (lagZ_rec g st k))))).
  intros k. specialize (B0 k). specialize (B1 k). specialize (B2 k). specialize (B3 k). cbv beta in *.
  destruct (lagZ g st k) as [[[q0 q1] q2] q3]. cbn [P0 P1 P2 P3] in *. rewrite lagb_out_R.
  set (m := 2 * INR k + 1) in *. assert (Hm : 1 <= m) by (unfold m; pose proof (pos_INR k); lra).
  clearbody m.
  assert (Hg' : 0 <= g <= 1) by lra.
  pose proof (@pow_anti g (k - 3) (k - 0) Hg' ltac:(lia)) as E0.
  pose proof (@pow_anti g (k - 3) (k - 1) Hg' ltac:(lia)) as E1.
  pose proof (@pow_anti g (k - 3) (k - 2) Hg' ltac:(lia)) as E2.
  pose proof (pow_le g (k - 3) ltac:(lra)) as E3.
  set (G := g ^ (k - 3)) in *. clearbody G.
  set (g0 := g ^ (k - 0)) in *. set (g1 := g ^ (k - 1)) in *. set (g2 := g ^ (k - 2)) in *.
  clearbody g0 g1 g2. cbn [pow] in *. rewrite ?Rmult_1_r in *.
  assert (Hm2 : m <= m * m) by nra. assert (Hm3 : m * m <= m * (m * m)) by nra.
  set (m3 := m * (m * m)) in *.
  assert (Q0 : Rabs q0 <= A * m3 * G).
  { assert (A * g0 <= A * G) by (apply Rmult_le_compat_l; lra).
    assert (A * 1 * G <= A * m3 * G) by (apply Rmult_le_compat_r; [lra | apply Rmult_le_compat_l; lra]). lra. }
  assert (Q1 : Rabs q1 <= A * m3 * G).
  { assert (0 <= A * m) by (apply Rmult_le_pos; lra).
    assert (A * m * g1 <= A * m * G) by (apply Rmult_le_compat_l; lra).
    assert (A * m * G <= A * m3 * G) by (apply Rmult_le_compat_r; [lra | apply Rmult_le_compat_l; lra]). lra. }
  assert (Q2 : Rabs q2 <= A * m3 * G).
  { assert (0 <= A * (m * m)) by (apply Rmult_le_pos; nra).
    assert (A * (m * m) * g2 <= A * (m * m) * G) by (apply Rmult_le_compat_l; lra).
    assert (A * (m * m) * G <= A * m3 * G) by (apply Rmult_le_compat_r; [lra | apply Rmult_le_compat_l; lra]). lra. }
  fold m3 in B3. clearbody m3.
  apply Rabs_le_between in Q0. apply Rabs_le_between in Q1. apply Rabs_le_between in Q2.
  apply Rabs_le_between in B3. apply Rabs_le. lra.
Qed.

(** the explicit envelope: C = k^3 V *)
Definition lag_env (g V : R) (k : nat) : R :=
  lag_k g * (lag_k g * (lag_k g * V)) * (2 * INR k + 1) ^ 3 * g ^ (k - 3).

(** C09 (LaguerreFilter): after values bounded by V, k zero inputs leave at most k_g^3 V (2k+1)^3 g^(k-3) *)
Theorem laguerre_zero_input g : 0 <= g < 1 -> zero_input_bound (@laguerre_core R ROps g) (lag_env g).
Proof.
  intros Hg V d k o HV Hd Ho. destruct (lag_k_ge1 g Hg) as [Hk1 _].
  assert (HA : 0 <= lag_k g * (lag_k g * (lag_k g * V))).
  { repeat (apply Rmult_le_pos; try lra). }
  destruct d as [|x0 r].
  - cbn [app] in Ho. destruct k as [|k]; [rewrite laguerre_closed_form in Ho; discriminate|].
    rewrite laguerre_dc in Ho. injection Ho as E. subst o. rewrite Rabs_R0. unfold lag_env.
    apply Rmult_le_pos; [apply Rmult_le_pos; [exact HA|]|]; apply pow_le; [pose proof (pos_INR (S k))|]; lra.
  - change ((x0 :: r) ++ repeat 0 k) with (x0 :: (r ++ repeat 0 k)) in Ho.
    rewrite (laguerre_out_fold g x0 _ o Ho). rewrite fold_left_app.
    inversion Hd; subst.
    pose proof (@lag_bd_fold g V r Hg ltac:(assumption) _ (lag_bd_init g V x0 Hg ltac:(assumption))) as Hb.
    set (st := fold_left (lag_ladder g) r (x0, x0, x0, x0)) in *. clearbody st.
    fold (lagZ g st k). unfold lag_env. destruct st as [[[a0 a1] a2] a3]. destruct Hb as (B0 & B1 & B2 & B3).
    set (kk := lag_k g) in *. clearbody kk.
    assert (V <= kk * V) by nra. assert (kk * V <= kk * (kk * V)) by nra.
    assert (kk * (kk * V) <= kk * (kk * (kk * V))) by nra.
    apply lagZ_bounds; cbn [P0 P1 P2 P3]; try assumption; lra.
Qed.

(** C09 (LaguerreFilter), fading memory: |out - out'| <= 2 k_g^3 U (2k+1)^3 g^(k-3) after k common values *)
Theorem laguerre_fading g : 0 <= g < 1 -> fading_bound (@laguerre_core R ROps g) (lag_env g).
Proof. intros Hg. apply fading_of_zero_input; [apply laguerre_linear | apply laguerre_zero_input, Hg]. Qed.

(** the first stage alone decays exactly geometrically: L0 after k zero inputs is g^k L0 *)
Lemma laguerre_L0_geometric g st k : P0 (lagZ g st k) = g ^ k * P0 st.
Proof.
  induction k as [|k IH]; [unfold lagZ; cbn; ring|].
  destruct (lagZ_rec g st k) as [E _]. rewrite E, IH. cbn [pow]. ring.
Qed.

(** the envelope tends to 0 *)
Lemma lag_env_zero g V : 0 <= g < 1 -> forall eps, 0 < eps -> exists M, forall k, (M <= k)%nat -> lag_env g V k < eps.
Proof.
  intros Hg eps He. set (C := Rabs (lag_k g * (lag_k g * (lag_k g * V)))).
  assert (HC : 0 <= C) by apply Rabs_pos.
  destruct (@polyj_geo_zero 3 g Hg (eps / (343 * C + 1))) as [M HM]; [apply Rdiv_lt_0_compat; lra|].
  exists (M + 3)%nat. intros k Hk. unfold lag_env.
  pose proof (HM (k - 3)%nat ltac:(lia)) as H. set (i := (k - 3)%nat) in *.
  assert (Ek : INR k = INR i + 3) by (unfold i; rewrite minus_INR by lia; cbn; lra).
  rewrite Ek. pose proof (pos_INR i) as Hi. set (x := INR i) in *.
  assert (Hp : 0 <= g ^ i) by (apply pow_le; lra).
  assert (Hc : (2 * (x + 3) + 1) ^ 3 <= 343 * (2 * x + 1) ^ 3).
  { replace (343 * (2 * x + 1) ^ 3) with ((7 * (2 * x + 1)) ^ 3) by ring. apply pow_incr. lra. }
  clearbody x i. set (P := (2 * x + 1) ^ 3) in *. set (Q := (2 * (x + 3) + 1) ^ 3) in *.
  assert (HQ : 0 <= Q) by (unfold Q; apply pow_le; lra).
  assert (HP : 0 <= P) by (unfold P; apply pow_le; lra). clearbody P Q.
  set (e := eps / (343 * C + 1)) in *. assert (Ee : eps = e * (343 * C + 1)) by (unfold e; field; lra).
  assert (He0 : 0 < e) by (unfold e; apply Rdiv_lt_0_compat; lra). clearbody e.
  set (A := lag_k g * (lag_k g * (lag_k g * V))) in *. pose proof (Rle_abs A) as HA. fold C in HA. clearbody A C.
  set (G := g ^ i) in *. clearbody G.
  assert (HQG : 0 <= Q * G) by (apply Rmult_le_pos; assumption).
  assert (H1a : A * (Q * G) <= C * (Q * G)) by (apply Rmult_le_compat_r; assumption).
  assert (H1b : Q * G <= 343 * P * G) by (apply Rmult_le_compat_r; assumption).
  assert (H1c : C * (Q * G) <= C * (343 * P * G)) by (apply Rmult_le_compat_l; assumption).
  assert (H2 : C * (343 * P * G) = 343 * C * (P * G)) by ring.
  assert (H3 : 343 * C * (P * G) <= 343 * C * e).
  { apply Rmult_le_compat_l; [lra | lra]. }
  replace (A * Q * G) with (A * (Q * G)) by ring. nra.
Qed.

Corollary laguerre_zero_input_decays g : 0 <= g < 1 -> zero_input_decays (@laguerre_core R ROps g).
Proof.
  intros Hg d eps He. destruct (bounded_exists d) as [V [HV Hd]].
  apply (@zero_input_decays_of_bound _ _ (laguerre_zero_input g Hg)) with (V := V); try assumption.
  intros V' eps' He'. apply lag_env_zero; assumption.
Qed.

Corollary laguerre_fading_eps g : 0 <= g < 1 -> fading_eps (@laguerre_core R ROps g).
Proof. intros Hg. apply fading_eps_of_zero_input; [apply laguerre_linear | apply laguerre_zero_input_decays; exact Hg]. Qed.
