(** Structural, scalar-generic theorems about the whole catalogue (for every [T] and [OT : Ops T];
    no real-number reasoning; axiom-free).  Index of the main results; the proofs are in
    [StructBound.v] (C18), [StructSched.v] (C17), [StructFwd.v] (C01). *)
From SF Require Import Res Scalar View Models Exec Core SpecStruct.
From SF.Proofs Require Export StructBound StructSched StructFwd.

(** C18 bounded memory *)
Check @pop_bound_sound.        (* state_after (denote d) xs = Ok s -> vpop (denote d) s <= pop_bound d *)
Check @pop_bound_bounded.      (* view_bounded (denote d) (pop_bound d) *)
Check @core_bounded_crun.      (* core_bounded c B -> crun c vs = Ok s -> cpop c s <= B *)
Check @wrap_bounded. Check @binop_bounded. Check @mapview_bounded. Check @pfe_bounded. Check @eft_bounded.
Check @sched_pop_bound.        (* every population reported along a schedule <= pop_bound d *)
Check @cyber_plain_bound_not_inductive.
(** C17 determinism, purity, clone independence *)
Check @sched_run_lineage. Check @lineage_obs. Check @last_pure. Check @last_erasure.
Check @same_lineage_same_last. Check @same_lineage_same_update.
Check @instance_independence. Check @clone_independence.
(** C01 forwarding *)
Check @steps_wrap_fst. Check @steps_binop_both. Check @steps_mapview. Check @wrap_forwards_exactly.
Check @steps_wrap_snd. Check @pfe_ma_state_after. Check @eft_ma_state_after. Check @pfe_chain_ma. Check @eft_chain_ma.
Check @subviews_forwarded. Check @leaves_forwarded.

Print Assumptions pop_bound_sound.
Print Assumptions sched_pop_bound.
Print Assumptions sched_run_lineage.
Print Assumptions lineage_obs.
Print Assumptions last_erasure.
Print Assumptions clone_independence.
Print Assumptions subviews_forwarded.
Print Assumptions leaves_forwarded.
Print Assumptions pfe_chain_ma.
Print Assumptions eft_chain_ma.
