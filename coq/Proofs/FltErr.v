(** C16 (drift clause), Sma / Cumulative: the running sum under the standard model of floating-point
    arithmetic.  The model is instantiated at the reals with ROUNDED operations [fadd fsub fdiv]
    ([FlOps]); the only facts used are  fl(a op b) = (a op b)(1 + d), |d| <= u  for operands in the
    format [F], and that results are in the format.  After t updates with |x_i| <= M:

        | running sum - exact window sum |  <=  ((1+u)^(2t) - 1) * n * M          (~ 2 t u n M)
        | Sma output  - exact window mean | <=  ((1+u)^(2t+1) - 1) * M

    so the drift grows linearly with the number of updates (no better bound holds for a running sum
    that is never recomputed), and with (1+u)^k - 1 <= k u / (1 - k u).  The hypotheses on [fadd]
    and [fsub] are then discharged for IEEE binary64 round-to-nearest-even with Flocq (no underflow
    side condition is needed for + and -), u = 2^-53. *)
From Coq Require Import List Arith Lia Reals Lra ZArith.
From SF Require Import Res Scalar View Models Spec Core.
From SF.Proofs Require Import Window RBase.
Import ListNotations.
Open Scope R_scope.

(** * Real-number helpers *)
Lemma Forall_skipn {A} (P : A -> Prop) k l : Forall P l -> Forall P (skipn k l).
Proof. revert l; induction k as [|k IH]; intros l H; [exact H|]. destruct l; [exact H|]. inversion H; subst. apply IH; assumption. Qed.
Lemma Forall_lastn {A} (P : A -> Prop) n l : Forall P l -> Forall P (lastn n l).
Proof. apply Forall_skipn. Qed.

Lemma ssum_abs_le M l : Forall (fun x => Rabs x <= M) l -> Rabs (@ssum R ROps l) <= INR (length l) * M.
Proof.
  induction l as [|x l IH]; intros H.
  - cbn. rewrite Rabs_R0. lra.
  - inversion H as [|? ? Hx Hl]; subst. rewrite ssum_R_cons.
    change (length (x :: l)) with (S (length l)). rewrite S_INR.
    pose proof (Rabs_triang x (@ssum R ROps l)). specialize (IH Hl). lra.
Qed.

(** |E c + T (c-1) + w d| from bounds on the absolute values (all the arithmetic of one step) *)
Lemma step_bound E T w c d a u K M P :
  Rabs E <= (P - 1) * K -> Rabs T <= K - M -> Rabs w <= M ->
  Rabs c <= a -> Rabs (c - 1) <= a - 1 -> Rabs d <= u -> u <= a - 1 -> 1 <= P -> 0 <= K -> 0 <= M -> M <= K ->
  Rabs (E * c + T * (c - 1) + w * d) <= (P * a - 1) * K.
Proof.
  intros HE HT Hw Hc Hc1 Hd Hu HP HK HM HMK.
  pose proof (Rabs_pos E) as pE; pose proof (Rabs_pos T) as pT; pose proof (Rabs_pos w) as pw;
  pose proof (Rabs_pos c) as pc; pose proof (Rabs_pos (c - 1)) as pc1; pose proof (Rabs_pos d) as pd.
  assert (H1 : Rabs (E * c) <= (P - 1) * K * a).
  { rewrite Rabs_mult. apply Rmult_le_compat; assumption. }
  assert (H2 : Rabs (T * (c - 1)) <= (K - M) * (a - 1)).
  { rewrite Rabs_mult. apply Rmult_le_compat; assumption. }
  assert (H3 : Rabs (w * d) <= M * (a - 1)).
  { rewrite Rabs_mult. apply Rmult_le_compat; try assumption. lra. }
  pose proof (Rabs_triang (E * c + T * (c - 1)) (w * d)) as T1.
  pose proof (Rabs_triang (E * c) (T * (c - 1))) as T2.
  nra.
Qed.

Lemma one_plus_d_bounds d u : 0 <= u -> Rabs d <= u -> Rabs (1 + d) <= 1 + u /\ Rabs ((1 + d) - 1) <= u.
Proof.
  intros Hu Hd. split.
  - pose proof (Rabs_triang 1 d). rewrite Rabs_R1 in *. lra.
  - replace (1 + d - 1) with d by ring. exact Hd.
Qed.

Lemma Rabs_le_inv' x y : Rabs x <= y -> - y <= x <= y.
Proof. intros H. pose proof (Rle_abs x) as H1. pose proof (Rle_abs (- x)) as H2. rewrite Rabs_Ropp in H2. lra. Qed.
Lemma Rabs_le' x y : - y <= x <= y -> Rabs x <= y.
Proof. intros H. unfold Rabs. destruct (Rcase_abs x); lra. Qed.

Lemma two_d_bounds d1 d2 u : 0 <= u -> Rabs d1 <= u -> Rabs d2 <= u ->
  Rabs ((1 + d1) * (1 + d2)) <= (1 + u) ^ 2 /\ Rabs ((1 + d1) * (1 + d2) - 1) <= (1 + u) ^ 2 - 1.
Proof.
  intros Hu H1 H2.
  apply Rabs_le_inv' in H1. apply Rabs_le_inv' in H2.
  split; apply Rabs_le'; nra.
Qed.

(** gamma_k: (1+u)^k - 1 <= k u / (1 - k u) *)
Lemma pow_gamma u k : 0 <= u -> INR k * u < 1 -> (1 + u) ^ k - 1 <= INR k * u / (1 - INR k * u).
Proof.
  intros Hu Hk.
  assert (H : (1 + u) ^ k * (1 - INR k * u) <= 1).
  { induction k as [|k IH].
    - cbn. lra.
    - rewrite S_INR in *. cbn [pow].
      assert (Hk' : INR k * u < 1) by nra.
      specialize (IH Hk').
      assert (0 <= (1 + u) ^ k) by (apply pow_le; lra).
      assert (0 <= INR k) by apply pos_INR.
      (* (1+u)(1-(k+1)u) <= 1 - k u *)
      assert ((1 + u) * (1 - (INR k + 1) * u) <= 1 - INR k * u) by nra.
      replace ((1 + u) * (1 + u) ^ k * (1 - (INR k + 1) * u))
        with ((1 + u) ^ k * ((1 + u) * (1 - (INR k + 1) * u))) by ring.
      apply Rle_trans with ((1 + u) ^ k * (1 - INR k * u)); [|exact IH].
      apply Rmult_le_compat_l; assumption. }
  assert (Hp : 0 < 1 - INR k * u) by lra.
  apply Rmult_le_reg_r with (1 - INR k * u); [exact Hp|].
  unfold Rdiv. rewrite Rmult_assoc, Rinv_l by lra. lra.
Qed.

(** * The standard model *)
Section StdModel.
Variable u : R.
Variables fadd fsub fdiv : R -> R -> R.
Variable F : R -> Prop.                       (* "is a floating-point number" *)
Hypothesis u_nonneg : 0 <= u.
Hypothesis F0 : F 0.
Hypothesis fadd_ok : forall a b, F a -> F b ->
  F (fadd a b) /\ exists d, Rabs d <= u /\ fadd a b = (a + b) * (1 + d).
Hypothesis fsub_ok : forall a b, F a -> F b ->
  F (fsub a b) /\ exists d, Rabs d <= u /\ fsub a b = (a - b) * (1 + d).

(** the reals with rounded +, -, / (the other operations are not used by Sma / Cumulative) *)
Definition FlOps : Ops R := {|
  s0 := 0; s1 := 1;
  sadd := fadd; ssub := fsub; smul := Rmult; sneg := Ropp; sabs := Rabs;
  sdiv := fun a b => if Req_EM_T b 0 then Err NonFinite else Ok (fdiv a b);
  sltb := Rltb; sleb := Rleb; seqb := Reqb;
  sofnat := INR;
  sofdec := fun m k => IZR m / IZR (10 ^ Z.of_nat k);
  ssqrt := fun x => if Rlt_dec x 0 then Err Domain else Ok (sqrt x);
  sexp := fun x => Ok (exp x);
  sln := fun x => if Rle_dec x 0 then Err Domain else Ok (ln x);
  scos := fun x => Ok (cos x);
  ssin := fun x => Ok (sin x);
  stanh := fun x => Ok (tanh x);
  slog2 := fun x => if Rle_dec x 0 then Err Domain else Ok (ln x / ln 2);
|}.

Variable M : R.
Hypothesis M_nonneg : 0 <= M.

(** admissible inputs: floating-point numbers of magnitude at most [M] *)
Definition Din (x : R) : Prop := F x /\ Rabs x <= M.

Definition drift (n t : nat) : R := ((1 + u) ^ (2 * t) - 1) * (INR n * M).

Lemma drift_S_pow t : (1 + u) ^ (2 * S t) = (1 + u) ^ (2 * t) * (1 + u) ^ 2.
Proof. replace (2 * S t)%nat with (2 * t + 2)%nat by lia. apply pow_add. Qed.

Lemma pow1u_ge1 k : 1 <= (1 + u) ^ k.
Proof. apply pow_R1_Rle. lra. Qed.

Lemma Din_abs l : Forall Din l -> Forall (fun x => Rabs x <= M) l.
Proof. apply Forall_impl. intros x [_ H]; exact H. Qed.

(** one update of a running sum [S] tracking the exact sum of the window, both branches *)
Lemma running_sum_step n h v Sm :
  (1 <= n)%nat -> Forall Din h -> Din v -> F Sm ->
  Rabs (Sm - @ssum R ROps (lastn n h)) <= drift n (length h) ->
  let S' := if Nat.leb n (length (lastn n h))
            then fadd (fsub Sm (hd 0 (lastn n h))) v else fadd Sm v in
  F S' /\ Rabs (S' - @ssum R ROps (lastn n (h ++ [v]))) <= drift n (length (h ++ [v])).
Proof.
  intros Hn Hh [Fv Hv] FS HE. cbv zeta.
  pose proof (evict_push_lastn n h v Hn) as Hev.
  rewrite app_length. cbn [length]. replace (length h + 1)%nat with (S (length h)) by lia.
  unfold drift in *. rewrite drift_S_pow.
  set (P := (1 + u) ^ (2 * length h)) in *.
  assert (HP : 1 <= P) by apply pow1u_ge1.
  assert (HnM : 0 <= INR n * M) by (apply Rmult_le_pos; [apply pos_INR | exact M_nonneg]).
  assert (H1n : 1 <= INR n) by (change 1 with (INR 1); apply le_INR; exact Hn).
  assert (Hwin : Forall (fun x => Rabs x <= M) (lastn n h)) by (apply Din_abs, Forall_lastn; exact Hh).
  assert (HFwin : Forall F (lastn n h)).
  { apply Forall_lastn. revert Hh. apply Forall_impl. intros x [H _]; exact H. }
  destruct (Nat.leb n (length (lastn n h))) eqn:E.
  - (* full window: evict the oldest, then push *)
    apply Nat.leb_le in E. rewrite lastn_length in E.
    destruct (lastn_hd_tl n h) as [x Hx]; [lia | lia |].
    rewrite Hx in *. cbn [hd tl] in *.
    assert (Fx : F x) by (inversion HFwin; assumption).
    destruct (fsub_ok Sm x FS Fx) as [F1 [d1 [Hd1 E1]]].
    destruct (fadd_ok (fsub Sm x) v F1 Fv) as [F2 [d2 [Hd2 E2]]].
    split; [exact F2|].
    rewrite <- Hev, ssum_R_app. rewrite ssum_R_cons in HE.
    set (W := @ssum R ROps (tl (lastn n h))) in *.
    rewrite E2, E1.
    replace (((Sm - x) * (1 + d1) + v) * (1 + d2) - (W + v))
      with ((Sm - (x + W)) * ((1 + d1) * (1 + d2)) + W * ((1 + d1) * (1 + d2) - 1) + v * d2) by ring.
    destruct (two_d_bounds d1 d2 u u_nonneg Hd1 Hd2) as [Hc Hc1].
    apply step_bound with (u := u) (M := M); try assumption.
    + (* |W| <= (n-1) M *)
      assert (Hl : length (lastn n h) = n) by (rewrite lastn_length; lia).
      assert (HW : Rabs W <= INR (length (tl (lastn n h))) * M).
      { apply ssum_abs_le. rewrite Hx in Hwin. cbn [tl]. inversion Hwin; assumption. }
      assert (Hlt : INR (length (tl (lastn n h))) = INR n - 1).
      { assert (Hl' : length (tl (lastn n h)) = (n - 1)%nat) by (rewrite Hx in Hl; cbn [length] in Hl; lia).
        rewrite Hl', minus_INR by lia. reflexivity. }
      rewrite Hlt in HW. lra.
    + nra.
    + nra.
  - (* window not yet full: push only *)
    apply Nat.leb_gt in E. rewrite lastn_length in E.
    destruct (fadd_ok Sm v FS Fv) as [F2 [d2 [Hd2 E2]]].
    split; [exact F2|].
    rewrite <- Hev, ssum_R_app.
    set (W := @ssum R ROps (lastn n h)) in *.
    rewrite E2.
    replace ((Sm + v) * (1 + d2) - (W + v))
      with ((Sm - W) * (1 + d2) + (W + v) * ((1 + d2) - 1) + 0 * d2) by ring.
    destruct (one_plus_d_bounds d2 u u_nonneg Hd2) as [Hc Hc1].
    assert (HW : Rabs W <= INR (length (lastn n h)) * M) by (apply ssum_abs_le; exact Hwin).
    assert (Hlen : INR (length (lastn n h)) <= INR n - 1).
    { rewrite lastn_length. replace (INR n - 1) with (INR (n - 1)).
      - apply le_INR. lia.
      - rewrite minus_INR by lia. reflexivity. }
    pose proof (Rabs_triang W v).
    apply step_bound with (u := u) (M := 0); try assumption; try lra; try nra.
    + rewrite Rabs_R0. lra.
Qed.

(** ** Sma *)
Definition sma_fl_inv (n : nat) (h : list R) (s : @sma_st R) : Prop :=
  sma_q s = lastn n h /\ F (sma_sum s) /\
  Rabs (sma_sum s - @ssum R ROps (lastn n h)) <= drift n (length h).

Lemma sma_fl_step n h s v : (1 <= n)%nat -> Forall Din h -> Din v -> sma_fl_inv n h s ->
  exists s', @sma_step R FlOps n s v = Ok s' /\ sma_fl_inv n (h ++ [v]) s'.
Proof.
  intros Hn Hh Hv [Hq [FS HE]].
  pose proof (running_sum_step n h v (sma_sum s) Hn Hh Hv FS HE) as Hstep. cbv zeta in Hstep.
  pose proof (evict_push_lastn n h v Hn) as Hev.
  unfold sma_step. rewrite Hq.
  destruct (Nat.leb n (length (lastn n h))) eqn:E.
  - apply Nat.leb_le in E. rewrite lastn_length in E.
    destruct (lastn_hd_tl n h) as [x Hx]; [lia | lia |].
    rewrite Hx in *. cbn [pop_front bind tl hd] in *.
    eexists; split; [reflexivity|]. split; [exact Hev|]. cbn [sma_q sma_sum ssub sadd FlOps]. exact Hstep.
  - cbn [bind]. eexists; split; [reflexivity|]. split; [exact Hev|]. cbn [sma_q sma_sum sadd FlOps]. exact Hstep.
Qed.

(** the running sum of Sma after the history [vs] *)
Theorem sma_sum_drift n vs : (1 <= n)%nat -> Forall Din vs ->
  exists s, crun (@sma_core R FlOps n) vs = Ok s /\ sma_q s = lastn n vs /\
            Rabs (sma_sum s - @ssum R ROps (lastn n vs)) <= ((1 + u) ^ (2 * length vs) - 1) * (INR n * M).
Proof.
  intros Hn Hvs.
  destruct (@crun_inv R (@sma_core R FlOps n) Din (sma_fl_inv n) {| sma_q := []; sma_sum := 0 |})
    with (vs := vs) as [s [Hr [Hq [_ HE]]]].
  - reflexivity.
  - split; [reflexivity|]. split; [exact F0|]. cbn. unfold drift. cbn. rewrite Rminus_0_r, Rabs_R0. lra.
  - intros h s v Hh Hv Hi. apply sma_fl_step; assumption.
  - exact Hvs.
  - exists s. split; [exact Hr|]. split; [exact Hq | exact HE].
Qed.

(** the output, given the standard model for the final division as well *)
Hypothesis fdiv_ok : forall a b, F a -> b <> 0 -> exists d, Rabs d <= u /\ fdiv a b = a / b * (1 + d).

Theorem sma_out_drift n vs : (1 <= n)%nat -> (n <= length vs)%nat -> Forall Din vs ->
  exists o, cout (@sma_core R FlOps n) vs = Ok (Some o) /\
            Rabs (o - @ssum R ROps (lastn n vs) / INR n) <= ((1 + u) ^ (2 * length vs + 1) - 1) * M.
Proof.
  intros Hn Hl Hvs.
  destruct (@crun_inv R (@sma_core R FlOps n) Din (sma_fl_inv n) {| sma_q := []; sma_sum := 0 |})
    with (vs := vs) as [s [Hr [Hq [FS HE]]]].
  - reflexivity.
  - split; [reflexivity|]. split; [exact F0|]. cbn. unfold drift. cbn. rewrite Rminus_0_r, Rabs_R0. lra.
  - intros h s v Hh Hv Hi. apply sma_fl_step; assumption.
  - exact Hvs.
  - unfold cout. rewrite Hr. cbn [bind clast sma_core]. unfold sma_last. rewrite Hq, lastn_length.
    replace (Nat.min n (length vs)) with n by lia. rewrite Nat.ltb_irrefl.
    assert (Hn0 : INR n <> 0) by (apply INR_pos_neq; lia).
    cbn [sdiv sofnat FlOps]. destruct (Req_EM_T (INR n) 0) as [Hz|_]; [contradiction|].
    cbn [bind]. eexists; split; [reflexivity|].
    destruct (fdiv_ok (sma_sum s) (INR n) FS Hn0) as [d [Hd Ed]]. rewrite Ed.
    set (W := @ssum R ROps (lastn n vs)) in *. set (Sm := sma_sum s) in *.
    unfold drift in HE. set (P := (1 + u) ^ (2 * length vs)) in *.
    assert (HP : 1 <= P) by apply pow1u_ge1.
    assert (HnP : 0 < INR n) by (apply lt_0_INR; lia).
    replace ((1 + u) ^ (2 * length vs + 1)) with (P * (1 + u)) by (rewrite pow_add; cbn; unfold P; ring).
    (* (S/n)(1+d) - W/n = ((S-W)/n)(1+d) + (W/n) d *)
    replace (Sm / INR n * (1 + d) - W / INR n)
      with ((Sm - W) / INR n * (1 + d) + W / INR n * ((1 + d) - 1) + 0 * d) by (field; exact Hn0).
    destruct (one_plus_d_bounds d u u_nonneg Hd) as [Hc Hc1].
    assert (HW : Rabs W <= INR n * M).
    { unfold W. pose proof (ssum_abs_le M (lastn n vs) (Din_abs _ (Forall_lastn _ n _ Hvs))) as H.
      rewrite lastn_length in H. replace (Nat.min n (length vs)) with n in H by lia. exact H. }
    assert (HWn : Rabs (W / INR n) <= M).
    { unfold Rdiv. rewrite Rabs_mult, Rabs_inv, (Rabs_right (INR n)) by lra.
      apply Rmult_le_reg_r with (INR n); [exact HnP|]. rewrite Rmult_assoc, Rinv_l by exact Hn0. lra. }
    assert (HEn : Rabs ((Sm - W) / INR n) <= (P - 1) * M).
    { unfold Rdiv. rewrite Rabs_mult, Rabs_inv, (Rabs_right (INR n)) by lra.
      apply Rmult_le_reg_r with (INR n); [exact HnP|]. rewrite Rmult_assoc, Rinv_l by exact Hn0. lra. }
    apply step_bound with (u := u) (M := 0); try assumption; try lra.
    rewrite Rabs_R0. lra.
Qed.

(** ** Cumulative: the same running sum, reported as it is *)
Definition cum_fl_inv (n : nat) (h : list R) (s : @cum_st R) : Prop :=
  cum_q s = lastn n h /\
  let Sm := match cum_out s with None => 0 | Some o => o end in
  (h <> [] -> cum_out s <> None) /\ F Sm /\ Rabs (Sm - @ssum R ROps (lastn n h)) <= drift n (length h).

Lemma cum_fl_step n h s v : (1 <= n)%nat -> Forall Din h -> Din v -> cum_fl_inv n h s ->
  exists s', @cum_step R FlOps n s v = Ok s' /\ cum_fl_inv n (h ++ [v]) s'.
Proof.
  intros Hn Hh Hv [Hq [_ [FS HE]]].
  set (Sm := match cum_out s with None => 0 | Some o => o end) in *.
  pose proof (running_sum_step n h v Sm Hn Hh Hv FS HE) as Hstep. cbv zeta in Hstep.
  pose proof (evict_push_lastn n h v Hn) as Hev.
  unfold cum_step. rewrite Hq. cbn [s0 FlOps]. fold Sm.
  destruct (Nat.leb n (length (lastn n h))) eqn:E.
  - apply Nat.leb_le in E. rewrite lastn_length in E.
    destruct (lastn_hd_tl n h) as [x Hx]; [lia | lia |].
    rewrite Hx in *. cbn [pop_front bind tl hd] in *.
    eexists; split; [reflexivity|]. split; [exact Hev|]. cbn [cum_q cum_out ssub sadd FlOps].
    split; [discriminate | exact Hstep].
  - cbn [bind]. eexists; split; [reflexivity|]. split; [exact Hev|]. cbn [cum_q cum_out sadd FlOps].
    split; [discriminate | exact Hstep].
Qed.

Theorem cumulative_drift n vs : (1 <= n)%nat -> vs <> [] -> Forall Din vs ->
  exists o, cout (@cumulative_core R FlOps n) vs = Ok (Some o) /\
            Rabs (o - @ssum R ROps (lastn n vs)) <= ((1 + u) ^ (2 * length vs) - 1) * (INR n * M).
Proof.
  intros Hn Hne Hvs.
  destruct (@crun_inv R (@cumulative_core R FlOps n) Din (cum_fl_inv n) {| cum_q := []; cum_out := None |})
    with (vs := vs) as [s [Hr [Hq [Hsome [_ HE]]]]].
  - reflexivity.
  - split; [reflexivity|]. cbn. split; [intros H; contradiction|]. split; [exact F0|].
    unfold drift. cbn. rewrite Rminus_0_r, Rabs_R0. lra.
  - intros h s v Hh Hv Hi. apply cum_fl_step; assumption.
  - exact Hvs.
  - unfold cout. rewrite Hr. cbn [bind clast cumulative_core].
    specialize (Hsome Hne). destruct (cum_out s) as [o|]; [|contradiction].
    exists o. split; [reflexivity | exact HE].
Qed.

End StdModel.

(** * IEEE binary64, round to nearest even: the hypotheses on + and - hold with u = 2^-53 *)
From Flocq Require Import Core Plus_error Relative.

Section Binary64.
Definition b64_exp := FLT_exp (-1074) 53.
Definition b64_format (x : R) : Prop := generic_format radix2 b64_exp x.
Definition b64_round (x : R) : R := round radix2 b64_exp ZnearestE x.
Definition b64_add (a b : R) : R := b64_round (a + b).
Definition b64_sub (a b : R) : R := b64_round (a - b).
Definition b64_div (a b : R) : R := b64_round (a / b).
Definition b64_u : R := / 2 * bpow radix2 (1 - 53).        (* = 2^-53 *)

Local Instance b64_prec_gt_0 : Prec_gt_0 53.
Proof. unfold Prec_gt_0. lia. Qed.

Lemma b64_u_nonneg : 0 <= b64_u.
Proof. unfold b64_u. pose proof (bpow_ge_0 radix2 (1 - 53)). lra. Qed.

Lemma b64_format_0 : b64_format 0.
Proof. apply generic_format_0. Qed.

Lemma b64_add_ok a b : b64_format a -> b64_format b ->
  b64_format (b64_add a b) /\ exists d, Rabs d <= b64_u /\ b64_add a b = (a + b) * (1 + d).
Proof.
  intros Fa Fb. split.
  - apply generic_format_round; [apply FLT_exp_valid; exact b64_prec_gt_0 | apply valid_rnd_N].
  - destruct (FLT_plus_error_N_ex radix2 (-1074) 53 (fun x => negb (Z.even x)) a b Fa Fb) as [d [Hd E]].
    exists d. split; [|exact E].
    eapply Rle_trans; [exact Hd|]. fold b64_u.
    change (u_ro radix2 53) with b64_u.
    pose proof b64_u_nonneg as Hu.
    apply Rmult_le_reg_r with (1 + b64_u); [lra|].
    unfold Rdiv. rewrite Rmult_assoc, Rinv_l by lra. nra.
Qed.

Lemma b64_sub_ok a b : b64_format a -> b64_format b ->
  b64_format (b64_sub a b) /\ exists d, Rabs d <= b64_u /\ b64_sub a b = (a - b) * (1 + d).
Proof.
  intros Fa Fb. unfold b64_sub, Rminus. apply (b64_add_ok a (- b) Fa). apply generic_format_opp. exact Fb.
Qed.

(** the running-sum drift of Sma and Cumulative in binary64 (overflow aside): with t = length vs *)
Theorem sma_sum_drift_b64 n M vs : (1 <= n)%nat -> 0 <= M ->
  Forall (fun x => b64_format x /\ Rabs x <= M) vs ->
  exists s, crun (@sma_core R (FlOps b64_add b64_sub b64_div) n) vs = Ok s /\ sma_q s = lastn n vs /\
            Rabs (sma_sum s - @ssum R ROps (lastn n vs)) <= ((1 + b64_u) ^ (2 * length vs) - 1) * (INR n * M).
Proof.
  intros Hn HM Hvs.
  exact (sma_sum_drift b64_u b64_add b64_sub b64_div b64_format b64_u_nonneg b64_format_0
           b64_add_ok b64_sub_ok M HM n vs Hn Hvs).
Qed.

Theorem cumulative_drift_b64 n M vs : (1 <= n)%nat -> 0 <= M -> vs <> [] ->
  Forall (fun x => b64_format x /\ Rabs x <= M) vs ->
  exists o, cout (@cumulative_core R (FlOps b64_add b64_sub b64_div) n) vs = Ok (Some o) /\
            Rabs (o - @ssum R ROps (lastn n vs)) <= ((1 + b64_u) ^ (2 * length vs) - 1) * (INR n * M).
Proof.
  intros Hn HM Hne Hvs.
  exact (cumulative_drift b64_u b64_add b64_sub b64_div b64_format b64_u_nonneg b64_format_0
           b64_add_ok b64_sub_ok M HM n vs Hn Hne Hvs).
Qed.

(** in the readable form: for 2 t u < 1 the drift is at most 2 t u / (1 - 2 t u) * n * M *)
Corollary cumulative_drift_b64_gamma n M vs : (1 <= n)%nat -> 0 <= M -> vs <> [] ->
  Forall (fun x => b64_format x /\ Rabs x <= M) vs ->
  INR (2 * length vs) * b64_u < 1 ->
  exists o, cout (@cumulative_core R (FlOps b64_add b64_sub b64_div) n) vs = Ok (Some o) /\
            Rabs (o - @ssum R ROps (lastn n vs))
            <= INR (2 * length vs) * b64_u / (1 - INR (2 * length vs) * b64_u) * (INR n * M).
Proof.
  intros Hn HM Hne Hvs Hsmall.
  destruct (cumulative_drift_b64 n M vs Hn HM Hne Hvs) as [o [Ho HE]].
  exists o. split; [exact Ho|]. eapply Rle_trans; [exact HE|].
  apply Rmult_le_compat_r.
  - apply Rmult_le_pos; [apply pos_INR | exact HM].
  - apply pow_gamma; [apply b64_u_nonneg | exact Hsmall].
Qed.
End Binary64.

(** hypotheses are satisfiable: three binary64 numbers *)
Example drift_hyp_ex : Forall (fun x => b64_format x /\ Rabs x <= 4) [1; 2; -3].
Proof.
  assert (Hf : forall m e, (Z.abs m < 2 ^ 53)%Z -> (-1074 <= e)%Z -> b64_format (F2R (Float radix2 m e))).
  { intros m e Hm He. apply generic_format_FLT. exists (Float radix2 m e); [reflexivity | exact Hm | exact He]. }
  repeat constructor.
  - replace 1 with (F2R (Float radix2 1 0)) by (unfold F2R; cbn; lra). apply Hf; [reflexivity | lia].
  - rewrite Rabs_R1. lra.
  - replace 2 with (F2R (Float radix2 1 1)) by (unfold F2R; cbn; lra). apply Hf; [reflexivity | lia].
  - rewrite Rabs_right; lra.
  - replace (-3) with (F2R (Float radix2 (-3) 0)) by (unfold F2R; cbn; lra). apply Hf; [reflexivity | lia].
  - rewrite Rabs_left; lra.
Qed.

Print Assumptions sma_sum_drift.
Print Assumptions sma_out_drift.
Print Assumptions cumulative_drift.
Print Assumptions sma_sum_drift_b64.
Print Assumptions cumulative_drift_b64.
Print Assumptions cumulative_drift_b64_gamma.
