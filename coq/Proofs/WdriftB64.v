(** binary64 (round to nearest even, u = 2^-53, eta = 2^-1075; overflow aside) instances of the drift bounds of
    WdriftP.v for the Welford second-moment accumulators and the WelfordOnline mean. *)
From Coq Require Import List Arith Lia Reals Lra ZArith.
From SF Require Import Res Scalar View Models Spec Core SpecRoll SpecWelf.
From SF.Proofs Require Import Window RBase RollP WelfP FltErr FltBridge Flt2P Flt2B64 WdriftArith WdriftP.
From Flocq Require Import Core.
Import ListNotations.
Open Scope R_scope.

Lemma INR_lt_pow k z : (Z.of_nat k < z)%Z -> INR k <= IZR z.
Proof. intros H. rewrite INR_IZR_INZ. apply IZR_le. lia. Qed.

Lemma b64_nat_F (b : nat) : (Z.of_nat b < 2 ^ 53)%Z -> forall k, (1 <= k <= b)%nat -> b64_format (INR k).
Proof. intros Hb k Hk. apply b64_format_INR. lia. Qed.

(** WelfordRolling s in binary64, t = length vs < 2^50 updates, t * 2^-1075 <= M / 8 *)
Theorem wr_s_drift_b64 M vs : (Z.of_nat (length vs) < 2 ^ 50)%Z -> 0 <= M ->
  INR (length vs) * b64_eta <= M / 8 ->
  Forall (fun x => b64_format x /\ Rabs x <= M) vs ->
  exists s_fl s_ex,
    crun (@wrolling_core R B64Ops) vs = Ok s_fl /\
    crun (@wrolling_core R ROps) vs = Ok s_ex /\
    wr_s s_ex = @spec_rdev R ROps vs /\
    Rabs (wr_s s_fl - wr_s s_ex)
    <= (4 * INR (length vs) + 90) * INR (length vs) * (b64_u * (M * M))
       + (5 * INR (length vs) * M + 2) * INR (length vs) * b64_eta.
Proof.
  intros Ht HM He Hvs.
  apply (wr_s_drift b64_u b64_eta b64_add b64_sub b64_mul b64_div b64_format b64_u_nonneg b64_eta_nonneg
           b64_format_0 b64_add_ok b64_sub_ok b64_mul_ok b64_div_ok M HM vs Hvs).
  - apply b64_nat_F. change (2 ^ 50)%Z with 1125899906842624%Z in Ht. change (2 ^ 53)%Z with 9007199254740992%Z. lia.
  - pose proof (INR_lt_pow _ _ Ht) as Hb. change (2 ^ 50)%Z with 1125899906842624%Z in Hb.
    rewrite b64_u_val. lra.
  - exact He.
Qed.

(** WelfordRolling variance in binary64: linear drift *)
Theorem wr_var_drift_b64 M vs : (2 <= length vs)%nat -> (Z.of_nat (length vs) < 2 ^ 50)%Z -> 0 <= M ->
  INR (length vs) * b64_eta <= M / 8 ->
  Forall (fun x => b64_format x /\ Rabs x <= M) vs ->
  exists s_fl s_ex v_fl,
    crun (@wrolling_core R B64Ops) vs = Ok s_fl /\
    crun (@wrolling_core R ROps) vs = Ok s_ex /\
    @wr_variance R B64Ops s_fl = Ok v_fl /\
    @wr_variance R ROps s_ex = Ok (@spec_rvar R ROps vs) /\
    Rabs (v_fl - @spec_rvar R ROps vs)
    <= ((4 * INR (length vs) + 90) * (b64_u * (M * M)) + (5 * INR (length vs) * M + 2) * b64_eta) * (1 + b64_u)
       + b64_u * (M * M) + b64_eta.
Proof.
  intros Hl Ht HM He Hvs.
  apply (wr_var_drift b64_u b64_eta b64_add b64_sub b64_mul b64_div b64_format b64_u_nonneg b64_eta_nonneg
           b64_format_0 b64_add_ok b64_sub_ok b64_mul_ok b64_div_ok M HM vs Hl Hvs).
  - apply b64_nat_F. change (2 ^ 50)%Z with 1125899906842624%Z in Ht. change (2 ^ 53)%Z with 9007199254740992%Z. lia.
  - pose proof (INR_lt_pow _ _ Ht) as Hb. change (2 ^ 50)%Z with 1125899906842624%Z in Hb.
    rewrite b64_u_val. lra.
  - exact He.
Qed.

(** WelfordOnline mean in binary64: window 2 <= n < 2^53, t = length vs < 2^45 updates, 48 t 2^-1075 <= M *)
Theorem welford_mean_drift_b64 n M vs : (2 <= n)%nat -> (Z.of_nat n < 2 ^ 53)%Z ->
  (Z.of_nat (length vs) < 2 ^ 45)%Z -> 0 <= M -> 48 * (INR (length vs) * b64_eta) <= M ->
  Forall (fun x => b64_format x /\ Rabs x <= M) vs ->
  exists m_fl m_ex,
    cout (@welford_mean_core R B64Ops n) vs = Ok (Some m_fl) /\
    cout (@welford_mean_core R ROps n) vs = Ok (Some m_ex) /\
    m_ex = @spec_wmean R ROps n vs /\
    Rabs (m_fl - m_ex) <= INR (length vs) * (10 * b64_u * M + 3 * b64_eta).
Proof.
  intros Hn Hn53 Ht HM He Hvs.
  apply (welford_mean_drift b64_u b64_eta b64_add b64_sub b64_mul b64_div b64_format b64_u_nonneg b64_eta_nonneg
           b64_format_0 b64_add_ok b64_sub_ok b64_div_ok M HM n vs Hn Hvs).
  - apply b64_nat_F. exact Hn53.
  - pose proof (INR_lt_pow _ _ Ht) as Hb. change (2 ^ 45)%Z with 35184372088832%Z in Hb.
    rewrite b64_u_val. lra.
  - exact He.
Qed.

(** WelfordOnline m2 in binary64: the residue is at most linear in the number of updates *)
Theorem welford_m2_drift_b64 n M vs : (2 <= n)%nat -> (Z.of_nat n < 2 ^ 53)%Z ->
  (Z.of_nat (length vs) < 2 ^ 45)%Z -> 0 <= M -> 48 * (INR (length vs) * b64_eta) <= M ->
  Forall (fun x => b64_format x /\ Rabs x <= M) vs ->
  exists s_fl s_ex,
    crun (@welford_core R B64Ops n) vs = Ok s_fl /\
    crun (@welford_core R ROps n) vs = Ok s_ex /\
    wo_m2 s_ex = rsqdev (rmean (lastn n vs)) (lastn n vs) /\
    Rabs (wo_m2 s_fl - wo_m2 s_ex)
    <= INR (length vs) * ((33 * INR n + 80) * (b64_u * (M * M)) + (13 * INR n * M + 3) * b64_eta).
Proof.
  intros Hn Hn53 Ht HM He Hvs.
  apply (welford_m2_drift b64_u b64_eta b64_add b64_sub b64_mul b64_div b64_format b64_u_nonneg b64_eta_nonneg
           b64_format_0 b64_add_ok b64_sub_ok b64_mul_ok b64_div_ok M HM n vs Hn Hvs).
  - apply b64_nat_F. exact Hn53.
  - pose proof (INR_lt_pow _ _ Ht) as Hb. change (2 ^ 45)%Z with 35184372088832%Z in Hb.
    rewrite b64_u_val. lra.
  - exact He.
Qed.

(** hypotheses are satisfiable: three binary64 numbers, window 2 *)
Lemma b64_eta_tiny : b64_eta <= / 1000.
Proof.
  unfold b64_eta. assert (H : bpow radix2 (-1074) <= bpow radix2 (-10)) by (apply bpow_le; lia).
  assert (E : bpow radix2 (-10) = / 1024) by (cbn; lra). lra.
Qed.
Example welford_m2_drift_b64_ex : exists s_fl s_ex,
  crun (@welford_core R B64Ops 2) [1; 2; -3] = Ok s_fl /\
  crun (@welford_core R ROps 2) [1; 2; -3] = Ok s_ex /\
  wo_m2 s_ex = rsqdev (rmean (lastn 2 [1; 2; -3])) (lastn 2 [1; 2; -3]) /\
  Rabs (wo_m2 s_fl - wo_m2 s_ex)
  <= INR 3 * ((33 * INR 2 + 80) * (b64_u * (4 * 4)) + (13 * INR 2 * 4 + 3) * b64_eta).
Proof.
  apply (welford_m2_drift_b64 2 4 [1; 2; -3]); [lia | reflexivity | reflexivity | lra | | exact drift_hyp_ex].
  pose proof b64_eta_tiny. cbn [length INR]. lra.
Qed.
Example wr_s_drift_b64_ex : exists s_fl s_ex,
  crun (@wrolling_core R B64Ops) [1; 2; -3] = Ok s_fl /\
  crun (@wrolling_core R ROps) [1; 2; -3] = Ok s_ex /\
  wr_s s_ex = @spec_rdev R ROps [1; 2; -3] /\
  Rabs (wr_s s_fl - wr_s s_ex)
  <= (4 * INR 3 + 90) * INR 3 * (b64_u * (4 * 4)) + (5 * INR 3 * 4 + 2) * INR 3 * b64_eta.
Proof.
  apply (wr_s_drift_b64 4 [1; 2; -3]); [reflexivity | lra | | exact drift_hyp_ex].
  pose proof b64_eta_tiny. cbn [length INR]. lra.
Qed.

Example welford_mean_drift_b64_ex : exists m_fl m_ex,
  cout (@welford_mean_core R B64Ops 2) [1; 2; -3] = Ok (Some m_fl) /\
  cout (@welford_mean_core R ROps 2) [1; 2; -3] = Ok (Some m_ex) /\
  m_ex = @spec_wmean R ROps 2 [1; 2; -3] /\
  Rabs (m_fl - m_ex) <= INR 3 * (10 * b64_u * 4 + 3 * b64_eta).
Proof.
  apply (welford_mean_drift_b64 2 4 [1; 2; -3]); [lia | reflexivity | reflexivity | lra | | exact drift_hyp_ex].
  pose proof b64_eta_tiny. cbn [length INR]. lra.
Qed.
Example wr_var_drift_b64_ex : exists s_fl s_ex v_fl,
  crun (@wrolling_core R B64Ops) [1; 2; -3] = Ok s_fl /\
  crun (@wrolling_core R ROps) [1; 2; -3] = Ok s_ex /\
  @wr_variance R B64Ops s_fl = Ok v_fl /\
  @wr_variance R ROps s_ex = Ok (@spec_rvar R ROps [1; 2; -3]) /\
  Rabs (v_fl - @spec_rvar R ROps [1; 2; -3])
  <= ((4 * INR 3 + 90) * (b64_u * (4 * 4)) + (5 * INR 3 * 4 + 2) * b64_eta) * (1 + b64_u) + b64_u * (4 * 4) + b64_eta.
Proof.
  apply (wr_var_drift_b64 4 [1; 2; -3]); [cbn; lia | reflexivity | lra | | exact drift_hyp_ex].
  pose proof b64_eta_tiny. cbn [length INR]. lra.
Qed.

Print Assumptions wr_s_drift_b64.
Print Assumptions wr_var_drift_b64.
Print Assumptions welford_mean_drift_b64.
Print Assumptions welford_m2_drift_b64.
