(** LaguerreRSI (laguerre_rsi.rs): closed form, range (C07), scale invariance (C12). *)
From Coq Require Import List Arith Lia Reals Lra.
From SF Require Import Res Scalar View Models Spec Core SpecEhl.
From SF.Proofs Require Import Window RBase EhlBase.
Import ListNotations.
Open Scope R_scope.

(** * the scalar pieces at R *)
Definition gam (n : nat) : R := @lrsi_gamma R ROps n.

Lemma INR_p1_neq n : INR n + 1 <> 0.
Proof. pose proof (pos_INR n). lra. Qed.

Lemma gam_eq n : gam n = 2 / (INR n + 1).
Proof.
  unfold gam, lrsi_gamma. cbn [sofnat sadd s1 ROps]. rewrite sdivd_R by apply INR_p1_neq.
  unfold s2. cbn [sofdec ROps]. cbn. field. apply INR_p1_neq.
Qed.

Lemma lrsi_cnew n :
  cnew (@lrsi_core R ROps n) = Ok (gam n, {| lr_len := 0%nat; lr_prev := (0, 0, 0, 0); lr_value := None |}).
Proof.
  cbn [cnew lrsi_core]. cbn [sofnat sadd s1 s0 ROps].
  unfold gam, lrsi_gamma, sdivd, s2. cbn [sofnat sadd s1 s0 ROps].
  rewrite sdiv_R_ok by apply INR_p1_neq. reflexivity.
Qed.

Lemma lag_ladder_lad g p v : @lag_ladder R ROps g p v = @lad_step R ROps g p v.
Proof. destruct p as [[[p0 p1] p2] p3]. reflexivity. Qed.

Lemma spos_R x : @spos R ROps x = Rmax 0 x.
Proof.
  unfold spos. cbn [sleb s0 ROps]. destruct (Rleb 0 x) eqn:E.
  - apply Rleb_true in E. rewrite Rmax_right; auto.
  - apply Rleb_false in E. rewrite Rmax_left; lra.
Qed.

Lemma lrsi_ratio_R l : @lrsi_ratio R ROps l = (@lrsi_cu R ROps l, @lrsi_cd R ROps l).
Proof.
  destruct l as [[[l0 l1] l2] l3]. unfold lrsi_ratio, lrsi_cu, lrsi_cd. rewrite !spos_R.
  unfold sgeb. cbn [sleb sadd ssub s0 ROps].
  destruct (Rleb l1 l0) eqn:E1; [apply Rleb_true in E1 | apply Rleb_false in E1];
  (destruct (Rleb l2 l1) eqn:E2; [apply Rleb_true in E2 | apply Rleb_false in E2]);
  (destruct (Rleb l3 l2) eqn:E3; [apply Rleb_true in E3 | apply Rleb_false in E3]);
  f_equal;
  repeat match goal with |- context [Rmax 0 ?x] =>
    first [ rewrite (Rmax_right 0 x) by lra | rewrite (Rmax_left 0 x) by lra ] end; lra.
Qed.

Lemma lrsi_cu_ge0 l : 0 <= @lrsi_cu R ROps l.
Proof.
  destruct l as [[[l0 l1] l2] l3]. unfold lrsi_cu. rewrite !spos_R. cbn [sadd ssub ROps].
  pose proof (Rmax_l 0 (l0 - l1)). pose proof (Rmax_l 0 (l1 - l2)). pose proof (Rmax_l 0 (l2 - l3)). lra.
Qed.
Lemma lrsi_cd_ge0 l : 0 <= @lrsi_cd R ROps l.
Proof.
  destruct l as [[[l0 l1] l2] l3]. unfold lrsi_cd. rewrite !spos_R. cbn [sadd ssub ROps].
  pose proof (Rmax_l 0 (l1 - l0)). pose proof (Rmax_l 0 (l2 - l1)). pose proof (Rmax_l 0 (l3 - l2)). lra.
Qed.

(** * closed form *)
Definition lrsi_inv (n : nat) (h : list R) (s : cst (@lrsi_core R ROps n)) : Prop :=
  fst s = gam n /\
  lr_len (snd s) = Nat.min 3 (length h) /\
  lr_prev (snd s) = @lrsi_stages R ROps (gam n) (skipn 2 h) /\
  lr_value (snd s) = @spec_lrsi R ROps n h.

Lemma lrsi_stages_snoc g xs x :
  @lrsi_stages R ROps g (xs ++ [x]) = @lad_step R ROps g (@lrsi_stages R ROps g xs) x.
Proof. unfold lrsi_stages. rewrite fold_left_app. reflexivity. Qed.

Lemma lrsi_step_inv n h s v : lrsi_inv n h s ->
  exists s', cstep (@lrsi_core R ROps n) s v = Ok s' /\ lrsi_inv n (h ++ [v]) s'.
Proof.
  destruct s as [g st]. intros (Hg & Hlen & Hprev & Hval). cbn [fst snd] in *. subst g.
  cbn [cstep lrsi_core fst snd]. unfold lrsi_step. rewrite Hlen.
  destruct (le_lt_dec 2 (length h)) as [Hl|Hl].
  - (* the ladder runs *)
    assert (Hlen' : (if Nat.leb 3 (Nat.min 3 (length h)) then (Nat.min 3 (length h) - 1)%nat
                     else Nat.min 3 (length h)) = 2%nat).
    { destruct (Nat.leb_spec 3 (Nat.min 3 (length h))); lia. }
    rewrite Hlen'. cbn [Nat.ltb Nat.leb].
    rewrite lag_ladder_lad, lrsi_ratio_R, Hprev.
    assert (Hst : @lad_step R ROps (gam n) (@lrsi_stages R ROps (gam n) (skipn 2 h)) v
                  = @lrsi_stages R ROps (gam n) (skipn 2 (h ++ [v]))).
    { rewrite skipn_snoc by lia. rewrite lrsi_stages_snoc. reflexivity. }
    rewrite Hst.
    assert (Hspec : @spec_lrsi R ROps n (h ++ [v]) =
              match @lrsi_val R ROps (gam n) (skipn 2 (h ++ [v])) with
              | Some y => Some y | None => @spec_lrsi R ROps n h end).
    { unfold spec_lrsi. fold (gam n). rewrite (skipn_snoc 2 h v) by lia. rewrite hold_last_snoc. reflexivity. }
    unfold lrsi_val in Hspec. unfold sneb. cbn [seqb sadd s0 ROps] in *.
    set (l := @lrsi_stages R ROps (gam n) (skipn 2 (h ++ [v]))) in *.
    destruct (Reqb (@lrsi_cu R ROps l + @lrsi_cd R ROps l) 0) eqn:E; cbn [negb].
    + cbn [bind]. eexists; split; [reflexivity|].
      repeat split; cbn [fst snd lr_len lr_prev lr_value].
      * rewrite app_length. cbn [length]. lia.
      * rewrite Hspec. exact Hval.
    + apply Reqb_false in E. rewrite sdiv_R_ok by exact E. cbn [bind].
      eexists; split; [reflexivity|].
      repeat split; cbn [fst snd lr_len lr_prev lr_value].
      * rewrite app_length. cbn [length]. lia.
      * rewrite Hspec. rewrite sdivd_R by exact E. reflexivity.
  - (* swallowed input *)
    assert (Hlen' : (if Nat.leb 3 (Nat.min 3 (length h)) then (Nat.min 3 (length h) - 1)%nat
                     else Nat.min 3 (length h)) = length h).
    { destruct (Nat.leb_spec 3 (Nat.min 3 (length h))); lia. }
    rewrite Hlen'.
    destruct (Nat.ltb_spec (length h) 2) as [_|Hc]; [|lia].
    eexists; split; [reflexivity|].
    assert (Hsk : skipn 2 (h ++ [v]) = []).
    { apply skipn_all2. rewrite app_length. cbn [length]. lia. }
    assert (Hsk0 : skipn 2 h = []) by (apply skipn_all2; lia).
    repeat split; cbn [fst snd lr_len lr_prev lr_value].
    + rewrite app_length. cbn [length]. lia.
    + rewrite Hsk. reflexivity.
    + rewrite Hval. unfold spec_lrsi. rewrite Hsk, Hsk0. reflexivity.
Qed.

Lemma lrsi_run_inv n vs : exists s, crun (@lrsi_core R ROps n) vs = Ok s /\ lrsi_inv n vs s.
Proof.
  apply (@crun_inv R (@lrsi_core R ROps n) (fun _ => True) (lrsi_inv n)
           (gam n, {| lr_len := 0%nat; lr_prev := (0, 0, 0, 0); lr_value := None |})).
  - apply lrsi_cnew.
  - repeat split.
  - intros h s v _ _ Hi. apply lrsi_step_inv; assumption.
  - apply Forall_forall; trivial.
Qed.

(** C11 for LaguerreRSI; no guard on [n] is needed ([INR n + 1 <> 0] for every [n], including 0) *)
Theorem lrsi_closed_form : forall n vs,
  cout (@lrsi_core R ROps n) vs = Ok (@spec_lrsi R ROps n vs).
Proof.
  intros n vs. destruct (lrsi_run_inv n vs) as [s [Hr (_ & _ & _ & Hv)]].
  unfold cout. rewrite Hr. cbn [bind clast lrsi_core]. rewrite Hv. reflexivity.
Qed.

Example lrsi_closed_form_ex :
  cout (@lrsi_core R ROps 0) [1; 2; 3] = Ok (@spec_lrsi R ROps 0 [1; 2; 3]).
Proof. apply lrsi_closed_form. Qed.

(** * C07: range *)
Lemma hold_last_some {A} (f : list A -> option R) (P : R -> Prop) :
  (forall p y, f p = Some y -> P y) -> forall l y, hold_last f l = Some y -> P y.
Proof.
  intros Hf l. induction l as [|x l IH] using rev_ind; intros y H.
  - rewrite hold_last_nil in H. discriminate.
  - rewrite hold_last_snoc in H. destruct (f (l ++ [x])) as [z|] eqn:E.
    + inversion H; subst. eapply Hf; eassumption.
    + apply IH; assumption.
Qed.

Lemma lrsi_val_range g xs y : @lrsi_val R ROps g xs = Some y -> 0 <= y <= 1.
Proof.
  unfold lrsi_val. cbn [seqb sadd s0 ROps].
  set (l := @lrsi_stages R ROps g xs).
  pose proof (lrsi_cu_ge0 l) as Hu. pose proof (lrsi_cd_ge0 l) as Hd.
  destruct (Reqb (@lrsi_cu R ROps l + @lrsi_cd R ROps l) 0) eqn:E; [discriminate|].
  apply Reqb_false in E. rewrite sdivd_R by exact E. intros H; inversion H; subst; clear H.
  set (cu := @lrsi_cu R ROps l) in *. set (cd := @lrsi_cd R ROps l) in *. clearbody cu cd.
  assert (Hp : 0 < cu + cd) by lra.
  split.
  - apply Rmult_le_pos; [lra|]. left. apply Rinv_0_lt_compat; lra.
  - apply Rmult_le_reg_r with (cu + cd); [lra|]. unfold Rdiv. rewrite Rmult_assoc, Rinv_l by lra. lra.
Qed.

Lemma spec_lrsi_range n vs y : @spec_lrsi R ROps n vs = Some y -> 0 <= y <= 1.
Proof.
  unfold spec_lrsi.
  apply (@hold_last_some R (@lrsi_val R ROps (@lrsi_gamma R ROps n)) (fun y => 0 <= y <= 1)).
  intros p z. apply lrsi_val_range.
Qed.

Theorem lrsi_range : forall n vs y,
  cout (@lrsi_core R ROps n) vs = Ok (Some y) -> 0 <= y <= 1.
Proof.
  intros n vs y H. rewrite lrsi_closed_form in H. inversion H as [H1]. eapply spec_lrsi_range; eassumption.
Qed.

(** * C12: scale invariance *)
Definition sc4 (a : R) (l : R * R * R * R) : R * R * R * R :=
  let '(l0, l1, l2, l3) := l in (a * l0, a * l1, a * l2, a * l3).

Lemma lad_step_scale g a p x :
  @lad_step R ROps g (sc4 a p) (a * x) = sc4 a (@lad_step R ROps g p x).
Proof.
  destruct p as [[[p0 p1] p2] p3]. unfold lad_step, sc4. cbn [sadd ssub smul sneg s1 ROps].
  f_equal; [f_equal; [f_equal|]|]; ring.
Qed.

Lemma lrsi_stages_scale g a xs :
  @lrsi_stages R ROps g (map (Rmult a) xs) = sc4 a (@lrsi_stages R ROps g xs).
Proof.
  induction xs as [|x xs IH] using rev_ind.
  - unfold lrsi_stages, sc4. cbn [map fold_left s0 ROps]. f_equal; [f_equal; [f_equal|]|]; ring.
  - rewrite map_app. cbn [map]. rewrite !lrsi_stages_snoc, IH. apply lad_step_scale.
Qed.

Lemma Rmax0_scale a x : 0 < a -> Rmax 0 (a * x) = a * Rmax 0 x.
Proof.
  intros Ha. destruct (Rle_dec 0 x) as [H|H].
  - rewrite !Rmax_right; auto. apply Rmult_le_pos; lra.
  - apply Rnot_le_lt in H. rewrite !Rmax_left; try lra. nra.
Qed.

Lemma lrsi_cu_scale a l : 0 < a -> @lrsi_cu R ROps (sc4 a l) = a * @lrsi_cu R ROps l.
Proof.
  intros Ha. destruct l as [[[l0 l1] l2] l3]. unfold lrsi_cu, sc4. rewrite !spos_R. cbn [sadd ssub ROps].
  rewrite <- !Rmult_minus_distr_l, !Rmax0_scale by exact Ha. ring.
Qed.
Lemma lrsi_cd_scale a l : 0 < a -> @lrsi_cd R ROps (sc4 a l) = a * @lrsi_cd R ROps l.
Proof.
  intros Ha. destruct l as [[[l0 l1] l2] l3]. unfold lrsi_cd, sc4. rewrite !spos_R. cbn [sadd ssub ROps].
  rewrite <- !Rmult_minus_distr_l, !Rmax0_scale by exact Ha. ring.
Qed.

Lemma lrsi_val_scale g a xs : 0 < a ->
  @lrsi_val R ROps g (map (Rmult a) xs) = @lrsi_val R ROps g xs.
Proof.
  intros Ha. unfold lrsi_val. rewrite lrsi_stages_scale.
  rewrite lrsi_cu_scale, lrsi_cd_scale by exact Ha.
  set (l := @lrsi_stages R ROps g xs).
  set (cu := @lrsi_cu R ROps l). set (cd := @lrsi_cd R ROps l). clearbody cu cd.
  cbn [seqb sadd smul s0 ROps].
  destruct (Reqb (cu + cd) 0) eqn:E.
  - apply Reqb_true in E. assert (E' : a * cu + a * cd = 0) by nra.
    apply Reqb_true in E'. rewrite E'. reflexivity.
  - apply Reqb_false in E.
    assert (E' : a * cu + a * cd <> 0).
    { intros Hc. apply E. assert (a * (cu + cd) = 0) by lra.
      apply Rmult_integral in H. destruct H; lra. }
    pose proof E' as E''. apply Reqb_false in E''. rewrite E''.
    rewrite !sdivd_R by assumption. f_equal. field. split; lra.
Qed.

Lemma hold_last_map {A B} (m : A -> B) (f : list B -> option R) (l : list A) :
  hold_last f (map m l) = hold_last (fun p => f (map m p)) l.
Proof.
  induction l as [|x l IH] using rev_ind; [reflexivity|].
  rewrite map_app. cbn [map]. rewrite !hold_last_snoc, IH, map_app. reflexivity.
Qed.

Lemma hold_last_ext {A} (f g : list A -> option R) (l : list A) :
  (forall p, f p = g p) -> hold_last f l = hold_last g l.
Proof.
  intros H. induction l as [|x l IH] using rev_ind; [reflexivity|].
  rewrite !hold_last_snoc, IH, H. reflexivity.
Qed.

Theorem lrsi_scale_invariant : forall n a vs, 0 < a ->
  @spec_lrsi R ROps n (map (Rmult a) vs) = @spec_lrsi R ROps n vs.
Proof.
  intros n a vs Ha. unfold spec_lrsi. rewrite skipn_map, hold_last_map.
  apply hold_last_ext. intros p. apply lrsi_val_scale; assumption.
Qed.

Corollary lrsi_scale_invariant_cout : forall n a vs, 0 < a ->
  cout (@lrsi_core R ROps n) (map (Rmult a) vs) = cout (@lrsi_core R ROps n) vs.
Proof.
  intros n a vs Ha. rewrite !lrsi_closed_form, lrsi_scale_invariant by assumption. reflexivity.
Qed.

Example lrsi_scale_invariant_ex :
  @spec_lrsi R ROps 16 (map (Rmult 3) [1; 2; 4; 3]) = @spec_lrsi R ROps 16 [1; 2; 4; 3].
Proof. apply lrsi_scale_invariant. lra. Qed.

(** the range statement is not vacuous: an input with an output *)
Example lrsi_range_ex : exists y, cout (@lrsi_core R ROps 3) [0; 0; 1] = Ok (Some y) /\ 0 <= y <= 1.
Proof.
  assert (H : exists y, cout (@lrsi_core R ROps 3) [0; 0; 1] = Ok (Some y)).
  { rewrite lrsi_closed_form. unfold spec_lrsi. cbn [skipn].
    replace [1] with (@nil R ++ [1]) by reflexivity. rewrite hold_last_snoc. cbn [app].
    unfold lrsi_val. fold (gam 3). rewrite gam_eq. cbn [INR].
    replace (2 / (1 + 1 + 1 + 1)) with (1 / 2) by field.
    unfold lrsi_stages, lad_step. cbn [fold_left sadd ssub smul sneg s0 s1 ROps].
    unfold lrsi_cu, lrsi_cd. rewrite !spos_R. cbn [sadd ssub seqb s0 ROps].
    destruct (Reqb _ 0) eqn:E; [|eauto].
    apply Reqb_true in E. exfalso. revert E.
    repeat match goal with |- context [Rmax 0 ?x] =>
      first [ rewrite (Rmax_right 0 x) by lra | rewrite (Rmax_left 0 x) by lra ] end. lra. }
  destruct H as [y Hy]. exists y. split; [exact Hy|]. eapply lrsi_range; eassumption.
Qed.

Print Assumptions lrsi_closed_form.
Print Assumptions lrsi_range.
Print Assumptions lrsi_scale_invariant.
Print Assumptions lrsi_scale_invariant_cout.
