(** C17 (determinism, purity of [last], clone independence), scalar-generic, for an arbitrary view:
    the instance-table semantics of [Exec.v] coincides with a semantics that keeps, per instance, only
    its *lineage* (the values it was updated with since construction, inherited on clone) and replays
    it from the constructed state. *)
From Coq Require Import List Arith Lia Bool.
From SF Require Import Res Scalar View Models Exec SpecStruct.
From SF.Proofs Require Import StructBound.
Import ListNotations.

Section Sched.
Variable T : Type.
Variable v : view T.

(** * Generic list facts *)
Lemma set_nth_lset (l : insts v) i x : set_nth l i x = lset l i x.
Proof. revert i; induction l as [|y l IH]; intros [|i]; cbn; try reflexivity. rewrite IH; reflexivity. Qed.

Lemma lset_length {A} (l : list A) i x : length (lset l i x) = length l.
Proof. revert i; induction l as [|y l IH]; intros [|i]; cbn; auto. Qed.

Lemma nth_lset_eq {A} (l : list A) i x : i < length l -> nth_error (lset l i x) i = Some x.
Proof. revert i; induction l as [|y l IH]; intros [|i] H; cbn in *; try lia; [reflexivity | apply IH; lia]. Qed.

Lemma nth_lset_neq {A} (l : list A) i j x : i <> j -> nth_error (lset l i x) j = nth_error l j.
Proof.
  revert i j; induction l as [|y l IH]; intros [|i] [|j] H; cbn; try reflexivity; try congruence.
  apply IH; congruence.
Qed.

Lemma lset_same {A} (l : list A) i x : nth_error l i = Some x -> lset l i x = l.
Proof.
  revert i; induction l as [|y l IH]; intros [|i] H; cbn in *; try discriminate.
  - congruence.
  - rewrite IH; auto.
Qed.

Lemma Forall2_lset {A B} (R : A -> B -> Prop) l t i a b :
  Forall2 R l t -> R a b -> Forall2 R (lset l i a) (lset t i b).
Proof.
  intros H Hab. revert i. induction H as [|x y l t Hxy H IH]; intros [|i]; cbn; constructor; auto.
Qed.

Lemma Forall2_nth {A B} (R : A -> B -> Prop) l t i :
  Forall2 R l t ->
  match nth_error l i, nth_error t i with
  | Some a, Some b => R a b
  | None, None => True
  | _, _ => False
  end.
Proof. intros H. revert i. induction H as [|x y l t Hxy H IH]; intros [|i]; cbn; auto. apply IH. Qed.

(** * Schedules: final table, decomposition of a run *)
Fixpoint sched_tab (l : insts v) (ops : list (op T)) : insts v :=
  match ops with [] => l | o :: r => sched_tab (fst (sched_step l o)) r end.

Lemma sched_tab_app l a b : sched_tab l (a ++ b) = sched_tab (sched_tab l a) b.
Proof. revert l; induction a as [|o a IH]; intros l; cbn; [reflexivity | apply IH]. Qed.

(** every observation of a run is the observation of one step from the table reached by the prefix *)
Lemma sched_run_split l pre o post :
  sched_run l (pre ++ o :: post) =
  sched_run l pre ++ snd (sched_step (sched_tab l pre) o) :: sched_run (sched_tab l (pre ++ [o])) post.
Proof.
  revert l; induction pre as [|u pre IH]; intros l; cbn.
  - destruct (sched_step l o) as [l' ob]; reflexivity.
  - destruct (sched_step l u) as [l' ob] eqn:E; cbn. rewrite IH. reflexivity.
Qed.

Lemma sched_run_length (l : insts v) ops : length (sched_run l ops) = length ops.
Proof. revert l; induction ops as [|o r IH]; intros l; cbn; [reflexivity|]. destruct (sched_step l o). cbn. rewrite IH. reflexivity. Qed.

Lemma sched_run_nth (l : insts v) pre o post :
  nth_error (sched_run l (pre ++ o :: post)) (length pre) = Some (snd (sched_step (sched_tab l pre) o)).
Proof.
  rewrite sched_run_split, nth_error_app2; rewrite sched_run_length; [|lia]. rewrite Nat.sub_diag. reflexivity.
Qed.

(** * Lineage semantics *)
Variable s0 : vst v.

(** what a live instance with lineage [lin] answers: replay from the constructed state *)
Definition lin_obs (lin : list T) : res (vst v * option T) :=
  do s <- steps v s0 lin; do o <- vlast v s; Ok (s, o).
(** observation and reported population; [upd]: the operation is an update (population is reported) *)
Definition expect (lin : list T) (upd : bool) : xo T * nat :=
  match lin_obs lin with
  | Err _ => (XE, 0)
  | Ok (s, None) => (XN, if upd then vpop v s else 0)
  | Ok (s, Some y) => (XS y, if upd then vpop v s else 0)
  end.

(** lineage table with liveness: an instance dies at the first failing operation on it *)
Definition ltab := list (list T * bool).
Definition lin_step (t : ltab) (o : op T) : ltab * (xo T * nat) :=
  match o with
  | OU i x =>
      match nth_error t i with
      | Some (lin, true) =>
          (lset t i (lin ++ [x], is_ok (lin_obs (lin ++ [x]))), expect (lin ++ [x]) true)
      | Some (lin, false) => (lset t i (lin ++ [x], false), (XX, 0))
      | None => (t, (XX, 0))
      end
  | OL i =>
      match nth_error t i with
      | Some (lin, true) => (lset t i (lin, is_ok (lin_obs lin)), expect lin false)
      | _ => (t, (XX, 0))
      end
  | OC i =>
      match nth_error t i with
      | Some (lin, true) => (t ++ [(lin, true)], (XC, 0))
      | Some (lin, false) => (t ++ [(lin, false)], (XX, 0))
      | None => (t ++ [([], false)], (XX, 0))
      end
  end.
Fixpoint lin_run (t : ltab) (ops : list (op T)) : list (xo T * nat) :=
  match ops with [] => [] | o :: r => let '(t', ob) := lin_step t o in ob :: lin_run t' r end.
Fixpoint lin_tab (t : ltab) (ops : list (op T)) : ltab :=
  match ops with [] => t | o :: r => lin_tab (fst (lin_step t o)) r end.

(** the lineage component of the table is the pure lineage *)
Lemma lin_step_lineage t o : map fst (fst (lin_step t o)) = lin_upd (map fst t) o.
Proof.
  assert (Hset : forall (t : ltab) i e, map fst (lset t i e) = lset (map fst t) i (fst e)).
  { induction t0 as [|y t0 IH]; intros [|i] e; cbn; try reflexivity. rewrite IH; reflexivity. }
  destruct o as [i x|i|i]; cbn; rewrite ?nth_error_map.
  - destruct (nth_error t i) as [[lin [|]]|]; cbn; rewrite ?Hset; reflexivity.
  - destruct (nth_error t i) as [[lin [|]]|] eqn:E; cbn; rewrite ?Hset; try reflexivity.
    cbn. apply lset_same. rewrite nth_error_map, E. reflexivity.
  - destruct (nth_error t i) as [[lin [|]]|]; cbn; rewrite map_app; reflexivity.
Qed.
Lemma lin_tab_lineage t ops : map fst (lin_tab t ops) = lineages_from (map fst t) ops.
Proof.
  revert t; induction ops as [|o r IH]; intros t; cbn; [reflexivity|]. rewrite IH, lin_step_lineage. reflexivity.
Qed.

(** * The two semantics coincide *)
Definition irel (a : option (vst v)) (b : list T * bool) : Prop :=
  match a, b with
  | Some s, (lin, true) => steps v s0 lin = Ok s
  | None, (_, false) => True
  | _, _ => False
  end.
Definition rel (l : insts v) (t : ltab) : Prop := Forall2 irel l t.

Lemma steps_snoc s xs x : steps v s (xs ++ [x]) = do s' <- steps v s xs; vupd v s' x.
Proof.
  revert s; induction xs as [|y xs IH]; intros s; cbn.
  - destruct (vupd v s x); reflexivity.
  - destruct (vupd v s y); cbn; [apply IH | reflexivity].
Qed.

Lemma step_rel (l : insts v) t o : rel l t ->
  snd (sched_step l o) = snd (lin_step t o) /\ rel (fst (sched_step l o)) (fst (lin_step t o)).
Proof.
  intros H. unfold rel in *.
  destruct o as [i x|i|i]; cbn [sched_step lin_step]; unfold get_inst;
    pose proof (Forall2_nth irel l t i H) as Hi;
    destruct (nth_error l i) as [[s|]|] eqn:El; destruct (nth_error t i) as [[lin [|]]|] eqn:Et;
    cbn in Hi; try contradiction; cbn [fst snd]; rewrite ?set_nth_lset.
  - (* update, live *)
    unfold expect, lin_obs. rewrite steps_snoc, Hi. cbn [bind].
    destruct (vupd v s x) as [s'|e] eqn:Eu; cbn [bind is_ok].
    + destruct (vlast v s') as [[y|]|e] eqn:Ey; cbn [bind is_ok fst snd];
        (split; [reflexivity|]); rewrite ?set_nth_lset; apply Forall2_lset; auto; cbn; rewrite ?steps_snoc, ?Hi; cbn; auto.
    + split; [reflexivity|]. rewrite ?set_nth_lset. apply Forall2_lset; cbn; auto.
  - (* update, dead *)
    split; [reflexivity|]. rewrite <- (lset_same l i None El) at 1. apply Forall2_lset; cbn; auto.
  - split; [reflexivity | assumption].
  - (* last, live *)
    unfold expect, lin_obs. rewrite Hi. cbn [bind].
    destruct (vlast v s) as [[y|]|e] eqn:Ey; cbn [bind is_ok fst snd]; (split; [reflexivity|]).
    + rewrite lset_same; assumption.
    + rewrite lset_same; assumption.
    + rewrite ?set_nth_lset. apply Forall2_lset; cbn; auto.
  - split; [reflexivity | assumption].
  - split; [reflexivity | assumption].
  - split; [reflexivity|]. apply Forall2_app; [assumption|]. constructor; [|constructor]. cbn. assumption.
  - split; [reflexivity|]. apply Forall2_app; [assumption|]. constructor; [|constructor]. cbn. trivial.
  - split; [reflexivity|]. apply Forall2_app; [assumption|]. constructor; [|constructor]. cbn. trivial.
Qed.

Lemma run_rel (l : insts v) t ops : rel l t -> sched_run l ops = lin_run t ops /\ rel (sched_tab l ops) (lin_tab t ops).
Proof.
  revert l t; induction ops as [|o r IH]; intros l t H; cbn; [auto|].
  destruct (step_rel l t o H) as [Ho Hr].
  destruct (sched_step l o) as [l' ob]; destruct (lin_step t o) as [t' ob']; cbn in *. subst ob'.
  destruct (IH l' t' Hr) as [E1 E2]. rewrite E1. auto.
Qed.

Lemma rel_init : rel [Some s0] [([], true)].
Proof. constructor; [reflexivity | constructor]. Qed.

(** C17, main theorem: the whole run of any schedule is the lineage-replay run.  Each observation is
    [XX] (instance dead or absent) or [expect lineage_i]: a function of the update lineage alone. *)
Theorem sched_run_lineage ops : sched_run [Some s0] ops = lin_run [([], true)] ops.
Proof. apply run_rel, rel_init. Qed.


(** per observation: the answer to an operation on instance [i] issued after any schedule [ops] is
    [XX] (the instance is dead: an earlier operation on it or on the instance it was cloned from
    failed, or it does not exist) or it is [vlast] at [steps v s0 lineage_i] -- whatever [last]
    operations were interleaved, whatever happened to other instances, whenever clones were taken *)
Theorem lineage_obs ops o :
  let ob := snd (sched_step (sched_tab [Some s0] ops) o) in
  ob = (XX, 0) \/
  match o with
  | OU i x => exists lin, nth_error (lineages ops) i = Some lin /\ ob = expect (lin ++ [x]) true
  | OL i => exists lin, nth_error (lineages ops) i = Some lin /\ ob = expect lin false
  | OC i => ob = (XC, 0)
  end.
Proof.
  cbn zeta. destruct (run_rel [Some s0] [([], true)] ops rel_init) as [_ Hr].
  destruct (step_rel _ _ o Hr) as [Ho _]. rewrite Ho.
  unfold lineages. change [[]] with (map fst [(@nil T, true)]). rewrite <- lin_tab_lineage.
  set (t := lin_tab [([], true)] ops). clearbody t.
  destruct o as [i x|i|i]; cbn [lin_step]; rewrite ?nth_error_map;
    destruct (nth_error t i) as [[lin [|]]|]; cbn [snd option_map]; auto; right; eauto.
Qed.

(** ** Corollary 1: [last] is pure *)
(** an [OL] reports no population, leaves every other instance alone, never changes a live state,
    and leaves the whole table unchanged unless it fails (then only that instance dies) *)
Theorem last_pure (l : insts v) i :
  snd (snd (sched_step l (OL i))) = 0
  /\ (fst (snd (sched_step l (OL i))) <> XE -> fst (sched_step l (OL i)) = l)
  /\ (forall j s, get_inst (fst (sched_step l (OL i))) j = Some s -> get_inst l j = Some s)
  /\ (forall j, j <> i -> nth_error (fst (sched_step l (OL i))) j = nth_error l j).
Proof.
  cbn [sched_step]. destruct (get_inst l i) as [s|] eqn:Eg; cbn [fst snd]; [|repeat split; auto; congruence].
  destruct (vlast v s) as [[y|]|e]; cbn [fst snd]; repeat split; auto; try congruence.
  - intros j s1. unfold get_inst. rewrite set_nth_lset. destruct (Nat.eq_dec i j) as [->|Hn].
    + destruct (nth_error l j) as [a|] eqn:E.
      * rewrite nth_lset_eq; [discriminate|]. apply nth_error_Some. congruence.
      * assert (Hl : length l <= j) by (apply nth_error_None; assumption).
        assert (E2 : nth_error (lset l j (@None (vst v))) j = None) by (apply nth_error_None; rewrite lset_length; assumption).
        rewrite E2. discriminate.
    + rewrite nth_lset_neq by assumption. auto.
  - intros j Hj. rewrite set_nth_lset. apply nth_lset_neq. congruence.
Qed.

(** erasing the [last] operations from a schedule leaves every other observation unchanged
    (provided no erased [last] failed) *)
Definition keep (o : op T) : bool := match o with OL _ => false | _ => true end.
Fixpoint erase_last {A} (ops : list (op T)) (obs : list A) : list A :=
  match ops, obs with
  | o :: r, b :: bs => if keep o then b :: erase_last r bs else erase_last r bs
  | _, _ => []
  end.
Fixpoint last_ok (ops : list (op T)) (obs : list (xo T * nat)) : Prop :=
  match ops, obs with
  | OL _ :: r, b :: bs => fst b <> XE /\ last_ok r bs
  | _ :: r, _ :: bs => last_ok r bs
  | _, _ => True
  end.
Theorem last_erasure (l : insts v) ops :
  last_ok ops (sched_run l ops) ->
  sched_run l (filter keep ops) = erase_last ops (sched_run l ops).
Proof.
  revert l; induction ops as [|o r IH]; intros l H; cbn [filter]; [reflexivity|].
  destruct o as [i x|i|i]; cbn [keep].
  - cbn [sched_run] in *. destruct (sched_step l (OU i x)) as [l' ob]. cbn [erase_last keep last_ok] in *. rewrite IH; auto.
  - cbn [sched_run] in *. destruct (last_pure l i) as (_ & Hp & _).
    destruct (sched_step l (OL i)) as [l' ob]. cbn [erase_last keep last_ok fst snd] in *.
    destruct H as [Hx H]. pose proof (Hp Hx) as El. subst l'. apply IH; assumption.
  - cbn [sched_run] in *. destruct (sched_step l (OC i)) as [l' ob]. cbn [erase_last keep last_ok] in *. rewrite IH; auto.
Qed.

(** ** Corollary 2: same update lineage, same observations *)
(** two schedules (over the same constructed state), an instance in each, both live, with the same
    lineage: a [last] (resp. an update with the same value) is answered identically *)
Theorem same_lineage_same_last ops1 ops2 i j lin :
  nth_error (lineages ops1) i = Some lin -> nth_error (lineages ops2) j = Some lin ->
  let ob1 := snd (sched_step (sched_tab [Some s0] ops1) (OL i)) in
  let ob2 := snd (sched_step (sched_tab [Some s0] ops2) (OL j)) in
  ob1 <> (XX, 0) -> ob2 <> (XX, 0) -> ob1 = ob2.
Proof.
  intros H1 H2 ob1 ob2 N1 N2.
  destruct (lineage_obs ops1 (OL i)) as [E1|(l1 & L1 & E1)]; [contradiction|].
  destruct (lineage_obs ops2 (OL j)) as [E2|(l2 & L2 & E2)]; [contradiction|].
  unfold ob1, ob2. rewrite E1, E2. congruence.
Qed.
Theorem same_lineage_same_update ops1 ops2 i j lin x :
  nth_error (lineages ops1) i = Some lin -> nth_error (lineages ops2) j = Some lin ->
  let ob1 := snd (sched_step (sched_tab [Some s0] ops1) (OU i x)) in
  let ob2 := snd (sched_step (sched_tab [Some s0] ops2) (OU j x)) in
  ob1 <> (XX, 0) -> ob2 <> (XX, 0) -> ob1 = ob2.
Proof.
  intros H1 H2 ob1 ob2 N1 N2.
  destruct (lineage_obs ops1 (OU i x)) as [E1|(l1 & L1 & E1)]; [contradiction|].
  destruct (lineage_obs ops2 (OU j x)) as [E2|(l2 & L2 & E2)]; [contradiction|].
  unfold ob1, ob2. rewrite E1, E2. congruence.
Qed.

(** ** Corollary 3: instances (in particular clones) are independent *)
Definition target (o : op T) : nat := match o with OU i _ | OL i | OC i => i end.
(** [u] does not act on instance [i] (taking a clone of [i] does not act on it) *)
Definition off (i : nat) (u : op T) : Prop :=
  match u with OU k _ | OL k => k <> i | OC _ => True end.

Lemma sched_step_length (l : insts v) u : length l <= length (fst (sched_step l u)).
Proof.
  destruct u as [k x|k|k]; cbn [sched_step]; destruct (get_inst l k) as [s|]; cbn [fst]; try lia.
  - destruct (vupd v s x) as [s'|]; [destruct (vlast v s') as [[y|]|]|]; cbn [fst]; rewrite set_nth_lset, lset_length; lia.
  - destruct (vlast v s) as [[y|]|]; cbn [fst]; rewrite ?set_nth_lset, ?lset_length; lia.
  - rewrite app_length; lia.
  - rewrite app_length; lia.
Qed.

Lemma sched_step_frame (l : insts v) i u : off i u -> i < length l ->
  nth_error (fst (sched_step l u)) i = nth_error l i.
Proof.
  intros Hoff Hi. destruct u as [k x|k|k]; cbn [sched_step off] in *; destruct (get_inst l k) as [s|]; cbn [fst]; try reflexivity.
  - destruct (vupd v s x) as [s'|]; [destruct (vlast v s') as [[y|]|]|]; cbn [fst]; rewrite set_nth_lset; apply nth_lset_neq; assumption.
  - destruct (vlast v s) as [[y|]|]; cbn [fst]; rewrite ?set_nth_lset; try reflexivity. apply nth_lset_neq; assumption.
  - apply nth_error_app1; assumption.
  - apply nth_error_app1; assumption.
Qed.

Lemma sched_tab_frame (l : insts v) i us : Forall (off i) us -> i < length l ->
  nth_error (sched_tab l us) i = nth_error l i.
Proof.
  revert l; induction us as [|u us IH]; intros l H Hi; cbn; [reflexivity|].
  inversion H as [|? ? Hu Hus]; subst. rewrite IH; [apply sched_step_frame; assumption | assumption |].
  pose proof (sched_step_length l u). lia.
Qed.

(** the observation of an operation depends on the entry of its target instance only *)
Lemma sched_obs_local (l1 l2 : insts v) o :
  nth_error l1 (target o) = nth_error l2 (target o) -> snd (sched_step l1 o) = snd (sched_step l2 o).
Proof.
  intros H. destruct o as [i x|i|i]; cbn [target sched_step] in *; unfold get_inst; rewrite H;
    destruct (nth_error l2 i) as [[s|]|]; try reflexivity.
  - destruct (vupd v s x) as [s'|]; [destruct (vlast v s') as [[y|]|]|]; reflexivity.
  - destruct (vlast v s) as [[y|]|]; reflexivity.
Qed.

(** operations on other instances -- updates, lasts, clones of anything -- inserted before an
    operation on an existing instance [i] do not change what that operation shows *)
Theorem instance_independence (l : insts v) us o :
  target o < length l -> Forall (off (target o)) us ->
  snd (sched_step (sched_tab l us) o) = snd (sched_step l o).
Proof. intros Hi Hus. apply sched_obs_local, sched_tab_frame; assumption. Qed.

(** clone independence: after [OC i] created instance [j], any number of operations on [j] (and on
    other instances) leaves the later observations of [i] as if they had not happened -- and as if
    the clone had never been taken *)
Theorem clone_independence pre i us o :
  let l := sched_tab [Some s0] pre in
  let j := length l in
  i < length l -> target o = i -> Forall (off i) us ->
  snd (sched_step (sched_tab [Some s0] (pre ++ OC i :: us)) o) = snd (sched_step l o)
  /\ length (sched_tab [Some s0] (pre ++ [OC i])) = S j.
Proof.
  cbn zeta. intros Hi Ht Hus. split.
  - rewrite sched_tab_app. apply instance_independence; rewrite Ht; [assumption|]. constructor; [exact I | assumption].
  - rewrite sched_tab_app. cbn [sched_tab sched_step]. destruct (get_inst _ i); cbn [fst]; rewrite app_length; cbn; lia.
Qed.

(** in particular updates of the clone [j] itself are [off i] *)
Lemma updates_of_clone_off i j (xs : list T) : i <> j -> Forall (off i) (map (fun x => OU j x) xs).
Proof. intros H. apply Forall_forall. intros u Hu. apply in_map_iff in Hu. destruct Hu as [x [<- _]]. cbn. congruence. Qed.

(** ** Determinism: a schedule has exactly one run; the table and observations are functions of it *)
Theorem sched_deterministic ops r1 r2 : sched v ops = Some r1 -> sched v ops = Some r2 -> r1 = r2.
Proof. congruence. Qed.

(** ** C18 along schedules: every reported population obeys the bound of the view *)
Theorem sched_pop_bounded (Iv : vst v -> Prop) B : view_inv v Iv B ->
  forall (l : insts v) ops, Forall (fun e => match e with Some s => Iv s | None => True end) l ->
  Forall (fun ob => snd ob <= B) (sched_run l ops).
Proof.
  intros [Hn Hu Hp]. intros l ops; revert l. induction ops as [|o r IH]; intros l Hl; cbn [sched_run]; [constructor|].
  assert (Hget : forall i s, get_inst l i = Some s -> Iv s).
  { intros i s. unfold get_inst. destruct (nth_error l i) as [[s1|]|] eqn:E; try discriminate.
    intros Hs; inversion Hs; subst. apply nth_error_In in E. rewrite Forall_forall in Hl. apply (Hl _ E). }
  assert (Hset : forall i e, match e with Some s => Iv s | None => True end ->
                 Forall (fun e => match e with Some s => Iv s | None => True end) (set_nth l i e)).
  { intros i e He. rewrite set_nth_lset. clear -Hl He. revert i. induction Hl as [|y l Hy Hl IHl]; intros [|i]; cbn; constructor; auto. }
  destruct o as [i x|i|i]; cbn [sched_step].
  - destruct (get_inst l i) as [s|] eqn:Eg; [|constructor; [cbn; lia | apply IH; assumption]].
    specialize (Hget _ _ Eg).
    destruct (vupd v s x) as [s'|] eqn:Eu; [|constructor; [cbn; lia | apply IH, Hset; exact Logic.I]].
    pose proof (Hu _ _ _ Hget Eu) as Hs'.
    destruct (vlast v s') as [[y|]|]; (constructor; [cbn; auto; try lia | apply IH, Hset; auto]).
  - destruct (get_inst l i) as [s|] eqn:Eg; [|constructor; [cbn; lia | apply IH; assumption]].
    destruct (vlast v s) as [[y|]|]; (constructor; [cbn; lia | apply IH; auto; try (apply Hset; exact Logic.I)]).
  - destruct (get_inst l i) as [s|] eqn:Eg; (constructor; [cbn; lia | apply IH]); apply Forall_app; split; auto; constructor; eauto.
Qed.

End Sched.

Arguments lin_run {T} v s0 t ops.
Arguments lin_tab {T} v s0 t ops.
Arguments lin_step {T} v s0 t o.
Arguments lin_obs {T} v s0 lin.
Arguments expect {T} v s0 lin upd.
Arguments sched_tab {T} v l ops.
Arguments target {T} o.
Arguments off {T} i u.
Arguments keep {T} o.
Arguments last_ok {T} ops obs.
Arguments erase_last {T} {A} ops obs.
Arguments sched_run_lineage {T} v s0 ops.
Arguments lineage_obs {T} v s0 ops o.
Arguments clone_independence {T} v s0 pre i us o.
Arguments instance_independence {T} v l us o.
Arguments same_lineage_same_last {T} v s0 ops1 ops2 i j lin.
Arguments same_lineage_same_update {T} v s0 ops1 ops2 i j lin x.
Arguments sched_pop_bounded {T} v Iv B.

(** the run of [sched] (constructor, then the schedule) in lineage form *)
Corollary sched_lineage {T} (v : view T) ops r :
  sched v ops = Some r -> exists s0, vnew v = Ok s0 /\ r = lin_run v s0 [([], true)] ops.
Proof.
  unfold sched. destruct (vnew v) as [s0|e]; [|discriminate]. intros H; inversion H; subst.
  exists s0. split; [reflexivity | apply sched_run_lineage].
Qed.

(** C18 for the catalogue, as observed by the correspondence check: every population reported by a
    schedule over [denote d] is at most [pop_bound d] *)
Corollary sched_pop_bound {T} {OT : Ops T} (d : desc T) ops r :
  sched (denote d) ops = Some r -> Forall (fun ob => snd ob <= pop_bound d) r.
Proof.
  unfold sched. destruct (vnew (denote d)) as [s0|e] eqn:E; [|discriminate]. intros H; inversion H; subst.
  destruct (pop_bound_bounded d) as [Iv HI]. eapply sched_pop_bounded; [exact HI|].
  constructor; [|constructor]. eapply vi_new; eassumption.
Qed.

(** * Examples *)
From Coq Require Import QArith.
Open Scope nat_scope.

Definition ex_view : view Q := denote (DSma 2 (@DEcho Q)).
Definition ex_ops : list (op Q) := [OU 0 (1#1); OC 0; OU 1 (5#1); OL 0; OL 0; OU 0 (3#1); OL 1; OC 1; OU 2 (7#1)]%Q.

Example ex_lineages : lineages ex_ops = [[1#1; 3#1]; [1#1; 5#1]; [1#1; 5#1; 7#1]]%Q.
Proof. reflexivity. Qed.

Example ex_run : sched ex_view ex_ops =
  Some [(XN, 1); (XC, 0); (XS (3#1)%Q, 2); (XN, 0); (XN, 0); (XS (2#1)%Q, 2); (XS (3#1)%Q, 0); (XC, 0); (XS (6#1)%Q, 2)].
Proof. vm_compute. reflexivity. Qed.

(** hypotheses of [clone_independence] / [same_lineage_same_last] are satisfiable *)
Example ex_clone_independence :
  exists s0, vnew ex_view = Ok s0 /\
  snd (sched_step (sched_tab ex_view [Some s0] ([OU 0 (1#1)] ++ OC 0 :: [OU 1 (5#1); OU 1 (6#1); OL 1])) (OU 0 (3#1)))
  = snd (sched_step (sched_tab ex_view [Some s0] [OU 0 (1#1)]) (OU 0 (3#1))).
Proof.
  eexists. split; [reflexivity|].
  refine (proj1 (clone_independence ex_view _ [OU 0 (1#1)%Q] 0 [OU 1 (5#1); OU 1 (6#1); OL 1]%Q (OU 0 (3#1)%Q) _ eq_refl _)).
  - cbn. lia.
  - repeat constructor; cbn; lia.
Qed.

Example ex_same_lineage :
  exists s0, vnew ex_view = Ok s0 /\
  snd (sched_step (sched_tab ex_view [Some s0] [OU 0 (1#1); OL 0; OU 0 (3#1)]%Q) (OL 0))
  = snd (sched_step (sched_tab ex_view [Some s0] [OU 0 (1#1); OC 0; OU 0 (9#1); OU 1 (3#1)]%Q) (OL 1)).
Proof.
  eexists. split; [reflexivity|].
  apply (same_lineage_same_last ex_view _ [OU 0 (1#1); OL 0; OU 0 (3#1)]%Q [OU 0 (1#1); OC 0; OU 0 (9#1); OU 1 (3#1)]%Q 0 1 [1#1; 3#1]%Q);
    try reflexivity; vm_compute; discriminate.
Qed.

Print Assumptions sched_run_lineage.
Print Assumptions lineage_obs.
Print Assumptions last_pure.
Print Assumptions last_erasure.
Print Assumptions same_lineage_same_last.
Print Assumptions same_lineage_same_update.
Print Assumptions instance_independence.
Print Assumptions clone_independence.
Print Assumptions sched_pop_bound.
